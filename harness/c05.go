//go:build verif

package main

import (
	"context"
	"fmt"
	"sort"
	"strings"
	"sync"
	"time"

	"perkeep.org/pkg/blob"
	"perkeep.org/pkg/index"
	"perkeep.org/pkg/schema"
	"perkeep.org/pkg/sorted"
	"perkeep.org/pkg/test"
)

func init() { props["C05"] = runC05 }

type wblob struct {
	id    int
	b     *test.Blob
	kind  string
	fdeps []int // blobs its indexing fetches, in fetch order
	idep  int   // blob whose meta row it needs (0 = none)
	date  time.Time
}

type c05World struct {
	w       *world
	blobs   []*wblob // id = index+1
	absent  map[int]bool
	hasBait bool // a fetch dependency that can itself never be indexed (D22 shape)
}

func (cw *c05World) add(kind string, b *test.Blob, fdeps []int, idep int) *wblob {
	wb := &wblob{id: len(cw.blobs) + 1, b: b, kind: kind, fdeps: fdeps, idep: idep}
	cw.blobs = append(cw.blobs, wb)
	return wb
}

func (cw *c05World) byRef(r blob.Ref) *wblob {
	for _, b := range cw.blobs {
		if b.b.BlobRef() == r {
			return b
		}
	}
	return nil
}

func genC05World(c *ctx, w *world, size int) *c05World {
	cw := &c05World{w: w, absent: map[int]bool{}}
	base := time.Unix(1400000000, 0).UTC()
	tick := 0
	now := func() time.Time { tick++; return base.Add(time.Duration(tick) * time.Second) }
	k0 := cw.add("key", w.signers[0].pub, nil, 0)
	var k1 *wblob
	useSecond := c.rng.Intn(2) == 0
	if useSecond {
		k1 = cw.add("key", w.signers[1].pub, nil, 0)
	}
	key := func(si int) []int {
		if si == 1 {
			return []int{k1.id}
		}
		return []int{k0.id}
	}
	signer := func() int {
		if useSecond && c.rng.Intn(3) == 0 {
			return 1
		}
		return 0
	}
	var pns, claims, dels, files []*wblob
	for len(cw.blobs) < size {
		switch r := c.rng.Intn(12); {
		case r < 2 || len(pns) == 0:
			si := signer()
			pns = append(pns, cw.add("permanode", w.permanode(si), key(si), 0))
		case r < 5:
			si := signer()
			pn := pns[c.rng.Intn(len(pns))]
			var bb *schema.Builder
			switch c.rng.Intn(4) {
			case 0:
				bb = schema.NewSetAttributeClaim(pn.b.BlobRef(), "title", fmt.Sprint("t", tick))
			case 1:
				bb = schema.NewAddAttributeClaim(pn.b.BlobRef(), "camliMember", pns[c.rng.Intn(len(pns))].b.BlobRef().String())
			case 2:
				bb = schema.NewSetAttributeClaim(pn.b.BlobRef(), "camliPath:x", pns[c.rng.Intn(len(pns))].b.BlobRef().String())
			default:
				bb = schema.NewDelAttributeClaim(pn.b.BlobRef(), "title", "")
			}
			claims = append(claims, cw.add("claim", w.claim(si, bb, now()), key(si), 0))
		case r < 7:
			si := signer()
			var target *wblob
			switch {
			case len(dels) > 0 && c.rng.Intn(3) == 0:
				target = dels[c.rng.Intn(len(dels))]
			case len(claims) > 0 && c.rng.Intn(2) == 0:
				target = claims[c.rng.Intn(len(claims))]
			default:
				target = pns[c.rng.Intn(len(pns))]
			}
			dels = append(dels, cw.add("delete", w.claim(si, schema.NewDeleteClaim(target.b.BlobRef()), now()), key(si), target.id))
		case r < 9:
			// a file: chunk, optionally a bytes sub-tree with two more chunks
			mk := func() *wblob {
				tick++
				return cw.add("chunk", &test.Blob{Contents: fmt.Sprintf("chunk-%d-%d", len(cw.blobs), c.rng.Int63())}, nil, 0)
			}
			c0 := mk()
			parts := []schema.BytesPart{{Size: uint64(len(c0.b.Contents)), BlobRef: c0.b.BlobRef()}}
			fdeps := []int{c0.id}
			total := int64(len(c0.b.Contents))
			if c.rng.Intn(2) == 0 {
				c1, c2 := mk(), mk()
				subSize := int64(len(c1.b.Contents) + len(c2.b.Contents))
				bj := fmt.Sprintf(`{"camliVersion": 1, "camliType": "bytes", "parts": [{"blobRef": %q, "size": %d}, {"blobRef": %q, "size": %d}]}`,
					c1.b.BlobRef().String(), len(c1.b.Contents), c2.b.BlobRef().String(), len(c2.b.Contents))
				bblob := cw.add("bytes", &test.Blob{Contents: bj}, nil, 0)
				parts = append(parts, schema.BytesPart{Size: uint64(subSize), BytesRef: bblob.b.BlobRef()})
				fdeps = append(fdeps, bblob.id, c1.id, c2.id)
				total += subSize
			}
			fm := schema.NewFileMap(fmt.Sprintf("f%d.txt", len(cw.blobs)))
			fm.PopulateParts(total, parts)
			fj, _ := fm.JSON()
			files = append(files, cw.add("file", &test.Blob{Contents: fj}, fdeps, 0))
		case r < 10 && len(files) > 0:
			var members []blob.Ref
			for _, f := range files {
				members = append(members, f.b.BlobRef())
			}
			ss := schema.NewStaticSet()
			subsets := ss.SetStaticSetMembers(members)
			top := cw.add("static-set", &test.Blob{Contents: ss.Blob().JSON()}, nil, 0)
			fdeps := []int{top.id}
			for _, s := range subsets {
				fdeps = append(fdeps, cw.add("static-set", &test.Blob{Contents: s.JSON()}, nil, 0).id)
			}
			dm := schema.NewDirMap(fmt.Sprintf("d%d", len(cw.blobs))).PopulateDirectoryMap(top.b.BlobRef())
			dj, _ := dm.JSON()
			cw.add("directory", &test.Blob{Contents: dj}, fdeps, 0)
		case r < 11:
			cw.add("opaque", &test.Blob{Contents: fmt.Sprintf("opaque %d", c.rng.Int63())}, nil, 0)
		default:
			if !useSecond && c.rng.Intn(3) == 0 && !cw.hasBait {
				// the D22 shape: a file whose only chunk is a claim signed by a key that never arrives
				x := cw.add("claim-with-absent-key", w.claim(1, schema.NewSetAttributeClaim(pns[0].b.BlobRef(), "title", "bait"), now()), []int{9999}, 0)
				fm := schema.NewFileMap("bait.txt")
				fm.PopulateParts(int64(len(x.b.Contents)), []schema.BytesPart{{Size: uint64(len(x.b.Contents)), BlobRef: x.b.BlobRef()}})
				fj, _ := fm.JSON()
				cw.add("file", &test.Blob{Contents: fj}, []int{x.id}, 0)
				cw.hasBait = true
			}
		}
	}
	// some blobs never arrive
	for _, b := range cw.blobs {
		if c.rng.Intn(9) == 0 && !cw.hasBait {
			cw.absent[b.id] = true
		}
	}
	return cw
}

func dumpRows(kv sorted.KeyValue) []string {
	var rows []string
	sorted.Foreach(kv, func(k, v string) error { rows = append(rows, k+" = "+v); return nil })
	return rows
}

func (cw *c05World) newIndex(kv sorted.KeyValue, src *test.Fetcher, corpus bool) *index.Index {
	ix, err := index.New(kv)
	if err != nil {
		panic(err)
	}
	ix.KeyFetcher = new(test.Fetcher) // keys must arrive as blobs
	ix.InitBlobSource(src)
	if corpus {
		if _, err := ix.KeepInMemory(); err != nil {
			panic(err)
		}
	}
	return ix
}

// statuses read off the rows
func (cw *c05World) statuses(rows []string) map[int]string {
	meta := map[string]bool{}
	full := map[string]bool{}
	need := map[string]string{}
	for _, r := range rows {
		switch {
		case strings.HasPrefix(r, "meta:"):
			meta[strings.SplitN(r[5:], " = ", 2)[0]] = true
		case strings.HasPrefix(r, "have:"):
			kv := strings.SplitN(r[5:], " = ", 2)
			if strings.HasSuffix(kv[1], "|indexed") {
				full[kv[0]] = true
			}
		case strings.HasPrefix(r, "missing|"):
			p := strings.Split(strings.SplitN(r, " = ", 2)[0], "|")
			if len(p) == 3 {
				if old, ok := need[p[1]]; !ok || p[2] < old {
					need[p[1]] = p[2]
				}
			}
		}
	}
	out := map[int]string{}
	for _, b := range cw.blobs {
		ref := b.b.BlobRef().String()
		switch {
		case full[ref]:
			out[b.id] = "Some Full"
		case meta[ref]:
			out[b.id] = "Some Partial"
		case need[ref] != "":
			n := 9999
			if nb := cw.byRef(blob.MustParse(need[ref])); nb != nil {
				n = nb.id
			}
			out[b.id] = fmt.Sprintf("Some (Pending %d)", n)
		default:
			out[b.id] = "None"
		}
	}
	return out
}

func (cw *c05World) coq() string {
	var xs []string
	for _, b := range cw.blobs {
		var fd []string
		for _, d := range b.fdeps {
			fd = append(fd, fmt.Sprint(d))
		}
		id := "None"
		if b.idep > 0 {
			id = fmt.Sprintf("(Some %d)", b.idep)
		}
		xs = append(xs, fmt.Sprintf("mkb %d [%s] %s", b.id, strings.Join(fd, "; "), id))
	}
	return qlist(xs)
}

func (cw *c05World) describe(order []int) string {
	var xs []string
	for _, id := range order {
		b := cw.blobs[id-1]
		s := fmt.Sprintf("#%d %s", id, b.kind)
		if b.idep > 0 {
			s += fmt.Sprintf("(->#%d)", b.idep)
		}
		if len(b.fdeps) > 0 && b.kind != "permanode" && b.kind != "claim" && b.kind != "delete" {
			s += fmt.Sprint(b.fdeps)
		}
		xs = append(xs, s)
	}
	return strings.Join(xs, ", ")
}

func permutations(n int, limit int, rng func(int) int) [][]int {
	var out [][]int
	total := 1
	for i := 2; i <= n; i++ {
		total *= i
		if total > limit {
			break
		}
	}
	if total <= limit {
		var rec func(cur []int, used []bool)
		rec = func(cur []int, used []bool) {
			if len(cur) == n {
				out = append(out, append([]int{}, cur...))
				return
			}
			for i := 0; i < n; i++ {
				if !used[i] {
					used[i] = true
					rec(append(cur, i), used)
					used[i] = false
				}
			}
		}
		rec(nil, make([]bool, n))
		return out
	}
	for k := 0; k < limit; k++ {
		p := make([]int, n)
		for i := range p {
			p[i] = i
		}
		for i := n - 1; i > 0; i-- {
			j := rng(i + 1)
			p[i], p[j] = p[j], p[i]
		}
		out = append(out, p)
	}
	return out
}

// chainC05World: key; permanode P (never arrives); D1 deletes P; D2 deletes D1; D3 deletes D2
func chainC05World(w *world) *c05World {
	cw := &c05World{w: w, absent: map[int]bool{}}
	base := time.Unix(1400000000, 0).UTC()
	k0 := cw.add("key", w.signers[0].pub, nil, 0)
	p := cw.add("permanode", w.permanode(0), []int{k0.id}, 0)
	cw.absent[p.id] = true
	prev := p
	for i := 1; i <= 3; i++ {
		prev = cw.add("delete", w.claim(0, schema.NewDeleteClaim(prev.b.BlobRef()), base.Add(time.Duration(i)*time.Second)), []int{k0.id}, prev.id)
	}
	return cw
}

func runC05(c *ctx) {
	c.rep.Rule = "worlds of signed and unsigned blobs (public keys delivered as blobs, permanodes, attribute/path/member claims, deletes of permanodes/claims/deletes, files over chunks and nested bytes blobs, directories over (split) static sets, opaque blobs; some dependencies never arrive) delivered in every permutation (small worlds) or in sampled permutations, with duplicates, with an index restart in the middle, split over concurrent goroutines, and rebuilt by Reindex; all rows dumped at quiescence; " +
		"non-trivial = distinct (world, order) pair in which some blob arrived before one of its dependencies"
	w, err := newWorld()
	if err != nil {
		panic(err)
	}
	old := schema.VerifSetMaxStaticSetMembers(3)
	defer schema.VerifSetMaxStaticSetMembers(old)
	ctxb := context.Background()
	nWorlds := c.n(14, 60)
	for wi := 0; wi < nWorlds; wi++ {
		size := 4 + c.rng.Intn(3)
		if wi%3 == 2 {
			size = 8 + c.rng.Intn(8)
		}
		cw := genC05World(c, w, size)
		if wi == 0 {
			cw = chainC05World(w) // every run: deletes of deletes whose first target never arrives, all orders
		}
		var deliver []int
		for _, b := range cw.blobs {
			if !cw.absent[b.id] {
				deliver = append(deliver, b.id)
			}
		}
		limit := c.n(720, 2000)
		if len(deliver) > 6 {
			limit = c.n(40, 300)
		}
		perms := permutations(len(deliver), limit, c.rng.Intn)
		c.rep.Exhaustive = c.rep.Exhaustive || len(deliver) <= 6
		var refRows []string
		var refOrder []int
		guard := true
		reported := false
		for pi, p := range perms {
			order := make([]int, len(p))
			for i, j := range p {
				order[i] = deliver[j]
			}
			variant := "plain"
			if pi%7 == 3 && len(order) > 2 { // duplicates
				order = append(order, order[c.rng.Intn(len(order))], order[0])
				variant = "duplicates"
			}
			kv := sorted.NewMemoryKeyValue()
			src := new(test.Fetcher)
			ix := cw.newIndex(kv, src, pi%2 == 0)
			restartAt := -1
			if pi%5 == 4 && len(order) > 2 {
				restartAt = 1 + c.rng.Intn(len(order)-1)
				variant = "restart"
			}
			early := false
			seen := map[int]bool{}
			for i, id := range order {
				if i == restartAt {
					ix.VerifAwaitReindex()
					ix = cw.newIndex(kv, src, pi%2 == 0)
				}
				b := cw.blobs[id-1]
				for _, d := range append(append([]int{}, b.fdeps...), b.idep) {
					if d > 0 && d != 9999 && !seen[d] && !cw.absent[d] {
						early = true
					}
				}
				seen[id] = true
				src.AddBlob(b.b)
				if _, err := ix.ReceiveBlob(ctxb, b.b.BlobRef(), b.b.Reader()); err != nil {
					c.rep.Notes = append(c.rep.Notes, fmt.Sprintf("ReceiveBlob(%s): %v", b.kind, err))
				}
			}
			ix.VerifAwaitReindex()
			rows := dumpRows(kv)
			c.rep.SpecChecks++
			c.count("variant", variant)
			if refRows == nil {
				refRows, refOrder = rows, order
			} else if strings.Join(rows, "\n") != strings.Join(refRows, "\n") && !reported {
				reported = true
				cl := "c05-rows-depend-on-order"
				if cw.hasBait {
					cl = "c05-order-dependent-when-fetch-dep-is-itself-unindexable"
				}
				diff := rowDiff(refRows, rows)
				c.violation(len(c.casesBuf), cl, fmt.Sprintf("order A [%s] and order B [%s] (%s) end in different rows: %s", cw.describe(refOrder), cw.describe(order), variant, diff), nil)
			}
			// model correspondence on a sample of the orders
			if pi < 6 || pi%97 == 0 {
				st := cw.statuses(rows)
				var sq, oq []string
				for _, b := range cw.blobs {
					sq = append(sq, fmt.Sprintf("(%d%%N, %s)", b.id, st[b.id]))
				}
				for _, id := range order {
					oq = append(oq, fmt.Sprint(id))
				}
				c.addCase(fmt.Sprintf("CRun %s [%s]%%N %s %s", cw.coq(), strings.Join(oq, "; "), qb(guard), qlist(sq)),
					map[string]any{"op": "deliver", "order": cw.describe(order), "variant": variant, "absent": len(cw.absent)}, early)
			}
		}
		// concurrent delivery over several goroutines
		for rep := 0; rep < c.n(6, 30); rep++ {
			kv := sorted.NewMemoryKeyValue()
			src := new(test.Fetcher)
			ix := cw.newIndex(kv, src, rep%2 == 0)
			ng := 2 + c.rng.Intn(5)
			parts := make([][]int, ng)
			for _, j := range c.rng.Perm(len(deliver)) {
				g := c.rng.Intn(ng)
				parts[g] = append(parts[g], deliver[j])
			}
			var wg sync.WaitGroup
			for _, part := range parts {
				wg.Add(1)
				go func(part []int) {
					defer wg.Done()
					for _, id := range part {
						b := cw.blobs[id-1]
						src.AddBlob(b.b)
						ix.ReceiveBlob(ctxb, b.b.BlobRef(), b.b.Reader())
					}
				}(part)
			}
			wg.Wait()
			ix.VerifAwaitReindex()
			rows := dumpRows(kv)
			c.rep.SpecChecks++
			c.count("variant", "concurrent")
			if refRows != nil && strings.Join(rows, "\n") != strings.Join(refRows, "\n") && !reported {
				reported = true
				cl := "c05-rows-depend-on-schedule"
				if cw.hasBait {
					cl = "c05-order-dependent-when-fetch-dep-is-itself-unindexable"
				}
				c.violation(len(c.casesBuf), cl, fmt.Sprintf("world [%s] delivered over %d goroutines ends in different rows than sequential delivery: %s", cw.describe(deliver), ng, rowDiff(refRows, rows)), nil)
			}
		}
		// full reindex from the blob source
		{
			kv := sorted.NewMemoryKeyValue()
			src := new(test.Fetcher)
			for _, id := range deliver {
				src.AddBlob(cw.blobs[id-1].b)
			}
			ix := cw.newIndex(kv, src, false)
			rerr := ix.Reindex()
			ix.VerifAwaitReindex()
			rows := dumpRows(kv)
			c.rep.SpecChecks++
			c.count("variant", "reindex")
			if refRows != nil && strings.Join(rows, "\n") != strings.Join(refRows, "\n") && !reported {
				reported = true
				cl := "c05-reindex-differs"
				if cw.hasBait {
					cl = "c05-order-dependent-when-fetch-dep-is-itself-unindexable"
				}
				c.violation(len(c.casesBuf), cl, fmt.Sprintf("world [%s]: Reindex (err %v) gives different rows than incremental delivery: %s", cw.describe(deliver), rerr, rowDiff(refRows, rows)), nil)
			}
		}
		c.count("worlds", fmt.Sprintf("%d blobs delivered", len(deliver)))
		if cw.hasBait {
			c.count("worlds_with", "unindexable fetch dependency")
		}
		if len(cw.absent) > 0 {
			c.count("worlds_with", "dependencies that never arrive")
		}
	}
}

func rowDiff(a, b []string) string {
	in := func(l []string) map[string]bool {
		m := map[string]bool{}
		for _, x := range l {
			m[x] = true
		}
		return m
	}
	ma, mb := in(a), in(b)
	var only []string
	for _, x := range a {
		if !mb[x] {
			only = append(only, "A only: "+x)
		}
	}
	for _, x := range b {
		if !ma[x] {
			only = append(only, "B only: "+x)
		}
	}
	sort.Strings(only)
	if len(only) > 6 {
		only = only[:6]
	}
	return strings.Join(only, " ; ")
}

//go:build verif

package main

import (
	"context"
	"fmt"
	"sort"
	"strings"
	"time"

	"go4.org/types"
	"perkeep.org/pkg/blob"
	"perkeep.org/pkg/index"
	"perkeep.org/pkg/schema"
	"perkeep.org/pkg/search"
	"perkeep.org/pkg/sorted"
	"perkeep.org/pkg/test"
)

func init() { props["C07"] = runC07 }

type wclaim struct {
	blob   *test.Blob
	ref    blob.Ref
	id     int // token of the ref (1-based)
	signer int // 0/1
	date   time.Time
	kind   string // set add del delete
	attr   string
	val    string
	target int // for delete claims: id of the target (0 = the permanode)
}

var c07Vals = []string{"", "a", "b", "c d", "x|y", "é%2=&", "title", "tag"} // the last two: values that are attribute names
var c07Attrs = []string{"tag", "title"}

func tokVal(v string) int {
	for i, x := range c07Vals {
		if x == v {
			return i
		}
	}
	return 99
}
func tokAttr(a string) int {
	for i, x := range c07Attrs {
		if x == a {
			return i + 1
		}
	}
	return 99
}

// ---- reference semantics (the SPEC, in Go) ----
func specApply(v []string, kind, val string) []string {
	switch kind {
	case "set":
		return []string{val}
	case "add":
		return append(append([]string{}, v...), val)
	case "del":
		if val == "" {
			return nil
		}
		var out []string
		for _, x := range v {
			if x != val {
				out = append(out, x)
			}
		}
		return out
	}
	return v
}

func describeApply(v []string, kind, val string) []string {
	switch kind {
	case "del":
		return specApply(v, kind, val)
	case "set":
		if val == "" {
			return nil
		}
		return []string{val}
	case "add":
		if val == "" {
			return v
		}
		for _, x := range v {
			if x == val {
				return v
			}
		}
		return append(append([]string{}, v...), val)
	}
	return v
}

type c07World struct {
	pn      *test.Blob
	claims  []*wclaim // attribute claims
	deletes []*wclaim
}

func (cw *c07World) deleted() map[int]bool {
	// least fixpoint over the (acyclic) delete graph; ids: 0 = permanode, claims and deletes numbered
	memo := map[int]bool{}
	var isDel func(id int) bool
	isDel = func(id int) bool {
		if v, ok := memo[id]; ok {
			return v
		}
		memo[id] = false
		for _, d := range cw.deletes {
			if d.target == id && !isDel(d.id) {
				memo[id] = true
				break
			}
		}
		return memo[id]
	}
	out := map[int]bool{}
	out[0] = isDel(0)
	for _, c := range cw.claims {
		out[c.id] = isDel(c.id)
	}
	for _, d := range cw.deletes {
		out[d.id] = isDel(d.id)
	}
	return out
}

func (cw *c07World) fold(apply func([]string, string, string) []string, useDeleted bool, at *time.Time, signer int, attr string) []string {
	del := cw.deleted()
	var cs []*wclaim
	for _, c := range cw.claims {
		if c.attr != attr || (useDeleted && del[c.id]) || (signer >= 0 && c.signer != signer) || (at != nil && c.date.After(*at)) {
			continue
		}
		cs = append(cs, c)
	}
	sort.SliceStable(cs, func(i, j int) bool { return cs[i].date.Before(cs[j].date) })
	var v []string
	for _, c := range cs {
		v = apply(v, c.kind, c.val)
	}
	return v
}

// foldAll returns every result the documented semantics allow: claims with equal dates may apply in any order
func (cw *c07World) foldAll(apply func([]string, string, string) []string, useDeleted bool, at *time.Time, signer int, attr string) [][]string {
	del := cw.deleted()
	var cs []*wclaim
	for _, c := range cw.claims {
		if c.attr != attr || (useDeleted && del[c.id]) || (signer >= 0 && c.signer != signer) || (at != nil && c.date.After(*at)) {
			continue
		}
		cs = append(cs, c)
	}
	sort.SliceStable(cs, func(i, j int) bool { return cs[i].date.Before(cs[j].date) })
	results := [][]string{nil}
	for i := 0; i < len(cs); {
		j := i
		for j < len(cs) && cs[j].date.Equal(cs[i].date) {
			j++
		}
		group := cs[i:j]
		var next [][]string
		var perm func(done []*wclaim, rest []*wclaim, v []string)
		perm = func(done, rest []*wclaim, v []string) {
			if len(rest) == 0 {
				next = append(next, v)
				return
			}
			for k := range rest {
				r2 := append(append([]*wclaim{}, rest[:k]...), rest[k+1:]...)
				perm(append(done, rest[k]), r2, apply(v, rest[k].kind, rest[k].val))
			}
		}
		for _, v := range results {
			perm(nil, group, v)
		}
		results = next
		if len(results) > 500 {
			results = results[:500]
		}
		i = j
	}
	return results
}

func anyEq(got []string, wants [][]string) bool {
	for _, w := range wants {
		if strsEq(got, w) {
			return true
		}
	}
	return false
}

func strsEq(a, b []string) bool {
	if len(a) != len(b) {
		return false
	}
	for i := range a {
		if a[i] != b[i] {
			return false
		}
	}
	return true
}

func qvals(v []string) string {
	var xs []string
	for _, x := range v {
		xs = append(xs, fmt.Sprint(tokVal(x)))
	}
	return "[" + strings.Join(xs, "; ") + "]%N"
}

func qat(at *time.Time) string {
	if at == nil {
		return "None"
	}
	return fmt.Sprintf("(Some %s)", qz(at.UnixNano()))
}

func (c *wclaim) coq() string {
	k := map[string]string{"set": "KSet", "add": "KAdd", "del": "KDel"}[c.kind]
	return fmt.Sprintf("mk %d %d %s %s %d %d", c.id, c.signer+1, qz(c.date.UnixNano()), k, tokAttr(c.attr), tokVal(c.val))
}

func runC07(c *ctx) {
	c.rep.Rule = "random worlds: one permanode, 2-8 set/add/del-attribute claims (with and without value, repeated and multi values, values needing URL escaping, two signers, dates out of arrival order, optionally tied dates) and 0-4 delete claims targeting claims, the permanode or other delete claims (chains), delivered in random order; " +
		"queried at T in {now, before all, between each pair, after all} x signer filter {none, each signer} x attribute through the incremental corpus, the corpus loaded from storage, describe (with and without corpus) and IsDeleted of index and corpus; " +
		"non-trivial = distinct world with at least one delete claim or a claim arriving out of date order"
	w, err := newWorld()
	if err != nil {
		panic(err)
	}
	ctxb := context.Background()
	base := time.Unix(1400000000, 0).UTC()
	for t := 0; t < c.n(110, 1500); t++ {
		cw := &c07World{pn: w.permanode(0)}
		nid := 0
		nclaims := 2 + c.rng.Intn(7)
		tied := c.rng.Intn(8) == 0
		for i := 0; i < nclaims; i++ {
			nid++
			cl := &wclaim{id: nid, signer: 0, kind: []string{"set", "add", "add", "del"}[c.rng.Intn(4)], attr: c07Attrs[c.rng.Intn(2)], val: c07Vals[c.rng.Intn(len(c07Vals))]}
			if c.rng.Intn(4) == 0 {
				cl.signer = 1
			}
			cl.date = base.Add(time.Duration(i*10+c.rng.Intn(9)) * time.Second).Add(time.Duration(c.rng.Intn(3)*250) * time.Millisecond)
			if tied && len(cw.claims) > 0 && c.rng.Intn(2) == 0 {
				cl.date = cw.claims[len(cw.claims)-1].date
			}
			dupTuple := false
			for _, o := range cw.claims {
				if o.date.Equal(cl.date) && o.signer == cl.signer && o.kind == cl.kind && o.attr == cl.attr && o.val == cl.val {
					dupTuple = true // identical JSON would be the very same blob
				}
			}
			if dupTuple {
				nid--
				continue
			}
			var bb *schema.Builder
			switch cl.kind {
			case "set":
				bb = schema.NewSetAttributeClaim(cw.pn.BlobRef(), cl.attr, cl.val)
			case "add":
				bb = schema.NewAddAttributeClaim(cw.pn.BlobRef(), cl.attr, cl.val)
			default:
				bb = schema.NewDelAttributeClaim(cw.pn.BlobRef(), cl.attr, cl.val)
			}
			cl.blob = w.claim(cl.signer, bb, cl.date)
			cl.ref = cl.blob.BlobRef()
			cw.claims = append(cw.claims, cl)
		}
		ndel := c.rng.Intn(5)
		if c.rng.Intn(3) == 0 {
			ndel = 0
		}
		for i := 0; i < ndel; i++ {
			nid++
			d := &wclaim{id: nid, signer: 0, kind: "delete"}
			var target blob.Ref
			switch r := c.rng.Intn(10); {
			case r < 6:
				tc := cw.claims[c.rng.Intn(len(cw.claims))]
				d.target, target = tc.id, tc.ref
			case r < 7:
				d.target, target = 0, cw.pn.BlobRef()
			default:
				if len(cw.deletes) > 0 {
					td := cw.deletes[c.rng.Intn(len(cw.deletes))]
					d.target, target = td.id, td.ref
				} else {
					tc := cw.claims[c.rng.Intn(len(cw.claims))]
					d.target, target = tc.id, tc.ref
				}
			}
			d.date = base.Add(time.Duration(200+i*10) * time.Second)
			d.blob = w.claim(0, schema.NewDeleteClaim(target), d.date)
			d.ref = d.blob.BlobRef()
			cw.deletes = append(cw.deletes, d)
		}
		// delivery order
		type item struct {
			b  *test.Blob
			cl *wclaim
		}
		items := []item{{cw.pn, nil}}
		for _, cl := range cw.claims {
			items = append(items, item{cl.blob, cl})
		}
		for _, d := range cw.deletes {
			items = append(items, item{d.blob, d})
		}
		outOfOrder := false
		if c.rng.Intn(3) != 0 {
			c.rng.Shuffle(len(items), func(i, j int) { items[i], items[j] = items[j], items[i] })
		}
		kv := sorted.NewMemoryKeyValue()
		iw, err := newIndex(w, kv, true)
		if err != nil {
			panic(err)
		}
		var arrival []*wclaim
		for _, it := range items {
			if err := iw.deliver(it.b); err != nil {
				c.rep.Notes = append(c.rep.Notes, "deliver: "+err.Error())
			}
			if it.cl != nil && it.cl.kind != "delete" {
				if n := len(arrival); n > 0 && !arrival[n-1].date.Before(it.cl.date) {
					outOfOrder = true
				}
				arrival = append(arrival, it.cl)
			}
		}
		iw.ix.VerifAwaitReindex()
		// a second index + corpus opened over the same rows ("loaded at start"), and an index without corpus
		ix2, err := index.New(kv)
		if err != nil {
			panic(err)
		}
		ix2.KeyFetcher = w.pubs
		ix2.InitBlobSource(iw.src)
		loaded, err := index.NewCorpusFromStorage(kv)
		if err != nil {
			panic(err)
		}
		// query times
		var dates []time.Time
		for _, cl := range cw.claims {
			dates = append(dates, cl.date)
		}
		sort.Slice(dates, func(i, j int) bool { return dates[i].Before(dates[j]) })
		var ats []*time.Time
		ats = append(ats, nil)
		before := dates[0].Add(-time.Second)
		after := dates[len(dates)-1].Add(time.Hour)
		ats = append(ats, &before, &after)
		for i := 0; i+1 < len(dates); i++ {
			if dates[i+1].After(dates[i]) {
				mid := dates[i].Add(dates[i+1].Sub(dates[i]) / 2)
				ats = append(ats, &mid)
			}
		}
		exact := dates[c.rng.Intn(len(dates))]
		ats = append(ats, &exact)
		idx := len(c.casesBuf)
		del := cw.deleted()
		anyClaimDeleted := false
		for _, cl := range cw.claims {
			if del[cl.id] {
				anyClaimDeleted = true
			}
		}
		var arrQ []string
		for _, cl := range arrival {
			arrQ = append(arrQ, cl.coq())
		}
		var allQ []string
		for _, cl := range cw.claims {
			allQ = append(allQ, cl.coq())
		}
		desc := func() string {
			var xs []string
			for _, it := range items {
				switch {
				case it.cl == nil:
					xs = append(xs, "permanode")
				case it.cl.kind == "delete":
					xs = append(xs, fmt.Sprintf("#%d delete(#%d)", it.cl.id, it.cl.target))
				default:
					xs = append(xs, fmt.Sprintf("#%d %s %s=%q signer%d t+%ds", it.cl.id, it.cl.kind, it.cl.attr, it.cl.val, it.cl.signer, int(it.cl.date.Sub(base).Seconds())))
				}
			}
			return strings.Join(xs, "; ")
		}()
		var liveQ, loadedQ, descQ []string
		reported := map[string]bool{}
		for _, at := range ats {
			var atT time.Time
			if at != nil {
				atT = *at
			}
			for sf := -1; sf <= 1; sf++ {
				sfStr := ""
				if sf >= 0 {
					sfStr = w.signers[sf].keyID
				}
				for _, attr := range c07Attrs {
					want := cw.fold(specApply, true, at, sf, attr)
					wants := cw.foldAll(specApply, true, at, sf, attr)
					wantsNoDel := cw.foldAll(specApply, false, at, sf, attr)
					for pi, corp := range []*index.Corpus{iw.corpus, loaded} {
						got := corp.AppendPermanodeAttrValues(nil, cw.pn.BlobRef(), attr, atT, sfStr)
						first := corp.PermanodeAttrValue(cw.pn.BlobRef(), attr, atT, sfStr)
						q := fmt.Sprintf("(%s, %d%%N, %d%%N, %s)", qat(at), sf+1, tokAttr(attr), qvals(got))
						if pi == 0 {
							liveQ = append(liveQ, q)
						} else {
							loadedQ = append(loadedQ, q)
						}
						c.rep.SpecChecks++
						path := []string{"incremental-corpus", "loaded-corpus"}[pi]
						bad := !anyEq(got, wants) || (len(got) > 0 && first != got[0]) || (len(got) == 0 && first != "")
						if sf < 0 && !tied {
							for _, v := range c07Vals[1:] {
								has := corp.PermanodeHasAttrValue(cw.pn.BlobRef(), atT, attr, v)
								in := false
								for _, x := range want {
									if x == v {
										in = true
									}
								}
								if has != in {
									bad = true
								}
							}
						}
						if bad {
							cl := "c07-" + path + "-values"
							if anyClaimDeleted && anyEq(got, wantsNoDel) {
								cl = "c07-corpus-attr-ignores-deleted-claim"
							}
							if !reported[cl] {
								reported[cl] = true
								c.violation(idx, cl, fmt.Sprintf("%s attr %s at %v signer %d: %s returned %q (first %q), documented semantics give %q [%s]", path, attr, at, sf, path, got, first, want, desc), nil)
							}
						}
					}
				}
			}
			// describe (owner = signer 0), with corpus and on the bare index
			for hi, h := range []*search.Handler{iw.handler(w, 0), search.NewHandler(ix2, index.NewOwner(w.signers[0].keyID, w.signers[0].ref))} {
				dr := &search.DescribeRequest{BlobRef: cw.pn.BlobRef(), Depth: 1}
				if at != nil {
					dr.At = types.Time3339(*at)
				}
				res, err := h.Describe(ctxb, dr)
				if err != nil || res == nil || res.Meta[cw.pn.BlobRef().String()] == nil || res.Meta[cw.pn.BlobRef().String()].Permanode == nil {
					if !reported["describe-error"] {
						reported["describe-error"] = true
						c.rep.Notes = append(c.rep.Notes, fmt.Sprintf("describe: %v", err))
					}
					continue
				}
				dp := res.Meta[cw.pn.BlobRef().String()].Permanode
				for _, attr := range c07Attrs {
					got := []string(dp.Attr[attr])
					want := cw.fold(specApply, true, at, 0, attr)
					wants := cw.foldAll(specApply, true, at, 0, attr)
					asDescribe := cw.foldAll(describeApply, true, at, 0, attr)
					if hi == 1 {
						descQ = append(descQ, fmt.Sprintf("(%s, 1%%N, %d%%N, %s)", qat(at), tokAttr(attr), qvals(got)))
					}
					c.rep.SpecChecks++
					if !anyEq(got, wants) {
						cl := "c07-describe-values"
						if anyEq(got, asDescribe) {
							cl = "c07-describe-dedups-or-drops-empty-values"
						}
						if !reported[cl] {
							reported[cl] = true
							c.violation(idx, cl, fmt.Sprintf("describe (%s) attr %s at %v: %q, documented semantics give %q [%s]", []string{"with corpus", "index only"}[hi], attr, at, got, want, desc), nil)
						}
					}
				}
			}
		}
		// the claims of the permanode filtered by attribute, from the sorted rows (bare index) and from the corpus: only claims
		// on that attribute, and all of them that are not deleted
		for xi, x := range []*index.Index{iw.ix, ix2} {
			for _, attr := range c07Attrs {
				got, err := x.AppendClaims(ctxb, nil, cw.pn.BlobRef(), "", attr)
				c.rep.SpecChecks++
				path := []string{"corpus", "sorted rows"}[xi]
				if err != nil {
					c.violation(idx, "c07-claims-by-attr", fmt.Sprintf("AppendClaims(%s, attr %s): %v [%s]", path, attr, err, desc), nil)
					continue
				}
				gotRef := map[blob.Ref]bool{}
				bad := ""
				for _, g := range got {
					gotRef[g.BlobRef] = true
					if g.Attr != attr {
						bad = fmt.Sprintf("returned claim %v on attribute %q (value %q)", g.BlobRef, g.Attr, g.Value)
					}
				}
				if bad == "" && !anyClaimDeleted {
					for _, cl := range cw.claims {
						if cl.kind != "delete" && cl.attr == attr && !gotRef[cl.ref] {
							bad = fmt.Sprintf("claim #%d (%s %s=%q) is missing", cl.id, cl.kind, cl.attr, cl.val)
						}
					}
				}
				if bad != "" && !reported["claims"+path] {
					reported["claims"+path] = true
					c.violation(idx, "c07-claims-by-attr", fmt.Sprintf("AppendClaims from the %s with attribute filter %q: %s [%s]", path, attr, bad, desc), nil)
				}
			}
		}
		if !tied { // Go's sort.Sort is unstable: with equal dates the model's order need not be the implementation's
			c.addCase(fmt.Sprintf("CCorpus false %s %s", qlist(arrQ), qlist(liveQ)), map[string]any{"op": "corpus-incremental", "world": desc}, len(cw.deletes) > 0 || outOfOrder)
			c.addCase(fmt.Sprintf("CCorpus true %s %s", qlist(allQ), qlist(loadedQ)), map[string]any{"op": "corpus-loaded", "world": desc}, len(cw.deletes) > 0 || outOfOrder)
		}
		var delIDs []string
		for _, cl := range cw.claims {
			if del[cl.id] {
				delIDs = append(delIDs, fmt.Sprint(cl.id))
			}
		}
		if !tied {
			c.addCase(fmt.Sprintf("CDescribe %s [%s]%%N %s", qlist(allQ), strings.Join(delIDs, "; "), qlist(descQ)), map[string]any{"op": "describe", "world": desc}, len(cw.deletes) > 0)
		}
		// deletion status
		var dq, dels []string
		for _, d := range cw.deletes {
			dels = append(dels, fmt.Sprintf("(%d%%N, %d%%N)", d.id, d.target))
		}
		refs := map[int]blob.Ref{0: cw.pn.BlobRef()}
		for _, cl := range cw.claims {
			refs[cl.id] = cl.ref
		}
		for _, d := range cw.deletes {
			refs[d.id] = d.ref
		}
		for id := 0; id <= nid; id++ {
			g1, g2, g3, g4 := iw.ix.IsDeleted(refs[id]), iw.corpus.IsDeleted(refs[id]), ix2.IsDeleted(refs[id]), loaded.IsDeleted(refs[id])
			dq = append(dq, fmt.Sprintf("(%d%%N, %s)", id, qb(g1)))
			c.rep.SpecChecks++
			for gi, g := range []bool{g1, g2, g3, g4} {
				if g != del[id] {
					cl := "c07-isdeleted-" + []string{"index", "corpus", "reopened-index", "loaded-corpus"}[gi]
					if !reported[cl] {
						reported[cl] = true
						c.violation(idx, cl, fmt.Sprintf("IsDeleted(#%d) = %v, want %v [%s]", id, g, del[id], desc), nil)
					}
				}
			}
		}
		c.addCase(fmt.Sprintf("CDeleted %s %s", qlist(dels), qlist(dq)), map[string]any{"op": "deleted", "world": desc}, len(cw.deletes) > 1)
		c.count("worlds", map[bool]string{true: "with-deletes", false: "no-deletes"}[len(cw.deletes) > 0])
		c.count("arrival", map[bool]string{true: "out-of-date-order", false: "in-date-order"}[outOfOrder])
		if tied {
			c.count("dates", "tied")
		} else {
			c.count("dates", "distinct")
		}
	}
}

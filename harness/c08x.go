//go:build verif

package main

// C08, the rest of the constraint language: leaves the planner never looks into (permanode valueAll / valueMatchesInt /
// valueInSet / modTime / time / at, file size / parentDir, directory name / blobRefPrefix / topFileCount / contains /
// recursiveContains / parentDir). They are checked against the reference evaluator below (the documented meaning on
// the harness's own facts); queries containing one are not given to the Rocq model ("rich").

import (
	"fmt"
	"strconv"
	"strings"
	"time"

	"go4.org/types"
	"perkeep.org/pkg/blob"
	"perkeep.org/pkg/search"
)

type c08hist struct {
	t             time.Time
	kind, attr, v string
}

type c08time struct{ before, after time.Time } // zero = unset; before is exclusive, after inclusive

// a DirConstraint
type dqc struct {
	name      string  // FileName{HasPrefix}
	pfx       string  // BlobRefPrefix
	parent    *dqc    // ParentDir
	top       *[2]int // TopFileCount{Min,Max}, 0 = unset
	contains  *qc     // Contains
	rcontains *qc     // RecursiveContains
}

func (d *dqc) String() string {
	if d == nil {
		return "nil"
	}
	var f []string
	if d.name != "" {
		f = append(f, fmt.Sprintf("name^%q", d.name))
	}
	if d.pfx != "" {
		f = append(f, "prefix="+d.pfx)
	}
	if d.parent != nil {
		f = append(f, "parentDir="+d.parent.String())
	}
	if d.top != nil {
		f = append(f, fmt.Sprintf("topFileCount[%d,%d]", d.top[0], d.top[1]))
	}
	if d.contains != nil {
		f = append(f, "contains="+d.contains.String())
	}
	if d.rcontains != nil {
		f = append(f, "recursiveContains="+d.rcontains.String())
	}
	return "dir{" + strings.Join(f, " ") + "}"
}

func (d *dqc) toSearch(cw *c08World) *search.DirConstraint {
	if d == nil {
		return nil
	}
	dc := &search.DirConstraint{BlobRefPrefix: d.pfx, ParentDir: d.parent.toSearch(cw)}
	if d.name != "" {
		dc.FileName = &search.StringConstraint{HasPrefix: d.name}
	}
	if d.top != nil {
		dc.TopFileCount = &search.IntConstraint{Min: int64(d.top[0]), Max: int64(d.top[1])}
	}
	if d.contains != nil {
		dc.Contains = d.contains.toSearch(cw)
	}
	if d.rcontains != nil {
		dc.RecursiveContains = d.rcontains.toSearch(cw)
	}
	return dc
}

func (cw *c08World) byRef(r blob.Ref) *c08blob {
	for _, b := range cw.blobs {
		if b.ref == r {
			return b
		}
	}
	return nil
}

// the directories that list b as a direct child
func (cw *c08World) parentDirs(b *c08blob) []*c08blob {
	var out []*c08blob
	for _, d := range cw.blobs {
		if d.ctype != "directory" {
			continue
		}
		for _, k := range d.children {
			if k == b.ref {
				out = append(out, d)
				break
			}
		}
	}
	return out
}

func inRange(v int, r *[2]int) bool {
	return v >= r[0] && (r[1] == 0 || v <= r[1])
}

// what a Contains / RecursiveContains constraint says about one child: a bare blobRefPrefix names the child itself,
// anything else is a file / directory / logical constraint on it
func containsMatch(cw *c08World, cc *qc, child *c08blob) bool {
	if cc.prefix != "" {
		return strings.HasPrefix(child.ref.String(), cc.prefix)
	}
	return cc.eval(cw, child)
}

func (d *dqc) eval(cw *c08World, b *c08blob) bool {
	if b.ctype != "directory" {
		return false
	}
	if d.pfx != "" && !strings.HasPrefix(b.ref.String(), d.pfx) {
		return false
	}
	if d.name != "" && !strings.HasPrefix(b.name, d.name) {
		return false
	}
	if d.parent != nil {
		ok := false
		for _, p := range cw.parentDirs(b) {
			ok = ok || d.parent.eval(cw, p)
		}
		if !ok {
			return false
		}
	}
	if d.top != nil && !inRange(len(b.children), d.top) {
		return false
	}
	if d.contains != nil {
		ok := false
		for _, k := range b.children {
			if kb := cw.byRef(k); kb != nil && containsMatch(cw, d.contains, kb) {
				ok = true
			}
		}
		if !ok {
			return false
		}
	}
	if d.rcontains != nil {
		// "like Contains, but applied to all the descendants of the directory"
		var anyDesc func(x *c08blob, depth int) bool
		anyDesc = func(x *c08blob, depth int) bool {
			if depth > 8 {
				return false
			}
			for _, k := range x.children {
				kb := cw.byRef(k)
				if kb == nil {
					continue
				}
				if containsMatch(cw, d.rcontains, kb) || (kb.ctype == "directory" && anyDesc(kb, depth+1)) {
					return true
				}
			}
			return false
		}
		if !anyDesc(b, 0) {
			return false
		}
	}
	return true
}

// the owner's values of attr as of time at (claims dated after at are ignored)
func (b *c08blob) valuesAt(attr string, at time.Time) []string {
	var vals []string
	for _, h := range b.hist {
		if h.attr != attr || h.t.After(at) {
			continue
		}
		switch h.kind {
		case "set":
			vals = []string{h.v}
		case "add":
			vals = append(vals, h.v)
		default:
			var keep []string
			for _, x := range vals {
				if h.v != "" && x != h.v {
					keep = append(keep, x)
				}
			}
			vals = keep
		}
	}
	return vals
}

func (q *qc) hasValueConstraint() bool {
	return q.val != "" || q.hasVM() || q.vmInt != nil || q.inSet != nil
}

// one value against every value-matching field of the PermanodeConstraint
func (q *qc) valueMatches(cw *c08World, v string) bool {
	if q.val != "" && v != q.val {
		return false
	}
	if q.hasVM() && !q.vmMatches(v) {
		return false
	}
	if q.vmInt != nil {
		i, err := strconv.ParseInt(v, 10, 64)
		if err != nil || !inRange(int(i), q.vmInt) {
			return false
		}
	}
	if q.inSet != nil {
		r, ok := blob.Parse(v)
		if !ok {
			return false
		}
		t := cw.byRef(r)
		if t == nil || !q.inSet.eval(cw, t) {
			return false
		}
	}
	return true
}

func (t *c08time) matches(x time.Time) bool {
	if x.IsZero() {
		return false
	}
	if !t.before.IsZero() && !x.Before(t.before) {
		return false
	}
	if !t.after.IsZero() && x.Before(t.after) {
		return false
	}
	return true
}

func (t *c08time) toSearch() *search.TimeConstraint {
	if t == nil {
		return nil
	}
	tc := &search.TimeConstraint{}
	if !t.before.IsZero() {
		tc.Before = types.Time3339(t.before)
	}
	if !t.after.IsZero() {
		tc.After = types.Time3339(t.after)
	}
	return tc
}

func (t *c08time) String() string {
	return fmt.Sprintf("[%s,%s)", t.after.Format("15:04:05.000"), t.before.Format("15:04:05.000"))
}

// the permanode part beyond attr/value/valueMatches/numValue/skipHidden/relation
func (q *qc) permExtraString() string {
	s := ""
	if q.valAll {
		s += " valueAll"
	}
	if q.vmInt != nil {
		s += fmt.Sprintf(" valueMatchesInt[%d,%d]", q.vmInt[0], q.vmInt[1])
	}
	if q.inSet != nil {
		s += " valueInSet=" + q.inSet.String()
	}
	if q.modT != nil {
		s += " modTime" + q.modT.String()
	}
	if q.anyT != nil {
		s += " time" + q.anyT.String()
	}
	if !q.at.IsZero() {
		s += " at=" + q.at.Format("15:04:05.000")
	}
	return s
}

func (q *qc) richX() bool {
	return q.valAll || q.vmInt != nil || q.inSet != nil || q.modT != nil || q.anyT != nil || !q.at.IsZero() || q.fileSize != nil || q.fParent != nil || q.dir != nil
}

// a file / directory / logical constraint usable under Contains
func genContains(c *ctx, cw *c08World, depth int) *qc {
	switch r := c.rng.Intn(10); {
	case r < 2:
		b := cw.blobs[c.rng.Intn(len(cw.blobs))]
		for _, x := range cw.blobs {
			if (x.ctype == "file" || x.ctype == "directory") && c.rng.Intn(3) == 0 {
				b = x
			}
		}
		return &qc{prefix: b.ref.String()[:len("sha224-")+2+c.rng.Intn(6)]}
	case r < 6 || depth <= 0:
		q := &qc{}
		switch c.rng.Intn(3) {
		case 0:
			q.fileName = []string{"f", "f1", "f2", "g"}[c.rng.Intn(4)]
		case 1:
			q.fileSize = &[2]int{1 + c.rng.Intn(9), []int{0, 9, 30}[c.rng.Intn(3)]}
		default:
			q.whole = 1 + c.rng.Intn(len(cw.wholes))
			q.wholeRef = cw.wholes[q.whole-1]
		}
		return q
	case r < 8:
		return &qc{dir: genDir(c, cw, depth-1)}
	default:
		q := &qc{op: []string{"and", "or", "not"}[c.rng.Intn(3)], a: genContains(c, cw, depth-1)}
		if q.op != "not" {
			q.b = genContains(c, cw, depth-1)
		}
		if q.a.prefix != "" || (q.b != nil && q.b.prefix != "") {
			return genContains(c, cw, 0) // a bare prefix is only meaningful at the top of Contains
		}
		return q
	}
}

func genDir(c *ctx, cw *c08World, depth int) *dqc {
	d := &dqc{}
	for n := 0; n < 1+c.rng.Intn(2); n++ {
		switch c.rng.Intn(7) {
		case 0:
			d.name = []string{"d", "dir", "sub", "top", "x"}[c.rng.Intn(5)]
		case 1:
			var dirs []*c08blob
			for _, b := range cw.blobs {
				if b.ctype == "directory" {
					dirs = append(dirs, b)
				}
			}
			if len(dirs) > 0 {
				d.pfx = dirs[c.rng.Intn(len(dirs))].ref.String()[:len("sha224-")+2+c.rng.Intn(4)]
			}
		case 2:
			if depth > 0 {
				d.parent = genDir(c, cw, depth-1)
			}
		case 3:
			d.top = &[2]int{1 + c.rng.Intn(3), []int{0, 1, 2, 4}[c.rng.Intn(4)]}
		case 4:
			d.contains = genContains(c, cw, depth)
		default:
			d.rcontains = genContains(c, cw, depth)
		}
	}
	if d.contains != nil && d.rcontains != nil {
		d.contains = nil // mutually exclusive
	}
	return d
}

// fills one leaf of the rest of the language into q
func genRichLeaf(c *ctx, cw *c08World, q *qc, depth int, base time.Time) {
	tpoint := func() time.Time { // between two ticks, so that no claim date equals it
		return base.Add(time.Duration(c.rng.Intn(60))*time.Second + 500*time.Millisecond)
	}
	switch r := c.rng.Intn(12); {
	case r < 2: // valueAll over a multi-valued attribute
		q.perm, q.attr, q.valAll = true, "tag", true
		if c.rng.Intn(2) == 0 {
			q.val = []string{"x", "y", "z"}[c.rng.Intn(3)]
		} else {
			q.vmPrefix = []string{"x", "y", ""}[c.rng.Intn(3)]
			if q.vmPrefix == "" {
				q.vmContains = "z"
			}
		}
	case r < 4: // integer values
		q.perm, q.attr = true, "rating"
		q.vmInt = &[2]int{1 + c.rng.Intn(4), []int{0, 2, 3, 5}[c.rng.Intn(4)]}
		q.valAll = c.rng.Intn(4) == 0
	case r < 6: // the value names a blob that must satisfy a sub-query
		q.perm, q.attr = true, []string{"camliMember", "camliPath:a", "camliPath:b"}[c.rng.Intn(3)]
		q.inSet = genQC(c, cw, 0)
		if q.inSet.isEmpty() {
			q.inSet = &qc{camli: "permanode"}
		}
	case r < 8: // modtime / time windows
		tc := &c08time{}
		if c.rng.Intn(3) != 0 {
			tc.after = tpoint()
		}
		if c.rng.Intn(3) != 0 || tc.after.IsZero() {
			tc.before = tpoint()
		}
		q.perm = true
		if c.rng.Intn(2) == 0 {
			q.modT = tc
		} else {
			q.anyT = tc
		}
	case r < 9: // attribute values as of an earlier time
		q.perm, q.at = true, tpoint()
		q.attr, q.val = "tag", []string{"x", "y", "z", "w", "v"}[c.rng.Intn(5)]
		switch c.rng.Intn(4) {
		case 0:
			q.attr, q.val = "camliNodeType", []string{"foo", "bar"}[c.rng.Intn(2)]
		case 1:
			q.val, q.numValMin = "", 1+c.rng.Intn(3)
		}
	case r < 10:
		q.fileSize = &[2]int{1 + c.rng.Intn(9), []int{0, 9, 30}[c.rng.Intn(3)]}
		if c.rng.Intn(3) == 0 {
			q.fParent = genDir(c, cw, 0)
		}
	case r < 11:
		q.fParent = genDir(c, cw, depth)
	default:
		q.dir = genDir(c, cw, 1+c.rng.Intn(2))
	}
}

//go:build verif

package main

import (
	"fmt"
	"sync"

	"perkeep.org/pkg/blobserver"
)

// hLoader is the harness' blobserver.Loader: a prefix -> storage/handler table.
type hLoader struct {
	mu       sync.Mutex
	sto      map[string]blobserver.Storage
	handlers map[string]any
	types    map[string]string
	myPrefix string
}

func newLoader() *hLoader {
	return &hLoader{sto: map[string]blobserver.Storage{}, handlers: map[string]any{}, types: map[string]string{}, myPrefix: "/verif/"}
}

func (l *hLoader) set(prefix string, s blobserver.Storage) {
	l.mu.Lock()
	l.sto[prefix] = s
	l.mu.Unlock()
}
func (l *hLoader) setHandler(prefix, typ string, h any) {
	l.mu.Lock()
	l.handlers[prefix] = h
	l.types[prefix] = typ
	l.mu.Unlock()
}
func (l *hLoader) FindHandlerByType(t string) (string, any, error) {
	l.mu.Lock()
	defer l.mu.Unlock()
	for p, ty := range l.types {
		if ty == t {
			return p, l.handlers[p], nil
		}
	}
	return "", nil, blobserver.ErrHandlerTypeNotFound
}
func (l *hLoader) AllHandlers() (map[string]string, map[string]any) {
	l.mu.Lock()
	defer l.mu.Unlock()
	t, h := map[string]string{}, map[string]any{}
	for p, ty := range l.types {
		t[p] = ty
		h[p] = l.handlers[p]
	}
	return t, h
}
func (l *hLoader) MyPrefix() string { return l.myPrefix }
func (l *hLoader) BaseURL() string  { return "http://verif.invalid" }
func (l *hLoader) GetHandlerType(p string) string {
	l.mu.Lock()
	defer l.mu.Unlock()
	return l.types[p]
}
func (l *hLoader) GetHandler(p string) (any, error) {
	l.mu.Lock()
	defer l.mu.Unlock()
	if h, ok := l.handlers[p]; ok {
		return h, nil
	}
	if s, ok := l.sto[p]; ok {
		return s, nil
	}
	return nil, fmt.Errorf("no handler %q", p)
}
func (l *hLoader) GetStorage(p string) (blobserver.Storage, error) {
	l.mu.Lock()
	defer l.mu.Unlock()
	if s, ok := l.sto[p]; ok {
		return s, nil
	}
	return nil, fmt.Errorf("no storage %q", p)
}

//go:build verif

package main

import (
	"context"
	"encoding/json"
	"fmt"
	"os"
	"path/filepath"
	"sort"
	"strings"
	"time"

	"perkeep.org/pkg/blob"
	"perkeep.org/pkg/schema"
	"perkeep.org/pkg/search"
	"perkeep.org/pkg/sorted"
	"perkeep.org/pkg/test"
)

func init() { props["C08"] = runC08 }

// the harness's own facts about one indexed blob (never read back from the index)
type c08blob struct {
	ref      blob.Ref
	rank     int
	ctype    string // "", permanode, file, directory, claim, static-set
	size     int
	deleted  bool
	mtime    time.Time           // latest claim date (any signer); zero = no claims
	ctime    time.Time           // dateCreated attribute of the owner if set, else mtime
	attrs    map[string][]string // owner's current values
	ntypes   map[string]bool     // camliNodeType values ever claimed by anyone
	whole    string              // wholeRef of a file
	name     string              // file / directory name
	hidden   bool
	fsize    int        // file: content length
	children []blob.Ref // directory: its direct entries
	hist     []c08hist  // permanode: the owner's attribute claims in the order issued
}

type c08World struct {
	blobs   []*c08blob
	wholes  []string // dictionary of wholeRefs (token = index+1); the last one is of no file
	vals    map[string]int
	allVals []string // every attribute value present in the world
	ticks   int      // claims are dated base+1s .. base+ticks s
	iw      *ixWorld
}

var c08Attrs = map[string]int{"camliNodeType": 1, "tag": 2, "title": 3, "dateCreated": 4, "camliDefVis": 5, "camliMember": 6, "camliPath:a": 7, "camliPath:b": 8, "rating": 9}

// the live edges of a permanode: its current camliMember / camliPath:* values that name a blob of the world
func (cw *c08World) kids(b *c08blob) []*c08blob {
	var out []*c08blob
	var names []string
	for a := range b.attrs {
		if a == "camliMember" || strings.HasPrefix(a, "camliPath:") {
			names = append(names, a)
		}
	}
	sort.Strings(names)
	for _, a := range names {
		for _, v := range b.attrs[a] {
			for _, x := range cw.blobs {
				if x.ref.String() == v {
					out = append(out, x)
				}
			}
		}
	}
	return out
}

func (cw *c08World) parents(b *c08blob) []*c08blob {
	var out []*c08blob
	for _, p := range cw.blobs {
		for _, k := range cw.kids(p) {
			if k == b {
				out = append(out, p)
				break
			}
		}
	}
	return out
}

func (cw *c08World) val(v string) int {
	if t, ok := cw.vals[v]; ok {
		return t
	}
	cw.vals[v] = len(cw.vals) + 1
	return cw.vals[v]
}

func buildC08World(c *ctx, w *world) *c08World {
	iw, err := newIndex(w, sorted.NewMemoryKeyValue(), true)
	must(err)
	cw := &c08World{vals: map[string]int{}, iw: iw}
	have := map[blob.Ref]bool{}
	add := func(b *test.Blob, ctype string) *c08blob {
		have[b.BlobRef()] = true
		must(iw.deliver(b))
		x := &c08blob{ref: b.BlobRef(), ctype: ctype, size: len(b.Contents), attrs: map[string][]string{}, ntypes: map[string]bool{}}
		cw.blobs = append(cw.blobs, x)
		return x
	}
	base := time.Unix(1400000000, 0).UTC()
	tick := 0
	now := func() time.Time {
		tick++
		if c.rng.Intn(6) == 0 && tick > 1 {
			tick-- // an occasional tie
		}
		return base.Add(time.Duration(tick) * time.Second)
	}
	claimOn := func(p *c08blob, si int, kind, attr, v string) {
		var bb *schema.Builder
		switch kind {
		case "set":
			bb = schema.NewSetAttributeClaim(p.ref, attr, v)
		case "add":
			bb = schema.NewAddAttributeClaim(p.ref, attr, v)
		default:
			bb = schema.NewDelAttributeClaim(p.ref, attr, v)
		}
		t := now()
		cb := w.claim(si, bb, t)
		if have[cb.BlobRef()] {
			return // the very same claim blob again (tied time): nothing new
		}
		add(cb, "claim")
		if t.After(p.mtime) {
			p.mtime = t
		}
		if attr == "camliNodeType" && kind != "del" {
			p.ntypes[v] = true
		}
		if si != 0 {
			return
		}
		p.hist = append(p.hist, c08hist{t, kind, attr, v})
		switch kind {
		case "set":
			p.attrs[attr] = []string{v}
		case "add":
			p.attrs[attr] = append(p.attrs[attr], v)
		default:
			var keep []string
			for _, x := range p.attrs[attr] {
				if v != "" && x != v {
					keep = append(keep, x)
				}
			}
			p.attrs[attr] = keep
		}
	}
	npn := 4 + c.rng.Intn(9)
	for i := 0; i < npn; i++ {
		p := add(w.permanode(0), "permanode")
		if c.rng.Intn(8) == 0 {
			continue // no claims at all
		}
		claim := func(si int, kind, attr, v string) { claimOn(p, si, kind, attr, v) }
		tags := []string{"x", "y", "z"}
		claim(0, "set", "tag", tags[c.rng.Intn(3)])
		if c.rng.Intn(3) == 0 {
			claim(0, "add", "tag", tags[c.rng.Intn(3)])
		}
		if c.rng.Intn(3) == 0 {
			claim(0, "set", "title", fmt.Sprintf("Title %d", i%3))
		}
		if c.rng.Intn(2) == 0 {
			nts := []string{"foo", "bar", "Foo", "foobar"}
			pick := func() string {
				if c.rng.Intn(4) == 0 {
					return nts[2+c.rng.Intn(2)]
				}
				return nts[c.rng.Intn(2)]
			}
			claim(0, "set", "camliNodeType", pick())
			if c.rng.Intn(4) == 0 {
				claim(0, "set", "camliNodeType", pick()) // a changed type: the "ever had" set grows
			}
			if c.rng.Intn(8) == 0 {
				claim(0, "del", "camliNodeType", "")
			}
		}
		if c.rng.Intn(10) == 0 {
			claim(1, "set", "camliNodeType", "foo") // somebody else's claim
		}
		if c.rng.Intn(10) == 0 {
			claim(1, "set", "tag", "x")
		}
		if c.rng.Intn(5) == 0 {
			claim(0, "set", "dateCreated", base.Add(-time.Duration(1+c.rng.Intn(5))*time.Hour).Format(time.RFC3339))
		}
		if c.rng.Intn(8) == 0 {
			claim(0, "set", "camliDefVis", "hide")
			p.hidden = true
		}
		if c.rng.Intn(3) == 0 {
			// the same value added twice (or three times), removed by a del claim naming it, other claims afterwards: what
			// the attribute held in between is only visible to queries "as of" that time
			claim(0, "add", "tag", "w")
			claim(0, "add", "tag", "w")
			if c.rng.Intn(2) == 0 {
				claim(0, "add", "tag", []string{"w", "v"}[c.rng.Intn(2)])
			}
			claim(0, "del", "tag", "w")
			if c.rng.Intn(2) == 0 {
				claim(0, "add", "tag", "v")
			}
			claim(0, "set", "title", fmt.Sprintf("Title %d", i%3))
		}
		if c.rng.Intn(3) == 0 {
			claim(0, "set", "rating", []string{"1", "2", "3", "5", "n/a", "04"}[c.rng.Intn(6)])
			if c.rng.Intn(3) == 0 {
				claim(0, "add", "rating", []string{"2", "4", "x"}[c.rng.Intn(3)])
			}
		}
	}
	// edges between permanodes: members and named paths, some re-pointed (a stale edge, then possibly a live one between
	// the same two permanodes, in either order), some removed again
	var pns []*c08blob
	for _, b := range cw.blobs {
		if b.ctype == "permanode" {
			pns = append(pns, b)
		}
	}
	for i := 0; i < len(pns)/2+c.rng.Intn(3); i++ {
		p, q := pns[c.rng.Intn(len(pns))], pns[c.rng.Intn(len(pns))]
		if p == q {
			continue
		}
		switch c.rng.Intn(7) {
		case 0, 1:
			claimOn(p, 0, "add", "camliMember", q.ref.String())
		case 2:
			claimOn(p, 0, "set", "camliPath:a", q.ref.String())
		case 3: // a path re-pointed elsewhere (the edge to q goes stale), then q a member after all
			r := pns[c.rng.Intn(len(pns))]
			claimOn(p, 0, "set", "camliPath:a", q.ref.String())
			if r != p {
				claimOn(p, 0, "set", "camliPath:a", r.ref.String())
			}
			claimOn(p, 0, "add", "camliMember", q.ref.String())
		case 4: // the other order: a live member edge first, then a path that goes stale
			r := pns[c.rng.Intn(len(pns))]
			claimOn(p, 0, "add", "camliMember", q.ref.String())
			claimOn(p, 0, "set", "camliPath:b", q.ref.String())
			if r != p {
				claimOn(p, 0, "set", "camliPath:b", r.ref.String())
			}
		case 5: // a member added and removed again
			claimOn(p, 0, "add", "camliMember", q.ref.String())
			claimOn(p, 0, "del", "camliMember", q.ref.String())
		default:
			// (edges claimed by another signer are left out: the relation matcher counts them - PermanodeHasAttrValue has no
			// signer filter - while attribute constraints look at the owner's claims only; which of the two is meant is not
			// documented, so the worlds do not depend on it)
			claimOn(p, 0, "set", "camliPath:b", q.ref.String())
		}
	}
	// one permanode with several members whose tags differ (a value-in-set query about one member must not depend on
	// what the query found out about the members listed before it)
	if len(pns) >= 4 {
		hub := pns[0]
		for _, m := range pns[1:4] {
			claimOn(hub, 0, "add", "camliMember", m.ref.String())
		}
		claimOn(hub, 0, "add", "camliMember", pns[1].ref.String())
	}
	for _, p := range cw.blobs {
		if p.ctype == "permanode" && c.rng.Intn(7) == 0 {
			p.deleted = true
			add(w.claim(0, schema.NewDeleteClaim(p.ref), base.Add(time.Hour)), "claim")
			if base.Add(time.Hour).After(p.mtime) {
				p.mtime = base.Add(time.Hour) // the delete claim is a claim on the permanode: it is its latest modification
			}
		}
	}
	// files over a small pool of contents (so wholeRefs are shared), a directory
	pool := []string{"content-a", "content-b-longer-than-a", "c"}
	var fileRefs []blob.Ref
	chunkSeen := map[string]bool{}
	for i := 0; i < 2+c.rng.Intn(4); i++ {
		content := pool[c.rng.Intn(len(pool))]
		if !chunkSeen[content] {
			chunkSeen[content] = true
			add(&test.Blob{Contents: content}, "")
		}
		cb := &test.Blob{Contents: content}
		fm := schema.NewFileMap(fmt.Sprintf("f%d.txt", i))
		fm.PopulateParts(int64(len(content)), []schema.BytesPart{{Size: uint64(len(content)), BlobRef: cb.BlobRef()}})
		fj, _ := fm.JSON()
		f := add(&test.Blob{Contents: fj}, "file")
		f.name = fmt.Sprintf("f%d.txt", i)
		f.fsize = len(content)
		f.whole = blob.RefFromString(content).String()
		fileRefs = append(fileRefs, f.ref)
	}
	// directories: "sub" (some files) inside "dir" (the other files), possibly inside "top"; or one flat directory
	mkdir := func(name string, members []blob.Ref) *c08blob {
		ss := schema.NewStaticSet()
		subsets := ss.SetStaticSetMembers(members)
		top := add(&test.Blob{Contents: ss.Blob().JSON()}, "static-set")
		for _, s := range subsets {
			add(&test.Blob{Contents: s.JSON()}, "static-set")
		}
		dm := schema.NewDirMap(name).PopulateDirectoryMap(top.ref)
		dj, _ := dm.JSON()
		d := add(&test.Blob{Contents: dj}, "directory")
		d.name = name
		d.children = append([]blob.Ref(nil), members...)
		return d
	}
	switch c.rng.Intn(4) {
	case 0:
	case 1:
		mkdir("dir", fileRefs)
	default:
		k := 1 + c.rng.Intn(len(fileRefs)-1)
		sub := mkdir("sub", fileRefs[:k])
		members := append(append([]blob.Ref(nil), fileRefs[k:]...), sub.ref)
		if c.rng.Intn(2) == 0 {
			members = append(members, mkdir("empty", nil).ref) // a directory without entries
		}
		dir := mkdir("dir", members)
		if c.rng.Intn(2) == 0 {
			mkdir("top", []blob.Ref{dir.ref})
		}
	}
	for i := 0; i < c.rng.Intn(3); i++ {
		add(&test.Blob{Contents: fmt.Sprintf("opaque %d", c.rng.Int63())}, "")
	}
	iw.ix.VerifAwaitReindex()
	for _, b := range cw.blobs {
		b.ctime = b.mtime
		if v := b.attrs["dateCreated"]; len(v) > 0 {
			if t, err := time.Parse(time.RFC3339, v[0]); err == nil {
				b.ctime = t
			}
		}
	}
	seenVal := map[string]bool{}
	for _, b := range cw.blobs {
		var names []string
		for a := range b.attrs {
			names = append(names, a)
		}
		sort.Strings(names)
		for _, a := range names {
			for _, v := range b.attrs[a] {
				if !seenVal[v] {
					seenVal[v] = true
					cw.allVals = append(cw.allVals, v)
					cw.val(v)
				}
			}
		}
	}
	// ranks by blobref text order
	sorted := append([]*c08blob(nil), cw.blobs...)
	sort.Slice(sorted, func(i, j int) bool { return sorted[i].ref.String() < sorted[j].ref.String() })
	for i, b := range sorted {
		b.rank = i + 1
	}
	cw.blobs = sorted
	for _, s := range pool {
		cw.wholes = append(cw.wholes, blob.RefFromString(s).String())
	}
	cw.wholes = append(cw.wholes, blob.RefFromString("no such file").String())
	cw.ticks = tick
	return cw
}

func c08ctype(t string) string {
	switch t {
	case "permanode":
		return "TPermanode"
	case "file":
		return "TFile"
	case "directory":
		return "TDir"
	case "claim":
		return "TClaim"
	case "static-set":
		return "TSet"
	}
	return "TNone"
}

func (cw *c08World) coq() string {
	var bs []string
	for _, b := range cw.blobs {
		var attrs []string
		var names []string
		for a := range b.attrs {
			names = append(names, a)
		}
		sort.Strings(names)
		for _, a := range names {
			var vs []string
			for _, v := range b.attrs[a] {
				vs = append(vs, fmt.Sprint(cw.val(v)))
			}
			attrs = append(attrs, fmt.Sprintf("(%d, %s)", c08Attrs[a], qlist(vs)))
		}
		var nts []string
		var ntNames []string
		for t := range b.ntypes {
			ntNames = append(ntNames, t)
		}
		sort.Strings(ntNames)
		for _, t := range ntNames {
			nts = append(nts, fmt.Sprint(cw.val(t)))
		}
		wh := 0
		for i, x := range cw.wholes {
			if x == b.whole {
				wh = i + 1
			}
		}
		var kids []string
		for _, k := range cw.kids(b) {
			kids = append(kids, fmt.Sprint(k.rank))
		}
		bs = append(bs, fmt.Sprintf("mkm %d %s %d %s %s %s %s %s %d %s", b.rank, c08ctype(b.ctype), b.size, qb(b.deleted),
			qopt(!b.mtime.IsZero(), qz(b.mtime.UnixNano())), qopt(!b.ctime.IsZero(), qz(b.ctime.UnixNano())), qlist(attrs), qlist(nts), wh, qlist(kids)))
	}
	return "[" + strings.Join(bs, ";\n   ") + "]"
}

// ---- constraint trees ----
type qc struct {
	op                             string // and or xor not, "" = none
	a, b                           *qc
	anything                       bool
	camli                          string
	anycamli                       bool
	perm                           bool
	attr, val                      string
	vmEquals, vmContains, vmPrefix string // ValueMatches (a StringConstraint), modelled by the set of values it accepts
	vmFold                         bool
	skipHidden                     bool // SPEC-only
	numValMin                      int  // SPEC-only: NumValue{Min}
	whole                          int  // token
	wholeRef                       string
	fileName                       string // SPEC-only: FileName{HasPrefix}
	size                           *[2]int
	refis                          int    // rank, len+1 = a ref not in the world
	prefix                         string // proper prefix of blobref strings
	absentRef                      blob.Ref
	rel                            *qc // PermanodeConstraint{Relation}: the Any / All sub-constraint
	relParent, relAll              bool
	// SPEC-only (c08x.go)
	valAll     bool
	vmInt      *[2]int
	inSet      *qc
	modT, anyT *c08time
	at         time.Time
	fileSize   *[2]int
	fParent    *dqc
	dir        *dqc
}

func (q *qc) hasVM() bool { return q.vmEquals != "" || q.vmContains != "" || q.vmPrefix != "" }

// vmMatches is the documented meaning of the StringConstraint on one value
func (q *qc) vmMatches(v string) bool {
	e, c, p := q.vmEquals, q.vmContains, q.vmPrefix
	if q.vmFold {
		v, e, c, p = strings.ToLower(v), strings.ToLower(e), strings.ToLower(c), strings.ToLower(p)
	}
	return (e == "" || v == e) && (c == "" || strings.Contains(v, c)) && (p == "" || strings.HasPrefix(v, p))
}

func (q *qc) isEmpty() bool {
	return q.op == "" && !q.anything && q.camli == "" && !q.anycamli && !q.perm && q.whole == 0 && q.fileName == "" && q.size == nil && q.refis == 0 && q.prefix == "" && !q.richX()
}

func (q *qc) rich() bool {
	if q == nil {
		return false
	}
	// everything the planner does not look into is given to the model as the set of blobs it matches (the struct's further
	// conjunct); only a time-travelling Value on camliNodeType - which the planner does look at - stays SPEC-only
	return (q.perm && !q.at.IsZero() && q.attr == "camliNodeType" && q.val != "") || q.a.rich() || q.b.rich() || q.rel.rich()
}

func (q *qc) String() string {
	if q == nil {
		return "nil"
	}
	var f []string
	if q.op == "not" {
		f = append(f, "not("+q.a.String()+")")
	} else if q.op != "" {
		f = append(f, q.op+"("+q.a.String()+", "+q.b.String()+")")
	}
	if q.anything {
		f = append(f, "anything")
	}
	if q.camli != "" {
		f = append(f, "camliType="+q.camli)
	}
	if q.anycamli {
		f = append(f, "anyCamliType")
	}
	if q.perm {
		s := "permanode{"
		if q.attr != "" && !q.hasVM() {
			s += q.attr + "=" + q.val
		}
		if q.hasVM() {
			s += fmt.Sprintf("%s~{equals %q contains %q prefix %q fold %v}", q.attr, q.vmEquals, q.vmContains, q.vmPrefix, q.vmFold)
		}
		if q.skipHidden {
			s += " skipHidden"
		}
		if q.numValMin > 0 {
			s += fmt.Sprintf(" numValue>=%d", q.numValMin)
		}
		s += q.permExtraString()
		if q.rel != nil {
			s += fmt.Sprintf(" relation{%s %s %s}", map[bool]string{true: "parent", false: "child"}[q.relParent], map[bool]string{true: "all", false: "any"}[q.relAll], q.rel.String())
		}
		f = append(f, s+"}")
	}
	if q.whole != 0 || q.fileName != "" || q.fileSize != nil || q.fParent != nil {
		x := fmt.Sprintf("file{whole#%d name^%q", q.whole, q.fileName)
		if q.fileSize != nil {
			x += fmt.Sprintf(" size[%d,%d]", q.fileSize[0], q.fileSize[1])
		}
		if q.fParent != nil {
			x += " parentDir=" + q.fParent.String()
		}
		f = append(f, x+"}")
	}
	if q.dir != nil {
		f = append(f, q.dir.String())
	}
	if q.size != nil {
		f = append(f, fmt.Sprintf("size[%d,%d]", q.size[0], q.size[1]))
	}
	if q.refis != 0 {
		f = append(f, fmt.Sprintf("ref=#%d", q.refis))
	}
	if q.prefix != "" {
		f = append(f, "prefix="+q.prefix)
	}
	if len(f) == 0 {
		return "{}"
	}
	return "{" + strings.Join(f, " & ") + "}"
}

func (q *qc) toSearch(cw *c08World) *search.Constraint {
	if q == nil {
		return nil
	}
	sc := &search.Constraint{Anything: q.anything, CamliType: schema.CamliType(q.camli), AnyCamliType: q.anycamli}
	if q.op != "" {
		sc.Logical = &search.LogicalConstraint{Op: q.op, A: q.a.toSearch(cw), B: q.b.toSearch(cw)}
	}
	if q.perm {
		pc := &search.PermanodeConstraint{Attr: q.attr, Value: q.val, SkipHidden: q.skipHidden}
		if q.numValMin > 0 {
			pc.NumValue = &search.IntConstraint{Min: int64(q.numValMin)}
		}
		if q.hasVM() {
			pc.ValueMatches = &search.StringConstraint{Equals: q.vmEquals, Contains: q.vmContains, HasPrefix: q.vmPrefix, CaseInsensitive: q.vmFold}
		}
		pc.ValueAll, pc.At = q.valAll, q.at
		if q.vmInt != nil {
			pc.ValueMatchesInt = &search.IntConstraint{Min: int64(q.vmInt[0]), Max: int64(q.vmInt[1])}
		}
		if q.inSet != nil {
			pc.ValueInSet = q.inSet.toSearch(cw)
		}
		pc.ModTime, pc.Time = q.modT.toSearch(), q.anyT.toSearch()
		if q.rel != nil {
			rc := &search.RelationConstraint{Relation: map[bool]string{true: "parent", false: "child"}[q.relParent]}
			if q.relAll {
				rc.All = q.rel.toSearch(cw)
			} else {
				rc.Any = q.rel.toSearch(cw)
			}
			pc.Relation = rc
		}
		sc.Permanode = pc
	}
	if q.whole != 0 || q.fileName != "" || q.fileSize != nil || q.fParent != nil {
		fc := &search.FileConstraint{ParentDir: q.fParent.toSearch(cw)}
		if q.whole != 0 {
			fc.WholeRef = blob.MustParse(cw.wholes[q.whole-1])
		}
		if q.fileName != "" {
			fc.FileName = &search.StringConstraint{HasPrefix: q.fileName}
		}
		if q.fileSize != nil {
			fc.FileSize = &search.IntConstraint{Min: int64(q.fileSize[0]), Max: int64(q.fileSize[1])}
		}
		sc.File = fc
	}
	if q.dir != nil {
		sc.Dir = q.dir.toSearch(cw)
	}
	if q.size != nil {
		sc.BlobSize = &search.IntConstraint{Min: int64(q.size[0]), Max: int64(q.size[1])}
	}
	if q.refis != 0 {
		if q.refis <= len(cw.blobs) {
			sc.BlobRefPrefix = cw.blobs[q.refis-1].ref.String()
		} else {
			sc.BlobRefPrefix = q.absentRef.String()
		}
	}
	if q.prefix != "" {
		sc.BlobRefPrefix = q.prefix
	}
	return sc
}

func (q *qc) coq(cw *c08World) string {
	logical := "None"
	if q.op == "not" {
		logical = fmt.Sprintf("(Some (ONot, %s, %s))", q.a.coq(cw), q.a.coq(cw))
	} else if q.op != "" {
		logical = fmt.Sprintf("(Some (%s, %s, %s))", map[string]string{"and": "OAnd", "or": "OOr", "xor": "OXor"}[q.op], q.a.coq(cw), q.b.coq(cw))
	}
	// the conjuncts of this struct the planner never looks into, as the set of blobs satisfying all of them
	var opaque map[int]bool
	meet := func(pred func(b *c08blob) bool) {
		next := map[int]bool{}
		for _, b := range cw.blobs {
			if (opaque == nil || opaque[b.rank]) && pred(b) {
				next[b.rank] = true
			}
		}
		opaque = next
	}
	permRich := q.perm && (q.skipHidden || q.numValMin > 0 || q.valAll || q.vmInt != nil || q.inSet != nil || q.modT != nil || q.anyT != nil || !q.at.IsZero())
	perm := "None"
	if q.perm {
		a, v := 0, "PNone"
		switch {
		case q.attr == "":
		case permRich && !q.hasValueConstraint() && q.numValMin == 0:
			a = c08Attrs[q.attr] // an attribute without NumValue or a value constraint: not a valid query
		case permRich && (!q.at.IsZero() || (q.val == "" && !q.hasVM())):
			// nothing of it is planner-visible: any permanode, restricted by the opaque set below
		default:
			a = c08Attrs[q.attr]
			if q.val != "" && q.hasVM() {
				// Value and ValueMatches in one struct: a value must satisfy both
				v = fmt.Sprintf("PExactIf %d %s", cw.val(q.val), qb(q.vmMatches(q.val)))
			} else if q.val != "" {
				v = fmt.Sprintf("PExact %d", cw.val(q.val))
			} else if q.hasVM() {
				var toks []string
				for _, x := range cw.allVals {
					if q.vmMatches(x) {
						toks = append(toks, fmt.Sprint(cw.val(x)))
					}
				}
				v = "PIn " + qlist(toks)
			}
		}
		perm = fmt.Sprintf("(Some (%d, %s))", a, v)
		if permRich && !(q.attr != "" && !q.hasValueConstraint() && q.numValMin == 0) {
			pq := *q
			pq.op, pq.a, pq.b, pq.rel = "", nil, nil, nil
			only := &qc{perm: true, attr: pq.attr, val: pq.val, vmEquals: pq.vmEquals, vmContains: pq.vmContains, vmPrefix: pq.vmPrefix, vmFold: pq.vmFold,
				skipHidden: pq.skipHidden, numValMin: pq.numValMin, valAll: pq.valAll, vmInt: pq.vmInt, inSet: pq.inSet, modT: pq.modT, anyT: pq.anyT, at: pq.at}
			meet(func(b *c08blob) bool { return only.eval(cw, b) })
		}
	}
	size := "None"
	if q.size != nil {
		size = fmt.Sprintf("(Some (%d, %d))", q.size[0], q.size[1])
	}
	if q.prefix != "" {
		meet(func(b *c08blob) bool { return strings.HasPrefix(b.ref.String(), q.prefix) })
	}
	if q.fileName != "" || q.fileSize != nil || q.fParent != nil {
		only := &qc{fileName: q.fileName, fileSize: q.fileSize, fParent: q.fParent}
		meet(func(b *c08blob) bool { return only.eval(cw, b) })
	}
	if q.dir != nil {
		meet(func(b *c08blob) bool { return q.dir.eval(cw, b) })
	}
	prefix := "None"
	if opaque != nil {
		var rs []string
		for _, b := range cw.blobs {
			if opaque[b.rank] {
				rs = append(rs, fmt.Sprint(b.rank))
			}
		}
		prefix = "(Some " + qlist(rs) + ")"
	}
	rel := "None"
	if q.rel != nil {
		rel = fmt.Sprintf("(Some (%s, %s, %s))", qb(q.relParent), qb(q.relAll), q.rel.coq(cw))
	}
	return fmt.Sprintf("(Node %s %s %s %s %s %d %s %d %s %s)", logical, qb(q.anything), c08ctype(q.camli), qb(q.anycamli), perm, q.whole, size, q.refis, prefix, rel)
}

// the reference evaluator: the documented meaning of a constraint on the harness's facts
func (q *qc) eval(cw *c08World, b *c08blob) bool {
	n, ok := 0, true
	cond := func(v bool) {
		n++
		ok = ok && v
	}
	switch q.op {
	case "and":
		cond(q.a.eval(cw, b) && q.b.eval(cw, b))
	case "or":
		cond(q.a.eval(cw, b) || q.b.eval(cw, b))
	case "xor":
		cond(q.a.eval(cw, b) != q.b.eval(cw, b))
	case "not":
		cond(!q.a.eval(cw, b))
	}
	if q.anything {
		cond(true)
	}
	if q.camli != "" {
		cond(b.ctype == q.camli)
	}
	if q.anycamli {
		cond(b.ctype != "")
	}
	if q.perm {
		m := b.ctype == "permanode"
		if m && q.attr != "" {
			vals := b.attrs[q.attr]
			if !q.at.IsZero() {
				vals = b.valuesAt(q.attr, q.at)
			}
			if q.numValMin > 0 && len(vals) < q.numValMin {
				m = false
			}
			if q.hasValueConstraint() {
				nmatch := 0
				for _, v := range vals {
					if q.valueMatches(cw, v) {
						nmatch++
					}
				}
				// one value must match; with valueAll, all of them
				m = m && nmatch > 0 && (!q.valAll || nmatch == len(vals))
			}
		}
		if m && q.modT != nil && !q.modT.matches(b.mtime) {
			m = false
		}
		if m && q.anyT != nil && !q.anyT.matches(b.ctime) {
			m = false
		}
		if m && q.skipHidden && b.hidden {
			m = false
		}
		if m && q.rel != nil {
			related := cw.kids(b)
			if q.relParent {
				related = cw.parents(b)
			}
			good, bad := false, false
			for _, r := range related {
				if q.rel.eval(cw, r) {
					good = true
				} else {
					bad = true
				}
			}
			if q.relAll {
				m = good && !bad
			} else {
				m = good
			}
		}
		cond(m)
	}
	if q.whole != 0 || q.fileName != "" || q.fileSize != nil || q.fParent != nil {
		m := b.ctype == "file"
		if q.whole != 0 && b.whole != q.wholeRef {
			m = false
		}
		if q.fileName != "" && !strings.HasPrefix(b.name, q.fileName) {
			m = false
		}
		if q.fileSize != nil && !inRange(b.fsize, q.fileSize) {
			m = false
		}
		if m && q.fParent != nil {
			m = false
			for _, d := range cw.parentDirs(b) {
				m = m || q.fParent.eval(cw, d)
			}
		}
		cond(m)
	}
	if q.dir != nil {
		cond(q.dir.eval(cw, b))
	}
	if q.size != nil {
		cond(b.size >= q.size[0] && (q.size[1] == 0 || b.size <= q.size[1]))
	}
	if q.refis != 0 {
		cond(b.rank == q.refis)
	}
	if q.prefix != "" {
		cond(strings.HasPrefix(b.ref.String(), q.prefix))
	}
	return n > 0 && ok
}

func genQC(c *ctx, cw *c08World, depth int) *qc {
	q := &qc{}
	leaf := func() {
		switch r := c.rng.Intn(29); {
		case r >= 24:
			genRichLeaf(c, cw, q, depth, time.Unix(1400000000, 0).UTC())
		case r < 1:
			q.anything = true
		case r < 5:
			q.camli = []string{"permanode", "permanode", "file", "directory", "claim", "static-set"}[c.rng.Intn(6)]
		case r < 6:
			q.anycamli = true
		case r < 14:
			q.perm = true
			switch c.rng.Intn(8) {
			case 0:
			case 1, 2, 3:
				q.attr, q.val = "camliNodeType", []string{"foo", "bar", "baz"}[c.rng.Intn(3)]
			case 4, 5:
				q.attr, q.val = "tag", []string{"x", "y", "z"}[c.rng.Intn(3)]
			case 6:
				if c.rng.Intn(2) == 0 {
					q.attr, q.val = "title", fmt.Sprintf("Title %d", c.rng.Intn(3))
				} else {
					q.attr = []string{"camliNodeType", "camliNodeType", "title", "tag"}[c.rng.Intn(4)]
					switch c.rng.Intn(4) {
					case 0:
						q.vmEquals = []string{"foo", "FOO", "bar", "x"}[c.rng.Intn(4)]
					case 1:
						q.vmContains = []string{"oo", "ba", "Title", "1"}[c.rng.Intn(4)]
					case 2:
						q.vmPrefix = []string{"foo", "Fo", "T", "b"}[c.rng.Intn(4)]
					default:
						q.vmEquals, q.vmPrefix = "foo", "f"
					}
					q.vmFold = c.rng.Intn(2) == 0
				}
			default:
				q.attr = []string{"camliNodeType", "title", "tag"}[c.rng.Intn(3)]
				if c.rng.Intn(2) == 0 {
					q.numValMin = 1 + c.rng.Intn(2)
				}
			}
			if c.rng.Intn(12) == 0 {
				q.skipHidden = true
			}
			if depth > 0 && c.rng.Intn(4) == 0 { // children-of / parents-of
				q.rel = genQC(c, cw, 0)
				if c.rng.Intn(3) == 0 {
					q.rel = genQC(c, cw, 1)
				}
				q.relParent = c.rng.Intn(2) == 0
				q.relAll = c.rng.Intn(3) == 0
				if q.rel.rich() || q.rel.isEmpty() {
					q.rel = &qc{perm: true, attr: "tag", val: []string{"x", "y", "z"}[c.rng.Intn(3)]}
				}
			}
		case r < 17:
			q.whole = 1 + c.rng.Intn(len(cw.wholes))
			q.wholeRef = cw.wholes[q.whole-1]
			if c.rng.Intn(6) == 0 {
				q.fileName = "f1"
			}
		case r < 19:
			lo := c.rng.Intn(3) * 200
			hi := 0
			if c.rng.Intn(2) == 0 {
				hi = lo + 100 + c.rng.Intn(600)
			}
			q.size = &[2]int{lo, hi}
		case r < 22:
			q.refis = 1 + c.rng.Intn(len(cw.blobs)+1)
			if c.rng.Intn(8) == 0 {
				q.refis = len(cw.blobs) + 1
			}
			q.absentRef = blob.RefFromString("not in the world")
			q.prefix = ""
		default:
			b := cw.blobs[c.rng.Intn(len(cw.blobs))]
			q.prefix = b.ref.String()[:len("sha224-")+1+c.rng.Intn(3)]
			q.refis = 0
		}
	}
	r := c.rng.Intn(10)
	switch {
	case depth <= 0 || r < 3:
		leaf()
		if c.rng.Intn(6) == 0 {
			leaf() // a second field in the same struct
		}
		if c.rng.Intn(40) == 0 {
			*q = qc{} // the empty constraint
		}

	default:
		q.op = []string{"and", "and", "and", "or", "or", "xor", "not"}[c.rng.Intn(7)]
		q.a = genQC(c, cw, depth-1)
		if q.op != "not" {
			q.b = genQC(c, cw, depth-1)
		}
		if c.rng.Intn(8) == 0 {
			leaf() // logical plus a field
		}
	}
	if !q.at.IsZero() {
		q.rel = nil // the reference evaluator knows the edges as they are now, not as of a past time
	}
	return q
}

var c08Sources = map[string]int{"corpus_permanode_lastmod": 1, "corpus_permanode_created": 2, "corpus_permanode_types": 3, "one_blob": 4,
	"corpus_file_meta": 5, "corpus_blob_meta": 6, "index_blob_meta": 7}

func runC08(c *ctx) {
	c.rep.Rule = "worlds of 4-12 permanodes (tags with several values, titles, camliNodeType possibly changed/deleted/claimed by another signer, dateCreated, hidden, deleted, claim-less), their claims, 2-5 files over 3 contents (shared wholeRefs), integer-valued and non-integer ratings, directories (none / one flat / sub inside dir, possibly inside top) with their static-sets, opaque blobs; " +
		"edges between permanodes (camliMember, camliPath:a/b; re-pointed paths leaving a stale edge before or after a live one between the same two permanodes, members removed again, another signer's edges); random constraint trees of depth <= 3 over logical and/or/xor/not, permanode{relation parent|child, any|all, sub-constraint}, anything, camliType, anyCamliType, blobSize, blobRefPrefix (complete / proper / absent), permanode{attr,value}, file{wholeRef}, multi-field structs, the empty struct, " +
		"biased towards permanode-only conjunctions so that the typed/sorted candidate sources are planned (leaves numValue, skipHidden, fileName, valueAll, valueMatchesInt, valueInSet, modTime, time, at, file size / parentDir and directory name / prefix / topFileCount / contains / recursiveContains / parentDir are given to the model as the set of blobs they match, computed by the reference evaluator); " +
		"every sort in {unspecified, unsorted, -mod, -created, blobref} x limits {-1,1,2,3,n-1,n,n+1}; non-trivial = distinct query with at least one match"
	w, err := newWorld()
	must(err)
	var lastSrc string
	old := search.VerifSetCandSourceHook(func(s string) { lastSrc = s })
	defer search.VerifSetCandSourceHook(old)
	ctxb := context.Background()
	sorts := []struct {
		t    search.SortType
		coq  string
		name string
	}{{search.UnspecifiedSort, "SUnspecified", "unspecified"}, {search.Unsorted, "SUnsorted", "unsorted"}, {search.LastModifiedDesc, "SLastModDesc", "-mod"},
		{search.CreatedDesc, "SCreatedDesc", "-created"}, {search.BlobRefAsc, "SBlobRefAsc", "blobref"}}
	for wi := 0; wi < c.n(6, 60); wi++ {
		cw := buildC08World(c, w)
		h := cw.iw.handler(w, 0)
		wname := fmt.Sprintf("w%d", wi)
		byRef := map[blob.Ref]*c08blob{}
		for _, b := range cw.blobs {
			byRef[b.ref] = b
		}
		for qi := 0; qi < c.n(185, 275); qi++ {
			q := genQC(c, cw, 1+c.rng.Intn(3))
			nt := func(v string) *qc { return &qc{perm: true, attr: "camliNodeType", val: v} }
			shapes := []*qc{
				{op: "or", a: nt("foo"), b: nt("bar")},
				{op: "or", a: nt("foo"), b: nt("foo")},
				{op: "or", a: nt("bar"), b: &qc{op: "and", a: nt("foo"), b: &qc{perm: true, attr: "tag", val: "x"}}},
				{op: "or", a: nt("foo"), b: &qc{perm: true, attr: "tag", val: "x"}},
				{op: "and", a: &qc{op: "or", a: nt("foo"), b: nt("bar")}, b: &qc{op: "not", a: nt("foo")}},
			}
			shapes = append(shapes,
				&qc{perm: true, attr: "camliNodeType", vmEquals: "foo", vmFold: true},
				&qc{op: "or", a: nt("bar"), b: &qc{perm: true, attr: "camliNodeType", vmPrefix: "foo"}})
			// the relation constraints, every world: children-of / parents-of x any / all x a few sub-constraints
			for _, par := range []bool{false, true} {
				for _, all := range []bool{false, true} {
					for _, sub := range []*qc{{camli: "permanode"}, {perm: true, attr: "tag", val: "x"}, {perm: true, attr: "tag", val: "y"}, {perm: true, attr: "tag", val: "z"}, {anything: true}} {
						shapes = append(shapes, &qc{perm: true, rel: sub, relParent: par, relAll: all})
					}
				}
			}
			nPermShapes := len(shapes) // these are repeated below inside a permanode-only conjunction
			// the directory / file-tree constraints, every world
			fn := func(p string) *qc { return &qc{fileName: p} }
			shapes = append(shapes,
				&qc{dir: &dqc{rcontains: fn("f")}},
				&qc{dir: &dqc{name: "top", rcontains: fn("f")}},
				&qc{dir: &dqc{name: "dir", rcontains: fn("f0")}},
				&qc{dir: &dqc{top: &[2]int{1, 1}, rcontains: fn("f")}},
				&qc{dir: &dqc{contains: &qc{dir: &dqc{name: "sub"}}}},
				&qc{dir: &dqc{rcontains: &qc{dir: &dqc{name: "sub"}}}},
				&qc{dir: &dqc{contains: fn("f0")}},
				&qc{dir: &dqc{parent: &dqc{name: "top"}}},
				&qc{dir: &dqc{parent: &dqc{parent: &dqc{name: "top"}}}},
				&qc{fParent: &dqc{name: "sub"}},
				&qc{fParent: &dqc{parent: &dqc{name: "dir"}}},
				&qc{fileSize: &[2]int{2, 9}},
				&qc{dir: &dqc{top: &[2]int{2, 0}}},
				&qc{perm: true, attr: "tag", val: "x", valAll: true},
				&qc{perm: true, attr: "rating", vmInt: &[2]int{2, 4}},
				&qc{perm: true, attr: "camliMember", inSet: &qc{perm: true, attr: "tag", val: "x"}})
			// attribute values as of earlier times, across the world's whole history
			for k := 0; k < 6; k++ {
				at := time.Unix(1400000000, 0).UTC().Add(time.Duration((k+1)*cw.ticks/7)*time.Second + 500*time.Millisecond)
				shapes = append(shapes,
					&qc{perm: true, attr: "tag", val: []string{"w", "v", "x"}[k%3], at: at},
					&qc{perm: true, attr: "tag", numValMin: 1 + k%3, at: at},
					&qc{perm: true, attr: "tag", val: "w", valAll: true, at: at})
			}
			// an empty directory and the counts; several parentDir / contains constraints in one search
			dn := func(n string) *dqc { return &dqc{name: n} }
			shapes = append(shapes,
				&qc{dir: &dqc{top: &[2]int{1, 0}}},
				&qc{dir: &dqc{contains: &qc{dir: &dqc{top: &[2]int{1, 0}}}}},
				&qc{dir: &dqc{name: "e"}},
				&qc{op: "or", a: &qc{fParent: dn("sub")}, b: &qc{fParent: dn("dir")}},
				&qc{op: "xor", a: &qc{fParent: dn("dir")}, b: &qc{fParent: dn("sub")}},
				&qc{op: "and", a: &qc{fParent: dn("d")}, b: &qc{op: "not", a: &qc{fParent: dn("sub")}}},
				&qc{op: "or", a: &qc{dir: &dqc{parent: dn("top")}}, b: &qc{dir: &dqc{parent: dn("dir")}}},
				&qc{op: "or", a: &qc{dir: &dqc{contains: fn("f0")}}, b: &qc{dir: &dqc{contains: fn("f1")}}},
				&qc{op: "xor", a: &qc{dir: &dqc{rcontains: fn("f0")}}, b: &qc{dir: &dqc{rcontains: fn("f1")}}})
			// several value-in-set sub-queries in one search, about the same blobs (per-search scratch state must not leak from
			// one sub-query to the other)
			ins := func(attr string, sub *qc) *qc { return &qc{perm: true, attr: attr, inSet: sub} }
			tagq := func(v string) *qc { return &qc{perm: true, attr: "tag", val: v} }
			for _, op := range []string{"or", "and", "xor"} {
				shapes = append(shapes,
					&qc{op: op, a: ins("camliMember", tagq("x")), b: ins("camliMember", tagq("y"))},
					&qc{op: op, a: ins("camliMember", tagq("y")), b: ins("camliMember", &qc{op: "not", a: tagq("y")})},
					&qc{op: op, a: ins("camliPath:a", &qc{camli: "permanode"}), b: ins("camliMember", tagq("z"))})
			}
			for _, v := range []string{"x", "y", "z", "w", "v"} {
				shapes = append(shapes, ins("camliMember", tagq(v)), ins("camliMember", &qc{perm: true, attr: "tag", vmEquals: v}))
			}
			shapes = append(shapes,
				ins("camliMember", &qc{perm: true, attr: "title", vmPrefix: "Title"}),
				ins("camliMember", &qc{perm: true, attr: "camliNodeType", val: "foo"}),
				&qc{op: "and", a: ins("camliMember", &qc{camli: "permanode"}), b: &qc{op: "not", a: ins("camliMember", tagq("x"))}},
				ins("camliMember", ins("camliMember", tagq("x"))))
			if q.String() != "" && strings.Contains(q.String(), "relation{") {
				c.count("relation constraints", "random")
			}
			if qi < len(shapes) {
				q = shapes[qi]
				if q.rel != nil {
					c.count("relation constraints", "fixed shape")
				}
			} else if qi < len(shapes)+nPermShapes {
				q = &qc{op: "and", a: shapes[qi-len(shapes)], b: &qc{camli: "permanode"}}
			}
			if qi >= len(shapes)+nPermShapes && c.rng.Intn(2) == 0 {
				// a permanode-only conjunction
				top := &qc{op: "and", a: &qc{camli: "permanode"}, b: q}
				if c.rng.Intn(3) == 0 {
					top.a = &qc{perm: true}
				}
				if c.rng.Intn(2) == 0 {
					top.a, top.b = top.b, top.a
				}
				q = top
			}
			sc := q.toSearch(cw)
			var matches []*c08blob
			for _, b := range cw.blobs {
				if q.eval(cw, b) {
					matches = append(matches, b)
				}
			}
			n := len(matches)
			limits := []int{-1, 1, 2, 3, n - 1, n, n + 1}
			for _, st := range sorts {
				for _, limit := range limits {
					if limit == 0 || limit < -1 {
						continue
					}
					if c.quick() && limit != -1 && c.rng.Intn(3) != 0 {
						continue
					}
					lastSrc = ""
					res, err := h.Query(ctxb, &search.SearchQuery{Constraint: sc, Sort: st.t, Limit: limit})
					src := lastSrc
					var got []*c08blob
					unknown := false
					if err == nil {
						for _, sb := range res.Blobs {
							if b := byRef[sb.Blob]; b != nil {
								got = append(got, b)
							} else {
								unknown = true
							}
						}
					}
					c.count("candidate source", src)
					c.count("sort", st.name)
					c.count("matches", bucket(n))
					desc := map[string]any{"world": wname, "constraint": q.String(), "sort": st.name, "limit": limit, "source": src, "matches": n}
					idx := -1
					if !q.rich() {
						var rs []string
						for _, b := range got {
							rs = append(rs, fmt.Sprint(b.rank))
						}
						idx = c.addCase(fmt.Sprintf("CQuery %s %s %s %s %d %s %s", wname, q.coq(cw), st.coq, qz(int64(limit)), c08Sources[src], qb(err == nil), qlist(rs)), desc, n > 0)
					} else {
						c.count("reference-only leaves", "queries")
					}
					c.rep.SpecChecks++
					if err != nil {
						c.count("outcome", "error: "+trimErr(err))
						continue
					}
					c.count("outcome", "ok")
					// ---- the property, against the reference evaluator ----
					bad, class := c08Spec(matches, got, unknown, st.name, limit, src)
					if bad != "" {
						c.violation(idx, class, fmt.Sprintf("%s, %s, sort %s, limit %d, source %s: %s", wname, q.String(), st.name, limit, src, bad), desc)
					}
				}
			}
		}
		if os.Getenv("VERIF_C08_DUMP") == wname { // debugging aid: the harness's facts about one world
			var dump []map[string]any
			for _, b := range cw.blobs {
				var hist []string
				for _, h := range b.hist {
					hist = append(hist, fmt.Sprintf("%s %s %s=%s", h.t.Format("15:04:05.000"), h.kind, h.attr, h.v))
				}
				dump = append(dump, map[string]any{"rank": b.rank, "ref": b.ref.String(), "type": b.ctype, "attrs": b.attrs, "hist": hist, "deleted": b.deleted})
			}
			js, _ := json.MarshalIndent(dump, "", " ")
			os.WriteFile(filepath.Join(c.out, "dump_"+wname+".json"), js, 0o644)
		}
		c.preamble = append(c.preamble, fmt.Sprintf("Definition %s : world :=\n  %s.", wname, cw.coq()))
	}
	for name := range c08Sources {
		if c.hist["candidate source"][name] == 0 {
			c.rep.TargetsMissed = append(c.rep.TargetsMissed, "candidate source "+name)
		}
	}
}

func trimErr(err error) string {
	s := err.Error()
	if len(s) > 60 {
		s = s[:60]
	}
	return s
}

func bucket(n int) string {
	switch {
	case n == 0:
		return "0"
	case n == 1:
		return "1"
	case n <= 4:
		return "2-4"
	}
	return "5+"
}

// c08Spec decides one answer: no duplicate, no non-matching blob, nothing missed, requested order, first N.
// A result that is right except that deleted or time-less permanodes are left out by a time-sorted enumeration is
// classed separately (known finding D7).
func c08Spec(matches, got []*c08blob, unknown bool, sortName string, limit int, src string) (string, string) {
	if unknown {
		return "a blob that was never indexed was returned", "c08-unknown-blob"
	}
	seen := map[*c08blob]bool{}
	for _, b := range got {
		if seen[b] {
			return fmt.Sprintf("blob #%d returned twice", b.rank), "c08-duplicate"
		}
		seen[b] = true
	}
	inM := map[*c08blob]bool{}
	for _, b := range matches {
		inM[b] = true
	}
	for _, b := range got {
		if !inM[b] {
			return fmt.Sprintf("blob #%d does not satisfy the constraint", b.rank), "c08-non-matching-returned"
		}
	}
	timeSorted := src == "corpus_permanode_lastmod" || src == "corpus_permanode_created"
	key := func(b *c08blob) time.Time {
		if src == "corpus_permanode_lastmod" || sortName == "-mod" {
			return b.mtime
		}
		return b.ctime
	}
	check := func(m []*c08blob) string {
		want := len(m)
		if limit > 0 && limit < want {
			want = limit
		}
		if len(got) != want {
			var missing []string
			for _, b := range m {
				if !seen[b] && len(missing) < 4 {
					missing = append(missing, fmt.Sprintf("#%d(%s mtime %s ctime %s deleted %v attrs %v)", b.rank, b.ctype, b.mtime.Format("15:04:05"), b.ctime.Format("15:04:05"), b.deleted, b.attrs))
				}
			}
			return fmt.Sprintf("%d results, want %d of %d matches; not returned: %s", len(got), want, len(m), strings.Join(missing, " "))
		}
		switch {
		case timeSorted || sortName == "-created" || sortName == "-mod":
			for i := 0; i+1 < len(got); i++ {
				if key(got[i]).Before(key(got[i+1])) {
					return fmt.Sprintf("not newest first at %d", i)
				}
			}
			if len(got) > 0 {
				last := key(got[len(got)-1])
				for _, b := range m {
					if !seen[b] && key(b).After(last) {
						return fmt.Sprintf("not the first %d: #%d is newer than a returned blob", limit, b.rank)
					}
				}
			}
		case sortName == "blobref":
			for i := range got {
				if got[i] != m[i] { // matches are in rank order
					return fmt.Sprintf("position %d is #%d, want #%d", i, got[i].rank, m[i].rank)
				}
			}
		}
		return ""
	}
	bad := check(matches)
	if bad == "" {
		return "", ""
	}
	if timeSorted {
		var kept []*c08blob
		skipped := 0
		for _, b := range matches {
			if b.ctype == "permanode" && (b.deleted || key(b).IsZero()) {
				skipped++
				continue
			}
			kept = append(kept, b)
		}
		if skipped > 0 && check(kept) == "" {
			return fmt.Sprintf("%s (the %d matching permanodes that are deleted or have no time are left out by the time-sorted enumeration, other sorts return them)", bad, skipped),
				"c08-sorted-source-skips-deleted-or-timeless-permanodes"
		}
	}
	return bad, "c08-wrong-result"
}

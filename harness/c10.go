//go:build verif

package main

import (
	"fmt"
	"os"
	"path/filepath"
	"sort"
	"strings"
	"time"

	"go4.org/jsonconfig"
	"perkeep.org/pkg/sorted"
	"perkeep.org/pkg/sorted/buffer"
	_ "perkeep.org/pkg/sorted/kvfile"
	_ "perkeep.org/pkg/sorted/leveldb"
	_ "perkeep.org/pkg/sorted/sqlite"
)

func init() { props["C10"] = runC10 }

// long uniform strings are written as (big n c)
func qkv(s string) string {
	if len(s) > 64 && strings.Count(s, s[:1]) == len(s) {
		return fmt.Sprintf("(big %d %d)", len(s), s[0])
	}
	return qs(s)
}

type kvOp struct {
	Kind string      `json:"kind"` // get set del batch find flush reopen
	K    string      `json:"k,omitempty"`
	V    string      `json:"v,omitempty"`
	E    string      `json:"e,omitempty"`
	Muts [][3]string `json:"muts,omitempty"` // [kind,k,v]
}

func (o kvOp) coq() string {
	switch o.Kind {
	case "get":
		return "OGet " + qkv(o.K)
	case "set":
		return "OSet " + qkv(o.K) + " " + qkv(o.V)
	case "del":
		return "ODel " + qkv(o.K)
	case "find":
		return "OFind " + qkv(o.K) + " " + qkv(o.E)
	case "flush":
		return "OFlush"
	case "reopen":
		return "OReopen"
	case "batch":
		var ms []string
		for _, m := range o.Muts {
			if m[0] == "set" {
				ms = append(ms, "MSet "+qkv(m[1])+" "+qkv(m[2]))
			} else {
				ms = append(ms, "MDel "+qkv(m[1]))
			}
		}
		return "OBatch " + qlist(ms)
	}
	panic("bad op")
}

var c10Tokens = []string{"|", ":", "a", "b", "\x7f", "\x80", "\xff", "claim", "meta", "0", "have", "\x01", " ", "~"}

func c10Key(c *ctx, pool *[]string) string {
	if len(*pool) > 0 && c.rng.Intn(3) != 0 {
		k := (*pool)[c.rng.Intn(len(*pool))]
		switch c.rng.Intn(6) {
		case 0:
			if len(k) > 1 {
				return k[:len(k)-1] // a prefix of an existing key
			}
		case 1:
			return k + c10Tokens[c.rng.Intn(len(c10Tokens))]
		}
		return k
	}
	if c.rng.Intn(40) == 0 {
		return strings.Repeat("k", 765+c.rng.Intn(4)) // around MaxKeySize
	}
	n := 1 + c.rng.Intn(4)
	var b strings.Builder
	for i := 0; i < n; i++ {
		b.WriteString(c10Tokens[c.rng.Intn(len(c10Tokens))])
	}
	k := b.String()
	*pool = append(*pool, k)
	return k
}

func c10Val(c *ctx) string {
	if c.rng.Intn(60) == 0 {
		return strings.Repeat("v", 62999+c.rng.Intn(3)) // around MaxValueSize
	}
	n := c.rng.Intn(4)
	var b strings.Builder
	for i := 0; i < n; i++ {
		b.WriteString(c10Tokens[c.rng.Intn(len(c10Tokens))])
	}
	return b.String()
}

func c10GenOps(c *ctx, n int, isBuffer, canReopen bool) []kvOp {
	var pool []string
	var ops []kvOp
	for i := 0; i < n; i++ {
		r := c.rng.Intn(100)
		switch {
		case r < 30:
			ops = append(ops, kvOp{Kind: "set", K: c10Key(c, &pool), V: c10Val(c)})
		case r < 45:
			ops = append(ops, kvOp{Kind: "get", K: c10Key(c, &pool)})
		case r < 55:
			ops = append(ops, kvOp{Kind: "del", K: c10Key(c, &pool)})
		case r < 70:
			var muts [][3]string
			for j := c.rng.Intn(5); j >= 0; j-- {
				if c.rng.Intn(3) == 0 {
					muts = append(muts, [3]string{"del", c10Key(c, &pool), ""})
				} else {
					muts = append(muts, [3]string{"set", c10Key(c, &pool), c10Val(c)})
				}
			}
			ops = append(ops, kvOp{Kind: "batch", Muts: muts})
		case r < 90:
			s, e := "", ""
			if c.rng.Intn(3) != 0 {
				s = c10Key(c, &pool)
			}
			if c.rng.Intn(2) == 0 {
				e = c10Key(c, &pool)
			}
			ops = append(ops, kvOp{Kind: "find", K: s, E: e})
		case r < 95 && isBuffer:
			ops = append(ops, kvOp{Kind: "flush"})
		case r < 98 && canReopen:
			ops = append(ops, kvOp{Kind: "reopen"})
		default:
			ops = append(ops, kvOp{Kind: "find"})
		}
	}
	ops = append(ops, kvOp{Kind: "find"})
	return ops
}

func c10Open(typ, dir string) (sorted.KeyValue, error) {
	switch typ {
	case "memory":
		return sorted.NewMemoryKeyValue(), nil
	case "leveldb":
		return sorted.NewKeyValue(jsonconfig.Obj{"type": "leveldb", "file": filepath.Join(dir, "ldb")})
	case "kv":
		return sorted.NewKeyValue(jsonconfig.Obj{"type": "kv", "file": filepath.Join(dir, "kvfile")})
	case "sqlite":
		return sorted.NewKeyValue(jsonconfig.Obj{"type": "sqlite", "file": filepath.Join(dir, "db.sqlite")})
	}
	return nil, fmt.Errorf("unknown type %s", typ)
}

func c10Dump(kv sorted.KeyValue, s, e string) ([][2]string, error) {
	var out [][2]string
	it := kv.Find(s, e)
	for it.Next() {
		out = append(out, [2]string{it.Key(), it.Value()})
	}
	return out, it.Close()
}

func qpairs(l [][2]string) string {
	var xs []string
	for _, p := range l {
		xs = append(xs, "("+qkv(p[0])+", "+qkv(p[1])+")")
	}
	return qlist(xs)
}

// reference map (the SPEC, evaluated in Go on the implementation's outputs)
type refKV map[string]string

func over(k, v string) bool { return len(k) > sorted.MaxKeySize || len(v) > sorted.MaxValueSize }
func (m refKV) rng(s, e string) [][2]string {
	var ks []string
	for k := range m {
		if k >= s && (e == "" || k < e) {
			ks = append(ks, k)
		}
	}
	sort.Strings(ks)
	var out [][2]string
	for _, k := range ks {
		out = append(out, [2]string{k, m[k]})
	}
	return out
}

func pairsEq(a, b [][2]string) bool {
	if len(a) != len(b) {
		return false
	}
	for i := range a {
		if a[i] != b[i] {
			return false
		}
	}
	return true
}

func runC10(c *ctx) {
	c.rep.Rule = "random histories of get/set/delete/batch/find/flush/reopen over keys built from index-like tokens ('|', ':', 0x7f, 0x80, 0xff, prefixes of each other, sizes around the 767/63000 limits) " +
		"on memory, leveldb, kv-file, sqlite and buffer.New(memory, X, n); non-trivial = distinct history with at least one find over a non-empty store; empty keys are excluded (the index never writes one; the buffer's merge iterator is documented to need non-empty keys)"
	tmp, err := os.MkdirTemp("", "verif-c10-")
	if err != nil {
		panic(err)
	}
	defer os.RemoveAll(tmp)
	engines := []string{"memory", "leveldb", "kv", "sqlite"}
	nHist := c.n(120, 1200)
	for h := 0; h < nHist; h++ {
		isBuffer := h%2 == 1
		typ := engines[(h/2)%len(engines)]
		dir := filepath.Join(tmp, fmt.Sprint(h))
		os.MkdirAll(dir, 0o755)
		backKV, err := c10Open(typ, dir)
		if err != nil {
			c.rep.Notes = append(c.rep.Notes, "open "+typ+": "+err.Error())
			continue
		}
		var kv sorted.KeyValue = backKV
		var bufKV sorted.KeyValue
		maxb := int64(0)
		if isBuffer {
			maxb = []int64{0, 10, 40, 200, 1 << 20}[c.rng.Intn(5)]
			bufKV = sorted.NewMemoryKeyValue()
			kv = buffer.New(bufKV, backKV, maxb)
		}
		ops := c10GenOps(c, c.n(30, 60), isBuffer, typ != "memory" && !isBuffer)
		if h < 2*len(engines) {
			// every engine, plain and buffered: a batch holding an over-limit key and an over-limit value among ordinary
			// mutations (they are skipped; the rest of the batch applies), then everything is read back
			bigK, bigV := strings.Repeat("K", 768), strings.Repeat("v", 63001)
			pre := []kvOp{
				{Kind: "set", K: "fixed|a", V: "1"},
				{Kind: "set", K: "fixed|gone", V: "x"},
				{Kind: "batch", Muts: [][3]string{{"set", "fixed|b", "2"}, {"set", bigK, "3"}, {"del", "fixed|gone", ""}, {"set", "fixed|c", bigV}, {"set", "fixed|d", "4"}}},
				{Kind: "get", K: "fixed|b"}, {Kind: "get", K: "fixed|d"}, {Kind: "get", K: "fixed|gone"}, {Kind: "get", K: bigK}, {Kind: "get", K: "fixed|c"},
				{Kind: "find", K: "", E: ""},
				{Kind: "batch", Muts: [][3]string{{"set", strings.Repeat("k", 767), strings.Repeat("w", 63000)}, {"set", "fixed|e", "5"}}},
				{Kind: "get", K: strings.Repeat("k", 767)}, {Kind: "get", K: "fixed|e"},
			}
			ops = append(pre, ops...)
		}
		ref := refKV{}
		var outs []string
		nontrivial := false
		label := typ
		if isBuffer {
			label = "buffer(memory," + typ + ")"
		}
		idx := len(c.casesBuf)
		fail := func(i int, what string) {
			c.violation(idx, "kv-"+label+"-"+ops[i].Kind, fmt.Sprintf("op %d %s: %s", i, ops[i].Kind, what), map[string]any{"store": label, "maxBuffer": maxb, "ops": ops[:i+1]})
		}
		cur := 0
		finished, pnc := withTimeout(20*time.Second, func() {
			for i, o := range ops {
				cur = i
				var out string
				c.count("ops", o.Kind)
				c.rep.SpecChecks++
				switch o.Kind {
				case "get":
					v, err := kv.Get(o.K)
					want, ok := ref[o.K]
					if err == sorted.ErrNotFound {
						out = "RVal None"
						if ok {
							fail(i, fmt.Sprintf("Get(%q) not found, want %q", o.K, want))
						}
					} else if err != nil {
						out = "RUnit"
						fail(i, "Get error "+err.Error())
					} else {
						out = "RVal (Some " + qkv(v) + ")"
						if !ok || want != v {
							fail(i, fmt.Sprintf("Get(%q) = %q, want %q (present %v)", o.K, v, want, ok))
						}
					}
				case "set":
					if err := kv.Set(o.K, o.V); err != nil {
						fail(i, "Set error "+err.Error())
					}
					if !over(o.K, o.V) {
						ref[o.K] = o.V
					} else {
						c.count("oversize", "set")
					}
					out = "RUnit"
				case "del":
					if err := kv.Delete(o.K); err != nil {
						fail(i, "Delete error "+err.Error())
					}
					delete(ref, o.K)
					out = "RUnit"
				case "batch":
					bm := kv.BeginBatch()
					for _, m := range o.Muts {
						if m[0] == "set" {
							bm.Set(m[1], m[2])
							if !over(m[1], m[2]) {
								ref[m[1]] = m[2]
							} else {
								c.count("oversize", "batch")
							}
						} else {
							bm.Delete(m[1])
							delete(ref, m[1])
						}
					}
					if err := kv.CommitBatch(bm); err != nil {
						fail(i, "CommitBatch error "+err.Error())
					}
					out = "RUnit"
				case "find":
					got, err := c10Dump(kv, o.K, o.E)
					if err != nil {
						fail(i, "Find error "+err.Error())
					}
					want := ref.rng(o.K, o.E)
					if !pairsEq(got, want) {
						fail(i, fmt.Sprintf("Find(%q,%q) = %q, want %q", o.K, o.E, got, want))
					}
					if len(want) > 0 {
						nontrivial = true
					}
					out = "RList " + qpairs(got)
				case "flush":
					if err := kv.(*buffer.KeyValue).Flush(); err != nil {
						fail(i, "Flush error "+err.Error())
					}
					// after a flush the backing store alone holds the map (what a close and reopen would find)
					if back, err := c10Dump(backKV, "", ""); err == nil {
						if want := ref.rng("", ""); !pairsEq(back, want) {
							fail(i, fmt.Sprintf("after Flush the backing store holds %q, the map is %q", back, want))
						}
					}
					out = "RUnit"
				case "reopen":
					if err := kv.Close(); err != nil {
						fail(i, "Close error "+err.Error())
					}
					if !isBuffer {
						backKV, err = c10Open(typ, dir)
						if err != nil {
							fail(i, "reopen error "+err.Error())
							break
						}
						kv = backKV
					}
					out = "RUnit"
				}
				if isBuffer {
					b, _ := c10Dump(bufKV, "", "")
					k, _ := c10Dump(backKV, "", "")
					out = "(" + out + ", " + qpairs(b) + ", " + qpairs(k) + ")"
				}
				outs = append(outs, out)
			}
			kv.Close()
		})
		if !finished || pnc != nil {
			cl := "hang"
			if pnc != nil {
				cl = "panic"
			}
			c.violation(idx, "kv-"+label+"-"+cl+"-after-"+ops[max(cur-1, 0)].Kind, fmt.Sprintf("op %d (%s) did not return (%v)", cur, ops[cur].Kind, pnc), map[string]any{"store": label, "maxBuffer": maxb, "ops": ops[:cur+1]})
			c.count("stores", label+" (aborted)")
			continue
		}
		var opsCoq []string
		for _, o := range ops {
			opsCoq = append(opsCoq, o.coq())
		}
		c.count("stores", label)
		var term string
		if isBuffer {
			term = fmt.Sprintf("CBuffer %s %s %s", qz(maxb), qlist(opsCoq), qlist(outs))
		} else {
			term = fmt.Sprintf("CEngine %s %s", qlist(opsCoq), qlist(outs))
		}
		c.addCase(term, map[string]any{"store": label, "maxBuffer": maxb, "ops": ops}, nontrivial)
	}
	for _, e := range engines {
		if c.hist["stores"][e] == 0 || c.hist["stores"]["buffer(memory,"+e+")"] == 0 {
			c.rep.TargetsMissed = append(c.rep.TargetsMissed, "store:"+e)
		}
	}
}

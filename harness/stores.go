//go:build verif

package main

import (
	"bytes"
	"context"
	"errors"
	"fmt"
	"io"
	"os"
	"path/filepath"
	"sort"
	"strings"

	"filippo.io/age"
	"go4.org/jsonconfig"
	"perkeep.org/pkg/blob"
	"perkeep.org/pkg/blobserver"
	_ "perkeep.org/pkg/blobserver/blobpacked"
	_ "perkeep.org/pkg/blobserver/cond"
	_ "perkeep.org/pkg/blobserver/diskpacked"
	_ "perkeep.org/pkg/blobserver/encrypt"
	_ "perkeep.org/pkg/blobserver/localdisk"
	"perkeep.org/pkg/blobserver/memory"
	_ "perkeep.org/pkg/blobserver/namespace"
	_ "perkeep.org/pkg/blobserver/overlay"
	_ "perkeep.org/pkg/blobserver/proxycache"
	_ "perkeep.org/pkg/blobserver/shard"
	_ "perkeep.org/pkg/blobserver/union"
)

// cfgNode mirrors coq/Model/C01.v's cfg: a nesting of storage backends
type cfgNode struct {
	Kind     string     `json:"kind"` // leaf replica shard union overlay namespace proxycache cond
	Leaf     string     `json:"leaf,omitempty"`
	Detail   string     `json:"detail,omitempty"`
	HasDel   bool       `json:"hasDeleted,omitempty"`
	Kids     []*cfgNode `json:"kids,omitempty"`
	prefix   string
	sto      blobserver.Storage
	isCache  bool // the cache side of a proxycache: contents not compared (eviction is not modelled)
	readOnly bool // only filled by preloads
	closers  []io.Closer
}

const encAgreement = "that encryption support hasn't been peer-reviewed, isn't finished, and its format might change."

var kvKinds = []string{"memory", "leveldb", "kv", "sqlite"}

func kvConf(kind, dir, name string) map[string]any {
	switch kind {
	case "memory":
		return map[string]any{"type": "memory"}
	case "leveldb":
		return map[string]any{"type": "leveldb", "file": filepath.Join(dir, name+".leveldb")}
	case "kv":
		return map[string]any{"type": "kv", "file": filepath.Join(dir, name+".kv")}
	case "sqlite":
		return map[string]any{"type": "sqlite", "file": filepath.Join(dir, name+".sqlite")}
	}
	panic(kind)
}

type builder struct {
	ld   *hLoader
	dir  string
	n    int
	wrap func(n *cfgNode, s blobserver.Storage) blobserver.Storage // optional interposer (fault injection)
	kv   func(kind, dir, name string) map[string]any               // KV config provider (default kvConf)
}

func newBuilder(dir string) *builder { return &builder{ld: newLoader(), dir: dir, kv: kvConf} }

func (b *builder) fresh(what string) (prefix, dir string) {
	b.n++
	prefix = fmt.Sprintf("/%s%d/", what, b.n)
	dir = filepath.Join(b.dir, fmt.Sprintf("%s%d", what, b.n))
	os.MkdirAll(dir, 0o755)
	return
}

func (b *builder) register(n *cfgNode, s blobserver.Storage) {
	if b.wrap != nil {
		s = b.wrap(n, s)
	}
	n.sto = s
	b.ld.set(n.prefix, s)
}

func (b *builder) build(n *cfgNode) error {
	for _, k := range n.Kids {
		if err := b.build(k); err != nil {
			return err
		}
	}
	var dir string
	n.prefix, dir = b.fresh(n.Kind)
	var s blobserver.Storage
	var err error
	kidPrefixes := func() []any {
		var ps []any
		for _, k := range n.Kids {
			ps = append(ps, k.prefix)
		}
		return ps
	}
	switch n.Kind {
	case "leaf":
		switch n.Leaf {
		case "memory":
			s = &memory.Storage{}
		case "localdisk":
			if n.Detail == "queue" { // a sync queue's directory: enumerations clean up empty shard directories there
				dir = filepath.Join(dir, "queue-verif")
				os.MkdirAll(dir, 0o755)
			}
			s, err = blobserver.CreateStorage("filesystem", b.ld, jsonconfig.Obj{"path": dir})
		case "diskpacked":
			parts := strings.Split(n.Detail, ",") // maxFileSize,indexKind
			var max float64
			fmt.Sscan(parts[0], &max)
			s, err = blobserver.CreateStorage("diskpacked", b.ld, jsonconfig.Obj{"path": dir, "maxFileSize": max, "metaIndex": b.kv(parts[1], dir, "index")})
		case "blobpacked":
			sp, _ := b.fresh("bpsmall")
			lp, _ := b.fresh("bplarge")
			b.ld.set(sp, &memory.Storage{})
			b.ld.set(lp, &memory.Storage{})
			s, err = blobserver.CreateStorage("blobpacked", b.ld, jsonconfig.Obj{"smallBlobs": sp, "largeBlobs": lp, "metaIndex": b.kv(n.Detail, dir, "meta")})
		case "encrypt":
			bp, _ := b.fresh("encblobs")
			mp, _ := b.fresh("encmeta")
			b.ld.set(bp, &memory.Storage{})
			b.ld.set(mp, &memory.Storage{})
			id, _ := age.GenerateX25519Identity()
			kf := filepath.Join(dir, "key")
			os.WriteFile(kf, []byte(id.String()+"\n"), 0o600)
			s, err = blobserver.CreateStorage("encrypt", b.ld, jsonconfig.Obj{"I_AGREE": encAgreement, "keyFile": kf, "blobs": bp, "meta": mp, "metaIndex": b.kv(n.Detail, dir, "encindex")})
		default:
			err = fmt.Errorf("unknown leaf %q", n.Leaf)
		}
	case "replica":
		s, err = blobserver.CreateStorage("replica", b.ld, jsonconfig.Obj{"backends": kidPrefixes()})
	case "shard":
		s, err = blobserver.CreateStorage("shard", b.ld, jsonconfig.Obj{"backends": kidPrefixes()})
	case "union":
		s, err = blobserver.CreateStorage("union", b.ld, jsonconfig.Obj{"subsets": kidPrefixes()})
	case "overlay":
		conf := jsonconfig.Obj{"lower": n.Kids[0].prefix, "upper": n.Kids[1].prefix}
		if n.HasDel {
			conf["deleted"] = b.kv(n.Detail, dir, "deleted")
		}
		s, err = blobserver.CreateStorage("overlay", b.ld, conf)
	case "namespace":
		s, err = blobserver.CreateStorage("namespace", b.ld, jsonconfig.Obj{"storage": n.Kids[0].prefix, "inventory": b.kv(n.Detail, dir, "inventory")})
	case "proxycache":
		s, err = blobserver.CreateStorage("proxycache", b.ld, jsonconfig.Obj{"cache": n.Kids[0].prefix, "origin": n.Kids[1].prefix})
	case "cond":
		rp, _ := b.fresh("condrep")
		var rep blobserver.Storage
		rep, err = blobserver.CreateStorage("replica", b.ld, jsonconfig.Obj{"backends": kidPrefixes()})
		if err != nil {
			return err
		}
		b.ld.set(rp, rep)
		s, err = blobserver.CreateStorage("cond", b.ld, jsonconfig.Obj{
			"write":  map[string]any{"if": "isSchema", "then": rp, "else": n.Kids[0].prefix},
			"read":   n.Kids[0].prefix,
			"remove": rp,
		})
	default:
		err = fmt.Errorf("unknown kind %q", n.Kind)
	}
	if err != nil {
		return fmt.Errorf("%s %s: %w", n.Kind, n.Leaf, err)
	}
	b.register(n, s)
	return nil
}

func (n *cfgNode) coq() string {
	kids := func() string {
		var xs []string
		for _, k := range n.Kids {
			xs = append(xs, k.coq())
		}
		return qlist(xs)
	}
	switch n.Kind {
	case "leaf":
		return "Leaf " + qb(n.Leaf != "encrypt")
	case "replica":
		return "Replica " + kids()
	case "shard":
		return "Shard " + kids()
	case "union":
		return "Union " + kids()
	case "overlay":
		return fmt.Sprintf("Overlay %s (%s) (%s)", qb(n.HasDel), n.Kids[0].coq(), n.Kids[1].coq())
	case "namespace":
		return "Namespace (" + n.Kids[0].coq() + ")"
	case "proxycache":
		return fmt.Sprintf("ProxyCache (%s) (%s)", n.Kids[0].coq(), n.Kids[1].coq())
	case "cond":
		return fmt.Sprintf("Cond (%s) (%s)", n.Kids[0].coq(), n.Kids[1].coq())
	}
	panic(n.Kind)
}

func (n *cfgNode) describe() string {
	if n.Kind == "leaf" {
		if n.Detail != "" {
			return n.Leaf + "(" + n.Detail + ")"
		}
		return n.Leaf
	}
	var xs []string
	for _, k := range n.Kids {
		xs = append(xs, k.describe())
	}
	return n.Kind + "[" + strings.Join(xs, " ") + "]"
}

func (n *cfgNode) leaves(out *[]*cfgNode) {
	if n.Kind == "leaf" {
		*out = append(*out, n)
		return
	}
	for _, k := range n.Kids {
		k.leaves(out)
	}
}

func (n *cfgNode) walk(f func(*cfgNode)) {
	f(n)
	for _, k := range n.Kids {
		k.walk(f)
	}
}

func (n *cfgNode) closeAll() {
	n.walk(func(x *cfgNode) {
		if c, ok := x.sto.(io.Closer); ok {
			c.Close()
		}
		if sh, ok := x.sto.(blobserver.ShutdownStorage); ok {
			sh.Close()
		}
	})
}

// ---- canonical observations of a blobserver.Storage ----

func errKind(err error) string {
	switch {
	case err == nil:
		return "ok"
	case errors.Is(err, os.ErrNotExist):
		return "ENotFound"
	case errors.Is(err, blobserver.ErrReadonly):
		return "EReadonly"
	case errors.Is(err, blobserver.ErrNotImplemented):
		return "ENotImpl"
	}
	return "EOther"
}

func fetchAll(s blob.Fetcher, br blob.Ref) ([]byte, uint32, error) {
	rc, sz, err := s.Fetch(context.Background(), br)
	if err != nil {
		return nil, 0, err
	}
	defer rc.Close()
	b, err := io.ReadAll(rc)
	return b, sz, err
}

func statAll(s blobserver.BlobStatter, refs []blob.Ref) ([]blob.SizedRef, error) {
	var out []blob.SizedRef
	var mu = make(chan struct{}, 1)
	err := s.StatBlobs(context.Background(), refs, func(sb blob.SizedRef) error {
		mu <- struct{}{}
		out = append(out, sb)
		<-mu
		return nil
	})
	sort.SliceStable(out, func(i, j int) bool { return out[i].Ref.String() < out[j].Ref.String() })
	return out, err
}

func dumpStore(s blobserver.BlobEnumerator) ([]blob.SizedRef, error) {
	var all []blob.SizedRef
	after := ""
	for {
		page, err := enumAll(s, after, 1000)
		if err != nil {
			return all, err
		}
		all = append(all, page...)
		if len(page) < 1000 {
			return all, nil
		}
		after = page[len(page)-1].Ref.String()
	}
}

var _ = bytes.Equal

// rangeFetchCheck compares SubFetch with the whole blob over the boundary shapes: inside, up to the end, past the end,
// starting at the end (empty answer), starting past the end and negative arguments (errors).  Returns "" or what is wrong.
func rangeFetchCheck(sf blob.SubFetcher, br blob.Ref, want []byte) string {
	n := int64(len(want))
	type rg struct{ off, ln int64 }
	rs := []rg{{0, n}, {n / 3, n / 3}, {n - 1, 1 << 20}, {0, n + 100}, {n, 10}, {n, 0}, {n + 1, 1}, {-1, 1}, {0, -1}, {n / 2, 1 << 30}}
	for _, r := range rs {
		if n == 0 && r.off == n-1 {
			continue
		}
		rc, err := sf.SubFetch(context.Background(), br, r.off, r.ln)
		if errors.Is(err, blob.ErrUnimplemented) {
			return ""
		}
		var got []byte
		if err == nil {
			got, err = io.ReadAll(rc)
			rc.Close()
		}
		wantErr := r.off < 0 || r.ln < 0 || r.off > n
		if wantErr {
			if err == nil {
				return fmt.Sprintf("range fetch off=%d len=%d of a %d-byte blob answers %d bytes instead of an error", r.off, r.ln, n, len(got))
			}
			continue
		}
		if err != nil {
			return fmt.Sprintf("range fetch off=%d len=%d of a %d-byte blob fails: %v", r.off, r.ln, n, err)
		}
		end := r.off + r.ln
		if end > n {
			end = n
		}
		if !bytes.Equal(got, want[r.off:end]) {
			return fmt.Sprintf("range fetch off=%d len=%d of a %d-byte blob returns %d bytes which are not bytes [%d,%d) of the blob", r.off, r.ln, n, len(got), r.off, end)
		}
	}
	return ""
}

//go:build verif

package main

import (
	"bytes"
	"context"
	"errors"
	"fmt"
	"io"
	"sort"
	"strings"
	"sync"
	"time"

	"go4.org/jsonconfig"
	"perkeep.org/pkg/blob"
	"perkeep.org/pkg/blobserver"
	"perkeep.org/pkg/blobserver/memory"
	_ "perkeep.org/pkg/blobserver/replica"
)

func init() { props["C12"] = runC12 }

// gatedReplica: a memory store whose ReceiveBlob waits to be released and then behaves as told
type gatedReplica struct {
	*memory.Storage
	mode    string // ok | err | wrongsize
	gated   bool
	release chan struct{}
	done    chan struct{}
	statErr bool
}

func (g *gatedReplica) ReceiveBlob(ctx context.Context, br blob.Ref, src io.Reader) (blob.SizedRef, error) {
	if g.gated {
		<-g.release
		defer func() { g.done <- struct{}{} }()
	}
	switch g.mode {
	case "err":
		io.Copy(io.Discard, src)
		return blob.SizedRef{}, errors.New("injected replica failure")
	case "wrongsize":
		sb, err := g.Storage.ReceiveBlob(ctx, br, src)
		sb.Size++
		return sb, err
	}
	return g.Storage.ReceiveBlob(ctx, br, src)
}

func holds(s blobserver.Storage, br blob.Ref, size int) bool {
	rc, sz, err := s.Fetch(context.Background(), br)
	if err != nil {
		return false
	}
	rc.Close()
	return int(sz) == size
}

func enumAll(s blobserver.BlobEnumerator, after string, limit int) ([]blob.SizedRef, error) {
	ch := make(chan blob.SizedRef, limit+1)
	errc := make(chan error, 1)
	go func() { errc <- s.EnumerateBlobs(context.Background(), ch, after, limit) }()
	var out []blob.SizedRef
	for sb := range ch {
		out = append(out, sb)
	}
	return out, <-errc
}

func qsized(l []blob.SizedRef) string {
	var xs []string
	for _, sb := range l {
		xs = append(xs, fmt.Sprintf("(%s, [%d])", qs(sb.Ref.String()), sb.Size))
	}
	return qlist(xs)
}

func runC12(c *ctx) {
	c.rep.Rule = "replica stores built by CreateStorage over gated fault-injecting memory replicas: exhaustively every (n, minWritesForSuccess, failure pattern in {ok,error,wrong size}^n) up to a bound with sampled arrival orders; " +
		"fetch/stat/enumerate over random overlapping contents with distinct read and write sets; non-trivial = distinct case with at least one failing replica (receive) or with overlapping contents (reads)"
	ctxb := context.Background()
	maxN := c.n(3, 5)
	modes := []string{"ok", "err", "wrongsize"}
	data := []byte("replicated blob contents")
	br := blob.RefFromBytes(data)
	c.rep.Exhaustive = true
	for n := 1; n <= maxN; n++ {
		total := 1
		for i := 0; i < n; i++ {
			total *= 3
		}
		for pat := 0; pat < total; pat++ {
			for minw := 1; minw <= n; minw++ {
				for rep := 0; rep < c.n(2, 3); rep++ {
					ld := newLoader()
					reps := make([]*gatedReplica, n)
					var prefixes []any
					p := pat
					for i := 0; i < n; i++ {
						reps[i] = &gatedReplica{Storage: &memory.Storage{}, mode: modes[p%3], gated: true, release: make(chan struct{}, 1), done: make(chan struct{}, 1)}
						p /= 3
						pre := fmt.Sprintf("/r%d/", i)
						ld.set(pre, reps[i])
						prefixes = append(prefixes, pre)
					}
					sto, err := blobserver.CreateStorage("replica", ld, jsonconfig.Obj{"backends": prefixes, "minWritesForSuccess": float64(minw)})
					if err != nil {
						panic(err)
					}
					order := c.rng.Perm(n)
					var wg sync.WaitGroup
					wg.Add(1)
					go func() {
						defer wg.Done()
						for _, i := range order {
							reps[i].release <- struct{}{}
							select {
							case <-reps[i].done:
							case <-time.After(5 * time.Second):
							}
							time.Sleep(300 * time.Microsecond)
						}
					}()
					var sb blob.SizedRef
					var rerr error
					fin, _ := withTimeout(10*time.Second, func() { sb, rerr = sto.ReceiveBlob(ctxb, br, bytes.NewReader(data)) })
					holders := 0
					for _, r := range reps {
						if r.mode == "ok" && holds(r.Storage, br, len(data)) {
							holders++
						}
					}
					wg.Wait()
					var arr []string
					good := 0
					for _, i := range order {
						switch reps[i].mode {
						case "ok":
							arr = append(arr, fmt.Sprintf("ROk %d", len(data)))
							good++
						case "wrongsize":
							arr = append(arr, fmt.Sprintf("ROk %d", len(data)+1))
						default:
							arr = append(arr, "RErr")
						}
					}
					acked := fin && rerr == nil
					idx := c.addCase(fmt.Sprintf("CRecv %d %d %s %s %d", minw, len(data), qlist(arr), qb(acked), sb.Size),
						map[string]any{"op": "receive", "n": n, "minWrites": minw, "modes_in_arrival_order": arr}, good < n)
					c.count("receive", fmt.Sprintf("n=%d", n))
					c.rep.SpecChecks++
					switch {
					case !fin:
						c.violation(idx, "replica-receive-hang", "ReceiveBlob did not return", arr)
					case acked && good < minw:
						c.violation(idx, "replica-ack-below-quorum", fmt.Sprintf("acknowledged with %d good replicas, minWrites %d", good, minw), arr)
					case acked && holders < minw:
						c.violation(idx, "replica-ack-before-quorum-stored", fmt.Sprintf("at return only %d replicas held the blob, minWrites %d", holders, minw), arr)
					case acked && int(sb.Size) != len(data):
						c.violation(idx, "replica-ack-wrong-size", fmt.Sprintf("size %d", sb.Size), arr)
					case !acked && good >= minw:
						c.violation(idx, "replica-error-despite-quorum", fmt.Sprintf("%d good replicas, minWrites %d: %v", good, minw, rerr), arr)
					}
				}
			}
		}
	}
	// reads: overlapping contents, distinct read/write sets
	pool := make([][]byte, 12)
	var refs []blob.Ref
	for i := range pool {
		pool[i] = []byte(strings.Repeat(fmt.Sprint(i), i+1))
		refs = append(refs, blob.RefFromBytes(pool[i]))
	}
	sort.Slice(refs, func(i, j int) bool { return refs[i].String() < refs[j].String() })
	for it := 0; it < c.n(150, 2000); it++ {
		n := 1 + c.rng.Intn(4)
		ld := newLoader()
		reps := make([]*rawStore, n)
		var prefixes, readPrefixes []any
		var readers []*rawStore
		contents := make([]map[string][]byte, n)
		for i := 0; i < n; i++ {
			reps[i] = newRawStore()
			// a replica without the blob may also fail in its own way (a remote that timed out, a cancelled request of its
			// own, an I/O error): the fall-back to the next replica must not depend on the kind of failure
			reps[i].missErr = []error{nil, nil, fmt.Errorf("verif: replica %d: i/o error", i),
				fmt.Errorf("verif: replica %d: %w", i, context.DeadlineExceeded), fmt.Errorf("verif: replica %d: %w", i, context.Canceled)}[c.rng.Intn(5)]
			contents[i] = map[string][]byte{}
			pre := fmt.Sprintf("/r%d/", i)
			ld.set(pre, reps[i])
			prefixes = append(prefixes, pre)
		}
		var readIdx []int
		for _, i := range c.rng.Perm(n) {
			if len(readIdx) == 0 || c.rng.Intn(2) == 0 {
				readIdx = append(readIdx, i)
				readPrefixes = append(readPrefixes, fmt.Sprintf("/r%d/", i))
				readers = append(readers, reps[i])
			}
		}
		overlap := false
		for k, r := range refs {
			placed := 0
			for i := 0; i < n; i++ {
				if c.rng.Intn(3) == 0 {
					// a per-replica marker byte lets the harness see which replica served a fetch
					body := append([]byte{byte('A' + i)}, pool[k]...)
					reps[i].put(r, body)
					contents[i][r.String()] = body
					placed++
				}
			}
			if placed > 1 {
				overlap = true
			}
		}
		sto, err := blobserver.CreateStorage("replica", ld, jsonconfig.Obj{"backends": prefixes, "readBackends": readPrefixes})
		if err != nil {
			panic(err)
		}
		readerMaps := func() string {
			var ms []string
			for _, i := range readIdx {
				var ks []string
				for k := range contents[i] {
					ks = append(ks, k)
				}
				sort.Strings(ks)
				var ps []string
				for _, k := range ks {
					ps = append(ps, fmt.Sprintf("(%s, [%d])", qs(k), len(contents[i][k])))
				}
				ms = append(ms, qlist(ps))
			}
			return qlist(ms)
		}()
		// fetch
		r := refs[c.rng.Intn(len(refs))]
		var answers []string
		var want []byte
		for _, i := range readIdx {
			if b, ok := contents[i][r.String()]; ok {
				answers = append(answers, "Some "+qh(b))
				if want == nil {
					want = b
				}
			} else {
				answers = append(answers, "None")
			}
		}
		rc, _, err := sto.Fetch(ctxb, r)
		var got []byte
		if err == nil {
			got, _ = io.ReadAll(rc)
			rc.Close()
		}
		idx := c.addCase(fmt.Sprintf("CFetch %s %s", qlist(answers), qopt(err == nil, qh(got))), map[string]any{"op": "fetch", "readers": readIdx, "n": n}, overlap)
		c.rep.SpecChecks++
		if (want == nil) != (err != nil) || !bytes.Equal(want, got) {
			c.violation(idx, "replica-fetch", fmt.Sprintf("fetch %v: got %q err %v, want %q", r, got, err, want), nil)
		}
		// stat
		var need []blob.Ref
		var needQ []string
		for _, x := range refs {
			if c.rng.Intn(2) == 0 {
				need = append(need, x)
				needQ = append(needQ, qs(x.String()))
			}
		}
		if c.rng.Intn(4) == 0 && len(need) > 0 { // duplicate request
			need = append(need, need[0])
			needQ = append(needQ, qs(need[0].String()))
		}
		var mu sync.Mutex
		var stats []blob.SizedRef
		serr := sto.StatBlobs(ctxb, need, func(sb blob.SizedRef) error { mu.Lock(); stats = append(stats, sb); mu.Unlock(); return nil })
		sort.Slice(stats, func(i, j int) bool { return stats[i].Ref.String() < stats[j].Ref.String() })
		idx = c.addCase(fmt.Sprintf("CStat %s %s %s", qlist(needQ), readerMaps, qsized(stats)), map[string]any{"op": "stat", "readers": readIdx, "need": len(need)}, overlap)
		c.rep.SpecChecks++
		wantStat := map[string]int{}
		for _, x := range need {
			for _, i := range readIdx {
				if b, ok := contents[i][x.String()]; ok {
					wantStat[x.String()] = len(b)
				}
			}
		}
		bad := serr != nil || len(stats) != len(wantStat)
		for _, sb := range stats {
			if wantStat[sb.Ref.String()] != int(sb.Size) {
				bad = true
			}
		}
		if bad {
			c.violation(idx, "replica-stat", fmt.Sprintf("stat returned %v (err %v), want %v", stats, serr, wantStat), nil)
		}
		// enumerate
		cursors := []string{"", refs[c.rng.Intn(len(refs))].String(), refs[c.rng.Intn(len(refs))].StringMinusOne(), "sha224-", "sha2", "sha225", "a", "~", refs[0].String()[:20]}
		cur := cursors[c.rng.Intn(len(cursors))]
		limit := []int{1, 2, 3, 5, 100}[c.rng.Intn(5)]
		got2, eerr := enumAll(sto, cur, limit)
		idx = c.addCase(fmt.Sprintf("CEnum %s %s %d %s", readerMaps, qs(cur), limit, qsized(got2)), map[string]any{"op": "enumerate", "after": cur, "limit": limit, "readers": readIdx}, overlap)
		c.rep.SpecChecks++
		c.count("enumerate_cursor", map[bool]string{true: "is-a-ref", false: "not-a-ref"}[strings.HasPrefix(cur, "sha224-") && len(cur) == 63])
		var wantKeys []string
		seen := map[string]bool{}
		for _, i := range readIdx {
			for k := range contents[i] {
				if k > cur && !seen[k] {
					seen[k] = true
					wantKeys = append(wantKeys, k)
				}
			}
		}
		sort.Strings(wantKeys)
		if len(wantKeys) > limit {
			wantKeys = wantKeys[:limit]
		}
		bad = eerr != nil || len(got2) != len(wantKeys)
		for i := range got2 {
			if !bad && got2[i].Ref.String() != wantKeys[i] {
				bad = true
			}
		}
		if bad {
			c.violation(idx, "replica-enumerate", fmt.Sprintf("enumerate after %q limit %d = %v (err %v), want %v", cur, limit, got2, eerr, wantKeys), nil)
		}
	}
}

//go:build verif

package main

import (
	"bytes"
	"context"
	"errors"
	"fmt"
	"io"
	"log"
	"os"
	"path/filepath"
	"sort"
	"strings"
	"sync"
	"time"

	"filippo.io/age"
	"go4.org/jsonconfig"
	"go4.org/syncutil"
	"perkeep.org/pkg/blob"
	"perkeep.org/pkg/blobserver"
	"perkeep.org/pkg/blobserver/diskpacked"
	"perkeep.org/pkg/blobserver/files"
	"perkeep.org/pkg/blobserver/memory"
	"perkeep.org/pkg/sorted"
)

func init() {
	props["C13"] = runC13
	sorted.RegisterKeyValue("verifkv13", func(cfg jsonconfig.Obj) (sorted.KeyValue, error) {
		name := cfg.RequiredString("name")
		inner := cfg.RequiredObject("inner")
		if err := cfg.Validate(); err != nil {
			return nil, err
		}
		c13mu.Lock()
		inj := c13inj[name]
		c13mu.Unlock()
		kv, err := sorted.NewKeyValueMaybeWipe(inner)
		if err != nil {
			return nil, err
		}
		return &c13kv{KeyValue: kv, inj: inj}, nil
	})
}

var (
	c13mu  sync.Mutex
	c13inj = map[string]*c13injector{}
)

var errC13 = errors.New("verif: injected transient I/O error")

// the injector counts lower-layer calls and fails the chosen ones
type c13injector struct {
	mu    sync.Mutex
	n     int
	fail  map[int]bool
	trace []string
	armed bool
}

func (in *c13injector) hit(what string) bool {
	if in == nil {
		return false
	}
	in.mu.Lock()
	defer in.mu.Unlock()
	if !in.armed {
		return false
	}
	in.n++
	in.trace = append(in.trace, what)
	return in.fail[in.n]
}

// ---- fault-injecting wrappers ----
type c13store struct {
	s    blobserver.Storage
	inj  *c13injector
	name string
}

func (f *c13store) Fetch(ctx context.Context, br blob.Ref) (io.ReadCloser, uint32, error) {
	if f.inj.hit(f.name + ".Fetch") {
		return nil, 0, errC13
	}
	return f.s.Fetch(ctx, br)
}
func (f *c13store) SubFetch(ctx context.Context, br blob.Ref, off, n int64) (io.ReadCloser, error) {
	if f.inj.hit(f.name + ".SubFetch") {
		return nil, errC13
	}
	if sf, ok := f.s.(blob.SubFetcher); ok {
		return sf.SubFetch(ctx, br, off, n)
	}
	return nil, errors.New("no subfetch")
}
func (f *c13store) ReceiveBlob(ctx context.Context, br blob.Ref, r io.Reader) (blob.SizedRef, error) {
	data, err := io.ReadAll(r)
	if err != nil {
		return blob.SizedRef{}, err
	}
	if f.inj.hit(f.name + ".ReceiveBlob") {
		return blob.SizedRef{}, errC13
	}
	return f.s.ReceiveBlob(ctx, br, bytes.NewReader(data))
}
func (f *c13store) StatBlobs(ctx context.Context, blobs []blob.Ref, fn func(blob.SizedRef) error) error {
	if f.inj.hit(f.name + ".StatBlobs") {
		return errC13
	}
	return f.s.StatBlobs(ctx, blobs, fn)
}
func (f *c13store) EnumerateBlobs(ctx context.Context, dest chan<- blob.SizedRef, after string, limit int) error {
	if f.inj.hit(f.name + ".EnumerateBlobs") {
		close(dest)
		return errC13
	}
	return f.s.EnumerateBlobs(ctx, dest, after, limit)
}
func (f *c13store) RemoveBlobs(ctx context.Context, blobs []blob.Ref) error {
	if f.inj.hit(f.name + ".RemoveBlobs") {
		return errC13
	}
	return f.s.RemoveBlobs(ctx, blobs)
}

type c13kv struct {
	sorted.KeyValue
	inj *c13injector
}

func (k *c13kv) Get(key string) (string, error) {
	if k.inj.hit("kv.Get") {
		return "", errC13
	}
	return k.KeyValue.Get(key)
}
func (k *c13kv) Set(key, value string) error {
	if k.inj.hit("kv.Set") {
		return errC13
	}
	return k.KeyValue.Set(key, value)
}
func (k *c13kv) Delete(key string) error {
	if k.inj.hit("kv.Delete") {
		return errC13
	}
	return k.KeyValue.Delete(key)
}
func (k *c13kv) CommitBatch(b sorted.BatchMutation) error {
	if k.inj.hit("kv.CommitBatch") {
		return errC13
	}
	return k.KeyValue.CommitBatch(b)
}

// a scan that fails: Next stops early, the error comes out of Close (how every sorted.Iterator reports a read failure)
func (k *c13kv) Find(start, end string) sorted.Iterator {
	return &c13iter{Iterator: k.KeyValue.Find(start, end), inj: k.inj}
}

type c13iter struct {
	sorted.Iterator
	inj    *c13injector
	failed bool
}

func (it *c13iter) Next() bool {
	if it.failed {
		return false
	}
	if it.inj.hit("kv.Find/Next") {
		it.failed = true
		return false
	}
	return it.Iterator.Next()
}
func (it *c13iter) Close() error {
	err := it.Iterator.Close()
	if it.failed {
		return errC13
	}
	return err
}

type c13vfs struct {
	files.VFS
	inj *c13injector
}

func (v *c13vfs) Stat(p string) (os.FileInfo, error) {
	if v.inj.hit("vfs.Stat") {
		return nil, errC13
	}
	return v.VFS.Stat(p)
}
func (v *c13vfs) Lstat(p string) (os.FileInfo, error) {
	if v.inj.hit("vfs.Lstat") {
		return nil, errC13
	}
	return v.VFS.Lstat(p)
}
func (v *c13vfs) Open(p string) (files.ReadableFile, error) {
	if v.inj.hit("vfs.Open") {
		return nil, errC13
	}
	return v.VFS.Open(p)
}
func (v *c13vfs) MkdirAll(p string, m os.FileMode) error {
	if v.inj.hit("vfs.MkdirAll") {
		return errC13
	}
	return v.VFS.MkdirAll(p, m)
}
func (v *c13vfs) Rename(a, b string) error {
	if v.inj.hit("vfs.Rename") {
		return errC13
	}
	return v.VFS.Rename(a, b)
}
func (v *c13vfs) Remove(p string) error {
	if v.inj.hit("vfs.Remove") {
		return errC13
	}
	return v.VFS.Remove(p)
}
func (v *c13vfs) TempFile(dir, prefix string) (files.WritableFile, error) {
	if v.inj.hit("vfs.TempFile") {
		return nil, errC13
	}
	w, err := v.VFS.TempFile(dir, prefix)
	if err != nil {
		return nil, err
	}
	return &c13wf{WritableFile: w, inj: v.inj}, nil
}
func (v *c13vfs) ReadDirNames(dir string) ([]string, error) {
	if v.inj.hit("vfs.ReadDirNames") {
		return nil, errC13
	}
	return v.VFS.ReadDirNames(dir)
}

type c13wf struct {
	files.WritableFile
	inj *c13injector
}

func (w *c13wf) Write(p []byte) (int, error) {
	if w.inj.hit("file.Write") {
		return 0, errC13
	}
	return w.WritableFile.Write(p)
}
func (w *c13wf) Sync() error {
	if w.inj.hit("file.Sync") {
		return errC13
	}
	return w.WritableFile.Sync()
}
func (w *c13wf) Close() error {
	if w.inj.hit("file.Close") {
		w.WritableFile.Close()
		return errC13
	}
	return w.WritableFile.Close()
}

// ---- the backends under test ----
type c13backend struct {
	name     string
	noRemove bool  // RemoveBlobs is not implemented by this backend
	readOnly bool  // blobs are preloaded into the leaves; no receive / remove through the backend
	initial  []int // the blobs (indices) preloaded
	build    func(dir string, inj *c13injector) (blobserver.Storage, func(), error)
	recover  func(dir string, inj *c13injector) (blobserver.Storage, func(), error) // the backend's own recovery procedure, run after the history; returns the rebuilt store
}

func c13tree(spec *cfgNode, preload ...func(root *cfgNode)) func(string, *c13injector) (blobserver.Storage, func(), error) {
	return func(dir string, inj *c13injector) (blobserver.Storage, func(), error) {
		b := newBuilder(dir)
		name := fmt.Sprintf("inj-%p", inj)
		c13mu.Lock()
		c13inj[name] = inj
		c13mu.Unlock()
		b.kv = func(kind, d, n string) map[string]any {
			return map[string]any{"type": "verifkv13", "name": name, "inner": kvConf(kind, d, n)}
		}
		b.wrap = func(n *cfgNode, s blobserver.Storage) blobserver.Storage {
			if n.Kind == "leaf" && (n.Leaf == "memory") {
				return &c13store{s: s, inj: inj, name: n.prefix}
			}
			return s
		}
		root := cloneCfg(spec)
		if err := b.build(root); err != nil {
			return nil, nil, err
		}
		for _, f := range preload {
			f(root)
		}
		return root.sto, func() {
			root.walk(func(n *cfgNode) {
				if c, ok := n.sto.(io.Closer); ok {
					c.Close()
				}
			})
		}, nil
	}
}

func cloneCfg(n *cfgNode) *cfgNode {
	c := &cfgNode{Kind: n.Kind, Leaf: n.Leaf, Detail: n.Detail, HasDel: n.HasDel}
	for _, k := range n.Kids {
		c.Kids = append(c.Kids, cloneCfg(k))
	}
	return c
}

var c13blobs []*c03blob

// encrypt over two faulty memory stores and a faulty index; its recovery is the meta re-scan into an empty index
type c13encState struct {
	blobs, meta *memory.Storage
	keyFile     string
}

var c13enc = map[*c13injector]*c13encState{}

func c13Encrypt(dir string, inj *c13injector) (blobserver.Storage, func(), error) {
	ld := newLoader()
	st := &c13encState{blobs: &memory.Storage{}, meta: &memory.Storage{}, keyFile: filepath.Join(dir, "key")}
	id, _ := age.GenerateX25519Identity()
	os.WriteFile(st.keyFile, []byte(id.String()+"\n"), 0o600)
	ld.set("/encblobs/", &c13store{s: st.blobs, inj: inj, name: "/encblobs/"})
	ld.set("/encmeta/", &c13store{s: st.meta, inj: inj, name: "/encmeta/"})
	name := fmt.Sprintf("inj-%p", inj)
	c13mu.Lock()
	c13inj[name] = inj
	c13enc[inj] = st
	c13mu.Unlock()
	s, err := blobserver.CreateStorage("encrypt", ld, jsonconfig.Obj{"I_AGREE": encAgreement, "keyFile": st.keyFile, "blobs": "/encblobs/", "meta": "/encmeta/",
		"metaIndex": map[string]any{"type": "verifkv13", "name": name, "inner": kvConf("memory", dir, "encindex")}})
	if err != nil {
		return nil, nil, err
	}
	return s, func() {}, nil
}

func c13EncryptRecover(dir string, inj *c13injector) (blobserver.Storage, func(), error) {
	c13mu.Lock()
	st := c13enc[inj]
	delete(c13enc, inj)
	c13mu.Unlock()
	if st == nil {
		return nil, nil, nil
	}
	ld := newLoader()
	ld.set("/encblobs/", st.blobs)
	ld.set("/encmeta/", st.meta)
	s, err := blobserver.CreateStorage("encrypt", ld, jsonconfig.Obj{"I_AGREE": encAgreement, "keyFile": st.keyFile, "blobs": "/encblobs/", "meta": "/encmeta/",
		"metaIndex": map[string]any{"type": "memory"}})
	return s, func() {}, err
}

func c13Backends() []c13backend {
	mem := func() *cfgNode { return &cfgNode{Kind: "leaf", Leaf: "memory"} }
	return []c13backend{
		{name: "files(faulty VFS)", build: func(dir string, inj *c13injector) (blobserver.Storage, func(), error) {
			root := filepath.Join(dir, "files")
			os.MkdirAll(root, 0o700)
			return files.NewStorage(&c13vfs{VFS: files.OSFS(), inj: inj}, root), func() {}, nil
		}},
		{name: "diskpacked(faulty index, packs of 120 bytes)", build: c13tree(&cfgNode{Kind: "leaf", Leaf: "diskpacked", Detail: "120,memory"}),
			recover: func(dir string, _ *c13injector) (blobserver.Storage, func(), error) {
				// the pack directory is the leaf's directory: find it
				var packDir string
				filepath.Walk(dir, func(p string, fi os.FileInfo, err error) error {
					if err == nil && strings.HasSuffix(p, "pack-00000.blobs") {
						packDir = filepath.Dir(p)
					}
					return nil
				})
				if packDir == "" {
					return nil, nil, nil
				}
				ixc := map[string]any{"type": "leveldb", "file": filepath.Join(packDir, "rebuilt.leveldb")}
				if err := diskpacked.Reindex(context.Background(), packDir, true, jsonconfig.Obj(ixc)); err != nil {
					return nil, nil, err
				}
				st, err := blobserver.CreateStorage("diskpacked", newLoader(), jsonconfig.Obj{"path": packDir, "maxFileSize": float64(120), "metaIndex": ixc})
				if err != nil {
					return nil, nil, err
				}
				return st, func() { st.(io.Closer).Close() }, nil
			}},
		{name: "encrypt(over faulty stores and index)", noRemove: true, build: c13Encrypt, recover: c13EncryptRecover},
		{name: "namespace[memory](faulty inventory)", build: c13tree(&cfgNode{Kind: "namespace", Detail: "memory", Kids: []*cfgNode{mem()}})},
		{name: "overlay[memory memory](faulty)", initial: []int{0, 2}, build: c13tree(&cfgNode{Kind: "overlay", Detail: "memory", HasDel: true, Kids: []*cfgNode{mem(), mem()}}, func(root *cfgNode) {
			// the lower layer holds blobs 1 and 3 already (loaded below the fault injection)
			under := root.Kids[0].sto.(*c13store).s
			for _, id := range []int{0, 2} {
				under.ReceiveBlob(context.Background(), c13blobs[id].ref, bytes.NewReader(c13blobs[id].content))
			}
		})},
		{name: "proxycache[memory memory]", build: c13tree(&cfgNode{Kind: "proxycache", Kids: []*cfgNode{mem(), mem()}})},
		{name: "union[memory memory]", readOnly: true, initial: []int{0, 1, 2}, build: func(dir string, inj *c13injector) (blobserver.Storage, func(), error) {
			b := newBuilder(dir)
			root := &cfgNode{Kind: "union", Kids: []*cfgNode{mem(), mem()}}
			b.wrap = func(n *cfgNode, s blobserver.Storage) blobserver.Storage {
				if n.Kind == "leaf" {
					return &c13store{s: s, inj: inj, name: n.prefix}
				}
				return s
			}
			if err := b.build(root); err != nil {
				return nil, nil, err
			}
			// subset 0 holds blobs 1 and 2, subset 1 holds blobs 2 and 3 (loaded below the fault injection)
			for li, ids := range [][]int{{0, 1}, {1, 2}} {
				under := root.Kids[li].sto.(*c13store).s
				for _, id := range ids {
					under.ReceiveBlob(context.Background(), c13blobs[id].ref, bytes.NewReader(c13blobs[id].content))
				}
			}
			return root.sto, func() {}, nil
		}},
		{name: "replica[memory memory]", build: c13tree(&cfgNode{Kind: "replica", Kids: []*cfgNode{mem(), mem()}})},
		{name: "shard[memory memory]", build: c13tree(&cfgNode{Kind: "shard", Kids: []*cfgNode{mem(), mem()}})},
		{name: "cond[memory memory]", build: c13tree(&cfgNode{Kind: "cond", Kids: []*cfgNode{mem(), mem()}})},
	}
}

// ---- histories ----
type c13op struct {
	kind string // receive fetch stat enum remove
	b    int
}
type c13out struct {
	failed  bool
	present bool
	list    []int
	hung    bool
	panic   string
}

func c13Run(c *ctx, be c13backend, dir string, ops []c13op, blobs []*c03blob, fail map[int]bool, armAfter int) (outs []c13out, inj *c13injector, cleanup func(), err error) {
	inj = &c13injector{fail: fail, armed: true}
	s, cl, err := be.build(dir, inj)
	if err != nil {
		return nil, nil, nil, err
	}
	byRef := map[string]int{}
	for _, b := range blobs {
		byRef[b.ref.String()] = b.id
	}
	ctxb := context.Background()

	for i, op := range ops {
		if i == armAfter {
			inj.mu.Lock()
			inj.armed = false // the probe at the end runs without faults
			inj.mu.Unlock()
		}
		var o c13out
		done, pan := withTimeout(3*time.Second, func() {
			switch op.kind {
			case "receive":
				_, err := blobserver.Receive(ctxb, s, blobs[op.b].ref, bytes.NewReader(blobs[op.b].content))
				o.failed = err != nil
			case "fetch":
				data, _, err := fetchAll(s, blobs[op.b].ref)
				switch {
				case err == nil:
					o.present = true
					if !bytes.Equal(data, blobs[op.b].content) {
						o.panic = "fetch returned other bytes"
					}
				case errors.Is(err, os.ErrNotExist):
				default:
					o.failed = true
				}
			case "stat":
				sbs, err := statAll(s, []blob.Ref{blobs[op.b].ref})
				o.failed = err != nil
				o.present = len(sbs) > 0
			case "enum":
				all, err := dumpStore(s)
				o.failed = err != nil
				for _, sb := range all {
					o.list = append(o.list, byRef[sb.Ref.String()]-1)
				}
			case "remove":
				err := s.RemoveBlobs(ctxb, []blob.Ref{blobs[op.b].ref})
				o.failed = err != nil
			}
		})
		if !done {
			o.hung = true
		}
		if pan != nil {
			o.panic = fmt.Sprint(pan)
		}
		outs = append(outs, o)
		if o.hung {
			break
		}
	}
	return outs, inj, cl, nil
}

// the judge, in Go (the same search as coq/Model/C13.v explain)
func c13Explain(set map[int]bool, ops []c13op, outs []c13out, i int) bool {
	if i == len(outs) {
		return true
	}
	op, o := ops[i], outs[i]
	apply := func(s map[int]bool) map[int]bool {
		n := map[int]bool{}
		for k := range s {
			n[k] = true
		}
		switch op.kind {
		case "receive":
			n[op.b] = true
		case "remove":
			delete(n, op.b)
		}
		return n
	}
	if o.failed {
		return c13Explain(set, ops, outs, i+1) || c13Explain(apply(set), ops, outs, i+1)
	}
	switch op.kind {
	case "fetch", "stat":
		if o.present != set[op.b] {
			return false
		}
	case "enum":
		if len(o.list) != len(set) {
			return false
		}
		for _, id := range o.list {
			if !set[id] {
				return false
			}
		}
	}
	return c13Explain(apply(set), ops, outs, i+1)
}

func c13HistCoq(ops []c13op, outs []c13out) string {
	var items []string
	for i, o := range outs {
		op := ops[i]
		var oq, xq string
		switch op.kind {
		case "receive":
			oq = fmt.Sprintf("Receive %d", op.b+1)
		case "fetch":
			oq = fmt.Sprintf("Fetch %d", op.b+1)
		case "stat":
			oq = fmt.Sprintf("Stat %d", op.b+1)
		case "enum":
			oq = "Enum"
		case "remove":
			oq = fmt.Sprintf("Remove %d", op.b+1)
		}
		switch {
		case o.failed:
			xq = "OFailed"
		case op.kind == "fetch" || op.kind == "stat":
			xq = "OPresent " + qb(o.present)
		case op.kind == "enum":
			var l []string
			for _, id := range o.list {
				l = append(l, fmt.Sprint(id+1))
			}
			xq = "OList [" + strings.Join(l, "; ") + "]"
		default:
			xq = "OAck"
		}
		items = append(items, fmt.Sprintf("(%s, %s)", oq, xq))
	}
	return "[" + strings.Join(items, "; ") + "]"
}

// a key/value engine whose database can no longer begin a transaction (closed underneath: what a shutdown racing with
// a background writer produces): every call must come back with an error, none may panic or hang
func c13ClosedKV(c *ctx, dir string) {
	for _, kind := range []string{"sqlite", "leveldb", "kv", "memory"} {
		kv, err := sorted.NewKeyValue(jsonconfig.Obj(kvConf(kind, dir, "closedkv-"+kind)))
		if err != nil {
			c.rep.Notes = append(c.rep.Notes, "closed kv "+kind+": "+err.Error())
			continue
		}
		kv.Set("a", "1")
		kv.Close()
		c.rep.SpecChecks++
		c.count("closed key/value store", kind)
		finished, pnc := withTimeout(5*time.Second, func() {
			b := kv.BeginBatch()
			b.Set("b", "2")
			b.Delete("a")
			_ = kv.CommitBatch(b)
		})
		if kind == "memory" {
			continue // has nothing to close
		}
		if !finished || pnc != nil {
			c.violation(-1, "c13-panic-or-hang:closed-kv:"+kind, fmt.Sprintf("%s key/value store closed underneath: a batch commit finished=%v panic=%v (an error is the answer)", kind, finished, pnc), nil)
		}
	}
}

func runC13(c *ctx) {
	c.rep.Rule = "backends: files over a faulty VFS, diskpacked with a faulty index and 120-byte packs (a roll-over every second blob), encrypt, namespace, overlay, proxycache, union, replica, shard over faulty memory stores / key-value stores; histories of 12-16 receives (empty blob included), fetches, stats, enumerates, removes over 5 blobs followed by a fault-free probe (stat/fetch all, enumerate, receive, remove); " +
		"a first run counts the lower-layer calls N, then the history is repeated with an error injected at call k for every k (quick: up to 40 per history), and with random bursts of 2-3 errors; each call under a 3 s watchdog; the answers must be explained by the reference map with every failed call read as done or not done; then the backend's recovery procedure; " +
		"StatBlobsParallelHelper is driven directly with a gate of one slot and a failing worker; non-trivial = distinct history with at least one failed call"
	old := log.Writer()
	log.SetOutput(io.Discard)
	defer log.SetOutput(old)
	dir, err := os.MkdirTemp("", "verif-c13-")
	must(err)
	defer os.RemoveAll(dir)
	c13Gate(c)
	c13ClosedKV(c, dir)
	blobs := []*c03blob{}
	for i, content := range [][]byte{{}, []byte("a"), []byte("the third blob, somewhat longer than the others so that packs fill up"), []byte("fourth"), []byte("fifth blob")} {
		blobs = append(blobs, &c03blob{id: i + 1, ref: blob.RefFromBytes(content), content: content})
	}
	c13blobs = blobs
	nrun := 0
	for _, be := range c13Backends() {
		for h := 0; h < c.n(4, 12); h++ {
			var ops []c13op
			nops := 12 + c.rng.Intn(5)
			if h == 1 && !be.readOnly {
				// every blob uploaded once and read back at once: a failed upload may leave the blob in part of a composite
				// store; a read failing there afterwards (fault pairs below) must fail or be exact, not say "not there"
				nops = 0
				for b := range blobs {
					ops = append(ops, c13op{"receive", b}, c13op{"fetch", b}, c13op{"stat", b})
				}
			}
			if h == 0 && !be.readOnly {
				// every upload is retried once (a client does that after an error), every removal too
				nops = 0
				for b := range blobs {
					ops = append(ops, c13op{"receive", b}, c13op{"receive", b}, c13op{"stat", b})
				}
				if !be.noRemove {
					ops = append(ops, c13op{"remove", 0}, c13op{"remove", 0}, c13op{"remove", 2}, c13op{"remove", 2}, c13op{"enum", 0})
				}
			}
			for i := 0; i < nops; i++ {
				b := c.rng.Intn(len(blobs))
				r := c.rng.Intn(10)
				if be.readOnly && (r < 4 || r >= 8) {
					r = 4 + c.rng.Intn(4)
				}
				if be.noRemove && r >= 8 {
					r = c.rng.Intn(8)
				}
				switch {
				case r < 4:
					ops = append(ops, c13op{"receive", b})
				case r < 6:
					ops = append(ops, c13op{"fetch", b})
				case r < 7:
					ops = append(ops, c13op{"stat", b})
				case r < 8:
					ops = append(ops, c13op{"enum", 0})
				default:
					ops = append(ops, c13op{"remove", b})
				}
			}
			armAfter := len(ops)
			for b := range blobs { // the probe
				ops = append(ops, c13op{"stat", b}, c13op{"fetch", b})
			}
			switch {
			case be.readOnly:
				ops = append(ops, c13op{"enum", 0})
			case be.noRemove:
				ops = append(ops, c13op{"enum", 0}, c13op{"receive", 1}, c13op{"fetch", 1}, c13op{"enum", 0})
			default:
				ops = append(ops, c13op{"enum", 0}, c13op{"receive", 1}, c13op{"fetch", 1}, c13op{"remove", 1}, c13op{"stat", 1}, c13op{"enum", 0})
			}
			// baseline: count the lower-layer calls
			nrun++
			d0 := filepath.Join(dir, fmt.Sprintf("run%d", nrun))
			os.MkdirAll(d0, 0o700)
			inj0 := map[int]bool{}
			outs, inj, cl, err := func() ([]c13out, *c13injector, func(), error) {
				o, i, cl, err := c13RunArmed(c, be, d0, ops, blobs, inj0, armAfter)
				return o, i, cl, err
			}()
			if err != nil {
				c.rep.Notes = append(c.rep.Notes, be.name+": "+err.Error())
				break
			}
			cl()
			n := inj.n
			c.count("backends", be.name)
			c13Judge(c, be, ops, outs, nil, "no fault", d0, armAfter, inj)
			// single faults at every k, then bursts
			var plans []map[int]bool
			step := 1
			if c.quick() && n > 40 {
				step = n/40 + 1
			}
			for k := 1; k <= n; k += step {
				plans = append(plans, map[int]bool{k: true})
			}
			for i := 0; i < c.n(4, 30) && n > 3; i++ {
				p := map[int]bool{}
				for j := 0; j < 2+c.rng.Intn(2); j++ {
					p[1+c.rng.Intn(n)] = true
				}
				plans = append(plans, p)
			}
			if h == 1 {
				// pairs: a failing write below, then a failing read below (the first read calls after it)
				pairs := 0
				for k1, w1 := range inj.trace {
					if !strings.Contains(w1, "ReceiveBlob") && !strings.Contains(w1, "Set") {
						continue
					}
					seen := 0
					for k2 := k1 + 1; k2 < len(inj.trace) && seen < 3; k2++ {
						if strings.Contains(inj.trace[k2], "Fetch") || strings.Contains(inj.trace[k2], "Get") {
							seen++
							if pairs < c.n(40, 400) {
								plans = append(plans, map[int]bool{k1 + 1: true, k2 + 1: true})
								pairs++
							}
						}
					}
				}
			}
			for _, plan := range plans {
				nrun++
				d := filepath.Join(dir, fmt.Sprintf("run%d", nrun))
				os.MkdirAll(d, 0o700)
				outs, inj, cl, err := c13RunArmed(c, be, d, ops, blobs, plan, armAfter)
				if err != nil {
					continue
				}
				var ks []int
				for k := range plan {
					ks = append(ks, k)
				}
				sort.Ints(ks)
				var what []string
				for _, k := range ks {
					if k-1 < len(inj.trace) {
						what = append(what, fmt.Sprintf("call %d (%s)", k, inj.trace[k-1]))
					}
				}
				cl()
				c13Judge(c, be, ops, outs, what, strings.Join(what, ", "), d, armAfter, inj)
				os.RemoveAll(d)
			}
			os.RemoveAll(d0)
		}
	}
}

func c13RunArmed(c *ctx, be c13backend, dir string, ops []c13op, blobs []*c03blob, fail map[int]bool, armAfter int) ([]c13out, *c13injector, func(), error) {
	os.MkdirAll(dir+"x", 0o700)
	return c13Run(c, be, dir+"x", ops, blobs, fail, armAfter)
}

func c13Judge(c *ctx, be c13backend, ops []c13op, outs []c13out, faults []string, what, dir string, armAfter int, inj *c13injector) {
	c.rep.SpecChecks++
	desc := map[string]any{"backend": be.name, "faults": what, "history": c13Human(ops, outs)}
	nfailed := 0
	for _, o := range outs {
		if o.failed {
			nfailed++
		}
	}
	var initq []string
	for _, id := range be.initial {
		initq = append(initq, fmt.Sprint(id+1))
	}
	idx := c.addCase(fmt.Sprintf("CHist [%s] %s", strings.Join(initq, "; "), c13HistCoq(ops, outs)), desc, nfailed > 0)
	c.count("failed calls per history", fmt.Sprint(nfailed))
	for i, o := range outs {
		if o.hung {
			c.violation(idx, "c13-hang", fmt.Sprintf("%s, fault at %s: call %d (%s) did not return within 3 s", be.name, what, i, ops[i].kind), desc)
			return
		}
		if o.panic != "" {
			c.violation(idx, "c13-panic", fmt.Sprintf("%s, fault at %s: call %d (%s): %s", be.name, what, i, ops[i].kind, o.panic), desc)
			return
		}
	}
	if len(faults) == 0 && nfailed > 0 {
		c.violation(idx, "c13-fails-without-fault", fmt.Sprintf("%s: a call failed although no error was injected", be.name), desc)
	}
	init := map[int]bool{}
	for _, id := range be.initial {
		init[id] = true
	}
	if !c13Explain(init, ops, outs, 0) {
		class := "c13-not-explained"
		// (cond removes through a replica of its two stores - that is how the harness configures "remove" - and inherits it)
		if (strings.HasPrefix(be.name, "replica") || strings.HasPrefix(be.name, "cond")) && strings.Contains(what, ".RemoveBlobs") {
			// read every acknowledged removal as "maybe not done everywhere": is that the only thing wrong?
			relaxed := append([]c13out{}, outs...)
			for i := range relaxed {
				if ops[i].kind == "remove" && i < armAfter {
					relaxed[i].failed = true
				}
			}
			if c13Explain(init, ops, relaxed, 0) {
				class = "c13-replica-remove-acks-partial-removal"
			}
		}
		c.violation(idx, class, fmt.Sprintf("%s, fault at %s: the answers are not those of the reference map under any reading of the failed calls", be.name, what), desc)
	}
	// errors must not persist: the probe (the last calls, fault-free) may not fail
	for i := armAfter; i < len(outs); i++ {
		if outs[i].failed {
			c.violation(idx, "c13-error-persists", fmt.Sprintf("%s, fault at %s: call %d (%s) of the fault-free probe failed", be.name, what, i, ops[i].kind), desc)
			break
		}
	}
	if be.recover != nil {
		c.rep.SpecChecks++
		rs, rcl, err := be.recover(dir+"x", inj)
		if err != nil {
			c.violation(idx, "c13-recovery-fails", fmt.Sprintf("%s, fault at %s: the recovery procedure fails afterwards: %v", be.name, what, err), desc)
		} else if rs != nil {
			// the rebuilt store serves what the store served at the end of the (fault-free) probe
			last := outs[len(outs)-1]
			if len(outs) == len(ops) && ops[len(ops)-1].kind == "enum" && !last.failed && !last.hung {
				want := map[int]bool{}
				for _, id := range last.list {
					want[id] = true
				}
				for _, b := range c13blobs {
					data, _, ferr := fetchAll(rs, b.ref)
					sbs, _ := statAll(rs, []blob.Ref{b.ref})
					got := ferr == nil && bytes.Equal(data, b.content) && len(sbs) == 1
					if want[b.id-1] && !got {
						c.violation(idx, "c13-recovery-loses-blob", fmt.Sprintf("%s, fault at %s: blob #%d was served at the end of the history and is gone (fetch: %v, stat: %d) after the recovery procedure", be.name, what, b.id, ferr, len(sbs)), desc)
						break
					}
					if !want[b.id-1] && (ferr == nil || len(sbs) > 0) {
						// an upload that failed may still surface later (read as done); a blob whose removal was
						// acknowledged, with no upload of it attempted since, may not come back
						removed := false
						for i, op := range ops[:len(outs)] {
							if op.b != b.id-1 {
								continue
							}
							switch op.kind {
							case "remove":
								removed = !outs[i].failed
							case "receive":
								removed = false
							}
						}
						if removed {
							c.violation(idx, "c13-recovery-resurrects-removed-blob", fmt.Sprintf("%s, fault at %s: the removal of blob #%d was acknowledged, no upload of it followed, and it is served again after the recovery procedure", be.name, what, b.id), desc)
							break
						}
						c.count("recoveries surfacing a blob of a failed upload", be.name)
					}
				}
				c.count("recoveries compared", be.name)
			}
			if rcl != nil {
				rcl()
			}
		}
	}
}

func c13Human(ops []c13op, outs []c13out) []string {
	var h []string
	for i, o := range outs {
		s := fmt.Sprintf("%s #%d", ops[i].kind, ops[i].b+1)
		switch {
		case o.hung:
			s += " -> HUNG"
		case o.panic != "":
			s += " -> PANIC " + o.panic
		case o.failed:
			s += " -> error"
		case ops[i].kind == "fetch" || ops[i].kind == "stat":
			s += fmt.Sprintf(" -> present=%v", o.present)
		case ops[i].kind == "enum":
			s += fmt.Sprintf(" -> %v", o.list)
		}
		h = append(h, s)
	}
	return h
}

// ---- StatBlobsParallelHelper and its gate ----
func c13Gate(c *ctx) {
	for _, failAt := range []int{-1, 0, 1, 2} {
		for _, nblobs := range []int{1, 3, 5} {
			gate := syncutil.NewGate(1)
			var refs []blob.Ref
			for i := 0; i < nblobs; i++ {
				refs = append(refs, blob.RefFromString(fmt.Sprintf("gate blob %d", i)))
			}
			calls := 0
			var mu sync.Mutex
			done, _ := withTimeout(3*time.Second, func() {
				blobserver.StatBlobsParallelHelper(context.Background(), refs, func(blob.SizedRef) error { return nil }, gate, func(br blob.Ref) (blob.SizedRef, error) {
					mu.Lock()
					i := calls
					calls++
					mu.Unlock()
					if i == failAt {
						return blob.SizedRef{}, errC13
					}
					return blob.SizedRef{Ref: br, Size: 1}, nil
				})
			})
			// how many tokens are still held? try to take the only slot
			leaked := 0
			got := make(chan bool, 1)
			go func() { gate.Start(); got <- true }()
			select {
			case <-got:
				gate.Done()
			case <-time.After(200 * time.Millisecond):
				leaked = 1
			}
			c.rep.SpecChecks++
			var its []string
			for i := 0; i < nblobs; i++ {
				res := "WFound"
				if i == failAt {
					res = "WError"
				}
				its = append(its, fmt.Sprintf("{| sees_cancel := true; result := %s |}", res))
			}
			idx := c.addCase(fmt.Sprintf("CGate [%s] %d%%nat", strings.Join(its, "; "), leaked),
				map[string]any{"op": "StatBlobsParallelHelper", "gate": 1, "blobs": nblobs, "failing worker": failAt}, failAt >= 0 && failAt < nblobs-1)
			c.count("gate", fmt.Sprintf("fail at %d of %d -> leaked %d", failAt, nblobs, leaked))
			if !done {
				c.violation(idx, "c13-hang", "StatBlobsParallelHelper did not return", nil)
			}
			if leaked > 0 {
				c.violation(idx, "c13-gate-slot-leaked", fmt.Sprintf("StatBlobsParallelHelper over %d blobs with worker %d failing returned with a slot of its gate still taken: the next stat of this backend type blocks for ever", nblobs, failAt), nil)
			}
		}
	}
}

//go:build verif

package main

import (
	"bytes"
	"context"
	"crypto/sha1"
	"fmt"
	"os"
	"sort"
	"strings"
	"time"

	"perkeep.org/pkg/blob"
	"perkeep.org/pkg/blobserver"
	"perkeep.org/pkg/blobserver/memory"
	"perkeep.org/pkg/schema"
)

func init() { props["C01"] = runC01 }

type poolBlob struct {
	ref    blob.Ref
	data   []byte
	schema bool
}

func makePool(c *ctx) []poolBlob {
	var p []poolBlob
	add := func(d []byte, schema, useSha1 bool) {
		r := blob.RefFromBytes(d)
		if useSha1 {
			h := sha1.New()
			h.Write(d)
			r = blob.RefFromHash(h)
		}
		p = append(p, poolBlob{r, d, schema})
	}
	add([]byte{}, false, false)
	add([]byte("a"), false, false)
	add([]byte("b"), false, true)
	add(bytes.Repeat([]byte("chunk"), 20), false, false)
	add(bytes.Repeat([]byte{0, 1, 2, 0xff}, 300), false, false)
	add([]byte(`{"camliVersion": 1, "camliType": "permanode", "random": "r1"}`), true, false)
	add([]byte(`{"camliVersion": 1, "camliType": "bytes", "parts": []}`), true, false)
	add([]byte(`{"camliVersion": 1, "camliType": "static-set", "members": []}`), true, true)
	add([]byte(`{"foo": 1}`), false, false)
	add([]byte(`{"camliVersion": 1}`), false, false)
	for i := 0; i < 6; i++ {
		d := make([]byte, 1+c.rng.Intn(40))
		c.rng.Read(d)
		add(d, false, i%3 == 0)
	}
	return p
}

func genLeaf(c *ctx, ro bool) *cfgNode {
	kinds := []string{"memory", "localdisk", "diskpacked", "blobpacked", "encrypt", "memory", "diskpacked"}
	n := &cfgNode{Kind: "leaf", Leaf: kinds[c.rng.Intn(len(kinds))], readOnly: ro}
	if ro && n.Leaf == "encrypt" {
		n.Leaf = "memory"
	}
	kv := kvKinds[c.rng.Intn(len(kvKinds))]
	switch n.Leaf {
	case "diskpacked":
		n.Detail = fmt.Sprintf("%d,%s", []int{120, 600, 0}[c.rng.Intn(3)], kv)
		if kv == "sqlite" { // diskpacked over a sqlite index self-deadlocks in RemoveBlobs (D11); kept out of this stream
			n.Detail = fmt.Sprintf("%d,%s", []int{120, 600, 0}[c.rng.Intn(3)], "leveldb")
		}
	case "blobpacked", "encrypt":
		n.Detail = kv
	}
	return n
}

func genCfg(c *ctx, depth int, top bool) *cfgNode {
	if depth == 0 || c.rng.Intn(10) < 3 {
		return genLeaf(c, false)
	}
	roUnion := func() *cfgNode {
		u := &cfgNode{Kind: "union", readOnly: true}
		for i := 0; i < 1+c.rng.Intn(3); i++ {
			u.Kids = append(u.Kids, genLeaf(c, true))
		}
		return u
	}
	switch k := c.rng.Intn(8); {
	case k == 0:
		n := &cfgNode{Kind: "replica"}
		for i := 0; i < 2+c.rng.Intn(2); i++ {
			n.Kids = append(n.Kids, genCfg(c, depth-1, false))
		}
		return n
	case k == 1:
		n := &cfgNode{Kind: "shard"}
		for i := 0; i < 2+c.rng.Intn(2); i++ {
			n.Kids = append(n.Kids, genCfg(c, depth-1, false))
		}
		return n
	case k == 2 && top:
		return roUnion()
	case k == 3:
		var lower *cfgNode
		if c.rng.Intn(2) == 0 {
			lower = genLeaf(c, true)
		} else {
			lower = roUnion()
		}
		return &cfgNode{Kind: "overlay", HasDel: c.rng.Intn(5) != 0, Detail: kvKinds[c.rng.Intn(len(kvKinds))], Kids: []*cfgNode{lower, genCfg(c, depth-1, false)}}
	case k == 4:
		return &cfgNode{Kind: "namespace", Detail: kvKinds[c.rng.Intn(len(kvKinds))], Kids: []*cfgNode{genCfg(c, depth-1, false)}}
	case k == 5:
		cache := &cfgNode{Kind: "leaf", Leaf: "memory", Detail: "cache", isCache: true}
		return &cfgNode{Kind: "proxycache", Kids: []*cfgNode{cache, genCfg(c, depth-1, false)}}
	case k == 6:
		return &cfgNode{Kind: "cond", Kids: []*cfgNode{genCfg(c, depth-1, false), genCfg(c, depth-1, false)}}
	}
	return genLeaf(c, false)
}

func canRemove(n *cfgNode) bool {
	ok := n.Kind != "union"
	n.walk(func(x *cfgNode) {
		if x.Leaf == "encrypt" || (x.Kind == "overlay" && !x.HasDel) {
			ok = false
		}
	})
	return ok
}

func c01Cursor(c *ctx, pool []poolBlob) string {
	r := pool[c.rng.Intn(len(pool))].ref
	switch c.rng.Intn(11) {
	case 0:
		return ""
	case 1, 2:
		return r.String()
	case 3:
		return r.StringMinusOne()
	case 4:
		return r.String() + "0"
	case 5:
		return r.String()[:c.rng.Intn(len(r.String()))]
	case 6:
		return "sha224-"
	case 7:
		return "sha1."
	case 8:
		return "sha225"
	case 9:
		return "a"
	}
	return "~"
}

type c01Op struct {
	Kind   string   `json:"kind"`
	Ref    string   `json:"ref,omitempty"`
	Refs   []string `json:"refs,omitempty"`
	Cursor string   `json:"cursor,omitempty"`
	Limit  int      `json:"limit,omitempty"`
	Size   int      `json:"size,omitempty"`
}

func runC01(c *ctx) {
	c.rep.Rule = "random nestings (depth<=2) of {memory, localdisk, diskpacked(maxFileSize x index kind), blobpacked, encrypt} under {replica, shard, cond, overlay(+-deleted), namespace, proxycache(evicting cache), union(read-only, preloaded)} built through blobserver.CreateStorage; " +
		"histories of receive/re-receive/fetch/subfetch/stat/enumerate/remove over a pool of blobs (empty, 1 byte, binary, schema and non-schema JSON, sha1 and sha224 refs) with cursors that are refs, refs+-1, prefixes, hash-name boundaries, arbitrary strings; " +
		"non-trivial = distinct history on a composite or disk-backed store in which some enumerate returned a non-empty page"
	tmp, err := os.MkdirTemp("", "verif-c01-")
	if err != nil {
		panic(err)
	}
	defer os.RemoveAll(tmp)
	ctxb := context.Background()
	pool := makePool(c)
	byRef := map[string]poolBlob{}
	for _, p := range pool {
		byRef[p.ref.String()] = p
	}
	c01Packed(c, tmp)
	c01OverlayRuns(c, tmp)
	c01UnionOverlap(c, tmp)
	nHist := c.n(110, 1500)
	for h := 0; h < nHist; h++ {
		depth := 1 + c.rng.Intn(2)
		if h%5 == 0 {
			depth = 0
		}
		root := genCfg(c, depth, true)
		b := newBuilder(fmt.Sprintf("%s/%d", tmp, h))
		b.wrap = func(n *cfgNode, s blobserver.Storage) blobserver.Storage {
			if n.isCache {
				return memory.NewCache(int64(30 + c.rng.Intn(300)))
			}
			return s
		}
		if err := b.build(root); err != nil {
			c.rep.Notes = append(c.rep.Notes, "build "+root.describe()+": "+err.Error())
			continue
		}
		var leaves []*cfgNode
		root.leaves(&leaves)
		var markVisible func(n *cfgNode, vis bool)
		markVisible = func(n *cfgNode, vis bool) {
			if n.Kind == "leaf" {
				n.readOnly = n.readOnly && vis
				return
			}
			for i, k := range n.Kids {
				v := vis
				switch n.Kind {
				case "overlay", "union", "replica":
				case "proxycache":
					v = v && i == 1
				default:
					v = false
				}
				markVisible(k, v)
			}
		}
		markVisible(root, true)
		ref := map[string][]byte{}
		// preloads into read-only leaves
		var pre []string
		var preJSON []any
		for li, lf := range leaves {
			if !lf.readOnly {
				continue
			}
			for _, p := range pool {
				if c.rng.Intn(3) == 0 {
					if _, err := blobserver.Receive(ctxb, lf.sto, p.ref, bytes.NewReader(p.data)); err != nil {
						c.rep.Notes = append(c.rep.Notes, "preload: "+err.Error())
						continue
					}
					pre = append(pre, fmt.Sprintf("(%d%%nat, %s, %s)", li, qs(p.ref.String()), qh(p.data)))
					preJSON = append(preJSON, map[string]any{"leaf": li, "ref": p.ref.String()})
					ref[p.ref.String()] = p.data
				}
			}
		}
		sto := root.sto
		rm := canRemove(root)
		readonly := root.Kind == "union"
		var ops []string
		var outs []string
		var opsJSON []c01Op
		nontrivial := false
		idx := len(c.casesBuf)
		desc := root.describe()
		nOps := c.n(24, 40)
		var subCases []string
		var subJSON []any
		finished, pnc := withTimeout(60*time.Second, func() {
			for i := 0; i < nOps; i++ {
				r := c.rng.Intn(100)
				fail := func(kind, what string) {
					c.violation(idx, "c01-"+root.Kind+"-"+kind, fmt.Sprintf("%s: op %d %s: %s", desc, i, kind, what), map[string]any{"config": root, "ops": opsJSON, "preload": preJSON})
				}
				c.rep.SpecChecks++
				switch {
				case r < 35: // receive
					p := pool[c.rng.Intn(len(pool))]
					sb, err := blobserver.Receive(ctxb, sto, p.ref, bytes.NewReader(p.data))
					ops = append(ops, fmt.Sprintf("Recv %s %s %s", qs(p.ref.String()), qh(p.data), qb(p.schema)))
					opsJSON = append(opsJSON, c01Op{Kind: "receive", Ref: p.ref.String(), Size: len(p.data)})
					c.count("ops", "receive")
					if err != nil {
						outs = append(outs, "OErr "+errKind(err))
						if !readonly {
							fail("receive", err.Error())
						} else if errKind(err) != "EReadonly" {
							fail("receive", "read-only store returned "+err.Error())
						}
					} else {
						outs = append(outs, fmt.Sprintf("ORecv %d", sb.Size))
						if readonly {
							fail("receive", "read-only store accepted a blob")
						} else if int(sb.Size) != len(p.data) || sb.Ref != p.ref {
							fail("receive", fmt.Sprintf("returned %v", sb))
						}
						if _, ok := ref[p.ref.String()]; !ok {
							ref[p.ref.String()] = p.data
						}
					}
				case r < 55: // fetch (+ ranged fetch)
					p := pool[c.rng.Intn(len(pool))]
					got, sz, err := fetchAll(sto, p.ref)
					ops = append(ops, "Fetch "+qs(p.ref.String()))
					opsJSON = append(opsJSON, c01Op{Kind: "fetch", Ref: p.ref.String()})
					c.count("ops", "fetch")
					want, present := ref[p.ref.String()]
					if err != nil {
						outs = append(outs, "OErr "+errKind(err))
						if present || errKind(err) != "ENotFound" {
							fail("fetch", fmt.Sprintf("present=%v err=%v", present, err))
						}
					} else {
						outs = append(outs, "OBytes "+qh(got))
						if !present || !bytes.Equal(got, want) || int(sz) != len(want) {
							fail("fetch", fmt.Sprintf("present=%v got %d bytes (size %d) want %d", present, len(got), sz, len(want)))
						}
						if sf, ok := sto.(blob.SubFetcher); ok && present {
							off := int64(c.rng.Intn(len(want)+3)) - 1
							ln := int64(c.rng.Intn(len(want)+3)) - 1
							if c.rng.Intn(3) == 0 {
								off, ln = 0, int64(len(want))
							}
							var part []byte
							rc, err := sf.SubFetch(ctxb, p.ref, off, ln)
							if err == nil {
								var bb bytes.Buffer
								_, err = bb.ReadFrom(rc)
								rc.Close()
								part = bb.Bytes()
							}
							if err == blob.ErrUnimplemented {
								c.count("subfetch", "unimplemented")
							} else {
								c.count("subfetch", map[bool]string{true: "ok", false: "error"}[err == nil])
								subCases = append(subCases, fmt.Sprintf("CSub %s %s %s %s", qh(want), qz(off), qz(ln), qopt(err == nil, qh(part))))
								subJSON = append(subJSON, map[string]any{"op": "subfetch", "config": desc, "ref": p.ref.String(), "off": off, "len": ln})
								wantErr := off < 0 || ln < 0 || off > int64(len(want))
								if wantErr != (err != nil) {
									fail("subfetch", fmt.Sprintf("off=%d len=%d size=%d err=%v", off, ln, len(want), err))
								} else if err == nil {
									end := off + ln
									if end > int64(len(want)) {
										end = int64(len(want))
									}
									if !bytes.Equal(part, want[off:end]) {
										fail("subfetch", fmt.Sprintf("off=%d len=%d size=%d got %d bytes", off, ln, len(want), len(part)))
									}
								}
							}
						}
					}
				case r < 65: // stat
					var refs []blob.Ref
					var rq []string
					var rj []string
					for _, j := range c.rng.Perm(len(pool))[:1+c.rng.Intn(6)] {
						refs = append(refs, pool[j].ref)
						rq = append(rq, qs(pool[j].ref.String()))
						rj = append(rj, pool[j].ref.String())
					}
					got, err := statAll(sto, refs)
					ops = append(ops, "Stat "+qlist(rq))
					opsJSON = append(opsJSON, c01Op{Kind: "stat", Refs: rj})
					c.count("ops", "stat")
					if err != nil {
						outs = append(outs, "OErr "+errKind(err))
						fail("stat", err.Error())
					} else {
						outs = append(outs, "OStat "+qsized(got))
						want := 0
						for _, x := range refs {
							if _, ok := ref[x.String()]; ok {
								want++
							}
						}
						bad := len(got) != want
						for _, sb := range got {
							if d, ok := ref[sb.Ref.String()]; !ok || len(d) != int(sb.Size) {
								bad = true
							}
						}
						if bad {
							fail("stat", fmt.Sprintf("got %v", got))
						}
					}
				case r < 85 || !rm: // enumerate
					cur := c01Cursor(c, pool)
					limit := []int{1, 2, 3, len(ref) - 1, len(ref), len(ref) + 1, 1000}[c.rng.Intn(7)]
					if limit < 1 {
						limit = 1
					}
					got, err := enumAll(sto, cur, limit)
					ops = append(ops, fmt.Sprintf("Enum %s %d", qs(cur), limit))
					opsJSON = append(opsJSON, c01Op{Kind: "enumerate", Cursor: cur, Limit: limit})
					c.count("ops", "enumerate")
					_, isRef := byRef[cur]
					c.count("cursor", map[bool]string{true: "existing-ref-text", false: "other-string"}[isRef])
					if err != nil {
						outs = append(outs, "OErr "+errKind(err))
						fail("enumerate", err.Error())
					} else {
						outs = append(outs, "OEnum "+qsized(got))
						var ks []string
						for k := range ref {
							if k > cur {
								ks = append(ks, k)
							}
						}
						sort.Strings(ks)
						if len(ks) > limit {
							ks = ks[:limit]
						}
						bad := len(ks) != len(got)
						for j := range got {
							if !bad && (got[j].Ref.String() != ks[j] || int(got[j].Size) != len(ref[ks[j]])) {
								bad = true
							}
						}
						if bad {
							fail("enumerate", fmt.Sprintf("after %q limit %d: got %v want %v", cur, limit, got, ks))
						}
						if len(got) > 0 && (root.Kind != "leaf" || root.Leaf != "memory") {
							nontrivial = true
						}
					}
				default: // remove
					var refs []blob.Ref
					var rq, rj []string
					for _, j := range c.rng.Perm(len(pool))[:1+c.rng.Intn(3)] {
						refs = append(refs, pool[j].ref)
						rq = append(rq, qs(pool[j].ref.String()))
						rj = append(rj, pool[j].ref.String())
					}
					err := sto.RemoveBlobs(ctxb, refs)
					ops = append(ops, "Remove "+qlist(rq))
					opsJSON = append(opsJSON, c01Op{Kind: "remove", Refs: rj})
					c.count("ops", "remove")
					if err != nil {
						outs = append(outs, "OErr "+errKind(err))
						fail("remove", err.Error())
					} else {
						outs = append(outs, "OOk")
						for _, x := range refs {
							delete(ref, x.String())
						}
					}
				}
			}
		})
		if !finished || pnc != nil {
			c.violation(idx, "c01-"+root.Kind+"-hang-or-panic", fmt.Sprintf("%s: after %d ops: finished=%v panic=%v", desc, len(ops), finished, pnc), map[string]any{"config": root, "ops": opsJSON})
			c.count("aborted", desc)
			continue
		}
		// placement: final contents of every leaf
		var leafDumps []string
		for _, lf := range leaves {
			if lf.isCache {
				leafDumps = append(leafDumps, "None")
				continue
			}
			d, err := dumpStore(lf.sto)
			if err != nil {
				leafDumps = append(leafDumps, "None")
				continue
			}
			leafDumps = append(leafDumps, "Some "+qsized(d))
		}
		root.closeAll()
		c.count("root", root.Kind)
		root.walk(func(x *cfgNode) {
			if x.Kind == "leaf" {
				c.count("leaves", x.Leaf)
			} else {
				c.count("combinators", x.Kind)
			}
		})
		c.addCase(fmt.Sprintf("CHist (%s) %s %s %s %s", root.coq(), qlist(pre), qlist(ops), qlist(outs), qlist(leafDumps)),
			map[string]any{"config": root, "describe": desc, "preload": preJSON, "ops": opsJSON}, nontrivial)
		for i, sc := range subCases {
			c.addCase(sc, subJSON[i], true)
		}
	}
	for _, k := range []string{"replica", "shard", "union", "overlay", "namespace", "proxycache", "cond"} {
		if c.hist["combinators"][k] == 0 {
			c.rep.TargetsMissed = append(c.rep.TargetsMissed, "combinator:"+k)
		}
	}
	for _, k := range []string{"memory", "localdisk", "diskpacked", "blobpacked", "encrypt"} {
		if c.hist["leaves"][k] == 0 {
			c.rep.TargetsMissed = append(c.rep.TargetsMissed, "leaf:"+k)
		}
	}
	_ = strings.Join
}

// a blobpacked leaf that really packs: a file above the packing threshold is uploaded (chunks, then the file schema blob),
// after which every logical blob must still be fetched, range-fetched over all boundary shapes, and stat-ed like in a map
func c01Packed(c *ctx, tmp string) {
	for round := 0; round < c.n(1, 4); round++ {
		b := newBuilder(fmt.Sprintf("%s/packed%d", tmp, round))
		root := &cfgNode{Kind: "leaf", Leaf: "blobpacked", Detail: "memory"}
		if err := b.build(root); err != nil {
			c.rep.Notes = append(c.rep.Notes, "build packed blobpacked: "+err.Error())
			return
		}
		content := make([]byte, 600<<10+c.rng.Intn(200<<10))
		c.rng.Read(content)
		rec := &c04rec{}
		if _, err := schema.WriteFileFromReader(context.Background(), rec, fmt.Sprintf("packed-%d.bin", round), bytes.NewReader(content)); err != nil {
			c.rep.Notes = append(c.rep.Notes, "WriteFileFromReader: "+err.Error())
			return
		}
		desc := fmt.Sprintf("blobpacked leaf holding a packed file of %d bytes in %d blobs", len(content), len(rec.blobs))
		for _, data := range rec.blobs { // the file schema blob comes last: its receive packs the file
			if _, err := blobserver.Receive(context.Background(), root.sto, blob.RefFromBytes(data), bytes.NewReader(data)); err != nil {
				c.violation(-1, "c01-leaf-receive", desc+": receive failed: "+err.Error(), nil)
				return
			}
		}
		c.count("ops", "packed-file scenario")
		for i, data := range rec.blobs {
			br := blob.RefFromBytes(data)
			c.rep.SpecChecks++
			got, sz, err := fetchAll(root.sto, br)
			if err != nil || !bytes.Equal(got, data) || int(sz) != len(data) {
				c.violation(-1, "c01-leaf-fetch", fmt.Sprintf("%s: blob %d is not fetched back (err %v, %d bytes)", desc, i, err, len(got)), nil)
				continue
			}
			if sf, ok := root.sto.(blob.SubFetcher); ok {
				if w := rangeFetchCheck(sf, br, data); w != "" {
					c.violation(-1, "c01-leaf-subfetch", fmt.Sprintf("%s: blob %d: %s", desc, i, w), nil)
					break
				}
			}
			if sbs, err := statAll(root.sto, []blob.Ref{br}); err != nil || len(sbs) != 1 || int(sbs[0].Size) != len(data) {
				c.violation(-1, "c01-leaf-stat", fmt.Sprintf("%s: blob %d: stat answers %v (err %v)", desc, i, sbs, err), nil)
			}
		}
		root.closeAll()
	}
}

// a union whose members overlap: the same blobs sit in two or three members of every leaf kind whose readers are real
// files. Every blob must be fetched back byte for byte, stat-ed and enumerated once.
func c01UnionOverlap(c *ctx, tmp string) {
	kinds := [][]string{{"localdisk", "localdisk"}, {"localdisk", "memory", "localdisk"}, {"diskpacked", "localdisk"}, {"memory", "diskpacked"}}
	for round, ks := range kinds {
		b := newBuilder(fmt.Sprintf("%s/unionov%d", tmp, round))
		root := &cfgNode{Kind: "union"}
		for _, k := range ks {
			kid := &cfgNode{Kind: "leaf", Leaf: k, readOnly: true}
			if k == "diskpacked" {
				kid.Detail = "300,memory"
			}
			root.Kids = append(root.Kids, kid)
		}
		if err := b.build(root); err != nil {
			c.rep.Notes = append(c.rep.Notes, "build union: "+err.Error())
			return
		}
		ctxb := context.Background()
		desc := "union[" + strings.Join(ks, " ") + "] with every blob in every member"
		var pre, ops, outs []string
		var refs []blob.Ref
		content := map[string][]byte{}
		for i := 0; i < 5; i++ {
			data := []byte(fmt.Sprintf("union overlap blob %d of round %d seed %d %s", i, round, c.seed, strings.Repeat("x", i*300)))
			if i == 4 {
				data = nil // the empty blob
			}
			br := blob.RefFromBytes(data)
			for li, kid := range root.Kids {
				if i == 1 && li > 0 {
					continue // one blob sits in the first member only
				}
				if _, err := blobserver.Receive(ctxb, kid.sto, br, bytes.NewReader(data)); err != nil {
					c.rep.Notes = append(c.rep.Notes, "union preload: "+err.Error())
					return
				}
				pre = append(pre, fmt.Sprintf("(%d%%nat, %s, %s)", li, qs(br.String()), qh(data)))
			}
			refs = append(refs, br)
			content[br.String()] = data
		}
		sort.Slice(refs, func(i, j int) bool { return refs[i].String() < refs[j].String() })
		for rep := 0; rep < 3; rep++ {
			for _, br := range refs {
				c.rep.SpecChecks++
				got, sz, err := fetchAll(root.sto, br)
				want := content[br.String()]
				if err != nil || !bytes.Equal(got, want) || int(sz) != len(want) {
					c.violation(-1, "c01-union-fetch", fmt.Sprintf("%s: fetch of %s gives %d bytes (size %d, err %v), the blob has %d", desc, br, len(got), sz, err, len(want)), nil)
					root.closeAll()
					return
				}
				if rep == 0 {
					ops = append(ops, "Fetch "+qs(br.String()))
					outs = append(outs, "OBytes "+qh(got))
				}
			}
		}
		sbs, err := statAll(root.sto, refs)
		all, err2 := enumAll(root.sto, "", 100)
		c.rep.SpecChecks++
		if err != nil || err2 != nil || len(sbs) != len(refs) || len(all) != len(refs) {
			c.violation(-1, "c01-union-stat", fmt.Sprintf("%s: stat reports %d blobs (err %v), enumerate %d (err %v), the union holds %d", desc, len(sbs), err, len(all), err2, len(refs)), nil)
		} else {
			ops = append(ops, "Enum "+qs("")+" 100")
			outs = append(outs, "OEnum "+qsized(all))
		}
		var nones []string
		for range root.Kids {
			nones = append(nones, "None")
		}
		c.addCase(fmt.Sprintf("CHist (%s) %s %s %s %s", root.coq(), qlist(pre), qlist(ops), qlist(outs), qlist(nones)),
			map[string]any{"config": root, "describe": desc, "ops": len(ops)}, true)
		c.count("ops", "union with overlapping members")
		root.closeAll()
	}
}

// an overlay over a populated lower layer, with runs of consecutive (in blobref order) lower blobs removed through it: every
// page size from every cursor must list exactly the blobs that are left (the refill loop must not stop at a page of
// tombstones)
func c01OverlayRuns(c *ctx, tmp string) {
	for round := 0; round < c.n(2, 8); round++ {
		b := newBuilder(fmt.Sprintf("%s/ovruns%d", tmp, round))
		root := &cfgNode{Kind: "overlay", HasDel: true, Detail: kvKinds[round%len(kvKinds)], Kids: []*cfgNode{{Kind: "leaf", Leaf: "memory", readOnly: true}, {Kind: "leaf", Leaf: "memory"}}}
		if err := b.build(root); err != nil {
			c.rep.Notes = append(c.rep.Notes, "build overlay: "+err.Error())
			return
		}
		ctxb := context.Background()
		ref := map[string]int{}
		var refs []blob.Ref
		var pre, ops, outs []string // the same history for the Rocq model of overlay[memory memory]
		for i := 0; i < 9+c.rng.Intn(4); i++ {
			data := []byte(fmt.Sprintf("lower blob %d of round %d seed %d", i, round, c.seed))
			br := blob.RefFromBytes(data)
			where := root.Kids[0].sto
			if i%4 == 3 {
				where = root.sto // through the overlay: lands in the upper layer
			}
			if _, err := blobserver.Receive(ctxb, where, br, bytes.NewReader(data)); err != nil {
				c.rep.Notes = append(c.rep.Notes, "overlay preload: "+err.Error())
				return
			}
			if i%4 == 3 {
				ops = append(ops, fmt.Sprintf("Recv %s %s false", qs(br.String()), qh(data)))
				outs = append(outs, fmt.Sprintf("ORecv %d", len(data)))
			} else {
				pre = append(pre, fmt.Sprintf("(0%%nat, %s, %s)", qs(br.String()), qh(data)))
			}
			ref[br.String()] = len(data)
			refs = append(refs, br)
		}
		sort.Slice(refs, func(i, j int) bool { return refs[i].String() < refs[j].String() })
		// remove a run of 1-4 consecutive blobs (twice), through the overlay
		for k := 0; k < 2; k++ {
			start := c.rng.Intn(len(refs) - 4)
			run := refs[start : start+1+c.rng.Intn(4)]
			if err := root.sto.RemoveBlobs(ctxb, run); err != nil {
				c.violation(-1, "c01-overlay-remove", fmt.Sprintf("overlay over a populated lower layer: RemoveBlobs: %v", err), nil)
				return
			}
			var rq []string
			for _, r := range run {
				delete(ref, r.String())
				rq = append(rq, qs(r.String()))
			}
			ops = append(ops, "Remove "+qlist(rq))
			outs = append(outs, "OOk")
		}
		var left []string
		for r := range ref {
			left = append(left, r)
		}
		sort.Strings(left)
		cursors := []string{""}
		for _, r := range refs {
			cursors = append(cursors, r.String())
		}
		c.count("ops", "overlay tombstone-run scenario")
		desc := fmt.Sprintf("overlay[memory memory] with a deleted index (%s): %d blobs, %d left after removing two runs of lower-layer blobs", root.Detail, len(refs), len(left))
	sweep:
		for _, cur := range cursors {
			for limit := 1; limit <= len(refs)+1; limit++ {
				c.rep.SpecChecks++
				got, err := enumAll(root.sto, cur, limit)
				if err == nil && limit <= 3 {
					ops = append(ops, fmt.Sprintf("Enum %s %d", qs(cur), limit))
					outs = append(outs, "OEnum "+qsized(got))
				}
				var want []string
				for _, r := range left {
					if r > cur && len(want) < limit {
						want = append(want, r)
					}
				}
				bad := err != nil || len(got) != len(want)
				for i := 0; !bad && i < len(got); i++ {
					bad = got[i].Ref.String() != want[i] || int(got[i].Size) != ref[want[i]]
				}
				if bad {
					c.violation(-1, "c01-overlay-enumerate", fmt.Sprintf("%s: enumerate after %q limit %d lists %d blobs (err %v), the map has %d there", desc, cur, limit, len(got), err, len(want)), nil)
					break sweep
				}
			}
		}
		c.addCase(fmt.Sprintf("CHist (%s) %s %s %s %s", root.coq(), qlist(pre), qlist(ops), qlist(outs), qlist([]string{"None", "None"})),
			map[string]any{"config": root, "describe": desc, "ops": len(ops)}, true)
		root.closeAll()
	}
}

//go:build verif

package main

import (
	"bytes"
	"context"
	"crypto/sha1"
	"crypto/sha256"
	"encoding/hex"
	"encoding/json"
	"errors"
	"fmt"
	"io"
	"mime/multipart"
	"net/http"
	"net/http/httptest"
	"os"
	"sort"
	"strings"
	"sync"

	"perkeep.org/pkg/blob"
	"perkeep.org/pkg/blobserver"
	"perkeep.org/pkg/blobserver/handlers"
)

func init() { props["C02"] = runC02 }

// a reader delivering data with a chosen fragmentation and ending in EOF or in an error after k bytes
type fragReader struct {
	data    []byte
	mode    string // whole | onebyte | dataerr | half
	errAt   int    // -1: none
	pos     int
	errored bool
}

var errInjected = errors.New("injected source error")

func (f *fragReader) Read(p []byte) (int, error) {
	end := len(f.data)
	if f.errAt >= 0 && f.errAt < end {
		end = f.errAt
	}
	if f.pos >= end {
		if f.errAt >= 0 {
			return 0, errInjected
		}
		return 0, io.EOF
	}
	n := end - f.pos
	switch f.mode {
	case "onebyte":
		n = 1
	case "half":
		if n > 1 {
			n = (n + 1) / 2
		}
	}
	if n > len(p) {
		n = len(p)
	}
	copy(p, f.data[f.pos:f.pos+n])
	f.pos += n
	if f.mode == "dataerr" && f.pos >= end {
		if f.errAt >= 0 {
			return n, errInjected
		}
		return n, io.EOF
	}
	return n, nil
}

func refOf(kind string, data []byte) (blob.Ref, string) {
	switch kind {
	case "sha1":
		s := sha1.Sum(data)
		str := "sha1-" + hex.EncodeToString(s[:])
		return blob.MustParse(str), str
	case "sha256":
		s := sha256.Sum256(data)
		str := "sha256-" + hex.EncodeToString(s[:])
		return blob.MustParse(str), str
	case "unknown":
		s := sha256.Sum224(data)
		str := "foo-" + hex.EncodeToString(s[:])
		return blob.MustParse(str), str
	}
	s := sha256.Sum224(data)
	str := "sha224-" + hex.EncodeToString(s[:])
	return blob.MustParse(str), str
}

type hubRec struct {
	mu   sync.Mutex
	seen map[string]int
}

func (h *hubRec) hook(sb blob.SizedRef) error {
	h.mu.Lock()
	h.seen[sb.Ref.String()]++
	h.mu.Unlock()
	return nil
}
func (h *hubRec) count(r string) int { h.mu.Lock(); defer h.mu.Unlock(); return h.seen[r] }

type cfgSto struct {
	blobserver.Storage
	cfg *blobserver.Config
}

func (c cfgSto) Config() *blobserver.Config { return c.cfg }

func c02Backends(c *ctx, tmp string) []*cfgNode {
	mem := func() *cfgNode { return &cfgNode{Kind: "leaf", Leaf: "memory"} }
	disk := func() *cfgNode { return &cfgNode{Kind: "leaf", Leaf: "localdisk"} }
	roots := []*cfgNode{
		mem(),
		disk(),
		{Kind: "leaf", Leaf: "diskpacked", Detail: "600,leveldb"},
		{Kind: "leaf", Leaf: "blobpacked", Detail: "memory"},
		{Kind: "leaf", Leaf: "encrypt", Detail: "memory"},
		{Kind: "replica", Kids: []*cfgNode{mem(), mem()}},
		{Kind: "shard", Kids: []*cfgNode{mem(), mem()}},
		{Kind: "cond", Kids: []*cfgNode{mem(), mem()}},
		{Kind: "namespace", Detail: "memory", Kids: []*cfgNode{mem()}},
		{Kind: "proxycache", Kids: []*cfgNode{{Kind: "leaf", Leaf: "memory", isCache: true}, mem()}},
		{Kind: "overlay", HasDel: true, Detail: "memory", Kids: []*cfgNode{mem(), mem()}},
		// the same wrappers over leaves that do not hash what they are handed (memory does, and hides a wrapper that
		// forwards unverified bytes)
		{Kind: "cond", Kids: []*cfgNode{disk(), disk()}},
		{Kind: "replica", Kids: []*cfgNode{disk(), disk()}},
		{Kind: "shard", Kids: []*cfgNode{disk(), disk()}},
		{Kind: "namespace", Detail: "memory", Kids: []*cfgNode{disk()}},
		{Kind: "proxycache", Kids: []*cfgNode{{Kind: "leaf", Leaf: "memory", isCache: true}, disk()}},
		{Kind: "overlay", HasDel: true, Detail: "memory", Kids: []*cfgNode{mem(), disk()}},
	}
	var out []*cfgNode
	for i, r := range roots {
		b := newBuilder(fmt.Sprintf("%s/b%d", tmp, i))
		if err := b.build(r); err != nil {
			c.rep.Notes = append(c.rep.Notes, "build "+r.describe()+": "+err.Error())
			continue
		}
		out = append(out, r)
	}
	return out
}

func runC02(c *ctx) {
	c.rep.Rule = "(ref, offered bytes, reader) cases through blobserver.Receive, the PUT handler and the multipart handler over every backend kind: offered bytes = true content / truncation / extension / bit flip / reversal / unrelated, " +
		"refs of sha224, sha1, sha256 and an unknown hash, readers delivering whole / 1-byte / data+EOF together / halves, with an error injected after k bytes, refs present or absent beforehand, sizes 16MiB-1, 16MiB, 16MiB+1 on three backends; " +
		"non-trivial = distinct case in which the offered bytes differ from the true content or the reader is fragmented or fails"
	tmp, err := os.MkdirTemp("", "verif-c02-")
	if err != nil {
		panic(err)
	}
	defer os.RemoveAll(tmp)
	ctxb := context.Background()
	backends := c02Backends(c, tmp)
	counter := 0
	uniq := func(n int) []byte {
		counter++
		b := make([]byte, n)
		c.rng.Read(b)
		copy(b, fmt.Sprintf("%09d:", counter)) // unique when n >= 10; shorter contents may repeat (handled via 'before')
		return b
	}
	type offer struct {
		ref     blob.Ref
		refStr  string
		kind    string
		trueLen int
		stream  []byte
		variant string
		mlen    int // -1 none
	}
	mkOffer := func(size int, hashKind, variant string) offer {
		t := uniq(size)
		r, rs := refOf(hashKind, t)
		o := offer{ref: r, refStr: rs, kind: hashKind, trueLen: len(t), variant: variant, mlen: len(t)}
		switch variant {
		case "exact":
			o.stream = t
		case "truncated":
			if len(t) == 0 {
				o.stream = t
			} else {
				o.stream = t[:c.rng.Intn(len(t))]
				o.mlen = -1
			}
		case "extended":
			o.stream = append(append([]byte{}, t...), uniq(1+c.rng.Intn(3))...)
		case "bitflip":
			o.stream = append([]byte{}, t...)
			if len(t) > 0 {
				o.stream[c.rng.Intn(len(t))] ^= 1 << uint(c.rng.Intn(8))
				o.mlen = -1
			}
		case "reversed":
			o.stream = append([]byte{}, t...)
			for i, j := 0, len(o.stream)-1; i < j; i, j = i+1, j-1 {
				o.stream[i], o.stream[j] = o.stream[j], o.stream[i]
			}
			if !bytes.Equal(o.stream, t) {
				o.mlen = -1
			}
		case "unrelated":
			o.stream = uniq(len(t) + 1)
			o.mlen = -1
		}
		return o
	}
	optN := func(n int) string {
		if n < 0 {
			return "None"
		}
		return fmt.Sprintf("(Some %d)", n)
	}
	variants := []string{"exact", "exact", "truncated", "extended", "bitflip", "reversed", "unrelated"}
	hashKinds := []string{"sha224", "sha224", "sha224", "sha1", "sha256", "unknown"}
	modes := []string{"whole", "onebyte", "dataerr", "half"}
	classify := func(err error) int {
		switch {
		case err == nil:
			return 0
		case errors.Is(err, blobserver.ErrCorruptBlob):
			return 1
		case strings.Contains(err.Error(), "no registered hash function"):
			return 2
		}
		return 3
	}
	observe := func(sto blobserver.Storage, r blob.Ref) (after int, fetched []byte, enumerated bool) {
		after = -1
		if st, err := statAll(sto, []blob.Ref{r}); err == nil && len(st) == 1 {
			after = int(st[0].Size)
		}
		fetched, _, _ = fetchAll(sto, r)
		if all, err := dumpStore(sto); err == nil {
			for _, sb := range all {
				if sb.Ref == r {
					enumerated = true
				}
			}
		}
		return
	}
	for _, be := range backends {
		sto := be.sto
		hub := &hubRec{seen: map[string]int{}}
		blobserver.GetHub(sto).AddReceiveHook(hub.hook)
		desc := be.describe()
		for i := 0; i < c.n(150, 1200); i++ {
			size := []int{0, 1, 17, 300, 1500}[c.rng.Intn(5)]
			o := mkOffer(size, hashKinds[c.rng.Intn(len(hashKinds))], variants[c.rng.Intn(len(variants))])
			before := -1
			if o.kind != "unknown" {
				if st, err := statAll(sto, []blob.Ref{o.ref}); err == nil && len(st) == 1 {
					before = int(st[0].Size) // already there from an earlier case (tiny contents repeat)
				}
			}
			if before < 0 && o.kind != "unknown" && c.rng.Intn(3) == 0 {
				t := o.stream
				if o.variant != "exact" { // reconstruct the true content: receive it legitimately first
					// (truncated/extended/... variants keep the true content as a prefix or not at all; re-derive)
					continue
				}
				if _, err := blobserver.Receive(ctxb, sto, o.ref, bytes.NewReader(t)); err == nil {
					before = len(t)
					// now offer something else under the same, present ref
					switch c.rng.Intn(3) {
					case 0:
					case 1:
						o.stream = append(append([]byte{}, t...), 'x')
						o.variant = "extended"
					case 2:
						o.stream = uniq(len(t) + 2)
						o.variant, o.mlen = "unrelated", -1
					}
				}
			}
			fr := &fragReader{data: o.stream, mode: modes[c.rng.Intn(len(modes))], errAt: -1}
			if c.rng.Intn(5) == 0 {
				fr.errAt = c.rng.Intn(len(o.stream) + 1)
			}
			length, eof := len(o.stream), true
			if fr.errAt >= 0 {
				length, eof = fr.errAt, false
			}
			hubBefore := hub.count(o.refStr)
			sb, rerr := blobserver.Receive(ctxb, sto, o.ref, fr)
			code := classify(rerr)
			after, fetched, enumerated := observe(sto, o.ref)
			notified := hub.count(o.refStr) > hubBefore
			idx := c.addCase(fmt.Sprintf("CRecv %s %s %d %s %s %d %d %s %s", qb(o.kind != "unknown"), optN(before), length, qb(eof), optN(o.mlen), code, sb.Size, optN(after), qb(notified)),
				map[string]any{"op": "receive", "backend": desc, "hash": o.kind, "variant": o.variant, "reader": fr.mode, "errAt": fr.errAt, "trueLen": o.trueLen, "offeredLen": len(o.stream), "presentBefore": before >= 0},
				o.variant != "exact" || fr.mode != "whole" || fr.errAt >= 0)
			c.count("variant", o.variant)
			c.count("verdict", []string{"accepted", "corrupt", "unsupported", "other-error"}[code])
			c.count("reader", fr.mode)
			c.rep.SpecChecks++
			// SPEC on the implementation
			consumed := o.stream[:length]
			matches := false
			if o.kind != "unknown" {
				_, want := refOf(o.kind, consumed)
				matches = want == o.refStr
			}
			fail := func(class, what string) {
				c.violation(idx, "c02-"+be.Kind+be.Leaf+"-"+class, fmt.Sprintf("%s: %s (hash %s, variant %s, reader %s errAt %d, before %d): %s", desc, o.refStr, o.kind, o.variant, fr.mode, fr.errAt, before, what), nil)
			}
			if rerr == nil {
				if !(matches && eof && o.kind != "unknown") {
					fail("accepted-nonmatching", fmt.Sprintf("accepted %d offered bytes that do not hash to the ref (eof=%v)", length, eof))
				} else if int(sb.Size) != length || after != length || !bytes.Equal(fetched, consumed) || !enumerated || !notified {
					fail("accepted-inconsistent", fmt.Sprintf("size %d after %d fetched %d enumerated %v notified %v", sb.Size, after, len(fetched), enumerated, notified))
				}
			} else {
				if matches && eof && o.kind != "unknown" {
					fail("rejected-valid", rerr.Error())
				}
				if notified {
					fail("rejected-but-notified", rerr.Error())
				}
				if before < 0 && (after >= 0 || fetched != nil || enumerated) {
					fail("rejected-left-trace", fmt.Sprintf("after %d fetched %v enumerated %v", after, fetched != nil, enumerated))
				}
				if before >= 0 && after != before {
					fail("rejected-altered-existing", fmt.Sprintf("stored size %d, was %d", after, before))
				}
			}
		}
	}
	// a rejected upload under the ref of a blob that was removed through a wrapper while a layer below still holds it
	// (overlay over a populated lower layer): it must stay absent - no trace of the rejected upload, and the removal stands
	for round := 0; round < c.n(3, 12); round++ {
		b := newBuilder(fmt.Sprintf("%s/ovl%d", tmp, round))
		root := &cfgNode{Kind: "overlay", HasDel: true, Detail: kvKinds[round%len(kvKinds)], Kids: []*cfgNode{{Kind: "leaf", Leaf: "memory"}, {Kind: "leaf", Leaf: "memory"}}}
		if err := b.build(root); err != nil {
			c.rep.Notes = append(c.rep.Notes, "build overlay: "+err.Error())
			break
		}
		for _, variant := range []string{"truncated", "extended", "bitflip", "unrelated"} {
			good := mkOffer(40+c.rng.Intn(200), "sha224", "exact") // lives in the lower layer
			content := good.stream
			wrong := append([]byte{}, content...) // what is offered under its ref later
			switch variant {
			case "truncated":
				wrong = wrong[:len(wrong)/2]
			case "extended":
				wrong = append(wrong, 'x')
			case "bitflip":
				wrong[len(wrong)/3] ^= 4
			default:
				wrong = mkOffer(len(content), "sha224", "exact").stream
			}
			if _, err := blobserver.Receive(ctxb, root.Kids[0].sto, good.ref, bytes.NewReader(content)); err != nil {
				continue
			}
			if err := root.sto.RemoveBlobs(ctxb, []blob.Ref{good.ref}); err != nil {
				c.rep.Notes = append(c.rep.Notes, "overlay remove: "+err.Error())
				continue
			}
			hub := &hubRec{seen: map[string]int{}}
			blobserver.GetHub(root.sto).AddReceiveHook(hub.hook)
			_, rerr := blobserver.Receive(ctxb, root.sto, good.ref, bytes.NewReader(wrong))
			after, fetched, enumerated := observe(root.sto, good.ref)
			c.rep.SpecChecks++
			c.count("rejected upload under a removed ref held below", variant)
			if rerr == nil || after >= 0 || fetched != nil || enumerated || hub.count(good.refStr) > 0 {
				c.violation(-1, "c02-overlay-rejected-upload-leaves-trace", fmt.Sprintf("overlay over a populated lower layer, blob removed through the overlay, then %s bytes offered under its ref: err=%v, afterwards stat=%d fetched=%v enumerated=%v notified=%v", variant, rerr, after, fetched != nil, enumerated, hub.count(good.refStr) > 0), nil)
			}
		}
		root.closeAll()
	}
	// sizes around MaxBlobSize, on three backends
	max := blobserver.MaxBlobSize
	for _, be := range backends {
		if !(be.Leaf == "memory" || be.Leaf == "localdisk" || be.Leaf == "diskpacked") || be.Kind != "leaf" {
			continue
		}
		hub := &hubRec{seen: map[string]int{}}
		blobserver.GetHub(be.sto).AddReceiveHook(hub.hook)
		for _, sz := range []int{max - 1, max, max + 1} {
			for _, refOfPrefix := range []bool{false, true} {
				if refOfPrefix && sz <= max {
					continue
				}
				data := uniq(sz)
				hashed := data
				mlen := sz
				if refOfPrefix {
					hashed, mlen = data[:max], max
				}
				r, rs := refOf("sha224", hashed)
				sb, rerr := blobserver.Receive(ctxb, be.sto, r, &fragReader{data: data, mode: "half", errAt: -1})
				code := classify(rerr)
				after := -1
				if st, err := statAll(be.sto, []blob.Ref{r}); err == nil && len(st) == 1 {
					after = int(st[0].Size)
				}
				notified := hub.count(rs) > 0
				idx := c.addCase(fmt.Sprintf("CRecv true None %d true %s %d %d %s %s", sz, optN(mlen), code, sb.Size, optN(after), qb(notified)),
					map[string]any{"op": "receive", "backend": be.describe(), "offeredLen": sz, "refOfFirst16MiB": refOfPrefix}, true)
				c.count("big", fmt.Sprintf("%d", sz-max))
				c.rep.SpecChecks++
				wantOK := sz <= max || refOfPrefix
				if (rerr == nil) != wantOK || (rerr == nil && int(sb.Size) > max) || (rerr != nil && after >= 0) {
					c.violation(idx, "c02-size-limit", fmt.Sprintf("%s: %d bytes (ref of first 16MiB: %v): err=%v size=%d after=%d", be.describe(), sz, refOfPrefix, rerr, sb.Size, after), nil)
				}
				be.sto.RemoveBlobs(ctxb, []blob.Ref{r})
			}
		}
	}
	// HTTP: PUT and multipart
	for _, be := range backends {
		if be.Kind == "overlay" || be.Kind == "shard" {
			continue
		}
		sto := be.sto
		hub := &hubRec{seen: map[string]int{}}
		blobserver.GetHub(sto).AddReceiveHook(hub.hook)
		mux := http.NewServeMux()
		mux.Handle("/camli/upload", handlers.CreateBatchUploadHandler(cfgSto{sto, &blobserver.Config{Writable: true, Readable: true, URLBase: "http://x"}}))
		mux.Handle("/camli/", handlers.CreatePutUploadHandler(sto))
		srv := httptest.NewServer(mux)
		// the size limit through HTTP as well: one byte below, exactly at, one byte above (on the memory leaf)
		var forced []int
		if be.Kind == "leaf" && be.Leaf == "memory" {
			forced = []int{max - 1, max, max + 1}
		}
		for i := 0; i < c.n(40, 300)+len(forced); i++ {
			o := mkOffer([]int{0, 1, 17, 300}[c.rng.Intn(4)], hashKinds[c.rng.Intn(len(hashKinds))], variants[c.rng.Intn(len(variants))])
			if i < len(forced) {
				o = mkOffer(forced[i], "sha224", "exact")
			}
			name := o.refStr
			parses := true
			if i >= len(forced) && c.rng.Intn(8) == 0 {
				name, parses = "not-a-ref", false
			}
			var body io.Reader = bytes.NewReader(o.stream)
			cl := optN(len(o.stream))
			if c.rng.Intn(3) == 0 { // chunked
				body = io.MultiReader(bytes.NewReader(o.stream))
				cl = "None"
			}
			before := -1
			if parses && o.kind != "unknown" {
				if st, err := statAll(sto, []blob.Ref{o.ref}); err == nil && len(st) == 1 {
					before = int(st[0].Size)
				}
			}
			hubBefore := hub.count(o.refStr)
			req, _ := http.NewRequest("PUT", srv.URL+"/camli/"+name, body)
			resp, err := http.DefaultClient.Do(req)
			if err != nil {
				c.rep.Notes = append(c.rep.Notes, "PUT: "+err.Error())
				continue
			}
			io.Copy(io.Discard, resp.Body)
			resp.Body.Close()
			after, fetched, enumerated := -1, []byte(nil), false
			if parses {
				after, fetched, enumerated = observe(sto, o.ref)
			}
			notified := hub.count(o.refStr) > hubBefore
			idx := c.addCase(fmt.Sprintf("CPut %s %s %s %s %d %s %d %s %s", cl, qb(parses), qb(o.kind != "unknown"), optN(before), len(o.stream), optN(o.mlen), resp.StatusCode, optN(after), qb(notified)),
				map[string]any{"op": "PUT", "backend": be.describe(), "hash": o.kind, "variant": o.variant, "name": name}, o.variant != "exact" || !parses)
			c.count("put_status", fmt.Sprint(resp.StatusCode))
			c.rep.SpecChecks++
			_, want := refOf(o.kind, o.stream)
			valid := parses && o.kind != "unknown" && want == o.refStr && len(o.stream) <= max
			if (resp.StatusCode == 204) != valid || (valid && (after != len(o.stream) || !bytes.Equal(fetched, o.stream) || !enumerated || !notified)) || (!valid && (after != before || notified)) {
				c.violation(idx, "c02-put", fmt.Sprintf("%s: PUT %s (%s %s): status %d after %d notified %v", be.describe(), name, o.kind, o.variant, resp.StatusCode, after, notified), nil)
			}
		}
		for i := 0; i < c.n(25, 200)+len(forced); i++ {
			var offers []offer
			var partsQ []string
			var buf bytes.Buffer
			mw := multipart.NewWriter(&buf)
			nparts := 1 + c.rng.Intn(4)
			if i < len(forced) {
				nparts = 1
			}
			var names []string
			for j := 0; j < nparts; j++ {
				v := variants[c.rng.Intn(len(variants))]
				if c.rng.Intn(2) == 0 {
					v = "exact"
				}
				o := mkOffer([]int{17, 30, 300}[c.rng.Intn(3)], hashKinds[c.rng.Intn(len(hashKinds))], v)
				if i < len(forced) {
					o = mkOffer(forced[i], "sha224", "exact")
				}
				name, parses := o.refStr, true
				if i >= len(forced) && c.rng.Intn(8) == 0 {
					name, parses = "camliversion", false
				}
				offers = append(offers, o)
				names = append(names, name)
				w, _ := mw.CreateFormFile(name, "blob")
				w.Write(o.stream)
				partsQ = append(partsQ, fmt.Sprintf("(%s, %s, %d, %s)", qb(parses), qb(o.kind != "unknown"), len(o.stream), optN(o.mlen)))
			}
			mw.Close()
			resp, err := http.Post(srv.URL+"/camli/upload", mw.FormDataContentType(), &buf)
			if err != nil {
				c.rep.Notes = append(c.rep.Notes, "POST: "+err.Error())
				continue
			}
			var ur struct {
				Received []struct {
					BlobRef string `json:"blobRef"`
					Size    int    `json:"size"`
				} `json:"received"`
			}
			json.NewDecoder(resp.Body).Decode(&ur)
			resp.Body.Close()
			var recQ, storedQ []string
			listed := map[string]bool{}
			for _, r := range ur.Received {
				for j, o := range offers {
					if names[j] == r.BlobRef && o.refStr == r.BlobRef {
						recQ = append(recQ, fmt.Sprintf("(%d, %d)", j+1, r.Size))
					}
				}
				listed[r.BlobRef] = true
			}
			bad := ""
			var storedIdx []int
			for j, o := range offers {
				if names[j] != o.refStr {
					continue
				}
				after, _, _ := observe(sto, o.ref)
				if after >= 0 {
					storedIdx = append(storedIdx, j)
					if !listed[o.refStr] {
						bad = fmt.Sprintf("part %d (%s) stored but not listed", j, o.refStr)
					}
				} else if listed[o.refStr] {
					bad = fmt.Sprintf("part %d (%s) listed but not stored", j, o.refStr)
				}
				_, want := refOf(o.kind, o.stream)
				if listed[o.refStr] && (o.kind == "unknown" || want != o.refStr) {
					bad = fmt.Sprintf("part %d (%s, %s) listed as received but does not match", j, o.refStr, o.variant)
				}
			}
			sort.Ints(storedIdx)
			for _, j := range storedIdx {
				storedQ = append(storedQ, fmt.Sprintf("(%d, %d)", j+1, len(offers[j].stream)))
			}
			idx := c.addCase(fmt.Sprintf("CMulti %s %s %s", qlist(partsQ), qlist(recQ), qlist(storedQ)),
				map[string]any{"op": "multipart", "backend": be.describe(), "parts": len(offers)}, true)
			c.count("multipart_parts", fmt.Sprint(nparts))
			c.rep.SpecChecks++
			if bad != "" {
				c.violation(idx, "c02-multipart", be.describe()+": "+bad, nil)
			}
		}
		srv.Close()
	}
	for _, be := range backends {
		be.closeAll()
	}
}

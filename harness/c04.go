//go:build verif

package main

import (
	"archive/zip"
	"bytes"
	"context"
	"encoding/json"
	"errors"
	"fmt"
	"io"
	"log"
	"os"
	"sort"
	"strings"
	"sync"

	"go4.org/jsonconfig"
	"perkeep.org/pkg/blob"
	"perkeep.org/pkg/blobserver"
	"perkeep.org/pkg/blobserver/blobpacked"
	"perkeep.org/pkg/constants"
	"perkeep.org/pkg/schema"
	"perkeep.org/pkg/sorted"
)

func init() { props["C04"] = runC04 }

var errC04Crash = errors.New("verif: the process is dead (write budget exhausted)")

// c04budget: the number of mutating calls on small / large / meta still allowed; when it reaches zero the "process dies":
// every later write fails without effect
type c04budget struct {
	mu     sync.Mutex
	on     bool
	left   int
	writes []string
}

func (b *c04budget) take(what string) bool {
	b.mu.Lock()
	defer b.mu.Unlock()
	if !b.on {
		return true
	}
	if b.left <= 0 {
		return false
	}
	b.left--
	b.writes = append(b.writes, what)
	return true
}

type c04store struct {
	*rawStore
	name string
	bud  *c04budget
}

func (s *c04store) ReceiveBlob(ctx context.Context, br blob.Ref, r io.Reader) (blob.SizedRef, error) {
	data, err := io.ReadAll(r)
	if err != nil {
		return blob.SizedRef{}, err
	}
	if !s.bud.take(s.name + " put") {
		return blob.SizedRef{}, errC04Crash
	}
	return s.rawStore.ReceiveBlob(ctx, br, bytes.NewReader(data))
}
func (s *c04store) RemoveBlobs(ctx context.Context, blobs []blob.Ref) error {
	if !s.bud.take(s.name + " remove") {
		return errC04Crash
	}
	return s.rawStore.RemoveBlobs(ctx, blobs)
}
func (s *c04store) SubFetch(ctx context.Context, br blob.Ref, offset, length int64) (io.ReadCloser, error) {
	if offset < 0 || length < 0 {
		return nil, blob.ErrNegativeSubFetch
	}
	rc, _, err := s.rawStore.Fetch(ctx, br)
	if err != nil {
		return nil, err
	}
	defer rc.Close()
	all, _ := io.ReadAll(rc)
	if offset > int64(len(all)) {
		return nil, blob.ErrOutOfRangeOffsetSubFetch
	}
	end := offset + length
	if end > int64(len(all)) {
		end = int64(len(all))
	}
	return io.NopCloser(bytes.NewReader(all[offset:end])), nil
}

type c04kv struct {
	sorted.KeyValue
	bud *c04budget
}

func (k *c04kv) Set(key, value string) error {
	if !k.bud.take("meta set") {
		return errC04Crash
	}
	return k.KeyValue.Set(key, value)
}
func (k *c04kv) Delete(key string) error {
	if !k.bud.take("meta delete") {
		return errC04Crash
	}
	return k.KeyValue.Delete(key)
}
func (k *c04kv) CommitBatch(b sorted.BatchMutation) error {
	if !k.bud.take("meta commit") {
		return errC04Crash
	}
	return k.KeyValue.CommitBatch(b)
}
func (k *c04kv) Close() error { return nil }
func (k *c04kv) Wipe() error {
	if w, ok := k.KeyValue.(sorted.Wiper); ok {
		return w.Wipe()
	}
	return errors.New("no wipe")
}

var (
	c04mu  sync.Mutex
	c04kvs = map[string]*c04kv{}
)

func init() {
	sorted.RegisterKeyValue("verifkv04", func(cfg jsonconfig.Obj) (sorted.KeyValue, error) {
		name := cfg.RequiredString("name")
		if err := cfg.Validate(); err != nil {
			return nil, err
		}
		c04mu.Lock()
		defer c04mu.Unlock()
		if kv := c04kvs[name]; kv != nil {
			return kv, nil
		}
		return nil, fmt.Errorf("no kv %q", name)
	})
}

type c04env struct {
	c      *ctx
	bud    *c04budget
	small  *c04store
	large  *c04store
	meta   *c04kv
	name   string
	sto    blobserver.Storage
	maxZip int
	// logical blobs
	blobs []*c03blob
	byRef map[string]*c03blob
}

func newC04env(c *ctx, tag string, maxZip int) *c04env {
	bud := &c04budget{}
	e := &c04env{c: c, bud: bud, small: &c04store{rawStore: newRawStore(), name: "small", bud: bud}, large: &c04store{rawStore: newRawStore(), name: "large", bud: bud},
		meta: &c04kv{KeyValue: sorted.NewMemoryKeyValue(), bud: bud}, name: fmt.Sprintf("c04-%d-%s", c.seed, tag), byRef: map[string]*c03blob{}, maxZip: maxZip}
	c04mu.Lock()
	c04kvs[e.name] = e.meta
	c04mu.Unlock()
	return e
}

func (e *c04env) open(mode blobpacked.RecoveryMode) error {
	blobpacked.SetRecovery(mode)
	defer blobpacked.SetRecovery(blobpacked.NoRecovery)
	ld := newLoader()
	ld.set("/small/", e.small)
	ld.set("/large/", e.large)
	s, err := blobserver.CreateStorage("blobpacked", ld, jsonconfig.Obj{"smallBlobs": "/small/", "largeBlobs": "/large/", "keepGoing": true,
		"metaIndex": map[string]any{"type": "verifkv04", "name": e.name}})
	if err != nil {
		return err
	}
	e.sto = s
	if e.maxZip > 0 {
		blobpacked.VerifSetMaxZipBlobSize(s, e.maxZip)
	}
	return nil
}

func (e *c04env) logical(content []byte) *c03blob {
	ref := blob.RefFromBytes(content)
	if b := e.byRef[ref.String()]; b != nil {
		return b
	}
	b := &c03blob{id: len(e.blobs) + 1, ref: ref, content: content}
	e.blobs = append(e.blobs, b)
	e.byRef[ref.String()] = b
	return b
}

// recorder collects the blobs schema.WriteFileFromReader produces
type c04rec struct {
	mu    sync.Mutex
	blobs [][]byte
}

func (r *c04rec) ReceiveBlob(ctx context.Context, br blob.Ref, src io.Reader) (blob.SizedRef, error) {
	data, err := io.ReadAll(src)
	if err != nil {
		return blob.SizedRef{}, err
	}
	r.mu.Lock()
	r.blobs = append(r.blobs, data)
	r.mu.Unlock()
	return blob.SizedRef{Ref: br, Size: uint32(len(data))}, nil
}
func (r *c04rec) StatBlobs(ctx context.Context, blobs []blob.Ref, fn func(blob.SizedRef) error) error {
	return nil
}

// view of the store: fetch class per logical blob, enumerate (with duplicates visible), raw contents of small, b: rows, zips
func (e *c04env) observe(what string, ops []string, human []string, mustHave map[int]bool, removed map[int]bool) {
	c := e.c
	ctxb := context.Background()
	var fs []string
	bad := ""
	for _, b := range e.blobs {
		cl := 0
		rc, size, err := e.sto.Fetch(ctxb, b.ref)
		switch {
		case err == nil:
			got, _ := io.ReadAll(rc)
			rc.Close()
			if bytes.Equal(got, b.content) && int(size) == len(b.content) {
				cl = 1
			} else {
				cl = 2
			}
		case os.IsNotExist(err):
			cl = 0
		default:
			cl = 2
		}
		fs = append(fs, fmt.Sprintf("(%d, %d)", b.id, cl))
		c.rep.SpecChecks++
		if cl == 2 {
			bad = fmt.Sprintf("blob #%d is not fetched back identically", b.id)
		}
		if mustHave[b.id] && cl != 1 {
			bad = fmt.Sprintf("acknowledged blob #%d is not fetched (class %d)", b.id, cl)
		}
		if removed[b.id] && cl != 0 {
			bad = fmt.Sprintf("removed blob #%d is still fetched", b.id)
		}
		// stat, and a range
		if cl == 1 {
			var st []blob.SizedRef
			e.sto.StatBlobs(ctxb, []blob.Ref{b.ref}, func(sb blob.SizedRef) error { st = append(st, sb); return nil })
			if len(st) != 1 || int(st[0].Size) != len(b.content) {
				bad = fmt.Sprintf("stat of blob #%d answers %v", b.id, st)
			}
			if sf, ok := e.sto.(blob.SubFetcher); ok {
				if w := rangeFetchCheck(sf, b.ref, b.content); w != "" {
					bad = fmt.Sprintf("blob #%d: %s", b.id, w)
				}
			}
		}
	}
	var enum []string
	seen := map[int]int{}
	err := blobserver.EnumerateAll(ctxb, e.sto, func(sb blob.SizedRef) error {
		if b := e.byRef[sb.Ref.String()]; b != nil {
			enum = append(enum, fmt.Sprint(b.id))
			seen[b.id]++
			if int(sb.Size) != len(b.content) {
				bad = fmt.Sprintf("enumerate gives blob #%d the size %d", b.id, sb.Size)
			}
		} else {
			bad = "enumerate lists a ref that is no logical blob: " + sb.Ref.String()
		}
		return nil
	})
	if err != nil {
		bad = "enumerate failed: " + err.Error()
	}
	for id, n := range seen {
		if n > 1 {
			bad = fmt.Sprintf("blob #%d is enumerated %d times", id, n)
		}
		if removed[id] {
			bad = fmt.Sprintf("removed blob #%d is still enumerated", id)
		}
	}
	for id := range mustHave {
		if seen[id] == 0 {
			bad = fmt.Sprintf("acknowledged blob #%d is not enumerated", id)
		}
	}
	// paging: from every listed ref (packed or loose) as the cursor, pages of 1, 2 and 3 continue the full listing exactly
	if bad == "" && err == nil {
		var full []blob.SizedRef
		blobserver.EnumerateAll(ctxb, e.sto, func(sb blob.SizedRef) error { full = append(full, sb); return nil })
		for i := -1; i < len(full) && bad == ""; i++ {
			cursor := ""
			if i >= 0 {
				cursor = full[i].Ref.String()
			}
			for limit := 1; limit <= 3 && bad == ""; limit++ {
				got, err := enumAll(e.sto, cursor, limit)
				want := full[i+1:]
				if len(want) > limit {
					want = want[:limit]
				}
				ok := err == nil && len(got) == len(want)
				for k := 0; ok && k < len(got); k++ {
					ok = got[k] == want[k]
				}
				if !ok {
					bad = fmt.Sprintf("enumerate after %q limit %d gives %d blobs (err %v) that are not the next %d of the full listing", cursor, limit, len(got), err, len(want))
				}
			}
		}
	}
	// raw state below
	var smallIDs, rowIDs []string
	e.small.mu.Lock()
	for k := range e.small.m {
		if b := e.byRef[k]; b != nil {
			smallIDs = append(smallIDs, fmt.Sprint(b.id))
		}
	}
	e.small.mu.Unlock()
	nzips := 0
	e.large.mu.Lock()
	nzips = len(e.large.m)
	e.large.mu.Unlock()
	it := e.meta.KeyValue.Find("b:", "b;")
	for it.Next() {
		if b := e.byRef[strings.TrimPrefix(it.Key(), "b:")]; b != nil {
			rowIDs = append(rowIDs, fmt.Sprint(b.id))
		}
	}
	it.Close()
	sort.Strings(smallIDs)
	idx := c.addCase(fmt.Sprintf("CRun [%s] [%s] [%s] %d%%nat [%s] [%s]", strings.Join(ops, "; "), strings.Join(smallIDs, "; "), strings.Join(rowIDs, "; "), nzips, strings.Join(fs, "; "), strings.Join(enum, "; ")),
		map[string]any{"state": what, "history": human}, strings.Contains(what, "crash") || strings.Contains(what, "recovery") || strings.Contains(what, "removal"))
	c.count("states", strings.SplitN(what, ":", 2)[0])
	if bad != "" {
		class := "c04-view-changed"
		if strings.Contains(what, "recovery") && strings.Contains(bad, "removed") {
			class = "c04-recovery-resurrects-removed-blob"
		} else if strings.Contains(bad, "removed blob") {
			class = "c04-removed-blob-still-visible"
		}
		c.violation(idx, class, what+": "+bad, human)
	}
}

// zipsOf reads the zips in the large store: which logical blobs each holds; checks each zip's shape
func (e *c04env) zipsOf(wholeContent []byte) (zs [][]int, bad string) {
	type zinfo struct {
		part int
		ids  []int
	}
	var infos []zinfo
	e.large.mu.Lock()
	defer e.large.mu.Unlock()
	var offset int
	_ = offset
	for name, data := range e.large.m {
		if len(data) > constants.MaxBlobSize || (e.maxZip > 0 && len(data) > e.maxZip) {
			bad = fmt.Sprintf("zip %s is %d bytes: over the limit", name, len(data))
		}
		if blob.RefFromBytes(data).String() != name {
			bad = "a zip is stored under a name that is not its hash"
		}
		zr, err := zip.NewReader(bytes.NewReader(data), int64(len(data)))
		if err != nil {
			bad = "a stored zip does not open: " + err.Error()
			continue
		}
		var mf blobpacked.Manifest
		for _, f := range zr.File {
			if f.Name == "camlistore/camlistore-pack-manifest.json" {
				rc, _ := f.Open()
				json.NewDecoder(rc).Decode(&mf)
				rc.Close()
			}
		}
		var ids []int
		var first []byte
		if len(zr.File) > 0 {
			rc, _ := zr.File[0].Open()
			first, _ = io.ReadAll(rc)
			rc.Close()
		}
		var concat []byte
		for _, db := range mf.DataBlobs {
			if b := e.byRef[db.Ref.String()]; b != nil {
				ids = append(ids, b.id)
				concat = append(concat, b.content...)
			}
		}
		if !bytes.Equal(first, concat) {
			bad = "the first entry of a zip is not the concatenation of its data blobs"
		}
		if !bytes.Contains(wholeContent, first) {
			bad = "the first entry of a zip is not a contiguous part of the file"
		}
		for _, f := range zr.File {
			if strings.HasPrefix(f.Name, "camlistore/sha") && strings.HasSuffix(f.Name, ".json") {
				ref := strings.TrimSuffix(strings.TrimPrefix(f.Name, "camlistore/"), ".json")
				if b := e.byRef[ref]; b != nil {
					ids = append(ids, b.id)
				}
			}
		}
		infos = append(infos, zinfo{mf.WholePartIndex, ids})
	}
	sort.Slice(infos, func(i, j int) bool { return infos[i].part < infos[j].part })
	for _, in := range infos {
		zs = append(zs, in.ids)
	}
	return
}

// zipsOfNew: the zips that are not in [before], by part index
func (e *c04env) zipsOfNew(before map[string]bool) (zs [][]int, bad string) {
	type zinfo struct {
		part int
		ids  []int
	}
	var infos []zinfo
	e.large.mu.Lock()
	defer e.large.mu.Unlock()
	for name, data := range e.large.m {
		if before[name] {
			continue
		}
		zr, err := zip.NewReader(bytes.NewReader(data), int64(len(data)))
		if err != nil {
			continue
		}
		var mf blobpacked.Manifest
		var ids []int
		for _, f := range zr.File {
			if f.Name == "camlistore/camlistore-pack-manifest.json" {
				rc, _ := f.Open()
				json.NewDecoder(rc).Decode(&mf)
				rc.Close()
			}
			if strings.HasPrefix(f.Name, "camlistore/sha") && strings.HasSuffix(f.Name, ".json") {
				ref := strings.TrimSuffix(strings.TrimPrefix(f.Name, "camlistore/"), ".json")
				if b := e.byRef[ref]; b != nil {
					ids = append(ids, b.id)
				}
			}
		}
		var data2 []int
		for _, db := range mf.DataBlobs {
			if b := e.byRef[db.Ref.String()]; b != nil {
				data2 = append(data2, b.id)
			}
		}
		infos = append(infos, zinfo{mf.WholePartIndex, append(data2, ids...)})
	}
	sort.Slice(infos, func(i, j int) bool { return infos[i].part < infos[j].part })
	for _, in := range infos {
		zs = append(zs, in.ids)
	}
	return
}

func c04zsCoqFrom(zs [][]int, base int) string {
	var parts []string
	for i, ids := range zs {
		var s []string
		for _, id := range ids {
			s = append(s, fmt.Sprint(id))
		}
		parts = append(parts, fmt.Sprintf("(%d, [%s])", base+i, strings.Join(s, "; ")))
	}
	return "[" + strings.Join(parts, "; ") + "]"
}

func c04zsCoq(zs [][]int) string {
	var parts []string
	for i, ids := range zs {
		var s []string
		for _, id := range ids {
			s = append(s, fmt.Sprint(id))
		}
		parts = append(parts, fmt.Sprintf("(%d, [%s])", 1000+i, strings.Join(s, "; ")))
	}
	return "[" + strings.Join(parts, "; ") + "]"
}

func runC04(c *ctx) {
	c.rep.Rule = "files of 520-900 KiB (random bytes, a file with a repeated 64 KiB block = repeated chunks, the same content under a second name) chunked by schema.WriteFileFromReader; chunks and schema blobs uploaded in a random order, the file schema blob last (its receive triggers the pack); maximum zip size forced to 400-600 KiB (verif hook) so that packs have 2-5 zips, or left at 16 MiB (one zip); " +
		"a first run learns the zips (manifests read with archive/zip; size limit, first entry = contiguous content, name = hash checked), then for EVERY k the same upload is repeated with the process dying after the k-th write (zip stored / meta batch / loose removal per zip, final w: row): restart (no recovery), view; fast recovery, view; full recovery, view; then a removal of a packed blob and a further recovery; at the last two crash points the same content is uploaded under a second name after the restart, before the recovery; whole-file reads (OpenWholeRef) are compared before and after each recovery; " +
		"view = fetch, range fetch, stat, enumerate (each blob once) of every logical blob + the raw contents of the loose store, the b: rows and the number of zips; non-trivial = distinct state after a crash, a recovery or a removal"
	old := log.Writer()
	log.SetOutput(io.Discard)
	defer log.SetOutput(old)
	nfiles := c.n(8, 30)
	for fi := 0; fi < nfiles; fi++ {
		size := 520*1024 + c.rng.Intn(380*1024)
		content := make([]byte, size)
		c.rng.Read(content)
		if fi%3 == 1 {
			block := content[:64*1024]
			for off := 0; off+len(block) <= len(content); off += 3 * len(block) {
				copy(content[off:], block) // repeated chunks
			}
		}
		maxZip := 400*1024 + c.rng.Intn(200*1024) // must exceed the 256 KiB first chunk plus overhead: the packer does not terminate otherwise (unreachable with the real 16 MiB limit)
		if fi%4 == 3 {
			maxZip = 0
		}
		// the blobs of the file
		rec := &c04rec{}
		fileRef, err := schema.WriteFileFromReader(context.Background(), rec, fmt.Sprintf("file-%d.bin", fi), bytes.NewReader(content))
		must(err)
		var fileBlob []byte
		var others [][]byte
		for _, b := range rec.blobs {
			if blob.RefFromBytes(b) == fileRef {
				fileBlob = b
			} else {
				others = append(others, b)
			}
		}
		c.rng.Shuffle(len(others), func(i, j int) { others[i], others[j] = others[j], others[i] })
		wholeID := 5000 + fi

		run := func(budget int, tag string) (*c04env, []string, []string, map[int]bool) {
			e := newC04env(c, fmt.Sprintf("%d-%s", fi, tag), maxZip)
			must(e.open(blobpacked.NoRecovery))
			var ops, human []string
			acked := map[int]bool{}
			for _, b := range others {
				lb := e.logical(b)
				_, err := blobserver.Receive(context.Background(), e.sto, lb.ref, bytes.NewReader(b))
				must(err)
				if !acked[lb.id] {
					ops = append(ops, fmt.Sprintf("OReceive %d", lb.id))
				}
				acked[lb.id] = true
			}
			human = append(human, fmt.Sprintf("%d chunk and schema blobs of a %d-byte file received", len(others), size))
			fb := e.logical(fileBlob)
			e.bud.mu.Lock()
			e.bud.on, e.bud.left = budget >= 0, 1+budget
			e.bud.mu.Unlock()
			_, err := blobserver.Receive(context.Background(), e.sto, fb.ref, bytes.NewReader(fileBlob))
			if err == nil {
				acked[fb.id] = true
			}
			ops = append(ops, fmt.Sprintf("OReceive %d", fb.id))
			human = append(human, "file schema blob received: the pack starts")
			return e, ops, human, acked
		}
		// ---- run 0: no crash; learn the zips ----
		e0, ops0, human0, acked0 := run(-1, "full")
		zs, zbad := e0.zipsOf(content)
		c.rep.SpecChecks++
		if zbad != "" {
			c.violation(len(c.casesBuf), "c04-bad-zip", zbad, human0)
		}
		nwrites := 3*len(zs) + 1
		c.count("zips per pack", fmt.Sprint(len(zs)))
		opsFull := append(append([]string{}, ops0...), fmt.Sprintf("OPack %d %s %d%%nat", wholeID, c04zsCoq(zs), nwrites))
		e0.observe("packed", opsFull, append(human0, fmt.Sprintf("pack complete: %d zips", len(zs))), acked0, nil)
		if len(zs) == 0 {
			continue
		}
		// whole-file read through the packed store
		if wf, ok := e0.sto.(interface {
			OpenWholeRef(wholeRef blob.Ref, offset int64) (rc io.ReadCloser, wholeSize int64, err error)
		}); ok {
			// from the start, from points inside every later zip of the pack, from the last byte and from the very end
			for _, off := range []int64{0, int64(size / 4), int64(size / 2), int64(3 * size / 4), int64(size - 1), int64(size), int64(c.rng.Intn(size))} {
				rc, wsize, err := wf.OpenWholeRef(blob.RefFromBytes(content), off)
				c.rep.SpecChecks++
				if err != nil {
					c.violation(len(c.casesBuf)-1, "c04-whole-read", fmt.Sprintf("OpenWholeRef at %d: %v", off, err), nil)
					break
				}
				got, rerr := io.ReadAll(rc)
				rc.Close()
				if rerr != nil || wsize != int64(size) || !bytes.Equal(got, content[off:]) {
					c.violation(len(c.casesBuf)-1, "c04-whole-read", fmt.Sprintf("OpenWholeRef at %d of a %d-byte file in %d zips returns %d bytes (read error: %v), or other bytes", off, size, len(zs), len(got), rerr), nil)
					break
				}
			}
		}
		// ---- every crash point ----
		ks := []int{}
		for k := 0; k <= nwrites; k++ {
			if !c.quick() || k <= 4 || k >= nwrites-2 || c.rng.Intn(3) == 0 {
				ks = append(ks, k)
			}
		}
		for _, k := range ks {
			e, ops, human, acked := run(k, fmt.Sprintf("k%d", k))
			ops = append(ops, fmt.Sprintf("OPack %d %s %d%%nat", wholeID, c04zsCoq(zs), k))
			human = append(human, fmt.Sprintf("the process dies after %d of the pack's %d writes (%s)", k, nwrites, strings.Join(e.bud.writes, ", ")))
			e.bud.mu.Lock()
			e.bud.on = false
			e.bud.mu.Unlock()
			// the file schema blob's own receive is write 0: it is acknowledged whenever it was stored
			must(e.open(blobpacked.NoRecovery))
			e.observe("crash, restart", ops, human, acked, nil)
			// a removal of a packed-or-loose data blob in this state
			victim := e.logical(others[c.rng.Intn(len(others))])
			must(e.sto.RemoveBlobs(context.Background(), []blob.Ref{victim.ref}))
			opsR := append(append([]string{}, ops...), fmt.Sprintf("ORemove %d", victim.id))
			humanR := append(append([]string{}, human...), fmt.Sprintf("restart; remove #%d", victim.id))
			ackedR := map[int]bool{}
			for id := range acked {
				if id != victim.id {
					ackedR[id] = true
				}
			}
			e.observe("crash, restart, removal", opsR, humanR, ackedR, map[int]bool{victim.id: true})
			// recoveries on a fresh copy of the crashed state (without the removal)
			e2, ops2, human2, acked2 := run(k, fmt.Sprintf("k%dr", k))
			ops2 = append(ops2, fmt.Sprintf("OPack %d %s %d%%nat", wholeID, c04zsCoq(zs), k))
			human2 = append(human2, fmt.Sprintf("the process dies after %d of the pack's %d writes", k, nwrites))
			e2.bud.mu.Lock()
			e2.bud.on = false
			e2.bud.mu.Unlock()
			mode, mname, flag := blobpacked.FastRecovery, "fast", "false"
			if c.rng.Intn(2) == 0 {
				mode, mname, flag = blobpacked.FullRecovery, "full", "true"
			}
			// the same content under a second name, uploaded after the restart (its chunks are already there)
			if k >= nwrites-1 && len(zs) > 0 {
				must(e2.open(blobpacked.NoRecovery))
				rec2 := &c04rec{}
				fileRef2, err := schema.WriteFileFromReader(context.Background(), rec2, fmt.Sprintf("other-name-%d.bin", fi), bytes.NewReader(content))
				must(err)
				var fb2 []byte
				for _, b := range rec2.blobs {
					if blob.RefFromBytes(b) == fileRef2 {
						fb2 = b
					}
				}
				lb := e2.logical(fb2)
				before := map[string]bool{}
				e2.large.mu.Lock()
				for name := range e2.large.m {
					before[name] = true
				}
				e2.large.mu.Unlock()
				_, err = blobserver.Receive(context.Background(), e2.sto, lb.ref, bytes.NewReader(fb2))
				must(err)
				acked2[lb.id] = true
				zs2, _ := e2.zipsOf(content)
				// the zips that are new
				var newZs [][]int
				if len(zs2) > len(zs) {
					all, _ := e2.zipsOfNew(before)
					newZs = all
				}
				ops2 = append(ops2, fmt.Sprintf("OReceive %d", lb.id))
				if len(newZs) > 0 {
					ops2 = append(ops2, fmt.Sprintf("OPack %d %s %d%%nat", wholeID, c04zsCoqFrom(newZs, 2000), 3*len(newZs)+1))
				}
				human2 = append(human2, fmt.Sprintf("restart; the same content is uploaded under a second name (%d new zips)", len(newZs)))
				c.count("states", "second name after a crash")
			}
			wholeBefore := 0
			if e2.sto != nil {
				wholeBefore = e2.wholeRead(content, int64(c.rng.Intn(size)))
			}
			if err := e2.open(mode); err != nil {
				c.violation(len(c.casesBuf), "c04-recovery-failed", fmt.Sprintf("%s recovery after a crash at write %d fails: %v", mname, k, err), human2)
				continue
			}
			ops2 = append(ops2, "OReindex "+flag)
			human2 = append(human2, mname+" recovery")
			e2.observe("crash, "+mname+" recovery", ops2, human2, acked2, nil)
			c.rep.SpecChecks++
			if wholeAfter := e2.wholeRead(content, int64(c.rng.Intn(size))); wholeAfter == 2 || (wholeBefore == 1 && wholeAfter != 1) || (k == nwrites && wholeAfter != 1) {
				c.violation(len(c.casesBuf)-1, "c04-whole-read", fmt.Sprintf("whole-file read through OpenWholeRef: class %d before the %s recovery, %d after it (1 = right bytes)", wholeBefore, mname, wholeAfter), human2)
			}
			// removal of a packed blob, then another recovery: removals are forgotten (known finding D9)
			if k == nwrites && c.rng.Intn(2) == 0 {
				must(e2.sto.RemoveBlobs(context.Background(), []blob.Ref{victim2(e2, others).ref}))
				v := victim2(e2, others)
				ops3 := append(append([]string{}, ops2...), fmt.Sprintf("ORemove %d", v.id), "OReindex "+flag)
				human3 := append(append([]string{}, human2...), fmt.Sprintf("remove #%d; %s recovery", v.id, mname))
				if err := e2.open(mode); err == nil {
					acked3 := map[int]bool{}
					for id := range acked2 {
						if id != v.id {
							acked3[id] = true
						}
					}
					e2.observe("removal, "+mname+" recovery", ops3, human3, acked3, map[int]bool{v.id: true})
				}
			}
		}
	}
}

func victim2(e *c04env, others [][]byte) *c03blob { return e.logical(others[0]) }

// wholeRead: 0 = the whole file is not readable through OpenWholeRef, 1 = readable with the right bytes, 2 = wrong bytes
func (e *c04env) wholeRead(content []byte, off int64) int {
	wf, ok := e.sto.(interface {
		OpenWholeRef(wholeRef blob.Ref, offset int64) (rc io.ReadCloser, wholeSize int64, err error)
	})
	if !ok {
		return 0
	}
	rc, wsize, err := wf.OpenWholeRef(blob.RefFromBytes(content), off)
	if err != nil {
		return 0
	}
	defer rc.Close()
	got, err := io.ReadAll(rc)
	if err != nil || wsize != int64(len(content)) || !bytes.Equal(got, content[off:]) {
		return 2
	}
	return 1
}

//go:build verif

package main

import (
	"context"
	"encoding/json"
	"fmt"
	"io"
	"net/http"
	"net/http/httptest"
	"os"
	"path/filepath"
	"sort"
	"strings"
	"time"

	"go4.org/jsonconfig"
	"perkeep.org/pkg/auth"
	"perkeep.org/pkg/blob"
	"perkeep.org/pkg/blobserver"
	"perkeep.org/pkg/blobserver/memory"
	"perkeep.org/pkg/index"
	"perkeep.org/pkg/schema"
	"perkeep.org/pkg/server"
	"perkeep.org/pkg/serverinit"
	"perkeep.org/pkg/sorted"
	"perkeep.org/pkg/test"
)

func init() { props["C17"] = runC17 }

// the harness' facts about a blob of a share world
type c17blob struct {
	id      int
	ref     blob.Ref
	content string
	kind    string // share | file | bytes | directory | static-set | opaque | mention | claim
	// share
	target              int
	transitive, expired bool
	// genuine links per schema field
	parts, dir, members, merge []int
}

type c17world struct {
	blobs   []*c17blob
	byRef   map[blob.Ref]*c17blob
	deleted map[int]bool
	sto     *memory.Storage
	ix      *index.Index
	h       http.Handler
	absent  []blob.Ref // refs of blobs that are in no store
}

func (cw *c17world) add(w *world, b *test.Blob, kind string) *c17blob {
	if x := cw.byRef[b.BlobRef()]; x != nil {
		return x
	}
	x := &c17blob{id: len(cw.blobs) + 1, ref: b.BlobRef(), content: b.Contents, kind: kind}
	cw.blobs = append(cw.blobs, x)
	cw.byRef[x.ref] = x
	_, err := blobserver.Receive(context.Background(), cw.sto, x.ref, strings.NewReader(x.content))
	must(err)
	if kind == "share" || kind == "claim" {
		_, err := cw.ix.ReceiveBlob(context.Background(), x.ref, strings.NewReader(x.content))
		must(err)
	}
	return x
}

func buildC17World(c *ctx, w *world) *c17world {
	cw := &c17world{byRef: map[blob.Ref]*c17blob{}, deleted: map[int]bool{}, sto: &memory.Storage{}}
	ix, err := index.New(sorted.NewMemoryKeyValue())
	must(err)
	src := new(test.Fetcher)
	for _, s := range w.signers {
		src.AddBlob(s.pub)
	}
	ix.KeyFetcher = w.pubs
	ix.InitBlobSource(src)
	cw.ix = ix
	base := time.Unix(1400000000, 0).UTC()
	tick := 0
	now := func() time.Time { tick++; return base.Add(time.Duration(tick) * time.Second) }
	raw := func(s, kind string) *c17blob { return cw.add(w, &test.Blob{Contents: s}, kind) }
	ids := func(bs ...*c17blob) []int {
		var r []int
		for _, b := range bs {
			r = append(r, b.id)
		}
		return r
	}
	// chunks, a bytes sub-tree, files
	ch := []*c17blob{raw("chunk one", "opaque"), raw("chunk two", "opaque"), raw("chunk three", "opaque"), raw("", "opaque")}
	bj := fmt.Sprintf(`{"camliVersion": 1, "camliType": "bytes", "parts": [{"blobRef": %q, "size": 9}, {"blobRef": %q, "size": 11}]}`, ch[1].ref, ch[2].ref)
	by := raw(bj, "bytes")
	by.parts = ids(ch[1], ch[2])
	fm := schema.NewFileMap("a.txt")
	fm.PopulateParts(29, []schema.BytesPart{{Size: 9, BlobRef: ch[0].ref}, {Size: 20, BytesRef: by.ref}})
	fj, _ := fm.JSON()
	f1 := raw(fj, "file")
	f1.parts = ids(ch[0], by)
	fm2 := schema.NewFileMap("empty.txt")
	fm2.PopulateParts(0, []schema.BytesPart{{Size: 0, BlobRef: ch[3].ref}})
	fj2, _ := fm2.JSON()
	f2 := raw(fj2, "file")
	f2.parts = ids(ch[3])
	// a small directory: directory -> static-set with members
	ss := schema.NewStaticSet()
	ss.SetStaticSetMembers([]blob.Ref{f1.ref, f2.ref})
	set1 := raw(ss.Blob().JSON(), "static-set")
	set1.members = ids(f1, f2)
	dm := schema.NewDirMap("small").PopulateDirectoryMap(set1.ref)
	dj, _ := dm.JSON()
	d1 := raw(dj, "directory")
	d1.dir = ids(set1)
	// a large directory: the static-set spreads its members over sub-sets (mergeSets)
	oldMax := schema.VerifSetMaxStaticSetMembers(3)
	var many []blob.Ref
	var manyFiles []*c17blob
	for i := 0; i < 7; i++ {
		x := raw(fmt.Sprintf("member chunk %d", i), "opaque")
		m := schema.NewFileMap(fmt.Sprintf("m%d.txt", i))
		m.PopulateParts(int64(len(x.content)), []schema.BytesPart{{Size: uint64(len(x.content)), BlobRef: x.ref}})
		mj, _ := m.JSON()
		mf := raw(mj, "file")
		mf.parts = ids(x)
		many = append(many, mf.ref)
		manyFiles = append(manyFiles, mf)
	}
	big := schema.NewStaticSet()
	subsets := big.SetStaticSetMembers(many)
	schema.VerifSetMaxStaticSetMembers(oldMax)
	var subBlobs []*c17blob
	for _, s := range subsets {
		subBlobs = append(subBlobs, raw(s.JSON(), "static-set"))
	}
	top := raw(big.Blob().JSON(), "static-set")
	// record members / mergeSets of every static-set blob from its JSON (the harness wrote them: these are its facts)
	for _, sb := range append(subBlobs, top) {
		var m struct {
			Members   []string `json:"members"`
			MergeSets []string `json:"mergeSets"`
		}
		json.Unmarshal([]byte(sb.content), &m)
		for _, r := range m.Members {
			sb.members = append(sb.members, cw.byRef[blob.MustParse(r)].id)
		}
		for _, r := range m.MergeSets {
			sb.merge = append(sb.merge, cw.byRef[blob.MustParse(r)].id)
		}
	}
	dmb := schema.NewDirMap("big").PopulateDirectoryMap(top.ref)
	dbj, _ := dmb.JSON()
	d2 := raw(dbj, "directory")
	d2.dir = ids(top)
	// blobs that merely mention a ref
	raw("see "+f1.ref.String()+" and "+ch[0].ref.String(), "mention")
	mentionFile := schema.NewFileMap(ch[1].ref.String()) // the ref is the file's name, not a part
	mentionFile.PopulateParts(9, []schema.BytesPart{{Size: 9, BlobRef: ch[0].ref}})
	mfj, _ := mentionFile.JSON()
	mf := raw(mfj, "file")
	mf.parts = ids(ch[0])
	pn := w.permanode(0)
	cw.add(w, pn, "claim")
	mc := cw.add(w, w.claim(0, schema.NewSetAttributeClaim(pn.BlobRef(), "camliContent", f1.ref.String()), now()), "claim")
	_ = mc
	// share claims
	share := func(target *c17blob, transitive bool, expires time.Time) *c17blob {
		bb := schema.NewShareRef(schema.ShareHaveRef, transitive)
		if target != nil {
			bb.SetShareTarget(target.ref)
		}
		bb.SetShareExpiration(expires)
		s := cw.add(w, w.claim(c.rng.Intn(2), bb, now()), "share")
		if target != nil {
			s.target = target.id
		}
		s.transitive = transitive
		s.expired = !expires.IsZero() && time.Now().After(expires)
		return s
	}
	never := time.Time{}
	targets := []*c17blob{f1, d1, d2, top, by, ch[0], mf}
	var shares []*c17blob
	for _, t := range targets {
		if c.rng.Intn(3) != 0 {
			shares = append(shares, share(t, true, never))
		}
		if c.rng.Intn(3) == 0 {
			shares = append(shares, share(t, false, never))
		}
	}
	shares = append(shares, share(d2, true, never), share(f1, false, never))
	shares = append(shares, share(f1, true, time.Now().Add(-time.Hour)))   // expired
	shares = append(shares, share(d1, true, time.Now().Add(24*time.Hour))) // not yet expired
	// a share of a share, and a share whose target is in no store
	shares = append(shares, share(shares[0], true, never))
	ghost := &c17blob{ref: blob.RefFromString("not stored anywhere")}
	cw.absent = append(cw.absent, ghost.ref)
	{
		bb := schema.NewShareRef(schema.ShareHaveRef, true)
		bb.SetShareTarget(ghost.ref)
		s := cw.add(w, w.claim(0, bb, now()), "share")
		s.target = -1 // fixed up below: the id that stands for "in no store" is len(blobs)+1
		s.transitive = true
	}
	// deletions: deleted, and deleted then undeleted again
	del := func(t *c17blob) *c17blob {
		return cw.add(w, w.claim(0, schema.NewDeleteClaim(t.ref), now()), "claim")
	}
	if len(shares) > 3 {
		del(shares[1])
		cw.deleted[shares[1].id] = true
		d := del(shares[2])
		del(d) // the deletion is itself deleted: shares[2] is live again
	}
	if len(shares) > 5 {
		// deleted twice, then only the later deletion is revoked: the older one is still in force
		del(shares[4])
		d2 := del(shares[4])
		del(d2)
		cw.deleted[shares[4].id] = true
		// and the other way round: the older deletion revoked, the newer in force
		d1 := del(shares[5])
		del(shares[5])
		del(d1)
		cw.deleted[shares[5].id] = true
	}
	for _, b := range cw.blobs {
		if b.kind == "share" && b.target == -1 {
			b.target = len(cw.blobs) + 1
		}
	}
	cw.ix.VerifAwaitReindex()
	ld := newLoader()
	ld.set("/bs/", cw.sto)
	ld.setHandler("/index/", "storage-index", cw.ix)
	h, err := blobserver.CreateHandler("share", ld, jsonconfig.Obj{"blobRoot": "/bs/", "index": "/index/"})
	must(err)
	cw.h = h
	return cw
}

func (cw *c17world) coq() (string, string) {
	var es []string
	for _, b := range cw.blobs {
		l := func(xs []int) string {
			var s []string
			for _, x := range xs {
				s = append(s, fmt.Sprint(x))
			}
			return "[" + strings.Join(s, "; ") + "]"
		}
		n := "NOther"
		switch b.kind {
		case "share":
			n = fmt.Sprintf("NShare %d %s %s", b.target, qb(b.transitive), qb(b.expired))
		case "file", "bytes", "directory", "static-set":
			n = fmt.Sprintf("NSchema %s %s %s %s", l(b.parts), l(b.dir), l(b.members), l(b.merge))
		}
		es = append(es, fmt.Sprintf("(%d, %s)", b.id, n))
	}
	var ds []string
	for id := range cw.deleted {
		ds = append(ds, fmt.Sprint(id))
	}
	sort.Strings(ds)
	return "[" + strings.Join(es, ";\n   ") + "]", "[" + strings.Join(ds, "; ") + "]"
}

// the statement, on the harness' own facts
func (cw *c17world) validChain(chain []int) bool {
	get := func(id int) *c17blob {
		if id >= 1 && id <= len(cw.blobs) {
			return cw.blobs[id-1]
		}
		return nil
	}
	s := get(chain[0])
	if s == nil || s.kind != "share" || s.expired || cw.deleted[s.id] {
		return false
	}
	if len(chain) == 1 {
		return true
	}
	if chain[1] != s.target || s.target == 0 {
		return false
	}
	if len(chain) > 2 && !s.transitive {
		return false
	}
	for i := 1; i+1 < len(chain); i++ {
		b := get(chain[i])
		if b == nil {
			return false
		}
		ok := false
		for _, l := range [][]int{b.parts, b.dir, b.members, b.merge} {
			for _, x := range l {
				if x == chain[i+1] {
					ok = true
				}
			}
		}
		if !ok {
			return false
		}
	}
	return true
}

func (cw *c17world) request(method string, chain []int) (int, string) {
	refOf := func(id int) string {
		if id >= 1 && id <= len(cw.blobs) {
			return cw.blobs[id-1].ref.String()
		}
		return cw.absent[0].String()
	}
	last := chain[len(chain)-1]
	url := "http://verif.invalid/" + refOf(last)
	if len(chain) > 1 {
		var via []string
		for _, id := range chain[:len(chain)-1] {
			via = append(via, refOf(id))
		}
		url += "?via=" + strings.Join(via, ",")
	}
	req := httptest.NewRequest(method, url, nil)
	rec := httptest.NewRecorder()
	cw.h.ServeHTTP(rec, req)
	body, _ := io.ReadAll(rec.Result().Body)
	return rec.Code, string(body)
}

func runC17(c *ctx) {
	c.rep.Rule = "share worlds: files with chunk and bytes parts, a small directory (static-set members), a large directory whose static-set spreads its members over mergeSets, blobs that only mention refs (text, a file named like a ref, a camliContent claim), share claims transitive or not, expired, not yet expired, deleted, deleted-then-undeleted, deleted twice with one of the two deletions revoked, share of a share, share of an absent blob; " +
		"ALL request chains of length 1-3 over the world's blobs that start at a share or are short, plus every valid chain up to length 6 and one-blob corruptions of it, with GET and the other methods; then an in-process server from serverinit (root, storage, index, search, jsonsign, status, help, sync, share) under userpass and token auth: every prefix and camli/ endpoint, with and without credentials; non-trivial = distinct chain that starts at a live share"
	restore := server.VerifDisableShareDelay()
	defer restore()
	w, err := newWorld()
	must(err)
	for wi := 0; wi < c.n(2, 8); wi++ {
		cw := buildC17World(c, w)
		wname := fmt.Sprintf("w%d", wi)
		stq, delq := cw.coq()
		c.preamble = append(c.preamble, fmt.Sprintf("Definition %s : store :=\n  %s.\nDefinition %s_deleted : list N := %s.", wname, stq, wname, delq))
		n := len(cw.blobs)
		var shares []int
		for _, b := range cw.blobs {
			if b.kind == "share" {
				shares = append(shares, b.id)
			}
		}
		seen := map[string]bool{}
		try := func(method string, chain []int, toModel bool) {
			key := method + fmt.Sprint(chain)
			if seen[key] {
				return
			}
			seen[key] = true
			code, body := cw.request(method, chain)
			last := chain[len(chain)-1]
			class := 0
			switch {
			case code == 200:
				class = 1
			case code == 404:
				class = 2
			case code == 400:
				class = 3
			case code == 401:
				class = 4
			}
			isGet := method == "GET" || method == "HEAD" // httputil.IsGet: HEAD is a GET without the body
			valid := isGet && cw.validChain(chain)
			exists := last >= 1 && last <= n
			c.rep.SpecChecks++
			c.count("chain length", fmt.Sprint(len(chain)))
			c.count("answer", fmt.Sprint(code))
			idx := -1
			if toModel {
				var cs []string
				for _, id := range chain {
					cs = append(cs, fmt.Sprint(id))
				}
				live := cw.blobs[minInt(chain[0], n)-1].kind == "share" && chain[0] <= n && !cw.deleted[chain[0]] && !cw.blobs[chain[0]-1].expired
				idx = c.addCase(fmt.Sprintf("CServe %s %s_deleted %s [%s] %d", wname, wname, qb(isGet), strings.Join(cs, "; "), class),
					map[string]any{"world": wname, "method": method, "chain": cw.describe(chain)}, live)
			}
			switch {
			case code == 200 && !valid:
				c.violation(idx, "c17-served-without-valid-chain", fmt.Sprintf("%s %s %v: served although the chain is not a valid share chain", wname, method, cw.describe(chain)), nil)
			case code == 200 && method == "GET" && body != cw.blobs[last-1].content:
				c.violation(idx, "c17-served-other-bytes", fmt.Sprintf("%s %s %v: body is not the requested blob", wname, method, cw.describe(chain)), nil)
			case valid && exists && code != 200:
				c.violation(idx, "c17-valid-chain-refused", fmt.Sprintf("%s %s %v: a valid share chain to an existing blob was answered %d", wname, method, cw.describe(chain), code), nil)
			case class == 0:
				c.violation(idx, "c17-unexpected-status", fmt.Sprintf("%s %s %v: HTTP %d", wname, method, cw.describe(chain), code), nil)
			}
		}
		// assembling a shared file: the whole content is served only through a transitive share (and a valid chain)
		for _, sid := range shares {
			sb := cw.blobs[sid-1]
			if sb.target < 1 || sb.target > n || cw.blobs[sb.target-1].kind != "file" {
				continue
			}
			chain := []int{sid, sb.target}
			url := "http://verif.invalid/" + cw.blobs[sb.target-1].ref.String() + "?via=" + sb.ref.String() + "&assemble=1"
			rec := httptest.NewRecorder()
			cw.h.ServeHTTP(rec, httptest.NewRequest("GET", url, nil))
			body, _ := io.ReadAll(rec.Result().Body)
			allowed := cw.validChain(chain) && sb.transitive
			c.rep.SpecChecks++
			c.count("assemble", fmt.Sprintf("transitive=%v allowed=%v -> %d", sb.transitive, allowed, rec.Code))
			switch {
			case rec.Code == 200 && !allowed:
				c.violation(-1, "c17-served-without-valid-chain", fmt.Sprintf("%s GET %v with assemble=1: the file's contents (%d bytes) were served although the share is not a live transitive share", wname, cw.describe(chain), len(body)), nil)
			case allowed && rec.Code != 200:
				c.violation(-1, "c17-valid-chain-refused", fmt.Sprintf("%s GET %v with assemble=1: a live transitive share of a file was answered %d", wname, cw.describe(chain), rec.Code), nil)
			}
		}
		// every chain of length 1 and 2; length 3 starting at a share
		for a := 1; a <= n+1; a++ {
			try("GET", []int{a}, true)
			for b := 1; b <= n+1; b++ {
				isShare := a <= n && cw.blobs[a-1].kind == "share"
				if isShare || c.rng.Intn(6) == 0 {
					try("GET", []int{a, b}, isShare || c.rng.Intn(4) == 0)
				}
			}
		}
		for _, s := range shares {
			t := cw.blobs[s-1].target
			for b := 1; b <= n+1; b++ {
				for d := 1; d <= n+1; d++ {
					if b == t || c.rng.Intn(40) == 0 {
						try("GET", []int{s, b, d}, b == t && (c.rng.Intn(3) == 0 || cw.validChain([]int{s, b, d})))
					}
				}
			}
		}
		// every valid chain up to length 6 (walk the links), and corruptions of it
		var walk func(chain []int)
		walk = func(chain []int) {
			try("GET", chain, true)
			for _, m := range []string{"POST", "PUT", "DELETE", "HEAD"} {
				if c.rng.Intn(10) == 0 {
					try(m, chain, true)
				}
			}
			for k := 0; k < 2; k++ { // one blob replaced
				bad := append([]int{}, chain...)
				bad[c.rng.Intn(len(bad))] = 1 + c.rng.Intn(n)
				try("GET", bad, true)
			}
			if len(chain) > 2 { // one hop skipped
				i := 1 + c.rng.Intn(len(chain)-2)
				try("GET", append(append([]int{}, chain[:i]...), chain[i+1:]...), true)
			}
			if len(chain) >= 6 {
				return
			}
			lastB := cw.blobs[chain[len(chain)-1]-1]
			if len(chain) == 1 {
				if lastB.target >= 1 && lastB.target <= n {
					walk(append(append([]int{}, chain...), lastB.target))
				}
				return
			}
			for _, l := range [][]int{lastB.parts, lastB.dir, lastB.members, lastB.merge} {
				for _, x := range l {
					walk(append(append([]int{}, chain...), x))
				}
			}
		}
		for _, s := range shares {
			walk([]int{s})
		}
	}
	c17Auth(c, w)
}

func minInt(a, b int) int {
	if a < b {
		return a
	}
	return b
}

func (cw *c17world) describe(chain []int) []string {
	var out []string
	for _, id := range chain {
		if id >= 1 && id <= len(cw.blobs) {
			b := cw.blobs[id-1]
			d := fmt.Sprintf("#%d %s", id, b.kind)
			if b.kind == "share" {
				d += fmt.Sprintf("(target #%d transitive=%v expired=%v deleted=%v)", b.target, b.transitive, b.expired, cw.deleted[id])
			}
			out = append(out, d)
		} else {
			out = append(out, fmt.Sprintf("#%d absent", id))
		}
	}
	return out
}

// ---- every other endpoint refuses unauthenticated requests ----
type c17mux struct{ mux *http.ServeMux }

func (m c17mux) Handle(path string, h http.Handler) { m.mux.Handle(path, h) }

func c17Auth(c *ctx, w *world) {
	dir, err := os.MkdirTemp("", "verif-c17-")
	must(err)
	defer os.RemoveAll(dir)
	secring := filepath.Join(repoRoot(), "pkg", "jsonsign", "testdata", "test-secring.gpg")
	keyID := w.signers[0].keyID
	for _, mode := range []struct{ conf, user, pass, token string }{
		{"userpass:alice:secret", "alice", "secret", ""},
		{"token:verif-secret-token", "", "", "verif-secret-token"},
	} {
		conf := map[string]any{
			"handlerConfig": true,
			"auth":          mode.conf,
			"listen":        "localhost:3179",
			"prefixes": map[string]any{
				"/":           map[string]any{"handler": "root", "handlerArgs": map[string]any{"blobRoot": "/bs/", "searchRoot": "/my-search/", "jsonSignRoot": "/sighelper/", "statusRoot": "/status/", "helpRoot": "/help/", "ownerName": "verif"}},
				"/bs/":        map[string]any{"handler": "storage-memory"},
				"/cache/":     map[string]any{"handler": "storage-memory"},
				"/index/":     map[string]any{"handler": "storage-index", "handlerArgs": map[string]any{"blobSource": "/bs/", "storage": map[string]any{"type": "memory"}}},
				"/my-search/": map[string]any{"handler": "search", "handlerArgs": map[string]any{"index": "/index/", "owner": map[string]any{"identity": keyID, "secringFile": secring}}},
				"/sighelper/": map[string]any{"handler": "jsonsign", "handlerArgs": map[string]any{"secretRing": secring, "keyId": keyID, "publicKeyDest": "/bs/"}},
				"/status/":    map[string]any{"handler": "status"},
				"/help/":      map[string]any{"handler": "help"},
				"/share/":     map[string]any{"handler": "share", "handlerArgs": map[string]any{"blobRoot": "/bs/", "index": "/index/"}},
				"/sync/":      map[string]any{"handler": "sync", "handlerArgs": map[string]any{"from": "/bs/", "to": "/index/", "queue": map[string]any{"type": "memory"}}},
			},
		}
		js, _ := json.Marshal(conf)
		cfg, err := serverinit.Load(js)
		if err != nil {
			c.violation(-1, "c17-harness-config", "serverinit.Load: "+err.Error(), nil)
			return
		}
		mux := http.NewServeMux()
		if _, err := cfg.InstallHandlers(c17mux{mux}, "http://verif.invalid"); err != nil {
			c.violation(-1, "c17-harness-config", "InstallHandlers: "+err.Error(), nil)
			return
		}
		// a blob to ask for
		content := "a secret blob"
		br := blob.RefFromString(content)
		paths := []string{"/", "/debug/vars", "/debug/pprof/", "/debug/pprof/cmdline", "/debug/pprof/heap", "/debug/goroutines", "/debug/config", "/debug/logs/perkeepd"}
		for _, p := range []string{"/bs/", "/cache/", "/index/"} {
			paths = append(paths, p, p+"camli/enumerate-blobs", p+"camli/stat", p+"camli/stat?camliversion=1&blob1="+br.String(), p+"camli/upload", p+"camli/"+br.String(), p+"camli/remove", p+"camli/unknown-action")
		}
		paths = append(paths, "/my-search/", "/my-search/camli/search/query", "/my-search/camli/search/recent", "/my-search/camli/search/describe?blobref="+br.String(), "/my-search/camli/search/claims?permanode="+br.String(),
			"/sighelper/", "/sighelper/camli/sig/discovery", "/sighelper/camli/sig/sign", "/sighelper/camli/sig/verify", "/sighelper/camli/"+w.signers[0].ref.String(),
			"/status/", "/status/status.json", "/help/", "/help/?clientConfig=true", "/sync/", "/sync/?mode=validate", "/share/", "/share/"+br.String(),
			"/?camli.mode=config", "/no-such-prefix/")
		with := func(req *http.Request, creds bool) {
			req.RemoteAddr = "203.0.113.7:4444" // not localhost
			req.Host = "verif.invalid"
			if creds {
				if mode.token != "" {
					req.Header.Set("Authorization", "Token "+auth.Token()) // the token mode accepts the process' own token
				} else {
					req.SetBasicAuth(mode.user, mode.pass)
				}
			}
		}
		// upload the blob with credentials first (also shows that credentials work)
		{
			req := httptest.NewRequest("PUT", "http://verif.invalid/bs/camli/"+br.String(), strings.NewReader(content))
			with(req, true)
			rec := httptest.NewRecorder()
			mux.ServeHTTP(rec, req)
			c.count("with credentials", fmt.Sprintf("PUT blob -> %d", rec.Code))
		}
		for _, p := range paths {
			for _, method := range []string{"GET", "POST", "PUT", "DELETE", "HEAD", "OPTIONS"} {
				var body io.Reader
				if method == "POST" || method == "PUT" {
					body = strings.NewReader(`{"constraint":{"anything":true}}`)
				}
				req := httptest.NewRequest(method, "http://verif.invalid"+p, body)
				with(req, false)
				rec := httptest.NewRecorder()
				func() {
					defer func() {
						if r := recover(); r != nil {
							rec.Code = 599
						}
					}()
					mux.ServeHTTP(rec, req)
				}()
				c.rep.SpecChecks++
				c.count("unauthenticated "+strings.SplitN(mode.conf, ":", 2)[0], fmt.Sprint(rec.Code))
				okPublic := strings.HasPrefix(p, "/share/") || p == "/no-such-prefix/"
				bodyBytes, _ := io.ReadAll(rec.Result().Body)
				if rec.Code >= 200 && rec.Code < 300 && !okPublic {
					// the root page itself only says who we are; anything else answered 2xx without credentials is a violation
					if (p == "/" || strings.HasPrefix(p, "/?")) && !strings.Contains(string(bodyBytes), br.String()) && !strings.Contains(string(bodyBytes), "blobRoot") && len(bodyBytes) < 400 {
						c.count("unauthenticated root page", fmt.Sprint(rec.Code))
						continue
					}
					c.violation(-1, "c17-endpoint-open-without-credentials", fmt.Sprintf("auth %s: %s %s answered %d without credentials (%d bytes: %.80q)", strings.SplitN(mode.conf, ":", 2)[0], method, p, rec.Code, len(bodyBytes), string(bodyBytes)),
						map[string]any{"auth": strings.SplitN(mode.conf, ":", 2)[0], "method": method, "path": p})
				}
				if strings.Contains(string(bodyBytes), content) {
					c.violation(-1, "c17-blob-contents-without-credentials", fmt.Sprintf("auth %s: %s %s returned the blob's contents without credentials", mode.conf, method, p), nil)
				}
			}
		}
		// with credentials the same server answers (sanity: the 401s above are not a dead server)
		for _, p := range []string{"/bs/camli/" + br.String(), "/bs/camli/enumerate-blobs", "/status/status.json", "/debug/config"} {
			req := httptest.NewRequest("GET", "http://verif.invalid"+p, nil)
			with(req, true)
			rec := httptest.NewRecorder()
			mux.ServeHTTP(rec, req)
			c.rep.SpecChecks++
			c.count("with credentials", fmt.Sprintf("GET %s -> %d", strings.SplitN(p, "sha224", 2)[0], rec.Code))
			if rec.Code == 401 || rec.Code == 403 {
				c.violation(-1, "c17-credentials-refused", fmt.Sprintf("auth %s: GET %s with valid credentials answered %d", mode.conf, p, rec.Code), nil)
			}
		}
	}
	auth.SetMode(auth.None{})
}

//go:build verif

package main

import (
	"bytes"
	"context"
	"fmt"
	"io"
	"os"
	"path/filepath"
	"sort"
	"strings"
	"sync"

	"go4.org/jsonconfig"
	"perkeep.org/pkg/blob"
	"perkeep.org/pkg/blobserver"
	"perkeep.org/pkg/blobserver/diskpacked"
	"perkeep.org/pkg/blobserver/files"
	"perkeep.org/pkg/sorted"
)

func init() {
	props["C03"] = runC03
	sorted.RegisterKeyValue("verifkv", func(cfg jsonconfig.Obj) (sorted.KeyValue, error) {
		name := cfg.RequiredString("name")
		if err := cfg.Validate(); err != nil {
			return nil, err
		}
		c03mu.Lock()
		defer c03mu.Unlock()
		kv := c03kvs[name]
		if kv == nil {
			return nil, fmt.Errorf("no verif kv %q", name)
		}
		return kv, nil
	})
}

var (
	c03mu  sync.Mutex
	c03kvs = map[string]*c03kv{}
)

// ===================== Part 1: files over a recording VFS =====================
type c03call struct {
	kind string // mkdir temp write sync close lstat-tmp rename lstat-dat remove-tmp remove-dat other
	path string
	dst  string
	data []byte
}

type c03fs struct {
	files.VFS
	mu    sync.Mutex
	calls []c03call
}

func (f *c03fs) rec(c c03call) { f.mu.Lock(); f.calls = append(f.calls, c); f.mu.Unlock() }

func (f *c03fs) MkdirAll(path string, perm os.FileMode) error {
	f.rec(c03call{kind: "mkdir", path: path})
	return f.VFS.MkdirAll(path, perm)
}
func (f *c03fs) TempFile(dir, prefix string) (files.WritableFile, error) {
	w, err := f.VFS.TempFile(dir, prefix)
	if err != nil {
		return nil, err
	}
	f.rec(c03call{kind: "temp", path: w.Name()})
	return &c03wf{WritableFile: w, fs: f}, nil
}
func (f *c03fs) Lstat(p string) (os.FileInfo, error) {
	if strings.HasSuffix(p, ".dat") {
		f.rec(c03call{kind: "lstat-dat", path: p})
	} else {
		f.rec(c03call{kind: "lstat-tmp", path: p})
	}
	return f.VFS.Lstat(p)
}
func (f *c03fs) Rename(a, b string) error {
	f.rec(c03call{kind: "rename", path: a, dst: b})
	return f.VFS.Rename(a, b)
}
func (f *c03fs) Remove(p string) error {
	if strings.HasSuffix(p, ".dat") {
		f.rec(c03call{kind: "remove-dat", path: p})
	} else {
		f.rec(c03call{kind: "remove-tmp", path: p})
	}
	return f.VFS.Remove(p)
}

type c03wf struct {
	files.WritableFile
	fs *c03fs
}

func (w *c03wf) Write(p []byte) (int, error) {
	w.fs.rec(c03call{kind: "write", path: w.Name(), data: append([]byte{}, p...)})
	return w.WritableFile.Write(p)
}
func (w *c03wf) Sync() error {
	w.fs.rec(c03call{kind: "sync", path: w.Name()})
	return w.WritableFile.Sync()
}
func (w *c03wf) Close() error {
	w.fs.rec(c03call{kind: "close", path: w.Name()})
	return w.WritableFile.Close()
}

// chunked reader: forces several Write calls
type c03chunks struct {
	data   []byte
	chunks []int
}

func (r *c03chunks) Read(p []byte) (int, error) {
	if len(r.data) == 0 {
		return 0, io.EOF
	}
	n := len(r.data)
	if len(r.chunks) > 0 {
		n = r.chunks[0]
		r.chunks = r.chunks[1:]
	}
	if n > len(p) {
		n = len(p)
	}
	if n > len(r.data) {
		n = len(r.data)
	}
	copy(p, r.data[:n])
	r.data = r.data[n:]
	return n, nil
}

type c03blob struct {
	id      int
	ref     blob.Ref
	content []byte
}

// materialise replays the recorded calls (relative to oldRoot) into newRoot, then applies the crash: files whose last
// writes were not synced keep between synced and written bytes
func c03Materialise(calls []c03call, oldRoot, newRoot string, choice int) {
	type fstate struct {
		data   []byte
		synced int
	}
	live := map[string]*fstate{}
	os.MkdirAll(newRoot, 0o700) // the store's root directory existed before the history began
	mv := func(p string) string { return filepath.Join(newRoot, strings.TrimPrefix(p, oldRoot)) }
	for _, c := range calls {
		switch c.kind {
		case "mkdir":
			os.MkdirAll(mv(c.path), 0o700)
		case "temp":
			live[c.path] = &fstate{}
		case "write":
			if f := live[c.path]; f != nil {
				f.data = append(f.data, c.data...)
			}
		case "sync":
			if f := live[c.path]; f != nil {
				f.synced = len(f.data)
			}
		case "rename":
			if f := live[c.path]; f != nil {
				live[c.dst] = f
				delete(live, c.path)
			}
		case "remove-tmp", "remove-dat":
			delete(live, c.path)
		}
	}
	for p, f := range live {
		n := f.synced
		switch choice {
		case 1:
			n = len(f.data)
		case 2:
			n = f.synced + (len(f.data)-f.synced)/2
		}
		os.MkdirAll(filepath.Dir(mv(p)), 0o700)
		os.WriteFile(mv(p), f.data[:n], 0o600)
	}
}

func c03Files(c *ctx, dir string) {
	blobs := []*c03blob{}
	mk := func(content []byte) *c03blob {
		b := &c03blob{id: len(blobs) + 1, ref: blob.RefFromBytes(content), content: content}
		blobs = append(blobs, b)
		return b
	}
	byRef := map[string]*c03blob{}
	for h := 0; h < c.n(6, 40); h++ {
		root := filepath.Join(dir, fmt.Sprintf("files-%d", h))
		must(os.MkdirAll(root, 0o700))
		rfs := &c03fs{VFS: files.OSFS()}
		sto := files.NewStorage(rfs, root)
		blobs = blobs[:0]
		byRef = map[string]*c03blob{}
		tmpID := map[string]int{}
		acked := map[int]bool{}
		var opEnds []int // index into calls after each op
		nops := 3 + c.rng.Intn(6)
		for i := 0; i < nops; i++ {
			switch r := c.rng.Intn(8); {
			case r < 6 || len(blobs) == 0:
				var content []byte
				switch c.rng.Intn(5) {
				case 0:
					content = []byte{}
				case 1:
					content = bytes.Repeat([]byte(fmt.Sprintf("longer %d %d ", h, i)), 150) // written in several chunks
				default:
					content = []byte(fmt.Sprintf("files blob %d of history %d seed %d", i, h, c.seed))
				}
				b := mk(content)
				if c.rng.Intn(6) == 0 && len(blobs) > 1 {
					b = blobs[c.rng.Intn(len(blobs)-1)] // received again
					blobs = blobs[:len(blobs)-1]
				}
				byRef[b.ref.String()] = b
				var chunks []int
				for rest := len(b.content); rest > 0 && c.rng.Intn(3) != 0; {
					n := 1 + c.rng.Intn(rest)
					chunks = append(chunks, n)
					rest -= n
				}
				before := len(rfs.calls)
				_, err := sto.ReceiveBlob(context.Background(), b.ref, &c03chunks{data: b.content, chunks: chunks})
				if err != nil {
					c.violation(-1, "c03-files-receive-failed", err.Error(), nil)
					return
				}
				acked[b.id] = true
				// the call trace of this receive, for the model
				var ks []string
				var writes []string
				tid := 0
				for _, k := range rfs.calls[before:] {
					if k.kind == "temp" {
						tmpID[k.path] = len(tmpID) + 1
						tid = tmpID[k.path]
					}
				}
				for _, k := range rfs.calls[before:] {
					ks = append(ks, c03callCoq(k, tmpID, byRef, len(b.content)))
					if k.kind == "write" {
						writes = append(writes, fmt.Sprintf("%d%%nat", len(k.data)))
					}
				}
				c.addCase(fmt.Sprintf("CFilesTrace %d %d [%s] [%s]", tid, b.id, strings.Join(writes, "; "), strings.Join(ks, "; ")),
					map[string]any{"op": "files receive trace", "blob": b.id, "size": len(b.content), "writes": len(writes)}, len(writes) > 1)
				c.count("files ops", "receive")
			default:
				b := blobs[c.rng.Intn(len(blobs))]
				if err := sto.RemoveBlobs(context.Background(), []blob.Ref{b.ref}); err != nil {
					c.violation(-1, "c03-files-remove-failed", err.Error(), nil)
					return
				}
				delete(acked, b.id)
				c.count("files ops", "remove")
			}
			opEnds = append(opEnds, len(rfs.calls))
		}
		// crash points: every prefix of the calls of the last op (thorough: of every op)
		firstOp := len(opEnds) - 1
		if !c.quick() {
			firstOp = 0
		}
		for op := firstOp; op < len(opEnds); op++ {
			start := 0
			if op > 0 {
				start = opEnds[op-1]
			}
			for k := start; k <= opEnds[op]; k++ {
				for choice := 0; choice < 3; choice++ {
					crashRoot := filepath.Join(dir, fmt.Sprintf("crash-%d-%d-%d-%d", h, op, k, choice))
					c03Materialise(rfs.calls[:k], root, crashRoot, choice)
					re := files.NewStorage(files.OSFS(), crashRoot)
					var vis, comp []string
					var enumIDs []int
					err := blobserver.EnumerateAll(context.Background(), re, func(sb blob.SizedRef) error {
						if b := byRef[sb.Ref.String()]; b != nil {
							enumIDs = append(enumIDs, b.id)
						} else {
							enumIDs = append(enumIDs, -1)
						}
						return nil
					})
					c.rep.SpecChecks++
					bad := ""
					if err != nil {
						bad = "enumerate failed: " + err.Error()
					}
					for _, id := range enumIDs {
						if id < 0 {
							bad = "an unknown name is enumerated as a blob"
							continue
						}
						b := blobs0(blobs, byRef, id)
						vis = append(vis, fmt.Sprint(id))
						rc, _, err := re.Fetch(context.Background(), b.ref)
						if err != nil {
							bad = fmt.Sprintf("enumerated blob #%d cannot be fetched: %v", id, err)
							continue
						}
						got, _ := io.ReadAll(rc)
						rc.Close()
						if bytes.Equal(got, b.content) {
							comp = append(comp, fmt.Sprint(id))
						} else {
							bad = fmt.Sprintf("blob #%d is presented with %d of its %d bytes", id, len(got), len(b.content))
						}
					}
					// acknowledged and not removed before the op that was cut: must be there
					for id := range c03AckedBefore(opEnds, op, k, rfs.calls, byRef, acked) {
						found := false
						for _, v := range enumIDs {
							if v == id {
								found = true
							}
						}
						if !found {
							bad = fmt.Sprintf("acknowledged blob #%d is gone", id)
						}
					}
					var ks []string
					for _, call := range rfs.calls[:k] {
						ks = append(ks, c03callCoq(call, tmpID, byRef, -1))
					}
					idx := c.addCase(fmt.Sprintf("CFilesCrash [%s] %d [%s] [%s]", strings.Join(ks, "; "), choice, strings.Join(vis, "; "), strings.Join(comp, "; ")),
						map[string]any{"op": "files crash", "history": h, "calls before the crash": k, "of": len(rfs.calls), "unsynced data": []string{"lost", "kept", "half"}[choice]}, k > start && k < opEnds[op])
					c.count("files crash points", fmt.Sprintf("loss %d", choice))
					if bad != "" {
						c.violation(idx, "c03-files-torn-or-lost", fmt.Sprintf("history %d, crash after %d of %d VFS calls, unsynced data %s: %s", h, k, len(rfs.calls), []string{"lost", "kept", "half kept"}[choice], bad), nil)
					}
					os.RemoveAll(crashRoot)
				}
			}
		}
		os.RemoveAll(root)
	}
}

func blobs0(blobs []*c03blob, byRef map[string]*c03blob, id int) *c03blob {
	for _, b := range byRef {
		if b.id == id {
			return b
		}
	}
	return nil
}

// blobs acknowledged by operations that completed before the crash and not removed by them
func c03AckedBefore(opEnds []int, op, k int, calls []c03call, byRef map[string]*c03blob, _ map[int]bool) map[int]bool {
	out := map[int]bool{}
	limit := 0
	for i, e := range opEnds {
		if e <= k && (i < op || e == k) {
			limit = e
		}
	}
	for _, c := range calls[:limit] {
		name := filepath.Base(c.path)
		if c.kind == "rename" {
			name = filepath.Base(c.dst)
		}
		ref := strings.TrimSuffix(name, ".dat")
		b := byRef[ref]
		if b == nil {
			continue
		}
		switch c.kind {
		case "rename":
			out[b.id] = true
		case "remove-dat":
			delete(out, b.id)
		}
	}
	return out
}

func c03callCoq(k c03call, tmpID map[string]int, byRef map[string]*c03blob, size int) string {
	blobOf := func(p string) int {
		name := filepath.Base(p)
		if i := strings.Index(name, ".dat"); i >= 0 {
			name = name[:i]
		}
		if b := byRef[name]; b != nil {
			return b.id
		}
		return 0
	}
	switch k.kind {
	case "mkdir":
		return "KMkdir"
	case "temp":
		b := byRef[strings.SplitN(filepath.Base(k.path), ".dat", 2)[0]]
		sz := 0
		if b != nil {
			sz = len(b.content)
		}
		return fmt.Sprintf("KTemp %d %d %d%%nat", tmpID[k.path], blobOf(k.path), sz)
	case "write":
		return fmt.Sprintf("KWrite %d %d%%nat", tmpID[k.path], len(k.data))
	case "sync":
		return fmt.Sprintf("KSync %d", tmpID[k.path])
	case "close":
		return fmt.Sprintf("KClose %d", tmpID[k.path])
	case "lstat-tmp":
		return fmt.Sprintf("KLstatTmp %d", tmpID[k.path])
	case "rename":
		return fmt.Sprintf("KRename %d", tmpID[k.path])
	case "lstat-dat":
		return fmt.Sprintf("KLstatDat %d", blobOf(k.path))
	case "remove-tmp":
		return fmt.Sprintf("KRemoveTmp %d", tmpID[k.path])
	case "remove-dat":
		return fmt.Sprintf("KRemoveDat %d", blobOf(k.path))
	}
	return "KMkdir"
}

// ===================== Part 2: diskpacked =====================
// c03kv: the pack index, kept by the harness so that it survives "restarts" and can be snapshotted; it also tells when
// a batch is committed (so that the harness can look at the pack file at that very moment)
type c03kv struct {
	sorted.KeyValue
	onCommit func()
}

func (k *c03kv) CommitBatch(b sorted.BatchMutation) error {
	if k.onCommit != nil {
		k.onCommit()
	}
	return k.KeyValue.CommitBatch(b)
}
func (k *c03kv) Close() error { return nil }

func (k *c03kv) snapshot() map[string]string {
	m := map[string]string{}
	it := k.KeyValue.Find("", "")
	for it.Next() {
		m[it.Key()] = it.Value()
	}
	it.Close()
	return m
}

func c03kvFrom(m map[string]string) *c03kv {
	kv := sorted.NewMemoryKeyValue()
	for k, v := range m {
		kv.Set(k, v)
	}
	return &c03kv{KeyValue: kv}
}

type c03dp struct {
	c      *ctx
	dir    string
	n      int
	blobs  []*c03blob
	byRef  map[string]*c03blob
	ops    []string // Coq dops
	human  []string
	acked  map[int]bool
	sto    blobserver.Storage
	kvName string
}

func (d *c03dp) open(root string, kv *c03kv) (blobserver.Storage, error) {
	d.n++
	name := fmt.Sprintf("kv-%d-%d", d.c.seed, d.n)
	c03mu.Lock()
	c03kvs[name] = kv
	c03mu.Unlock()
	d.kvName = name
	return blobserver.CreateStorage("diskpacked", newLoader(), jsonconfig.Obj{"path": root, "maxFileSize": float64(1 << 30), "metaIndex": map[string]any{"type": "verifkv", "name": name}})
}

func closeStorage(s blobserver.Storage) {
	if c, ok := s.(io.Closer); ok {
		c.Close()
	}
}

func (d *c03dp) fetchClass(s blobserver.Storage, b *c03blob) int {
	rc, _, err := s.Fetch(context.Background(), b.ref)
	if err != nil {
		if os.IsNotExist(err) {
			return 0
		}
		return 2
	}
	defer rc.Close()
	got, err := io.ReadAll(rc)
	if err != nil || !bytes.Equal(got, b.content) {
		return 2
	}
	return 1
}

// observe a (re)opened store on a materialised crash state; then further receives; then Reindex; returns the Coq case tail
func (d *c03dp) observe(root string, kvState map[string]string, ops []string, human []string, mustHave map[int]bool, what string) {
	c := d.c
	kv := c03kvFrom(kvState)
	s, err := d.open(root, kv)
	c.rep.SpecChecks++
	if err != nil {
		c.violation(len(c.casesBuf), "c03-reopen-failed", fmt.Sprintf("%s: the store does not reopen: %v", what, err), human)
		return
	}
	var fs []string
	bad := ""
	for _, b := range d.blobs {
		cl := d.fetchClass(s, b)
		fs = append(fs, fmt.Sprintf("(%d, %d)", b.id, cl))
		if cl == 2 {
			bad = fmt.Sprintf("blob #%d is presented with wrong bytes", b.id)
		}
		if cl != 1 && mustHave[b.id] {
			bad = fmt.Sprintf("acknowledged blob #%d is not fetched back intact (class %d)", b.id, cl)
		}
	}
	var enum []string
	blobserver.EnumerateAll(context.Background(), s, func(sb blob.SizedRef) error {
		if b := d.byRef[sb.Ref.String()]; b != nil {
			enum = append(enum, fmt.Sprint(b.id))
		}
		return nil
	})
	closeStorage(s)
	class := "c03-torn-or-lost-after-crash"
	if bad != "" && strings.Contains(bad, "wrong bytes") && strings.Contains(what, "removal") {
		class = "c03-half-removed-blob-presented"
	}
	// Reindex from the pack files alone
	rkv := c03kvFrom(map[string]string{})
	d.n++
	name := fmt.Sprintf("kv-%d-%d", d.c.seed, d.n)
	c03mu.Lock()
	c03kvs[name] = rkv
	c03mu.Unlock()
	rerr := diskpacked.Reindex(context.Background(), root, true, jsonconfig.Obj{"type": "verifkv", "name": name})
	var fs2 []string
	bad2 := ""
	if rerr == nil {
		s2, err := d.open(root, rkv)
		if err != nil {
			bad2 = "the store does not open on the rebuilt index: " + err.Error()
		} else {
			for _, b := range d.blobs {
				cl := d.fetchClass(s2, b)
				fs2 = append(fs2, fmt.Sprintf("(%d, %d)", b.id, cl))
				if cl == 2 {
					bad2 = fmt.Sprintf("after Reindex blob #%d is presented with wrong bytes", b.id)
				}
				if cl != 1 && mustHave[b.id] {
					bad2 = fmt.Sprintf("after Reindex acknowledged blob #%d is not fetched back intact (class %d)", b.id, cl)
				}
			}
			closeStorage(s2)
		}
	}
	idx := c.addCase(fmt.Sprintf("CPack [%s] [%s] [%s] %s [%s]", strings.Join(ops, "; "), strings.Join(fs, "; "), strings.Join(enum, "; "), qb(rerr == nil), strings.Join(fs2, "; ")),
		map[string]any{"op": "diskpacked", "state": what, "history": human}, strings.Contains(what, "crash"))
	c.count("diskpacked states", strings.SplitN(what, ":", 2)[0])
	if bad != "" {
		c.violation(idx, class, what+": "+bad, human)
	}
	if rerr != nil {
		c.violation(idx, "c03-reindex-fails", fmt.Sprintf("%s: Reindex from the pack files fails: %v", what, rerr), human)
	} else if bad2 != "" {
		cl := "c03-reindex-wrong"
		if strings.Contains(bad2, "wrong bytes") {
			cl = "c03-reindex-presents-torn-blob"
		}
		c.violation(idx, cl, what+": "+bad2, human)
	}
}

func copyDir(src, dst string) {
	os.MkdirAll(dst, 0o700)
	ents, _ := os.ReadDir(src)
	for _, e := range ents {
		if e.IsDir() || strings.HasSuffix(e.Name(), ".lock") {
			continue
		}
		b, _ := os.ReadFile(filepath.Join(src, e.Name()))
		os.WriteFile(filepath.Join(dst, e.Name()), b, 0o600)
	}
}

func c03Pack(c *ctx, dir string) {
	for h := 0; h < c.n(10, 80); h++ {
		root := filepath.Join(dir, fmt.Sprintf("dp-%d", h))
		must(os.MkdirAll(root, 0o700))
		d := &c03dp{c: c, dir: dir, byRef: map[string]*c03blob{}, acked: map[int]bool{}}
		kv := c03kvFrom(map[string]string{})
		s, err := d.open(root, kv)
		must(err)
		packFile := filepath.Join(root, "pack-00000.blobs")
		mk := func() *c03blob {
			var content []byte
			switch c.rng.Intn(6) {
			case 0:
				content = []byte{}
			case 1:
				content = []byte("]") // a body that looks like the end of a header
			default:
				content = []byte(fmt.Sprintf("packed blob %d of history %d seed %d [x]", len(d.blobs), h, c.seed))
			}
			if b := d.byRef[blob.RefFromBytes(content).String()]; b != nil {
				return b
			}
			b := &c03blob{id: len(d.blobs) + 1, ref: blob.RefFromBytes(content), content: content}
			d.blobs = append(d.blobs, b)
			d.byRef[b.ref.String()] = b
			return b
		}
		receive := func(st blobserver.Storage, b *c03blob) {
			_, err := st.ReceiveBlob(context.Background(), b.ref, bytes.NewReader(b.content))
			must(err)
			d.ops = append(d.ops, fmt.Sprintf("DReceive %d %d%%nat", b.id, len(b.content)))
			d.human = append(d.human, fmt.Sprintf("receive #%d (%d bytes)", b.id, len(b.content)))
			d.acked[b.id] = true
		}
		nops := 2 + c.rng.Intn(5)
		for i := 0; i < nops; i++ {
			if c.rng.Intn(4) == 0 && len(d.blobs) > 0 {
				b := d.blobs[c.rng.Intn(len(d.blobs))]
				must(s.RemoveBlobs(context.Background(), []blob.Ref{b.ref}))
				d.ops = append(d.ops, fmt.Sprintf("DRemove %d", b.id))
				d.human = append(d.human, fmt.Sprintf("remove #%d", b.id))
				delete(d.acked, b.id)
			} else {
				b := mk()
				if c.rng.Intn(5) == 0 && len(d.blobs) > 1 {
					b = d.blobs[c.rng.Intn(len(d.blobs))]
				}
				receive(s, b)
			}
		}
		pack0, _ := os.ReadFile(packFile)
		kv0 := kv.snapshot()
		mustHave := map[int]bool{}
		for id := range d.acked {
			mustHave[id] = true
		}
		// ---- the operation that is cut by the crash ----
		if c.rng.Intn(3) != 0 || len(d.acked) == 0 {
			// a receive: every prefix of the appended bytes x index row written or not
			b := mk()
			_, wasAcked := d.acked[b.id]
			s.ReceiveBlob(context.Background(), b.ref, bytes.NewReader(b.content))
			closeStorage(s)
			pack1, _ := os.ReadFile(packFile)
			kv1 := kv.snapshot()
			appended := pack1[len(pack0):]
			hdr := bytes.IndexByte(appended, ']') + 1
			step := 1
			if c.quick() && len(appended) > 24 {
				step = len(appended)/16 + 1
			}
			points := map[int]bool{0: true, 1: true, hdr - 1: true, hdr: true, hdr + 1: true, len(appended) - 1: true, len(appended): true}
			for k := 0; k <= len(appended); k += step {
				points[k] = true
			}
			var ks []int
			for k := range points {
				if k >= 0 && k <= len(appended) {
					ks = append(ks, k)
				}
			}
			sort.Ints(ks)
			for _, k := range ks {
				for _, row := range []bool{false, true} {
					if row && k < len(appended) {
						// the row is written after the data is synced: this code's own crashes cannot leave it without the
						// data.  A disk that lied about the sync (or a pack restored from a truncated copy) can: the duplicate
						// rule of ReceiveBlob exists for that state - the next upload of the blob must heal it.
						if k < hdr || wasAcked || k%3 != 0 {
							continue
						}
						crashRoot := filepath.Join(dir, fmt.Sprintf("dplost-%d-%d", h, k))
						copyDir(root, crashRoot)
						os.WriteFile(filepath.Join(crashRoot, "pack-00000.blobs"), append(append([]byte{}, pack0...), appended[:k]...), 0o600)
						if s2, err := d.open(crashRoot, c03kvFrom(kv1)); err == nil {
							_, rerr := s2.ReceiveBlob(context.Background(), b.ref, bytes.NewReader(b.content))
							closeStorage(s2)
							if rerr == nil {
								c03mu.Lock()
								kv2 := c03kvs[d.kvName].snapshot()
								c03mu.Unlock()
								ops2 := append(append([]string{}, d.ops...), fmt.Sprintf("DLostTail %d %d%%nat %d%%nat", b.id, len(b.content), k-hdr), fmt.Sprintf("DReceive %d %d%%nat", b.id, len(b.content)))
								human2 := append(append([]string{}, d.human...), fmt.Sprintf("the pack lost its tail inside blob #%d (%d of %d body bytes left) although its index row is there; restart; receive #%d again", b.id, k-hdr, len(b.content), b.id))
								mh2 := map[int]bool{b.id: true}
								for id := range mustHave {
									mh2[id] = true
								}
								d.observe(crashRoot, kv2, ops2, human2, mh2, "lost tail under an index row, then the upload again")
							}
						}
						os.RemoveAll(crashRoot)
						continue
					}
					if len(appended) == 0 && (k > 0 || row) {
						continue
					}
					stage := ""
					switch {
					case len(appended) == 0:
						stage = "" // a duplicate: nothing is appended
					case k == 0:
						stage = ""
					case k < hdr:
						stage = "ApHeader"
					case k < len(appended):
						stage = fmt.Sprintf("(ApBody %d%%nat)", k-hdr)
					case !row:
						stage = "ApNoIndex"
					default:
						stage = "ApDone"
					}
					ops := append([]string{}, d.ops...)
					human := append([]string{}, d.human...)
					if stage != "" {
						ops = append(ops, fmt.Sprintf("DCrashReceive %d %d%%nat %s", b.id, len(b.content), stage))
					}
					human = append(human, fmt.Sprintf("receive #%d (%d bytes) cut by a crash: %d of %d appended bytes on disk, index row %v", b.id, len(b.content), k, len(appended), row))
					crashRoot := filepath.Join(dir, fmt.Sprintf("dpcrash-%d-%d-%v", h, k, row))
					copyDir(root, crashRoot)
					os.WriteFile(filepath.Join(crashRoot, "pack-00000.blobs"), append(append([]byte{}, pack0...), appended[:k]...), 0o600)
					kvs := kv0
					if row {
						kvs = kv1
					}
					mh := map[int]bool{}
					for id := range mustHave {
						mh[id] = true
					}
					if wasAcked {
						mh[b.id] = true
					}
					d.observe(crashRoot, kvs, ops, human, mh, "crash in a receive")
					// the same state, then more work after the restart: the torn bytes stay where they are
					if k > 0 && k < len(appended) && c.rng.Intn(2) == 0 {
						s2, err := d.open(crashRoot, c03kvFrom(kvs))
						if err == nil {
							nb := &c03blob{id: len(d.blobs) + 1, content: []byte(fmt.Sprintf("after the restart %d %d", h, k))}
							nb.ref = blob.RefFromBytes(nb.content)
							d.blobs = append(d.blobs, nb)
							d.byRef[nb.ref.String()] = nb
							_, err := s2.ReceiveBlob(context.Background(), nb.ref, bytes.NewReader(nb.content))
							must(err)
							// and the interrupted upload is retried
							_, err = s2.ReceiveBlob(context.Background(), b.ref, bytes.NewReader(b.content))
							must(err)
							closeStorage(s2)
							c03mu.Lock()
							kv2 := c03kvs[d.kvName].snapshot()
							c03mu.Unlock()
							ops2 := append(append([]string{}, ops...), fmt.Sprintf("DReceive %d %d%%nat", nb.id, len(nb.content)), fmt.Sprintf("DReceive %d %d%%nat", b.id, len(b.content)))
							human2 := append(append([]string{}, human...), fmt.Sprintf("restart; receive #%d; receive #%d again", nb.id, b.id))
							mh2 := map[int]bool{nb.id: true, b.id: true}
							for id := range mh {
								mh2[id] = true
							}
							d.observe(crashRoot, kv2, ops2, human2, mh2, "crash in a receive, restart, more receives")
							d.blobs = d.blobs[:len(d.blobs)-1]
							delete(d.byRef, nb.ref.String())
						}
					}
					os.RemoveAll(crashRoot)
				}
			}
		} else {
			// a removal: the pack file is looked at when the index batch is committed, and at the end
			var ids []int
			for id := range d.acked {
				ids = append(ids, id)
			}
			sort.Ints(ids)
			b := d.blobs[ids[c.rng.Intn(len(ids))]-1]
			var atCommit, atPunch []byte
			kv.onCommit = func() { atCommit, _ = os.ReadFile(packFile) }
			restorePunch := diskpacked.VerifOnPunch(func(string) { atPunch, _ = os.ReadFile(packFile) })
			must(s.RemoveBlobs(context.Background(), []blob.Ref{b.ref}))
			restorePunch()
			kv.onCommit = nil
			closeStorage(s)
			pack1, _ := os.ReadFile(packFile)
			kv1 := kv.snapshot()
			indexFirst := bytes.Equal(atCommit, pack0)
			c.count("removal order seen", map[bool]string{true: "index row deleted first", false: "pack rewritten first"}[indexFirst])
			// the chain of pack states: untouched, header rewritten, then the body zeroed byte by byte
			var diff []int
			for i := range pack0 {
				if pack0[i] != pack1[i] {
					diff = append(diff, i)
				}
			}
			hdrEnd := 0 // number of differing positions that belong to the header
			for _, p := range diff {
				if pack1[p] == 'x' || pack1[p] == '0' {
					hdrEnd++
				}
			}
			type st struct {
				pack  []byte
				stage string
				desc  string
			}
			var chain []st
			chain = append(chain, st{pack0, "RmNone", "pack untouched"})
			// was the header already rewritten when the destruction of the data began?
			headerFirst := len(b.content) == 0 || atPunch == nil || !bytes.Equal(atPunch, pack0)
			c.count("removal: header vs data", map[bool]string{true: "header rewritten first", false: "data destroyed first"}[headerFirst])
			if len(diff) > 0 && !headerFirst {
				// data first: body zeroed under an intact header, then the header
				p := append([]byte{}, pack0...)
				body := diff[hdrEnd:]
				for z := 1; z <= len(body); z++ {
					p[body[z-1]] = pack1[body[z-1]]
					if z == len(body) || z == 1 || z == len(body)/2 {
						chain = append(chain, st{append([]byte{}, p...), fmt.Sprintf("(RmZeroOnly %d%%nat)", z), fmt.Sprintf("header intact, body partly zeroed (%d bytes)", z)})
					}
				}
				chain = append(chain, st{pack1, "RmDone", "header rewritten, body zeroed"})
			} else if len(diff) > 0 {
				p := append([]byte{}, pack0...)
				for _, i := range diff[:hdrEnd] {
					p[i] = pack1[i]
				}
				chain = append(chain, st{append([]byte{}, p...), "RmHeader", "header rewritten"})
				body := diff[hdrEnd:]
				for z := 1; z <= len(body); z++ {
					p[body[z-1]] = pack1[body[z-1]]
					if z == len(body) || z == 1 || z == len(body)/2 {
						chain = append(chain, st{append([]byte{}, p...), fmt.Sprintf("(RmZero %d%%nat)", z), fmt.Sprintf("header rewritten, body partly zeroed (%d differing bytes)", z)})
					}
				}
			}
			for ci, stt := range chain {
				for _, rowGone := range []bool{false, true} {
					// reachable with the order the code uses?
					if indexFirst && !rowGone && ci > 0 {
						continue
					}
					if !indexFirst && rowGone && ci < len(chain)-1 {
						continue
					}
					stage := stt.stage
					if indexFirst && rowGone && ci == 0 {
						stage = "RmIndex"
					}
					if !indexFirst && rowGone {
						stage = "RmDone"
					}
					if indexFirst && rowGone && ci == len(chain)-1 && len(chain) > 1 {
						stage = "RmDone"
					}
					if strings.Contains(stage, "RmZeroOnly") && !rowGone {
						// data-first and index-last: the row is still there over a zeroed body
						stage = strings.Replace(stage, "RmZeroOnly", "RmZeroOnly", 1)
					}
					ops := append([]string{}, d.ops...)
					if !(stage == "RmNone") {
						ops = append(ops, fmt.Sprintf("DCrashRemove %d %s", b.id, stage))
					}
					human := append(append([]string{}, d.human...), fmt.Sprintf("removal of #%d cut by a crash: %s, index row %s", b.id, stt.desc, map[bool]string{true: "deleted", false: "still there"}[rowGone]))
					crashRoot := filepath.Join(dir, fmt.Sprintf("dprm-%d-%d-%v", h, ci, rowGone))
					copyDir(root, crashRoot)
					os.WriteFile(filepath.Join(crashRoot, "pack-00000.blobs"), stt.pack, 0o600)
					kvs := kv0
					if rowGone {
						kvs = kv1
					}
					mh := map[int]bool{}
					for id := range mustHave {
						if id != b.id {
							mh[id] = true
						}
					}
					d.observe(crashRoot, kvs, ops, human, mh, "crash in a removal")
					os.RemoveAll(crashRoot)
				}
			}
		}
		os.RemoveAll(root)
	}
}

func runC03(c *ctx) {
	c.rep.Rule = "files: histories of 3-8 receives (empty, short, 2 KB in several writes, repeated) and removals over a recording VFS; for the last operation (thorough: every operation) every prefix of its VFS calls x {unsynced data lost, kept, half kept} is materialised in a fresh directory and a new store opened on it; " +
		"diskpacked: histories of 2-6 receives/removals (empty blob, a body that is a lone ']', repeats), then an operation cut by a crash: for a receive every sampled prefix of the appended bytes (always: 0, 1, around the end of the header, last byte) x index row written or not, optionally followed by a restart and more receives behind the torn bytes; " +
		"for a removal the chain untouched / header rewritten / body zeroed (1 byte, half, all) x index row deleted or not, restricted to the states reachable in the orders the code is seen to use (the pack is looked at when the index batch is committed and when the destruction of the data begins); each state: reopen, fetch every blob, enumerate, then Reindex from the pack alone and fetch again; non-trivial = distinct state strictly inside an operation"
	dir, err := os.MkdirTemp("", "verif-c03-")
	must(err)
	defer os.RemoveAll(dir)
	c03Files(c, dir)
	c03Pack(c, dir)
}

//go:build verif

package main

import (
	"bytes"
	"context"
	"errors"
	"fmt"
	"io"
	"log"
	"math/rand"
	"os"
	"path/filepath"
	"runtime"
	"sort"
	"strings"
	"sync"
	"sync/atomic"
	"time"

	"go4.org/jsonconfig"
	"perkeep.org/pkg/blob"
	"perkeep.org/pkg/blobserver"
	"perkeep.org/pkg/blobserver/files"
	"perkeep.org/pkg/index"
	"perkeep.org/pkg/schema"
	"perkeep.org/pkg/search"
	"perkeep.org/pkg/sorted"
	"perkeep.org/pkg/test"
)

func init() {
	props["C14"] = runC14
	sorted.RegisterKeyValue("verifkv14", func(cfg jsonconfig.Obj) (sorted.KeyValue, error) {
		inner := cfg.RequiredObject("inner")
		if err := cfg.Validate(); err != nil {
			return nil, err
		}
		kv, err := sorted.NewKeyValueMaybeWipe(inner)
		if err != nil {
			return nil, err
		}
		return &c14kv{KeyValue: kv}, nil
	})
}

// ---- schedule perturbation at lower-layer boundaries ----
var c14jitState atomic.Uint64

func c14jit() {
	x := c14jitState.Add(0x9e3779b97f4a7c15)
	x ^= x >> 31
	x *= 0xbf58476d1ce4e5b9
	x ^= x >> 29
	switch x % 10 {
	case 0, 1:
		runtime.Gosched()
	case 2:
		time.Sleep(time.Duration(x>>8%200) * time.Microsecond)
	case 3:
		time.Sleep(20 * time.Microsecond)
	}
}

type c14store struct{ s blobserver.Storage }

func (w *c14store) Fetch(ctx context.Context, br blob.Ref) (io.ReadCloser, uint32, error) {
	c14jit()
	rc, n, err := w.s.Fetch(ctx, br)
	c14jit()
	return rc, n, err
}
func (w *c14store) ReceiveBlob(ctx context.Context, br blob.Ref, src io.Reader) (blob.SizedRef, error) {
	c14jit()
	sb, err := w.s.ReceiveBlob(ctx, br, src)
	c14jit()
	return sb, err
}
func (w *c14store) StatBlobs(ctx context.Context, blobs []blob.Ref, fn func(blob.SizedRef) error) error {
	c14jit()
	err := w.s.StatBlobs(ctx, blobs, fn)
	c14jit()
	return err
}
func (w *c14store) EnumerateBlobs(ctx context.Context, dest chan<- blob.SizedRef, after string, limit int) error {
	c14jit()
	return w.s.EnumerateBlobs(ctx, dest, after, limit)
}
func (w *c14store) RemoveBlobs(ctx context.Context, blobs []blob.Ref) error {
	c14jit()
	err := w.s.RemoveBlobs(ctx, blobs)
	c14jit()
	return err
}

type c14kv struct{ sorted.KeyValue }

func (k *c14kv) Get(key string) (string, error) { c14jit(); return k.KeyValue.Get(key) }
func (k *c14kv) Set(key, value string) error    { c14jit(); return k.KeyValue.Set(key, value) }
func (k *c14kv) Delete(key string) error        { c14jit(); return k.KeyValue.Delete(key) }
func (k *c14kv) CommitBatch(b sorted.BatchMutation) error {
	c14jit()
	if g := c14commitGate.Load(); g != nil {
		g.arrived <- struct{}{}
		<-g.release
	}
	return k.KeyValue.CommitBatch(b)
}

// a scenario can hold the next CommitBatch of any verifkv14 store between its arrival and its release
type c14gate struct{ arrived, release chan struct{} }

var c14commitGate atomic.Pointer[c14gate]

// ---- histories and the judge (the same search as coq/Model/C14.v, with memoisation) ----
type c14call struct {
	inv, ret int
	op       byte // 'R' receive, 'X' remove, 'r' read
	seen     bool
	what     string
}

func (k c14call) coq() string {
	switch k.op {
	case 'R':
		return fmt.Sprintf("Rc %d %d", k.inv, k.ret)
	case 'X':
		return fmt.Sprintf("Rm %d %d", k.inv, k.ret)
	}
	return fmt.Sprintf("Rd %d %d %s", k.inv, k.ret, qb(k.seen))
}

func c14Lin(init bool, calls []c14call) (bool, []int) {
	n := len(calls)
	if n > 64 {
		panic("c14: history too long for the judge")
	}
	type key struct {
		mask    uint64
		present bool
	}
	failed := map[key]bool{}
	var order []int
	var dfs func(mask uint64, present bool) bool
	dfs = func(mask uint64, present bool) bool {
		if mask == 0 {
			return true
		}
		k := key{mask, present}
		if failed[k] {
			return false
		}
		minRet := int(^uint(0) >> 1)
		for i := 0; i < n; i++ {
			if mask&(1<<uint(i)) != 0 && calls[i].ret < minRet {
				minRet = calls[i].ret
			}
		}
		for i := 0; i < n; i++ {
			if mask&(1<<uint(i)) == 0 || calls[i].inv > minRet {
				continue
			}
			c := calls[i]
			next := present
			switch c.op {
			case 'R':
				next = true
			case 'X':
				next = false
			default:
				if c.seen != present {
					continue
				}
			}
			order = append(order, i)
			if dfs(mask&^(1<<uint(i)), next) {
				return true
			}
			order = order[:len(order)-1]
		}
		failed[k] = true
		return false
	}
	full := uint64(0)
	for i := 0; i < n; i++ {
		full |= 1 << uint(i)
	}
	if dfs(full, init) {
		return true, order
	}
	return false, nil
}

// drop reads while the history stays unexplainable: the smallest failing sub-history that keeps every write
func c14Minimise(init bool, calls []c14call) []c14call {
	cur := append([]c14call{}, calls...)
	for i := 0; i < len(cur); {
		if cur[i].op != 'r' {
			i++
			continue
		}
		try := append(append([]c14call{}, cur[:i]...), cur[i+1:]...)
		if ok, _ := c14Lin(init, try); !ok {
			cur = try
		} else {
			i++
		}
	}
	return cur
}

func (c *ctx) c14Judge(where string, ref int, init bool, calls []c14call, extra map[string]any) {
	sort.SliceStable(calls, func(i, j int) bool { return calls[i].inv < calls[j].inv })
	c.rep.SpecChecks++
	ok, order := c14Lin(init, calls)
	var hist []string
	for _, k := range calls {
		hist = append(hist, fmt.Sprintf("[%d,%d] %s", k.inv, k.ret, k.what))
	}
	desc := map[string]any{"where": where, "ref": ref, "initially_present": init, "calls (invocation tick, return tick)": hist}
	for k, v := range extra {
		desc[k] = v
	}
	emit := calls
	if !ok {
		emit = c14Minimise(init, calls)
		var mh []string
		for _, k := range emit {
			mh = append(mh, fmt.Sprintf("[%d,%d] %s", k.inv, k.ret, k.what))
		}
		desc["smallest unexplainable sub-history (reads dropped)"] = mh
	}
	var cq, wq []string
	for _, k := range emit {
		cq = append(cq, k.coq())
	}
	if ok {
		for _, i := range order {
			wq = append(wq, calls[i].coq())
		}
	}
	// the proved search is exponential without memoisation: it re-decides small histories only
	searchToo := len(emit) <= 9
	overlap := 0
	for i := range calls {
		for j := range calls {
			if i < j && calls[j].inv < calls[i].ret {
				overlap++
			}
		}
	}
	idx := c.addCase(fmt.Sprintf("CLin %s %s %s %s %s", qb(init), qlist(cq), qb(ok), qlist(wq), qb(searchToo)), desc, overlap > 0)
	c.count("overlapping call pairs per ref history", c14bucket(overlap))
	c.count("calls per ref history", c14bucket(len(calls)))
	if !ok {
		c.violation(idx, "c14-not-linearizable:"+strings.FieldsFunc(where, func(r rune) bool { return r == '(' || r == '[' || r == ',' || r == ' ' })[0],
			fmt.Sprintf("%s: the calls on ref #%d have no sequential ordering that respects real time and answers as the reference map does", where, ref), desc)
	}
}

func c14bucket(n int) string {
	switch {
	case n == 0:
		return "0"
	case n < 5:
		return "1-4"
	case n < 20:
		return "5-19"
	case n < 50:
		return "20-49"
	}
	return "50+"
}

// ---- concurrent programs over a store ----
type c14op struct {
	kind string // receive fetch stat remove enum
	b    int
}
type c14rec struct {
	op       c14op
	inv, ret int
	present  bool
	list     []int
	err      string
	bad      string
	badClass string
}

type c14backend struct {
	name     string
	spec     *cfgNode
	noRemove bool
	build    func(dir string) (blobserver.Storage, error) // instead of spec
}

// the file-per-blob store over a VFS whose every call is preceded by a random yield or short sleep
type c14vfs struct{ files.VFS }

func (v *c14vfs) Remove(p string) error               { c14jit(); return v.VFS.Remove(p) }
func (v *c14vfs) RemoveDir(p string) error            { c14jit(); return v.VFS.RemoveDir(p) }
func (v *c14vfs) Stat(p string) (os.FileInfo, error)  { c14jit(); return v.VFS.Stat(p) }
func (v *c14vfs) Lstat(p string) (os.FileInfo, error) { c14jit(); return v.VFS.Lstat(p) }
func (v *c14vfs) MkdirAll(p string, m os.FileMode) error {
	c14jit()
	err := v.VFS.MkdirAll(p, m)
	c14jit()
	if g := c14tempGate.Load(); g != nil {
		g.arrived <- struct{}{}
		<-g.release
	}
	return err
}
func (v *c14vfs) Rename(a, b string) error { c14jit(); return v.VFS.Rename(a, b) }
func (v *c14vfs) ReadDirNames(d string) ([]string, error) {
	c14jit()
	n, err := v.VFS.ReadDirNames(d)
	c14jit()
	return n, err
}
func (v *c14vfs) Open(p string) (files.ReadableFile, error) { c14jit(); return v.VFS.Open(p) }
func (v *c14vfs) TempFile(d, pre string) (files.WritableFile, error) {
	c14jit()
	return v.VFS.TempFile(d, pre)
}

// a scenario can hold a files store over c14vfs right after its next MkdirAll
var c14tempGate atomic.Pointer[c14gate]

func (be c14backend) short() string {
	return strings.FieldsFunc(be.name, func(r rune) bool { return r == '(' || r == '[' })[0]
}

func c14Backends() []c14backend {
	mem := func() *cfgNode { return &cfgNode{Kind: "leaf", Leaf: "memory"} }
	return []c14backend{
		{name: "memory", spec: mem()},
		{name: "localdisk", spec: &cfgNode{Kind: "leaf", Leaf: "localdisk"}},
		{name: "localdisk(queue directory)", spec: &cfgNode{Kind: "leaf", Leaf: "localdisk", Detail: "queue"}},
		{name: "files(queue directory, yields around every file-system call)", build: func(dir string) (blobserver.Storage, error) {
			root := filepath.Join(dir, "queue-verif")
			if err := os.MkdirAll(root, 0o755); err != nil {
				return nil, err
			}
			return files.NewStorage(&c14vfs{files.OSFS()}, root), nil
		}},
		{name: "diskpacked(packs of 300 bytes, memory index)", spec: &cfgNode{Kind: "leaf", Leaf: "diskpacked", Detail: "300,memory"}},
		{name: "diskpacked(packs of 300 bytes, leveldb index)", spec: &cfgNode{Kind: "leaf", Leaf: "diskpacked", Detail: "300,leveldb"}},
		{name: "blobpacked(memory)", spec: &cfgNode{Kind: "leaf", Leaf: "blobpacked", Detail: "memory"}},
		{name: "encrypt(memory)", spec: &cfgNode{Kind: "leaf", Leaf: "encrypt", Detail: "memory"}, noRemove: true},
		{name: "proxycache[memory memory]", spec: &cfgNode{Kind: "proxycache", Kids: []*cfgNode{mem(), mem()}}},
		{name: "shard[memory localdisk]", spec: &cfgNode{Kind: "shard", Kids: []*cfgNode{mem(), {Kind: "leaf", Leaf: "localdisk"}}}},
		{name: "namespace[memory]", spec: &cfgNode{Kind: "namespace", Detail: "memory", Kids: []*cfgNode{mem()}}},
		{name: "overlay[memory memory]", spec: &cfgNode{Kind: "overlay", Detail: "memory", HasDel: true, Kids: []*cfgNode{mem(), mem()}}},
		{name: "replica[memory memory]", spec: &cfgNode{Kind: "replica", Kids: []*cfgNode{mem(), mem()}}},
		{name: "cond[memory memory]", spec: &cfgNode{Kind: "cond", Kids: []*cfgNode{mem(), mem()}}},
	}
}

var c14clock atomic.Int64

func c14tick() int { return int(c14clock.Add(1)) }

func c14RunProgram(s blobserver.Storage, blobs []*c03blob, progs [][]c14op) (recs [][]c14rec, hung bool, panics []string) {
	byRef := map[string]int{}
	for i, b := range blobs {
		byRef[b.ref.String()] = i
	}
	ctxb := context.Background()
	recs = make([][]c14rec, len(progs))
	var pmu sync.Mutex
	var wg sync.WaitGroup
	start := make(chan struct{})
	do := func(op c14op) (r c14rec) {
		r.op = op
		b := blobs[op.b]
		r.inv = c14tick()
		switch op.kind {
		case "receive":
			_, err := blobserver.Receive(ctxb, s, b.ref, bytes.NewReader(b.content))
			if err != nil {
				r.err = err.Error()
			}
		case "fetch":
			data, _, err := fetchAll(s, b.ref)
			switch {
			case err == nil:
				r.present = true
				if !bytes.Equal(data, b.content) {
					r.bad = fmt.Sprintf("fetch returned %d bytes which are not the blob's %d bytes", len(data), len(b.content))
					zeroed := len(data) == len(b.content)
					for i := 0; zeroed && i < len(data); i++ {
						zeroed = data[i] == b.content[i] || data[i] == 0
					}
					if zeroed {
						r.badClass = "fetch-presents-zeroed-bytes"
						r.bad = fmt.Sprintf("fetch returned the blob's %d bytes with some or all of them zeroed (a removal of the blob was erasing them)", len(data))
					}
				}
			case errors.Is(err, os.ErrNotExist):
			default:
				r.err = err.Error()
			}
		case "stat":
			sbs, err := statAll(s, []blob.Ref{b.ref})
			if err != nil {
				r.err = err.Error()
			}
			r.present = len(sbs) > 0
			if len(sbs) > 1 || (len(sbs) == 1 && int(sbs[0].Size) != len(b.content)) {
				r.bad = fmt.Sprintf("stat answered %v", sbs)
			}
		case "remove":
			if err := s.RemoveBlobs(ctxb, []blob.Ref{b.ref}); err != nil {
				r.err = err.Error()
			}
		case "enum":
			all, err := dumpStore(s)
			if err != nil {
				r.err = err.Error()
			}
			prev := ""
			for _, sb := range all {
				id, known := byRef[sb.Ref.String()]
				switch {
				case !known:
					r.bad = "enumerate listed a ref nobody uploaded: " + sb.Ref.String()
				case int(sb.Size) != len(blobs[id].content):
					r.bad = fmt.Sprintf("enumerate listed %v with size %d", sb.Ref, sb.Size)
				case sb.Ref.String() <= prev:
					r.bad = "enumerate is not strictly ascending at " + sb.Ref.String()
				}
				prev = sb.Ref.String()
				if known {
					r.list = append(r.list, id)
				}
			}
		}
		r.ret = c14tick()
		return r
	}
	for ci := range progs {
		wg.Add(1)
		go func(ci int) {
			defer wg.Done()
			defer func() {
				if p := recover(); p != nil {
					pmu.Lock()
					panics = append(panics, fmt.Sprint(p))
					pmu.Unlock()
				}
			}()
			<-start
			for _, op := range progs[ci] {
				recs[ci] = append(recs[ci], do(op))
			}
		}(ci)
	}
	close(start)
	done := make(chan struct{})
	go func() { wg.Wait(); close(done) }()
	select {
	case <-done:
	case <-time.After(60 * time.Second):
		return nil, true, nil
	}
	// afterwards, sequentially: what is there now
	var final []c14rec
	for b := range blobs {
		final = append(final, do(c14op{"stat", b}), do(c14op{"fetch", b}))
	}
	final = append(final, do(c14op{"enum", 0}))
	recs = append(recs, final)
	return recs, false, panics
}

func c14Store(c *ctx, dir string) {
	var blobs []*c03blob
	for i, content := range [][]byte{{}, []byte("b"), []byte(strings.Repeat("the third blob fills a pack. ", 8)), []byte("fourth blob"), []byte(strings.Repeat("5", 100))} {
		blobs = append(blobs, &c03blob{id: i + 1, ref: blob.RefFromBytes(content), content: content})
	}
	nprog := 0
	for _, be := range c14Backends() {
		for p := 0; p < c.n(8, 60); p++ {
			nprog++
			nclients := 2 + c.rng.Intn(15)
			if p == 0 {
				nclients = 16
			}
			nb := 2 + c.rng.Intn(len(blobs)-1)
			use := blobs
			switch p {
			case 1: // everybody on one blob
				nb, use, nclients = 1, blobs[2:], 12
			case 2:
				nb, use, nclients = 2, blobs[1:], 12
			case 3, 4: // uploads against removals of one blob (and a few stats): the two-step writers of layered stores interleave
				nb, use, nclients = 1, blobs[3:], 12
			}
			duel := p == 3 || p == 4
			per := 3 + c.rng.Intn(4)
			if nclients*per > 70 {
				per = 70 / nclients
			}
			progs := make([][]c14op, nclients)
			kinds := map[string]int{}
			for ci := range progs {
				for i := 0; i < per; i++ {
					b := c.rng.Intn(nb)
					r := c.rng.Intn(20)
					if duel {
						r = []int{0, 0, 0, 19, 19, 10}[c.rng.Intn(6)]
					}
					var k string
					switch {
					case r < 6:
						k = "receive"
					case r < 10:
						k = "fetch"
					case r < 13:
						k = "stat"
					case r < 15:
						k = "enum"
					default:
						k = "remove"
						if be.noRemove {
							k = "fetch"
						}
					}
					kinds[k]++
					progs[ci] = append(progs[ci], c14op{k, b})
				}
			}
			d := filepath.Join(dir, fmt.Sprintf("p%d", nprog))
			os.MkdirAll(d, 0o700)
			var sto blobserver.Storage
			var root *cfgNode
			if be.build != nil {
				var err error
				if sto, err = be.build(d); err != nil {
					c.rep.Notes = append(c.rep.Notes, be.name+": "+err.Error())
					break
				}
			} else {
				bld := newBuilder(d)
				bld.wrap = func(n *cfgNode, s blobserver.Storage) blobserver.Storage { return &c14store{s: s} }
				bld.kv = func(kind, dd, n string) map[string]any {
					return map[string]any{"type": "verifkv14", "inner": kvConf(kind, dd, n)}
				}
				root = cloneCfg(be.spec)
				if err := bld.build(root); err != nil {
					c.rep.Notes = append(c.rep.Notes, be.name+": "+err.Error())
					break
				}
				sto = root.sto
			}
			c14clock.Store(0)
			recs, hung, panics := c14RunProgram(sto, use[:nb], progs)
			where := fmt.Sprintf("%s, %d clients x %d calls over %d blobs (program %d)", be.name, nclients, per, nb, p)
			c.count("backends", be.name)
			c.count("clients", fmt.Sprint(nclients))
			for k, v := range kinds {
				for i := 0; i < v; i++ {
					c.count("calls", k)
				}
			}
			if hung {
				c.violation(-1, "c14-hang:"+be.short(), where+": the program did not finish within 60 s", map[string]any{"programs": progs})
				continue // the store is left alone: its goroutines may still run
			}
			for _, p := range panics {
				c.violation(-1, "c14-panic:"+be.short(), where+": "+p, map[string]any{"programs": progs})
			}
			// per-ref histories; an enumeration reads every ref at once
			for b := 0; b < nb; b++ {
				var calls []c14call
				for ci, rs := range recs {
					who := fmt.Sprintf("client %d", ci)
					if ci == len(recs)-1 {
						who = "afterwards"
					}
					for _, r := range rs {
						if r.err != "" || r.bad != "" {
							continue
						}
						switch {
						case r.op.kind == "enum":
							seen := false
							for _, id := range r.list {
								seen = seen || id == b
							}
							calls = append(calls, c14call{r.inv, r.ret, 'r', seen, fmt.Sprintf("%s: enumerate -> listed=%v", who, seen)})
						case r.op.b != b:
						case r.op.kind == "receive":
							calls = append(calls, c14call{r.inv, r.ret, 'R', true, who + ": receive"})
						case r.op.kind == "remove":
							calls = append(calls, c14call{r.inv, r.ret, 'X', true, who + ": remove"})
						default:
							calls = append(calls, c14call{r.inv, r.ret, 'r', r.present, fmt.Sprintf("%s: %s -> present=%v", who, r.op.kind, r.present)})
						}
					}
				}
				c.c14Judge(where, b+1, false, calls, nil)
			}
			reported := map[string]bool{}
			for ci, rs := range recs {
				for _, r := range rs {
					if r.err != "" && !reported["e"+r.op.kind] {
						reported["e"+r.op.kind] = true
						c.violation(-1, "c14-call-fails:"+be.short()+":"+r.op.kind, fmt.Sprintf("%s: client %d: %s of blob #%d failed although nothing was injected: %s", where, ci, r.op.kind, r.op.b+1, r.err), map[string]any{"programs": progs})
					}
					if r.bad != "" && !reported["b"+r.op.kind+r.badClass] {
						reported["b"+r.op.kind+r.badClass] = true
						cls := r.op.kind
						if r.badClass != "" {
							cls = r.badClass
						}
						c.violation(-1, "c14-bad-answer:"+be.short()+":"+cls, fmt.Sprintf("%s: client %d: %s", where, ci, r.bad), map[string]any{"programs": progs})
					}
				}
			}
			if root != nil {
				root.closeAll()
			}
			os.RemoveAll(d)
		}
	}
}

// ---- the index fed while it is queried ----
func c14Index(c *ctx, dir string) {
	for round := 0; round < c.n(2, 12); round++ {
		w, err := newWorld()
		must(err)
		kvc := kvConf([]string{"memory", "leveldb"}[round%2], dir, fmt.Sprintf("ix%d", round))
		kv, err := sorted.NewKeyValue(jsonconfig.Obj(kvc))
		must(err)
		iw, err := newIndex(w, kv, true)
		must(err)
		nw := 2 + c.rng.Intn(5) // feeders
		nr := 1 + c.rng.Intn(5) // queriers
		npn := nw * (1 + c.rng.Intn(2))
		// everything is signed beforehand (signing is not what is being interleaved)
		type step struct {
			b   *test.Blob
			set int // 1 sets tag=x, -1 removes it, 0 the permanode itself
			pn  int
		}
		plans := make([][]step, nw)
		pns := make([]*test.Blob, npn)
		for i := range pns {
			pns[i] = w.permanode(0)
			owner := i % nw
			plans[owner] = append(plans[owner], step{pns[i], 0, i})
			t := time.Unix(1400000000+int64(i)*1000, 0)
			for j, nsteps := 0, 1+c.rng.Intn(4); j < nsteps; j++ {
				t = t.Add(time.Second)
				if j%2 == 0 {
					plans[owner] = append(plans[owner], step{w.claim(0, schema.NewSetAttributeClaim(pns[i].BlobRef(), "tag", "x"), t), 1, i})
				} else {
					plans[owner] = append(plans[owner], step{w.claim(0, schema.NewDelAttributeClaim(pns[i].BlobRef(), "tag", ""), t), -1, i})
				}
			}
		}
		for o := range plans { // interleave an owner's permanodes, keeping each one's order
			_ = o
		}
		pnIdx := map[string]int{}
		for i, p := range pns {
			pnIdx[p.BlobRef().String()] = i
		}
		h := iw.handler(w, 0)
		c14clock.Store(0)
		type qrec struct {
			inv, ret int
			seen     map[int]bool
			err      string
			who      string
		}
		type wrec struct {
			inv, ret, pn, set int
			err               string
			who               string
		}
		wrecs := make([][]wrec, nw)
		qrecs := make([][]qrec, nr+1)
		query := func(who string, sorted bool) qrec {
			q := &search.SearchQuery{Constraint: &search.Constraint{Permanode: &search.PermanodeConstraint{Attr: "tag", Value: "x"}}, Limit: -1}
			if !sorted {
				q.Sort = search.Unsorted
			}
			r := qrec{who: who, seen: map[int]bool{}}
			r.inv = c14tick()
			res, err := h.Query(context.Background(), q)
			r.ret = c14tick()
			if err != nil {
				r.err = err.Error()
				return r
			}
			for _, b := range res.Blobs {
				if i, ok := pnIdx[b.Blob.String()]; ok {
					r.seen[i] = true
				}
			}
			return r
		}
		var wg sync.WaitGroup
		var stop atomic.Bool
		var panics []string
		var pmu sync.Mutex
		guard := func() {
			if p := recover(); p != nil {
				pmu.Lock()
				panics = append(panics, fmt.Sprint(p))
				pmu.Unlock()
			}
		}
		for o := range plans {
			wg.Add(1)
			go func(o int) {
				defer wg.Done()
				defer guard()
				for _, s := range plans[o] {
					c14jit()
					r := wrec{pn: s.pn, set: s.set, who: fmt.Sprintf("feeder %d", o)}
					r.inv = c14tick()
					err := iw.deliver(s.b)
					r.ret = c14tick()
					if err != nil {
						r.err = err.Error()
					}
					wrecs[o] = append(wrecs[o], r)
				}
			}(o)
		}
		var rwg sync.WaitGroup
		for q := 0; q < nr; q++ {
			rwg.Add(1)
			go func(q int) {
				defer rwg.Done()
				defer guard()
				for i := 0; i < 48/nr && !stop.Load(); i++ {
					c14jit()
					qrecs[q] = append(qrecs[q], query(fmt.Sprintf("querier %d", q), (q+i)%2 == 0))
					if i%3 == 0 { // a describe of everything, for the corpus read paths
						var refs []blob.Ref
						for _, p := range pns {
							refs = append(refs, p.BlobRef())
						}
						h.Describe(context.Background(), &search.DescribeRequest{BlobRefs: refs, Depth: 1})
					}
				}
			}(q)
		}
		wdone := make(chan struct{})
		go func() { wg.Wait(); stop.Store(true); rwg.Wait(); close(wdone) }()
		where := fmt.Sprintf("index+corpus over %s, %d feeders, %d queriers, %d permanodes (round %d)", kvc["type"], nw, nr, npn, round)
		select {
		case <-wdone:
		case <-time.After(90 * time.Second):
			c.violation(-1, "c14-hang:index", where+": feeding and querying did not finish within 90 s", nil)
			continue
		}
		for _, p := range panics {
			c.violation(-1, "c14-panic:index", where+": "+p, nil)
		}
		qrecs[nr] = append(qrecs[nr], query("afterwards", false), query("afterwards", true))
		c.count("backends", "index+corpus over "+fmt.Sprint(kvc["type"]))
		for pn := range pns {
			var calls []c14call
			for _, rs := range wrecs {
				for _, r := range rs {
					if r.err != "" {
						c.violation(-1, "c14-call-fails:index:receive", fmt.Sprintf("%s: %s: the index refused a blob: %s", where, r.who, r.err), nil)
						continue
					}
					if r.pn != pn || r.set == 0 {
						continue
					}
					if r.set > 0 {
						calls = append(calls, c14call{r.inv, r.ret, 'R', true, r.who + ": claim tag=x indexed"})
					} else {
						calls = append(calls, c14call{r.inv, r.ret, 'X', true, r.who + ": claim removing tag indexed"})
					}
				}
			}
			for _, rs := range qrecs {
				for _, r := range rs {
					if r.err != "" {
						c.violation(-1, "c14-call-fails:index:query", fmt.Sprintf("%s: %s: query failed: %s", where, r.who, r.err), nil)
						continue
					}
					calls = append(calls, c14call{r.inv, r.ret, 'r', r.seen[pn], fmt.Sprintf("%s: query tag=x -> listed=%v", r.who, r.seen[pn])})
				}
			}
			c.c14Judge(where, pn+1, false, calls, nil)
		}
		iw.ix.Close()
	}
}

// ---- an upload that meets its dependency half-way: the lower layer (the blob source) is made to answer the file's
// fetch of its chunk with "not there" and, before that answer reaches the index, another client stores the chunk and has
// it indexed completely.  The file's upload is acknowledged; afterwards it must be indexed. ----
type c14gatedSrc struct {
	*test.Fetcher
	mu     sync.Mutex
	onMiss map[string]func() // ref -> run once when the ref is first asked for and missing
}

func (g *c14gatedSrc) Fetch(ctx context.Context, br blob.Ref) (io.ReadCloser, uint32, error) {
	rc, n, err := g.Fetcher.Fetch(ctx, br)
	if err != nil {
		g.mu.Lock()
		f := g.onMiss[br.String()]
		delete(g.onMiss, br.String())
		g.mu.Unlock()
		if f != nil {
			f() // the other client's upload of br happens here, in full, on its own goroutine
		}
	}
	return rc, n, err
}

func c14IndexDeps(c *ctx) {
	for round := 0; round < c.n(4, 30); round++ {
		w, err := newWorld()
		must(err)
		kv := sorted.NewMemoryKeyValue()
		ix, err := index.New(kv)
		must(err)
		src := &c14gatedSrc{Fetcher: new(test.Fetcher), onMiss: map[string]func(){}}
		for _, s := range w.signers {
			src.AddBlob(s.pub)
		}
		ix.KeyFetcher = w.pubs
		ix.InitBlobSource(src)
		if round%2 == 0 {
			_, err := ix.KeepInMemory()
			must(err)
		}
		npairs := 1 + c.rng.Intn(4)
		type pair struct{ file, chunk *test.Blob }
		var pairs []pair
		var wg sync.WaitGroup
		var emu sync.Mutex
		var errs []string
		deliver := func(b *test.Blob) {
			src.AddBlob(b)
			if _, err := ix.ReceiveBlob(context.Background(), b.BlobRef(), b.Reader()); err != nil {
				emu.Lock()
				errs = append(errs, err.Error())
				emu.Unlock()
			}
		}
		for i := 0; i < npairs; i++ {
			content := fmt.Sprintf("chunk %d of round %d, seed %d", i, round, c.seed)
			chunk := &test.Blob{Contents: content}
			fb := schema.NewFileMap(fmt.Sprintf("file-%d-%d.txt", round, i))
			must(fb.PopulateParts(int64(len(content)), []schema.BytesPart{{Size: uint64(len(content)), BlobRef: chunk.BlobRef()}}))
			js, err := fb.JSON()
			must(err)
			file := &test.Blob{Contents: js}
			pairs = append(pairs, pair{file, chunk})
			ch := chunk
			src.onMiss[chunk.BlobRef().String()] = func() {
				done := make(chan struct{})
				go func() { deliver(ch); close(done) }()
				<-done
			}
		}
		for _, p := range pairs {
			wg.Add(1)
			go func(p pair) { defer wg.Done(); c14jit(); deliver(p.file) }(p)
		}
		fin := make(chan struct{})
		go func() { wg.Wait(); ix.VerifAwaitReindex(); close(fin) }()
		where := fmt.Sprintf("index (corpus: %v), %d files whose chunk is stored and indexed by another client between the file's failed fetch and its registration as waiting (round %d)", round%2 == 0, npairs, round)
		select {
		case <-fin:
		case <-time.After(60 * time.Second):
			c.violation(-1, "c14-hang:index-deps", where+": did not finish within 60 s", nil)
			continue
		}
		c.rep.SpecChecks++
		c.count("backends", "index: upload meets its dependency half-way")
		for _, e := range errs {
			c.violation(-1, "c14-call-fails:index:receive", where+": "+e, nil)
		}
		needs, ready := ix.VerifPendingCounts()
		for i, p := range pairs {
			if _, err := ix.GetFileInfo(context.Background(), p.file.BlobRef()); err != nil {
				c.violation(-1, "c14-index-acked-blob-never-indexed", fmt.Sprintf("%s: file #%d was acknowledged, its chunk is stored and indexed, and the file is still not indexed afterwards (GetFileInfo: %v; %d blobs still waiting, %d queued)", where, i, err, needs, ready), nil)
				break
			}
		}
		if needs != 0 || ready != 0 {
			c.violation(-1, "c14-index-acked-blob-never-indexed", fmt.Sprintf("%s: every upload returned and every dependency is there, yet %d blobs still wait for a dependency and %d are queued", where, needs, ready), nil)
		}
		ix.Close()
	}
}

// ---- files under a queue- directory: an upload is held after it has made its shard directory and before it creates its
// temporary file there; an enumeration passes (it schedules the clean-up of the still empty directory); the upload is let
// go: it must succeed and the blob must be there. ----
func c14QueueDirWriters(c *ctx, dir string) {
	for round := 0; round < c.n(2, 6); round++ {
		root := filepath.Join(dir, fmt.Sprintf("qdw%d", round), "queue-verif")
		if err := os.MkdirAll(root, 0o755); err != nil {
			c.rep.Notes = append(c.rep.Notes, "queue dir: "+err.Error())
			return
		}
		sto := files.NewStorage(&c14vfs{files.OSFS()}, root)
		data := []byte(fmt.Sprintf("queue dir writers %d %d", round, c.seed))
		br := blob.RefFromBytes(data)
		ctxb := context.Background()
		where := "files(queue directory): an upload held between making its shard directory and creating its temporary file, an enumeration in between"
		var rerr error
		finished, pnc := withTimeout(30*time.Second, func() {
			g := &c14gate{arrived: make(chan struct{}, 4), release: make(chan struct{})}
			c14tempGate.Store(g)
			done := make(chan struct{})
			go func() {
				defer close(done)
				_, rerr = blobserver.Receive(ctxb, sto, br, bytes.NewReader(data))
			}()
			<-g.arrived
			c14tempGate.Store(nil)
			if _, err := dumpStore(sto); err != nil {
				c.violation(-1, "c14-call-fails:files:enum", where+": enumerate: "+err.Error(), nil)
			}
			// the clean-up the enumeration scheduled runs (or waits for the upload): if it takes the fresh, still empty
			// shard directory away, go on at once; else give it time (more than it needs on a loaded machine)
			var leaf string
			filepath.Walk(root, func(p string, fi os.FileInfo, err error) error {
				if err == nil && fi.IsDir() && len(p) > len(leaf) {
					leaf = p
				}
				return nil
			})
			for i := 0; i < 150; i++ {
				if _, err := os.Stat(leaf); err != nil {
					break
				}
				time.Sleep(10 * time.Millisecond)
			}
			close(g.release)
			<-done
		})
		c14tempGate.Store(nil)
		if !finished || pnc != nil {
			c.violation(-1, "c14-hang:files", fmt.Sprintf("%s: finished=%v panic=%v", where, finished, pnc), nil)
			continue
		}
		c.count("backends", "files (held upload)")
		c.rep.SpecChecks++
		if rerr != nil {
			c.violation(-1, "c14-call-fails:files:receive", where+": the upload failed: "+rerr.Error(), nil)
			continue
		}
		if sbs, err := statAll(sto, []blob.Ref{br}); err != nil || len(sbs) != 1 {
			c.violation(-1, "c14-not-linearizable:files", fmt.Sprintf("%s: the upload was acknowledged, afterwards stat answers %v (err %v)", where, sbs, err), nil)
		}
	}
}

// ---- overlay: a removal is two steps (upper layer, then the deleted index). A removal is held between the two; a stat
// sees the blob gone; an upload of the blob is started; the removal is let go; the upload is awaited. The upload began
// after the removal had taken effect, so the blob must be there afterwards. ----
func c14OverlayWriters(c *ctx, dir string) {
	for round := 0; round < c.n(2, 6); round++ {
		b := newBuilder(filepath.Join(dir, fmt.Sprintf("ovw%d", round)))
		b.wrap = func(n *cfgNode, s blobserver.Storage) blobserver.Storage { return &c14store{s: s} }
		b.kv = func(kind, dd, n string) map[string]any {
			return map[string]any{"type": "verifkv14", "inner": kvConf(kind, dd, n)}
		}
		root := &cfgNode{Kind: "overlay", HasDel: true, Detail: kvKinds[round%len(kvKinds)], Kids: []*cfgNode{{Kind: "leaf", Leaf: "memory", readOnly: true}, {Kind: "leaf", Leaf: "memory"}}}
		if err := b.build(root); err != nil {
			c.rep.Notes = append(c.rep.Notes, "build overlay: "+err.Error())
			return
		}
		sto := root.sto
		data := []byte(fmt.Sprintf("overlay writers %d %d", round, c.seed))
		br := blob.RefFromBytes(data)
		inLower := round%2 == 1
		ctxb := context.Background()
		if inLower {
			if _, err := blobserver.Receive(ctxb, root.Kids[0].sto, br, bytes.NewReader(data)); err != nil {
				c.rep.Notes = append(c.rep.Notes, "overlay preload: "+err.Error())
			}
		}
		where := fmt.Sprintf("overlay[memory memory] (deleted index: %s), the blob %s the lower layer; a removal held before its deleted-index write", root.Detail, map[bool]string{true: "also in", false: "not in"}[inLower])
		c14clock.Store(0)
		var calls []c14call
		var mu sync.Mutex
		note := func(k c14call) { mu.Lock(); calls = append(calls, k); mu.Unlock() }
		stat := func(who string) {
			inv := c14tick()
			sbs, err := statAll(sto, []blob.Ref{br})
			ret := c14tick()
			if err != nil {
				c.violation(-1, "c14-call-fails:overlay:stat", where+": stat: "+err.Error(), nil)
				return
			}
			note(c14call{inv, ret, 'r', len(sbs) > 0, fmt.Sprintf("%s: stat -> present=%v", who, len(sbs) > 0)})
		}
		recv := func(who string) {
			inv := c14tick()
			_, err := blobserver.Receive(ctxb, sto, br, bytes.NewReader(data))
			ret := c14tick()
			if err != nil {
				c.violation(-1, "c14-call-fails:overlay:receive", where+": receive: "+err.Error(), nil)
				return
			}
			note(c14call{inv, ret, 'R', true, who + ": receive"})
		}
		finished, pnc := withTimeout(30*time.Second, func() {
			recv("client 0")
			stat("client 0")
			g := &c14gate{arrived: make(chan struct{}, 4), release: make(chan struct{})}
			c14commitGate.Store(g)
			removed := make(chan struct{})
			go func() {
				defer close(removed)
				inv := c14tick()
				err := sto.RemoveBlobs(ctxb, []blob.Ref{br})
				ret := c14tick()
				if err != nil {
					c.violation(-1, "c14-call-fails:overlay:remove", where+": remove: "+err.Error(), nil)
					return
				}
				note(c14call{inv, ret, 'X', true, "client 1: remove"})
			}()
			<-g.arrived // the upper layer has let the blob go; the deleted index is not written yet
			c14commitGate.Store(nil)
			if !inLower {
				stat("client 2") // gone already (when the lower layer has it, it still shows through: not observed)
			}
			uploaded := make(chan struct{})
			go func() { defer close(uploaded); recv("client 2") }()
			select { // the upload either completes inside the removal's window or waits for the removal
			case <-uploaded:
			case <-time.After(150 * time.Millisecond):
			}
			close(g.release)
			<-removed
			<-uploaded
			stat("afterwards")
		})
		c14commitGate.Store(nil)
		if !finished || pnc != nil {
			c.violation(-1, "c14-hang:overlay", fmt.Sprintf("%s: finished=%v panic=%v", where, finished, pnc), nil)
			continue
		}
		c.count("backends", "overlay (held removal)")
		c.c14Judge(where, 1, false, calls, nil)
		root.closeAll()
	}
}

// ---- a blobpacked store that really packs: one RemoveBlobs call names many packed blobs (the store looks their rows up
// concurrently inside that call) while other clients read; afterwards none of them may be left ----
func c14Packed(c *ctx, dir string) {
	for round := 0; round < c.n(2, 8); round++ {
		b := newBuilder(filepath.Join(dir, fmt.Sprintf("packed%d", round)))
		b.wrap = func(n *cfgNode, s blobserver.Storage) blobserver.Storage { return &c14store{s: s} }
		b.kv = func(kind, dd, n string) map[string]any {
			return map[string]any{"type": "verifkv14", "inner": kvConf(kind, dd, n)}
		}
		root := &cfgNode{Kind: "leaf", Leaf: "blobpacked", Detail: "memory"}
		if err := b.build(root); err != nil {
			c.rep.Notes = append(c.rep.Notes, "build packed blobpacked: "+err.Error())
			return
		}
		content := make([]byte, 2<<20+c.rng.Intn(1<<20))
		c.rng.Read(content)
		rec := &c04rec{}
		if _, err := schema.WriteFileFromReader(context.Background(), rec, fmt.Sprintf("c14-%d.bin", round), bytes.NewReader(content)); err != nil {
			return
		}
		var refs []blob.Ref
		for _, data := range rec.blobs {
			br := blob.RefFromBytes(data)
			if _, err := blobserver.Receive(context.Background(), root.sto, br, bytes.NewReader(data)); err != nil {
				c.violation(-1, "c14-call-fails:blobpacked:receive", "packed-file scenario: "+err.Error(), nil)
				return
			}
			refs = append(refs, br)
		}
		where := fmt.Sprintf("blobpacked holding a packed file of %d blobs: one RemoveBlobs call for all of them while two clients stat and fetch (round %d)", len(refs), round)
		var wg sync.WaitGroup
		var rmErr error
		var readErrs []string
		var emu sync.Mutex
		wg.Add(1)
		go func() { defer wg.Done(); rmErr = root.sto.RemoveBlobs(context.Background(), refs) }()
		for q := 0; q < 2; q++ {
			wg.Add(1)
			go func(q int) {
				defer wg.Done()
				rng := rand.New(rand.NewSource(int64(round*10 + q)))
				for i := 0; i < 40; i++ {
					br := refs[rng.Intn(len(refs))]
					if _, _, err := fetchAll(root.sto, br); err != nil && !errors.Is(err, os.ErrNotExist) {
						emu.Lock()
						readErrs = append(readErrs, err.Error())
						emu.Unlock()
					}
					statAll(root.sto, []blob.Ref{br})
				}
			}(q)
		}
		fin := make(chan struct{})
		go func() { wg.Wait(); close(fin) }()
		select {
		case <-fin:
		case <-time.After(60 * time.Second):
			c.violation(-1, "c14-hang:blobpacked", where+": did not finish within 60 s", nil)
			return
		}
		c.rep.SpecChecks++
		c.count("backends", "blobpacked with a packed file (one removal of all its blobs)")
		if rmErr != nil {
			c.violation(-1, "c14-call-fails:blobpacked:remove", where+": "+rmErr.Error(), nil)
			continue
		}
		left, _ := statAll(root.sto, refs)
		all, _ := dumpStore(root.sto)
		if len(left) > 0 || len(all) > 0 {
			c.violation(-1, "c14-not-linearizable:blobpacked", fmt.Sprintf("%s: the removal was acknowledged and nobody uploaded anything since, yet %d blobs are still stat-ed and %d enumerated", where, len(left), len(all)), nil)
		}
		for _, e := range readErrs {
			c.violation(-1, "c14-call-fails:blobpacked:fetch", where+": "+e, nil)
			break
		}
		root.closeAll()
	}
}

func runC14(c *ctx) {
	c.rep.Rule = "stores: memory, localdisk (also under a queue- directory, where enumerations clean up empty shard directories), files over a VFS that yields around every file-system call, diskpacked (300-byte packs: a roll-over every other upload; memory and leveldb index), blobpacked, encrypt, proxycache, shard, namespace, overlay, replica, cond, every layer and key/value index wrapped so that each lower-layer call is preceded and followed by a random yield or a sleep of up to 200 us; programs of 2-16 clients (16 in the first program per backend, 12 clients on a single blob in the second) x 3-6 calls (receive 30%, fetch 20%, stat 15%, enumerate 10%, remove 25%) over 2-5 blobs shared by all clients (the empty blob included), then stat+fetch of every blob and an enumerate; every call stamped with a tick of one atomic counter before and after; per ref, the calls (an enumerate counts as a read of every ref) go to the judge of coq/Model/C14.v; " +
		"index+corpus: 2-6 feeders deliver permanodes and set/remove-attribute claims (each permanode's claims by one feeder, dates ascending) while 1-5 queriers run the search handler's query 'permanodes with tag=x' (sorted and unsorted) and describes; per permanode, claims are writes and queries are reads; dependency races: a file schema blob is uploaded, the blob source answers the index's fetch of its chunk with 'not there' and, before that answer arrives, another client uploads the chunk and has it indexed completely: afterwards every acknowledged file must be indexed and nothing may still wait; the harness binary is built with -race and every report of the detector is a violation; non-trivial = a ref history with at least one pair of overlapping calls"
	old := log.Writer()
	log.SetOutput(io.Discard)
	defer log.SetOutput(old)
	dir, err := os.MkdirTemp("", "verif-c14-")
	must(err)
	defer os.RemoveAll(dir)
	_ = rand.Int
	c14Store(c, dir)
	c14OverlayWriters(c, dir)
	c14QueueDirWriters(c, dir)
	c14Packed(c, dir)
	c14Index(c, dir)
	c14IndexDeps(c)
}

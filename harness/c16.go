//go:build verif

package main

import (
	"bytes"
	"context"
	"crypto"
	"encoding/json"
	"fmt"
	"reflect"
	"strings"
	"time"
	"unicode"

	"golang.org/x/crypto/openpgp/armor"
	"golang.org/x/crypto/openpgp/packet"
	"perkeep.org/pkg/blob"
	"perkeep.org/pkg/jsonsign"
)

func init() { props["C16"] = runC16 }

const c16Sep = `,"camliSig":"`

// c16LastIndex is the harness' own search for the last separator (not bytes.LastIndex)
func c16LastIndex(ba []byte) int {
	for i := len(ba) - len(c16Sep); i >= 0; i-- {
		if string(ba[i:i+len(c16Sep)]) == c16Sep {
			return i
		}
	}
	return -1
}

// c16Ref evaluates, with Go's JSON and OpenPGP libraries, the four checks the signing document prescribes, on the pieces
// given by the last separator. It is the reference the implementation's verdict is compared with.
type c16Ref struct {
	idx                            int
	sigjson, payload, keyok, sigok bool
	stage                          int
	bp                             []byte
	signer                         blob.Ref
}

func c16Reference(w *world, ba []byte) c16Ref {
	r := c16Ref{idx: c16LastIndex(ba)}
	if r.idx < 0 {
		r.stage = 0
		return r
	}
	r.bp = append([]byte{}, ba[:r.idx]...)
	bpj := append(append([]byte{}, r.bp...), '}')
	bs := append([]byte("{"), ba[r.idx+1:]...)
	// BS: a JSON object with exactly one key, camliSig, a string
	var sigText string
	sm := map[string]any{}
	if json.Unmarshal(bs, &sm) == nil && len(sm) == 1 {
		if s, ok := sm["camliSig"].(string); ok {
			r.sigjson, sigText = true, s
		}
	}
	// BPJ: JSON with camliVersion and a parseable camliSigner
	pm := map[string]any{}
	if json.Unmarshal(bpj, &pm) == nil {
		if _, ok := pm["camliVersion"]; ok {
			if s, ok := pm["camliSigner"].(string); ok {
				if br, ok := blob.Parse(s); ok {
					r.payload, r.signer = true, br
				}
			}
		}
	}
	var pk *packet.PublicKey
	if r.payload {
		if rc, _, err := w.pubs.Fetch(context.Background(), r.signer); err == nil {
			var buf bytes.Buffer
			buf.ReadFrom(rc)
			rc.Close()
			if block, _ := armor.Decode(&buf); block != nil {
				if p, err := packet.Read(block.Body); err == nil {
					if k, ok := p.(*packet.PublicKey); ok {
						pk, r.keyok = k, true
					}
				}
			}
		}
	}
	if r.sigjson && pk != nil {
		// re-armor as the signing document says: base64 body in lines of 60, the =CRC last
		if eq := strings.LastIndex(sigText, "="); eq >= 0 {
			var b strings.Builder
			b.WriteString("-----BEGIN PGP SIGNATURE-----\n\n")
			body, crc := sigText[:eq], sigText[eq:]
			for len(body) > 0 {
				n := min(len(body), 60)
				b.WriteString(body[:n] + "\n")
				body = body[n:]
			}
			b.WriteString(crc + "\n-----END PGP SIGNATURE-----\n")
			if block, _ := armor.Decode(strings.NewReader(b.String())); block != nil {
				if p, err := packet.Read(block.Body); err == nil {
					if sig, ok := p.(*packet.Signature); ok && (sig.Hash == crypto.SHA1 || sig.Hash == crypto.SHA256) && sig.SigType == packet.SigTypeBinary {
						h := sig.Hash.New()
						h.Write(r.bp)
						r.sigok = pk.VerifySignature(h, sig) == nil
					}
				}
			}
		}
	}
	switch {
	case !r.sigjson:
		r.stage = 1
	case !r.payload:
		r.stage = 2
	case !r.keyok:
		r.stage = 3
	case !r.sigok:
		r.stage = 4
	default:
		r.stage = 5
	}
	return r
}

// c16GoStage maps the implementation's outcome to the stage where it stopped
func c16GoStage(w *world, ba []byte) (stage int, errText string) {
	vr := jsonsign.NewVerificationRequest(string(ba), w.pubs)
	_, err := vr.Verify(context.Background())
	if err == nil {
		return 5, ""
	}
	e := ""
	if vr.Err != nil {
		e = vr.Err.Error()
	}
	full := err.Error() + " / " + e
	switch {
	case strings.Contains(e, "no 13-byte camliSig separator"):
		return 0, full
	case strings.Contains(err.Error(), "parsing signature map failed"):
		return 1, full
	case strings.Contains(err.Error(), "parsing payload map failed"):
		return 2, full
	case strings.Contains(err.Error(), "signature verification failed"):
		return 4, full
	}
	return 3, full // key blob missing / unreadable
}

type c16doc struct {
	unsigned string
	signer   int
	desc     string
}

func c16Docs(c *ctx, w *world, n int) []c16doc {
	var docs []c16doc
	for i := 0; i < n; i++ {
		si := c.rng.Intn(2)
		ref := w.signers[si].ref.String()
		extras := []string{
			`"title":"héllo wörld ☃"`,
			`"nested":{"a":[1,2,{"b":null}],"c":"} ,\"camliSig\":\"x"}`,
			`"camliType":"claim","claimDate":"2011-02-03T04:05:06Z","attribute":"tag","value":"v` + fmt.Sprint(i) + `"`,
			`"camliSig":"look-alike-key"`,
			`"note":",\"camliSig\":\"escaped look-alike"`,
			`"esc":"a\u002c\"camliSig\":\"b"`,
			`"n":` + fmt.Sprint(c.rng.Int63()),
			`"empty":"","arr":[]`,
		}
		var parts []string
		parts = append(parts, `"camliVersion":1`)
		for _, e := range extras {
			if c.rng.Intn(3) == 0 {
				parts = append(parts, e)
			}
		}
		pos := c.rng.Intn(len(parts) + 1)
		parts = append(parts[:pos], append([]string{`"camliSigner":"` + ref + `"`}, parts[pos:]...)...)
		ws := []string{"", " ", "\n  ", "\t"}[c.rng.Intn(4)]
		doc := "{" + ws + strings.Join(parts, ","+ws) + ws + "}" + []string{"", "\n", " \n\t ", "\r\n"}[c.rng.Intn(4)]
		docs = append(docs, c16doc{unsigned: doc, signer: si, desc: fmt.Sprintf("%d fields, ws %q", len(parts)+1, ws)})
	}
	// shapes that every run covers: the last member is an object / empty object / array, written compactly (the text ends
	// in "}}", "{}}" or "]}"), with and without trailing white space
	for i, tail := range []string{`"meta":{"a":1}}`, `"meta":{}}`, `"deep":{"x":{"y":{}}}}`, `"arr":[{}]}`, `"s":"}}"}`, `"meta":{"a":1}}` + "\n\n"} {
		si := i % 2
		docs = append(docs, c16doc{unsigned: `{"camliVersion":1,"camliSigner":"` + w.signers[si].ref.String() + `",` + tail, signer: si, desc: "compact tail " + tail})
	}
	return docs
}

func runC16(c *ctx) {
	c.rep.Rule = "JSON objects with camliVersion/camliSigner in any position, extra keys (unicode, nesting, a real camliSig key, escaped and \\u-escaped look-alike separators in string values), four whitespace styles, trailing white space, documents whose text ends in nested closing braces / brackets, random signature times, two keys; " +
		"each signed by the implementation, then: every position x {bit flip, 'A', '\"', insertion, deletion}, cut-offs, signer reference swapped to the other key, signature spliced from another document, payload re-closed before a second separator; " +
		"all mutations are decided against the reference (accepted => payload bytes and signer unchanged), those around every separator, every 9th position and a random quarter of the rest go to the model (as mutations of the base document, applied inside Coq); non-trivial = distinct mutated document that still contains a separator"
	w, err := newWorld()
	must(err)
	ctxb := context.Background()
	docs := c16Docs(c, w, c.n(3, 60))
	var signedDocs []string
	for di, d := range docs {
		sigTime := time.Unix(1300000000+int64(c.rng.Intn(400000000)), 0)
		sr := &jsonsign.SignRequest{UnsignedJSON: d.unsigned, Fetcher: w.pubs, EntityFetcher: w.ents, SignatureTime: sigTime}
		signed, err := sr.Sign(ctxb)
		c.rep.SpecChecks++
		if err != nil {
			c.violation(-1, "c16-sign-failed", fmt.Sprintf("Sign(%q): %v", d.unsigned, err), nil)
			continue
		}
		signedDocs = append(signedDocs, signed)
		ba := []byte(signed)
		// the model's Sign, given the signature text the implementation produced
		idx := c16LastIndex(ba)
		sigText := ""
		if idx >= 0 && strings.HasSuffix(signed, "\"}\n") {
			sigText = signed[idx+len(c16Sep) : len(signed)-3]
		}
		ci := c.addCase(fmt.Sprintf("CSign %s %s true %s", qs(d.unsigned), qs(sigText), qs(signed)), map[string]any{"op": "sign", "doc": di, "unsigned": d.unsigned, "signed": signed}, true)
		c.count("op", "sign")
		// S1: still JSON, verifies, exposes the original fields
		var orig, got map[string]any
		json.Unmarshal([]byte(d.unsigned), &orig)
		if err := json.Unmarshal(ba, &got); err != nil {
			c.violation(ci, "c16-signed-not-json", fmt.Sprintf("signed document is not valid JSON: %v", err), d.unsigned)
			continue
		}
		delete(got, "camliSig")
		delete(orig, "camliSig")
		if !reflect.DeepEqual(orig, got) {
			c.violation(ci, "c16-fields-changed", "the signed document does not expose the original fields", d.unsigned)
		}
		if st, e := c16GoStage(w, ba); st != 5 {
			c.violation(ci, "c16-signed-does-not-verify", fmt.Sprintf("freshly signed document rejected: %s", e), d.unsigned)
			continue
		}
		origRef := c16Reference(w, ba)
		payload := string(origRef.bp)
		// where the separators are
		var sepPos []int
		for i := 0; i+len(c16Sep) <= len(ba); i++ {
			if string(ba[i:i+len(c16Sep)]) == c16Sep {
				sepPos = append(sepPos, i)
			}
		}
		near := func(p int) bool {
			for _, s := range sepPos {
				if p >= s-3 && p <= s+len(c16Sep)+2 {
					return true
				}
			}
			return p < 3 || p > len(ba)-6
		}
		base := fmt.Sprintf("doc%d", di)
		c.preamble = append(c.preamble, fmt.Sprintf("Definition %s : bytes := %s.", base, qh(ba)))
		try := func(kind string, m []byte, toModel bool, mut ...string) {
			ref := c16Reference(w, m)
			st, e := c16GoStage(w, m)
			c.rep.SpecChecks++
			c.count("mutation", kind)
			c.count("go stage", []string{"no separator", "signature JSON", "payload JSON", "key", "bad signature", "accepted"}[st])
			idx := -1
			if toModel {
				doc := "CVerify " + qh(m)
				if len(mut) == 1 {
					doc = "CVerifyM " + base + " (" + mut[0] + ")"
				}
				idx = c.addCase(fmt.Sprintf("%s %s %s %s %s %s %d", doc, qopt(ref.idx >= 0, fmt.Sprintf("%d%%nat", ref.idx)), qb(ref.sigjson), qb(ref.payload), qb(ref.keyok), qb(ref.sigok), st),
					map[string]any{"op": "verify", "doc": di, "mutation": kind + " " + strings.Join(mut, ""), "base": "the signed document of the 'sign' case of this doc"}, ref.idx >= 0)
			}
			if st == 5 && (string(ref.bp) != payload || ref.signer != origRef.signer) {
				c.violation(idx, "c16-tampered-accepted", fmt.Sprintf("doc %d, %s: accepted although the signed payload or signer changed: %q", di, kind, string(m)), string(m))
			}
			if (st == 5) != (ref.stage == 5) {
				c.violation(idx, "c16-verdict-differs-from-reference", fmt.Sprintf("doc %d, %s: implementation stage %d (%s), reference stage %d", di, kind, st, e, ref.stage), string(m))
			}
		}
		try("none", ba, true)
		step := 1
		if c.quick() {
			step = 1
		}
		for p := 0; p < len(ba); p += step {
			toModel := near(p) || p%9 == 0
			for _, k := range []string{"flip", "A", "quote", "insert", "delete"} {
				var m []byte
				mut := ""
				switch k {
				case "flip":
					m = append([]byte{}, ba...)
					m[p] ^= 1 << uint(c.rng.Intn(8))
					mut = fmt.Sprintf("MSet %d%%nat %d", p, m[p])
				case "A":
					if ba[p] == 'A' {
						continue
					}
					m = append([]byte{}, ba...)
					m[p] = 'A'
					mut = fmt.Sprintf("MSet %d%%nat %d", p, m[p])
				case "quote":
					if ba[p] == '"' {
						continue
					}
					m = append([]byte{}, ba...)
					m[p] = '"'
					mut = fmt.Sprintf("MSet %d%%nat %d", p, m[p])
				case "insert":
					m = append(append(append([]byte{}, ba[:p]...), " ,\"}x"[c.rng.Intn(5)]), ba[p:]...)
					mut = fmt.Sprintf("MIns %d%%nat %d", p, m[p])
				case "delete":
					m = append(append([]byte{}, ba[:p]...), ba[p+1:]...)
					mut = fmt.Sprintf("MDel %d%%nat", p)
				}
				try(k, m, toModel || c.rng.Intn(4) == 0, mut)
			}
		}
		for _, cut := range []int{1, 2, 3, 4, 10, len(ba) / 2} {
			try("truncate", ba[:len(ba)-cut], true, fmt.Sprintf("MCut %d%%nat", cut))
		}
		// the signer reference swapped for the other key's
		other := w.signers[1-d.signer].ref.String()
		try("signer swapped", []byte(strings.Replace(signed, w.signers[d.signer].ref.String(), other, 1)), true)
		// a second, forged tail after the real one
		try("payload re-closed before a second separator", []byte(signed[:len(signed)-2]+c16Sep+sigText+"\"}\n"), true)
		try("trailing garbage", []byte(signed+"x"), true)
		// unsigned members smuggled into the signature object, after the signature
		if end := strings.LastIndex(signed, "}"); end > 0 {
			for _, extra := range []string{`,"value":"evil"`, `,"camliType":"claim","attribute":"x"`, `,"x":{}`, `, "camliSigner" : "sha224-00"`} {
				try("extra member after the signature", []byte(signed[:end]+extra+signed[end:]), true)
			}
		}
		try("white space in the payload", []byte(strings.Replace(signed, ",", ", ", 1)), true)
		if len(signedDocs) > 1 {
			// this document's payload with the previous document's signature
			prev := signedDocs[len(signedDocs)-2]
			pi := c16LastIndex([]byte(prev))
			try("signature spliced from another document", []byte(signed[:idx]+prev[pi:]), true)
		}
	}
	// documents Sign must refuse or handle: no closing brace, not JSON, no signer
	for _, bad := range []string{`{"camliVersion":1,"camliSigner":"` + w.signers[0].ref.String() + `"`, `[]`, `{"camliVersion":1}`, ``, `   `, `{"camliVersion":1,"camliSigner":"` + w.signers[0].ref.String() + `"} x`} {
		sr := &jsonsign.SignRequest{UnsignedJSON: bad, Fetcher: w.pubs, EntityFetcher: w.ents, SignatureTime: time.Unix(1400000000, 0)}
		_, err := sr.Sign(ctxb)
		c.rep.SpecChecks++
		c.count("op", "sign (invalid input)")
		if err == nil {
			c.violation(-1, "c16-invalid-input-signed", fmt.Sprintf("Sign accepted %q", bad), bad)
		}
		// the model refuses exactly the inputs without a closing brace (JSON validity is the parser's business)
		trimmed := strings.TrimRightFunc(bad, unicode.IsSpace)
		if !strings.HasSuffix(trimmed, "}") {
			c.addCase(fmt.Sprintf("CSign %s %s false %s", qs(bad), qs("x"), qs("")), map[string]any{"op": "sign", "doc": bad}, false)
		}
	}
}

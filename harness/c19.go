//go:build verif

package main

import (
	"bytes"
	"context"
	"errors"
	"fmt"
	"io"
	"os"
	"path/filepath"
	"perkeep.org/pkg/blobserver/replica"
	"runtime"
	"sort"
	"strings"
	"sync"
	"time"

	"go4.org/jsonconfig"
	"perkeep.org/pkg/blob"
	"perkeep.org/pkg/blobserver"
	"perkeep.org/pkg/blobserver/memory"
	"perkeep.org/pkg/server"
	"perkeep.org/pkg/sorted"
)

func init() {
	props["C19"] = runC19
	sorted.RegisterKeyValue("verifq", func(cfg jsonconfig.Obj) (sorted.KeyValue, error) {
		name := cfg.RequiredString("name")
		if err := cfg.Validate(); err != nil {
			return nil, err
		}
		c19mu.Lock()
		defer c19mu.Unlock()
		kv := c19queues[name]
		if kv == nil {
			return nil, fmt.Errorf("no verif queue %q", name)
		}
		return kv, nil
	})
}

var (
	c19mu     sync.Mutex
	c19queues = map[string]sorted.KeyValue{}
)

var errC19Dead = errors.New("verif: this incarnation has crashed")
var errC19Fault = errors.New("verif: injected failure")

// the controller: every effect on the shared state happens under mu and is logged in that order
type c19ctl struct {
	destDown bool // every destination write fails while set
	mu       sync.Mutex
	log      []string // Coq trace items
	hlog     []string // readable
	blobs    []*c19blob
	byRef    map[blob.Ref]*c19blob
	src      *memory.Storage
	destRaw  map[blob.Ref]string // what the destination holds, byte for byte
	queue    sorted.KeyValue     // the real rows
	plan     map[string][]string // "fetch/3" -> outcomes for successive attempts
	gates    map[string]chan struct{}
	arrive   map[string]chan struct{}
	inc      *c19inc // current incarnation
	acked    map[int]bool
	nev      map[string]int
}

type c19blob struct {
	id      int
	ref     blob.Ref
	content string
}

type c19inc struct {
	ctl  *c19ctl
	dead bool
	sh   *server.SyncHandler
	src  blobserver.Storage
}

func (ct *c19ctl) next(kind string, id int) string {
	k := fmt.Sprintf("%s/%d", kind, id)
	p := ct.plan[k]
	if len(p) == 0 {
		return "ok"
	}
	ct.plan[k] = p[1:]
	return p[0]
}

func (ct *c19ctl) ev(coq, human string) {
	ct.log = append(ct.log, "TE ("+coq+")")
	ct.hlog = append(ct.hlog, human)
	ct.nev[strings.Fields(coq)[0]]++
}

// crashLocked marks the current incarnation dead
func (ct *c19ctl) crashLocked(why string) {
	if ct.inc.dead {
		return
	}
	ct.inc.dead = true
	ct.ev("ECrash", "crash "+why)
	for _, g := range ct.gates {
		select {
		case <-g:
		default:
			close(g)
		}
	}
	ct.gates = map[string]chan struct{}{}
}

// pause blocks the caller (outside mu) if the outcome is "pause" until released or crashed
func (ct *c19ctl) maybePause(out, key string) {
	if out != "pause" {
		return
	}
	ct.mu.Lock()
	g := make(chan struct{})
	ct.gates[key] = g
	if a := ct.arrive[key]; a != nil {
		close(a)
		delete(ct.arrive, key)
	}
	ct.mu.Unlock()
	<-g
}

// ---- source wrapper (one per incarnation) ----
type c19src struct {
	inc *c19inc
}

func (s *c19src) Fetch(ctx context.Context, br blob.Ref) (io.ReadCloser, uint32, error) {
	ct := s.inc.ctl
	ct.mu.Lock()
	defer ct.mu.Unlock()
	if s.inc.dead {
		return nil, 0, errC19Dead
	}
	b := ct.byRef[br]
	if b == nil {
		return nil, 0, errors.New("unknown blob")
	}
	out := ct.next("fetch", b.id)
	if out == "crash" {
		ct.crashLocked(fmt.Sprintf("before fetching #%d", b.id))
		return nil, 0, errC19Dead
	}
	switch out {
	case "err":
		ct.ev(fmt.Sprintf("EFetch %d FErr", b.id), fmt.Sprintf("fetch #%d: error", b.id))
		return nil, 0, errC19Fault
	case "wrongsize":
		ct.ev(fmt.Sprintf("EFetch %d FWrongSize", b.id), fmt.Sprintf("fetch #%d: wrong size", b.id))
		return io.NopCloser(strings.NewReader(b.content + "x")), uint32(len(b.content) + 1), nil
	case "corrupt":
		ct.ev(fmt.Sprintf("EFetch %d FCorrupt", b.id), fmt.Sprintf("fetch #%d: corrupt bytes", b.id))
		bad := []byte(b.content)
		if len(bad) == 0 {
			bad = []byte("x")
		} else {
			bad[len(bad)/2] ^= 0x20
		}
		return io.NopCloser(bytes.NewReader(bad)), uint32(len(bad)), nil
	}
	rc, size, err := ct.src.Fetch(ctx, br)
	if err != nil {
		ct.ev(fmt.Sprintf("EFetch %d FErr", b.id), fmt.Sprintf("fetch #%d: %v", b.id, err))
		return nil, 0, err
	}
	ct.ev(fmt.Sprintf("EFetch %d FOk", b.id), fmt.Sprintf("fetch #%d: ok", b.id))
	return rc, size, nil
}

func (s *c19src) ReceiveBlob(ctx context.Context, br blob.Ref, r io.Reader) (blob.SizedRef, error) {
	ct := s.inc.ctl
	data, err := io.ReadAll(r)
	if err != nil {
		return blob.SizedRef{}, err
	}
	ct.mu.Lock()
	defer ct.mu.Unlock()
	if s.inc.dead {
		return blob.SizedRef{}, errC19Dead
	}
	b := ct.byRef[br]
	sb, err := ct.src.ReceiveBlob(ctx, br, bytes.NewReader(data))
	if err != nil {
		return sb, err
	}
	ct.ev(fmt.Sprintf("ESrcRecv %d", b.id), fmt.Sprintf("source accepts #%d", b.id))
	return sb, nil
}

func (s *c19src) StatBlobs(ctx context.Context, blobs []blob.Ref, fn func(blob.SizedRef) error) error {
	return s.inc.ctl.src.StatBlobs(ctx, blobs, fn)
}
func (s *c19src) EnumerateBlobs(ctx context.Context, dest chan<- blob.SizedRef, after string, limit int) error {
	return s.inc.ctl.src.EnumerateBlobs(ctx, dest, after, limit)
}
func (s *c19src) RemoveBlobs(ctx context.Context, blobs []blob.Ref) error {
	return errors.New("not in this harness")
}

// ---- destination wrapper ----
type c19dest struct {
	inc *c19inc
}

func (d *c19dest) ReceiveBlob(ctx context.Context, br blob.Ref, r io.Reader) (blob.SizedRef, error) {
	ct := d.inc.ctl
	data, err := io.ReadAll(r)
	if err != nil {
		return blob.SizedRef{}, err
	}
	ct.mu.Lock()
	defer ct.mu.Unlock()
	if d.inc.dead {
		return blob.SizedRef{}, errC19Dead
	}
	b := ct.byRef[br]
	if b == nil {
		return blob.SizedRef{}, errors.New("unknown blob")
	}
	out := ct.next("dest", b.id)
	if ct.destDown {
		out = "err" // the destination is unreachable for now
	}
	switch out {
	case "crash":
		ct.crashLocked(fmt.Sprintf("before the destination write of #%d", b.id))
		return blob.SizedRef{}, errC19Dead
	case "err":
		ct.ev(fmt.Sprintf("EDestRecv %d RErr", b.id), fmt.Sprintf("destination write #%d: error", b.id))
		return blob.SizedRef{}, errC19Fault
	case "wrongsize":
		ct.ev(fmt.Sprintf("EDestRecv %d RWrongSize", b.id), fmt.Sprintf("destination write #%d: acknowledges a wrong size, stores nothing", b.id))
		return blob.SizedRef{Ref: br, Size: uint32(len(data) + 1)}, nil
	}
	// the destination stores whatever bytes it is given (it is the sync handler's job to verify them)
	ct.destRaw[br] = string(data)
	ct.ev(fmt.Sprintf("EDestRecv %d ROk", b.id), fmt.Sprintf("destination write #%d: ok", b.id))
	return blob.SizedRef{Ref: br, Size: uint32(len(data))}, nil
}
func (d *c19dest) StatBlobs(ctx context.Context, blobs []blob.Ref, fn func(blob.SizedRef) error) error {
	return errors.New("not in this harness")
}
func (d *c19dest) EnumerateBlobs(ctx context.Context, dest chan<- blob.SizedRef, after string, limit int) error {
	defer close(dest)
	return nil
}
func (d *c19dest) Fetch(ctx context.Context, br blob.Ref) (io.ReadCloser, uint32, error) {
	return nil, 0, errors.New("not in this harness")
}
func (d *c19dest) RemoveBlobs(ctx context.Context, blobs []blob.Ref) error {
	return errors.New("not in this harness")
}

// ---- queue wrapper ----
type c19queue struct {
	sorted.KeyValue
	inc *c19inc
}

func (q *c19queue) Set(key, value string) error {
	ct := q.inc.ctl
	br, _ := blob.Parse(key)
	ct.mu.Lock()
	b := ct.byRef[br]
	if q.inc.dead || b == nil {
		ct.mu.Unlock()
		return errC19Dead
	}
	out := ct.next("qset", b.id)
	ct.mu.Unlock()
	ct.maybePause(out, fmt.Sprintf("qset/%d", b.id))
	ct.mu.Lock()
	defer ct.mu.Unlock()
	if q.inc.dead {
		return errC19Dead
	}
	switch out {
	case "crash":
		ct.crashLocked(fmt.Sprintf("before queue.Set of #%d", b.id))
		return errC19Dead
	case "err":
		ct.ev(fmt.Sprintf("EQSet %d false", b.id), fmt.Sprintf("queue.Set #%d: error", b.id))
		return errC19Fault
	}
	if err := q.KeyValue.Set(key, value); err != nil {
		return err
	}
	ct.ev(fmt.Sprintf("EQSet %d true", b.id), fmt.Sprintf("queue.Set #%d", b.id))
	return nil
}

func (q *c19queue) Delete(key string) error {
	ct := q.inc.ctl
	br, _ := blob.Parse(key)
	ct.mu.Lock()
	defer ct.mu.Unlock()
	b := ct.byRef[br]
	if q.inc.dead || b == nil {
		return errC19Dead
	}
	out := ct.next("qdel", b.id)
	switch out {
	case "crash":
		ct.crashLocked(fmt.Sprintf("before queue.Delete of #%d", b.id))
		return errC19Dead
	case "err":
		ct.ev(fmt.Sprintf("EQDel %d false", b.id), fmt.Sprintf("queue.Delete #%d: error", b.id))
		return errC19Fault
	}
	if err := q.KeyValue.Delete(key); err != nil {
		return err
	}
	ct.ev(fmt.Sprintf("EQDel %d true", b.id), fmt.Sprintf("queue.Delete #%d", b.id))
	return nil
}

func (q *c19queue) Close() error { return nil }

// ---- scenario driver ----
func (ct *c19ctl) start(c *ctx, n int) {
	inc := &c19inc{ctl: ct}
	ld := newLoader()
	ld.set("/src/", &c19src{inc})
	ld.set("/dst/", &c19dest{inc})
	name := fmt.Sprintf("q%d-%d", c.seed, n)
	c19mu.Lock()
	c19queues[name] = &c19queue{KeyValue: ct.queue, inc: inc}
	c19mu.Unlock()
	ct.mu.Lock()
	ct.inc = inc
	ct.mu.Unlock()
	h, err := blobserver.CreateHandler("sync", ld, jsonconfig.Obj{"from": "/src/", "to": "/dst/", "queue": map[string]any{"type": "verifq", "name": name}})
	if err != nil {
		panic(err)
	}
	inc.sh = h.(*server.SyncHandler)
	inc.src = ld.sto["/src/"]
}

func (ct *c19ctl) snapshotLocked() (q, d []int) {
	it := ct.queue.Find("", "")
	for it.Next() {
		if br, ok := blob.Parse(it.Key()); ok && ct.byRef[br] != nil {
			q = append(q, ct.byRef[br].id)
		}
	}
	it.Close()
	for br := range ct.destRaw {
		d = append(d, ct.byRef[br].id)
	}
	sort.Ints(q)
	sort.Ints(d)
	return
}

func ints(xs []int) string {
	var s []string
	for _, x := range xs {
		s = append(s, fmt.Sprint(x))
	}
	return "[" + strings.Join(s, "; ") + "]"
}

// observe logs a snapshot and checks the durability invariant on the implementation's real state
func (ct *c19ctl) observe(c *ctx, where string) (bad string) {
	ct.mu.Lock()
	defer ct.mu.Unlock()
	q, d := ct.snapshotLocked()
	ct.log = append(ct.log, fmt.Sprintf("TObs %s %s", ints(q), ints(d)))
	ct.hlog = append(ct.hlog, fmt.Sprintf("observe (%s): queue %v dest %v", where, q, d))
	inQ, inD := map[int]bool{}, map[int]bool{}
	for _, x := range q {
		inQ[x] = true
	}
	for _, x := range d {
		inD[x] = true
	}
	c.rep.SpecChecks++
	for id := range ct.acked {
		if !inQ[id] && !inD[id] {
			return fmt.Sprintf("%s: upload of #%d was acknowledged but the blob is neither at the destination nor in the persistent queue", where, id)
		}
	}
	for br, data := range ct.destRaw {
		if data != ct.byRef[br].content {
			return fmt.Sprintf("%s: the destination holds #%d with bytes that differ from the source's", where, ct.byRef[br].id)
		}
	}
	return ""
}

func (ct *c19ctl) upload(b *c19blob) error {
	ct.mu.Lock()
	inc := ct.inc
	ct.mu.Unlock()
	// uploads reach a sync source the ways they do in a server: verified (the upload handlers), unverified (what a
	// replica, the file writer and the packed / encrypting stores use for blobs they made themselves), or through a replica
	// ... or through the routing wrapper a stock configuration puts in front of the store the syncs read from
	// (cond: /bs-and-maybe-also-index/ -> /bs/). (shard hands a blob to its sub-store without telling that store's hub:
	// a sync reading from one shard does not hear of uploads made through the shard wrapper; no configuration does that
	// and no document promises it, so it is not among the upload paths.)
	var err error
	switch b.id % 4 {
	case 0:
		_, err = blobserver.Receive(context.Background(), inc.src, b.ref, strings.NewReader(b.content))
	case 1:
		_, err = blobserver.ReceiveNoHash(context.Background(), inc.src, b.ref, strings.NewReader(b.content))
	case 2:
		rep := replica.NewForTest([]blobserver.Storage{inc.src, &memory.Storage{}})
		_, err = blobserver.Receive(context.Background(), rep, b.ref, strings.NewReader(b.content))
	default:
		ld := newLoader()
		ld.set("/c19src/", inc.src)
		var front blobserver.Storage
		front, err = blobserver.CreateStorage("cond", ld, jsonconfig.Obj{"write": map[string]any{"if": "isSchema", "then": "/c19src/", "else": "/c19src/"}, "read": "/c19src/"})
		if err == nil {
			_, err = blobserver.Receive(context.Background(), front, b.ref, strings.NewReader(b.content))
		}
	}
	ct.mu.Lock()
	defer ct.mu.Unlock()
	if err == nil && !inc.dead {
		ct.ev(fmt.Sprintf("EAck %d", b.id), fmt.Sprintf("upload of #%d acknowledged", b.id))
		ct.acked[b.id] = true
		return nil
	}
	if err == nil {
		err = errC19Dead
	}
	ct.hlog = append(ct.hlog, fmt.Sprintf("upload of #%d failed: %v", b.id, err))
	return err
}

// settle waits until no copy is in flight and the log has stopped growing
func (ct *c19ctl) settle(max time.Duration) {
	deadline := time.Now().Add(max)
	last, stable := -1, 0
	for time.Now().Before(deadline) {
		ct.mu.Lock()
		inc, n := ct.inc, len(ct.log)
		ct.mu.Unlock()
		_, copying := inc.sh.VerifPending()
		if copying == 0 && n == last {
			stable++
			if stable >= 3 {
				return
			}
		} else {
			stable = 0
		}
		last = n
		time.Sleep(2 * time.Millisecond)
	}
}

// ---- fullSyncOnStart: the handler first copies what the source already holds, then serves new uploads like any other ----
func c19FullSyncOnStart(c *ctx) {
	for round := 0; round < 2; round++ {
		src, dst := &memory.Storage{}, &memory.Storage{}
		ctxb := context.Background()
		put := func(sto blobserver.Storage, content string) blob.Ref {
			br := blob.RefFromString(content)
			if _, err := blobserver.Receive(ctxb, sto, br, strings.NewReader(content)); err != nil {
				c.rep.Notes = append(c.rep.Notes, "full sync upload: "+err.Error())
			}
			return br
		}
		var old []blob.Ref
		for i := 0; i < 3+round*4; i++ {
			old = append(old, put(src, fmt.Sprintf("held by the source before the sync starts %d %d %d", round, i, c.seed)))
		}
		ld := newLoader()
		ld.set("/src/", src)
		ld.set("/dst/", dst)
		h, err := blobserver.CreateHandler("sync", ld, jsonconfig.Obj{"from": "/src/", "to": "/dst/", "queue": map[string]any{"type": "memory"}, "fullSyncOnStart": true})
		if err != nil {
			c.rep.Notes = append(c.rep.Notes, "sync with fullSyncOnStart: "+err.Error())
			return
		}
		sh := h.(*server.SyncHandler)
		has := func(refs []blob.Ref) bool {
			n := 0
			dst.StatBlobs(ctxb, refs, func(blob.SizedRef) error { n++; return nil })
			return n == len(refs)
		}
		waitFor := func(refs []blob.Ref) bool {
			for i := 0; i < 1500; i++ {
				if has(refs) {
					return true
				}
				sh.VerifWake()
				time.Sleep(10 * time.Millisecond)
			}
			return false
		}
		c.rep.SpecChecks++
		c.count("scenarios", "fullSyncOnStart")
		if !waitFor(old) {
			c.violation(-1, "c19-fullsync-not-delivered", fmt.Sprintf("fullSyncOnStart: the %d blobs the source held at start-up are not all at the destination after 15 s", len(old)), nil)
			continue
		}
		var fresh []blob.Ref
		for i := 0; i < 3; i++ {
			fresh = append(fresh, put(src, fmt.Sprintf("uploaded after the full sync %d %d %d", round, i, c.seed)))
		}
		c.rep.SpecChecks++
		if !waitFor(fresh) {
			c.violation(-1, "c19-not-delivered-after-fullsync", fmt.Sprintf("fullSyncOnStart: %d uploads acknowledged after the full sync of %d blobs are not at the destination after 15 s (the sync loop does not run)", len(fresh), len(old)), nil)
		}
	}
}

// ---- two sync handlers on one source (the stock layout: store -> index and store -> replica): a transient failure of one
// handler's queue must not keep the other destination from getting what the source accepted ----
type c19flakyQueue struct {
	sorted.KeyValue
	mu   sync.Mutex
	fail map[string]int // key -> Set calls still to fail
}

func (q *c19flakyQueue) Set(key, value string) error {
	q.mu.Lock()
	n := q.fail[key]
	if n > 0 {
		q.fail[key] = n - 1
	}
	q.mu.Unlock()
	if n > 0 {
		return errC19Fault
	}
	return q.KeyValue.Set(key, value)
}

func c19TwoHandlers(c *ctx) {
	for round := 0; round < 2; round++ {
		src, dstA, dstB := &memory.Storage{}, &memory.Storage{}, &memory.Storage{}
		ctxb := context.Background()
		qA := &c19flakyQueue{KeyValue: sorted.NewMemoryKeyValue(), fail: map[string]int{}}
		qB := &c19flakyQueue{KeyValue: sorted.NewMemoryKeyValue(), fail: map[string]int{}}
		nameA, nameB := fmt.Sprintf("two-a-%d-%d", c.seed, round), fmt.Sprintf("two-b-%d-%d", c.seed, round)
		c19mu.Lock()
		c19queues[nameA], c19queues[nameB] = qA, qB
		c19mu.Unlock()
		ld := newLoader()
		ld.set("/src/", src)
		ld.set("/dsta/", dstA)
		ld.set("/dstb/", dstB)
		hA, errA := blobserver.CreateHandler("sync", ld, jsonconfig.Obj{"from": "/src/", "to": "/dsta/", "queue": map[string]any{"type": "verifq", "name": nameA}})
		hB, errB := blobserver.CreateHandler("sync", ld, jsonconfig.Obj{"from": "/src/", "to": "/dstb/", "queue": map[string]any{"type": "verifq", "name": nameB}})
		if errA != nil || errB != nil {
			c.rep.Notes = append(c.rep.Notes, fmt.Sprintf("two sync handlers: %v %v", errA, errB))
			return
		}
		shA, shB := hA.(*server.SyncHandler), hB.(*server.SyncHandler)
		// the queue of the handler registered first (round 0) or second (round 1) fails once for every other upload
		flaky := qA
		if round == 1 {
			flaky = qB
		}
		var all []blob.Ref
		failed := 0
		for i := 0; i < 8; i++ {
			content := fmt.Sprintf("one source, two sync destinations %d %d %d", round, i, c.seed)
			br := blob.RefFromString(content)
			if i%2 == 1 {
				flaky.mu.Lock()
				flaky.fail[br.String()] = 1
				flaky.mu.Unlock()
				failed++
			}
			blobserver.Receive(ctxb, src, br, strings.NewReader(content)) // may report the hook's error; the source has the blob
			all = append(all, br)
		}
		var atSrc []blob.Ref
		src.StatBlobs(ctxb, all, func(sb blob.SizedRef) error { atSrc = append(atSrc, sb.Ref); return nil })
		count := func(dst blobserver.Storage) int {
			n := 0
			dst.StatBlobs(ctxb, atSrc, func(blob.SizedRef) error { n++; return nil })
			return n
		}
		for i := 0; i < 1000 && (count(dstA) < len(atSrc) || count(dstB) < len(atSrc)); i++ {
			shA.VerifWake()
			shB.VerifWake()
			time.Sleep(10 * time.Millisecond)
		}
		c.rep.SpecChecks++
		c.count("scenarios", "two handlers on one source")
		if a, b := count(dstA), count(dstB); a < len(atSrc) || b < len(atSrc) {
			c.violation(-1, "c19-second-handler-starved", fmt.Sprintf("one source with two sync handlers, queue.Set of the %s one failing once for %d of %d uploads: the source holds %d blobs, after the failures stopped and 10 s destination A has %d and destination B %d",
				map[int]string{0: "first", 1: "second"}[round], failed, len(all), len(atSrc), a, b), nil)
		}
	}
}

func runC19(c *ctx) {
	c.rep.Rule = "scenarios over a sync handler created by CreateHandler(\"sync\") on instrumented source, destination and queue (shared rows survive restarts): 6-40 uploads (fresh, repeated, the zero-length blob, two concurrent uploads of one blob with the first one's queue.Set held), " +
		"per-blob fault plans on source fetch (error, wrong size, corrupt bytes), destination write (error, wrong size), queue.Set / queue.Delete (error), crashes at chosen points (before queue.Set, before the destination write, before queue.Delete, before a fetch) and at random moments, restarts over the same queue, " +
		"then faults stop and the handler must drain; one scenario with more than 1000 pending blobs (two copy batches); traces are replayed on the model, snapshots compared; ListMissingDestinationBlobs on random sorted enumerations; non-trivial = distinct trace with at least one fault or crash, or a merge with both missing and present blobs"
	c19FullSyncOnStart(c)
	c19TwoHandlers(c)
	nScen := c.n(40, 400)
	for si := 0; si < nScen; si++ {
		big := si == 0
		ok, pan := withTimeout(60*time.Second, func() { c19Scenario(c, si, big) })
		if !ok {
			buf := make([]byte, 1<<22)
			buf = buf[:runtime.Stack(buf, true)]
			os.WriteFile(filepath.Join(c.out, "hang_goroutines.txt"), buf, 0o644)
			c.violation(-1, "c19-hang", fmt.Sprintf("scenario %d did not finish in 60s", si), nil)
			break
		}
		if pan != nil {
			c.violation(-1, "c19-panic", fmt.Sprintf("scenario %d panicked: %v", si, pan), nil)
		}
	}
	c19Missing(c)
	for _, k := range []string{"ECrash", "EFetch", "EDestRecv", "EQDel", "EQSet", "EAck"} {
		if c.hist["events"][k] == 0 {
			c.rep.TargetsMissed = append(c.rep.TargetsMissed, "event "+k)
		}
	}
}

func c19Scenario(c *ctx, si int, big bool) {
	ct := &c19ctl{byRef: map[blob.Ref]*c19blob{}, src: &memory.Storage{}, queue: sorted.NewMemoryKeyValue(), plan: map[string][]string{},
		gates: map[string]chan struct{}{}, arrive: map[string]chan struct{}{}, acked: map[int]bool{}, nev: map[string]int{}, destRaw: map[blob.Ref]string{}}
	nb := 6 + c.rng.Intn(35)
	if big {
		nb = 1100
	}
	emptyAt := c.rng.Intn(2 * nb) // about every second scenario has the empty blob somewhere
	for i := 0; i < nb; i++ {
		content := fmt.Sprintf("blob %d of scenario %d seed %d", i, si, c.seed)
		if !big && i == emptyAt {
			content = "" // the zero-length blob is a blob like any other
		}
		b := &c19blob{id: i + 1, ref: blob.RefFromString(content), content: content}
		ct.blobs = append(ct.blobs, b)
		ct.byRef[b.ref] = b
	}
	incN := 0
	ct.start(c, si*100+incN)
	faults := 0
	var bad string
	check := func(where string) {
		if b := ct.observe(c, where); b != "" && bad == "" {
			bad = b
		}
	}
	restart := func() {
		incN++
		ct.start(c, si*100+incN)
	}
	crashed := func() bool {
		ct.mu.Lock()
		defer ct.mu.Unlock()
		return ct.inc.dead
	}
	outcomes := map[string][]string{"fetch": {"err", "wrongsize", "corrupt", "crash"}, "dest": {"err", "wrongsize", "crash"}, "qset": {"err", "crash"}, "qdel": {"err", "crash"}}
	if big {
		// everything pending at once: the destination is down while all the uploads are made (every copy attempt fails), then
		// it comes back and more than a thousand pending blobs must drain - more than one copy batch
		ct.mu.Lock()
		ct.destDown = true
		ct.mu.Unlock()
		faults++
		for _, b := range ct.blobs {
			ct.upload(b)
		}
		ct.settle(20 * time.Second)
		check("all uploads made, destination was down")
		ct.mu.Lock()
		ct.destDown = false
		ct.mu.Unlock()
	} else {
		for i := 0; i < nb; i++ {
			b := ct.blobs[i]
			// a fault plan for this blob
			if c.rng.Intn(3) == 0 {
				kinds := []string{"fetch", "dest", "qset", "qdel"}
				k := kinds[c.rng.Intn(len(kinds))]
				o := outcomes[k][c.rng.Intn(len(outcomes[k]))]
				ct.mu.Lock()
				key := fmt.Sprintf("%s/%d", k, b.id)
				ct.plan[key] = append(ct.plan[key], o)
				if c.rng.Intn(3) == 0 {
					ct.plan[key] = append(ct.plan[key], outcomes[k][c.rng.Intn(len(outcomes[k]))])
				}
				ct.mu.Unlock()
				faults++
				c.count("fault plans", k+" "+o)
			}
			switch r := c.rng.Intn(12); {
			case r == 0:
				// two concurrent uploads of the same blob: the first one's queue.Set is held; then a crash
				key := fmt.Sprintf("qset/%d", b.id)
				arrived := make(chan struct{})
				ct.mu.Lock()
				ct.plan[key] = append([]string{"pause"}, ct.plan[key]...)
				ct.plan[fmt.Sprintf("dest/%d", b.id)] = append([]string{"err"}, ct.plan[fmt.Sprintf("dest/%d", b.id)]...)
				ct.arrive[key] = arrived
				ct.mu.Unlock()
				go ct.upload(b)
				select {
				case <-arrived:
				case <-time.After(2 * time.Second):
				}
				ct.upload(b)
				ct.settle(time.Second)
				check(fmt.Sprintf("second upload of #%d returned while the first one's queue.Set is still pending", b.id))
				ct.mu.Lock()
				ct.crashLocked("with an upload's queue.Set pending")
				// the hold is for this step only (the first upload may have failed before reaching its queue.Set)
				var keep []string
				for _, o := range ct.plan[key] {
					if o != "pause" {
						keep = append(keep, o)
					}
				}
				ct.plan[key] = keep
				delete(ct.arrive, key)
				ct.mu.Unlock()
				faults++
				c.count("scenario steps", "concurrent duplicate upload + crash")
			case r == 1 && i > 0:
				ct.upload(ct.blobs[c.rng.Intn(i)]) // a repeated upload
				ct.upload(b)
				c.count("scenario steps", "repeated upload")
			default:
				ct.upload(b)
				c.count("scenario steps", "upload")
			}
			if c.rng.Intn(10) == 0 {
				ct.mu.Lock()
				ct.crashLocked("at a random moment")
				ct.mu.Unlock()
				faults++
			}
			if crashed() {
				check("after a crash")
				restart()
				check("after the restart")
				c.count("scenario steps", "restart")
			}
			if c.rng.Intn(5) == 0 {
				ct.settle(300 * time.Millisecond)
				check("mid-run")
			}
		}
	}
	// faults stop; the handler must drain (a crash planned earlier may still fire once)
	deadline := time.Now().Add(30 * time.Second)
	for time.Now().Before(deadline) {
		if crashed() {
			check("after a crash")
			restart()
		}
		ct.mu.Lock()
		inc := ct.inc
		ct.mu.Unlock()
		inc.sh.VerifWake()
		ct.settle(2 * time.Second)
		need, copying := inc.sh.VerifPending()
		ct.mu.Lock()
		left := 0
		for _, p := range ct.plan {
			left += len(p)
		}
		ct.mu.Unlock()
		if len(need) == 0 && copying == 0 && !crashed() {
			break
		}
		_ = left
	}
	check("after the faults stopped and the handler went idle")
	ct.mu.Lock()
	if bad == "" {
		for id := range ct.acked {
			if _, ok := ct.destRaw[ct.blobs[id-1].ref]; !ok {
				bad = fmt.Sprintf("after the faults stopped and the handler went idle: acknowledged upload #%d never reached the destination", id)
				break
			}
		}
	}
	ct.crashLocked("end of scenario")
	term := "CTrace [" + strings.Join(ct.log, "; ") + "]"
	human := ct.hlog
	if len(human) > 400 {
		human = append(append([]string{}, human[:200]...), human[len(human)-200:]...)
	}
	for k, v := range ct.nev {
		for i := 0; i < v; i++ {
			c.count("events", k)
		}
	}
	ct.mu.Unlock()
	idx := c.addCase(term, map[string]any{"scenario": si, "blobs": nb, "history": human}, faults > 0)
	c.count("scenario size", bucket(nb))
	if bad != "" {
		c.violation(idx, "c19-acked-blob-lost-or-altered", bad, map[string]any{"scenario": si, "history": human})
	}
}

func c19Missing(c *ctx) {
	for i := 0; i < c.n(300, 3000); i++ {
		n := c.rng.Intn(12)
		var srcl, dstl []blob.SizedRef
		universe := make([]blob.Ref, 0, n)
		for j := 0; j < n; j++ {
			universe = append(universe, blob.RefFromString(fmt.Sprintf("m%d-%d", i, j)))
		}
		sort.Slice(universe, func(a, b int) bool { return universe[a].Less(universe[b]) })
		rank := map[blob.Ref]int{}
		for j, r := range universe {
			rank[r] = j + 1
			sz := uint32(1 + c.rng.Intn(3))
			if c.rng.Intn(3) != 0 {
				srcl = append(srcl, blob.SizedRef{Ref: r, Size: sz})
			}
			if c.rng.Intn(3) != 0 {
				dsz := sz
				if c.rng.Intn(5) == 0 {
					dsz++
				}
				dstl = append(dstl, blob.SizedRef{Ref: r, Size: dsz})
			}
		}
		srcch, dstch, missc := make(chan blob.SizedRef), make(chan blob.SizedRef), make(chan blob.SizedRef)
		feed := func(ch chan blob.SizedRef, l []blob.SizedRef) {
			for _, sb := range l {
				ch <- sb
			}
			close(ch)
		}
		go feed(srcch, srcl)
		go feed(dstch, dstl)
		var mism []string
		go blobserver.ListMissingDestinationBlobs(missc, func(br blob.Ref) { mism = append(mism, fmt.Sprint(rank[br])) }, srcch, dstch)
		var miss []blob.SizedRef
		for sb := range missc {
			miss = append(miss, sb)
		}
		// drain what the function left unread (it stops reading the destination when the source ends)
		go func() {
			for range dstch {
			}
		}()
		q := func(l []blob.SizedRef) string {
			var s []string
			for _, sb := range l {
				s = append(s, fmt.Sprintf("(%d, %d)", rank[sb.Ref], sb.Size))
			}
			return qlist(s)
		}
		inDst := map[blob.Ref]bool{}
		for _, sb := range dstl {
			inDst[sb.Ref] = true
		}
		var want []blob.SizedRef
		for _, sb := range srcl {
			if !inDst[sb.Ref] {
				want = append(want, sb)
			}
		}
		idx := c.addCase(fmt.Sprintf("CMissing %s %s %s [%s]", q(srcl), q(dstl), q(miss), strings.Join(mism, "; ")),
			map[string]any{"op": "ListMissingDestinationBlobs", "src": q(srcl), "dst": q(dstl)}, len(want) > 0 && len(want) < len(srcl))
		c.rep.SpecChecks++
		c.count("missing", bucket(len(want)))
		if q(want) != q(miss) {
			c.violation(idx, "c19-missing-list", fmt.Sprintf("ListMissingDestinationBlobs(%s, %s) = %s, want %s", q(srcl), q(dstl), q(miss), q(want)), nil)
		}
	}
}

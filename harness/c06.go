//go:build verif

package main

import (
	"context"
	"fmt"
	"io"
	"os"
	"sort"
	"strings"
	"sync"
	"time"

	"perkeep.org/pkg/blob"
	"perkeep.org/pkg/index"
	"perkeep.org/pkg/schema"
	"perkeep.org/pkg/test"
	"perkeep.org/pkg/types/camtypes"
)

func init() { props["C06"] = runC06 }

// every exported lookup, rendered canonically
func observeIndex(ctxb context.Context, ix *index.Index, corp *index.Corpus, refs []blob.Ref, pns []blob.Ref, keyIDs []string) map[string]string {
	obs := map[string]string{}
	for _, r := range refs {
		if bm, err := ix.GetBlobMeta(ctxb, r); err == nil {
			obs["meta "+r.String()] = fmt.Sprintf("%d %s", bm.Size, bm.CamliType)
		} else {
			obs["meta "+r.String()] = "absent"
		}
		obs["deleted "+r.String()] = fmt.Sprint(ix.IsDeleted(r))
		if fi, err := ix.GetFileInfo(ctxb, r); err == nil {
			obs["fileinfo "+r.String()] = fmt.Sprintf("%d %q %q %v", fi.Size, fi.FileName, fi.MIMEType, fi.WholeRef)
		}
		if corp != nil {
			obs["corpus-deleted "+r.String()] = fmt.Sprint(corp.IsDeleted(r))
			if ch, err := corp.GetDirChildren(ctxb, r); err == nil {
				var xs []string
				for c := range ch {
					xs = append(xs, c.String())
				}
				sort.Strings(xs)
				obs["dirchildren "+r.String()] = strings.Join(xs, ",")
			}
			if ps, err := corp.GetParentDirs(ctxb, r); err == nil {
				var xs []string
				for c := range ps {
					xs = append(xs, c.String())
				}
				sort.Strings(xs)
				obs["parents "+r.String()] = strings.Join(xs, ",")
			}
			if wr, ok := corp.GetWholeRef(ctxb, r); ok {
				obs["wholeref "+r.String()] = wr.String()
			}
		}
	}
	for _, pn := range pns {
		claims, _ := ix.AppendClaims(ctxb, nil, pn, "", "")
		sort.Sort(camtypes.ClaimsByDate(claims))
		var xs []string
		for _, cl := range claims {
			xs = append(xs, fmt.Sprintf("%s/%s/%s=%s@%d", cl.BlobRef.String()[7:15], cl.Type, cl.Attr, cl.Value, cl.Date.UnixNano()))
		}
		sort.Strings(xs)
		obs["claims "+pn.String()] = strings.Join(xs, " ")
		if corp != nil {
			for _, attr := range []string{"title", "camliMember", "camliPath:x"} {
				for _, kid := range append([]string{""}, keyIDs...) {
					obs[fmt.Sprintf("attr %s %s %s", pn, attr, kid)] = fmt.Sprintf("%q", corp.AppendPermanodeAttrValues(nil, pn, attr, time.Time{}, kid))
				}
			}
			// the claims in the order the corpus keeps them (dates are distinct in these worlds: the order is determined),
			// and the attribute values as of every claim's date
			var order []string
			corp.ForeachClaim(pn, time.Time{}, func(cl *camtypes.Claim) bool {
				order = append(order, cl.BlobRef.String()[7:15])
				return true
			})
			obs["claim-order "+pn.String()] = strings.Join(order, " ")
			for _, cl := range claims {
				for _, attr := range []string{"title", "camliMember", "camliPath:x"} {
					obs[fmt.Sprintf("attr %s %s as of %d", pn, attr, cl.Date.UnixNano())] = fmt.Sprintf("%q", corp.AppendPermanodeAttrValues(nil, pn, attr, cl.Date, ""))
				}
			}
			t, ok := corp.PermanodeModtime(pn)
			obs["modtime "+pn.String()] = fmt.Sprint(t.UnixNano(), ok)
			t, ok = corp.PermanodeAnyTime(pn)
			obs["anytime "+pn.String()] = fmt.Sprint(t.UnixNano(), ok)
		}
	}
	if corp != nil {
		var xs []string
		corp.EnumeratePermanodesLastModified(func(bm camtypes.BlobMeta) bool { xs = append(xs, bm.Ref.String()[7:15]); return true })
		obs["by-modtime"] = strings.Join(xs, " ")
		xs = nil
		corp.EnumeratePermanodesCreated(func(bm camtypes.BlobMeta) bool { xs = append(xs, bm.Ref.String()[7:15]); return true }, true)
		obs["by-created"] = strings.Join(xs, " ")
		xs = nil
		corp.EnumerateBlobMeta(func(bm camtypes.BlobMeta) bool {
			xs = append(xs, bm.Ref.String()[7:15]+":"+string(bm.CamliType))
			return true
		})
		sort.Strings(xs)
		obs["all-meta"] = strings.Join(xs, " ")
		for _, ct := range []schema.CamliType{schema.TypePermanode, schema.TypeClaim, schema.TypeFile, schema.TypeDirectory} {
			xs = nil
			corp.EnumerateCamliBlobs(ct, func(bm camtypes.BlobMeta) bool { xs = append(xs, bm.Ref.String()[7:15]); return true })
			sort.Strings(xs)
			obs["camli "+string(ct)] = strings.Join(xs, " ")
		}
	}
	return obs
}

func runC06(c *ctx) {
	c.rep.Rule = "the worlds of C05 (keys as blobs, permanodes, attribute/path/member claims, delete chains, files, directories, opaque blobs, missing dependencies) delivered in random order to an index with corpus over each sorted-KV kind; after EVERY delivery (also while blobs wait for dependencies) every exported lookup of (live index, live corpus) is compared with (index.New + corpus loaded) over the same rows; " +
		"non-trivial = distinct (world, prefix) observation point with at least one pending or partially indexed blob, or at least one delete claim delivered"
	w, err := newWorld()
	if err != nil {
		panic(err)
	}
	ctxb := context.Background()
	old := schema.VerifSetMaxStaticSetMembers(3)
	defer schema.VerifSetMaxStaticSetMembers(old)
	keyIDs := []string{w.signers[0].keyID, w.signers[1].keyID}
	kinds := []string{"memory", "leveldb", "kv", "sqlite"}
	tmp, err := os.MkdirTemp("", "verif-c06-")
	if err != nil {
		panic(err)
	}
	defer os.RemoveAll(tmp)
	for wi := 0; wi < c.n(48, 400); wi++ {
		cw := genC05World(c, w, 6+c.rng.Intn(10))
		var deliver []int
		for _, b := range cw.blobs {
			if !cw.absent[b.id] {
				deliver = append(deliver, b.id)
			}
		}
		order := make([]int, len(deliver))
		for i, j := range c.rng.Perm(len(deliver)) {
			order[i] = deliver[j]
		}
		kind := kinds[wi%len(kinds)]
		dir := fmt.Sprintf("%s/%d", tmp, wi)
		kv, err := c10Open(kind, mkdirAll(dir))
		if err != nil {
			c.rep.Notes = append(c.rep.Notes, "open "+kind+": "+err.Error())
			continue
		}
		src := &c06src{Fetcher: new(test.Fetcher), hold: map[string]chan struct{}{}, entered: make(chan string, 8)}
		ix, err := index.New(kv)
		if err != nil {
			panic(err)
		}
		ix.KeyFetcher = new(test.Fetcher) // keys must arrive as blobs
		ix.InitBlobSource(src)
		corp, err := ix.KeepInMemory()
		if err != nil {
			panic(err)
		}
		var refs, pns []blob.Ref
		for _, b := range cw.blobs {
			refs = append(refs, b.b.BlobRef())
			if b.kind == "permanode" {
				pns = append(pns, b.b.BlobRef())
			}
		}
		reported := map[string]bool{}
		anyDelete := false
		restarted := wi%3 == 0 // two worlds of three restart once
		restartAt := c.rng.Intn(len(order))
		for i, id := range order {
			b := cw.blobs[id-1]
			src.AddBlob(b.b)
			// a delete claim that arrived before this blob, its target, is re-indexed in the background once the target is
			// there: hold that re-indexing at its fetch of the claim and look at the orderings in between (a legitimate
			// intermediate state - the point is that the lookups after the re-indexing must not be answered from then)
			var held *wblob
			for _, j := range order[:i] {
				if d := cw.blobs[j-1]; d.kind == "delete" && d.idep == b.id {
					held = d
				}
			}
			var release chan struct{}
			if held != nil {
				release = make(chan struct{})
				src.mu.Lock()
				src.hold[held.b.BlobRef().String()] = release
				src.mu.Unlock()
			}
			if _, err := ix.ReceiveBlob(ctxb, b.b.BlobRef(), b.b.Reader()); err != nil {
				c.rep.Notes = append(c.rep.Notes, "ReceiveBlob: "+err.Error())
			}
			if held != nil {
				select {
				case <-src.entered:
					ix.RLock()
					corp.EnumeratePermanodesLastModified(func(camtypes.BlobMeta) bool { return true })
					corp.EnumeratePermanodesCreated(func(camtypes.BlobMeta) bool { return true }, true)
					ix.RUnlock()
					c.count("observation_points", "lookups while a re-indexing is held")
				case <-time.After(300 * time.Millisecond):
				}
				src.mu.Lock()
				delete(src.hold, held.b.BlobRef().String())
				src.mu.Unlock()
				close(release)
			}
			ix.VerifAwaitReindex()
			if b.kind == "delete" {
				anyDelete = true
			}
			// a client retries an upload: a blob that has arrived arrives a second time - by preference a delete claim
			// that is still waiting for its target
			if c.rng.Intn(3) == 0 {
				dupID := order[c.rng.Intn(i+1)]
				here := map[int]bool{}
				for _, j := range order[:i+1] {
					here[j] = true
				}
				for _, j := range order[:i+1] {
					if d := cw.blobs[j-1]; d.kind == "delete" && !here[d.idep] {
						dupID = j
					}
				}
				d := cw.blobs[dupID-1]
				if _, err := ix.ReceiveBlob(ctxb, d.b.BlobRef(), d.b.Reader()); err != nil {
					c.rep.Notes = append(c.rep.Notes, "ReceiveBlob (second arrival): "+err.Error())
				}
				ix.VerifAwaitReindex()
				c.count("observation_points", "second arrival of a "+d.kind+" blob")
			}
			// what a restart would load, over the very same rows
			ix2, err := index.New(kv)
			if err != nil {
				c.rep.Notes = append(c.rep.Notes, "index.New: "+err.Error())
				break
			}
			ix2.KeyFetcher = new(test.Fetcher)
			ix2.InitBlobSource(src)
			corp2, err := ix2.KeepInMemory()
			if err != nil {
				c.rep.Notes = append(c.rep.Notes, "KeepInMemory: "+err.Error())
				break
			}
			live := observeIndex(ctxb, ix, corp, refs, pns, keyIDs)
			loaded := observeIndex(ctxb, ix2, corp2, refs, pns, keyIDs)
			needs, ready := ix.VerifPendingCounts()
			idx := len(c.casesBuf)
			c.rep.SpecChecks++
			var keys []string
			for k := range live {
				keys = append(keys, k)
			}
			for k := range loaded {
				if _, ok := live[k]; !ok {
					keys = append(keys, k)
				}
			}
			sort.Strings(keys)
			for _, k := range keys {
				if live[k] != loaded[k] {
					cl := "c06-" + strings.SplitN(k, " ", 2)[0]
					if !reported[cl] {
						reported[cl] = true
						c.violation(idx, cl, fmt.Sprintf("%s index, after delivering [%s]: %s: live %q, reloaded %q", kind, cw.describe(order[:i+1]), k, live[k], loaded[k]), nil)
					}
				}
			}
			c.count("observation_points", map[bool]string{true: "with pending/partial blobs", false: "all indexed"}[needs+ready > 0])
			// attribute cache vs the model, per permanode, at this prefix
			_ = idx
			c.addCaseC06(cw, order[:i+1], corp, corp2, w, needs+ready > 0 || anyDelete)
			// the server restarts here: the rest of the history arrives at the index and corpus that were just loaded
			// (always when blobs are waiting at the chosen moment of this world, else now and then)
			if i+1 < len(order) && !restarted && (i == restartAt || (needs+ready > 0 && i > restartAt)) {
				restarted = true
				ix, corp = ix2, corp2
				c.count("observation_points", map[bool]string{true: "restart in mid-history with blobs waiting", false: "restart in mid-history"}[needs+ready > 0])
			}
		}
		kv.Close()
		c.count("kv", kind)
	}
}

// the blob source of the index, able to hold the fetch of one chosen blob
type c06src struct {
	*test.Fetcher
	mu      sync.Mutex
	hold    map[string]chan struct{}
	entered chan string
}

func (s *c06src) Fetch(ctx context.Context, br blob.Ref) (io.ReadCloser, uint32, error) {
	s.mu.Lock()
	ch := s.hold[br.String()]
	s.mu.Unlock()
	if ch != nil {
		select {
		case s.entered <- br.String():
		default:
		}
		<-ch
	}
	return s.Fetcher.Fetch(ctx, br)
}

func mkdirAll(d string) string {
	os.MkdirAll(d, 0o755)
	return d
}

// title claims of each permanode, in arrival order, with the observed cached values (live and reloaded)
func (c *ctx) addCaseC06(cw *c05World, prefix []int, live, loaded *index.Corpus, w *world, nontrivial bool) {
	// only "title" set/del claims exist in these worlds besides member/path claims; the model sees them all
	valTok := map[string]int{"": 0}
	tok := func(v string) int {
		if t, ok := valTok[v]; ok {
			return t
		}
		valTok[v] = len(valTok)
		return valTok[v]
	}
	for _, b := range cw.blobs { // a stable numbering of the values used in this world
		if b.kind == "claim" {
			if sb, err := schema.BlobFromReader(b.b.BlobRef(), strings.NewReader(b.b.Contents)); err == nil {
				if cl, ok := sb.AsClaim(); ok {
					tok(cl.Value())
				}
			}
		}
	}
	for _, pb := range cw.blobs {
		if pb.kind != "permanode" {
			continue
		}
		var arrival []string
		n := 0
		for _, id := range prefix {
			b := cw.blobs[id-1]
			if b.kind != "claim" {
				continue
			}
			sb, err := schema.BlobFromReader(b.b.BlobRef(), strings.NewReader(b.b.Contents))
			if err != nil {
				continue
			}
			cl, ok := sb.AsClaim()
			if !ok || cl.ModifiedPermanode() != pb.b.BlobRef() {
				continue
			}
			// is the claim indexed yet? (its key may not have arrived)
			if _, err := live.GetBlobMeta(context.Background(), b.b.BlobRef()); err != nil {
				continue
			}
			signer := 1
			if cl.Signer() == w.signers[1].ref {
				signer = 2
			}
			kind := map[string]string{"set-attribute": "KSet", "add-attribute": "KAdd", "del-attribute": "KDel"}[string(cl.ClaimType())]
			attr := map[string]int{"title": 1, "camliMember": 2, "camliPath:x": 3}[cl.Attribute()]
			val := tok(cl.Value())
			d, _ := cl.Blob().ClaimDate()
			arrival = append(arrival, fmt.Sprintf("mk %d %d %s %s %d %d", id, signer, qz(d.UnixNano()), kind, attr, val))
			n++
		}
		if n == 0 {
			continue
		}
		// NOTE: arrival order at the corpus can differ from delivery order when a key arrives late (claims are then
		// re-indexed in an unspecified order); the cache theorem says the order does not matter, so any order is a valid input
		var lq, dq []string
		for _, attr := range []string{"title", "camliMember", "camliPath:x"} {
			at := map[string]int{"title": 1, "camliMember": 2, "camliPath:x": 3}[attr]
			for si, kid := range []string{"", w.signers[0].keyID, w.signers[1].keyID} {
				enc := func(vs []string) string {
					var xs []string
					for _, v := range vs {
						xs = append(xs, fmt.Sprint(tok(v)))
					}
					return "[" + strings.Join(xs, "; ") + "]%N"
				}
				lq = append(lq, fmt.Sprintf("(None, %d%%N, %d%%N, %s)", si, at, enc(live.AppendPermanodeAttrValues(nil, pb.b.BlobRef(), attr, time.Time{}, kid))))
				dq = append(dq, fmt.Sprintf("(None, %d%%N, %d%%N, %s)", si, at, enc(loaded.AppendPermanodeAttrValues(nil, pb.b.BlobRef(), attr, time.Time{}, kid))))
			}
		}
		c.addCase(fmt.Sprintf("CCorpus false %s %s", qlist(arrival), qlist(lq)), map[string]any{"op": "live-corpus", "prefix": cw.describe(prefix)}, nontrivial)
		c.addCase(fmt.Sprintf("CCorpus true %s %s", qlist(arrival), qlist(dq)), map[string]any{"op": "reloaded-corpus", "prefix": cw.describe(prefix)}, nontrivial)
	}
}

module verif/harness

go 1.25.3

require (
	filippo.io/age v1.2.1
	go4.org v0.0.0-20230225012048-214862532bf5
	golang.org/x/crypto v0.38.0
	perkeep.org v0.0.0
)

require (
	cloud.google.com/go/compute/metadata v0.3.0 // indirect
	filippo.io/edwards25519 v1.1.0 // indirect
	github.com/bradfitz/latlong v0.0.0-20170410180902-f3db6d0dff40 // indirect
	github.com/coder/websocket v1.8.12 // indirect
	github.com/dustin/go-humanize v1.0.1 // indirect
	github.com/ebitengine/purego v0.9.1 // indirect
	github.com/edsrzf/mmap-go v1.1.0 // indirect
	github.com/fxamacker/cbor/v2 v2.7.0 // indirect
	github.com/gaissmai/bart v0.18.0 // indirect
	github.com/go-json-experiment/json v0.0.0-20250813024750-ebf49471dced // indirect
	github.com/godbus/dbus/v5 v5.1.1-0.20230522191255-76236955d466 // indirect
	github.com/golang/groupcache v0.0.0-20210331224755-41bb18bfe9da // indirect
	github.com/golang/snappy v0.0.4 // indirect
	github.com/google/btree v1.1.2 // indirect
	github.com/google/uuid v1.6.0 // indirect
	github.com/gorilla/websocket v1.5.3 // indirect
	github.com/hdevalence/ed25519consensus v0.2.0 // indirect
	github.com/hjfreyer/taglib-go v0.0.0-20151027170453-0ef8bba9c41b // indirect
	github.com/jsimonetti/rtnetlink v1.4.0 // indirect
	github.com/klauspost/compress v1.17.11 // indirect
	github.com/mattn/go-isatty v0.0.20 // indirect
	github.com/mdlayher/netlink v1.7.3-0.20250113171957-fbb4dce95f42 // indirect
	github.com/mdlayher/socket v0.5.0 // indirect
	github.com/mitchellh/go-ps v1.0.0 // indirect
	github.com/nf/cr2 v0.0.0-20140528043846-05d46fef4f2f // indirect
	github.com/perkeep/heic v0.0.0-20260105010044-a57ca1ce101f // indirect
	github.com/remyoudompheng/bigfft v0.0.0-20230129092748-24d4a6f8daec // indirect
	github.com/rwcarlsen/goexif v0.0.0-20190401172101-9e8deecbddbd // indirect
	github.com/safchain/ethtool v0.3.0 // indirect
	github.com/syndtr/goleveldb v1.0.1-0.20210305035536-64b5b1c73954 // indirect
	github.com/tailscale/goupnp v1.0.1-0.20210804011211-c64d0f06ea05 // indirect
	github.com/tailscale/hujson v0.0.0-20221223112325-20486734a56a // indirect
	github.com/tailscale/peercred v0.0.0-20250107143737-35a0c7bd7edc // indirect
	github.com/tailscale/web-client-prebuilt v0.0.0-20250124233751-d4cd19a26976 // indirect
	github.com/tailscale/wireguard-go v0.0.0-20250716170648-1d0488a3d7da // indirect
	github.com/tetratelabs/wazero v1.9.0 // indirect
	github.com/x448/float16 v0.8.4 // indirect
	go4.org/mem v0.0.0-20240501181205-ae6ca9944745 // indirect
	go4.org/netipx v0.0.0-20231129151722-fdeea329fbba // indirect
	golang.org/x/exp v0.0.0-20250210185358-939b2ce775ac // indirect
	golang.org/x/image v0.27.0 // indirect
	golang.org/x/net v0.40.0 // indirect
	golang.org/x/oauth2 v0.30.0 // indirect
	golang.org/x/sync v0.14.0 // indirect
	golang.org/x/sys v0.33.0 // indirect
	golang.org/x/term v0.32.0 // indirect
	golang.org/x/text v0.25.0 // indirect
	golang.org/x/time v0.11.0 // indirect
	gvisor.dev/gvisor v0.0.0-20250205023644-9414b50a5633 // indirect
	modernc.org/fileutil v1.0.1-0.20200808163328-2079183a536e // indirect
	modernc.org/internal v1.0.3 // indirect
	modernc.org/kv v1.0.4 // indirect
	modernc.org/libc v1.29.0 // indirect
	modernc.org/lldb v1.0.2 // indirect
	modernc.org/mathutil v1.6.0 // indirect
	modernc.org/memory v1.7.2 // indirect
	modernc.org/sortutil v1.1.0 // indirect
	modernc.org/sqlite v1.28.0 // indirect
	modernc.org/zappy v1.0.3 // indirect
	rsc.io/qr v0.2.0 // indirect
	tailscale.com v1.90.9 // indirect
)

replace perkeep.org => /repo

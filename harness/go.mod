module verif/harness

go 1.25.3

require perkeep.org v0.0.0

replace perkeep.org => /repo

module verif/harness

go 1.25.3

require (
	filippo.io/age v1.2.1
	go4.org v0.0.0-20230225012048-214862532bf5
	golang.org/x/crypto v0.38.0
	perkeep.org v0.0.0
)

require (
	cloud.google.com/go/compute/metadata v0.3.0 // indirect
	github.com/bradfitz/latlong v0.0.0-20170410180902-f3db6d0dff40 // indirect
	github.com/dustin/go-humanize v1.0.1 // indirect
	github.com/ebitengine/purego v0.9.1 // indirect
	github.com/edsrzf/mmap-go v1.1.0 // indirect
	github.com/golang/snappy v0.0.4 // indirect
	github.com/google/uuid v1.6.0 // indirect
	github.com/gorilla/websocket v1.5.3 // indirect
	github.com/hjfreyer/taglib-go v0.0.0-20151027170453-0ef8bba9c41b // indirect
	github.com/mattn/go-isatty v0.0.20 // indirect
	github.com/nf/cr2 v0.0.0-20140528043846-05d46fef4f2f // indirect
	github.com/perkeep/heic v0.0.0-20260105010044-a57ca1ce101f // indirect
	github.com/remyoudompheng/bigfft v0.0.0-20230129092748-24d4a6f8daec // indirect
	github.com/rwcarlsen/goexif v0.0.0-20190401172101-9e8deecbddbd // indirect
	github.com/syndtr/goleveldb v1.0.1-0.20210305035536-64b5b1c73954 // indirect
	github.com/tetratelabs/wazero v1.9.0 // indirect
	golang.org/x/image v0.27.0 // indirect
	golang.org/x/net v0.40.0 // indirect
	golang.org/x/oauth2 v0.30.0 // indirect
	golang.org/x/sync v0.14.0 // indirect
	golang.org/x/sys v0.33.0 // indirect
	golang.org/x/text v0.25.0 // indirect
	modernc.org/fileutil v1.0.1-0.20200808163328-2079183a536e // indirect
	modernc.org/internal v1.0.3 // indirect
	modernc.org/kv v1.0.4 // indirect
	modernc.org/libc v1.29.0 // indirect
	modernc.org/lldb v1.0.2 // indirect
	modernc.org/mathutil v1.6.0 // indirect
	modernc.org/memory v1.7.2 // indirect
	modernc.org/sortutil v1.1.0 // indirect
	modernc.org/sqlite v1.28.0 // indirect
	modernc.org/zappy v1.0.3 // indirect
	tailscale.com v1.90.9 // indirect
)

replace perkeep.org => /repo

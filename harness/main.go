//go:build verif

// harness: runs the implementation (perkeep, built from /repo's current tree with -tags verif)
// on generated inputs and writes (a) the observations as Rocq case files, to be compared with the
// model by vm_compute, and (b) report.json with the verdicts of the executable SPEC evaluated on
// the implementation's observations, coverage histograms and samples.
package main

import (
	"encoding/hex"
	"encoding/json"
	"flag"
	"fmt"
	"io"
	"log"
	"math/rand"
	"os"
	"path/filepath"
	"sort"
	"strings"
	"time"
)

type specViolation struct {
	Case   int    `json:"case"`
	Class  string `json:"class"` // narrow signature, matched against KNOWN_FINDINGS.json
	Detail string `json:"detail"`
	Input  any    `json:"input"`
}

type report struct {
	Property           string          `json:"property"`
	Seed               int64           `json:"seed"`
	Tier               string          `json:"tier"`
	Evaluations        int             `json:"evaluations"`
	DistinctNontrivial int             `json:"distinct_nontrivial"`
	Rule               string          `json:"rule"`
	Samples            []any           `json:"samples"`
	Histograms         map[string]any  `json:"histograms"`
	TargetsMissed      []string        `json:"targets_missed"`
	SpecChecks         int             `json:"spec_checks"`
	SpecViolations     []specViolation `json:"spec_violations"`
	CaseFiles          []string        `json:"case_files"`
	CaseInputs         map[string]any  `json:"case_inputs,omitempty"` // index -> printable case, for replays
	Exhaustive         bool            `json:"exhaustive"`
	Notes              []string        `json:"notes,omitempty"`
}

type ctx struct {
	seed   int64
	tier   string
	out    string
	rng    *rand.Rand
	rep    *report
	replay string

	// case writer
	corr     string   // Corr module name, e.g. "C20"
	casesBuf []string // Coq terms, one per case
	preamble []string // Coq definitions emitted before the cases of every shard
	inputs   []any
	distinct map[string]bool
	hist     map[string]map[string]int
}

func newCtx(prop string, seed int64, tier, out string) *ctx {
	c := &ctx{seed: seed, tier: tier, out: out, rng: rand.New(rand.NewSource(seed)),
		rep:      &report{Property: prop, Seed: seed, Tier: tier, Histograms: map[string]any{}, CaseInputs: map[string]any{}},
		distinct: map[string]bool{}, hist: map[string]map[string]int{}, corr: prop}
	return c
}

func (c *ctx) quick() bool { return c.tier != "thorough" }

// pick n for quick / thorough
func (c *ctx) n(q, t int) int {
	if c.quick() {
		return q
	}
	return t
}

func (c *ctx) count(hist, key string) {
	m := c.hist[hist]
	if m == nil {
		m = map[string]int{}
		c.hist[hist] = m
	}
	m[key]++
}

// addCase records one case: its Coq term (constructor application of the Corr module's case type),
// a printable form for replays/samples, and whether it is non-trivial (counted distinct by term text).
func (c *ctx) addCase(term string, printable any, nontrivial bool) int {
	idx := len(c.casesBuf)
	c.casesBuf = append(c.casesBuf, term)
	c.inputs = append(c.inputs, printable)
	c.rep.Evaluations++
	if nontrivial && !c.distinct[term] {
		c.distinct[term] = true
	}
	return idx
}

func (c *ctx) violation(caseIdx int, class, detail string, input any) {
	c.rep.SpecViolations = append(c.rep.SpecViolations, specViolation{Case: caseIdx, Class: class, Detail: detail, Input: input})
}

// Coq literals
func qh(b []byte) string { return `(unhex "` + hex.EncodeToString(b) + `")` }
func qs(s string) string { return qh([]byte(s)) }
func qb(b bool) string {
	if b {
		return "true"
	}
	return "false"
}
func qn(n int) string { return fmt.Sprintf("%d", n) }
func qz(n int64) string {
	if n < 0 {
		return fmt.Sprintf("(%d)%%Z", n)
	}
	return fmt.Sprintf("%d%%Z", n)
}
func qlist(xs []string) string { return "[" + strings.Join(xs, "; ") + "]" }
func qopt(ok bool, v string) string {
	if ok {
		return "(Some " + v + ")"
	}
	return "None"
}

const shardSize = 2000
const shardBytes = 1500000

func (c *ctx) finish() {
	os.MkdirAll(c.out, 0o755)
	// remove stale case files
	old, _ := filepath.Glob(filepath.Join(c.out, "cases_*.v"))
	for _, f := range old {
		os.Remove(f)
	}
	// shards: at most shardSize cases and about shardBytes of term text each (a bigger file costs coqc minutes and
	// gigabytes; three shards are evaluated at a time)
	for s, lo := 0, 0; lo < len(c.casesBuf) || s == 0; s++ {
		hi, size := lo, 0
		for hi < len(c.casesBuf) && hi-lo < shardSize && (size < shardBytes || hi == lo) {
			size += len(c.casesBuf[hi])
			hi++
		}
		var b strings.Builder
		fmt.Fprintf(&b, "From Coq Require Import String.\nFrom Coq Require Import List NArith ZArith.\nFrom PK.Base Require Import Bytes.\nFrom PK.Corr Require Import %s.\nImport ListNotations.\nLocal Open Scope N_scope.\nLocal Open Scope string_scope.\n", c.corr)
		// only the definitions this shard's cases refer to (directly or through other definitions), in their order
		idents := func(text string, into map[string]bool) {
			start := -1
			for i := 0; i <= len(text); i++ {
				isW := i < len(text) && (text[i] == '_' || text[i] == '\'' || (text[i] >= '0' && text[i] <= '9') || (text[i] >= 'a' && text[i] <= 'z') || (text[i] >= 'A' && text[i] <= 'Z'))
				if isW && start < 0 {
					start = i
				} else if !isW && start >= 0 {
					into[text[start:i]] = true
					start = -1
				}
			}
		}
		used := map[string]bool{}
		for i := lo; i < hi; i++ {
			idents(c.casesBuf[i], used)
		}
		keep := make([]bool, len(c.preamble))
		for changed := true; changed; {
			changed = false
			for k, p := range c.preamble {
				if keep[k] {
					continue
				}
				// an entry without a Definition is always kept; one with several if any of them is referred to
				f := strings.Fields(p)
				named, hit := false, false
				for i := 0; i+1 < len(f); i++ {
					if f[i] == "Definition" {
						named = true
						hit = hit || used[strings.TrimSuffix(f[i+1], ":")]
					}
				}
				if !named || hit {
					keep[k], changed = true, true
					idents(p, used)
				}
			}
		}
		for k, p := range c.preamble {
			if !keep[k] {
				continue
			}
			b.WriteString(p)
			b.WriteString("\n")
		}
		fmt.Fprintf(&b, "Definition cases : list %s_case := [\n", strings.ToLower(c.corr))
		for i := lo; i < hi; i++ {
			b.WriteString("  ")
			b.WriteString(c.casesBuf[i])
			if i+1 < hi {
				b.WriteString(";")
			}
			b.WriteString("\n")
		}
		b.WriteString("].\n")
		fmt.Fprintf(&b, "Definition M := Eval vm_compute in mismatches %d cases.\nPrint M.\n", lo)
		name := fmt.Sprintf("cases_%d.v", s)
		os.WriteFile(filepath.Join(c.out, name), []byte(b.String()), 0o644)
		c.rep.CaseFiles = append(c.rep.CaseFiles, name)
		lo = hi
		if hi >= len(c.casesBuf) {
			break
		}
	}
	c.rep.DistinctNontrivial = len(c.distinct)
	for k, v := range c.hist {
		c.rep.Histograms[k] = v
	}
	// samples: a few cases spread over the run
	if len(c.inputs) > 0 {
		step := len(c.inputs)/6 + 1
		for i := 0; i < len(c.inputs); i += step {
			c.rep.Samples = append(c.rep.Samples, map[string]any{"case": i, "input": c.inputs[i]})
		}
	}
	// inputs of violating cases (for replays) and all inputs in a side file
	for _, v := range c.rep.SpecViolations {
		if v.Case >= 0 && v.Case < len(c.inputs) {
			c.rep.CaseInputs[fmt.Sprint(v.Case)] = c.inputs[v.Case]
		}
	}
	all, _ := json.Marshal(c.inputs)
	os.WriteFile(filepath.Join(c.out, "inputs.json"), all, 0o644)
	sort.Strings(c.rep.TargetsMissed)
	js, _ := json.MarshalIndent(c.rep, "", " ")
	os.WriteFile(filepath.Join(c.out, "report.json"), js, 0o644)
}

// withTimeout runs f in its own goroutine; false means it did not finish in time (the goroutine is abandoned)
func withTimeout(d time.Duration, f func()) (ok bool, panicked any) {
	done := make(chan any, 1)
	go func() {
		defer func() { done <- recover() }()
		f()
	}()
	select {
	case p := <-done:
		return true, p
	case <-time.After(d):
		return false, nil
	}
}

var props = map[string]func(*ctx){}

func main() {
	seed := flag.Int64("seed", 1, "PRNG seed")
	tier := flag.String("tier", "quick", "quick|thorough")
	out := flag.String("out", "", "output directory")
	replay := flag.String("replay", "", "replay file")
	flag.Parse()
	if flag.NArg() != 1 {
		fmt.Fprintln(os.Stderr, "usage: harness [flags] <property>")
		os.Exit(2)
	}
	p := strings.ToUpper(flag.Arg(0))
	f, ok := props[p]
	if !ok {
		fmt.Fprintln(os.Stderr, "unknown property", p)
		os.Exit(2)
	}
	log.SetOutput(io.Discard) // perkeep logs a lot
	c := newCtx(p, *seed, *tier, *out)
	c.replay = *replay
	f(c)
	c.finish()
}

//go:build verif

package main

import (
	"bytes"
	"context"
	"encoding/json"
	"errors"
	"fmt"
	"io"
	"strings"
	"sync/atomic"
	"time"

	"go4.org/rollsum"
	"perkeep.org/pkg/blob"
	"perkeep.org/pkg/blobserver"
	"perkeep.org/pkg/blobserver/memory"
	"perkeep.org/pkg/schema"
)

func init() { props["C15"] = runC15 }

// ---- reader side: random part trees ----
type ptree struct {
	kind    string // hole blob sub
	size    int
	off     int
	content []byte
	kids    []*ptree
}

func (p *ptree) denote() []byte {
	switch p.kind {
	case "hole":
		return make([]byte, p.size)
	case "blob":
		return p.content[p.off : p.off+p.size]
	}
	var all []byte
	for _, k := range p.kids {
		all = append(all, k.denote()...)
	}
	return all[p.off : p.off+p.size]
}

func genParts(c *ctx, depth, n int) []*ptree {
	var out []*ptree
	for i := 0; i < n; i++ {
		r := c.rng.Intn(10)
		switch {
		case r < 2:
			out = append(out, &ptree{kind: "hole", size: c.rng.Intn(4)})
		case r < 7 || depth == 0:
			content := make([]byte, 1+c.rng.Intn(7))
			for j := range content {
				content[j] = byte(1 + c.rng.Intn(250))
			}
			off := c.rng.Intn(len(content) + 1)
			size := c.rng.Intn(len(content) - off + 1)
			if c.rng.Intn(3) == 0 {
				off, size = 0, len(content)
			}
			out = append(out, &ptree{kind: "blob", size: size, off: off, content: content})
		default:
			kids := genParts(c, depth-1, 1+c.rng.Intn(3))
			total := 0
			for _, k := range kids {
				total += k.size
			}
			off := c.rng.Intn(total + 1)
			size := c.rng.Intn(total - off + 1)
			if c.rng.Intn(3) == 0 {
				off, size = 0, total
			}
			out = append(out, &ptree{kind: "sub", size: size, off: off, kids: kids})
		}
	}
	return out
}

func storeParts(sto blobserver.Storage, ps []*ptree) []map[string]any {
	ctxb := context.Background()
	var parts []map[string]any
	for _, p := range ps {
		m := map[string]any{"size": p.size}
		switch p.kind {
		case "blob":
			r := blob.RefFromBytes(p.content)
			blobserver.Receive(ctxb, sto, r, bytes.NewReader(p.content))
			m["blobRef"] = r.String()
			if p.off > 0 {
				m["offset"] = p.off
			}
		case "sub":
			js, _ := json.Marshal(map[string]any{"camliVersion": 1, "camliType": "bytes", "parts": storeParts(sto, p.kids)})
			r := blob.RefFromBytes(js)
			blobserver.Receive(ctxb, sto, r, bytes.NewReader(js))
			m["bytesRef"] = r.String()
			if p.off > 0 {
				m["offset"] = p.off
			}
		}
		parts = append(parts, m)
	}
	return parts
}

func qbytesN(b []byte) string {
	var xs []string
	for _, x := range b {
		xs = append(xs, fmt.Sprint(int(x)))
	}
	return "[" + strings.Join(xs, "; ") + "]%N"
}

func coqParts(ps []*ptree) string {
	var xs []string
	for _, p := range ps {
		switch p.kind {
		case "hole":
			xs = append(xs, fmt.Sprintf("Hole %d", p.size))
		case "blob":
			xs = append(xs, fmt.Sprintf("Blob %d %d %s", p.size, p.off, qbytesN(p.content)))
		default:
			xs = append(xs, fmt.Sprintf("Sub %d %d %s", p.size, p.off, coqParts(p.kids)))
		}
	}
	return qlist(xs)
}

func describeParts(ps []*ptree) string {
	var xs []string
	for _, p := range ps {
		switch p.kind {
		case "hole":
			xs = append(xs, fmt.Sprintf("hole(%d)", p.size))
		case "blob":
			xs = append(xs, fmt.Sprintf("blob(len %d, off %d, size %d)", len(p.content), p.off, p.size))
		default:
			xs = append(xs, fmt.Sprintf("bytes(off %d, size %d)[%s]", p.off, p.size, describeParts(p.kids)))
		}
	}
	return strings.Join(xs, " ")
}

// classify the first part feature involved when a read goes wrong (narrow finding signatures)
func partialParts(ps []*ptree) bool {
	for _, p := range ps {
		switch p.kind {
		case "blob":
			if p.off+p.size != len(p.content) {
				return true
			}
		case "sub":
			total := 0
			for _, k := range p.kids {
				total += k.size
			}
			if p.off+p.size != total || partialParts(p.kids) {
				return true
			}
		}
	}
	return false
}

// ---- writer side ----
type recReader struct {
	data      []byte
	mode      string // whole | together | mtogether (one short first read, then data+EOF together) | onebyte | short
	first     int
	pos       int
	eofBefore int // bytes delivered before the Read call that returned EOF (-1: not yet)
	rng       func(int) int
}

func (r *recReader) Read(p []byte) (int, error) {
	if r.pos >= len(r.data) {
		if r.eofBefore < 0 {
			r.eofBefore = r.pos
		}
		return 0, io.EOF
	}
	n := len(r.data) - r.pos
	switch r.mode {
	case "onebyte":
		n = 1
	case "short":
		if m := 1 + r.rng(40000); m < n {
			n = m
		}
	case "mtogether":
		if r.pos == 0 && r.first < n {
			n = r.first
		}
	}
	if n > len(p) {
		n = len(p)
	}
	before := r.pos
	copy(p, r.data[r.pos:r.pos+n])
	r.pos += n
	if (r.mode == "together" || r.mode == "mtogether") && r.pos >= len(r.data) {
		if r.eofBefore < 0 {
			r.eofBefore = before
		}
		return n, io.EOF
	}
	return n, nil
}

type shapeNode struct {
	Blob bool
	Size uint64
	Kids []shapeNode
}

func schemaFromFetcher(sto blob.Fetcher, r blob.Ref) (*schema.Blob, error) {
	b, _, err := fetchAll(sto, r)
	if err != nil {
		return nil, err
	}
	return schema.BlobFromReader(r, bytes.NewReader(b))
}

func readShapes(sto blob.Fetcher, parts []schema.BytesPart) ([]shapeNode, error) {
	var out []shapeNode
	for _, p := range parts {
		if p.BytesRef.Valid() {
			b, err := schemaFromFetcher(sto, p.BytesRef) // bytes schema
			if err != nil {
				return nil, err
			}
			kids, err := readShapes(sto, b.ByteParts())
			if err != nil {
				return nil, err
			}
			out = append(out, shapeNode{Kids: kids, Size: p.Size})
		} else {
			out = append(out, shapeNode{Blob: true, Size: p.Size})
		}
	}
	return out, nil
}

func coqShapes(l []shapeNode) string {
	var xs []string
	for _, s := range l {
		if s.Blob {
			xs = append(xs, fmt.Sprintf("ShBlob %d", s.Size))
		} else {
			xs = append(xs, "ShBytes "+coqShapes(s.Kids))
		}
	}
	return qlist(xs)
}

func runC15(c *ctx) {
	c.rep.Rule = "reader: random well-formed part trees (depth<=3; holes, blob parts with offset/size sub-ranges, nested bytes parts with offset/size) in a memory store, every (offset,length) ReadAt; " +
		"writer: contents of lengths around 0/64KiB/256KiB/1MiB built from random, constant and mixed data (hitting and avoiding roll-sum splits) delivered whole, data+EOF together, byte-by-byte and in short reads; " +
		"static sets: every member count up to M*M+M+3 for M in {3,4,5}; non-trivial = distinct reader tree with a sub-range part or nesting, writer case with more than one chunk, set that needs splitting"
	ctxb := context.Background()
	// ---------- reader ----------
	for t := 0; t < c.n(140, 1500); t++ {
		ps := genParts(c, 2, 1+c.rng.Intn(3))
		total := 0
		var want []byte
		for _, p := range ps {
			total += p.size
			want = append(want, p.denote()...)
		}
		if total > 22 {
			continue
		}
		sto := &memory.Storage{}
		js, _ := json.Marshal(map[string]any{"camliVersion": 1, "camliType": "file", "fileName": "f", "parts": storeParts(sto, ps)})
		fref := blob.RefFromBytes(js)
		blobserver.Receive(ctxb, sto, fref, bytes.NewReader(js))
		fr, err := schema.NewFileReader(ctxb, sto, fref)
		if err != nil {
			c.rep.Notes = append(c.rep.Notes, "NewFileReader: "+err.Error())
			continue
		}
		var reads []string
		idx := len(c.casesBuf)
		partial := partialParts(ps)
		badReported := false
		for off := 0; off <= total+1; off++ {
			for ln := 0; ln <= total+2; ln += 1 + c.rng.Intn(2) {
				buf := make([]byte, ln)
				n, _ := fr.ReadAt(buf, int64(off))
				got := buf[:n]
				reads = append(reads, fmt.Sprintf("(%d, %d, %s)", off, ln, qbytesN(got)))
				c.rep.SpecChecks++
				var exp []byte
				if off < total {
					end := off + ln
					if end > total {
						end = total
					}
					exp = want[off:end]
				}
				if !bytes.Equal(got, exp) && !badReported {
					badReported = true
					cl := "c15-readat"
					if partial {
						cl = "c15-readat-subrange-part"
					}
					c.violation(idx, cl, fmt.Sprintf("parts %s: ReadAt(off %d, len %d) = %v, schema denotes %v", describeParts(ps), off, ln, got, exp), nil)
				}
			}
		}
		if all, err := io.ReadAll(io.NewSectionReader(fr, 0, fr.Size())); err != nil || !bytes.Equal(all, want) {
			if !badReported {
				cl := "c15-readall"
				if partial {
					cl = "c15-readat-subrange-part"
				}
				c.violation(idx, cl, fmt.Sprintf("parts %s: sequential read = %v (err %v), schema denotes %v", describeParts(ps), all, err, want), nil)
			}
		}
		// the same part list encoded by the package's own builder (what pk-put writes for a file whose parts it re-uses):
		// it must decode to the same parts and read back as the same bytes
		{
			var bps []schema.BytesPart
			for _, m := range storeParts(sto, ps) {
				bp := schema.BytesPart{Size: uint64(m["size"].(int))}
				if o, ok := m["offset"].(int); ok {
					bp.Offset = uint64(o)
				}
				if r, ok := m["blobRef"].(string); ok {
					bp.BlobRef = blob.MustParse(r)
				}
				if r, ok := m["bytesRef"].(string); ok {
					bp.BytesRef = blob.MustParse(r)
				}
				bps = append(bps, bp)
			}
			hole := false
			for _, bp := range bps {
				hole = hole || (!bp.BlobRef.Valid() && !bp.BytesRef.Valid())
			}
			fm := schema.NewFileMap("f")
			c.rep.SpecChecks++
			if hole {
				// the builder does not write holes (it reports an error): nothing to compare
				c.count("reader_trees", "top-level hole: not encodable by the builder")
			} else if err := fm.PopulateParts(int64(total), bps); err != nil {
				c.violation(idx, "c15-encode-parts", fmt.Sprintf("parts %s: PopulateParts refuses a consistent part list: %v", describeParts(ps), err), nil)
			} else if js2, err := fm.JSON(); err == nil {
				ref2 := blob.RefFromString(js2)
				blobserver.Receive(ctxb, sto, ref2, strings.NewReader(js2))
				fr2, err := schema.NewFileReader(ctxb, sto, ref2)
				var all []byte
				if err == nil {
					all, err = io.ReadAll(io.NewSectionReader(fr2, 0, fr2.Size()))
				}
				if err != nil || !bytes.Equal(all, want) {
					c.violation(idx, "c15-encode-parts", fmt.Sprintf("parts %s: the file map written by Builder.PopulateParts reads back as %v (err %v), the parts denote %v", describeParts(ps), all, err, want), nil)
				}
				c.count("reader_trees", "also encoded by the builder")
			}
		}
		c.count("reader_trees", map[bool]string{true: "with sub-range or nested parts", false: "whole-blob parts only"}[partial || strings.Contains(describeParts(ps), "bytes(")])
		c.addCase(fmt.Sprintf("CReads (%s)%%nat (%s)%%nat", coqParts(ps), qlist(reads)), map[string]any{"op": "reads", "parts": describeParts(ps), "total": total}, partial)
	}
	// ---------- writer ----------
	sizes := []int{0, 1, 100, 65535, 65536, 65537, 140000, 262143, 262144, 262145, 300000, 600000}
	if !c.quick() {
		sizes = append(sizes, 1<<20-1, 1<<20, 1<<20+1, 1300000, 2200000)
	}
	bigs := []int{1 << 20, 1<<20 + 1, 1200000}
	mkData := func(n int, kind string) []byte {
		d := make([]byte, n)
		switch kind {
		case "random":
			c.rng.Read(d)
		case "mixed":
			c.rng.Read(d[:n/3])
			for i := 2 * n / 3; i < n; i++ {
				d[i] = byte(c.rng.Intn(3))
			}
		}
		return d
	}
	type wcase struct {
		n          int
		kind, mode string
	}
	var wcases []wcase
	for _, n := range sizes {
		wcases = append(wcases, wcase{n, []string{"random", "zeros", "mixed"}[c.rng.Intn(3)], []string{"whole", "together", "short", "onebyte", "mtogether"}[c.rng.Intn(5)]})
	}
	for _, n := range bigs[:c.n(2, 3)] {
		wcases = append(wcases, wcase{n, "zeros", "short"}, wcase{n, "mixed", "together"})
	}
	// data that never splits, long enough for the hard cap to fall inside the last buffered read, i.e. after the source
	// has already reported EOF (first chunk is cut at 256 KiB, the next one must be cut at 1 MiB)
	wcases = append(wcases, wcase{262144 + 1048576 + 50, "zeros", "mtogether"}, wcase{262144 + 1048576 + 1 + c.rng.Intn(30000), "zeros", "mtogether"}, wcase{262144 + 1048576 + 50, "zeros", "together"})
	if !c.quick() {
		wcases = append(wcases, wcase{262144 + 2*1048576 + 7, "zeros", "mtogether"}, wcase{1048576 + 262144 + 32768, "zeros", "mtogether"})
	}
	for i := 0; i < c.n(6, 60); i++ {
		wcases = append(wcases, wcase{c.rng.Intn(700000), []string{"random", "zeros", "mixed"}[c.rng.Intn(3)], []string{"whole", "together", "short", "onebyte"}[c.rng.Intn(4)]})
	}
	// a store that refuses one chosen blob (at once, or after a delay): the writer either reports an error or everything the
	// file schema references has been stored
	for fi := 0; fi < c.n(8, 40); fi++ {
		size := []int{300000, 262144 + 40960, 700000, 90000}[fi%4]
		data := mkData(size, "random")
		// which blobs does a fault-free write produce?
		ref0 := &memory.Storage{}
		if _, err := schema.WriteFileFromReader(ctxb, ref0, "f.bin", bytes.NewReader(data)); err != nil {
			continue
		}
		var all []blob.SizedRef
		blobserver.EnumerateAll(ctxb, ref0, func(sb blob.SizedRef) error { all = append(all, sb); return nil })
		for _, which := range []int{0, len(all) - 1, c.rng.Intn(len(all))} {
			for _, delay := range []time.Duration{0, 20 * time.Millisecond} {
				rs := &c15refuser{Storage: &memory.Storage{}, refuse: all[which].Ref, delay: delay}
				fref, err := schema.WriteFileFromReader(ctxb, rs, "f.bin", bytes.NewReader(data))
				c.rep.SpecChecks++
				c.count("write with a refusing store", map[bool]string{true: "error reported", false: "no error"}[err != nil])
				if err != nil || !rs.refused.Load() {
					continue
				}
				desc := fmt.Sprintf("%d bytes, the store refused blob %d of %d (%d bytes) after %v and the write returned no error", size, which, len(all), all[which].Size, delay)
				fr, rerr := schema.NewFileReader(ctxb, rs.Storage, fref)
				if rerr == nil {
					_, rerr = io.ReadAll(fr)
				}
				if rerr != nil {
					c.violation(-1, "c15-write-missing-blob", desc+": the file does not read back: "+rerr.Error(), nil)
				}
			}
		}
	}
	for _, wc := range wcases {
		data := mkData(wc.n, wc.kind)
		if wc.mode == "onebyte" && wc.n > 400000 {
			wc.mode = "short"
		}
		sto := &memory.Storage{}
		rr := &recReader{data: data, mode: wc.mode, eofBefore: -1, rng: c.rng.Intn, first: 1 + c.rng.Intn(20000)}
		fref, err := schema.WriteFileFromReader(ctxb, sto, "f.bin", rr)
		idx := len(c.casesBuf)
		desc := fmt.Sprintf("%d bytes of %s data, reader %s", wc.n, wc.kind, wc.mode)
		c.rep.SpecChecks++
		if err != nil {
			c.violation(idx, "c15-write-error", desc+": "+err.Error(), nil)
			continue
		}
		fr, err := schema.NewFileReader(ctxb, sto, fref)
		if err != nil {
			c.violation(idx, "c15-write-unreadable", desc+": "+err.Error(), nil)
			continue
		}
		back, rerr := io.ReadAll(fr)
		var cuts []string
		pos := uint64(0)
		maxChunk := uint64(0)
		missing := ""
		fr.ForeachChunk(ctxb, func(_ []blob.Ref, p schema.BytesPart) error {
			cuts = append(cuts, fmt.Sprintf("(%d, %d)", pos, pos+p.Size))
			pos += p.Size
			if p.Size > maxChunk {
				maxChunk = p.Size
			}
			if b, _, err := fetchAll(sto, p.BlobRef); err != nil || uint64(len(b)) != p.Size {
				missing = p.BlobRef.String()
			}
			return nil
		})
		if rerr != nil || !bytes.Equal(back, data) || fr.Size() != int64(len(data)) {
			c.violation(idx, "c15-write-readback", fmt.Sprintf("%s: read back %d bytes (err %v)", desc, len(back), rerr), nil)
		}
		if maxChunk > 1<<20 {
			c.violation(idx, "c15-write-chunk-too-large", fmt.Sprintf("%s: chunk of %d bytes", desc, maxChunk), nil)
		}
		if missing != "" {
			c.violation(idx, "c15-write-missing-blob", desc+": "+missing, nil)
		}
		// the roll-sum events, computed with the same package the writer uses
		rs := rollsum.New()
		var splits []string
		for i, b := range data {
			rs.Roll(b)
			if rs.OnSplit() {
				splits = append(splits, fmt.Sprintf("(%d, %d)", i+1, rs.Bits()))
			}
		}
		fb, err := schemaFromFetcher(sto, fref)
		var shapes []shapeNode
		if err == nil {
			shapes, err = readShapes(sto, fb.ByteParts())
		}
		if err != nil {
			c.violation(idx, "c15-write-unreadable", desc+": "+err.Error(), nil)
			continue
		}
		c.count("writer", fmt.Sprintf("%s/%s", wc.kind, wc.mode))
		c.count("writer_chunks", map[bool]string{true: "multi-chunk", false: "single-or-empty"}[len(cuts) > 1])
		c.addCase(fmt.Sprintf("CWrite %d %s %d %s %s", wc.n, qlist(splits), rr.eofBefore+1, qlist(cuts), coqShapes(shapes)),
			map[string]any{"op": "write", "bytes": wc.n, "data": wc.kind, "reader": wc.mode, "chunks": len(cuts), "eofSeenAfterBytes": rr.eofBefore}, len(cuts) > 1)
	}
	// ---------- static sets ----------
	for _, m := range []int{3, 4, 5} {
		old := schema.VerifSetMaxStaticSetMembers(m)
		for k := 0; k <= m*m+m+3; k++ {
			sto := &memory.Storage{}
			var members []blob.Ref
			index := map[string]int{}
			for i := 0; i < k; i++ {
				r := blob.RefFromString(fmt.Sprintf("member %d", i))
				members = append(members, r)
				index[r.String()] = i
			}
			bb := schema.NewStaticSet()
			subsets := bb.SetStaticSetMembers(members)
			top := bb.Blob()
			for _, sb := range append(subsets, top) {
				blobserver.Receive(ctxb, sto, sb.BlobRef(), strings.NewReader(sb.JSON()))
			}
			dir := schema.NewDirMap("d").PopulateDirectoryMap(top.BlobRef()).Blob()
			blobserver.Receive(ctxb, sto, dir.BlobRef(), strings.NewReader(dir.JSON()))
			idx := len(c.casesBuf)
			c.rep.SpecChecks++
			var got []blob.Ref
			dr, err := schema.NewDirReader(ctxb, sto, dir.BlobRef())
			if err == nil {
				got, err = dr.StaticSet(ctxb)
			}
			ok := err == nil && len(got) == len(members)
			for i := range got {
				if ok && got[i] != members[i] {
					ok = false
				}
			}
			if !ok {
				c.violation(idx, "c15-staticset-members", fmt.Sprintf("M=%d, %d members: listing returned %d (err %v)", m, k, len(got), err), nil)
			}
			// the tree of sets as stored
			var walk func(r blob.Ref) (string, int, error)
			walk = func(r blob.Ref) (string, int, error) {
				b, err := schemaFromFetcher(sto, r)
				if err != nil {
					return "", 0, err
				}
				var raw struct {
					Members   []string `json:"members"`
					MergeSets []string `json:"mergeSets"`
				}
				json.Unmarshal([]byte(b.JSON()), &raw)
				if len(raw.MergeSets) == 0 {
					var xs []string
					for _, s := range raw.Members {
						xs = append(xs, fmt.Sprint(index[s]))
					}
					return "SMembers [" + strings.Join(xs, "; ") + "]%N", len(raw.Members), nil
				}
				var xs []string
				width := len(raw.MergeSets)
				for _, s := range raw.MergeSets {
					t, w, err := walk(blob.MustParse(s))
					if err != nil {
						return "", 0, err
					}
					if w > width {
						width = w
					}
					xs = append(xs, "("+t+")")
				}
				return "SMerge " + qlist(xs), width, nil
			}
			tree, width, err := walk(top.BlobRef())
			if err != nil {
				c.violation(idx, "c15-staticset-missing-blob", fmt.Sprintf("M=%d, %d members: %v", m, k, err), nil)
				continue
			}
			if width > m {
				c.violation(idx, "c15-staticset-too-wide", fmt.Sprintf("M=%d, %d members: a set has %d entries", m, k, width), nil)
			}
			c.count("staticset", map[bool]string{true: "split", false: "single"}[k > m])
			c.addCase(fmt.Sprintf("CSet %d%%nat %d%%nat (%s)", m, k, tree), map[string]any{"op": "static-set", "M": m, "members": k}, k > m)
		}
		schema.VerifSetMaxStaticSetMembers(old)
	}
}

// a store that refuses one blob
type c15refuser struct {
	*memory.Storage
	refuse  blob.Ref
	delay   time.Duration
	refused atomic.Bool
}

func (r *c15refuser) ReceiveBlob(ctx context.Context, br blob.Ref, src io.Reader) (blob.SizedRef, error) {
	if br == r.refuse {
		io.Copy(io.Discard, src)
		time.Sleep(r.delay)
		r.refused.Store(true)
		return blob.SizedRef{}, errors.New("verif: this blob is refused")
	}
	return r.Storage.ReceiveBlob(ctx, br, src)
}

//go:build verif

package main

import (
	"bytes"
	"crypto/sha1"
	"crypto/sha256"
	"encoding/hex"
	"fmt"
	"strings"

	"perkeep.org/pkg/blob"
)

func init() { props["C20"] = runC20 }

// tri-state result of a call that may panic: 0 false, 1 true, 2 panicked
func tri(f func() bool) (r int) {
	defer func() {
		if recover() != nil {
			r = 2
		}
	}()
	if f() {
		return 1
	}
	return 0
}

var c20Alphabet = []byte("afgsh120-A")

func c20Strings(c *ctx) []string {
	var out []string
	seen := map[string]bool{}
	add := func(s string) {
		if !seen[s] {
			seen[s] = true
			out = append(out, s)
		}
	}
	// digests with boundary bytes in boundary places, for every hash kind: 0x2d (the separator's own byte), 0x00, 0xff at
	// the start, at the end and throughout
	for _, hk := range []struct {
		name string
		n    int
	}{{"sha1", 20}, {"sha224", 28}, {"sha256", 32}, {"abc", 5}, {"abc", 1}} {
		for _, bb := range []byte{0x2d, 0x00, 0xff} {
			for _, where := range []string{"first", "first two", "last", "all"} {
				d := make([]byte, hk.n)
				for i := range d {
					d[i] = byte(17*i + 3)
				}
				switch where {
				case "first":
					d[0] = bb
				case "first two":
					d[0] = bb
					if len(d) > 1 {
						d[1] = bb
					}
				case "last":
					d[len(d)-1] = bb
				default:
					for i := range d {
						d[i] = bb
					}
				}
				add(hk.name + "-" + hex.EncodeToString(d))
			}
		}
	}
	// exhaustive short strings
	maxLen := c.n(3, 4)
	var rec func(prefix []byte)
	rec = func(prefix []byte) {
		add(string(prefix))
		if len(prefix) == maxLen {
			return
		}
		for _, ch := range c20Alphabet {
			rec(append(append([]byte{}, prefix...), ch))
		}
	}
	rec(nil)
	// random short strings, lengths maxLen+1..8
	for i := 0; i < c.n(300, 3000); i++ {
		n := maxLen + 1 + c.rng.Intn(8-maxLen)
		b := make([]byte, n)
		for j := range b {
			b[j] = c20Alphabet[c.rng.Intn(len(c20Alphabet))]
		}
		add(string(b))
	}
	// the longest digest an unknown hash name may have, and one digit either side of every boundary (even and odd counts)
	for _, name := range []string{"foo", "perma", "fakeref", "testref", "sha2"} {
		for nd := 250; nd <= 262; nd++ {
			add(name + "-" + strings.Repeat("a7", nd/2) + strings.Repeat("c", nd%2))
		}
	}
	// valid refs and structured mutations
	names := []string{"sha1", "sha224", "sha256", "sha2", "sha225", "sha", "fakeref", "testref", "perma", "foo", "md5", "x9", "Sha1", "sha-1", "", "sha224x"}
	sizes := map[string]int{"sha1": 20, "sha224": 28, "sha256": 32}
	for i := 0; i < c.n(120, 1500); i++ {
		name := names[c.rng.Intn(len(names))]
		sz, known := sizes[name]
		if !known {
			sz = 1 + c.rng.Intn(6)
			if c.rng.Intn(20) == 0 {
				sz = 126 + c.rng.Intn(5) // around maxOtherDigestLen
			}
		}
		d := make([]byte, sz)
		c.rng.Read(d)
		if c.rng.Intn(4) == 0 { // low-entropy digests give near ties for Less
			for j := range d {
				d[j] = []byte{0, 0xff, 0x0f, 0xa0}[c.rng.Intn(4)]
			}
		}
		s := name + "-" + hex.EncodeToString(d)
		add(s)
		switch c.rng.Intn(9) {
		case 0:
			add(s[:len(s)-1]) // odd number of digits
		case 1:
			add(s + "0")
		case 2:
			add(s + "00")
		case 3:
			add(strings.ToUpper(s))
		case 4: // bad hex digit somewhere
			b := []byte(s)
			b[len(name)+1+c.rng.Intn(len(b)-len(name)-1)] = "gG-: /\x00\xff"[c.rng.Intn(8)]
			add(string(b))
		case 5:
			add(name + "-")
		case 6:
			add(name)
		case 7:
			add(name + "--" + hex.EncodeToString(d))
		case 8:
			add(s[:len(name)+1] + strings.ToUpper(s[len(name)+1:len(name)+3]) + s[len(name)+3:])
		}
	}
	return out
}

func runC20(c *ctx) {
	c.rep.Rule = "exhaustive strings over {a,f,g,s,h,1,2,0,-,A} up to a length, random longer ones, valid refs of known/test/unknown hash names with structured mutations; " +
		"non-trivial = a distinct case whose string contains '-' (parse), or whose refs both parse (less/equal/prefix/json/binary)"
	strs := c20Strings(c)
	var refs []blob.Ref
	var refStr []string
	for _, s := range strs {
		if tri(func() bool { blob.Parse(s); blob.ParseKnown(s); blob.ParseBytes([]byte(s)); return true }) == 2 {
			c.violation(-1, "c20-parse-panics", fmt.Sprintf("parsing %q panics (a string that is not a well-formed ref is to be rejected)", s), nil)
			continue
		}
		r, ok := blob.Parse(s)
		_, okKnown := blob.ParseKnown(s)
		rb, okb := blob.ParseBytes([]byte(s))
		str := ""
		if ok {
			str = r.String()
		}
		kind := "reject"
		if ok {
			kind = "other"
			if r.IsSupported() {
				kind = r.HashName()
			}
		}
		c.count("parse_result", kind)
		idx := c.addCase(fmt.Sprintf("CParse %s %s %s %s %s", qh([]byte(s)), qb(ok), qh([]byte(str)), qb(okKnown), qb(ok && r.IsSupported())),
			map[string]any{"op": "parse", "s": s}, strings.Contains(s, "-"))
		// SPEC on the implementation
		c.rep.SpecChecks++
		if ok {
			if str != s {
				c.violation(idx, "print-parse", fmt.Sprintf("Parse(%q).String() = %q", s, str), s)
			}
			r2, ok2 := blob.Parse(str)
			if !ok2 || r2 != r {
				c.violation(idx, "parse-print", fmt.Sprintf("Parse(String()) of %q is not the same ref", s), s)
			}
			if okb != ok || rb != r {
				c.violation(idx, "parsebytes-differs", fmt.Sprintf("ParseBytes(%q) differs from Parse", s), s)
			}
			if r.IsSupported() {
				want := map[string]int{"sha1": 20, "sha224": 28, "sha256": 32}[r.HashName()]
				if want == 0 || len(s) != len(r.HashName())+1+2*want {
					c.violation(idx, "supported-malformed", fmt.Sprintf("%q accepted as supported", s), s)
				}
			}
			if len(refs) < c.n(220, 900) || c.rng.Intn(4) == 0 {
				refs = append(refs, r)
				refStr = append(refStr, s)
			}
		} else if okb {
			c.violation(idx, "parsebytes-differs", fmt.Sprintf("ParseBytes(%q) ok but Parse not", s), s)
		}
		if okKnown {
			if !ok {
				c.violation(idx, "parseknown-not-parse", s, s)
			} else if !r.IsSupported() && r.HashName() != "fakeref" && r.HashName() != "testref" && r.HashName() != "perma" {
				c.violation(idx, "parseknown-unsupported", s, s)
			}
		}
	}
	// Less over pairs
	np := c.n(1500, 20000)
	for i := 0; i < np && len(refs) > 1; i++ {
		a, b := c.rng.Intn(len(refs)), c.rng.Intn(len(refs))
		if c.rng.Intn(3) == 0 { // neighbours in generation order share a hash name more often
			b = (a + 1) % len(refs)
		}
		res := refs[a].Less(refs[b])
		idx := c.addCase(fmt.Sprintf("CLess %s %s %s", qs(refStr[a]), qs(refStr[b]), qb(res)),
			map[string]any{"op": "less", "a": refStr[a], "b": refStr[b]}, true)
		c.rep.SpecChecks++
		if refs[a].IsSupported() && refs[b].IsSupported() {
			c.count("less_pairs", "supported")
			if res != (refStr[a] < refStr[b]) {
				c.violation(idx, "less-text-order", fmt.Sprintf("%q.Less(%q) = %v", refStr[a], refStr[b], res), []string{refStr[a], refStr[b]})
			}
		} else {
			c.count("less_pairs", "unsupported-involved")
		}
	}
	// EqualString / HasPrefix
	testStr := func(a int, s string) {
		rs := refStr[a]
		eq := tri(func() bool { return refs[a].EqualString(s) })
		pre := tri(func() bool { return refs[a].HasPrefix(s) })
		idx := c.addCase(fmt.Sprintf("CStr %s %s %d %d", qs(rs), qs(s), eq, pre),
			map[string]any{"op": "equal/prefix", "ref": rs, "s": s}, true)
		c.rep.SpecChecks++
		sup := "other"
		if refs[a].IsSupported() {
			sup = "supported"
		}
		c.count("str_tests", fmt.Sprintf("%s eq=%d pre=%d", sup, eq, pre))
		wantEq := 0
		if rs == s {
			wantEq = 1
		}
		nameLen := strings.Index(rs, "-")
		wantPre := 0
		if strings.HasPrefix(rs, s) && len(s) > nameLen+1 {
			wantPre = 1
		}
		if eq != wantEq {
			c.violation(idx, "equalstring", fmt.Sprintf("ref %q EqualString(%q) = %d want %d", rs, s, eq, wantEq), []string{rs, s})
		}
		if pre != wantPre {
			cl := "hasprefix"
			if pre == 2 {
				cl = "hasprefix-panic"
				if !refs[a].IsSupported() && len(s) == nameLen {
					cl = "hasprefix-panic-other-name-only"
				}
			}
			c.violation(idx, cl, fmt.Sprintf("ref %q HasPrefix(%q) = %d want %d", rs, s, pre, wantPre), []string{rs, s})
		}
	}
	// every prefix length of one ref of every kind, and the same-length near misses (the last character changed)
	seenKind := map[string]bool{}
	for a := range refs {
		rs := refStr[a]
		kind := strings.SplitN(rs, "-", 2)[0]
		if !refs[a].IsSupported() {
			kind = "other"
		}
		if seenKind[kind] {
			continue
		}
		seenKind[kind] = true
		for n := 0; n <= len(rs); n++ {
			testStr(a, rs[:n])
			if n > 0 {
				b := []byte(rs[:n])
				b[n-1] ^= 1
				testStr(a, string(b))
			}
		}
		c.count("str_tests", "all prefix lengths of a "+kind+" ref")
	}
	for i := 0; i < c.n(1500, 20000) && len(refs) > 0; i++ {
		a := c.rng.Intn(len(refs))
		rs := refStr[a]
		var s string
		switch c.rng.Intn(8) {
		case 0:
			s = rs
		case 1, 2:
			s = rs[:c.rng.Intn(len(rs)+1)]
		case 3:
			b := []byte(rs)
			b[c.rng.Intn(len(b))] ^= byte(1 << uint(c.rng.Intn(7)))
			s = string(b)
		case 4:
			s = rs + "0"
		case 5:
			s = refStr[c.rng.Intn(len(refs))]
		case 6:
			b := []byte(rs[:1+c.rng.Intn(len(rs))])
			b[len(b)-1] ^= 1
			s = string(b)
		case 7:
			s = strings.SplitN(rs, "-", 2)[0]
			if c.rng.Intn(2) == 0 {
				s += "-"
			}
		}
		testStr(a, s)
	}
	// JSON and binary encodings
	for i := 0; i < c.n(400, 4000)+len(refs) && len(refs) > 0; i++ {
		a := c.rng.Intn(len(refs))
		mut := c.rng.Intn(6)
		if i < len(refs) { // every ref of the pool once, unmutated
			a, mut = i, 5
		}
		rs := refStr[a]
		js, _ := refs[a].MarshalJSON()
		in := js
		switch mut {
		case 0:
			in = []byte("null")
		case 1:
			in = js[:len(js)-1]
		case 2:
			in = js[1:]
		case 3:
			in = []byte(`""`)
		}
		var back blob.Ref
		err := back.UnmarshalJSON(in)
		res, bs := 0, ""
		if err != nil {
			res = 2
		} else if back.Valid() {
			res, bs = 1, back.String()
		}
		idx := c.addCase(fmt.Sprintf("CJson %s %s %s %d %s", qs(rs), qh(js), qh(in), res, qs(bs)),
			map[string]any{"op": "json", "ref": rs, "in": string(in)}, true)
		c.rep.SpecChecks++
		if bytes.Equal(in, js) && (res != 1 || back != refs[a]) {
			c.violation(idx, "json-roundtrip", rs, rs)
		}
		bin, _ := refs[a].MarshalBinary()
		var back2 blob.Ref
		err = back2.UnmarshalBinary(bin)
		ok2, bs2 := err == nil, ""
		if ok2 {
			bs2 = back2.String()
		}
		idx = c.addCase(fmt.Sprintf("CBin %s %s %s %s", qs(rs), qh(bin), qb(ok2), qs(bs2)),
			map[string]any{"op": "binary", "ref": rs}, true)
		c.rep.SpecChecks++
		if !ok2 || back2 != refs[a] {
			cl := "binary-roundtrip"
			if !refs[a].IsSupported() && strings.Index(rs, "-") >= 0 && (len(rs)-strings.Index(rs, "-")-1)%2 == 1 {
				cl = "binary-roundtrip-odd-other"
			}
			c.violation(idx, cl, fmt.Sprintf("%q -> binary -> %q", rs, bs2), rs)
		}
	}
	// RefFromBytes against crypto directly; StringMinusOne
	for i := 0; i < c.n(200, 2000); i++ {
		n := []int{0, 1, 2, 55, 56, 63, 64, 65, 1000}[c.rng.Intn(9)]
		data := make([]byte, n)
		c.rng.Read(data)
		r := blob.RefFromBytes(data)
		sum := sha256.Sum224(data)
		want := "sha224-" + hex.EncodeToString(sum[:])
		h1 := sha1.Sum(data)
		r1 := blob.RefFromHash(func() interface {
			Sum([]byte) []byte
			Write([]byte) (int, error)
			Reset()
			Size() int
			BlockSize() int
		} {
			h := sha1.New()
			h.Write(data)
			return h
		}())
		idx := c.addCase(fmt.Sprintf("CMinus %s %s", qs(r.String()), qs(r.StringMinusOne())),
			map[string]any{"op": "reffrombytes", "len": n}, true)
		c.rep.SpecChecks++
		if r.String() != want {
			c.violation(idx, "reffrombytes", fmt.Sprintf("RefFromBytes = %s want %s", r, want), hex.EncodeToString(data))
		}
		if r1.String() != "sha1-"+hex.EncodeToString(h1[:]) {
			c.violation(idx, "reffromhash-sha1", r1.String(), hex.EncodeToString(data))
		}
		if !(r.StringMinusOne() < r.String()) {
			c.violation(idx, "stringminusone", r.String(), r.String())
		}
	}
	for _, k := range []string{"sha1", "sha224", "sha256", "other", "reject"} {
		if c.hist["parse_result"][k] == 0 {
			c.rep.TargetsMissed = append(c.rep.TargetsMissed, "parse_result:"+k)
		}
	}
}

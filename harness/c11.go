//go:build verif

package main

import (
	"bytes"
	"context"
	"encoding/hex"
	"fmt"
	"io"
	"log"
	"os"
	"path/filepath"
	"perkeep.org/pkg/sorted"
	"sort"
	"strings"
	"sync"
	"sync/atomic"
	"time"

	"filippo.io/age"
	"go4.org/jsonconfig"
	"perkeep.org/pkg/blob"
	"perkeep.org/pkg/blobserver"
	"perkeep.org/pkg/blobserver/encrypt"
	"perkeep.org/pkg/blobserver/memory"
)

func init() {
	props["C11"] = runC11
	sorted.RegisterKeyValue("verifkv11", func(cfg jsonconfig.Obj) (sorted.KeyValue, error) {
		name := cfg.RequiredString("name")
		if err := cfg.Validate(); err != nil {
			return nil, err
		}
		c11kvMu.Lock()
		defer c11kvMu.Unlock()
		if kept := c11kvKeep[name]; kept != nil { // a restart that keeps its meta index (the documented leveldb configuration)
			delete(c11kvKeep, name)
			c11kvs[name] = kept
			return kept, nil
		}
		kv := &c11kv{KeyValue: sorted.NewMemoryKeyValue(), got: make(chan string, 64)}
		c11kvs[name] = kv
		return kv, nil
	})
}

// the meta index with one schedule perturbation: when armed, the next Set waits (up to 40 ms) until somebody has looked
// the same key up - the packing goroutine started by this very upload does, when the upload crossed the threshold.
// That is the interleaving "index row not yet written when the packer asks for it".
type c11kv struct {
	sorted.KeyValue
	mu      sync.Mutex
	armed   bool
	waiting string
	got     chan string
}

var (
	c11kvMu   sync.Mutex
	c11kvs    = map[string]*c11kv{}
	c11kvKeep = map[string]*c11kv{}
)

// Close is a no-op: the same index may be handed to the next incarnation of the store
func (k *c11kv) Close() error { return nil }

// every look-up of the meta index counts as activity of the store (a packing goroutine reads one row per line)
var c11kvActivity atomic.Int64

// how often a held-back index row was asked for by a packing goroutine before it was written
var c11gateHits atomic.Int64

func (k *c11kv) Get(key string) (string, error) {
	c11kvActivity.Add(1)
	v, err := k.KeyValue.Get(key)
	k.mu.Lock()
	w := k.waiting
	k.mu.Unlock()
	if w != "" && w == key {
		select {
		case k.got <- key:
		default:
		}
	}
	return v, err
}

func (k *c11kv) Set(key, value string) error {
	k.mu.Lock()
	armed := k.armed
	k.armed = false
	if armed {
		k.waiting = key
	}
	k.mu.Unlock()
	if armed {
		select {
		case <-k.got:
			c11gateHits.Add(1)
		case <-time.After(40 * time.Millisecond):
		}
		k.mu.Lock()
		k.waiting = ""
		k.mu.Unlock()
	}
	return k.KeyValue.Set(key, value)
}

// c11wrap instruments a wrapped store: effect log (puts / removes in order), every byte and name ever written,
// injected RemoveBlobs failures, and raw access for tampering.
type c11wrap struct {
	mu       sync.Mutex
	name     string
	sto      blobserver.Storage // memory.Storage, or the harness' raw map store (accepts any bytes under any name: needed for tampering)
	order    []blob.Ref         // stored refs in insertion order
	events   []string           // "put#<index into written>", "remove-ok", "remove-fail"
	written  [][]byte           // every byte string ever written
	names    []string
	failRm   int // fail the next n RemoveBlobs calls
	failPut  int // fail the next n ReceiveBlob calls (nothing is stored)
	activity int
}

func (w *c11wrap) Fetch(ctx context.Context, br blob.Ref) (io.ReadCloser, uint32, error) {
	return w.sto.Fetch(ctx, br)
}
func (w *c11wrap) StatBlobs(ctx context.Context, blobs []blob.Ref, fn func(blob.SizedRef) error) error {
	return w.sto.StatBlobs(ctx, blobs, fn)
}
func (w *c11wrap) EnumerateBlobs(ctx context.Context, dest chan<- blob.SizedRef, after string, limit int) error {
	return w.sto.EnumerateBlobs(ctx, dest, after, limit)
}
func (w *c11wrap) ReceiveBlob(ctx context.Context, br blob.Ref, r io.Reader) (blob.SizedRef, error) {
	data, err := io.ReadAll(r)
	if err != nil {
		return blob.SizedRef{}, err
	}
	w.mu.Lock()
	defer w.mu.Unlock()
	w.activity++
	if w.failPut > 0 {
		w.failPut--
		return blob.SizedRef{}, fmt.Errorf("verif: injected ReceiveBlob failure")
	}
	have := false
	for _, o := range w.order {
		if o == br {
			have = true
		}
	}
	sb, err := w.sto.ReceiveBlob(ctx, br, bytes.NewReader(data))
	if err != nil {
		return sb, err
	}
	w.written = append(w.written, data)
	w.names = append(w.names, br.String())
	if !have {
		w.order = append(w.order, br)
	}
	w.events = append(w.events, fmt.Sprintf("put#%d", len(w.written)-1))
	return sb, nil
}
func (w *c11wrap) RemoveBlobs(ctx context.Context, blobs []blob.Ref) error {
	w.mu.Lock()
	defer w.mu.Unlock()
	w.activity++
	if w.failRm > 0 {
		w.failRm--
		w.events = append(w.events, "remove-fail")
		return fmt.Errorf("verif: injected RemoveBlobs failure")
	}
	if err := w.sto.RemoveBlobs(ctx, blobs); err != nil {
		return err
	}
	gone := map[blob.Ref]bool{}
	for _, b := range blobs {
		gone[b] = true
	}
	var keep []blob.Ref
	for _, o := range w.order {
		if !gone[o] {
			keep = append(keep, o)
		}
	}
	w.order = keep
	w.events = append(w.events, "remove-ok")
	return nil
}

// raw replaces what is stored under br (tampering below the encrypt layer)
func (w *c11wrap) raw(br blob.Ref, data []byte) {
	w.sto.(*rawStore).put(br, data)
}
func (w *c11wrap) get(br blob.Ref) []byte {
	rc, _, err := w.sto.Fetch(context.Background(), br)
	if err != nil {
		return nil
	}
	defer rc.Close()
	d, _ := io.ReadAll(rc)
	return d
}

type c11env struct {
	c        *ctx
	id       *age.X25519Identity
	keyFile  string
	blobs    *c11wrap
	meta     *c11wrap
	sto      blobserver.Storage
	ops      []string // Coq hops
	memoName string   // the case file's definition of the model state after the first memoLen hops
	memoLen  int
	human    []string
	plains   []string // plaintext contents; id = index+1
	refs     []blob.Ref
	logbuf   *c11log
	started  bool
	loose    bool // a start-up compacted: grouping of meta blobs no longer predictable
	tag      string
	opens    int
	kv       *c11kv
	acked    map[int]bool
}

type c11log struct {
	mu  sync.Mutex
	buf bytes.Buffer
}

func (l *c11log) Write(p []byte) (int, error) {
	l.mu.Lock()
	defer l.mu.Unlock()
	return l.buf.Write(p)
}
func (l *c11log) take() string {
	l.mu.Lock()
	defer l.mu.Unlock()
	s := l.buf.String()
	l.buf.Reset()
	return s
}

func (e *c11env) open() error {
	ld := newLoader()
	ld.set("/encblobs/", e.blobs)
	ld.set("/encmeta/", e.meta)
	s, err := blobserver.CreateStorage("encrypt", ld, jsonconfig.Obj{"I_AGREE": encAgreement, "keyFile": e.keyFile, "blobs": "/encblobs/", "meta": "/encmeta/",
		"metaIndex": map[string]any{"type": "verifkv11", "name": fmt.Sprintf("%s-%d", e.tag, e.opens)}})
	if err != nil {
		e.started = false
		return err
	}
	c11kvMu.Lock()
	e.kv = c11kvs[fmt.Sprintf("%s-%d", e.tag, e.opens)]
	delete(c11kvs, fmt.Sprintf("%s-%d", e.tag, e.opens))
	c11kvMu.Unlock()
	e.opens++
	e.sto = s
	e.started = true
	return nil
}

// reopen starts the next incarnation of the store. The goroutines of the previous incarnation cannot be killed the way a
// process restart kills them: if one of its packing jobs is still removing small meta blobs, the new incarnation's
// start-up scan can be handed a name that is gone a moment later ("does not exist"). That overlap is the harness', not the
// store's: the old job is given time to finish and the start-up is tried again; a second failure counts.
func (e *c11env) reopen() error {
	err := e.open()
	for try := 0; err != nil && strings.Contains(err.Error(), "does not exist") && try < 2; try++ {
		time.Sleep(300 * time.Millisecond)
		e.settle()
		e.c.count("steps", "start-up repeated (the previous incarnation was still packing)")
		err = e.open()
	}
	return err
}

// settle waits until the wrapped meta store and the meta index have seen no activity for a few milliseconds (packing
// goroutines most likely done; a checkpoint taken while one is still at work is consistent all the same: views() looks
// at the store and at the events since the last look under one lock)
func (e *c11env) settle() {
	last, stable := -1, 0
	for i := 0; i < 4000 && stable < 6; i++ {
		e.meta.mu.Lock()
		a := e.meta.activity + int(c11kvActivity.Load())
		e.meta.mu.Unlock()
		if a == last {
			stable++
		} else {
			stable = 0
		}
		last = a
		time.Sleep(time.Millisecond)
	}
}

// drainEvents turns what the meta store saw since the last call into model operations. skipPuts = puts that belong to
// the foreground operation (the single-line meta blob of a receive)
func (e *c11env) drainEvents(skipPuts int) {
	e.meta.mu.Lock()
	evs := e.meta.events
	e.meta.events = nil
	e.meta.mu.Unlock()
	e.applyEvents(evs, skipPuts)
}

func (e *c11env) applyEvents(evs []string, skipPuts int) {
	aborts := strings.Count(e.logbuf.take(), "encrypt: failed to find the index entry")
	for i := 0; i < aborts; i++ {
		e.ops = append(e.ops, "HJobAbort")
		e.human = append(e.human, "packing goroutine gave up (index entry not yet written)")
		e.c.count("background", "job aborted")
	}
	for _, ev := range evs {
		if strings.HasPrefix(ev, "put#") {
			// the single-line meta blob of the foreground receive is told from a packed one by what it decrypts to, not by
			// its place in the log: a packing goroutine started by the previous receive may write before or after it
			var idx int
			fmt.Sscanf(ev, "put#%d", &idx)
			e.meta.mu.Lock()
			data := e.meta.written[idx]
			e.meta.mu.Unlock()
			if plain, ok := e.decrypt(data); ok && skipPuts > 0 && strings.Count(strings.TrimSuffix(string(plain), "\n"), "\n") == 1 {
				skipPuts--
				continue
			}
			ev = "put"
		}
		switch ev {
		case "put":
			e.ops = append(e.ops, "HJobUpload")
			e.human = append(e.human, "packed meta blob uploaded")
			e.c.count("background", "packed upload")
		case "remove-ok":
			e.ops = append(e.ops, "HJobDelete true")
			e.human = append(e.human, "small meta blobs removed")
			e.c.count("background", "small metas removed")
		case "remove-fail":
			e.ops = append(e.ops, "HJobDelete false")
			e.human = append(e.human, "removal of small meta blobs failed")
			e.c.count("background", "removal failed")
		}
	}
}

func (e *c11env) receive(id int) error {
	_, err := blobserver.Receive(context.Background(), e.sto, e.refs[id-1], strings.NewReader(e.plains[id-1]))
	return err
}

func (e *c11env) decrypt(data []byte) ([]byte, bool) {
	if len(data) == 0 || data[0] != 2 {
		return nil, false
	}
	r, err := age.Decrypt(bytes.NewReader(data[1:]), e.id)
	if err != nil {
		return nil, false
	}
	p, err := io.ReadAll(r)
	if err != nil {
		return nil, false
	}
	return p, true
}

// views of the wrapped stores through the harness' own decryption
func (e *c11env) views() (meta [][]int, blobs []int, index []int, err error) {
	idOf := map[string]int{}
	for i, r := range e.refs {
		idOf[r.String()] = i + 1
	}
	byContent := map[string]int{}
	for i, p := range e.plains {
		byContent[p] = i + 1
	}
	// one atomic look at the wrapped meta store: what it holds and what happened to it since the events were last taken
	// (a packing goroutine may still be at work; every write below goes through the same lock)
	e.meta.mu.Lock()
	evs := e.meta.events
	e.meta.events = nil
	var metaData [][]byte
	for _, br := range e.meta.order {
		metaData = append(metaData, e.meta.get(br))
	}
	e.meta.mu.Unlock()
	e.applyEvents(evs, 0)
	for _, data := range metaData {
		plain, ok := e.decrypt(data)
		var ids []int
		if ok {
			lines := strings.Split(strings.TrimSuffix(string(plain), "\n"), "\n")
			for _, l := range lines[1:] {
				parts := strings.Split(l, "/")
				ids = append(ids, idOf[parts[0]])
			}
		}
		meta = append(meta, ids)
	}
	for _, br := range e.blobs.order {
		if plain, ok := e.decrypt(e.blobs.get(br)); ok {
			if id, ok := byContent[string(plain)]; ok {
				blobs = append(blobs, id)
			}
		}
	}
	if e.started {
		err = blobserver.EnumerateAll(context.Background(), e.sto, func(sb blob.SizedRef) error {
			index = append(index, idOf[sb.Ref.String()])
			return nil
		})
	}
	return
}

func c11list(xs []int) string {
	var s []string
	for _, x := range xs {
		s = append(s, fmt.Sprint(x))
	}
	return "[" + strings.Join(s, "; ") + "]"
}

// fetchClass: 0 missing, 1 exact, 2 error, 3 wrong bytes returned
func (e *c11env) fetchClass(id int) int {
	rc, size, err := e.sto.Fetch(context.Background(), e.refs[id-1])
	if err != nil {
		if os.IsNotExist(err) {
			return 0
		}
		return 2
	}
	defer rc.Close()
	d, err := io.ReadAll(rc)
	if err != nil {
		return 2
	}
	if string(d) == e.plains[id-1] && int(size) == len(d) {
		return 1
	}
	return 3
}

var c11memoSeq int

func (e *c11env) checkpoint(what string, fetchIDs []int) {
	c := e.c
	meta, blobs, index, err := e.views()
	if err != nil {
		c.violation(-1, "c11-enumerate-failed", err.Error(), nil)
	}
	var ms []string
	for _, m := range meta {
		ms = append(ms, c11list(m))
	}
	var fs []string
	for _, id := range fetchIDs {
		cl := 0
		if e.started {
			cl = e.fetchClass(id)
		}
		fs = append(fs, fmt.Sprintf("(%d, %d)", id, cl))
		c.rep.SpecChecks++
		if cl == 3 {
			c.violation(len(c.casesBuf), "c11-fetch-returned-other-bytes", fmt.Sprintf("%s: Fetch of #%d returned bytes that are not the original plaintext", what, id), e.human)
		}
	}
	human := e.human
	if len(human) > 60 {
		human = append([]string{fmt.Sprintf("... %d earlier steps ...", len(human)-60)}, human[len(human)-60:]...)
	}
	tampered := strings.Contains(strings.Join(e.ops, " "), "Junk") || strings.Contains(strings.Join(e.ops, " "), "Swap")
	// recoverability, statically: every acknowledged blob is named by some meta blob (what a restart with an empty index
	// rebuilds from); checked while nothing has been tampered with
	if !tampered && err == nil {
		named := map[int]bool{}
		for _, m := range meta {
			for _, id := range m {
				named[id] = true
			}
		}
		for id := range e.acked {
			c.rep.SpecChecks++
			if !named[id] {
				c.violation(len(c.casesBuf), "c11-not-recovered", fmt.Sprintf("%s: acknowledged #%d is named by no meta blob: a restart with an empty meta index cannot find it", what, id), human)
				break
			}
		}
	}
	// the model replays only what happened since the last untampered checkpoint: the state reached there is a definition
	// of the case file (evaluated once), so the evaluation of a scenario is linear in its length
	from := "(Some init)"
	if e.memoName != "" {
		from = e.memoName
	}
	delta := e.ops[e.memoLen:]
	c.addCase(fmt.Sprintf("CFrom %s [%s] %s %s [%s] %s %s [%s]", from, strings.Join(delta, "; "), qb(!e.loose), qb(e.started), strings.Join(ms, "; "), c11list(blobs), c11list(index), strings.Join(fs, "; ")),
		map[string]any{"checkpoint": what, "steps": len(e.ops), "last steps": human}, tampered || strings.Contains(strings.Join(e.ops, " "), "HJobUpload"))
	if !tampered && len(delta) > 0 {
		c11memoSeq++
		name := fmt.Sprintf("c11_state_%d", c11memoSeq)
		c.preamble = append(c.preamble, fmt.Sprintf("Definition %s : option st := Eval vm_compute in hrun_from %s [%s].", name, from, strings.Join(delta, "; ")))
		e.memoName, e.memoLen = name, len(e.ops)
	}
	c.count("checkpoints", what)
}

// leakScan: no plaintext substring of 8 bytes and no plaintext ref (text or binary digest) in anything written below
func (e *c11env) leakScan() string {
	var hay [][]byte
	for _, w := range []*c11wrap{e.blobs, e.meta} {
		w.mu.Lock()
		hay = append(hay, w.written...)
		for _, n := range w.names {
			hay = append(hay, []byte(n))
		}
		w.mu.Unlock()
	}
	all := bytes.Join(hay, []byte{0})
	for i, p := range e.plains {
		e.c.rep.SpecChecks++
		ref := e.refs[i].String()
		if bytes.Contains(all, []byte(ref)) || bytes.Contains(all, []byte(ref[len("sha224-"):])) {
			return fmt.Sprintf("the plaintext blobref of #%d appears in the wrapped stores", i+1)
		}
		if dig, err := hex.DecodeString(ref[len("sha224-"):]); err == nil && bytes.Contains(all, dig) {
			return fmt.Sprintf("the binary digest of the plaintext blobref of #%d appears in the wrapped stores", i+1)
		}
		for off := 0; off+8 <= len(p); off += 5 {
			if bytes.Contains(all, []byte(p[off:off+8])) {
				return fmt.Sprintf("8 plaintext bytes of #%d (offset %d) appear in the wrapped stores", i+1, off)
			}
			if off > 200 {
				off += 4000 // sample large blobs
			}
		}
	}
	return ""
}

// c11letters spells a number with the letters g..v only, so that no 8-byte window of a plaintext can coincide with the
// hexadecimal text of a ciphertext's name (that coincidence was a false alarm of the leak scan)
func c11letters(v int64) string {
	var b []byte
	for i := 0; i < 16; i++ {
		b = append(b, byte('g'+(v>>(4*uint(i)))&15))
	}
	return string(b)
}

func newC11env(c *ctx, dir string, nplains int, tag string, rawStores bool) *c11env {
	id, err := age.GenerateX25519Identity()
	must(err)
	kf := filepath.Join(dir, "key-"+tag)
	must(os.WriteFile(kf, []byte(id.String()+"\n"), 0o600))
	var bs, ms blobserver.Storage = &memory.Storage{}, &memory.Storage{}
	if rawStores {
		bs, ms = newRawStore(), newRawStore()
	}
	e := &c11env{c: c, id: id, keyFile: kf, blobs: &c11wrap{name: "blobs", sto: bs}, meta: &c11wrap{name: "meta", sto: ms}, logbuf: &c11log{}, tag: tag}
	for i := 0; i < nplains; i++ {
		var p string
		switch {
		case i == 3:
			p = "" // the empty blob
		case i%37 == 5:
			p = strings.Repeat(fmt.Sprintf("LARGE-PLAINTEXT-%s-%d-%s|", tag, i, c11letters(c.rng.Int63())), 3000)
		default:
			p = fmt.Sprintf("PLAINTEXT-MARKER-%s-%d-%s-%s", tag, i, c11letters(c.rng.Int63()), c11letters(c.rng.Int63()))
		}
		e.plains = append(e.plains, p)
		e.refs = append(e.refs, blob.RefFromString(p))
	}
	return e
}

// ---- the full-meta-blob boundary: a packed meta blob just below FullMetaBlobSize lines is already in the wrapped store
// (written by the harness in the store's own format: a store that has seen ~10000 uploads would hold one); 100+ uploads
// push the compaction over the boundary; then the meta index is wiped. Everything the meta blobs named before must be
// named afterwards and be in the rebuilt index. ----
func c11FullBoundary(c *ctx, dir string) {
	for round, below := range []int{50, 3} {
		e := newC11env(c, dir, 140, fmt.Sprintf("full%d", round), false)
		log.SetOutput(e.logbuf)
		// the big meta blob: fabricated entries (their ciphertexts are never asked for)
		nbig := int(encrypt.FullMetaBlobSize) - below
		var lines []string
		big := map[string]bool{}
		for i := 0; i < nbig; i++ {
			pr := blob.RefFromString(fmt.Sprintf("fabricated plaintext %d %d %d", round, i, c.seed))
			er := blob.RefFromString(fmt.Sprintf("fabricated ciphertext %d %d %d", round, i, c.seed))
			lines = append(lines, fmt.Sprintf("%s/%d/%s", pr, 10+i%7, er))
			big[pr.String()] = true
		}
		sort.Strings(lines)
		var enc bytes.Buffer
		enc.WriteByte(2)
		w, err := age.Encrypt(&enc, e.id.Recipient())
		must(err)
		io.WriteString(w, "#camlistore/encmeta=2\n"+strings.Join(lines, "\n")+"\n")
		must(w.Close())
		if _, err := e.meta.ReceiveBlob(context.Background(), blob.RefFromBytes(enc.Bytes()), bytes.NewReader(enc.Bytes())); err != nil {
			c.rep.Notes = append(c.rep.Notes, "full boundary: "+err.Error())
			return
		}
		if err := e.open(); err != nil {
			c.violation(-1, "c11-restart-failed", "start-up over a well-formed "+fmt.Sprint(nbig)+"-line meta blob failed: "+err.Error(), nil)
			continue
		}
		where := fmt.Sprintf("a %d-line meta blob (FullMetaBlobSize %d) and 130 uploads", nbig, encrypt.FullMetaBlobSize)
		check := func(when string, want map[string]bool) {
			c.rep.SpecChecks++
			e.settle()
			// statically: named by the meta blobs
			named := map[string]bool{}
			e.meta.mu.Lock()
			var datas [][]byte
			for _, br := range e.meta.order {
				datas = append(datas, e.meta.get(br))
			}
			e.meta.mu.Unlock()
			for _, d := range datas {
				if plain, ok := e.decrypt(d); ok {
					for _, l := range strings.Split(strings.TrimSuffix(string(plain), "\n"), "\n")[1:] {
						named[strings.SplitN(l, "/", 2)[0]] = true
					}
				}
			}
			missing := 0
			for r := range want {
				if !named[r] {
					missing++
				}
			}
			if missing > 0 {
				c.violation(-1, "c11-not-recovered", fmt.Sprintf("%s, %s: %d of the %d blobs the meta blobs named are named by no meta blob any more", where, when, missing, len(want)), nil)
				return
			}
			// dynamically: the index the store answers from
			listed := map[string]bool{}
			err := blobserver.EnumerateAll(context.Background(), e.sto, func(sb blob.SizedRef) error { listed[sb.Ref.String()] = true; return nil })
			missing = 0
			for r := range want {
				if !listed[r] {
					missing++
				}
			}
			if err != nil || missing > 0 || len(listed) != len(want) {
				c.violation(-1, "c11-not-recovered", fmt.Sprintf("%s, %s: the store lists %d blobs (err %v), %d of the %d known ones are missing", where, when, len(listed), err, missing, len(want)), nil)
			}
		}
		want := map[string]bool{}
		for r := range big {
			want[r] = true
		}
		check("after the start-up", want)
		for i := 0; i < 130; i++ {
			if i == 3 {
				continue // the empty blob is not part of this scenario
			}
			if err := e.receive(i + 1); err != nil {
				c.violation(-1, "c11-receive-failed", where+": "+err.Error(), nil)
				break
			}
			want[e.refs[i].String()] = true
		}
		check("after the uploads (compaction across the boundary)", want)
		e.settle()
		if err := e.reopen(); err != nil {
			c.violation(-1, "c11-restart-failed", where+": restart with an empty meta index failed: "+err.Error(), nil)
			continue
		}
		check("after a restart with an empty meta index", want)
		c.count("scenarios", "full-meta-blob boundary")
	}
}

func runC11(c *ctx) {
	c.rep.Rule = "encrypt stores created by CreateStorage(\"encrypt\") over instrumented wrapped stores (memory.Storage, or a raw map store that accepts tampered bytes); histories of 150-450 receives (fresh, duplicate, the empty blob, 70 KB blobs) crossing the compaction threshold several times, injected failures of the small-meta removal and of single writes to either wrapped store (the receive fails, the client retries), restarts with a fresh meta index at random points; " +
		"at checkpoints the wrapped stores are decrypted by the harness (its own age identity) and compared with the model, with the enumerated plaintext refs and the class of Fetch's answer; then tampering: for every data ciphertext (quick: a sample of positions; thorough: every byte) bit flips, truncations, extensions, swaps with another ciphertext -> Fetch exact-or-error; " +
		"for meta blobs the same mutations followed by a restart -> start-up fails or everything is exact; all bytes and names ever written below are scanned for plaintext substrings and plaintext refs; non-trivial = distinct checkpoint after a compaction or a tampering"
	dir, err := os.MkdirTemp("", "verif-c11-")
	must(err)
	defer os.RemoveAll(dir)
	oldOut := log.Writer()
	defer log.SetOutput(oldOut)

	defer func() {
		for i := int64(0); i < c11gateHits.Load(); i++ {
			c.count("background", "held-back index row asked for by the packer")
		}
	}()
	if ok, pan := withTimeout(300*time.Second, func() { c11FullBoundary(c, dir) }); !ok || pan != nil {
		c.violation(-1, "c11-hang", fmt.Sprintf("the full-meta-blob boundary scenario: finished=%v panic=%v", ok, pan), nil)
	}
	for si := 0; si < c.n(3, 12); si++ {
		si := si
		ok, pan := withTimeout(time.Duration(c.n(120, 4000))*time.Second, func() { c11Scenario(c, dir, si) })
		if !ok {
			c.violation(-1, "c11-hang", fmt.Sprintf("scenario %d did not finish within its watchdog (start-up or packing deadlocked)", si), nil)
			break
		}
		if pan != nil {
			c.violation(-1, "c11-panic", fmt.Sprintf("scenario %d panicked: %v", si, pan), nil)
		}
	}
}

func c11Scenario(c *ctx, dir string, si int) {
	{
		n := 150 + c.rng.Intn(300)
		if !c.quick() && si == 0 {
			n = 10500 // beyond FullMetaBlobSize
		}
		scale := 1 // the long scenario takes its (large) checkpoints proportionally less often
		if n > 1000 {
			scale = n / 400
		}
		rawStores := si%3 != 1 // every third scenario runs over memory.Storage (no tampering phase: it verifies hashes itself)
		e := newC11env(c, dir, n, fmt.Sprint(si), rawStores)
		log.SetOutput(e.logbuf)
		must(e.open())
		received := []int{}
		isRecv := map[int]bool{}
		sample := func(k int) []int {
			var ids []int
			for i := 0; i < k && len(received) > 0; i++ {
				ids = append(ids, received[c.rng.Intn(len(received))])
			}
			ids = append(ids, 1+c.rng.Intn(n)) // possibly never received
			return ids
		}
		armedCount := 0
		for i := 1; i <= n; i++ {
			id := i
			if c.rng.Intn(8) == 0 && len(received) > 0 {
				id = received[c.rng.Intn(len(received))] // duplicate
			}
			// (the removal of the small meta blobs fails for a quarter of the compactions: decided below, at the upload that
			// is likely to start one - decided per upload it would hit nearly every compaction)
			// a transient failure of one of the wrapped stores: the receive fails, the client retries
			if !isRecv[id] && c.rng.Intn(25) == 0 {
				atMeta := c.rng.Intn(2) == 0
				st := e.blobs
				if atMeta {
					st = e.meta
				}
				st.mu.Lock()
				st.failPut = 1
				st.mu.Unlock()
				err := e.receive(id)
				st.mu.Lock()
				left := st.failPut
				st.failPut = 0
				st.mu.Unlock()
				c.rep.SpecChecks++
				if err == nil && left == 0 {
					c.violation(len(c.casesBuf), "c11-failed-write-acknowledged", fmt.Sprintf("receive #%d was acknowledged although the write below failed", id), e.human)
				}
				if left == 0 {
					e.ops = append(e.ops, fmt.Sprintf("HReceiveFail %s %d", qb(atMeta), id))
					e.human = append(e.human, fmt.Sprintf("receive #%d fails (wrapped %s store refuses the write)", id, st.name))
					c.count("steps", "failed receive "+st.name)
				}
			}
			e.meta.mu.Lock()
			nmeta := len(e.meta.order)
			if nmeta >= 100 {
				e.meta.failRm = 0
				if c.rng.Intn(4) == 0 {
					e.meta.failRm = 1
				}
			}
			e.meta.mu.Unlock()
			if !isRecv[id] && e.kv != nil && nmeta >= 100 && (armedCount < 8 || c.rng.Intn(2) == 0) { // this upload is likely to start the packer
				armedCount++
				e.kv.mu.Lock()
				e.kv.armed = true // this upload's index row is written only after the packer (if it starts) has asked for it
				e.kv.mu.Unlock()
				c.count("steps", "receive with its index row held back")
			}
			hitsBefore := c11gateHits.Load()
			if err := e.receive(id); err != nil {
				c.violation(-1, "c11-receive-failed", fmt.Sprintf("receive #%d: %v", id, err), nil)
				break
			}
			e.ops = append(e.ops, fmt.Sprintf("HReceive %d", id))
			e.human = append(e.human, fmt.Sprintf("receive #%d", id))
			if c11gateHits.Load() > hitsBefore {
				e.human = append(e.human, fmt.Sprintf("(the packing goroutine asked for the index row of #%d before it was written)", id))
			}
			skip := 1
			if isRecv[id] {
				skip = 0
			} else {
				isRecv[id] = true
				received = append(received, id)
				if e.acked == nil {
					e.acked = map[int]bool{}
				}
				e.acked[id] = true
			}
			if len(received)%50 == 0 || n < 1000 && c.rng.Intn(30) == 0 {
				e.settle()
			} else {
				// cheap: the packing goroutine only runs when the heap overflowed; give it a moment
				time.Sleep(50 * time.Microsecond)
				e.settle1()
			}
			e.drainEvents(skip)
			if c.rng.Intn(120*scale) == 0 || i == n {
				e.settle()
				e.drainEvents(0)
				e.checkpoint("after receives", sample(3))
			}
			if c.rng.Intn(60*scale) == 0 || i == n || i == n/3 {
				// restart, keeping the meta index or with a fresh one (always fresh at the end)
				e.settle()
				e.drainEvents(0)
				if mv, _, _, _ := e.views(); len(mv) > 100 {
					e.loose = true // more than SmallMetaCountLimit meta blobs: the start-up will compact, in an order we cannot see
				}
				// (every scenario has one restart that keeps the index a third of the way in: enough uploads follow for a
				// compaction, and the final restart is over an empty index)
				warm := i != n && e.kv != nil && (c.rng.Intn(2) == 0 || i == n/3)
				if warm {
					c11kvMu.Lock()
					c11kvKeep[fmt.Sprintf("%s-%d", e.tag, e.opens)] = e.kv
					c11kvMu.Unlock()
				}
				if err := e.reopen(); err != nil {
					c.violation(len(c.casesBuf), "c11-restart-failed", fmt.Sprintf("restart over untampered stores failed: %v", err), e.human)
					break
				}
				e.ops = append(e.ops, "HRestart")
				if warm {
					e.human = append(e.human, "restart keeping the meta index")
					c.count("steps", "restart keeping the index")
				} else {
					e.human = append(e.human, "restart with an empty meta index")
				}
				e.settle()
				e.drainEvents(0)
				c.count("steps", "restart")
				e.checkpoint("after a restart", sample(4))
				// recoverability, directly: every blob acknowledged so far is fetched exactly
				for _, id := range received {
					c.rep.SpecChecks++
					if cl := e.fetchClass(id); cl != 1 {
						c.violation(len(c.casesBuf)-1, "c11-not-recovered", fmt.Sprintf("after a restart with an empty meta index Fetch of acknowledged #%d is class %d", id, cl), e.human)
						break
					}
				}
			}
		}
		if bad := e.leakScan(); bad != "" {
			c.violation(len(c.casesBuf)-1, "c11-plaintext-leak", bad, nil)
		}
		c.count("steps", "scenario")
		if n > 1000 || !rawStores {
			return
		}
		c11Tamper(c, e, received)
	}
}

// settle1: one short wait for activity that has already begun
func (e *c11env) settle1() {
	e.meta.mu.Lock()
	a := e.meta.activity
	e.meta.mu.Unlock()
	time.Sleep(100 * time.Microsecond)
	e.meta.mu.Lock()
	b := e.meta.activity
	e.meta.mu.Unlock()
	if a != b {
		e.settle()
	}
}

func c11Mutations(c *ctx, data []byte, others [][]byte) (kinds []string, muts [][]byte) {
	add := func(k string, m []byte) { kinds = append(kinds, k); muts = append(muts, m) }
	step := 1
	if c.quick() {
		step = len(data)/12 + 1
	} else if len(data) > 4000 {
		step = len(data)/300 + 1
	}
	for p := 0; p < len(data); p += step {
		m := append([]byte{}, data...)
		m[p] ^= 1 << uint(c.rng.Intn(8))
		add("flip", m)
	}
	for _, p := range []int{0, 1, len(data) - 1} { // version byte, first age byte, last byte: always
		if p >= 0 && p < len(data) {
			m := append([]byte{}, data...)
			m[p] ^= 0x01
			add("flip", m)
		}
	}
	for _, cut := range []int{1, 2, 16, len(data) / 2, len(data) - 1, len(data)} {
		if cut <= len(data) {
			add("truncate", append([]byte{}, data[:len(data)-cut]...))
		}
	}
	add("extend", append(append([]byte{}, data...), 0))
	add("extend", append(append([]byte{}, data...), data[len(data)-20:]...))
	for _, o := range others {
		add("swap", o)
	}
	return
}

func c11Tamper(c *ctx, e *c11env, received []int) {
	if !e.started || len(received) < 4 {
		return
	}
	e.settle()
	e.drainEvents(0)
	baseOps := append([]string{}, e.ops...)
	baseHuman := append([]string{}, e.human...)
	// plaintext id -> name of its ciphertext
	nameOf := map[int]blob.Ref{}
	for _, br := range e.blobs.order {
		if plain, ok := e.decrypt(e.blobs.get(br)); ok {
			for i, p := range e.plains {
				if p == string(plain) {
					nameOf[i+1] = br
				}
			}
		}
	}
	// ---- data ciphertexts ----
	nTamper, nTamperMeta := c.n(6, 40), c.n(5, 30)
	if len(received) > 1000 {
		nTamper, nTamperMeta = 3, 2 // every case of the long scenario carries views of thousands of blobs
	}
	for k := 0; k < nTamper; k++ {
		id := received[c.rng.Intn(len(received))]
		other := received[c.rng.Intn(len(received))]
		br, obr := nameOf[id], nameOf[other]
		orig := e.blobs.get(br)
		kinds, muts := c11Mutations(c, orig, [][]byte{e.blobs.get(obr)})
		for i, m := range muts {
			if bytes.Equal(m, orig) {
				continue
			}
			e.blobs.raw(br, m)
			cl := e.fetchClass(id)
			c.rep.SpecChecks++
			c.count("tamper data ciphertext", kinds[i])
			if cl != 1 && cl != 2 {
				c.violation(len(c.casesBuf), "c11-tampered-ciphertext-not-detected", fmt.Sprintf("ciphertext of #%d %s: Fetch class %d (want the original or an error)", id, kinds[i], cl), nil)
			}
			// to the model: a sample
			if i%7 == 0 || kinds[i] == "swap" {
				op := fmt.Sprintf("HJunkBlob %d", id)
				if kinds[i] == "swap" {
					op = fmt.Sprintf("HSwapBlob %d %d", id, other)
				}
				e.ops = append(append([]string{}, baseOps...), op)
				e.human = append(append([]string{}, baseHuman...), fmt.Sprintf("ciphertext of #%d: %s", id, kinds[i]))
				e.checkpoint("tampered data ciphertext", []int{id, other})
			}
		}
		e.blobs.raw(br, orig)
	}
	// ---- meta blobs: tamper, restart ----
	if e.loose {
		return
	}
	if mv, _, _, _ := e.views(); len(mv) > 100 {
		return
	}
	order := append([]blob.Ref{}, e.meta.order...)
	for k := 0; k < nTamperMeta && len(order) > 1; k++ {
		i := c.rng.Intn(len(order))
		j := c.rng.Intn(len(order))
		br := order[i]
		orig := e.meta.get(br)
		kinds, muts := c11Mutations(c, orig, [][]byte{e.meta.get(order[j])})
		for mi, m := range muts {
			if bytes.Equal(m, orig) {
				continue
			}
			if c.quick() && mi%3 != 0 && kinds[mi] != "swap" {
				continue
			}
			e.meta.raw(br, m)
			err := e.open()
			c.rep.SpecChecks++
			c.count("tamper meta blob", kinds[mi])
			c.count("tampered start-up", map[bool]string{true: "fails", false: "starts"}[err != nil])
			op := fmt.Sprintf("HJunkMeta %d%%nat", i)
			if kinds[mi] == "swap" {
				op = fmt.Sprintf("HSwapMeta %d%%nat %d%%nat", i, j)
			}
			e.ops = append(append([]string{}, baseOps...), op, "HRestart")
			e.human = append(append([]string{}, baseHuman...), fmt.Sprintf("meta blob %d: %s; restart", i, kinds[mi]))
			if err == nil {
				e.settle()
				evs := len(e.ops)
				e.drainEvents(0)
				_ = evs
				// everything that is still enumerated must be exact or fail
				ids := []int{}
				for x := 0; x < 6; x++ {
					ids = append(ids, received[c.rng.Intn(len(received))])
				}
				for _, id := range received {
					if cl := e.fetchClass(id); cl == 3 {
						c.violation(len(c.casesBuf), "c11-tampered-meta-wrong-bytes", fmt.Sprintf("meta blob %s, start-up succeeded, Fetch of #%d returns other bytes", kinds[mi], id), nil)
					}
				}
				e.checkpoint("tampered meta blob, restarted", ids)
			} else {
				e.checkpoint("tampered meta blob, start-up failed", nil)
			}
			// undo: restore the blob and whatever a successful start-up changed below
			e.meta.raw(br, orig)
			if err == nil {
				// a start-up that packed meta blobs changes the store: stop tampering this store
				e.meta.mu.Lock()
				changed := len(e.meta.order) != len(order)
				e.meta.mu.Unlock()
				if changed {
					return
				}
			}
		}
	}
	sort.Strings(c.rep.TargetsMissed)
}

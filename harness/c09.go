//go:build verif

package main

import (
	"context"
	"fmt"
	"sort"
	"strings"
	"time"

	"perkeep.org/pkg/blob"
	"perkeep.org/pkg/schema"
	"perkeep.org/pkg/search"
	"perkeep.org/pkg/sorted"
)

func init() { props["C09"] = runC09 }

// a world of permanodes for search: each with claims at chosen times
type spn struct {
	ref     blob.Ref
	tags    []string
	title   string
	ntype   string
	hidden  bool
	deleted bool
	mtime   time.Time // latest claim date, zero if no claims
	ctime   time.Time // PermanodeAnyTime: the startDate attribute when there is one, the modtime otherwise
	noClaim bool
}

// the time a sort orders (and pages) by
func (p *spn) sortTime(s search.SortType) time.Time {
	if s == search.CreatedDesc {
		return p.ctime
	}
	return p.mtime
}

type searchWorld struct {
	w   *world
	iw  *ixWorld
	pns []*spn
}

func buildSearchWorld(c *ctx, w *world, n int, timeStyle string) *searchWorld {
	kv := sorted.NewMemoryKeyValue()
	iw, err := newIndex(w, kv, true)
	if err != nil {
		panic(err)
	}
	sw := &searchWorld{w: w, iw: iw}
	base := time.Unix(1400000000, 0).UTC()
	pickTime := func() time.Time {
		switch timeStyle {
		case "tied":
			return base.Add(time.Duration(c.rng.Intn(3)) * time.Second)
		case "pre1970":
			return time.Unix(-1000000+int64(c.rng.Intn(50))*1000, int64(c.rng.Intn(3))*500000000).UTC()
		case "pre1970tied":
			return time.Unix(-5000+int64(c.rng.Intn(2)), int64(c.rng.Intn(4))*250000000).UTC()
		case "subsecond":
			return base.Add(time.Duration(c.rng.Intn(4)) * 250 * time.Millisecond)
		case "mixed":
			if c.rng.Intn(3) == 0 {
				return time.Unix(-5000+int64(c.rng.Intn(4)), 0).UTC()
			}
			return base.Add(time.Duration(c.rng.Intn(6)) * time.Second)
		}
		return base.Add(time.Duration(c.rng.Intn(1000)) * time.Second)
	}
	for i := 0; i < n; i++ {
		pb := w.permanode(0)
		must(iw.deliver(pb))
		p := &spn{ref: pb.BlobRef()}
		sw.pns = append(sw.pns, p)
		if c.rng.Intn(12) == 0 {
			p.noClaim = true
			continue
		}
		t := pickTime()
		p.mtime = t
		p.ctime = t
		if c.rng.Intn(3) == 0 { // a creation time of its own, before or after the modtime
			p.ctime = pickTime()
			must(iw.deliver(w.claim(0, schema.NewSetAttributeClaim(p.ref, "startDate", p.ctime.Format(time.RFC3339Nano)), t)))
		}
		tag := []string{"x", "y", "z"}[c.rng.Intn(3)]
		p.tags = []string{tag}
		must(iw.deliver(w.claim(0, schema.NewSetAttributeClaim(p.ref, "tag", tag), t)))
		if c.rng.Intn(3) == 0 {
			p.title = fmt.Sprintf("Title %d", i)
			must(iw.deliver(w.claim(0, schema.NewSetAttributeClaim(p.ref, "title", p.title), t)))
		}
		if c.rng.Intn(4) == 0 {
			p.ntype = []string{"foo", "bar"}[c.rng.Intn(2)]
			must(iw.deliver(w.claim(0, schema.NewSetAttributeClaim(p.ref, "camliNodeType", p.ntype), t)))
		}
		if c.rng.Intn(10) == 0 {
			p.hidden = true
			must(iw.deliver(w.claim(0, schema.NewSetAttributeClaim(p.ref, "camliDefVis", "hide"), t)))
		}
	}
	for _, p := range sw.pns {
		if c.rng.Intn(9) == 0 {
			p.deleted = true
			must(iw.deliver(w.claim(0, schema.NewDeleteClaim(p.ref), time.Unix(1500000000, 0))))
		}
	}
	iw.ix.VerifAwaitReindex()
	return sw
}

func must(err error) {
	if err != nil {
		panic(err)
	}
}

func (sw *searchWorld) rank() map[blob.Ref]int {
	var refs []string
	for _, p := range sw.pns {
		refs = append(refs, p.ref.String())
	}
	sort.Strings(refs)
	m := map[blob.Ref]int{}
	for i, r := range refs {
		m[blob.MustParse(r)] = i + 1
	}
	return m
}

func (sw *searchWorld) byRef(r blob.Ref) *spn {
	for _, p := range sw.pns {
		if p.ref == r {
			return p
		}
	}
	return nil
}

func runC09(c *ctx) {
	c.rep.Rule = "worlds of 4-22 permanodes (a third with a startDate attribute, so that creation time and modtime differ) whose claim times are massively tied, pre-1970, sub-second, pre-1970 with tied sub-second fractions, or mixed, some deleted / hidden / without claims; permanode constraints (camliType permanode, skipHidden, tag equals); both continuable sorts; every page size 1..n+1 followed through its continuation tokens to exhaustion (watchdog on the number of pages); every pivot (matching, non-matching, deleted) x several limits for 'around'; " +
		"non-trivial = distinct case with at least two pages (paging) or a pivot that matches (around)"
	w, err := newWorld()
	if err != nil {
		panic(err)
	}
	ctxb := context.Background()
	styles := []string{"tied", "pre1970", "subsecond", "mixed", "spread", "pre1970tied"}
	for wi := 0; wi < c.n(12, 120); wi++ {
		style := styles[wi%len(styles)]
		sw := buildSearchWorld(c, w, 4+c.rng.Intn(19), style)
		h := sw.iw.handler(w, 0)
		rank := sw.rank()
		constraints := []struct {
			name string
			c    *search.Constraint
		}{
			{"camliType=permanode", &search.Constraint{CamliType: "permanode"}},
			{"permanode{skipHidden}", &search.Constraint{Permanode: &search.PermanodeConstraint{SkipHidden: true}}},
			{"permanode{tag=x}", &search.Constraint{Permanode: &search.PermanodeConstraint{Attr: "tag", Value: "x"}}},
		}
		for _, sortT := range []search.SortType{search.CreatedDesc, search.LastModifiedDesc} {
			for _, cs := range constraints[:c.n(2, 3)+0] {
				full, err := h.Query(ctxb, &search.SearchQuery{Constraint: cs.c, Sort: sortT, Limit: -1})
				if err != nil {
					c.rep.Notes = append(c.rep.Notes, "query: "+err.Error())
					continue
				}
				item := func(r blob.Ref) string {
					p := sw.byRef(r)
					return fmt.Sprintf("(%s, %d%%N)", qz(p.sortTime(sortT).UnixNano()), rank[r])
				}
				var fullQ []string
				var fullRefs []blob.Ref
				for _, b := range full.Blobs {
					fullQ = append(fullQ, item(b.Blob))
					fullRefs = append(fullRefs, b.Blob)
				}
				// SPEC on the unpaged list: ordered by (time desc, ref desc)
				for i := 0; i+1 < len(fullRefs); i++ {
					a, b := sw.byRef(fullRefs[i]), sw.byRef(fullRefs[i+1])
					if a.sortTime(sortT).Before(b.sortTime(sortT)) || (a.sortTime(sortT).Equal(b.sortTime(sortT)) && a.ref.String() < b.ref.String()) {
						c.violation(len(c.casesBuf), "c09-full-order", fmt.Sprintf("%s %s sort %v: unpaged result out of order at %d", style, cs.name, sortT, i), nil)
						break
					}
				}
				n := len(fullRefs)
				for limit := 1; limit <= n+1; limit++ {
					if c.quick() && n > 8 && limit > 4 && limit < n-1 && c.rng.Intn(3) != 0 {
						continue
					}
					maxPages := n/limit + 3
					var pages []string
					var seen []blob.Ref
					cont := ""
					npages := 0
					loop := false
					for {
						res, err := h.Query(ctxb, &search.SearchQuery{Constraint: cs.c, Sort: sortT, Limit: limit, Continue: cont})
						if err != nil {
							c.rep.Notes = append(c.rep.Notes, "page query: "+err.Error())
							break
						}
						var pq []string
						for _, b := range res.Blobs {
							pq = append(pq, item(b.Blob))
							seen = append(seen, b.Blob)
						}
						pages = append(pages, qlist(pq))
						npages++
						if res.Continue == "" {
							break
						}
						if npages >= maxPages {
							loop = true
							break
						}
						cont = res.Continue
					}
					idx := c.addCase(fmt.Sprintf("CPages %s %d %d %s", qlist(fullQ), limit, maxPages, qlist(pages)),
						map[string]any{"op": "paging", "times": style, "constraint": cs.name, "sort": fmt.Sprint(sortT), "results": n, "limit": limit, "pages": npages}, npages > 1)
					c.rep.SpecChecks++
					c.count("paging", style)
					ok := !loop && len(seen) == n
					for i := range seen {
						if ok && seen[i] != fullRefs[i] {
							ok = false
						}
					}
					if !ok {
						cl := "c09-paging"
						neg := false
						for _, r := range fullRefs {
							if sw.byRef(r).sortTime(sortT).UnixNano() < 0 {
								neg = true
							}
						}
						if loop && neg {
							cl = "c09-paging-pre1970-token-ignored"
						}
						c.violation(idx, cl, fmt.Sprintf("%s times, %s, sort %v, limit %d: following the continuation tokens gave %d items in %d pages (endless=%v), the unpaged result has %d", style, cs.name, sortT, limit, len(seen), npages, loop, n), nil)
					}
				}
				// around: every pivot
				var matchRanks []string
				for _, r := range fullRefs {
					matchRanks = append(matchRanks, fmt.Sprint(rank[r]))
				}
				for _, p := range sw.pns {
					for _, limit := range []int{1, 2, 3, 4, 5, n, n + 1} {
						if limit < 1 || (c.quick() && c.rng.Intn(3) != 0) {
							continue
						}
						res, err := h.Query(ctxb, &search.SearchQuery{Constraint: cs.c, Sort: sortT, Limit: limit, Around: p.ref})
						if err != nil {
							c.rep.Notes = append(c.rep.Notes, "around query: "+err.Error())
							continue
						}
						var got []blob.Ref
						var gq []string
						for _, b := range res.Blobs {
							got = append(got, b.Blob)
							gq = append(gq, fmt.Sprint(rank[b.Blob]))
						}
						pos := -1
						for i, r := range fullRefs {
							if r == p.ref {
								pos = i
							}
						}
						idx := c.addCase(fmt.Sprintf("CAround [%s]%%N %d %d%%N [%s]%%N", strings.Join(matchRanks, "; "), limit, rank[p.ref], strings.Join(gq, "; ")),
							map[string]any{"op": "around", "times": style, "constraint": cs.name, "sort": fmt.Sprint(sortT), "results": n, "limit": limit, "pivotMatches": pos >= 0}, pos >= 0)
						c.rep.SpecChecks++
						c.count("around", map[bool]string{true: "pivot matches", false: "pivot does not match"}[pos >= 0])
						bad := ""
						if pos < 0 {
							if len(got) != 0 {
								bad = "pivot does not match but results were returned"
							}
						} else {
							start := -1
							for i, r := range fullRefs {
								if len(got) > 0 && r == got[0] {
									start = i
								}
							}
							contains := false
							for i, r := range got {
								if start < 0 || start+i >= n || fullRefs[start+i] != r {
									bad = "not a contiguous window of the full result"
								}
								if r == p.ref {
									contains = true
								}
							}
							if !contains {
								bad = "window does not contain the pivot"
							}
							if len(got) > limit {
								bad = "window larger than the limit"
							}
						}
						if bad != "" {
							c.violation(idx, "c09-around", fmt.Sprintf("%s times, %s, sort %v, limit %d, pivot rank %d: %s (got %v of %v)", style, cs.name, sortT, limit, rank[p.ref], bad, gq, matchRanks), nil)
						}
					}
				}
			}
		}
	}
}

//go:build verif

package main

import (
	"bytes"
	"context"
	"encoding/json"
	"fmt"
	"io"
	"log"
	"mime/multipart"
	"net/http"
	"net/http/httptest"
	"net/url"
	"os"
	"path/filepath"
	"perkeep.org/pkg/blobserver"
	"sort"
	"strings"
	"time"

	"perkeep.org/pkg/auth"
	"perkeep.org/pkg/blob"
	"perkeep.org/pkg/blobserver/handlers"
	"perkeep.org/pkg/blobserver/memory"
	"perkeep.org/pkg/client"
	"perkeep.org/pkg/serverinit"
)

func init() { props["C18"] = runC18 }

type c18server struct {
	ts   *httptest.Server
	name string
	cl   *client.Client
	shut io.Closer
}

// c18Start builds the low-level configuration the high-level one selects, drops the handlers that cannot run in this
// sandbox (ui, importer), and serves the rest
func c18Start(hl map[string]any, name string) (*c18server, error) {
	js, _ := json.Marshal(hl)
	cfg, err := serverinit.Load(js)
	if err != nil {
		return nil, fmt.Errorf("Load(high-level): %w", err)
	}
	low := cfg.LowLevelJSONConfig()
	prefixes, _ := low["prefixes"].(map[string]any)
	for p, v := range prefixes {
		if m, ok := v.(map[string]any); ok {
			if h, _ := m["handler"].(string); h == "ui" || h == "importer" || h == "app" {
				delete(prefixes, p)
			}
		}
	}
	var strip func(v any)
	strip = func(v any) {
		switch t := v.(type) {
		case map[string]any:
			delete(t, "_knownkeys")
			for _, x := range t {
				strip(x)
			}
		case []any:
			for _, x := range t {
				strip(x)
			}
		}
	}
	js0, _ := json.Marshal(low)
	low = map[string]any{}
	json.Unmarshal(js0, &low)
	strip(low)
	prefixes, _ = low["prefixes"].(map[string]any)
	for p, v := range prefixes {
		if m, ok := v.(map[string]any); ok {
			if h, _ := m["handler"].(string); h == "ui" || h == "importer" || h == "app" {
				delete(prefixes, p)
			}
		}
	}
	low["handlerConfig"] = true
	js2, _ := json.Marshal(low)
	cfg2, err := serverinit.Load(js2)
	if err != nil {
		return nil, fmt.Errorf("Load(low-level): %w", err)
	}
	mux := http.NewServeMux()
	ts := httptest.NewServer(mux)
	shut, err := cfg2.InstallHandlers(c17mux{mux}, ts.URL)
	if err != nil {
		ts.Close()
		return nil, fmt.Errorf("InstallHandlers: %w", err)
	}
	cl, err := client.New(client.OptionServer(ts.URL), client.OptionNoExternalConfig(), client.OptionAuthMode(auth.NewBasicAuth("u", "p")))
	if err != nil {
		ts.Close()
		return nil, err
	}
	return &c18server{ts: ts, name: name, cl: cl, shut: shut}, nil
}

func (s *c18server) raw(method, path string, body io.Reader, ctype string) (int, []byte) {
	req, _ := http.NewRequest(method, s.ts.URL+path, body)
	req.SetBasicAuth("u", "p")
	if ctype != "" {
		req.Header.Set("Content-Type", ctype)
	}
	resp, err := http.DefaultClient.Do(req)
	if err != nil {
		return 0, []byte(err.Error())
	}
	defer resp.Body.Close()
	b, _ := io.ReadAll(resp.Body)
	return resp.StatusCode, b
}

func runC18(c *ctx) {
	c.rep.Rule = "servers built by serverinit from high-level configurations {memory, localdisk, diskpacked, blobpacked} x {memory, leveldb, kv, sqlite index} (ui/importer handlers dropped), served by httptest; through pkg/client: uploads (empty blob, 1 byte, 70 KB, duplicates), StatBlobs with cached and uncached, present and absent refs, Fetch, EnumerateBlobs / EnumerateBlobsOpts with limits; " +
		"the enumerate handler directly over a storage announcing MaxEnumerate()=5 with limits below, at and above it; raw requests: PUT and multipart uploads, stat batches of 1, 7, 1000 and 1001 blobN values (with duplicates), enumerate with limit 0/1/2/3/n/huge/garbage followed through continueAfter, enumerate and stat with maxwaitsec; everything compared with the reference map kept by the harness and with the model of the handlers; non-trivial = distinct request that involves at least one present blob"
	old := log.Writer()
	log.SetOutput(io.Discard)
	defer log.SetOutput(old)
	defer auth.SetMode(auth.None{})
	dir, err := os.MkdirTemp("", "verif-c18-")
	must(err)
	defer os.RemoveAll(dir)
	w, err := newWorld()
	must(err)
	secring := filepath.Join(repoRoot(), "pkg", "jsonsign", "testdata", "test-secring.gpg")
	c18Capped(c)
	c18ManyBlobs(c)
	c18LongPoll(c)
	storages := []string{"memory", "localdisk", "diskpacked", "blobpacked"}
	indexes := []string{"memory", "leveldb", "kv", "sqlite"}
	n := 0
	for _, sk := range storages {
		for _, ik := range indexes {
			n++
			d := filepath.Join(dir, fmt.Sprintf("srv%d", n))
			must(os.MkdirAll(d, 0o700))
			hl := map[string]any{"listen": "localhost:3179", "auth": "userpass:u:p", "identity": w.signers[0].keyID, "identitySecretRing": secring, "shareHandlerPath": "/share/"}
			switch sk {
			case "memory":
				hl["memoryStorage"] = true
			case "localdisk":
				hl["blobPath"] = filepath.Join(d, "blobs")
			case "diskpacked":
				hl["blobPath"] = filepath.Join(d, "blobs")
				hl["packBlobs"] = true
			case "blobpacked":
				hl["blobPath"] = filepath.Join(d, "blobs")
				hl["packRelated"] = true
			}
			switch ik {
			case "memory":
				hl["memoryIndex"] = true
			case "leveldb":
				hl["levelDB"] = filepath.Join(d, "index.leveldb")
			case "kv":
				hl["kvIndexFile"] = filepath.Join(d, "index.kv")
			case "sqlite":
				hl["sqlite"] = filepath.Join(d, "index.sqlite")
			}
			if p, ok := hl["blobPath"].(string); ok {
				os.MkdirAll(filepath.Join(p, "cache"), 0o700)
				os.MkdirAll(filepath.Join(p, "packed"), 0o700)
			}
			name := sk + "+" + ik
			var srv *c18server
			ok, pan := withTimeout(60*time.Second, func() { srv, err = c18Start(hl, name) })
			if !ok || pan != nil || err != nil {
				c.rep.Notes = append(c.rep.Notes, fmt.Sprintf("configuration %s could not be started here: %v %v", name, err, pan))
				c.count("configurations", name+": not started")
				continue
			}
			c.count("configurations", name)
			ok, pan = withTimeout(120*time.Second, func() { c18Exercise(c, srv) })
			if !ok {
				c.violation(-1, "c18-hang", "configuration "+name+": the exercise did not finish in 120 s", nil)
			}
			if pan != nil {
				c.violation(-1, "c18-panic", fmt.Sprintf("configuration %s: %v", name, pan), nil)
			}
			srv.ts.Close()
			if srv.shut != nil {
				srv.shut.Close()
			}
		}
	}
}

// c18capped announces a small per-request maximum, as the cloud storages do (1000 or 5000 there)
type c18capped struct {
	*memory.Storage
	max int
}

func (s c18capped) MaxEnumerate() int { return s.max }

// c18Capped drives the enumerate handler directly over a storage with MaxEnumerate() = 5 holding 13 blobs
func c18Capped(c *ctx) {
	sto := c18capped{&memory.Storage{}, 5}
	var refs []string
	for i := 0; i < 13; i++ {
		content := fmt.Sprintf("capped blob %d seed %d", i, c.seed)
		br := blob.RefFromString(content)
		sto.ReceiveBlob(context.Background(), br, strings.NewReader(content))
		refs = append(refs, br.String())
	}
	sort.Strings(refs)
	rank := map[string]int{}
	var mq []string
	key := func(i int) string { return fmt.Sprintf("[%d; %d]", 48+i/10, 48+i%10) }
	for i, r := range refs {
		rank[r] = i + 1
		mq = append(mq, fmt.Sprintf("(%s, [1])", key(i+1)))
	}
	world := "[" + strings.Join(mq, "; ") + "]"
	ts := httptest.NewServer(handlers.CreateEnumerateHandler(sto))
	defer ts.Close()
	for _, lim := range []string{"", "3", "5", "6", "7", "100000", "abc"} {
		var all, pages []string
		after := ""
		status := 200
		for n := 0; n < 20; n++ {
			q := url.Values{}
			if lim != "" {
				q.Set("limit", lim)
			}
			if after != "" {
				q.Set("after", after)
			}
			resp, err := http.Get(ts.URL + "/?" + q.Encode())
			if err != nil {
				status = 0
				break
			}
			body, _ := io.ReadAll(resp.Body)
			resp.Body.Close()
			status = resp.StatusCode
			var r struct {
				Blobs []struct {
					BlobRef string `json:"blobRef"`
				} `json:"blobs"`
				ContinueAfter string `json:"continueAfter"`
			}
			if status != 200 || json.Unmarshal(body, &r) != nil {
				break
			}
			var pg []string
			for _, b := range r.Blobs {
				all = append(all, b.BlobRef)
				pg = append(pg, key(rank[b.BlobRef]))
			}
			pages = append(pages, "["+strings.Join(pg, "; ")+"]")
			if r.ContinueAfter == "" {
				break
			}
			after = r.ContinueAfter
		}
		limq := "None"
		switch {
		case lim == "":
		case lim == "abc":
			limq = "(Some None)"
		default:
			limq = fmt.Sprintf("(Some (Some %s%%nat))", lim)
		}
		c.rep.SpecChecks++
		idx := c.addCase(fmt.Sprintf("CEnumMax %s 5%%nat %s %s [%s]", world, limq, qb(status == 200), strings.Join(pages, "; ")),
			map[string]any{"server": "enumerate handler over a storage with MaxEnumerate()=5", "op": "raw enumerate", "limit": lim, "pages": len(pages)}, true)
		c.count("enumerate", fmt.Sprintf("capped storage, limit %q", lim))
		if strings.Join(all, ",") != strings.Join(refs, ",") {
			c.violation(idx, "c18-enumerate", fmt.Sprintf("storage with a per-request maximum of 5, limit=%q: following continueAfter lists %d of %d refs in %d pages", lim, len(all), len(refs), len(pages)), nil)
		}
	}
}

// more blobs than the client's page (1000): the client's enumeration - plain and long-polling - must list them all
func c18ManyBlobs(c *ctx) {
	sto := &memory.Storage{}
	var refs []string
	for i := 0; i < 1100+c.rng.Intn(50); i++ {
		content := fmt.Sprintf("one of many %d seed %d", i, c.seed)
		br := blob.RefFromString(content)
		sto.ReceiveBlob(context.Background(), br, strings.NewReader(content))
		refs = append(refs, br.String())
	}
	sort.Strings(refs)
	mux := http.NewServeMux()
	mux.Handle("/bs/camli/enumerate-blobs", handlers.CreateEnumerateHandler(sto))
	ts := httptest.NewServer(mux)
	defer ts.Close()
	base, err := client.New(client.OptionServer(ts.URL), client.OptionNoExternalConfig())
	if err != nil {
		c.rep.Notes = append(c.rep.Notes, "client: "+err.Error())
		return
	}
	cl, err := base.NewPathClient("/bs") // a client of one storage prefix: no discovery
	if err != nil {
		c.rep.Notes = append(c.rep.Notes, "client: "+err.Error())
		return
	}
	for _, wait := range []time.Duration{0, 2 * time.Second} {
		ch := make(chan blob.SizedRef, 64)
		var got []string
		done := make(chan struct{})
		go func() {
			for sb := range ch {
				got = append(got, sb.Ref.String())
			}
			close(done)
		}()
		var eerr error
		ok, _ := withTimeout(30*time.Second, func() {
			eerr = cl.EnumerateBlobsOpts(context.Background(), ch, client.EnumerateOpts{MaxWait: wait})
		})
		if ok {
			<-done
		}
		c.rep.SpecChecks++
		c.count("enumerate", fmt.Sprintf("client over %d blobs, max wait %v", len(refs), wait))
		if !ok || eerr != nil || strings.Join(got, ",") != strings.Join(refs, ",") {
			c.violation(-1, "c18-enumerate", fmt.Sprintf("client enumeration (max wait %v) of a store with %d blobs: %d listed, error %v, finished %v", wait, len(refs), len(got), eerr, ok), nil)
		}
	}
}

// long-polling proper: nothing is there when the request arrives, the blob arrives while the request waits. The answer
// must come promptly after the arrival and list / stat the blob; without an arrival it must come at the end of the wait,
// empty and well-formed.
func c18LongPoll(c *ctx) {
	for round := 0; round < 2; round++ {
		sto := &memory.Storage{}
		mux := http.NewServeMux()
		mux.Handle("/bs/camli/enumerate-blobs", handlers.CreateEnumerateHandler(sto))
		mux.Handle("/bs/camli/stat", handlers.CreateStatHandler(sto))
		ts := httptest.NewServer(mux)
		get := func(path string) (int, []byte, time.Duration) {
			t0 := time.Now()
			resp, err := http.Get(ts.URL + path)
			if err != nil {
				return 0, []byte(err.Error()), time.Since(t0)
			}
			defer resp.Body.Close()
			b, _ := io.ReadAll(resp.Body)
			return resp.StatusCode, b, time.Since(t0)
		}
		upload := func(content string) blob.Ref {
			br := blob.RefFromString(content)
			if _, err := blobserver.Receive(context.Background(), sto, br, strings.NewReader(content)); err != nil {
				c.rep.Notes = append(c.rep.Notes, "long-poll upload: "+err.Error())
			}
			return br
		}
		type answer struct {
			status int
			body   []byte
			took   time.Duration
		}
		ask := func(path string) chan answer {
			ch := make(chan answer, 1)
			go func() { st, b, d := get(path); ch <- answer{st, b, d} }()
			return ch
		}
		await := func(what string, ch chan answer) (answer, bool) {
			select {
			case a := <-ch:
				return a, true
			case <-time.After(20 * time.Second):
				c.violation(-1, "c18-longpoll-hangs", what+": no answer within 20 s (the wait asked for was 8 s)", nil)
				return answer{}, false
			}
		}
		// 1. enumerate, blob arrives 300 ms later
		ch := ask("/bs/camli/enumerate-blobs?maxwaitsec=8")
		time.Sleep(300 * time.Millisecond)
		br1 := upload(fmt.Sprintf("arrives while an enumeration waits %d %d", round, c.seed))
		c.rep.SpecChecks++
		c.count("enumerate", "long poll, blob arrives during the wait")
		if a, ok := await("long-polling enumerate", ch); ok {
			var res struct {
				Blobs []struct {
					BlobRef string `json:"blobRef"`
					Size    int    `json:"size"`
				} `json:"blobs"`
			}
			err := json.Unmarshal(a.body, &res)
			switch {
			case a.status != 200 || err != nil:
				c.violation(-1, "c18-enumerate", fmt.Sprintf("long-polling enumerate: status %d, body %q (%v)", a.status, a.body, err), nil)
			case len(res.Blobs) != 1 || res.Blobs[0].BlobRef != br1.String():
				c.violation(-1, "c18-enumerate-maxwaitsec-lists-nothing", fmt.Sprintf("long-polling enumerate: a blob arrived 300 ms into an 8 s wait; the answer (after %v) lists %d blobs", a.took.Round(time.Millisecond), len(res.Blobs)), nil)
			case a.took > 5*time.Second:
				c.violation(-1, "c18-longpoll-late", fmt.Sprintf("long-polling enumerate: the blob arrived after 300 ms, the answer came after %v", a.took.Round(time.Millisecond)), nil)
			}
		}
		// 2. stat of an absent blob that arrives 300 ms later (asked together with a present one)
		content2 := fmt.Sprintf("arrives while a stat waits %d %d", round, c.seed)
		br2 := blob.RefFromString(content2)
		ch = ask("/bs/camli/stat?camliversion=1&blob1=" + br2.String() + "&blob2=" + br1.String() + "&maxwaitsec=8")
		time.Sleep(300 * time.Millisecond)
		upload(content2)
		c.rep.SpecChecks++
		c.count("stat", "long poll, blob arrives during the wait")
		if a, ok := await("long-polling stat", ch); ok {
			var res struct {
				Stat []struct {
					BlobRef string `json:"blobRef"`
					Size    int    `json:"size"`
				} `json:"stat"`
			}
			err := json.Unmarshal(a.body, &res)
			seen := map[string]int{}
			for _, x := range res.Stat {
				seen[x.BlobRef]++
			}
			switch {
			case a.status != 200 || err != nil:
				c.violation(-1, "c18-stat", fmt.Sprintf("long-polling stat: status %d, body %q (%v)", a.status, a.body, err), nil)
			case seen[br1.String()] != 1 || seen[br2.String()] != 1 || len(res.Stat) != 2:
				c.violation(-1, "c18-stat", fmt.Sprintf("long-polling stat of a present blob and one that arrived 300 ms into an 8 s wait: the answer (after %v) reports %v", a.took.Round(time.Millisecond), seen), nil)
			case a.took > 5*time.Second:
				c.violation(-1, "c18-longpoll-late", fmt.Sprintf("long-polling stat: the blob arrived after 300 ms, the answer came after %v", a.took.Round(time.Millisecond)), nil)
			}
		}
		ts.Close()
		// 3. nothing arrives: the answer comes at the end of the wait, empty and well-formed
		sto2 := &memory.Storage{}
		mux2 := http.NewServeMux()
		mux2.Handle("/bs/camli/enumerate-blobs", handlers.CreateEnumerateHandler(sto2))
		ts = httptest.NewServer(mux2)
		c.rep.SpecChecks++
		c.count("enumerate", "long poll, nothing arrives")
		if a, ok := await("long-polling enumerate of an empty store", ask("/bs/camli/enumerate-blobs?maxwaitsec=1")); ok {
			var res struct {
				Blobs []any `json:"blobs"`
			}
			if err := json.Unmarshal(a.body, &res); a.status != 200 || err != nil || len(res.Blobs) != 0 || a.took < 800*time.Millisecond || a.took > 6*time.Second {
				c.violation(-1, "c18-enumerate", fmt.Sprintf("enumerate?maxwaitsec=1 of an empty store: status %d after %v, body %q (%v)", a.status, a.took.Round(time.Millisecond), a.body, err), nil)
			}
		}
		ts.Close()
	}
}

func c18q(refs []string, rank map[string]int) string {
	var s []string
	for _, r := range refs {
		s = append(s, fmt.Sprint(rank[r]))
	}
	return "[" + strings.Join(s, "; ") + "]"
}

func c18Exercise(c *ctx, s *c18server) {
	ctxb := context.Background()
	ref := map[string][]byte{} // the reference map
	var order []string
	put := func(content []byte) string {
		r := blob.RefFromBytes(content).String()
		if _, ok := ref[r]; !ok {
			order = append(order, r)
		}
		ref[r] = content
		return r
	}
	bad := func(class, detail string) { c.violation(len(c.casesBuf), class, s.name+": "+detail, nil) }
	// ---- uploads through the client ----
	contents := [][]byte{{}, []byte("x"), bytes.Repeat([]byte("seventy kilobytes "), 4000), []byte("hello " + s.name)}
	for i := 0; i < 9; i++ {
		contents = append(contents, []byte(fmt.Sprintf("blob %d of %s seed %d", i, s.name, c.seed)))
	}
	if s.name == "memory+memory" { // the size limit end to end: one byte below the limit and exactly at it, through the client
		for _, n := range []int{blobserver.MaxBlobSize - 1, blobserver.MaxBlobSize} {
			big := bytes.Repeat([]byte{byte(n)}, n)
			copy(big, fmt.Sprintf("%d bytes for %s seed %d", n, s.name, c.seed))
			contents = append(contents, big)
		}
	}
	for i, content := range contents {
		r := blob.RefFromBytes(content)
		how := i % 3
		if len(content) >= blobserver.MaxBlobSize-1 {
			how = 0 // the client (a multipart upload)
		}
		switch how {
		case 0:
			_, err := s.cl.Upload(ctxb, &client.UploadHandle{BlobRef: r, Size: uint32(len(content)), Contents: bytes.NewReader(content)})
			if err != nil {
				bad("c18-upload-failed", fmt.Sprintf("client upload of %d bytes: %v", len(content), err))
				continue
			}
		case 1:
			code, body := s.raw("PUT", "/bs/camli/"+r.String(), bytes.NewReader(content), "")
			if code/100 != 2 {
				bad("c18-upload-failed", fmt.Sprintf("PUT of %d bytes: %d %.100s", len(content), code, body))
				continue
			}
		default:
			var buf bytes.Buffer
			mw := multipart.NewWriter(&buf)
			fw, _ := mw.CreateFormFile(r.String(), r.String())
			fw.Write(content)
			mw.Close()
			code, body := s.raw("POST", "/bs/camli/upload", &buf, mw.FormDataContentType())
			if code/100 != 2 {
				bad("c18-upload-failed", fmt.Sprintf("multipart upload of %d bytes: %d %.100s", len(content), code, body))
				continue
			}
		}
		put(content)
		c.rep.SpecChecks++
		c.count("uploads", []string{"client", "PUT", "multipart"}[how])
	}
	// a duplicate upload
	s.cl.Upload(ctxb, client.NewUploadHandleFromString("x"))
	var sortedRefs []string
	for r := range ref {
		sortedRefs = append(sortedRefs, r)
	}
	sort.Strings(sortedRefs)
	rank := map[string]int{}
	for i, r := range sortedRefs {
		rank[r] = i + 1
	}
	absent := []string{blob.RefFromString("absent one").String(), blob.RefFromString("absent two").String()}
	// the map for the model: ref = rank (as a one-byte-per-digit string keeps order: use fixed width)
	key := func(i int) string { return fmt.Sprintf("[%d; %d]", 48+i/10, 48+i%10) }
	var mq []string
	for i, r := range sortedRefs {
		mq = append(mq, fmt.Sprintf("(%s, [%d])", key(i+1), len(ref[r])%251))
	}
	world := "[" + strings.Join(mq, "; ") + "]"
	refKey := func(r string) string {
		if i, ok := rank[r]; ok {
			return key(i)
		}
		return "[57; 57; 57]" // sorts after every present key
	}
	// ---- fetch ----
	for _, r := range append(append([]string{}, sortedRefs...), absent...) {
		rc, size, err := s.cl.Fetch(ctxb, blob.MustParse(r))
		c.rep.SpecChecks++
		want, present := ref[r]
		if err != nil {
			if present {
				bad("c18-get", fmt.Sprintf("Fetch of an uploaded blob (%d bytes) fails: %v", len(want), err))
			}
			continue
		}
		got, _ := io.ReadAll(rc)
		rc.Close()
		if !present || !bytes.Equal(got, want) || int(size) != len(want) {
			bad("c18-get", fmt.Sprintf("Fetch returns %d bytes / size %d for a blob of %d bytes (present=%v)", len(got), size, len(want), present))
		}
		// raw GET with Content-Length, and HEAD
		code, body := s.raw("GET", "/bs/camli/"+r, nil, "")
		if code != 200 || !bytes.Equal(body, want) {
			bad("c18-get", fmt.Sprintf("raw GET answers %d with %d bytes for a blob of %d bytes", code, len(body), len(want)))
		}
	}
	// ---- stat through the client: uncached client, mixed present/absent ----
	fresh, _ := client.New(client.OptionServer(s.ts.URL), client.OptionNoExternalConfig(), client.OptionAuthMode(auth.NewBasicAuth("u", "p")))
	for round := 0; round < 2; round++ {
		var ask []blob.Ref
		var askS []string
		for _, r := range sortedRefs {
			if c.rng.Intn(3) != 0 {
				ask = append(ask, blob.MustParse(r))
				askS = append(askS, r)
			}
		}
		ask = append(ask, blob.MustParse(absent[0]))
		askS = append(askS, absent[0])
		got := map[string]int{}
		var gotList []string
		err := fresh.StatBlobs(ctxb, ask, func(sb blob.SizedRef) error {
			got[sb.Ref.String()]++
			gotList = append(gotList, sb.Ref.String())
			if want, ok := ref[sb.Ref.String()]; !ok || int(sb.Size) != len(want) {
				bad("c18-stat", "client StatBlobs reports a blob that is absent or has another size")
			}
			return nil
		})
		c.rep.SpecChecks++
		if err != nil {
			bad("c18-stat", "client StatBlobs: "+err.Error())
		}
		var qs, gs []string
		for _, r := range askS {
			qs = append(qs, refKey(r))
		}
		for _, r := range gotList {
			gs = append(gs, refKey(r))
		}
		sort.Strings(gs)
		c.addCase(fmt.Sprintf("CClientStat %s [%s] [%s]", world, strings.Join(qs, "; "), strings.Join(gs, "; ")),
			map[string]any{"server": s.name, "op": "client StatBlobs", "asked": len(ask), "round": round}, len(got) > 0)
		c.count("stat", fmt.Sprintf("client, round %d", round))
		for _, r := range askS {
			_, present := ref[r]
			switch {
			case present && got[r] == 0:
				bad("c18-stat", "client StatBlobs misses an uploaded blob")
			case got[r] > 1:
				bad("c18-stat-duplicates", fmt.Sprintf("client StatBlobs reports a blob %d times (round %d: %s)", got[r], round, []string{"nothing cached", "results of round 0 cached"}[round]))
			}
		}
	}
	// ---- raw stat batches ----
	for _, nb := range []int{1, 7, 1000, 1001} {
		form := url.Values{"camliversion": {"1"}}
		var asked []string
		for i := 1; i <= nb; i++ {
			var r string
			switch {
			case i <= len(sortedRefs):
				r = sortedRefs[i-1]
			case i%50 == 0:
				r = sortedRefs[i%len(sortedRefs)] // a duplicate
			default:
				r = blob.RefFromString(fmt.Sprintf("absent %d", i)).String()
			}
			form.Set(fmt.Sprintf("blob%d", i), r)
			asked = append(asked, r)
		}
		code, body := s.raw("POST", "/bs/camli/stat", strings.NewReader(form.Encode()), "application/x-www-form-urlencoded")
		c.rep.SpecChecks++
		var resp struct {
			Stat []struct {
				BlobRef string `json:"blobRef"`
				Size    int    `json:"size"`
			} `json:"stat"`
		}
		okJSON := json.Unmarshal(body, &resp) == nil
		seen := map[string]int{}
		for _, st := range resp.Stat {
			seen[st.BlobRef]++
			if want, ok := ref[st.BlobRef]; !ok || st.Size != len(want) {
				bad("c18-stat", fmt.Sprintf("stat batch of %d: a blob is reported that is absent or has another size", nb))
			}
		}
		var qs, gs []string
		for _, r := range asked {
			qs = append(qs, refKey(r))
		}
		for r, k := range seen {
			for i := 0; i < k; i++ {
				gs = append(gs, refKey(r))
			}
		}
		sort.Strings(gs)
		c.addCase(fmt.Sprintf("CStat %s [%s] %s [%s]", world, strings.Join(qs, "; "), qb(code == 200), strings.Join(gs, "; ")),
			map[string]any{"server": s.name, "op": "raw stat", "blobs": nb, "status": code}, code == 200)
		c.count("stat", fmt.Sprintf("raw batch %d -> %d", nb, code))
		if nb <= 1000 {
			if code != 200 || !okJSON {
				bad("c18-stat", fmt.Sprintf("stat batch of %d answers %d", nb, code))
			}
			for _, r := range asked {
				if _, present := ref[r]; present && seen[r] != 1 {
					bad("c18-stat", fmt.Sprintf("stat batch of %d reports an uploaded blob %d times", nb, seen[r]))
				}
			}
		} else if code == 200 {
			bad("c18-stat", "a stat of 1001 blobs is answered 200 (documented maximum: 1000)")
		}
	}
	// ---- enumerate: raw, every limit, following continueAfter ----
	nrefs := len(sortedRefs)
	for _, lim := range []string{"", "0", "1", "2", "3", fmt.Sprint(nrefs - 1), fmt.Sprint(nrefs), fmt.Sprint(nrefs + 1), "100000", "abc"} {
		for _, wait := range []string{"", "1"} {
			if wait != "" && lim != "" && lim != "2" && lim != fmt.Sprint(nrefs+1) {
				continue
			}
			var all []string
			var pages []string
			after := ""
			npages := 0
			status := 200
			for {
				q := url.Values{}
				if lim != "" {
					q.Set("limit", lim)
				}
				if after != "" {
					q.Set("after", after)
				} else if wait != "" {
					q.Set("maxwaitsec", wait)
				}
				t0 := time.Now()
				code, body := s.raw("GET", "/bs/camli/enumerate-blobs?"+q.Encode(), nil, "")
				if wait != "" && after == "" && time.Since(t0) > 900*time.Millisecond && nrefs > 0 {
					bad("c18-enumerate", "enumerate with maxwaitsec waited although blobs exist")
				}
				status = code
				var resp struct {
					Blobs []struct {
						BlobRef string `json:"blobRef"`
						Size    int    `json:"size"`
					} `json:"blobs"`
					ContinueAfter string `json:"continueAfter"`
				}
				if code != 200 || json.Unmarshal(body, &resp) != nil {
					break
				}
				var pg []string
				for _, b := range resp.Blobs {
					all = append(all, b.BlobRef)
					pg = append(pg, refKey(b.BlobRef))
					if want, ok := ref[b.BlobRef]; !ok || b.Size != len(want) {
						bad("c18-enumerate", "enumerate lists a blob that is absent or has another size")
					}
				}
				pages = append(pages, "["+strings.Join(pg, "; ")+"]")
				npages++
				if resp.ContinueAfter == "" || npages > nrefs+3 {
					break
				}
				after = resp.ContinueAfter
			}
			c.rep.SpecChecks++
			limq := "None"
			switch {
			case lim == "":
			case lim == "abc":
				limq = "(Some None)"
			default:
				limq = fmt.Sprintf("(Some (Some %s%%nat))", lim)
			}
			if lim != "0" { // what a page size of zero means is left to the storage (memory: no limit); not compared
				c.addCase(fmt.Sprintf("CEnum %s %s %s %s [%s]", world, limq, qb(wait != ""), qb(status == 200), strings.Join(pages, "; ")),
					map[string]any{"server": s.name, "op": "raw enumerate", "limit": lim, "maxwaitsec": wait, "pages": npages}, len(all) > 0)
			}
			c.count("enumerate", fmt.Sprintf("limit %q wait %q", lim, wait))
			if lim == "0" {
				continue // a page size of zero lists nothing; the documents do not say otherwise
			}
			if status != 200 {
				bad("c18-enumerate", fmt.Sprintf("enumerate limit=%q maxwaitsec=%q answers %d", lim, wait, status))
				continue
			}
			if strings.Join(all, ",") != strings.Join(sortedRefs, ",") {
				cl := "c18-enumerate"
				if wait != "" && len(all) == 0 {
					cl = "c18-enumerate-maxwaitsec-lists-nothing"
				}
				bad(cl, fmt.Sprintf("enumerate limit=%q maxwaitsec=%q followed through continueAfter lists %d refs in %d pages; the store holds %d (complete, sorted, each once expected)", lim, wait, len(all), npages, nrefs))
			}
		}
	}
	// ---- enumerate through the client ----
	for _, lim := range []int{1, 3, nrefs, 0} {
		ch := make(chan blob.SizedRef, 1000)
		errc := make(chan error, 1)
		go func() { errc <- s.cl.EnumerateBlobsOpts(ctxb, ch, client.EnumerateOpts{Limit: lim}) }()
		var got []string
		for sb := range ch {
			got = append(got, sb.Ref.String())
		}
		err := <-errc
		c.rep.SpecChecks++
		want := sortedRefs
		if lim > 0 && lim < len(want) {
			want = want[:lim]
		}
		if err != nil || strings.Join(got, ",") != strings.Join(want, ",") {
			bad("c18-enumerate", fmt.Sprintf("client EnumerateBlobsOpts{Limit:%d} returns %d refs (err %v), want the first %d of the sorted refs", lim, len(got), err, len(want)))
		}
		c.count("enumerate", fmt.Sprintf("client limit %d", lim))
	}
}

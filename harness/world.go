//go:build verif

package main

import (
	"context"
	"fmt"
	"os"
	"path/filepath"
	"strings"
	"time"

	"golang.org/x/crypto/openpgp"
	"perkeep.org/pkg/blob"
	"perkeep.org/pkg/index"
	"perkeep.org/pkg/jsonsign"
	"perkeep.org/pkg/schema"
	"perkeep.org/pkg/search"
	"perkeep.org/pkg/sorted"
	"perkeep.org/pkg/test"
)

// ---- signing ----
type wsigner struct {
	ent   *openpgp.Entity
	pub   *test.Blob
	ref   blob.Ref
	keyID string
}

type entFetcher struct{ ents []*openpgp.Entity }

func (e entFetcher) FetchEntity(fp string) (*openpgp.Entity, error) {
	for _, x := range e.ents {
		if strings.HasSuffix(strings.ToUpper(x.PrimaryKey.KeyIdString()), strings.ToUpper(fp)) || strings.HasSuffix(fmt.Sprintf("%X", x.PrimaryKey.Fingerprint), strings.ToUpper(fp)) {
			return x, nil
		}
	}
	return nil, fmt.Errorf("no entity %q", fp)
}

func repoRoot() string {
	if r := os.Getenv("VERIF_REPO"); r != "" {
		return r
	}
	return "/repo"
}

func loadSigner(ring string) (*wsigner, error) {
	f, err := os.Open(filepath.Join(repoRoot(), "pkg", "jsonsign", "testdata", ring))
	if err != nil {
		return nil, err
	}
	defer f.Close()
	el, err := openpgp.ReadKeyRing(f)
	if err != nil || len(el) == 0 {
		return nil, fmt.Errorf("reading %s: %v", ring, err)
	}
	ent := el[0]
	arm, err := jsonsign.ArmoredPublicKey(ent)
	if err != nil {
		return nil, err
	}
	pub := &test.Blob{Contents: arm}
	return &wsigner{ent: ent, pub: pub, ref: pub.BlobRef(), keyID: ent.PrimaryKey.KeyIdString()}, nil
}

// world: a set of schema blobs built by the harness, with the means to sign them
type world struct {
	signers []*wsigner
	pubs    *test.Fetcher
	ents    entFetcher
	seq     int
}

func newWorld() (*world, error) {
	w := &world{pubs: new(test.Fetcher)}
	for _, ring := range []string{"test-secring.gpg", "test-secring2.gpg"} {
		s, err := loadSigner(ring)
		if err != nil {
			return nil, err
		}
		w.signers = append(w.signers, s)
		w.pubs.AddBlob(s.pub)
		w.ents.ents = append(w.ents.ents, s.ent)
	}
	return w, nil
}

func (w *world) sign(si int, bb *schema.Builder, sigTime time.Time) (*test.Blob, error) {
	s := w.signers[si]
	bb.SetSigner(s.ref)
	unsigned, err := bb.JSON()
	if err != nil {
		return nil, err
	}
	sr := &jsonsign.SignRequest{UnsignedJSON: unsigned, Fetcher: w.pubs, EntityFetcher: w.ents, SignatureTime: sigTime}
	signed, err := sr.Sign(context.Background())
	if err != nil {
		return nil, err
	}
	return &test.Blob{Contents: signed}, nil
}

func (w *world) permanode(si int) *test.Blob {
	w.seq++
	b, err := w.sign(si, schema.NewPlannedPermanode(fmt.Sprintf("verif-pn-%d", w.seq)), time.Unix(1300000000, 0))
	if err != nil {
		panic(err)
	}
	return b
}

func (w *world) claim(si int, bb *schema.Builder, date time.Time) *test.Blob {
	bb.SetClaimDate(date)
	b, err := w.sign(si, bb, date)
	if err != nil {
		panic(err)
	}
	return b
}

// ---- an index (optionally with corpus) fed from a blob source ----
type ixWorld struct {
	kv     sorted.KeyValue
	ix     *index.Index
	corpus *index.Corpus
	src    *test.Fetcher
}

func newIndex(w *world, kv sorted.KeyValue, withCorpus bool) (*ixWorld, error) {
	ix, err := index.New(kv)
	if err != nil {
		return nil, err
	}
	src := new(test.Fetcher)
	for _, s := range w.signers {
		src.AddBlob(s.pub)
	}
	ix.KeyFetcher = w.pubs
	ix.InitBlobSource(src)
	iw := &ixWorld{kv: kv, ix: ix, src: src}
	if withCorpus {
		c, err := ix.KeepInMemory()
		if err != nil {
			return nil, err
		}
		iw.corpus = c
	}
	return iw, nil
}

// deliver stores the blob in the source and feeds it to the index
func (iw *ixWorld) deliver(b *test.Blob) error {
	iw.src.AddBlob(b)
	_, err := iw.ix.ReceiveBlob(context.Background(), b.BlobRef(), b.Reader())
	return err
}

func (iw *ixWorld) handler(w *world, si int) *search.Handler {
	h := search.NewHandler(iw.ix, index.NewOwner(w.signers[si].keyID, w.signers[si].ref))
	if iw.corpus != nil {
		h.SetCorpus(iw.corpus)
	}
	return h
}

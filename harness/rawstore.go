//go:build verif

package main

import (
	"bytes"
	"context"
	"io"
	"os"
	"sort"
	"sync"

	"perkeep.org/pkg/blob"
)

// rawStore is a minimal, non-verifying in-memory blobserver.Storage owned by the harness:
// it stores whatever bytes it is given under the ref (so the harness can tell replicas apart).
type rawStore struct {
	mu      sync.Mutex
	m       map[string][]byte
	missErr error // what Fetch answers for a blob it does not hold (nil: os.ErrNotExist)
}

func newRawStore() *rawStore { return &rawStore{m: map[string][]byte{}} }

func (s *rawStore) put(br blob.Ref, b []byte) { s.mu.Lock(); s.m[br.String()] = b; s.mu.Unlock() }

func (s *rawStore) Fetch(ctx context.Context, br blob.Ref) (io.ReadCloser, uint32, error) {
	s.mu.Lock()
	b, ok := s.m[br.String()]
	s.mu.Unlock()
	if !ok {
		if s.missErr != nil {
			return nil, 0, s.missErr
		}
		return nil, 0, os.ErrNotExist
	}
	return io.NopCloser(bytes.NewReader(b)), uint32(len(b)), nil
}

func (s *rawStore) ReceiveBlob(ctx context.Context, br blob.Ref, src io.Reader) (blob.SizedRef, error) {
	b, err := io.ReadAll(src)
	if err != nil {
		return blob.SizedRef{}, err
	}
	s.mu.Lock()
	if _, ok := s.m[br.String()]; !ok {
		s.m[br.String()] = b
	}
	s.mu.Unlock()
	return blob.SizedRef{Ref: br, Size: uint32(len(b))}, nil
}

func (s *rawStore) StatBlobs(ctx context.Context, blobs []blob.Ref, fn func(blob.SizedRef) error) error {
	for _, br := range blobs {
		s.mu.Lock()
		b, ok := s.m[br.String()]
		s.mu.Unlock()
		if ok {
			if err := fn(blob.SizedRef{Ref: br, Size: uint32(len(b))}); err != nil {
				return err
			}
		}
	}
	return nil
}

func (s *rawStore) EnumerateBlobs(ctx context.Context, dest chan<- blob.SizedRef, after string, limit int) error {
	defer close(dest)
	s.mu.Lock()
	var ks []string
	for k := range s.m {
		if k > after {
			ks = append(ks, k)
		}
	}
	sort.Strings(ks)
	if len(ks) > limit {
		ks = ks[:limit]
	}
	var out []blob.SizedRef
	for _, k := range ks {
		out = append(out, blob.SizedRef{Ref: blob.MustParse(k), Size: uint32(len(s.m[k]))})
	}
	s.mu.Unlock()
	for _, sb := range out {
		select {
		case dest <- sb:
		case <-ctx.Done():
			return ctx.Err()
		}
	}
	return nil
}

func (s *rawStore) RemoveBlobs(ctx context.Context, blobs []blob.Ref) error {
	s.mu.Lock()
	for _, br := range blobs {
		delete(s.m, br.String())
	}
	s.mu.Unlock()
	return nil
}

import json,glob,os,re
V='/verif'
kf=json.load(open(V+'/KNOWN_FINDINGS.json'))['findings']
# extra rows that have no entry of their own
extra={
 'D11':('C01/C13/C18','fixed','85d0a52','diskpacked RemoveBlobs opened the index batch before its lookups: self-deadlock when the pack index is sqlite (what genconfig picks for sqlite + packBlobs); repaired together with D36 (lookups first, then the batch)'),
 'D20':('C20','dismissed','','ParseKnown accepts the test digest names (fakeref, testref, perma): the property speaks of the hashes the code supports, and the code registers these on purpose for its tests; no check claims anything about them'),
}
rows={}
for f in kf:
    what=f['what']
    what=re.sub(r'^fixed: property=C\d\d [0-9a-f]+ ','',what)
    rows[f['id']]=(f['property'],f.get('status','open'),f.get('commit',''),what)
rows.update(extra)
def key(i): return int(i[1:])
out=[]
out.append("| id | property | disposition | what failed |")
out.append("|----|----------|-------------|-------------|")
for i in sorted(rows,key=key):
    p,s,c,w=rows[i]
    disp={'fixed':'fixed `%s`'%c,'open':'**open known finding**','dismissed':'dismissed'}[s]
    out.append("| %s | %s | %s | %s |"%(i,p,disp,w.replace('|','\\|')))
open(V+'/doc-src/defects.md','w').write("\n".join(out)+"\n")
print(len(rows),'rows; fixed',sum(1 for r in rows.values() if r[1]=='fixed'),'open',sum(1 for r in rows.values() if r[1]=='open'))
missing=[ 'D%d'%n for n in range(1,47) if 'D%d'%n not in rows]
print('missing ids',missing)
# seeded table
res={}
if os.path.exists(V+'/seeded/RESULTS.txt'):
    for l in open(V+'/seeded/RESULTS.txt'):
        res[l.split()[0]]=l.strip()
out=["| seeded change | what it breaks | first tried | caught today by |","|---|---|---|---|"]
for d in sorted(glob.glob(V+'/seeded/C*/')):
    n=os.path.basename(d[:-1])
    m=json.load(open(d+'meta.json'))
    summ=m.get('summary') or m.get('breaks') or ''
    summ=summ.split('. ')[0][:330]
    det=m.get('detected_by') or ''
    fm='missed → strengthened' if m.get('first_miss') else 'caught'
    r=res.get(n,'')
    mm=re.search(r'first=(\S+)',r)
    today=(mm.group(1) if mm else '')
    if m.get('obsolete'): today='('+m['obsolete']+')'
    if 'patch-no-longer-applies' in r: today='(patch no longer applies: the code was repaired since; caught when recorded)'
    if not det:
        vs=[l for l in open(d+'check_with_patch.log') if l.startswith('VIOLATION')] if os.path.exists(d+'check_with_patch.log') else []
        det='quick check: '+', '.join(sorted(set(re.sub(r'_seed.*','',v.split('/')[-1].strip()) for v in vs))[:4])
    out.append("| `%s` | %s | %s | %s%s |"%(n,summ.replace('|','\\|'),fm,det.replace('|','\\|')[:420],(' — final run: `%s`'%today) if today else ''))
open(V+'/doc-src/seeded.md','w').write("\n".join(out)+"\n")

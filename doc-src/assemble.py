import json,re,os,subprocess
V='/verif'
old=subprocess.check_output(['git','-C',V,'show','dc60bdfe07e5e3476df054823eb7549ed41ce124:DESIGN.md'],text=True)
D=V+'/doc-src/'
rd=lambda n: open(D+n).read()
# split old by top-level sections
parts=re.split(r'(?m)^(?=## \d+\. )',old)
sec={}
for p in parts[1:]:
    m=re.match(r'## (\d+)\. ',p); sec[int(m.group(1))]=p
claims=json.load(open(V+'/claims.json'))['claims']
# section 6: append as-built paragraphs
s6=sec[6]
s6=s6.replace("## 6. The properties\n","## 6. The properties\n\nEach section keeps the plan (**M/T/X/B/P**, written before the code) and ends with an **As built** paragraph: the claim text registered in MANIFEST.json (what the theorems in `coq/Properties/Cnn.v` state and what the correspondence run does today) and what stays unproved. Where the two differ, **As built** is what runs. In the plan paragraphs, 'extracted' reads 'evaluated in Coq' (§0).\n",1)
blocks=re.split(r'(?m)^(?=### )',s6)
outb=[blocks[0]]
for b in blocks[1:]:
    m=re.match(r'### (C\d\d) ',b)
    if m and m.group(1) in claims:
        c=claims[m.group(1)]
        b=b.rstrip('\n')+"\n\n**As built.** "+c['text'].strip()+"\n\n**Not proved / assumed (as built).** "+c['note'].strip()+"\n\n"
        if m.group(1)=='C14':
            b=b.replace("extracted and used as\n  the oracle;","evaluated in Coq on every observed history;")
    outb.append(b)
s6="".join(outb)
# claim summary table: fix C10/C18 wording stays; fine
s4=sec[4].replace('Shrinking: delta-debugging on the op list, re-running both sides.','Shrinking (as built): C13 and C14 minimise the failing history (C14 drops reads while the history stays unexplainable), C03/C04 report the crash point; the other harnesses report the generated case as it is.')
s2=sec[2]
new=rd('s0.md')+"\n---------------------------------------------------------------------------\n\n"+rd('s1.md')+"\n"+s2+rd('s3.md')+"\n"+s4+rd('s5.md')+"\n---------------------------------------------------------------------------\n\n"+s6
new=new.rstrip('\n')+"\n\n---------------------------------------------------------------------------\n\n"+rd('s7a.md')+rd('defects.md')+rd('s7b.md')+rd('seeded.md')+rd('s7c.md')+open(V+'/benign/RESULTS.md').read()+'\n'+rd('s8.md')
open(V+'/DESIGN.md','w').write(new)
print(len(new.split('\n')),'lines')

# per-property metadata for bin/check (exec'd by it)
LEVELS.update({})
ASSUME.update({
 "C20": ["SHA-1/SHA-224/SHA-256 are Go's crypto implementations (RefFromBytes is compared with crypto/* directly by the harness, not modelled)",
         "the functional HasPrefix/EqualString statement for unknown-hash refs and the Other-ref ordering are covered by the correspondence only"],
})
ASSUME.update({
 "C10": ["leveldb / modernc kv / sqlite engine internals and their durability are not modelled (validated against the proved SPEC by the correspondence run only)",
         "keys are non-empty (hypothesis op_ok); NUL bytes are not generated (the index never writes them)"],
})
ASSUME.update({
 "C12": ["real slowness is modelled as arrival order of the replicas' answers (the harness sequences gated replicas); goroutine scheduling of Go's runtime is not modelled",
         "sub-stores are content-addressed maps (C01)"],
})

# per-property metadata for bin/check (exec'd by it)
LEVELS.update({})
ASSUME.update({
 "C20": ["SHA-1/SHA-224/SHA-256 are Go's crypto implementations (RefFromBytes is compared with crypto/* directly by the harness, not modelled)",
         "the functional HasPrefix/EqualString statement for unknown-hash refs and the Other-ref ordering are covered by the correspondence only"],
})
ASSUME.update({
 "C10": ["leveldb / modernc kv / sqlite engine internals and their durability are not modelled (validated against the proved SPEC by the correspondence run only)",
         "keys are non-empty (hypothesis op_ok); NUL bytes are not generated (the index never writes them)"],
})
ASSUME.update({
 "C12": ["real slowness is modelled as arrival order of the replicas' answers (the harness sequences gated replicas); goroutine scheduling of Go's runtime is not modelled",
         "sub-stores are content-addressed maps (C01)"],
})
ASSUME.update({
 "C01": ["leaf backends (memory, files/localdisk, diskpacked, blobpacked below the packing threshold, encrypt) are modelled as maps; their internals are covered by C03/C04/C11 and by the correspondence",
         "content addressing: the bytes stored under a ref are a function of the ref (hypothesis op_ok of the nesting theorem; enforced by C02)",
         "shard/overlay/namespace/proxycache/cond/union combinators: executable models tied by the correspondence only (no refinement proof yet); proxycache eviction not modelled (cache contents not compared)",
         "OS file system and third-party KV engines behave as maps (C10); stat requests contain no duplicate refs"],
})
ASSUME.update({
 "C02": ["the hash functions have no collisions on the generated inputs (the model abstracts 'the first n bytes hash to the ref' to a predicate; the theorems hold for every predicate)",
         "net/http's multipart parser and chunked decoding are exercised, not modelled; the consume-then-commit shape of each backend's ReceiveBlob is validated by the correspondence",
         "16 MiB boundary cases run on memory, localdisk and diskpacked only"],
})
ASSUME.update({
 "C15": ["the rolling checksum is an arbitrary oracle in the theorems; the harness computes its events with go4.org/rollsum, the package the writer uses",
         "JSON encoding/decoding of schema blobs and blob fetching are exercised, not modelled (part trees carry resolved contents)",
         "maxStaticSetMembers >= 3 (SetStaticSetMembers does not terminate for 2 and divides by zero for 1; the real value is 10000)"],
})
ASSUME.update({
 "C07": ["claim dates are pairwise distinct in the cache theorem (Go's sort.Sort is unstable: with equal dates any order consistent with the dates is accepted by the SPEC monitor, and such worlds are not compared with the model)",
         "the delete graph is acyclic (targets are hashes of already existing blobs): hypothesis 'rank' of the deletion theorems",
         "URL-escaping of attribute values in index rows is exercised by the harness (values with '|', '%', '=', '&', non-ASCII), not modelled",
         "signature verification of claims is assumed (C16)"],
})
ASSUME.update({
 "C05": ["a blob is abstracted to its fetch dependencies (in fetch order) and its index dependency; the rows themselves (apart from meta/have/missing) are compared between runs of the implementation, not modelled",
         "real goroutine interleavings inside ReceiveBlob are sampled by the concurrent-delivery runs, not enumerated",
         "the unbounded completeness theorem (model state = SPEC state for every world and order) is not proved yet; a complete sweep of one world is"],
})
ASSUME.update({
 "C06": ["theorems cover the two caches whose incremental maintenance differs from their rebuild (attribute cache, deletes cache); every other lookup is compared live vs reloaded at every prefix by the harness only",
         "image / EXIF / media-tag lookups are not generated (no images in the worlds)", "claim dates distinct (as C07)"],
})
ASSUME.update({
 "C09": ["the full ordered result is taken as the unpaged answer of the same handler (its order is checked against (time desc, ref desc) by the harness); which permanodes match is C08's business",
         "the token is modelled as a (time, ref) pair plus the signed/unsigned reading of the time, regenerated from query.go on every run; decimal printing/parsing itself is exercised, not modelled"],
})
ASSUME.update({
 "C08": ["a world is a list of per-blob facts (type, size, deleted, mod/created time, owner's current attribute values, node types ever claimed, wholeRef); how the corpus derives them from claims is C06/C07's subject, and the facts the harness states are its own bookkeeping, never read back from the index",
         "hypothesis wf_world (current camliNodeType values are among the types ever had; blobrefs distinct) is evaluated on every generated world (wf_worldb, proved to imply it)",
         "a proper blobRefPrefix is modelled by the set of refs it matches (HasPrefix itself is C20's subject); constraint leaves outside the modelled fragment are checked against the reference evaluator only",
         "Go's sort.Sort on the result (blobref sort) is assumed to sort; the unordered answers are compared as sets"],
})
ASSUME.update({
 "C19": ["a blob's bytes are a function of its ref (the copier re-hashes what it fetched; hash collisions are not modelled), so the destination either holds a blob intact or not at all",
         "the queue KV, the source and the destination are maps whose single operations are atomic (C10, C01); the harness' instrumented wrappers serialise and log their effects",
         "the removal from needCopy right after queue.Delete is not observable and is folded into the queue.Delete item when a trace is replayed",
         "wall-clock behaviour (queueSyncInterval sleeps) is not modelled; 'eventually' is rounds in the theorem and a deadline in the harness"],
})
ASSUME.update({
 "C16": ["encoding/json (what is a JSON object with which keys), public-key blob lookup/parsing and the OpenPGP signature check are parameters of the model; the harness evaluates them with Go's encoding/json and golang.org/x/crypto/openpgp on the pieces the model's split yields",
         "unforgeability of OpenPGP signatures is a hypothesis of the tamper theorem (signed_by)",
         "the signature text produced by Sign is base64 (contains no comma); unicode.IsSpace is modelled on ASCII white space (what can end a UTF-8 JSON text)"],
})
ASSUME.update({
 "C11": ["age (X25519 + ChaCha20-Poly1305 STREAM) is an ideal authenticated encryption: only ciphertexts produced with the identity decrypt, and they decrypt to what was encrypted; the adversary has no key (symbolic model: CJunk or copies)",
         "hashes naming ciphertexts are collision-free (a name is identified with the ciphertext it was computed from)",
         "confidentiality of ciphertext bytes and of blob names is not proved (raw scan of everything written below the store is a test)",
         "ReceiveBlob is atomic in the model; the wrapped stores and the meta index are maps (C01, C10)"],
})
ASSUME.update({
 "C17": ["a blob is abstracted to: share claim (target, transitive, expired) / schema blob with its genuine links per field / other; JSON and schema parsing (schema.BlobFromReader, AsShare, IsExpired against the clock) are exercised, not modelled",
         "deletion status is what index.IsDeleted reports (C07/C06); the 1 MiB size limits are not generated",
         "the translator reports which schema accessors bytesHaveSchemaLink calls, not how it uses their results (the correspondence run covers that)",
         "pkg/auth's credential checks are exercised, not modelled; auth modes that admit requests without credentials are out of scope"],
})
ASSUME.update({
 "C03": ["crash model of the file system: bytes written before the last successful Sync of a file are durable, later bytes survive as an arbitrary prefix, rename and remove are atomic and ordered; directory-entry durability without fsync of the parent is assumed",
         "the pack is modelled at record level (positions instead of byte offsets; a torn item is a header prefix or a complete header with a short body); header parsing itself is exercised by the harness (bodies containing ']' and '[x]'), not modelled; single pack file (no roll-over); StreamBlobs not modelled",
         "the pack index is atomic per Set / CommitBatch and survives restarts (C10)",
         "the translator reports the order of the first CommitBatch and delete calls in RemoveBlobs and whether walkPack calls Stat; how the results are used is covered by the correspondence"],
})
ASSUME.update({
 "C04": ["a zip is abstracted to the list of logical blobs its manifest names; zip ids are fresh (content-addressed: one id, one manifest); byte offsets, archive/zip and the size estimate are exercised by the harness (limit, first entry, hash name checked with archive/zip), not modelled",
         "which blobs the packer puts into which zip is taken from the manifests it wrote (input of the model)",
         "the small / large stores and the meta index are maps with atomic operations and batches (C01, C10); a crash is the refusal of every write after the k-th",
         "the translator reports whether RemoveBlobs hands the whole list of blobs to the loose store"],
})
ASSUME.update({
 "C18": ["the storage behind the handlers is a sorted map of refs (C01); refs are compared as byte strings (C20)",
         "net/http, encoding/json and mime/multipart are exercised, not modelled; what the handlers print is read back by the harness' own JSON decoding",
         "the translator reports the shape of two pieces of source (the for-condition of handleEnumerateBlobs mentions Before; the doStat callback in StatBlobs does not call fn); what they do is covered by the correspondence",
         "wall-clock waiting of the long-poll forms is not modelled"],
})
ASSUME.update({
 "C13": ["a fault is an error returned by one lower-layer call (VFS, wrapped store, key-value store) without side effect of that call; partial effects inside a single lower-layer call are not injected (C03 covers torn writes)",
         "the judge treats each call of the backend as atomic towards the client: a failed call either took effect or did not",
         "the stat helper's workers are modelled sequentially with an oracle for 'the loop already sees the cancellation'; real goroutine timing is what the harness' one-slot gate makes deterministic",
         "bounded completion is observed with a 3 s watchdog, not proved"],
})
ASSUME.update({
 "C14": ["level = exploration judged by a proved checker: the theorems are about the judge (sound, complete, witness checker, never rejects a linearizable store); which schedules occur is sampled, not proved",
         "an enumeration is read as a simultaneous read of every ref: necessary for linearizability of the whole store, and per-ref linearizability is equivalent to it for histories without enumerations (Herlihy-Wing locality, cited not proved)",
         "data-race freedom is the Go race detector's dynamic verdict on the explored runs (harness built with -race)",
         "real-time order is taken from one atomic counter read before and after each call",
         "in the index scenario each permanode's claims are delivered by one feeder with ascending claim dates (the attribute's value is decided by claim dates, not by arrival order)"],
})

# per-property metadata for bin/check (exec'd by it)
LEVELS.update({})
ASSUME.update({
 "C20": ["SHA-1/SHA-224/SHA-256 are Go's crypto implementations (RefFromBytes is compared with crypto/* directly by the harness, not modelled)",
         "the functional HasPrefix/EqualString statement for unknown-hash refs and the Other-ref ordering are covered by the correspondence only"],
})

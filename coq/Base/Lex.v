(* Byte-wise lexicographic order on byte strings: the order every enumeration promises. *)
From Coq Require Import List NArith ZArith Lia Bool ZifyN ZifyBool.
Import ListNotations.
Local Open Scope N_scope.

Fixpoint ltb (a b : list N) : bool :=
  match a, b with
  | _, [] => false
  | [], _ :: _ => true
  | x :: xs, y :: ys => if x <? y then true else if y <? x then false else ltb xs ys
  end.

Definition leb (a b : list N) : bool := negb (ltb b a).

Lemma ltb_irrefl a : ltb a a = false.
Proof. induction a as [|x xs IH]; cbn; [reflexivity|]. rewrite N.ltb_irrefl. exact IH. Qed.

Lemma ltb_trans a : forall b c, ltb a b = true -> ltb b c = true -> ltb a c = true.
Proof.
  induction a as [|x xs IH]; intros [|y ys] [|z zs]; cbn; intros H1 H2; try discriminate; try reflexivity.
  destruct (x <? y) eqn:Exy.
  - destruct (y <? z) eqn:Eyz.
    + assert (x <? z = true) as -> by lia. reflexivity.
    + destruct (z <? y) eqn:Ezy; [discriminate|]. assert (y = z) by lia. subst. rewrite Exy. reflexivity.
  - destruct (y <? x) eqn:Eyx; [discriminate|]. assert (x = y) by lia. subst.
    destruct (y <? z) eqn:Eyz; [reflexivity|]. destruct (z <? y) eqn:Ezy; [discriminate|].
    eapply IH; eauto.
Qed.

Lemma ltb_total a : forall b, ltb a b = false -> ltb b a = false -> a = b.
Proof.
  induction a as [|x xs IH]; intros [|y ys]; cbn; intros H1 H2; try discriminate; try reflexivity.
  destruct (x <? y) eqn:Exy; [discriminate|]. destruct (y <? x) eqn:Eyx; [discriminate|].
  assert (x = y) by lia. subst. f_equal. apply IH; assumption.
Qed.

Lemma ltb_asym a b : ltb a b = true -> ltb b a = false.
Proof.
  intros H. destruct (ltb b a) eqn:E; [|reflexivity].
  pose proof (ltb_trans _ _ _ H E) as C. rewrite ltb_irrefl in C. discriminate.
Qed.

Lemma ltb_app_same p : forall a b, ltb (p ++ a) (p ++ b) = ltb a b.
Proof. induction p as [|x xs IH]; intros; cbn; [reflexivity|]. rewrite N.ltb_irrefl. apply IH. Qed.

Lemma ltb_nil_r a : ltb a [] = false.
Proof. destruct a; reflexivity. Qed.

Lemma leb_refl a : leb a a = true.
Proof. unfold leb. rewrite ltb_irrefl. reflexivity. Qed.

Lemma ltb_leb_trans a b c : ltb a b = true -> leb b c = true -> ltb a c = true.
Proof.
  unfold leb. intros H1 H2. apply negb_true_iff in H2.
  destruct (ltb b c) eqn:E; [eapply ltb_trans; eauto|].
  assert (b = c) by (apply ltb_total; assumption). subst. exact H1.
Qed.

Lemma leb_ltb_trans a b c : leb a b = true -> ltb b c = true -> ltb a c = true.
Proof.
  unfold leb. intros H1 H2. apply negb_true_iff in H1.
  destruct (ltb a b) eqn:E; [eapply ltb_trans; eauto|].
  assert (a = b) by (apply ltb_total; assumption). subst. exact H2.
Qed.

(* ---- hex ---- *)
Definition hexdigit (n : N) : N := if n <? 10 then 48 + n else 87 + n.
Definition hex1 (b : N) : list N := [hexdigit (b / 16); hexdigit (b mod 16)].
Fixpoint hex (l : list N) : list N := match l with [] => [] | b :: r => hex1 b ++ hex r end.

Lemma hexdigit_mono x y : x < 16 -> y < 16 -> (hexdigit x <? hexdigit y) = (x <? y).
Proof. unfold hexdigit; intros; destruct (x <? 10) eqn:?, (y <? 10) eqn:?; lia. Qed.

Ltac Zify.zify_post_hook ::= Z.div_mod_to_equations.

Lemma hex_lt : forall a b, Forall (fun x => x < 256) a -> Forall (fun x => x < 256) b ->
  length a = length b -> ltb (hex a) (hex b) = ltb a b.
Proof.
  induction a as [|x xs IH]; intros [|y ys] Ha Hb Hl; cbn in *; try discriminate; try reflexivity.
  inversion Ha as [|? ? Hx Hxs]; inversion Hb as [|? ? Hy Hys]; subst.
  rewrite !hexdigit_mono by lia.
  destruct (x <? y) eqn:Exy.
  - destruct (x / 16 <? y / 16) eqn:E1; [reflexivity|].
    destruct (y / 16 <? x / 16) eqn:E2; [lia|].
    destruct (x mod 16 <? y mod 16) eqn:E3; [reflexivity|]. lia.
  - destruct (y <? x) eqn:Eyx.
    + destruct (x / 16 <? y / 16) eqn:E1; [lia|].
      destruct (y / 16 <? x / 16) eqn:E2; [reflexivity|].
      destruct (x mod 16 <? y mod 16) eqn:E3; [lia|].
      destruct (y mod 16 <? x mod 16) eqn:E4; [reflexivity|]. lia.
    + assert (x = y) by lia. subst. rewrite !N.ltb_irrefl. apply IH; auto; lia.
Qed.

Lemma hex_length l : length (hex l) = (2 * length l)%nat.
Proof. induction l as [|b r IH]; cbn; [reflexivity|]. rewrite IH. lia. Qed.

(* Byte strings as [list N]; decoding of the hex literals the harness emits. *)
From Coq Require Import List NArith Bool String Ascii.
Import ListNotations.
Local Open Scope N_scope.

Notation bytes := (list N) (only parsing).

Fixpoint beqb (a b : bytes) : bool :=
  match a, b with
  | [], [] => true
  | x :: xs, y :: ys => (x =? y) && beqb xs ys
  | _, _ => false
  end.

Lemma beqb_refl a : beqb a a = true.
Proof. induction a as [|x xs IH]; cbn; [reflexivity|]. rewrite N.eqb_refl. exact IH. Qed.

Lemma beqb_eq a : forall b, beqb a b = true <-> a = b.
Proof.
  induction a as [|x xs IH]; intros [|y ys]; cbn; split; intros H; try discriminate; try reflexivity.
  - apply andb_true_iff in H as [H1 H2]. apply N.eqb_eq in H1. apply IH in H2. subst. reflexivity.
  - inversion H; subst. rewrite N.eqb_refl. apply IH. reflexivity.
Qed.

Lemma beqb_neq a b : beqb a b = false <-> a <> b.
Proof.
  split.
  - intros H E. apply beqb_eq in E. congruence.
  - intros H. destruct (beqb a b) eqn:E; [|reflexivity]. apply beqb_eq in E. contradiction.
Qed.

Fixpoint is_prefix (p s : bytes) : bool :=
  match p, s with
  | [], _ => true
  | x :: xs, y :: ys => (x =? y) && is_prefix xs ys
  | _ :: _, [] => false
  end.

(* ---- literals written by the harness ---- *)

Definition nib (a : ascii) : N :=
  let n := N_of_ascii a in
  if (48 <=? n) && (n <=? 57) then n - 48
  else if (97 <=? n) && (n <=? 102) then n - 87 else 0.

(* "6162" -> [97; 98] *)
Fixpoint unhex (s : string) : bytes :=
  match s with
  | String a (String b r) => (16 * nib a + nib b) :: unhex r
  | _ => []
  end.

(* plain ASCII literal -> bytes *)
Fixpoint ofs (s : string) : bytes :=
  match s with
  | EmptyString => []
  | String a r => N_of_ascii a :: ofs r
  end.

Definition wf_bytes (b : bytes) : Prop := Forall (fun x => x < 256) b.

(* Strictly sorted association lists keyed by byte strings: the reference map / sorted-KV spec. *)
From Coq Require Import List NArith Bool.
From PK.Base Require Import Bytes Lex.
Import ListNotations.

Notation kv := (bytes * bytes)%type (only parsing).
Notation smap := (list (bytes * bytes)) (only parsing).

Fixpoint lookup (k : bytes) (m : smap) : option bytes :=
  match m with
  | [] => None
  | (k', v) :: r => if beqb k k' then Some v else lookup k r
  end.

Fixpoint insert (k v : bytes) (m : smap) : smap :=
  match m with
  | [] => [(k, v)]
  | (k', v') :: r =>
      if ltb k k' then (k, v) :: m
      else if ltb k' k then (k', v') :: insert k v r
      else (k, v) :: r
  end.

Fixpoint remove (k : bytes) (m : smap) : smap :=
  match m with
  | [] => []
  | (k', v') :: r => if beqb k k' then r else (k', v') :: remove k r
  end.

(* keys in [start, end), end = "" meaning unbounded (sorted.KeyValue.Find) *)
Definition in_range (s e k : bytes) : bool :=
  leb s k && (match e with [] => true | _ => ltb k e end).
Definition range (s e : bytes) (m : smap) : smap := filter (fun p => in_range s e (fst p)) m.

(* keys strictly after a cursor (blob enumeration) *)
Definition after (c : bytes) (m : smap) : smap := filter (fun p => ltb c (fst p)) m.

Definition keys (m : smap) : list bytes := map fst m.

(* union, the first map winning on common keys *)
Definition overlay (top bottom : smap) : smap :=
  fold_right (fun p m => insert (fst p) (snd p) m) bottom top.

(* merge of two sorted lists, the first winning ties: what the iterator is meant to produce *)
Fixpoint merge (l1 : smap) : smap -> smap :=
  fix merge2 (l2 : smap) : smap :=
    match l1, l2 with
    | [], _ => l2
    | _, [] => l1
    | (k1, v1) :: r1, (k2, v2) :: r2 =>
        if ltb k1 k2 then (k1, v1) :: merge r1 l2
        else if ltb k2 k1 then (k2, v2) :: merge2 r2
        else (k1, v1) :: merge r1 r2
    end.

From Coq Require Import String.
From Coq Require Import List NArith Bool Arith.
From PK.Generated Require Import Consts.
From PK.Model Require Export C13.
From PK.Corr Require Export Common.
Import ListNotations.

Definition check_first : bool := stat_helper_checks_before_start.

Inductive c13_case :=
(* an observed history of calls with their answers (failed calls marked): must be explained by the reference map *)
| CHist (init : list N) (h : list (op * out))
(* StatBlobsParallelHelper with a one-slot gate: per blob, whether its iteration may see the cancellation and how its worker
   ends; the number of slots still taken after the call *)
| CGate (its : list iter) (leaked_obs : nat).

Definition check (k : c13_case) : bool :=
  match k with
  | CHist init h => explain init h
  | CGate its l => Nat.eqb (leaked check_first its) l
  end.

Definition mismatches (base : N) (cs : list c13_case) : list N := mism_from check base cs.

From Coq Require Import String.
From Coq Require Import List NArith Bool Arith.
From PK.Base Require Import Bytes Lex SortedMap.
From PK.Generated Require Import Consts.
From PK.Proofs Require Import Paging.
From PK.Model Require Export C18.
From PK.Corr Require Export Common.
Import ListNotations.

Definition default_limit : nat := N.to_nat default_enumerate_size.
Definition max_limit : nat := N.to_nat default_max_enumerate.
Definition max_stat : nat := N.to_nat max_stat_blobs.

Fixpoint bl_eqb (a b : list bytes) : bool := match a, b with [], [] => true | x :: r, y :: s => beqb x y && bl_eqb r s | _, _ => false end.
Fixpoint bll_eqb (a b : list (list bytes)) : bool := match a, b with [], [] => true | x :: r, y :: s => bl_eqb x y && bll_eqb r s | _, _ => false end.
Fixpoint insertB (x : bytes) (l : list bytes) : list bytes := match l with [] => [x] | y :: r => if ltb y x then y :: insertB x r else x :: l end.
Definition sortB (l : list bytes) : list bytes := fold_right insertB [] l.

Inductive c18_case :=
(* raw enumerate: the store, the limit form value (None absent, Some None garbage), maxwaitsec given?, HTTP 200?, the pages
   obtained by following continueAfter (keys only) *)
| CEnum (m : smap) (limit : option (option nat)) (wait : bool) (ok : bool) (pages : list (list bytes))
(* the same against a storage that announces its own per-request maximum (blobserver.MaxEnumerateConfig) *)
| CEnumMax (m : smap) (max : nat) (limit : option (option nat)) (ok : bool) (pages : list (list bytes))
(* raw stat: asked refs (blob1..blobN), HTTP 200?, the refs in the answer (sorted, with multiplicity) *)
| CStat (m : smap) (refs : list bytes) (ok : bool) (found : list bytes)
(* Client.StatBlobs: asked refs, the refs the callback saw (sorted, with multiplicity) *)
| CClientStat (m : smap) (refs : list bytes) (found : list bytes).

Definition check (k : c18_case) : bool :=
  match k with
  | CEnum m limit wait ok pages =>
      let lim := eff_limit limit default_limit max_limit in
      let first := if wait then enum_response_wait enum_wait_loop_runs m lim else enum_response m [] lim in
      let rest := match snd first with Some a => client_enumerate (S (length m)) m a lim | None => [] end in
      ok && bll_eqb (map (map fst) (fst first :: rest)) pages
  | CEnumMax m max limit ok pages =>
      let lim := eff_limit limit default_limit max in
      let first := enum_response m [] lim in
      let rest := match snd first with Some a => client_enumerate (S (length m)) m a lim | None => [] end in
      ok && bll_eqb (map (map fst) (fst first :: rest)) pages
  | CStat m refs ok found =>
      match stat_handler max_stat m refs with
      | StatOk f => ok && bl_eqb (sortB (map fst f)) (sortB found)
      | StatTooMany => negb ok
      end
  | CClientStat m refs found => bl_eqb (sortB (map fst (client_stat client_stat_reports_once m refs))) (sortB found)
  end.

Definition mismatches (base : N) (cs : list c18_case) : list N := mism_from check base cs.

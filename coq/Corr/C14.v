From Coq Require Import List NArith Bool Arith.
From PK.Model Require Export C14.
From PK.Corr Require Export Common.
Import ListNotations.

(* compact constructors for the case files *)
Definition Rc (i r : nat) : call := {| c_inv := i; c_ret := r; c_op := KReceive; c_res := true |}.
Definition Rm (i r : nat) : call := {| c_inv := i; c_ret := r; c_op := KRemove; c_res := true |}.
Definition Rd (i r : nat) (seen : bool) : call := {| c_inv := i; c_ret := r; c_op := KRead; c_res := seen |}.

Inductive c14_case :=
(* one ref's sub-history as observed on the implementation (calls in invocation order), the harness's verdict, and — when
   it found one — the sequential order it found: the proved checker must accept that witness; small histories are also
   searched by the proved checker itself, which must agree with the harness's verdict *)
| CLin (initially_present : bool) (calls : list call) (accepted : bool) (witness : list call) (search_too : bool).

Definition check (k : c14_case) : bool :=
  match k with
  | CLin b l accepted w search_too =>
      (if accepted then check_witness b l w else true) &&
      (if search_too then Bool.eqb (lin_check b l) accepted else true)
  end.

Definition mismatches (base : N) (cs : list c14_case) : list N := mism_from check base cs.

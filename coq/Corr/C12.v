From Coq Require Import String.
From Coq Require Import List NArith Bool.
From PK.Base Require Import Bytes Lex SortedMap.
From PK.Model Require Export Merge C12.
From PK.Corr Require Export Common.
Import ListNotations.
Local Open Scope N_scope.

Fixpoint smap_eqb (a b : smap) : bool :=
  match a, b with
  | [], [] => true
  | (k1, v1) :: r1, (k2, v2) :: r2 => beqb k1 k2 && beqb v1 v2 && smap_eqb r1 r2
  | _, _ => false
  end.

Definition obytes_eqb (a b : option bytes) : bool :=
  match a, b with Some x, Some y => beqb x y | None, None => true | _, _ => false end.

Inductive c12_case :=
| CRecv (minw : nat) (size : N) (arrivals : list rres) (acked : bool) (sz : N)
| CFetch (answers : list (option bytes)) (res : option bytes)
| CStat (need : list bytes) (readers : list smap) (res : smap)
| CEnum (readers : list smap) (cursor : bytes) (limit : nat) (res : smap).

Definition check (c : c12_case) : bool :=
  match c with
  | CRecv minw size arr acked sz =>
      match receive_tally minw size arr with
      | Ack s => acked && (s =? sz)
      | Fail => negb acked
      | NilZero => false
      end
  | CFetch answers res => obytes_eqb (fetch_first answers) res
  | CStat need readers res =>
      (* callbacks in reader order is one of the possible interleavings; results compared as sorted maps *)
      smap_eqb (fold_right (fun p m => insert (fst p) (snd p) m) [] (stat_dedupe need (concat readers))) res
  | CEnum readers cursor limit res => smap_eqb (replica_enumerate readers cursor limit) res
  end.

Definition mismatches (base : N) (cs : list c12_case) : list N := mism_from check base cs.

From Coq Require Import String.
From Coq Require Import List NArith Bool.
From PK.Generated Require Import Consts.
From PK.Model Require Export C02.
From PK.Corr Require Export Common.
Import ListNotations.
Local Open Scope N_scope.

(* the reader of a case: [len] bytes then clean EOF or an error; [mlen] = the one prefix length whose bytes hash
   to the offered ref (the true content's length when the stream starts with the true content), if any *)
Definition mk_reader (len : N) (eof : bool) (mlen : option N) : reader :=
  {| total := len; fin := if eof then TEof else TErr;
     hm := fun n => match mlen with Some k => n =? k | None => false end |}.

Definition vcode (v : verdict) : N := match v with VOk _ => 0 | VCorrupt => 1 | VUnsupported => 2 | VOther => 3 end.
Definition vsize (v : verdict) : N := match v with VOk n => n | _ => 0 end.
Definition scode (s : status) : N := match s with S204 => 204 | S400 => 400 | S500 => 500 end.

Definition st0 (before : option N) : store := {| present := match before with Some k => [(1, k)] | None => [] end; hub := [] |}.
Definition osize_eqb (a b : option N) : bool := match a, b with Some x, Some y => x =? y | None, None => true | _, _ => false end.

Inductive c02_case :=
(* blobserver.Receive: verdict code, reported size, stored size afterwards (None = absent), hub notified *)
| CRecv (supported : bool) (before : option N) (len : N) (eof : bool) (mlen : option N)
        (code size : N) (after : option N) (notified : bool)
| CPut (cl : option N) (parses supported : bool) (before : option N) (len : N) (mlen : option N)
       (status : N) (after : option N) (notified : bool)
(* multipart: per part (parses, supported, len, mlen) under distinct refs 1..; received = list of (part index, size) *)
| CMulti (parts : list (bool * bool * N * option N)) (received : list (N * N)) (stored : list (N * N)).

Fixpoint mk_parts (i : N) (l : list (bool * bool * N * option N)) : list part :=
  match l with
  | [] => []
  | (pa, su, len, ml) :: r => {| p_parses := pa; p_supported := su; p_ref := i; p_rd := mk_reader len true ml |} :: mk_parts (i + 1) r
  end.

Fixpoint pairs_eqb (a b : list (N * N)) : bool :=
  match a, b with
  | [], [] => true
  | (x1, y1) :: r, (x2, y2) :: s => (x1 =? x2) && (y1 =? y2) && pairs_eqb r s
  | _, _ => false
  end.

Fixpoint sort_pairs (l : list (N * N)) : list (N * N) :=
  match l with
  | [] => []
  | p :: r => (fix ins (p : N * N) (l : list (N * N)) := match l with [] => [p] | q :: t => if fst p <=? fst q then p :: l else q :: ins p t end) p (sort_pairs r)
  end.

Definition check (c : c02_case) : bool :=
  match c with
  | CRecv supported before len eof mlen code size after notified =>
      let '(s', v) := receive max_blob_size supported (st0 before) 1 (mk_reader len eof mlen) in
      (vcode v =? code) && (vsize v =? size) && osize_eqb (lookup_ref 1 s') after &&
      Bool.eqb (match hub s' with [] => false | _ => true end) notified
  | CPut cl parses supported before len mlen status after notified =>
      let '(s', st) := put_handler max_blob_size cl parses supported (st0 before) 1 (mk_reader len true mlen) in
      (scode st =? status) && osize_eqb (lookup_ref 1 s') after &&
      Bool.eqb (match hub s' with [] => false | _ => true end) notified
  | CMulti parts received stored =>
      let '(s', l) := multipart max_blob_size (st0 None) (mk_parts 1 parts) in
      pairs_eqb l received && pairs_eqb (sort_pairs (present s')) stored
  end.

Definition mismatches (base : N) (cs : list c02_case) : list N := mism_from check base cs.

From Coq Require Import String.
From Coq Require Import List NArith ZArith Bool.
From PK.Model Require Export C07.
From PK.Corr Require Export Common.
Import ListNotations.

Fixpoint nlist_eqb (a b : list N) : bool :=
  match a, b with [], [] => true | x :: r, y :: s => N.eqb x y && nlist_eqb r s | _, _ => false end.

Definition query := (option Z * N * N * list N)%type.   (* at, signer filter, attr, observed values *)

Definition mk (r s : N) (d : Z) (k : ckind) (a v : N) : claim :=
  {| c_ref := r; c_signer := s; c_date := d; c_kind := k; c_attr := a; c_val := v |}.

Inductive c07_case :=
(* corpus fed incrementally in this arrival order (loaded = false) or built from storage at start (loaded = true) *)
| CCorpus (loaded : bool) (arrival : list claim) (qs : list query)
(* describe over the non-deleted claims of the owner *)
| CDescribe (claims : list claim) (deleted : list N) (qs : list query)
| CDeleted (d : dels) (qs : list (N * bool)).

Definition check (c : c07_case) : bool :=
  match c with
  | CCorpus loaded arrival qs =>
      let pm := if loaded then (match arrival with [] => None | _ => Some (restore_invariants arrival) end) else add_claims arrival in
      forallb (fun q => let '(at_, sf, attr, res) := q in
                        nlist_eqb (match pm with Some pm => corpus_values pm at_ sf attr | None => [] end) res) qs
  | CDescribe claims deleted qs =>
      forallb (fun q => let '(at_, sf, attr, res) := q in
                        nlist_eqb (describe_values claims (fun r => existsb (N.eqb r) deleted) at_ sf attr) res) qs
  | CDeleted d qs => forallb (fun q => Bool.eqb (is_deleted (S (length d)) d (fst q)) (snd q)) qs
  end.

Definition mismatches (base : N) (cs : list c07_case) : list N := mism_from check base cs.

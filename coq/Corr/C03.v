From Coq Require Import String.
From Coq Require Import List NArith Bool Arith.
From PK.Generated Require Import Consts.
From PK.Model Require Export C03.
From PK.Corr Require Export Common.
Import ListNotations.

(* the order of RemoveBlobs and the end-of-file check of walkPack, as the source regenerated today has them *)
Definition index_first : bool := dp_remove_commits_index_first.
Definition eof_check : bool := dp_walk_checks_file_size.
Definition delete_header_first : bool := dp_delete_header_before_punch && dp_delete_header_before_zero.

Fixpoint calls_eqb (a b : list call) : bool :=
  match a, b with
  | [], [] => true
  | x :: r, y :: s =>
      (match x, y with
       | KMkdir, KMkdir => true
       | KTemp t b n, KTemp t' b' n' => N.eqb t t' && N.eqb b b' && Nat.eqb n n'
       | KWrite t n, KWrite t' n' => N.eqb t t' && Nat.eqb n n'
       | KSync t, KSync t' | KClose t, KClose t' | KLstatTmp t, KLstatTmp t' | KRename t, KRename t' | KRemoveTmp t, KRemoveTmp t' => N.eqb t t'
       | KLstatDat b, KLstatDat b' | KRemoveDat b, KRemoveDat b' => N.eqb b b'
       | _, _ => false
       end) && calls_eqb r s
  | _, _ => false
  end.

(* how much of a file survives a crash, by the harness' choice: 0 = only what was synced, 1 = all that was written, 2 = half way *)
Definition survive (choice : N) (x : tmp) : nat :=
  match choice with
  | 0%N => t_synced x
  | 1%N => t_written x
  | _ => t_synced x + (t_written x - t_synced x) / 2
  end.

Fixpoint insertN (x : N) (l : list N) : list N := match l with [] => [x] | y :: r => if N.leb x y then x :: l else y :: insertN x r end.
Definition sortN (l : list N) : list N := fold_right insertN [] l.
Fixpoint ns_eqb (a b : list N) : bool := match a, b with [], [] => true | x :: r, y :: s => N.eqb x y && ns_eqb r s | _, _ => false end.
Definition fclass_code (f : fclass) : N := match f with FIntact => 1 | FAbsent => 0 | FCorrupt => 2 end%N.

Inductive c03_case :=
(* files: the VFS calls a real ReceiveBlob made are the model's sequence *)
| CFilesTrace (t b : N) (chunks : list nat) (observed : list call)
(* files: all calls so far, cut by a crash (the list given is the prefix that happened), how much unsynced data survives;
   the blobs a store reopened on the materialised directory presents, and which of them are complete *)
| CFilesCrash (happened : list call) (choice : N) (visible_obs complete_obs : list N)
(* diskpacked: history (the last operation possibly cut by a crash), then reopen: class of Fetch per blob (0 absent, 1 intact,
   2 wrong bytes), enumerated refs; then Reindex: did it succeed, and the classes after it *)
| CPack (ops : list dop) (fetches : list (N * N)) (enum : list N) (reindex_ok : bool) (fetches_after : list (N * N)).

Definition check (k : c03_case) : bool :=
  match k with
  | CFilesTrace t b chunks observed => calls_eqb (receive_calls t b chunks) observed
  | CFilesCrash happened choice vis comp =>
      let s := applies fs0 happened in
      ns_eqb (sortN (visible s)) (sortN vis) &&
      ns_eqb (sortN (map fst (filter (fun e => Nat.eqb (survive choice (snd e)) (t_size (snd e))) (dats s)))) (sortN comp)
  | CPack ops fetches enum reindex_ok fetches_after =>
      let s := druns index_first dp0 ops in
      forallb (fun rf => N.eqb (fclass_code (dfetch s (fst rf))) (snd rf)) fetches &&
      ns_eqb (sortN (map fst (idx s))) (sortN enum) &&
      match reindex eof_check s with
      | Some s' => reindex_ok && forallb (fun rf => N.eqb (fclass_code (dfetch s' (fst rf))) (snd rf)) fetches_after
      | None => negb reindex_ok
      end
  end.

Definition mismatches (base : N) (cs : list c03_case) : list N := mism_from check base cs.

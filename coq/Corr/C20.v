(* C20 correspondence: each case carries an input and what the implementation answered;
   [check] recomputes the answer with the model. *)
From Coq Require Import String.
From Coq Require Import List NArith Bool.
From PK.Base Require Import Bytes Lex.
From PK.Model Require Import C20.
From PK.Corr Require Export Common.
Import ListNotations.
Local Open Scope N_scope.

Inductive c20_case :=
| CParse (s : bytes) (ok : bool) (str : bytes) (okKnown sup : bool)
| CLess (a b : bytes) (res : bool)
| CStr (r s : bytes) (eq pre : N)
| CJson (r js inp : bytes) (res : N) (back : bytes)
| CBin (r bin : bytes) (ok : bool) (back : bytes)
| CMinus (r m : bytes).

Definition check (c : c20_case) : bool :=
  match c with
  | CParse s ok str okKnown sup =>
      (match parse true s with
       | Some r => ok && beqb (to_string r) str && Bool.eqb sup (supported r)
       | None => negb ok && negb sup
       end) && Bool.eqb okKnown (is_some (parse false s))
  | CLess a b res =>
      match parse true a, parse true b with
      | Some x, Some y => Bool.eqb (less x y) res
      | _, _ => false
      end
  | CStr r s eq pre =>
      match parse true r with
      | Some x => (tri (equal_string x s) =? eq) && (tri (has_prefix x s) =? pre)
      | None => false
      end
  | CJson r js inp res back =>
      match parse true r with
      | Some x => beqb (marshal_json x) js &&
                  match unmarshal_json inp with
                  | JZero => res =? 0
                  | JRef y => (res =? 1) && beqb (to_string y) back
                  | JErr => res =? 2
                  end
      | None => false
      end
  | CBin r bin ok back =>
      match parse true r with
      | Some x => beqb (marshal_binary x) bin &&
                  match unmarshal_binary bin with
                  | Some y => ok && beqb (to_string y) back
                  | None => negb ok
                  end
      | None => false
      end
  | CMinus r m =>
      match parse true r with
      | Some x => beqb (string_minus_one x) m
      | None => false
      end
  end.

Definition mismatches (base : N) (cs : list c20_case) : list N := mism_from check base cs.

From Coq Require Import String.
From Coq Require Import List NArith Bool Arith FMapPositive.
From PK.Base Require Import Bytes.
From PK.Generated Require Import Consts.
From PK.Model Require Export C15.
From PK.Corr Require Export Common.
Import ListNotations.

Fixpoint shape_eqb (a b : shape) : bool :=
  match a, b with
  | ShBlob x, ShBlob y => N.eqb x y
  | ShBytes k1, ShBytes k2 =>
      (fix eqs (l1 l2 : list shape) : bool :=
         match l1, l2 with [], [] => true | x :: r1, y :: r2 => shape_eqb x y && eqs r1 r2 | _, _ => false end) k1 k2
  | _, _ => false
  end.
Fixpoint shapes_eqb (l1 l2 : list shape) : bool :=
  match l1, l2 with [], [] => true | x :: r1, y :: r2 => shape_eqb x y && shapes_eqb r1 r2 | _, _ => false end.

Fixpoint sset_eqb (a b : sset) : bool :=
  match a, b with
  | SMembers x, SMembers y => beqb x y
  | SMerge k1, SMerge k2 =>
      (fix eqs (l1 l2 : list sset) : bool :=
         match l1, l2 with [], [] => true | x :: r1, y :: r2 => sset_eqb x y && eqs r1 r2 | _, _ => false end) k1 k2
  | _, _ => false
  end.

Fixpoint pairs_eqb (a b : list (N * N)) : bool :=
  match a, b with
  | [], [] => true
  | (x1, y1) :: r, (x2, y2) :: s => N.eqb x1 x2 && N.eqb y1 y2 && pairs_eqb r s
  | _, _ => false
  end.

(* the roll-sum oracle from the sparse list of split positions the harness computed with the same rollsum package *)
Definition mk_oracle (splits : list (N * N)) (eof_from : N) : oracle :=
  let m := fold_left (fun m p => match fst p with Npos q => PositiveMap.add q (snd p) m | N0 => m end) splits (PositiveMap.empty N) in
  {| on_split := fun n => match n with Npos q => match PositiveMap.find q m with Some _ => true | None => false end | N0 => false end;
     bits_at := fun n => match n with Npos q => match PositiveMap.find q m with Some b => b | None => 0%N end | N0 => 0%N end;
     eof_from := eof_from |}.

Fixpoint reads_ok (ps : list part) (l : list (nat * nat * list N)) : bool :=
  match l with
  | [] => true
  | (off, want, res) :: r => beqb (read_at ps off want) res && reads_ok ps r
  end.

Definition iota (k : nat) : list N := map N.of_nat (seq 0 k).

Inductive c15_case :=
| CReads (ps : list part) (reads : list (nat * nat * list N))
| CWrite (total : N) (splits : list (N * N)) (eof_from : N) (cuts : list (N * N)) (shapes : list shape)
| CSet (m k : nat) (tree : sset).

Definition check (c : c15_case) : bool :=
  match c with
  | CReads ps reads => reads_ok ps reads
  | CWrite total splits ef cuts shapes =>
      let cs := chunks chunk_max_blob_size first_chunk_size too_small_threshold (mk_oracle splits ef) total in
      let tree := build_tree cs in
      pairs_eqb (map (fun c => (c_from c, c_to c)) cs) cuts && pairs_eqb (flatten_stack tree) cuts &&
      shapes_eqb (file_shapes tree) shapes
  | CSet m k tree => sset_eqb (split_set (S k) m (iota k)) tree
  end.

Definition mismatches (base : N) (cs : list c15_case) : list N := mism_from check base cs.

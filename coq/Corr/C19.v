From Coq Require Import String.
From Coq Require Import List NArith Bool.
From PK.Model Require Export C19.
From PK.Corr Require Export Common.
Import ListNotations.

(* an observed trace: the effects of the implementation in the order they took place, and snapshots of the queue rows
   and of the destination's blobs taken atomically between two effects *)
Inductive titem := TE (e : ev) | TObs (q d : list N).

Definition subset (a b : list N) : bool := forallb (fun x => mem x b) a.
Definition seteq (a b : list N) : bool := subset a b && subset b a.

(* the implementation's drop from needCopy right after queue.Delete is not observable: it is folded into the EQDel item *)
Fixpoint accepts (s : st) (t : list titem) : bool :=
  match t with
  | [] => true
  | TE e :: r =>
      match step s e with
      | Some s1 =>
          match e with
          | EQDel b _ => match step s1 (ECopyDone b) with Some s2 => accepts s2 r | None => false end
          | _ => accepts s1 r
          end
      | None => false
      end
  | TObs q d :: r => seteq q (queue s) && seteq d (dest s) && accepts s r
  end.

Fixpoint pairs_eqb (a b : list (N * N)) : bool :=
  match a, b with [], [] => true | (x, y) :: r, (u, v) :: s => N.eqb x u && N.eqb y v && pairs_eqb r s | _, _ => false end.
Fixpoint ns_eqb (a b : list N) : bool :=
  match a, b with [], [] => true | x :: r, y :: s => N.eqb x y && ns_eqb r s | _, _ => false end.

Inductive c19_case :=
| CTrace (t : list titem)
| CMissing (srcl dstl miss : list (N * N)) (mism : list N).

Definition check (k : c19_case) : bool :=
  match k with
  | CTrace t => accepts init t
  | CMissing srcl dstl miss mism => let '(m, mm) := missing srcl dstl in pairs_eqb m miss && ns_eqb mm mism
  end.

Definition mismatches (base : N) (cs : list c19_case) : list N := mism_from check base cs.

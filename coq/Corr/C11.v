From Coq Require Import String.
From Coq Require Import List NArith Bool.
From PK.Generated Require Import Consts.
From PK.Model Require Export C11.
From PK.Corr Require Export Common.
Import ListNotations.

(* thresholds as in the source regenerated today *)
Definition L : nat := N.to_nat small_meta_count_limit.
Definition F : nat := N.to_nat full_meta_blob_size.

(* harness-level operations name blobs by plaintext id; names of ciphertexts are looked up here *)
Inductive hop :=
| HReceive (p : N) | HReceiveFail (at_meta : bool) (p : N) | HJobUpload | HJobAbort | HJobDelete (ok : bool) | HRestart
| HJunkBlob (p : N)            (* the ciphertext of p is replaced by bytes the store never produced (flip, cut, extension) *)
| HSwapBlob (p q : N)          (* ... by the ciphertext of q *)
| HJunkMeta (i : nat)          (* the i-th meta blob (in the model's store order) is replaced by junk *)
| HSwapMeta (i j : nat).

Definition hstep (s : st) (h : hop) : option st :=
  match h with
  | HReceive p => step L F s (OReceive p)
  | HReceiveFail m p => step L F s (OReceiveFail m p)
  | HJobUpload => step L F s OJobUpload
  | HJobAbort => step L F s OJobAbort
  | HJobDelete ok => step L F s (OJobDelete ok)
  | HRestart => step L F s ORestart
  | HJunkBlob p => match ilookup p (index s) with Some name => step L F s (OTamperBlob name (CJunk 0)) | None => Some s end
  | HSwapBlob p q =>
      match ilookup p (index s), ilookup q (index s) with
      | Some name, Some other => match slookup other (blobs s) with Some c => step L F s (OTamperBlob name c) | None => Some s end
      | _, _ => Some s
      end
  | HJunkMeta i => match nth_error (meta s) i with Some e => step L F s (OTamperMeta (fst e) (CJunk 0)) | None => Some s end
  | HSwapMeta i j =>
      match nth_error (meta s) i, nth_error (meta s) j with
      | Some e, Some e' => step L F s (OTamperMeta (fst e) (snd e'))
      | _, _ => Some s
      end
  end.

Fixpoint hrun (s : st) (hs : list hop) : option st :=
  match hs with [] => Some s | h :: r => match hstep s h with Some s' => hrun s' r | None => None end end.

(* canonical views *)
Fixpoint insertN (x : N) (l : list N) : list N := match l with [] => [x] | y :: r => if N.leb x y then x :: l else y :: insertN x r end.
Definition sortN (l : list N) : list N := fold_right insertN [] l.
Fixpoint ns_eqb (a b : list N) : bool := match a, b with [], [] => true | x :: r, y :: s => N.eqb x y && ns_eqb r s | _, _ => false end.
Fixpoint ns_leb (a b : list N) : bool :=
  match a, b with [], _ => true | _ :: _, [] => false | x :: r, y :: s => N.ltb x y || (N.eqb x y && ns_leb r s) end.
Fixpoint insertL (x : list N) (l : list (list N)) : list (list N) := match l with [] => [x] | y :: r => if ns_leb x y then x :: l else y :: insertL x r end.
Definition sortL (l : list (list N)) : list (list N) := fold_right insertL [] l.
Fixpoint nss_eqb (a b : list (list N)) : bool := match a, b with [], [] => true | x :: r, y :: s => ns_eqb x y && nss_eqb r s | _, _ => false end.

(* what a stored object decrypts to: Some (sorted plaintext ids of its lines) for a meta blob *)
Definition meta_view (s : st) : list (list N) :=
  sortL (map (fun e => match snd e with CMeta ls _ => sortN (map fst ls) | _ => [] end) (meta s)).
Definition blobs_view (s : st) : list N := sortN (flat_map (fun e => match snd e with CData p _ => [p] | _ => [] end) (blobs s)).
Definition index_view (s : st) : list N := sortN (map fst (index s)).

Fixpoint dedup (l : list N) : list N :=
  match l with x :: ((y :: _) as r) => if N.eqb x y then dedup r else x :: dedup r | _ => l end.

Definition fetch_code (f : fetched) (p : N) : N := match f with FPlain q => if N.eqb q p then 1 else 3 | FMissing => 0 | FFail => 2 end%N.

Definition hrun_from (o : option st) (hs : list hop) : option st :=
  match o with Some s => hrun s hs | None => None end.

Inductive c11_case :=
(* from a state reached earlier (a prefix of the history, evaluated once per case file) and after the further operations:
   does the store start (false = the last restart failed), the decrypted views of the wrapped stores, the enumerated
   plaintext refs, and for some blobs the class of Fetch's answer (0 missing, 1 exact, 2 error) *)
| CFrom (s0 : option st) (hs : list hop) (precise : bool) (started : bool) (obs_meta : list (list N)) (obs_blobs obs_index : list N) (fetches : list (N * N)).

Definition CRun (hs : list hop) := CFrom (Some init) hs.

Definition check (k : c11_case) : bool :=
  match k with
  | CFrom s0 hs precise started obs_meta obs_blobs obs_index fetches =>
      match hrun_from s0 hs with
      | None => negb started
      | Some s =>
          (* after a start-up that compacted, how the meta blobs were grouped depends on the order in which the pool of
             fetchers delivered them: then only what the meta blobs cover together is compared *)
          started && (if precise then nss_eqb (meta_view s) (sortL (map sortN obs_meta))
                      else ns_eqb (dedup (sortN (concat (meta_view s)))) (dedup (sortN (concat obs_meta)))) &&
          ns_eqb (blobs_view s) (sortN obs_blobs) &&
          ns_eqb (index_view s) (sortN obs_index) &&
          forallb (fun pf => N.eqb (fetch_code (fetch (fst pf) s) (fst pf)) (snd pf)) fetches
      end
  end.

Definition mismatches (base : N) (cs : list c11_case) : list N := mism_from check base cs.

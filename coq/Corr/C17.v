From Coq Require Import String.
From Coq Require Import List NArith Bool.
From PK.Model Require Export C17.
From PK.Corr Require Export Common.
Import ListNotations.

Definition verdict_code (v : verdict) : N := match v with VServed _ => 1 | VNotFound => 2 | VBad => 3 | VUnauth => 4 end%N.

Inductive c17_case :=
(* store, deleted shares, GET?, request chain (via blobs then the requested blob), class of the HTTP answer
   (1 = 200 with the blob's bytes, 2 = 404, 3 = 400, 4 = 401) *)
| CServe (st : store) (deleted : list N) (get : bool) (chain : list N) (code : N).

Definition check (k : c17_case) : bool :=
  match k with
  | CServe st deleted get chain code =>
      match serve links_impl st deleted get chain with
      | VServed b => N.eqb code 1 && N.eqb b (last chain 0%N)
      | v => N.eqb (verdict_code v) code
      end
  end.

Definition mismatches (base : N) (cs : list c17_case) : list N := mism_from check base cs.

From Coq Require Import String.
From Coq Require Import List NArith Bool Arith.
From PK.Generated Require Import Consts.
From PK.Model Require Export C04.
From PK.Corr Require Export Common.
Import ListNotations.

(* does RemoveBlobs remove the loose copies of all the blobs it is given (source regenerated today)? *)
Definition remove_both : bool := bp_remove_loose_of_all.

Inductive cop :=
| OReceive (r : N)
| OPack (w : N) (zs : list (N * list N)) (k : nat)    (* the first k writes of the pack happened *)
| ORemove (r : N)
| OReindex (full : bool).

Definition cstep (s : st) (o : cop) : st :=
  match o with
  | OReceive r => receive s r
  | OPack w zs k => exec s (firstn k (pack_writes w zs))
  | ORemove r => remove remove_both s r
  | OReindex full => reindex full s
  end.
Definition cruns (os : list cop) : st := fold_left cstep os st0.

Fixpoint insertN (x : N) (l : list N) : list N := match l with [] => [x] | y :: r => if N.leb x y then x :: l else y :: insertN x r end.
Definition sortN (l : list N) : list N := fold_right insertN [] l.
Fixpoint dedup (l : list N) : list N := match l with x :: ((y :: _) as r) => if N.eqb x y then dedup r else x :: dedup r | _ => l end.
Fixpoint ns_eqb (a b : list N) : bool := match a, b with [], [] => true | x :: r, y :: s => N.eqb x y && ns_eqb r s | _, _ => false end.
Definition setN (l : list N) : list N := dedup (sortN l).
Definition fres_code (f : fres) : N := match f with FOk => 1 | FMissing => 0 | FError => 2 end%N.

Inductive c04_case :=
(* after the operations: the refs in the loose store, the refs with a b: row, how many zips are in the large store, the
   class of Fetch for every logical blob (0 missing, 1 identical bytes, 2 error or other bytes), the enumerated refs *)
| CRun (os : list cop) (obs_small obs_rows : list N) (nzips : nat) (fetches : list (N * N)) (enum : list N).

Definition check (k : c04_case) : bool :=
  match k with
  | CRun os obs_small obs_rows nzips fetches enum =>
      let s := cruns os in
      ns_eqb (setN (small s)) (setN obs_small) && ns_eqb (setN (map fst (brow s))) (setN obs_rows) &&
      Nat.eqb (length (setN (map fst (large s)))) nzips &&
      forallb (fun rf => N.eqb (fres_code (fetch s (fst rf))) (snd rf)) fetches &&
      forallb (fun r => visible s r) enum &&
      forallb (fun rf => orb (negb (visible s (fst rf))) (existsb (N.eqb (fst rf)) enum)) fetches
  end.

Definition mismatches (base : N) (cs : list c04_case) : list N := mism_from check base cs.

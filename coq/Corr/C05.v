From Coq Require Import String.
From Coq Require Import List NArith Bool.
From PK.Model Require Export C05.
From PK.Corr Require Export Common.
Import ListNotations.

Definition mkb (i : N) (f : list N) (d : option N) : blob := {| b_id := i; b_fdeps := f; b_idep := d |}.

Definition status_eqb (a b : option status) : bool :=
  match a, b with
  | Some Full, Some Full | Some Partial, Some Partial | None, None => true
  | Some (Pending x), Some (Pending y) => N.eqb x y
  | _, _ => false
  end.

Inductive c05_case :=
(* a world, one arrival order (with possible duplicates), whether the world meets the guard of the order-independence
   theorem, and the status of every blob as read off the index rows at quiescence *)
| CRun (world : list blob) (order : list N) (guard : bool) (statuses : list (N * option status)).

Definition check (c : c05_case) : bool :=
  match c with
  | CRun world order guard statuses =>
      let fuel := S (S (length world)) in
      let s := run world fuel order in
      forallb (fun p => status_eqb (status_of s (fst p)) (snd p) &&
                        (negb guard || status_eqb (expected world order (fst p)) (snd p))) statuses
  end.

Definition mismatches (base : N) (cs : list c05_case) : list N := mism_from check base cs.

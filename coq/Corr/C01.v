From Coq Require Import String.
From Coq Require Import List NArith ZArith Bool.
From PK.Base Require Import Bytes Lex SortedMap.
From PK.Model Require Export Merge C12 C01.
From PK.Corr Require Export Common.
Import ListNotations.
Local Open Scope N_scope.

Fixpoint smap_eqb (a b : smap) : bool :=
  match a, b with
  | [], [] => true
  | (k1, v1) :: r1, (k2, v2) :: r2 => beqb k1 k2 && beqb v1 v2 && smap_eqb r1 r2
  | _, _ => false
  end.

Definition err_eqb (a b : err) : bool :=
  match a, b with
  | ENotFound, ENotFound | EReadonly, EReadonly | ENotImpl, ENotImpl | EOther, EOther => true
  | _, _ => false
  end.

(* stat results are order-free: compared as sorted maps (the generator never asks for the same ref twice) *)

Definition out_eqb (a b : out) : bool :=
  match a, b with
  | ORecv x, ORecv y => x =? y
  | OBytes x, OBytes y => beqb x y
  | OStat x, OStat y => smap_eqb (canon x) (canon y)
  | OEnum x, OEnum y => smap_eqb x y
  | OOk, OOk => true
  | OErr x, OErr y => err_eqb x y
  | _, _ => false
  end.

Fixpoint outs_eqb (a b : list out) : bool :=
  match a, b with
  | [], [] => true
  | x :: r, y :: s => out_eqb x y && outs_eqb r s
  | _, _ => false
  end.

Fixpoint leaves_eqb (a : list smap) (b : list (option smap)) : bool :=
  match a, b with
  | [], [] => true
  | x :: r, None :: s => leaves_eqb r s
  | x :: r, Some y :: s => smap_eqb (sized x) y && leaves_eqb r s
  | _, _ => false
  end.

Definition obytes_eqb (a b : option bytes) : bool :=
  match a, b with Some x, Some y => beqb x y | None, None => true | _, _ => false end.

Inductive c01_case :=
| CHist (c : cfg) (pre : list (nat * bytes * bytes)) (ops : list op) (outs : list out) (leaves : list (option smap))
| CSub (b : bytes) (off len : Z) (res : option bytes).

Definition check (k : c01_case) : bool :=
  match k with
  | CHist c pre ops outs lv =>
      let s0 := preload (init c) pre in
      outs_eqb (run (sem c) s0 ops) outs && leaves_eqb (leaf_maps (final (sem c) s0 ops)) lv
  | CSub b off len res => obytes_eqb (subfetch b off len) res
  end.

Definition mismatches (base : N) (cs : list c01_case) : list N := mism_from check base cs.

From Coq Require Import String.
From Coq Require Import List NArith Bool.
From PK.Base Require Import Bytes.
From PK.Model Require Export C16.
From PK.Corr Require Export Common.
Import ListNotations.

Definition stage_code (s : stage) : N :=
  match s with SNoSep => 0 | SSigJSON => 1 | SPayload => 2 | SKey => 3 | SBadSig => 4 | SOk => 5 end%N.

Fixpoint nat_eqb_opt (a b : option nat) : bool :=
  match a, b with Some x, Some y => Nat.eqb x y | None, None => true | _, _ => false end.

(* mutations of a base document, applied here so that a case does not have to spell the whole document *)
Inductive mut := MSet (p : nat) (v : N) | MIns (p : nat) (v : N) | MDel (p : nat) | MCut (n : nat).
Definition mutate (ba : bytes) (m : mut) : bytes :=
  match m with
  | MSet p v => firstn p ba ++ v :: skipn (S p) ba
  | MIns p v => firstn p ba ++ v :: skipn p ba
  | MDel p => firstn p ba ++ skipn (S p) ba
  | MCut n => firstn (length ba - n) ba
  end.

Inductive c16_case :=
(* a document; the harness' own evaluation of the four parameters on the pieces the split yields; where its own search
   found the last separator; the stage at which the implementation's Verify stopped *)
| CVerify (ba : bytes) (idx : option nat) (sigjson payload keyok sigok : bool) (go_stage : N)
| CVerifyM (base : bytes) (m : mut) (idx : option nat) (sigjson payload keyok sigok : bool) (go_stage : N)
| CSign (doc sigtext : bytes) (ok : bool) (signed : bytes).

Definition check_verify (ba : bytes) (idx : option nat) (sigjson payload keyok sigok : bool) (go_stage : N) : bool :=
  nat_eqb_opt (last_index sep ba) idx &&
  N.eqb (stage_code (verify (fun _ => if sigjson then Some [] else None) (fun _ => if payload then Some tt else None)
                            (fun _ => if keyok then Some tt else None) (fun _ _ _ => sigok) ba)) go_stage.

Definition check (k : c16_case) : bool :=
  match k with
  | CVerify ba idx sigjson payload keyok sigok go_stage => check_verify ba idx sigjson payload keyok sigok go_stage
  | CVerifyM base m idx sigjson payload keyok sigok go_stage => check_verify (mutate base m) idx sigjson payload keyok sigok go_stage
  | CSign doc sigtext ok signed =>
      match sign doc sigtext with Some s => ok && beqb s signed | None => negb ok end
  end.

Definition mismatches (base : N) (cs : list c16_case) : list N := mism_from check base cs.

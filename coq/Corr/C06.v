(* C06 correspondence: the attribute/deletion observations of the live and of the reloaded corpus at every prefix of a
   history are checked against the same model as C07 (incremental corpus vs corpus rebuilt from the rows). *)
From Coq Require Import List NArith ZArith Bool.
From PK.Corr Require Export C07.
Definition c06_case := c07_case.

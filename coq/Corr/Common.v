(* helpers shared by the correspondence files *)
From Coq Require Import List NArith Bool.
Import ListNotations.
Local Open Scope N_scope.

Section Mism.
  Context {A : Type} (check : A -> bool).
  Fixpoint mism_from (i : N) (l : list A) : list N :=
    match l with
    | [] => []
    | c :: r => if check c then mism_from (i + 1) r else i :: mism_from (i + 1) r
    end.
End Mism.

Definition tri (o : option bool) : N := match o with Some false => 0 | Some true => 1 | None => 2 end.
Definition is_some {A} (o : option A) : bool := match o with Some _ => true | None => false end.

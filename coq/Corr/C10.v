From Coq Require Import String.
From Coq Require Import List NArith ZArith Bool.
From PK.Base Require Import Bytes Lex SortedMap.
From PK.Model Require Export C10.
From PK.Corr Require Export Common.
Import ListNotations.

Fixpoint smap_eqb (a b : smap) : bool :=
  match a, b with
  | [], [] => true
  | (k1, v1) :: r1, (k2, v2) :: r2 => beqb k1 k2 && beqb v1 v2 && smap_eqb r1 r2
  | _, _ => false
  end.

Definition out_eqb (a b : out) : bool :=
  match a, b with
  | RVal None, RVal None => true
  | RVal (Some x), RVal (Some y) => beqb x y
  | RUnit, RUnit => true
  | RList x, RList y => smap_eqb x y
  | _, _ => false
  end.

Fixpoint outs_eqb (a b : list out) : bool :=
  match a, b with
  | [], [] => true
  | x :: r, y :: s => out_eqb x y && outs_eqb r s
  | _, _ => false
  end.

Fixpoint bouts_eqb (a b : list (out * smap * smap)) : bool :=
  match a, b with
  | [], [] => true
  | (x, b1, k1) :: r, (y, b2, k2) :: s => out_eqb x y && smap_eqb b1 b2 && smap_eqb k1 k2 && bouts_eqb r s
  | _, _ => false
  end.

Definition big (n c : N) : bytes := repeat c (N.to_nat n).

(* an engine history: ops and the implementation's outputs; a buffer history also carries both layers after each op *)
Inductive c10_case :=
| CEngine (ops : list op) (outs : list out)
| CBuffer (maxb : Z) (ops : list op) (outs : list (out * smap * smap)).

Definition check (c : c10_case) : bool :=
  match c with
  | CEngine ops outs => outs_eqb (run_spec [] ops) outs
  | CBuffer mx ops outs => bouts_eqb (run_buffer (binit mx) ops) outs
  end.

Definition mismatches (base : N) (cs : list c10_case) : list N := mism_from check base cs.

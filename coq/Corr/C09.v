From Coq Require Import String.
From Coq Require Import List NArith ZArith Bool.
From PK.Generated Require Import Consts.
From PK.Model Require Export C09.
From PK.Corr Require Export Common.
Import ListNotations.

Definition item_eqb (a b : item) : bool := Z.eqb (fst a) (fst b) && N.eqb (snd a) (snd b).
Fixpoint items_eqb (a b : list item) : bool :=
  match a, b with [], [] => true | x :: r, y :: s => item_eqb x y && items_eqb r s | _, _ => false end.
Fixpoint pages_eqb (a b : list (list item)) : bool :=
  match a, b with [], [] => true | x :: r, y :: s => items_eqb x y && pages_eqb r s | _, _ => false end.
Fixpoint nlist_eqb (a b : list N) : bool :=
  match a, b with [], [] => true | x :: r, y :: s => N.eqb x y && nlist_eqb r s | _, _ => false end.

Inductive c09_case :=
(* the full ordered result (time, ref rank), a page size, and the pages the implementation returned when its
   continuation tokens were followed (at most [maxpages] requests) *)
| CPages (full : list item) (limit maxpages : nat) (pages : list (list item))
(* the matching permanodes in enumeration order (by rank), limit, pivot, and the window returned *)
| CAround (matches : list N) (limit : nat) (pivot : N) (res : list N).

Definition check (c : c09_case) : bool :=
  match c with
  | CPages full limit maxpages pages => pages_eqb (follow continue_token_signed maxpages full None limit) pages
  | CAround matches limit pivot res => nlist_eqb (around limit pivot matches) res
  end.

Definition mismatches (base : N) (cs : list c09_case) : list N := mism_from check base cs.

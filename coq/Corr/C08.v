From Coq Require Import String.
From Coq Require Import List NArith ZArith Bool.
From PK.Model Require Export C08.
From PK.Corr Require Export Common.
Import ListNotations.

Definition mkm (r : N) (t : ctype) (sz : N) (del : bool) (mt ct : option Z) (attrs : list (N * list N)) (nt : list N) (wh : N) (kids : list N) : blobm :=
  {| m_ref := r; m_type := t; m_size := sz; m_deleted := del; m_mtime := mt; m_ctime := ct; m_attrs := attrs; m_ntypes := nt; m_whole := wh; m_kids := kids |}.

Fixpoint nlist_eqb (a b : list N) : bool :=
  match a, b with [], [] => true | x :: r, y :: s => N.eqb x y && nlist_eqb r s | _, _ => false end.
Fixpoint insertN (x : N) (l : list N) : list N := match l with [] => [x] | y :: r => if N.leb x y then x :: l else y :: insertN x r end.
Definition sortN (l : list N) : list N := fold_right insertN [] l.
Fixpoint subset (a b : list N) : bool := match a with [] => true | x :: r => existsb (N.eqb x) b && subset r b end.
Definition source_code (s : source) : N :=
  match s with SrcLastMod => 1 | SrcCreated => 2 | SrcTypes _ => 3 | SrcOne _ => 4 | SrcFiles => 5 | SrcCamli _ => 6 | SrcAll => 7 end%N.

(* observed: 0 = error, 1 = result list; src = the candidate source the planner reported *)
Inductive c08_case :=
| CQuery (w : world) (c : cst) (s : sortt) (limit : Z) (src : N) (ok : bool) (res : list N).

Definition check (k : c08_case) : bool :=
  match k with
  | CQuery w c s limit src ok res =>
      wf_worldb w &&
      N.eqb (if valid c then source_code (pick_source c (planned_sort c s)) else 0%N) src &&
      match query w c s limit with
      | QError => negb ok
      | QOrdered l => ok && nlist_eqb l res
      | QSet l None => ok && nlist_eqb (sortN l) (sortN res)
      | QSet l (Some n) => ok && subset res l && Nat.eqb (length res) (Nat.min n (length l))
      end
  end.

Definition mismatches (base : N) (cs : list c08_case) : list N := mism_from check base cs.

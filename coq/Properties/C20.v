(* C20 — Blobref text, encodings and ordering are mutually consistent.
   Statements only; every proof is [exact] of a lemma of Proofs/C20.v. *)
From Coq Require Import String.
From Coq Require Import List NArith Bool.
From PK.Base Require Import Bytes Lex.
From PK.Generated Require Import Consts.
From PK.Model Require Import C20.
From PK.Proofs Require C20.
Import ListNotations.
Local Open Scope N_scope.

(* text form parses back to an equal ref — for every ref the parsers can build *)
Theorem C20_parse_print : forall r, wf_ref r = true -> parse true (to_string r) = Some r.
Proof. exact C20.parse_print. Qed.
Print Assumptions C20_parse_print.

(* ... and the parsers only build well-formed refs, printing back to exactly the accepted text (all strings) *)
Theorem C20_print_parse : forall allow_all s r, parse allow_all s = Some r -> to_string r = s /\ wf_ref r = true.
Proof. intros a s r H. split; [exact (C20.print_parse a s r H)|exact (C20.parse_wf a s r H)]. Qed.
Print Assumptions C20_print_parse.

(* Less agrees with byte-wise order of the text forms, for refs of supported hashes *)
Theorem C20_less_is_text_order : forall k1 d1 k2 d2,
  wf_ref (Known k1 d1) = true -> wf_ref (Known k2 d2) = true ->
  less (Known k1 d1) (Known k2 d2) = ltb (to_string (Known k1 d1)) (to_string (Known k2 d2)).
Proof. exact C20.less_known_text. Qed.
Print Assumptions C20_less_is_text_order.

(* EqualString is equality with the text form; never panics *)
Theorem C20_equal_string : forall k d s, wf_ref (Known k d) = true ->
  equal_string (Known k d) s = Some (beqb s (to_string (Known k d))).
Proof. exact C20.equal_string_known. Qed.
Print Assumptions C20_equal_string.

(* HasPrefix = "s is a prefix of the text form and has at least one digest character" *)
Theorem C20_has_prefix : forall k d s, wf_ref (Known k d) = true ->
  has_prefix (Known k d) s =
  Some (is_prefix s (to_string (Known k d)) && Nat.ltb (length (kname k) + 1) (length s)).
Proof. exact C20.has_prefix_known. Qed.
Print Assumptions C20_has_prefix.

(* for every ref (also unknown hashes, odd digit counts) and every string the two tests return (no index panic);
   the full functional statement for unknown-hash refs is carried by the correspondence only: _partial *)
Theorem C20_string_tests_total_partial : forall r s, wf_ref r = true -> equal_string r s <> None /\ has_prefix r s <> None.
Proof. intros r s W. split; [exact (C20.equal_string_total r s W)|exact (C20.has_prefix_total r s W)]. Qed.
Print Assumptions C20_string_tests_total_partial.

Theorem C20_json_roundtrip : forall r, wf_ref r = true -> unmarshal_json (marshal_json r) = JRef r.
Proof. exact C20.json_roundtrip. Qed.
Print Assumptions C20_json_roundtrip.

Theorem C20_binary_roundtrip_partial : forall r, wf_ref r = true -> is_odd r = false ->
  unmarshal_binary (marshal_binary r) = Some r.
Proof.
  intros [k d|n sum odd] W O; [exact (C20.binary_roundtrip_known k d W)|].
  cbn in O. subst odd. exact (C20.binary_roundtrip_other n sum W).
Qed.
Print Assumptions C20_binary_roundtrip_partial.

(* full statement (all well-formed refs) is false of the faithful model: KNOWN finding binary-roundtrip-odd-other *)
Theorem C20_binary_roundtrip_refuted : exists r, wf_ref r = true /\ unmarshal_binary (marshal_binary r) <> Some r.
Proof. exists C20.odd_other_witness. exact C20.binary_roundtrip_odd_refuted. Qed.
Print Assumptions C20_binary_roundtrip_refuted.

(* strings that are not refs of a supported hash are rejected where only supported refs are allowed:
   IsSupported is exactly "hash name is one of the registered ones"; ParseKnown additionally lets the
   three test digest names through (testRefType in ref.go) and nothing else *)
Theorem C20_known_only : forall s r, parse false s = Some r -> supported r = true \/ is_test_name (rname r) = true.
Proof. exact C20.known_only. Qed.
Print Assumptions C20_known_only.

Theorem C20_supported_exact : forall s r, parse true s = Some r ->
  (supported r = true <-> In (rname r) (map ofs known_hash_names)).
Proof. exact C20.supported_is_known_name. Qed.
Print Assumptions C20_supported_exact.

(* the generated hexDigit table of ref.go is the hexdigit function of the model *)
Theorem C20_hex_table : forall n, n < 16 -> nth (N.to_nat n) (ofs hex_digit) 0 = hexdigit n.
Proof. exact C20.hex_digit_table. Qed.
Print Assumptions C20_hex_table.

(* non-vacuity: concrete refs of each kind meet the hypotheses *)
Example C20_nonvacuous :
  wf_ref (Known KSha1 (repeat 171 20)) = true /\ wf_ref (Other (ofs "foo") [171; 205] false) = true /\
  parse true (ofs "sha1-abababababababababababababababababababab") = Some (Known KSha1 (repeat 171 20)) /\
  has_prefix (Other (ofs "foo") [171; 205] false) (ofs "foo") = Some false.
Proof. vm_compute. repeat split; reflexivity. Qed.
Print Assumptions C20_nonvacuous.

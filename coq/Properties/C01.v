(* C01 — Every storage backend behaves as a content-addressed map.
   SPEC: the reference map ([spec_state]/[spec_out] on strictly sorted ref->bytes lists), which is literally the
   leaf machine.  MODEL: coq/Model/C01.v, the combinators transcribed from pkg/blobserver/*.
   Proved for all inputs: the laws of the statement on the SPEC; enumeration exactness and paging for every cursor
   string and page size; mergedEnumerate (used by replica, shard, union, overlay) = first `limit` of the sorted
   union for any number of sources; the replica, shard, cond and proxycache combinators each refine the SPEC whenever
   their children do (shard: under the invariant that every ref lives in the kid its digest routes to; proxycache:
   under the invariant that the cache holds only blobs of the origin; eviction is not modelled), hence (by induction
   on the configuration) every nesting of these four over leaves does, for every operation sequence.
   The remaining combinators (overlay, namespace, union) are executable models tied to the code and to the SPEC by
   the correspondence run only: the nesting theorem is therefore still named _partial. *)
From Coq Require Import List NArith ZArith Bool.
From PK.Base Require Import Bytes Lex SortedMap.
From PK.Model Require Import Merge C12 C01.
From PK.Proofs Require Import SortedMapLemmas Paging.
From PK.Proofs Require MergeLemmas C01.
Import ListNotations.

Theorem C01_fetch_after_receive : forall m r b sc, lookup r m = None ->
  C01.spec_out (C01.spec_state m (Recv r b sc)) (Fetch r) = OBytes b.
Proof. exact C01.fetch_after_receive. Qed.
Print Assumptions C01_fetch_after_receive.

Theorem C01_receive_again_noop : forall m r b b' sc sc',
  C01.spec_state (C01.spec_state m (Recv r b sc)) (Recv r b' sc') = C01.spec_state m (Recv r b sc).
Proof. exact C01.receive_again_noop. Qed.
Print Assumptions C01_receive_again_noop.

Theorem C01_receive_keeps_others : forall m r b sc k, k <> r -> lookup k (C01.spec_state m (Recv r b sc)) = lookup k m.
Proof. exact C01.receive_keeps_others. Qed.
Print Assumptions C01_receive_keeps_others.

Theorem C01_removed_is_absent : forall m rs r, ssorted m -> In r rs ->
  C01.spec_out (C01.spec_state m (Remove rs)) (Fetch r) = OErr ENotFound /\
  C01.spec_out (C01.spec_state m (Remove rs)) (Stat [r]) = OStat [] /\
  (forall k, ~ In k rs -> lookup k (C01.spec_state m (Remove rs)) = lookup k m).
Proof. exact C01.removed_is_absent. Qed.
Print Assumptions C01_removed_is_absent.

(* enumeration lists exactly the blobs present, each once, ascending, strictly after the cursor (any string),
   never more than the limit, with their true sizes *)
Theorem C01_enumerate_exact : forall m c n, ssorted m ->
  exists l, C01.spec_out m (Enum c n) = OEnum l /\ l = firstn n (after c (sized m)) /\
  ssorted l /\ (length l <= n)%nat /\
  (forall k sz, In (k, sz) l -> ltb c k = true /\ exists b, lookup k m = Some b /\ sz = [blen b]).
Proof. exact C01.enumerate_exact. Qed.
Print Assumptions C01_enumerate_exact.

(* ... so paging with any page size >= 1 from any cursor visits every blob after it exactly once *)
Theorem C01_paging_visits_all : forall m c limit fuel, ssorted m -> (1 <= limit)%nat -> (length m < fuel)%nat ->
  concat (pages fuel (sized m) c limit) = after c (sized m).
Proof. exact C01.paging_visits_all. Qed.
Print Assumptions C01_paging_visits_all.

(* the merge-join of sub-enumerations with duplicate suppression (tooLow) *)
Theorem C01_merged_enumerate_exact : forall srcs cursor limit, Forall ssorted srcs ->
  merged_enumerate srcs cursor limit = firstn limit (after cursor (union srcs)).
Proof. exact MergeLemmas.merged_enumerate_exact. Qed.
Print Assumptions C01_merged_enumerate_exact.

(* replica over ANY children that refine the map refines the map (content = the bytes a ref denotes) *)
Theorem C01_replica_refines : forall content T, C01.okl content T -> T <> [] ->
  C01.refines content (replica (map C01.tM T)) (C01.node_abs T) (C01.node_inv T).
Proof. exact C01.replica_refines. Qed.
Print Assumptions C01_replica_refines.

(* shard over ANY children that refine the map refines the map: a ref is written, read and removed in the one kid its
   digest routes to, stats and removals are split by route, enumeration merges all kids *)
Theorem C01_shard_refines : forall content T, C01.okl content T -> T <> [] ->
  C01.refines content (shard (map C01.tM T)) (C01.shard_abs T) (C01.shard_inv T).
Proof. exact C01.shard_refines. Qed.
Print Assumptions C01_shard_refines.

(* cond (schema blobs to both, everything else to a; read a; remove both) behaves as a *)
Theorem C01_cond_refines : forall content ta tb,
  C01.refines content (C01.tM ta) (C01.tA ta) (C01.tI ta) -> C01.refines content (C01.tM tb) (C01.tA tb) (C01.tI tb) ->
  C01.refines content (cond (C01.tM ta) (C01.tM tb)) (C01.cond_abs ta) (C01.cond_inv ta tb).
Proof. exact C01.cond_refines. Qed.
Print Assumptions C01_cond_refines.

(* proxycache behaves as its origin, given that the cache only ever holds blobs of the origin - an invariant every
   operation keeps, with the removal order cache-then-origin and the upload order origin-then-cache of the code *)
Theorem C01_proxycache_refines : forall content tc to,
  C01.refines content (C01.tM tc) (C01.tA tc) (C01.tI tc) -> C01.refines content (C01.tM to) (C01.tA to) (C01.tI to) ->
  C01.refines content (proxycache (C01.tM tc) (C01.tM to)) (C01.pc_abs to) (C01.pc_inv tc to).
Proof. exact C01.proxycache_refines. Qed.
Print Assumptions C01_proxycache_refines.

(* every nesting (any depth, any fan-out >= 1) of replicas, shards, cond and proxycache over removable leaves answers
   every operation sequence exactly like the reference map *)
Theorem C01_nest_behaves_as_map_partial : forall content c ops, C01.shape_ok c = true ->
  Forall (C01.op_ok content) ops -> run (sem c) (init c) ops = C01.run_spec [] ops.
Proof. exact C01.nest_behaves_as_map. Qed.
Print Assumptions C01_nest_behaves_as_map_partial.

Theorem C01_union_readonly : forall ms s o, (match o with Recv _ _ _ | Remove _ => True | _ => False end) ->
  match s with SNode _ _ => union_m ms s o = (s, OErr EReadonly) | _ => True end.
Proof. exact C01.union_rejects_writes. Qed.
Print Assumptions C01_union_readonly.

Theorem C01_subfetch_whole : forall b, subfetch b 0 (Z.of_nat (length b)) = Some b.
Proof. exact C01.subfetch_whole. Qed.
Print Assumptions C01_subfetch_whole.

(* non-vacuity: a four-level nesting of all four proved combinators meets the hypotheses and behaves as the map *)
Example C01_nonvacuous :
  let c := ProxyCache (Leaf true) (Shard [Replica [Replica [Leaf true; Leaf true]; Leaf true]; Cond (Leaf true) (Leaf true)]) in
  let ops := [Recv [1%N] [7%N] false; Recv [2%N] [8%N] true; Remove [[1%N]]; Enum [] 5; Fetch [2%N]] in
  C01.shape_ok c = true /\ Forall (C01.op_ok (fun r => match r with [1%N] => [7%N] | _ => [8%N] end)) ops /\
  run (sem c) (init c) ops = C01.run_spec [] ops /\
  last (run (sem c) (init c) ops) OOk = OBytes [8%N].
Proof. split; [reflexivity|]. split; [repeat constructor|]. split; vm_compute; reflexivity. Qed.
Print Assumptions C01_nonvacuous.

(* C01 — Every storage backend behaves as a content-addressed map.
   SPEC: the reference map ([spec_state]/[spec_out] on strictly sorted ref->bytes lists), which is literally the
   leaf machine.  MODEL: coq/Model/C01.v, the combinators transcribed from pkg/blobserver/*.
   Proved for all inputs: the laws of the statement on the SPEC; enumeration exactness and paging for every cursor
   string and page size; mergedEnumerate (used by replica, shard, union, overlay) = first `limit` of the sorted
   union for any number of sources; the replica, shard, cond and proxycache combinators each refine the SPEC whenever
   their children do (shard: under the invariant that every ref lives in the kid its digest routes to; proxycache:
   under the invariant that the cache holds only blobs of the origin; eviction is not modelled); so do namespace
   (abstraction: the master restricted to the inventory) and overlay with a deleted index (abstraction: upper and
   lower merged, minus the deleted refs; the refill loop of its enumeration is proved to return the first `limit`
   undeleted entries after the cursor, the number of rounds bounded by the number of entries held); hence (by
   induction on the configuration) every nesting of these six over leaves does, for every operation sequence.
   union is read-only (its reads refine the union of its members, its writes are refused: two theorems), overlay
   without a deleted index refuses removals: neither is a map and both stay outside the nesting theorem; leaves are maps here (their internals: C03, C04, C11). *)
From Coq Require Import List NArith ZArith Bool.
From PK.Base Require Import Bytes Lex SortedMap.
From PK.Model Require Import Merge C12 C01.
From PK.Proofs Require Import SortedMapLemmas Paging.
From PK.Proofs Require MergeLemmas C01 C01b.
Import ListNotations.

Theorem C01_fetch_after_receive : forall m r b sc, lookup r m = None ->
  C01.spec_out (C01.spec_state m (Recv r b sc)) (Fetch r) = OBytes b.
Proof. exact C01.fetch_after_receive. Qed.
Print Assumptions C01_fetch_after_receive.

Theorem C01_receive_again_noop : forall m r b b' sc sc',
  C01.spec_state (C01.spec_state m (Recv r b sc)) (Recv r b' sc') = C01.spec_state m (Recv r b sc).
Proof. exact C01.receive_again_noop. Qed.
Print Assumptions C01_receive_again_noop.

Theorem C01_receive_keeps_others : forall m r b sc k, k <> r -> lookup k (C01.spec_state m (Recv r b sc)) = lookup k m.
Proof. exact C01.receive_keeps_others. Qed.
Print Assumptions C01_receive_keeps_others.

Theorem C01_removed_is_absent : forall m rs r, ssorted m -> In r rs ->
  C01.spec_out (C01.spec_state m (Remove rs)) (Fetch r) = OErr ENotFound /\
  C01.spec_out (C01.spec_state m (Remove rs)) (Stat [r]) = OStat [] /\
  (forall k, ~ In k rs -> lookup k (C01.spec_state m (Remove rs)) = lookup k m).
Proof. exact C01.removed_is_absent. Qed.
Print Assumptions C01_removed_is_absent.

(* enumeration lists exactly the blobs present, each once, ascending, strictly after the cursor (any string),
   never more than the limit, with their true sizes *)
Theorem C01_enumerate_exact : forall m c n, ssorted m ->
  exists l, C01.spec_out m (Enum c n) = OEnum l /\ l = firstn n (after c (sized m)) /\
  ssorted l /\ (length l <= n)%nat /\
  (forall k sz, In (k, sz) l -> ltb c k = true /\ exists b, lookup k m = Some b /\ sz = [blen b]).
Proof. exact C01.enumerate_exact. Qed.
Print Assumptions C01_enumerate_exact.

(* ... so paging with any page size >= 1 from any cursor visits every blob after it exactly once *)
Theorem C01_paging_visits_all : forall m c limit fuel, ssorted m -> (1 <= limit)%nat -> (length m < fuel)%nat ->
  concat (pages fuel (sized m) c limit) = after c (sized m).
Proof. exact C01.paging_visits_all. Qed.
Print Assumptions C01_paging_visits_all.

(* the merge-join of sub-enumerations with duplicate suppression (tooLow) *)
Theorem C01_merged_enumerate_exact : forall srcs cursor limit, Forall ssorted srcs ->
  merged_enumerate srcs cursor limit = firstn limit (after cursor (union srcs)).
Proof. exact MergeLemmas.merged_enumerate_exact. Qed.
Print Assumptions C01_merged_enumerate_exact.

(* replica over ANY children that refine the map refines the map (content = the bytes a ref denotes) *)
Theorem C01_replica_refines : forall content T, C01.okl content T -> T <> [] ->
  C01.refines content (replica (map C01.tM T)) (C01.node_abs T) (C01.node_inv T).
Proof. exact C01.replica_refines. Qed.
Print Assumptions C01_replica_refines.

(* shard over ANY children that refine the map refines the map: a ref is written, read and removed in the one kid its
   digest routes to, stats and removals are split by route, enumeration merges all kids *)
Theorem C01_shard_refines : forall content T, C01.okl content T -> T <> [] ->
  C01.refines content (shard (map C01.tM T)) (C01.shard_abs T) (C01.shard_inv T).
Proof. exact C01.shard_refines. Qed.
Print Assumptions C01_shard_refines.

(* cond (schema blobs to both, everything else to a; read a; remove both) behaves as a *)
Theorem C01_cond_refines : forall content ta tb,
  C01.refines content (C01.tM ta) (C01.tA ta) (C01.tI ta) -> C01.refines content (C01.tM tb) (C01.tA tb) (C01.tI tb) ->
  C01.refines content (cond (C01.tM ta) (C01.tM tb)) (C01.cond_abs ta) (C01.cond_inv ta tb).
Proof. exact C01.cond_refines. Qed.
Print Assumptions C01_cond_refines.

(* proxycache behaves as its origin, given that the cache only ever holds blobs of the origin - an invariant every
   operation keeps, with the removal order cache-then-origin and the upload order origin-then-cache of the code *)
Theorem C01_proxycache_refines : forall content tc to,
  C01.refines content (C01.tM tc) (C01.tA tc) (C01.tI tc) -> C01.refines content (C01.tM to) (C01.tA to) (C01.tI to) ->
  C01.refines content (proxycache (C01.tM tc) (C01.tM to)) (C01.pc_abs to) (C01.pc_inv tc to).
Proof. exact C01.proxycache_refines. Qed.
Print Assumptions C01_proxycache_refines.

(* namespace behaves as the part of its master that its inventory names: removal only forgets the inventory row,
   a later upload of the same ref finds the bytes in the master and lists them again *)
Theorem C01_namespace_refines : forall content tm,
  C01.refines content (C01.tM tm) (C01.tA tm) (C01.tI tm) ->
  C01.refines content (namespace (C01.tM tm)) (C01b.ns_abs tm) (C01b.ns_inv tm).
Proof. exact C01b.namespace_refines. Qed.
Print Assumptions C01_namespace_refines.

(* overlay with a deleted index behaves as (lower merged with upper) minus the deleted refs: uploads go to the upper
   layer and un-delete, removals go to the upper layer and the deleted index, reads fall through, the enumeration's
   refill loop returns exactly the first `limit` undeleted entries after the cursor *)
Theorem C01_overlay_refines : forall content tl tu,
  C01.refines content (C01.tM tl) (C01.tA tl) (C01.tI tl) -> C01.refines content (C01.tM tu) (C01.tA tu) (C01.tI tu) ->
  C01b.bounded tl -> C01b.bounded tu ->
  C01.refines content (overlay true (C01.tM tl) (C01.tM tu)) (C01b.ov_abs tl tu) (C01b.ov_inv tl tu).
Proof. exact C01b.overlay_refines. Qed.
Print Assumptions C01_overlay_refines.

(* the refill loop on maps, for any number of rounds that exceeds the entries after the cursor *)
Theorem C01_overlay_refill_exact : forall fuel U d c n, ssorted U -> (length (after c U) < fuel)%nat ->
  C01b.ov_enum_spec fuel U d c n = firstn n (filter (not_deleted d) (after c U)).
Proof. exact C01b.ov_enum_spec_exact. Qed.
Print Assumptions C01_overlay_refill_exact.

(* ... and a bound on the rounds that depends on the limit alone is not enough (three deleted blobs in a row, limit 1,
   three rounds): the model's bound is the number of entries held *)
Theorem C01_overlay_refill_needs_rounds :
  let U := [([1%N], [1%N]); ([2%N], [1%N]); ([3%N], [1%N]); ([4%N], [1%N])] in
  let d := [([1%N], one); ([2%N], one); ([3%N], one)] in
  C01b.ov_enum_spec 3 U d [] 1 = [] /\ firstn 1 (filter (not_deleted d) (after [] U)) = [([4%N], [1%N])].
Proof. exact C01b.refill_needs_rounds. Qed.
Print Assumptions C01_overlay_refill_needs_rounds.

(* every nesting (any depth, any fan-out >= 1) of replicas, shards, cond, proxycache, namespace and overlay (with a
   deleted index) over removable leaves answers every operation sequence exactly like the reference map *)
Theorem C01_nest_behaves_as_map : forall content c ops, C01b.shape_ok c = true ->
  Forall (C01.op_ok content) ops -> run (sem c) (init c) ops = C01b.run_spec [] ops.
Proof. exact C01b.nest_behaves_as_map. Qed.
Print Assumptions C01_nest_behaves_as_map.

(* the read-only union: every read answers as the reference map of its members' union (the first member that holds a
   blob wins; under content addressing all holders agree), and leaves that map as it was *)
Theorem C01_union_reads_refine : forall content T, C01.okl content T -> forall s o, C01.node_inv T s -> C01b.is_read o ->
  C01.node_inv T (fst (union_m (map C01.tM T) s o)) /\
  C01.node_abs T (fst (union_m (map C01.tM T) s o)) = C01.node_abs T s /\
  snd (union_m (map C01.tM T) s o) = C01.spec_out (C01.node_abs T s) o.
Proof. exact C01b.union_reads_refine. Qed.
Print Assumptions C01_union_reads_refine.

Theorem C01_union_readonly : forall ms s o, (match o with Recv _ _ _ | Remove _ => True | _ => False end) ->
  match s with SNode _ _ => union_m ms s o = (s, OErr EReadonly) | _ => True end.
Proof. exact C01.union_rejects_writes. Qed.
Print Assumptions C01_union_readonly.

Theorem C01_subfetch_whole : forall b, subfetch b 0 (Z.of_nat (length b)) = Some b.
Proof. exact C01.subfetch_whole. Qed.
Print Assumptions C01_subfetch_whole.

(* non-vacuity: a nesting of all six proved combinators meets the hypotheses and behaves as the map *)
Example C01_nonvacuous :
  let c := ProxyCache (Leaf true) (Shard [Replica [Replica [Leaf true; Namespace (Leaf true)]; Leaf true];
                                          Overlay true (Cond (Leaf true) (Leaf true)) (Namespace (Leaf true))]) in
  let ops := [Recv [1%N] [7%N] false; Recv [2%N] [8%N] true; Remove [[1%N]]; Enum [] 5; Recv [1%N] [7%N] false; Remove [[2%N]];
              Enum [] 1; Fetch [1%N]; Recv [2%N] [8%N] true; Fetch [2%N]] in
  C01b.shape_ok c = true /\ Forall (C01.op_ok (fun r => match r with [1%N] => [7%N] | _ => [8%N] end)) ops /\
  run (sem c) (init c) ops = C01b.run_spec [] ops /\
  last (run (sem c) (init c) ops) OOk = OBytes [8%N].
Proof. split; [reflexivity|]. split; [repeat constructor|]. split; vm_compute; reflexivity. Qed.
Print Assumptions C01_nonvacuous.

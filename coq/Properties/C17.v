(* C17 — Without credentials, blobs are reachable only through a valid share chain. *)
From Coq Require Import String.
From Coq Require Import List NArith Bool.
From PK.Generated Require Import Consts.
From PK.Model Require Import C17.
From PK.Proofs Require C17.
Import ListNotations.

(* the link check of the source regenerated today consults every link field of the statement (file/bytes parts, directory
   entries, static-set members and sub-sets): as it is written, it is the SPEC's notion of link *)
Theorem C17_link_check_covers_all_fields : forall n, links_impl n = links_spec n.
Proof. intros [| |]; reflexivity. Qed.
Print Assumptions C17_link_check_covers_all_fields.

(* soundness: whatever the handler serves lies at the end of a valid share chain — an existing, undeleted, unexpired share
   claim, asked for itself, or its exact target, or (transitive shares only) a blob reached from the target through genuine
   schema links; only GET (and HEAD) *)
Theorem C17_sound : forall st deleted get chain b, serve links_impl st deleted get chain = VServed b ->
  get = true /\ C17.valid_chain st deleted chain /\ last chain 0%N = b /\ lookup b st <> None.
Proof. exact C17.sound_impl. Qed.
Print Assumptions C17_sound.

(* completeness: every blob so reachable is served *)
Theorem C17_complete : forall st deleted chain, C17.valid_chain st deleted chain -> lookup (last chain 0%N) st <> None ->
  serve links_impl st deleted true chain = VServed (last chain 0%N).
Proof. exact (C17.complete_impl C17_link_check_covers_all_fields). Qed.
Print Assumptions C17_complete.

(* a blob that merely mentions a ref (it is not a schema blob with link fields) authorises no hop *)
Theorem C17_mention_is_not_a_link : forall st cur nxt rest, lookup cur st = Some NOther -> hops links_impl st cur (nxt :: rest) = VUnauth.
Proof. exact C17.mention_impl. Qed.
Print Assumptions C17_mention_is_not_a_link.

(* the rule before the repair of D19 (sub-sets of a large directory's static-set not followed) refuses valid chains *)
Theorem C17_without_merge_sets_refuted :
  C17.valid_chain C17.d19_store [] [1; 2; 3; 4; 5]%N /\ serve C17.links_old C17.d19_store [] true [1; 2; 3; 4; 5]%N = VUnauth.
Proof. exact C17.without_merge_sets. Qed.
Print Assumptions C17_without_merge_sets_refuted.

(* every handler type registered anywhere under pkg/ (regenerated from the source) is wrapped by the auth handler, except
   the share handler (the subject of this property) and the root handler (which checks credentials itself) *)
Theorem C17_auth_table : forall t, In t registered_handler_types -> ~ In t C17.exempt_types -> In t handler_types_want_auth.
Proof. exact C17.auth_table. Qed.
Print Assumptions C17_auth_table.

Example C17_nonvacuous :
  let st := [(1, NShare 2 false false); (2, NSchema [3] [] [] []); (3, NOther); (4, NShare 2 true true); (5, NShare 2 true false)]%N in
  serve links_impl st [] true [1; 2]%N = VServed 2%N /\ serve links_impl st [] true [1; 2; 3]%N = VUnauth /\
  serve links_impl st [] true [5; 2; 3]%N = VServed 3%N /\ serve links_impl st [5]%N true [5; 2; 3]%N = VUnauth /\
  serve links_impl st [] true [4; 2]%N = VUnauth /\ serve links_impl st [] true [5; 3]%N = VUnauth /\
  serve links_impl st [] true [5; 2; 9]%N = VUnauth /\ serve links_impl st [] false [5; 2]%N = VBad.
Proof. repeat split; reflexivity. Qed.
Print Assumptions C17_nonvacuous.

(* C12 — Replicated writes are acknowledged only at quorum; reads survive replica loss. *)
From Coq Require Import List NArith Bool Permutation.
From PK.Base Require Import Bytes Lex SortedMap.
From PK.Model Require Import Merge C12.
From PK.Proofs Require Import SortedMapLemmas.
From PK.Proofs Require C12.
Import ListNotations.
Local Open Scope N_scope.

(* for every replica count, every minWritesForSuccess in 1..n, every pattern of failing / mis-sizing replicas and
   every arrival order of their answers: success iff at least minw replicas stored the blob with the right size;
   otherwise an error; and at the moment of the acknowledgement minw correct stores have already been reported *)
Theorem C12_ack_iff_quorum : forall minw size arrivals, (1 <= minw)%nat -> (minw <= length arrivals)%nat ->
  ((exists sz, receive_tally minw size arrivals = Ack sz) <-> (minw <= count_good size arrivals)%nat) /\
  (receive_tally minw size arrivals = Fail <-> (count_good size arrivals < minw)%nat) /\
  (forall sz, receive_tally minw size arrivals = Ack sz -> sz = size /\
     exists p q, arrivals = p ++ q /\ count_good size p = minw).
Proof. exact C12.ack_iff_quorum. Qed.
Print Assumptions C12_ack_iff_quorum.

(* slowness = a different arrival order: the verdict does not depend on it *)
Theorem C12_ack_order_independent : forall minw size a a', (1 <= minw)%nat -> (minw <= length a)%nat -> Permutation a a' ->
  ((exists sz, receive_tally minw size a = Ack sz) <-> (exists sz, receive_tally minw size a' = Ack sz)).
Proof. exact C12.ack_order_independent. Qed.
Print Assumptions C12_ack_order_independent.

(* a blob is fetchable iff at least one read replica holds it, and what is returned is some replica's copy *)
Theorem C12_fetch_survives : forall answers,
  (fetch_first answers <> None <-> exists b, In (Some b) answers) /\
  (forall b, fetch_first answers = Some b -> In (Some b) answers).
Proof. exact C12.fetch_survives. Qed.
Print Assumptions C12_fetch_survives.

(* stat: whatever the overlap of the replicas and the interleaving of their callbacks, each requested ref that some
   replica reports is reported exactly once, and nothing else is *)
Theorem C12_stat_once : forall events need,
  NoDup (map fst (stat_dedupe need events)) /\
  (forall k, In k (map fst (stat_dedupe need events)) <-> (In k need /\ In k (map fst events))) /\
  (forall p, In p (stat_dedupe need events) -> In p events).
Proof. exact C12.stat_once. Qed.
Print Assumptions C12_stat_once.

(* enumerate: the first [limit] refs after the cursor of the sorted union of the read replicas, each once *)
Theorem C12_enumerate_once : forall readers cursor limit, Forall ssorted readers ->
  replica_enumerate readers cursor limit = firstn limit (after cursor (union readers)).
Proof. exact C12.enumerate_once. Qed.
Print Assumptions C12_enumerate_once.

Theorem C12_union_membership : forall k rs, Forall ssorted rs ->
  (lookup k (union rs) <> None <-> exists r, In r rs /\ lookup k r <> None).
Proof. exact C12.lookup_union. Qed.
Print Assumptions C12_union_membership.

Example C12_nonvacuous :
  receive_tally 2 5 [RErr; ROk 5; ROk 4; ROk 5] = Ack 5 /\ receive_tally 3 5 [RErr; ROk 5; ROk 4; ROk 5] = Fail /\
  replica_enumerate [[([1], [9]); ([3], [9])]; [([2], [9]); ([3], [9])]] [1] 2 = [([2], [9]); ([3], [9])].
Proof. vm_compute. repeat split; reflexivity. Qed.
Print Assumptions C12_nonvacuous.

(* C15 — Files and directories written as schema blobs read back exactly. *)
From Coq Require Import List NArith Bool Arith.
From PK.Generated Require Import Consts.
From PK.Model Require Import C15.
From PK.Proofs Require C15.
Import ListNotations.

(* reading any range of any well-formed file/bytes part tree (offsets and sub-ranges into blobs, holes, nested
   bytes blobs to any depth) returns exactly the bytes doc/schema/bytes.md denotes *)
Theorem C15_read_at : forall ps off want, wf_parts ps = true ->
  read_at ps off want = firstn want (skipn off (denote ps)).
Proof. exact C15.read_at_exact. Qed.
Print Assumptions C15_read_at.

(* the chunker, for every content length, every rolling-checksum behaviour and every moment at which the source
   reports EOF: the chunks tile the content in order, none is empty, none exceeds the chunk size limit *)
Theorem C15_chunks_partition : forall maxb firstc small o, (1 <= maxb)%N -> forall total,
  C15.contig maxb (chunks maxb firstc small o total) 0%N total.
Proof. exact C15.chunks_partition. Qed.
Print Assumptions C15_chunks_partition.

(* the span tree (and hence the parts of the file schema, children before their span's own chunk) lists the chunks
   in file order *)
Theorem C15_tree_flatten : forall cuts, flatten_stack (build_tree cuts) = map (fun c => (c_from c, c_to c)) cuts.
Proof. exact C15.tree_flatten. Qed.
Print Assumptions C15_tree_flatten.

(* a directory listing spread over sub static-sets lists exactly the original members, in order ... *)
Theorem C15_static_set : forall m, 3 <= m -> forall fuel members, length members <= fuel ->
  set_members (split_set fuel m members) = members.
Proof. exact C15.split_set_members. Qed.
Print Assumptions C15_static_set.

(* ... and no emitted set has more than M entries *)
Theorem C15_static_set_width : forall m, 3 <= m -> forall fuel members, length members <= fuel -> 0 < fuel ->
  max_width (split_set fuel m members) <= m.
Proof. exact C15.split_set_width. Qed.
Print Assumptions C15_static_set_width.

(* the generated constants meet the hypotheses used above *)
Theorem C15_constants : (1 <= chunk_max_blob_size)%N /\ 3 <= N.to_nat max_static_set_members.
Proof. split; [vm_compute; discriminate|]. apply Nat.leb_le. vm_compute. reflexivity. Qed.
Print Assumptions C15_constants.

Example C15_nonvacuous :
  let ps := [Sub 3 1 [Blob 2 1 [9; 8; 7]; Hole 1; Blob 2 0 [5; 6]]%N; Blob 1 2 [1; 2; 3]%N] in
  wf_parts ps = true /\ denote ps = [7; 0; 5; 3]%N /\ read_at ps 1 2 = [0; 5]%N /\
  set_members (split_set 20 3 (map N.of_nat (seq 0 14))) = map N.of_nat (seq 0 14).
Proof. vm_compute. repeat split; reflexivity. Qed.
Print Assumptions C15_nonvacuous.

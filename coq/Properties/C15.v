(* placeholder *)

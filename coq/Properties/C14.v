(* C14 — Concurrent clients see linearizable, race-free stores and index.
   What is proved is the judge applied to every observed history; schedules and the race detector are runtime facts
   (level: exploration judged by a proved checker). *)
From Coq Require Import List NArith Bool Arith Permutation.
From PK.Generated Require Import Consts.
From PK.Model Require Import C14.
From PK.Proofs Require C14.
Import ListNotations.

(* accepted => there is a sequential ordering of all the calls on the ref, respecting real time, whose answers are the
   reference map's *)
Theorem C14_checker_sound : forall b l, lin_check b l = true ->
  exists s, Permutation s l /\ valid_seq b s = true /\ respects_rt s = true.
Proof. exact C14.lin_check_sound. Qed.
Print Assumptions C14_checker_sound.

(* rejected => there is none (no fuel escape: the fuel is the number of calls) *)
Theorem C14_checker_complete : forall b l s, Permutation s l -> valid_seq b s = true -> respects_rt s = true -> lin_check b l = true.
Proof. exact C14.lin_check_complete. Qed.
Print Assumptions C14_checker_complete.

(* a witness handed over by the harness is checked, not believed *)
Theorem C14_witness_checked : forall b l s, check_witness b l s = true ->
  Permutation s l /\ valid_seq b s = true /\ respects_rt s = true.
Proof. exact C14.check_witness_sound. Qed.
Print Assumptions C14_witness_checked.

(* a store that is linearizable as a whole — enumerations included, each an atomic read of the whole set — is accepted
   ref by ref: the per-ref reading never raises an alarm on a correct store *)
Theorem C14_linearizable_store_accepted : forall (h s : list gcall) st, Permutation s h -> g_valid st s -> g_respects_rt s = true ->
  forall k, lin_check (st k) (project k h) = true.
Proof. exact C14.linearizable_store_accepted. Qed.
Print Assumptions C14_linearizable_store_accepted.

(* calls made atomic by a lock produce only accepted histories *)
Theorem C14_atomic_model_linearizable : forall b s, valid_seq b s = true -> respects_rt s = true -> forall l, Permutation s l -> lin_check b l = true.
Proof. exact C14.atomic_histories_accepted. Qed.
Print Assumptions C14_atomic_model_linearizable.

(* overlay's two writers (an upload: upper layer, then clear the deleted mark; a removal: upper layer, then set the mark)
   take the store's mutex in today's source (regenerated flags); serialized, the blob is there exactly if the last
   writer was an upload; interleaved - the pre-repair code, D50 - an upload running between the two steps of a removal is
   lost, and the judge rejects the history the harness observed then *)
Theorem C14_overlay_writers_source : overlay_receive_serialized = true /\ overlay_remove_serialized = true.
Proof. split; reflexivity. Qed.
Print Assumptions C14_overlay_writers_source.

Theorem C14_overlay_serialized_writers : forall ops s o,
  ov_present (ov_run s (flat_map ov_atomic (ops ++ [o]))) = match o with OvRecv => true | OvRem => false end.
Proof. exact C14.ov_serial_last. Qed.
Print Assumptions C14_overlay_serialized_writers.

Theorem C14_overlay_interleaved_writers_refuted :
  let s0 := {| ov_up := true; ov_del := false |} in
  ov_present (ov_run s0 [RemUpper]) = false /\
  ov_present (ov_run s0 [RemUpper; RecvUpper; RecvClear; RemMark]) = false /\
  lin_check true [ {| c_inv := 1; c_ret := 6; c_op := KRemove; c_res := true |};
                   {| c_inv := 2; c_ret := 3; c_op := KRead; c_res := false |};
                   {| c_inv := 4; c_ret := 5; c_op := KReceive; c_res := true |};
                   {| c_inv := 7; c_ret := 8; c_op := KRead; c_res := false |} ] = false.
Proof. exact C14.ov_interleaved_loses_upload. Qed.
Print Assumptions C14_overlay_interleaved_writers_refuted.

(* non-vacuity: a read that misses an upload which had returned before it began is rejected; the same read overlapping the
   upload is accepted; a read that still sees a blob after its removal returned is rejected *)
Example C14_judge_examples :
  lin_check false [ {| c_inv := 1; c_ret := 2; c_op := KReceive; c_res := true |};
                    {| c_inv := 3; c_ret := 4; c_op := KRead; c_res := false |} ] = false
  /\ lin_check false [ {| c_inv := 1; c_ret := 4; c_op := KReceive; c_res := true |};
                       {| c_inv := 2; c_ret := 3; c_op := KRead; c_res := false |} ] = true
  /\ lin_check false [ {| c_inv := 1; c_ret := 2; c_op := KReceive; c_res := true |};
                       {| c_inv := 3; c_ret := 6; c_op := KRemove; c_res := true |};
                       {| c_inv := 4; c_ret := 5; c_op := KRead; c_res := true |};
                       {| c_inv := 7; c_ret := 8; c_op := KRead; c_res := true |} ] = false.
Proof. exact C14.stale_read_rejected. Qed.
Print Assumptions C14_judge_examples.

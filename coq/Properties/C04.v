(* C04 — Packing files into zips is invisible to clients and recoverable from the zips. *)
From Coq Require Import List NArith Bool.
From PK.Generated Require Import Consts.
From PK.Model Require Import C04.
From PK.Proofs Require C04.
Import ListNotations.

(* Whatever prefix of the writes of a pack was executed — zip stored, meta batch committed, loose blobs removed, per zip,
   and the final whole-file row; i.e. wherever the process died — every logical blob is fetched and enumerated (once: the
   visible predicate is a set) exactly as before the pack started, and the meta rows still point into stored zips. *)
Theorem C04_pack_invisible : forall zs w s k, C04.Inv s -> C04.fresh_zips (large s) zs ->
  (forall z bl r, In (z, bl) zs -> memN r bl = true -> fetch s r = FOk /\ visible s r = true) ->
  C04.same_view s (exec s (firstn k (pack_writes w zs))) /\ C04.Inv (exec s (firstn k (pack_writes w zs))).
Proof. exact C04.pack_invisible. Qed.
Print Assumptions C04_pack_invisible.

(* Recovery from the zips alone, fast or full: every blob that was served is still served. *)
Theorem C04_reindex_keeps_serving : forall full s r, C04.Inv s -> C04.functional_large (large s) -> fetch s r = FOk -> fetch (reindex full s) r = FOk.
Proof. exact C04.reindex_keeps_serving. Qed.
Print Assumptions C04_reindex_keeps_serving.

(* the source regenerated today removes the loose copy of every removed blob, packed or not *)
Theorem C04_source_removes_loose_copies : bp_remove_loose_of_all = true.
Proof. reflexivity. Qed.
Print Assumptions C04_source_removes_loose_copies.

(* a removal removes the blob from the client's view and leaves every other blob alone *)
Theorem C04_remove_exact : forall s r, (fetch (remove true s r) r = FMissing /\ visible (remove true s r) r = false) /\
  forall r', r' <> r -> fetch (remove true s r) r' = fetch s r' /\ visible (remove true s r) r' = visible s r'.
Proof. exact C04.remove_exact. Qed.
Print Assumptions C04_remove_exact.

(* ... which the pre-repair rule did not achieve (D8) *)
Theorem C04_old_remove_refuted :
  let s := exec st0 [WStoreLarge 9 [1; 2]; WCommitMeta 9 [1; 2]]%N in
  let s0 := {| small := [1; 2]%N; large := large s; brow := brow s; zrow := zrow s; wrow := wrow s |} in
  fetch (remove false s0 1%N) 1%N = FOk /\ visible (remove false s0 1%N) 1%N = true /\ fetch (remove true s0 1%N) 1%N = FMissing.
Proof. exact C04.remove_packed_only_keeps_loose_copy. Qed.
Print Assumptions C04_old_remove_refuted.

(* "with all later removals": false of the code — recovery forgets removals (finding D9) *)
Theorem C04_recovery_after_removal_refuted :
  let s := remove true (exec st0 [WStoreLarge 9 [1; 2]; WCommitMeta 9 [1; 2]]%N) 1%N in
  fetch s 1%N = FMissing /\ visible s 1%N = false /\ fetch (reindex false s) 1%N = FOk /\ visible (reindex true s) 1%N = true.
Proof. exact C04.reindex_resurrects_removed_blob. Qed.
Print Assumptions C04_recovery_after_removal_refuted.

Example C04_nonvacuous :
  let s := fold_left receive [1; 2; 3; 4; 5]%N st0 in
  let zs := [(100, [1; 2; 5]); (101, [3; 4; 5])]%N in
  C04.fresh_zips (large s) zs /\
  forallb (fun r => match fetch s r with FOk => visible s r | _ => false end) [1; 2; 3; 4; 5]%N = true /\
  small (exec s (firstn 3 (pack_writes 9 zs))) = [4; 3]%N /\ map fst (brow (exec s (firstn 5 (pack_writes 9 zs)))) = [3; 4; 5; 1; 2; 5]%N /\
  forallb (fun r => match fetch (exec s (firstn 5 (pack_writes 9 zs))) r with FOk => true | _ => false end) [1; 2; 3; 4; 5]%N = true.
Proof. vm_compute. repeat split; reflexivity. Qed.
Print Assumptions C04_nonvacuous.

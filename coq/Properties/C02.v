(* C02 — Only bytes matching their blobref, within the size cap, are ever accepted.
   [hm rd n] stands for "the first n bytes of the offered stream hash to the offered ref under the ref's own hash
   function" — the theorems hold for every such predicate, i.e. need no assumption on the hash.  [maxb] is any limit;
   the correspondence instantiates it with the generated MaxBlobSize. *)
From Coq Require Import List NArith Bool.
From PK.Model Require Import C02.
From PK.Proofs Require C02.
Import ListNotations.
Local Open Scope N_scope.

(* accepted => supported hash, the consumed bytes (the stream, cut at the limit) hash to the ref, are within the limit,
   the stream ended cleanly unless it was cut, the reported size is the consumed length, observers are told once *)
Theorem C02_accept_sound : forall maxb supported s r rd s' n, receive maxb supported s r rd = (s', VOk n) ->
  supported = true /\ n = N.min (total rd) maxb /\ n <= maxb /\ hm rd n = true /\
  (total rd < maxb -> fin rd = TEof) /\ lookup_ref r s' <> None /\ hub s' = r :: hub s.
Proof. exact C02.accept_sound. Qed.
Print Assumptions C02_accept_sound.

(* any rejection (corrupt / unsupported / source error) leaves the store and its observers exactly as they were *)
Theorem C02_reject_invisible : forall maxb supported s r rd s' v, receive maxb supported s r rd = (s', v) ->
  (forall n, v <> VOk n) -> s' = s.
Proof. exact C02.reject_invisible. Qed.
Print Assumptions C02_reject_invisible.

Theorem C02_accept_complete : forall maxb s r rd, total rd < maxb -> fin rd = TEof -> hm rd (total rd) = true ->
  exists s', receive maxb true s r rd = (s', VOk (total rd)).
Proof. exact C02.accept_complete. Qed.
Print Assumptions C02_accept_complete.

Theorem C02_oversize_rejected : forall maxb s r rd, maxb <= total rd -> hm rd maxb = false ->
  receive maxb true s r rd = (s, VCorrupt).
Proof. exact C02.oversize_rejected. Qed.
Print Assumptions C02_oversize_rejected.

Theorem C02_unsupported_rejected_unread : forall maxb s r rd, receive maxb false s r rd = (s, VUnsupported).
Proof. exact C02.unsupported_rejected_unread. Qed.
Print Assumptions C02_unsupported_rejected_unread.

Theorem C02_present_untouched : forall maxb supported s r rd s' v q, receive maxb supported s r rd = (s', v) ->
  lookup_ref q s <> None -> lookup_ref q s' = lookup_ref q s.
Proof. exact C02.present_untouched. Qed.
Print Assumptions C02_present_untouched.

Theorem C02_put_status : forall maxb cl parses supported s r rd s' st,
  put_handler maxb cl parses supported s r rd = (s', st) ->
  (st = S204 -> exists n, receive maxb supported s r rd = (s', VOk n) /\ parses = true /\ supported = true /\
                          match cl with Some c => c <= maxb | None => True end) /\
  (st <> S204 -> s' = s).
Proof. exact C02.put_status. Qed.
Print Assumptions C02_put_status.

Theorem C02_multipart_lists_only_received : forall maxb ps s s' l, multipart maxb s ps = (s', l) ->
  (forall x, In x (C02.keys s') -> In x (C02.keys s) \/ In x (map fst l)) /\
  (forall x, In x (map fst l) -> In x (C02.keys s')) /\
  (forall x, In x (C02.keys s) -> In x (C02.keys s')).
Proof. exact C02.multipart_lists_only_received. Qed.
Print Assumptions C02_multipart_lists_only_received.

Example C02_nonvacuous :
  let rd := {| total := 5; fin := TEof; hm := fun n => n =? 5 |} in
  let bad := {| total := 6; fin := TEof; hm := fun n => n =? 5 |} in
  snd (receive 16 true {| present := []; hub := [] |} 1 rd) = VOk 5 /\
  snd (receive 16 true {| present := []; hub := [] |} 1 bad) = VCorrupt /\
  snd (receive 4 true {| present := []; hub := [] |} 1 rd) = VCorrupt.
Proof. vm_compute. repeat split; reflexivity. Qed.
Print Assumptions C02_nonvacuous.

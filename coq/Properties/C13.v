(* C13 — A transient lower-layer failure fails one call and nothing else. *)
From Coq Require Import List NArith Bool Arith.
From PK.Generated Require Import Consts.
From PK.Model Require Import C13.
From PK.Proofs Require C13.
Import ListNotations.

(* The judge used on every observed history: it accepts exactly the histories whose answers are the reference map's under
   SOME reading of each failed call as "took effect" or "did not" — nothing half-visible, nothing lost, no sticky error. *)
Theorem C13_judge_sound : forall h s, explain s h = true -> exists choices, run_with choices s h = true.
Proof. exact C13.explain_sound. Qed.
Print Assumptions C13_judge_sound.

Theorem C13_judge_complete : forall h choices s, run_with choices s h = true -> explain s h = true.
Proof. exact C13.explain_complete. Qed.
Print Assumptions C13_judge_complete.

(* the source regenerated today: the stat helper looks at the cancellation before it takes a gate slot, and diskpacked
   writes the index row before it rolls over to the next pack *)
Theorem C13_source_flags : stat_helper_checks_before_start = true /\ dp_append_index_before_rollover = true.
Proof. split; reflexivity. Qed.
Print Assumptions C13_source_flags.

(* then every gate slot taken is given back, for every list of blobs, every failing worker and every moment at which the
   loop notices the failure: no later stat can block on a slot lost by a failed one *)
Theorem C13_gates_balanced : forall its, leaked true its = 0%nat.
Proof. exact C13.gate_balanced. Qed.
Print Assumptions C13_gates_balanced.

Theorem C13_old_gate_order_refuted :
  leaked false [{| sees_cancel := false; result := WError |}; {| sees_cancel := true; result := WFound |}] = 1%nat /\
  leaked true [{| sees_cancel := false; result := WError |}; {| sees_cancel := true; result := WFound |}] = 0%nat.
Proof. exact C13.gate_leaks_when_started_first. Qed.
Print Assumptions C13_old_gate_order_refuted.

(* diskpacked: a failed index write leaves the pack files exactly as they were — also when the append filled the pack —
   and appends keep the packs walkable by the recovery procedure *)
Theorem C13_append_index_failure_undone : forall max s r, append true max s r false = s.
Proof. exact C13.append_index_failure_undone. Qed.
Print Assumptions C13_append_index_failure_undone.

Theorem C13_append_keeps_recoverable : forall max s r ok, r <> 0%N -> walks s = true -> walks (append true max s r ok) = true.
Proof. exact C13.append_keeps_walkable. Qed.
Print Assumptions C13_append_keeps_recoverable.

Theorem C13_old_rollover_order_refuted :
  let s := {| packs := [[1; 2]%N]; rows := [2; 1]%N |} in
  walks (append false 2 s 3%N false) = false /\ walks (append true 2 s 3%N false) = true /\ append true 2 s 3%N false = s.
Proof. exact C13.rollover_then_index_failure_breaks_walk. Qed.
Print Assumptions C13_old_rollover_order_refuted.

Example C13_nonvacuous :
  explain [] [(Receive 1, OAck); (Receive 2, OFailed); (Stat 2, OPresent true); (Remove 1, OFailed); (Enum, OList [2; 1]); (Fetch 1, OPresent true)]%N = true /\
  explain [] [(Receive 1, OAck); (Remove 1, OFailed); (Stat 1, OPresent false); (Fetch 1, OPresent true)]%N = false /\
  explain [] [(Receive 1, OFailed); (Enum, OList [1]); (Stat 1, OPresent false)]%N = false.
Proof. repeat split; reflexivity. Qed.
Print Assumptions C13_nonvacuous.

(* encrypt: the source regenerated today records the meta blob before it sets the index row; then, for every sequence of
   uploads and every choice of failing write, every acknowledged upload is served and survives the meta re-scan *)
Theorem C13_encrypt_source_order : enc_meta_before_index = true.
Proof. reflexivity. Qed.
Print Assumptions C13_encrypt_source_order.

Theorem C13_encrypt_acked_survive_rebuild : forall l s, incl (e_index s) (e_metas s) ->
  let '(s', acks) := enc_run enc_meta_before_index s l in
  incl (e_index s') (e_metas s') /\ (forall x, In x (e_index s) -> In x (e_index s')) /\
  forall r, In r acks -> enc_serves s' r = true /\ enc_serves (enc_rebuild s') r = true.
Proof. exact C13.enc_acked_survive_rebuild. Qed.
Print Assumptions C13_encrypt_acked_survive_rebuild.

Theorem C13_encrypt_index_first_refuted :
  let '(s', acks) := enc_run false {| e_metas := []; e_index := [] |} [(7, EFailMeta); (7, ENoFail)] in
  acks = [7] /\ enc_serves s' 7 = true /\ enc_serves (enc_rebuild s') 7 = false.
Proof. exact C13.enc_index_first_loses. Qed.
Print Assumptions C13_encrypt_index_first_refuted.

(* C07 — Permanode attributes and deletions follow the documented claim semantics.
   SPEC [attr_at]: apply, in claim-date order, the signer's non-deleted set/add/del-attribute claims dated <= T.
   The faithful model of the corpus paths ignores deletions of attribute claims and describe de-duplicates /
   drops empty values: the full statement is therefore _refuted for those paths (KNOWN findings D5, D21) and proved
   under the guards that exclude them. *)
From Coq Require Import List NArith ZArith Bool.
From PK.Model Require Import C07.
From PK.Proofs Require C07.
Import ListNotations.

(* the incrementally maintained cache, for EVERY arrival order of the claims (distinct dates), is what rebuilding it
   from the date-sorted claims gives: out-of-order arrival never leaves a stale cache *)
Theorem C07_cache_is_fold : forall arrival, arrival <> [] -> C07.dates_distinct arrival ->
  add_claims arrival = Some (restore_invariants arrival).
Proof. exact C07.cache_is_fold. Qed.
Print Assumptions C07_cache_is_fold.

(* the historical-time loops over the claims compute the documented fold — but without consulting deletions *)
Theorem C07_fallback_partial : forall claims at_ sf attr,
  fallback_values (sort_by_date claims) at_ sf attr = attr_at claims (fun _ => false) at_ sf attr.
Proof. exact C07.fallback_is_spec_without_deletions. Qed.
Print Assumptions C07_fallback_partial.

(* full statement for the corpus paths: false of the faithful model (a deleted claim still counts) *)
Theorem C07_corpus_path_refuted : exists arrival deleted pm, add_claims arrival = Some pm /\
  corpus_values pm None 0%N 1%N <> attr_at arrival deleted None 0%N 1%N.
Proof.
  destruct C07.corpus_ignores_deletions as (pm & A & B).
  exists [C07.w_set; C07.w_add], (fun r => N.eqb r 2), pm. split; assumption.
Qed.
Print Assumptions C07_corpus_path_refuted.

Theorem C07_describe_path_refuted : exists claims,
  describe_values claims (fun _ => false) None 0%N 1%N <> attr_at claims (fun _ => false) None 0%N 1%N.
Proof. exists [C07.w_set; C07.w_add_dup]. exact C07.describe_dedups. Qed.
Print Assumptions C07_describe_path_refuted.

(* deleted = targeted by a delete claim that is not itself deleted: on a ranked (acyclic) delete graph this equation has
   exactly one solution, and the recursive test of index and corpus computes it, for chains of any depth *)
Theorem C07_deleted_unique : forall d (rank : N -> nat) f,
  (forall x r, In (x, r) d -> rank x < rank r) -> C07.del_equation d f ->
  forall fuel r, rank r < fuel -> is_deleted fuel d r = f r.
Proof. exact C07.is_deleted_unique. Qed.
Print Assumptions C07_deleted_unique.

Theorem C07_deleted_solves : forall d (rank : N -> nat) fuel,
  (forall x r, In (x, r) d -> rank x < rank r) -> (forall r, rank r < fuel) -> C07.del_equation d (is_deleted fuel d).
Proof. exact C07.is_deleted_solves. Qed.
Print Assumptions C07_deleted_solves.

Example C07_nonvacuous :
  let a := {| c_ref := 1; c_signer := 1; c_date := 30; c_kind := KAdd; c_attr := 1; c_val := 2 |}%N%Z in
  let b := {| c_ref := 2; c_signer := 2; c_date := 10; c_kind := KSet; c_attr := 1; c_val := 1 |}%N%Z in
  let c := {| c_ref := 3; c_signer := 1; c_date := 20; c_kind := KDel; c_attr := 1; c_val := 1 |}%N%Z in
  C07.dates_distinct [a; b; c] /\ add_claims [a; b; c] = Some (restore_invariants [a; b; c]) /\
  attr_at [a; b; c] (fun _ => false) None 0%N 1%N = [2%N] /\
  is_deleted 4 [(5, 1); (6, 5); (7, 6)]%N 1%N = true /\ is_deleted 4 [(5, 1); (6, 5)]%N 1%N = false.
Proof. split; [repeat constructor; cbn; intuition discriminate|]. vm_compute. repeat split; reflexivity. Qed.
Print Assumptions C07_nonvacuous.

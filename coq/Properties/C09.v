(* C09 — Paging through search results neither skips nor repeats anything. *)
From Coq Require Import List NArith ZArith Bool.
From PK.Generated Require Import Consts.
From PK.Model Require Import C09.
From PK.Proofs Require C09.
Import ListNotations.

(* the continue constraint selects exactly the items that come after the token in enumeration order *)
Theorem C09_token_constraint_is_order : forall tok x, after_token tok x = before tok x.
Proof. exact C09.after_token_is_before. Qed.
Print Assumptions C09_token_constraint_is_order.

(* following continuation tokens returns the full ordered result exactly once, page by page, for every page size >= 1,
   for arbitrary (tied, negative = pre-1970, sub-second) times; no page exceeds the limit *)
Theorem C09_pages_exact : forall limit l fuel, (1 <= limit)%nat -> C09.bsorted l -> (length l < fuel)%nat ->
  concat (follow true fuel l None limit) = l /\ Forall (fun p => (length p <= limit)%nat) (follow true fuel l None limit).
Proof. exact C09.pages_exact. Qed.
Print Assumptions C09_pages_exact.

(* the code regenerated from the source today reads the token's time as a signed number *)
Theorem C09_token_time_signed : continue_token_signed = true.
Proof. reflexivity. Qed.
Print Assumptions C09_token_time_signed.

(* ... which matters: read as unsigned (the code before the repair of D10) the first page repeats for ever *)
Theorem C09_unsigned_refuted : exists l, C09.bsorted l /\ concat (follow false 5 l None 1) <> l.
Proof. eexists. exact C09.unsigned_tokens_repeat. Qed.
Print Assumptions C09_unsigned_refuted.

(* the 'around' window *)
Theorem C09_around_window : forall limit pivot matches, (1 <= limit)%nat -> NoDup matches ->
  (In pivot matches -> C09.infix (around limit pivot matches) matches /\ In pivot (around limit pivot matches) /\
                       (length (around limit pivot matches) <= limit)%nat) /\
  (~ In pivot matches -> around limit pivot matches = []).
Proof. exact C09.around_window. Qed.
Print Assumptions C09_around_window.

Example C09_nonvacuous :
  let l := [(5, 3%N); (5, 1%N); (-2, 7%N); (-2, 4%N); (-9, 2%N)]%Z in
  C09.bsorted l /\ concat (follow true 9 l None 2) = l /\ length (follow true 9 l None 2) = 3%nat /\
  around 3 7%N [3; 1; 7; 4; 2]%N = [1; 7; 4]%N.
Proof. split; [repeat constructor|]. vm_compute. repeat split; reflexivity. Qed.
Print Assumptions C09_nonvacuous.

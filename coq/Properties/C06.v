(* C06 — Live index and corpus always equal what a restart would load.
   The theorems are about the two pieces of derived state whose incremental maintenance differs from their rebuild:
   the per-permanode attribute cache and the deletes cache (models of coq/Model/C07.v).  Every other exported lookup
   is a direct function of the rows in both cases; for those the check compares live and reloaded answers at every
   prefix of every history (correspondence only). *)
From Coq Require Import List NArith ZArith Bool Permutation.
From PK.Model Require Import C07.
From PK.Proofs Require C07 C06.
Import ListNotations.

Theorem C06_attr_cache_live_eq_load : forall arrival rows, arrival <> [] -> C07.dates_distinct arrival ->
  Permutation arrival rows -> add_claims arrival = Some (restore_invariants rows).
Proof. exact C06.live_eq_load. Qed.
Print Assumptions C06_attr_cache_live_eq_load.

Theorem C06_values_live_eq_load : forall arrival rows pm at_ sf attr, arrival <> [] -> C07.dates_distinct arrival ->
  Permutation arrival rows -> add_claims arrival = Some pm ->
  corpus_values pm at_ sf attr = corpus_values (restore_invariants rows) at_ sf attr.
Proof. exact C06.values_live_eq_load. Qed.
Print Assumptions C06_values_live_eq_load.

Theorem C06_deleted_live_eq_load : forall d d', Permutation d d' -> forall fuel r, is_deleted fuel d r = is_deleted fuel d' r.
Proof. exact C06.is_deleted_perm. Qed.
Print Assumptions C06_deleted_live_eq_load.

Example C06_nonvacuous :
  let a := {| c_ref := 1; c_signer := 1; c_date := 30; c_kind := KAdd; c_attr := 1; c_val := 2 |}%N%Z in
  let b := {| c_ref := 2; c_signer := 2; c_date := 10; c_kind := KSet; c_attr := 1; c_val := 1 |}%N%Z in
  add_claims [a; b] = Some (restore_invariants [b; a]) /\
  is_deleted 3 [(5, 1); (6, 5)]%N 1%N = is_deleted 3 [(6, 5); (5, 1)]%N 1%N.
Proof. vm_compute. split; reflexivity. Qed.
Print Assumptions C06_nonvacuous.

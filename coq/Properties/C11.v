(* C11 — The encrypting store leaks no plaintext, detects tampering, and is recoverable. *)
From Coq Require Import List NArith Bool.
From PK.Generated Require Import Consts.
From PK.Model Require Import C11.
From PK.Proofs Require C11.
Import ListNotations.

(* What is NOT proved here: that ciphertext bytes reveal nothing about the plaintext.  In the model everything written to
   the wrapped stores is a symbolic ciphertext named by itself (its hash); that this is so of the code is what the
   correspondence run and its raw scan of every byte and name written below the store check. *)

(* Tampering.  After any history of receives, compactions, restarts and adversarial edits of the wrapped stores — the
   adversary can put junk or a copy of any stored ciphertext under any name — Fetch p returns p's plaintext, or fails. *)
Theorem C11_fetch_exact_or_fail : forall small_limit full_size os s p q,
  C11.run_adm small_limit full_size init os -> run small_limit full_size init os = Some s -> fetch p s = FPlain q -> q = p.
Proof. exact C11.fetch_exact_or_fail. Qed.
Print Assumptions C11_fetch_exact_or_fail.

(* Recoverability.  After any history of receives, compactions (packed upload before removal; removal may fail; a packing
   goroutine may give up) and restarts, a start-up with an empty meta index succeeds and rebuilds exactly the index,
   whatever order the meta blobs are processed in. *)
Theorem C11_recoverable : forall small_limit full_size os s ms, forallb C11.honest os = true -> run small_limit full_size init os = Some s ->
  (forall e, In e ms <-> In e (meta s)) ->
  exists s', restart_in small_limit full_size ms s = Some s' /\ forall p, ilookup p (index s') = ilookup p (index s).
Proof. exact C11.recoverable. Qed.
Print Assumptions C11_recoverable.

Theorem C11_honest_startup_never_fails : forall small_limit full_size os s, forallb C11.honest os = true -> run small_limit full_size init os = Some s ->
  forall o, C11.honest o = true -> step small_limit full_size s o <> None.
Proof. exact C11.honest_runs_never_fail. Qed.
Print Assumptions C11_honest_startup_never_fails.

(* equality of symbolic ciphertexts is decided correctly (names are compared with it) *)
Theorem C11_ct_eqb_spec : forall a b, ct_eqb a b = true <-> a = b.
Proof. exact C11.ct_eqb_eq. Qed.
Print Assumptions C11_ct_eqb_spec.

Example C11_nonvacuous :
  let ops := map OReceive [1; 2; 3; 4; 2; 5]%N ++ [OJobUpload; OJobDelete false; OReceive 6%N; ORestart; OJobUpload; OJobDelete true] in
  forallb C11.honest ops = true /\
  match run 3 100 init ops with
  | Some s => length (meta s) = 4%nat /\ length (jobs s) = 1%nat /\ map fst (index s) = [6; 1; 2; 3; 4; 5]%N /\ fetch 3%N s = FPlain 3%N /\
              match run 3 100 s [OTamperBlob (CData 3 4) (CData 4 6); OTamperMeta (CMeta [(6, CData 6 11)]%N 12) (CJunk 0)] with
              | Some s' => fetch 3%N s' = FFail /\ fetch 4%N s' = FPlain 4%N /\ step 3 100 s' ORestart = None
              | None => False
              end
  | None => False
  end.
Proof. vm_compute. repeat split; reflexivity. Qed.
Print Assumptions C11_nonvacuous.

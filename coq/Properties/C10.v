(* C10 — Every sorted key/value store is a byte-ordered map with atomic batches.
   SPEC = [spec_step] over strictly sorted association lists (byte-wise key order).
   Proved here: the SPEC has the properties of the statement, and the write buffer
   (pkg/sorted/buffer: two layers, auto-flush, split batches, two-iterator merge) refines it for every
   operation sequence.  The four engines (memory, leveldb, kv-file, sqlite) are third-party code: they are
   validated against this SPEC by the correspondence run (translation validation), not proved. *)
From Coq Require Import List NArith ZArith Bool.
From PK.Base Require Import Bytes Lex SortedMap.
From PK.Generated Require Import Consts.
From PK.Model Require Import C10.
From PK.Proofs Require Import SortedMapLemmas.
From PK.Proofs Require C10.
Import ListNotations.
Local Open Scope N_scope.

(* get returns the last value set; a key or value over the limits is silently skipped *)
Theorem C10_get_after_set : forall m k v, oversize k v = false -> lookup k (fst (spec_step m (OSet k v))) = Some v.
Proof. exact C10.get_after_set. Qed.
Print Assumptions C10_get_after_set.

Theorem C10_size_guard_skips : forall m k v k', oversize k v = true -> lookup k' (fst (spec_step m (OSet k v))) = lookup k' m.
Proof. exact C10.get_after_oversize_set. Qed.
Print Assumptions C10_size_guard_skips.

Theorem C10_get_after_delete : forall m k, ssorted m -> lookup k (fst (spec_step m (ODel k))) = None.
Proof. exact C10.get_after_delete. Qed.
Print Assumptions C10_get_after_delete.

(* ... and nothing else changes *)
Theorem C10_other_keys_unchanged : forall m k v k', k' <> k ->
  lookup k' (insert k v m) = lookup k' m /\ (ssorted m -> lookup k' (remove k m) = lookup k' m).
Proof. exact C10.get_other_unchanged. Qed.
Print Assumptions C10_other_keys_unchanged.

(* a range scan returns exactly the pairs with key in [start,end), strictly ascending *)
Theorem C10_find_range_exact : forall m st e, ssorted m ->
  ssorted (range st e m) /\ forall k v, In (k, v) (range st e m) <-> (in_range st e k = true /\ In (k, v) m).
Proof. exact C10.find_exact. Qed.
Print Assumptions C10_find_range_exact.

(* every operation keeps the map strictly sorted (so keys stay unique) *)
Theorem C10_spec_sorted : forall m o, ssorted m -> ssorted (fst (spec_step m o)).
Proof. exact C10.spec_step_sorted. Qed.
Print Assumptions C10_spec_sorted.

(* the two-iterator merge automaton of buffer.Find yields the merge of both layers, the buffer winning ties,
   each key once — for all contents with non-empty keys *)
Theorem C10_buffer_iter : forall l1 l2, C10.nonempty_keys l1 -> C10.nonempty_keys l2 -> ssorted l1 -> ssorted l2 ->
  collect (length l1 + length l2 + 1)%nat {| i_buf := sub_init l1; i_back := sub_init l2 |} = overlay l1 l2.
Proof.
  intros l1 l2 N1 N2 S1 S2. rewrite PeanoNat.Nat.add_1_r.
  rewrite (C10.initial_collect l1 l2 _ N1 N2 (le_n _)). exact (merge_overlay l1 l2 S1 S2).
Qed.
Print Assumptions C10_buffer_iter.

(* one step of the buffer = one step of the map on overlay(buffer, backing); invariant preserved *)
Theorem C10_buffer_step_refines : forall s o, C10.binv s -> C10.op_ok o ->
  C10.binv (fst (bstep s o)) /\ abs (fst (bstep s o)) = fst (spec_step (abs s) o) /\
  snd (bstep s o) = snd (spec_step (abs s) o).
Proof. exact C10.buffer_step_refines. Qed.
Print Assumptions C10_buffer_step_refines.

(* ... hence for every operation sequence (sets, deletes, batches, finds, flushes at any point, close) the buffer
   answers exactly like the byte-ordered map *)
Theorem C10_buffer_refines : forall mx ops, Forall C10.op_ok ops ->
  map (fun t => fst (fst t)) (run_buffer (binit mx) ops) = run_spec [] ops.
Proof. intros mx ops H. exact (C10.buffer_run_refines ops (binit mx) (C10.binv_init mx) H). Qed.
Print Assumptions C10_buffer_refines.

(* non-vacuity: a concrete history (with an auto-flush, a batch mixing set and delete, and a find over both layers) *)
Example C10_nonvacuous :
  let ops := [OSet [97] [1]; OSet [98] [2]; OFlush; OSet [97] [3]; OBatch [MDel [98]; MSet [99] [4]]; OFind [] []] in
  Forall C10.op_ok ops /\
  map (fun t => fst (fst t)) (run_buffer (binit 100%Z) ops) = run_spec [] ops /\
  last (run_spec [] ops) RUnit = RList [([97], [3]); ([99], [4])].
Proof. split; [repeat constructor; discriminate|]. split; vm_compute; reflexivity. Qed.
Print Assumptions C10_nonvacuous.

(* C08 — A search returns exactly the matching blobs, however it is planned.
   The constraint trees quantified over are the whole language of the property: what the planner inspects is structural
   (logical operators, camliType / anyCamliType, a complete blobRefPrefix, blobSize, permanode attr + value / valueMatches,
   relation with its sub-constraint, file wholeRef); every other conjunct of a constraint struct (proper blobRefPrefix,
   further file fields, directory constraints, permanode numValue / valueAll / valueMatchesInt / valueInSet / modTime /
   time / at / skipHidden) is an arbitrary set of refs (field `prefix` of Model/C08.v), so the theorems hold whatever those
   leaves mean; their meaning on a concrete world is supplied by the harness's reference evaluator. *)
From Coq Require Import List NArith ZArith Bool Sorted Permutation.
From PK.Model Require Import C08.
From PK.Proofs Require C08.
Import ListNotations.

(* Every planner predicate is sound for every constraint tree: what it claims about the matches w holds of each match. *)
Theorem C08_only_permanode_sound : forall w c b, only_perm c = true -> matches w c b = true -> m_type b = TPermanode.
Proof. exact C08.only_perm_sound. Qed.
Print Assumptions C08_only_permanode_sound.

Theorem C08_permanode_types_sound : forall w c b, C08.wf_blob b -> perm_types c <> [] -> matches w c b = true ->
  C08.typed_by (perm_types c) b = true.
Proof. exact C08.perm_types_sound. Qed.
Print Assumptions C08_permanode_types_sound.

Theorem C08_at_most_one_sound : forall w c b, at_most_one c <> 0%N -> matches w c b = true -> m_ref b = at_most_one c.
Proof. exact C08.at_most_one_sound. Qed.
Print Assumptions C08_at_most_one_sound.

Theorem C08_file_by_wholeref_sound : forall w c b, file_by_whole c = true -> matches w c b = true -> m_type b = TFile.
Proof. exact C08.file_by_whole_sound. Qed.
Print Assumptions C08_file_by_wholeref_sound.

(* Whatever unsorted candidate enumeration the planner picks (node types, one blob, files, one camliType, all camli
   blobs, every blob), matching the candidates gives exactly the matches w of the whole world: nothing missed, nothing
   extra, nothing twice — for every world, constraint tree and sort. *)
Theorem C08_unsorted_plan_exact : forall w c s, C08.wf_world w -> src_sorted (pick_source c s) = false ->
  filter (matches w c) (candidates w (pick_source c s)) = filter (matches w c) w.
Proof. exact C08.unsorted_plan_exact. Qed.
Print Assumptions C08_unsorted_plan_exact.

(* the boolean world check that the correspondence run evaluates on every world implies the hypotheses used here *)
Theorem C08_world_check_sound : forall w, wf_worldb w = true -> C08.wf_world w /\ NoDup (map m_ref w).
Proof. exact C08.wf_worldb_sound. Qed.
Print Assumptions C08_world_check_sound.

(* Handler.Query, unsorted or unspecified sort on an unsorted source: the set of all matches, independent of the plan *)
Theorem C08_query_set_exact : forall w c s limit l take, C08.wf_world w -> query w c s limit = QSet l take ->
  l = map m_ref (C08.full w c) /\ take = (if Z.leb limit 0 then None else Some (Z.to_nat limit)).
Proof. exact C08.query_set_exact. Qed.
Print Assumptions C08_query_set_exact.

(* blobref sort: all the matches, ascending, cut at the limit *)
Theorem C08_query_blobref_exact : forall w c limit l, C08.wf_world w -> query w c SBlobRefAsc limit = QOrdered l ->
  exists sorted_full, Permutation sorted_full (C08.full w c) /\ StronglySorted C08.rle sorted_full /\
                      l = map m_ref (C08.lim limit sorted_full).
Proof. exact C08.query_blobref_exact. Qed.
Print Assumptions C08_query_blobref_exact.

(* time sorts: newest first (ties: greater blobref first), cut at the limit — but of the matches w that are neither deleted
   nor without the time only: this is the proved part of the property for the pre-sorted permanode enumerations *)
Theorem C08_query_time_sorted_partial : forall w c s limit l,
  query w c s limit = QOrdered l -> planned_sort c s = SLastModDesc \/ planned_sort c s = SCreatedDesc ->
  exists sorted_full, let key := C08.sort_key (planned_sort c s) in
    Permutation sorted_full (filter (fun b => matches w c b && C08.alive key b) w) /\ StronglySorted (C08.kge key) sorted_full /\
    l = map m_ref (C08.lim limit sorted_full).
Proof. exact C08.query_time_sorted. Qed.
Print Assumptions C08_query_time_sorted_partial.

(* ... which is the full result when no match is a deleted or time-less permanode *)
Theorem C08_alive_matches_are_all : forall key w c, Forall (fun b => matches w c b = true -> C08.alive key b = true) w ->
  filter (fun b => matches w c b && C08.alive key b) w = C08.full w c.
Proof. exact C08.alive_full. Qed.
Print Assumptions C08_alive_matches_are_all.

(* ... and is not otherwise: the full statement "independent of the requested sort" is false of the code (finding D7) *)
Theorem C08_sort_independence_refuted :
  C08.wf_world C08.d7_world /\ map m_ref (C08.full C08.d7_world C08.d7_cst) = [1; 2; 3]%N /\
  query C08.d7_world C08.d7_cst SUnsorted (-1) = QSet [1; 2; 3]%N None /\
  query C08.d7_world C08.d7_cst SBlobRefAsc (-1) = QOrdered [1; 2; 3]%N /\
  query C08.d7_world C08.d7_cst SCreatedDesc (-1) = QOrdered [1]%N /\
  query C08.d7_world C08.d7_cst SUnspecified (-1) = QOrdered [1]%N.
Proof. exact C08.sort_dependence. Qed.
Print Assumptions C08_sort_independence_refuted.

(* with a limit N the answer is the first N of the unlimited answer *)
Theorem C08_limit_is_prefix : forall w c s n l, query w c s (Z.pos n) = QOrdered l ->
  exists l', query w c s (-1) = QOrdered l' /\ l = firstn (Pos.to_nat n) l'.
Proof. exact C08.query_limit_prefix. Qed.
Print Assumptions C08_limit_is_prefix.

(* no blob twice *)
Theorem C08_no_duplicates : forall (p : blobm -> bool) w, NoDup (map m_ref w) -> NoDup (map m_ref (filter p w)).
Proof. exact C08.NoDup_map_filter. Qed.
Print Assumptions C08_no_duplicates.

(* the planner rule for "or" before its repair (D6) does lose matches; the current rule gives no type restriction there *)
Theorem C08_old_or_rule_refuted :
  C08.wf_world C08.d6_world /\ map m_ref (C08.full C08.d6_world C08.d6_cst) = [1; 2]%N /\
  map m_ref (filter (matches C08.d6_world C08.d6_cst) (candidates C08.d6_world (SrcTypes (C08.perm_types_old C08.d6_cst)))) = [1]%N /\
  perm_types C08.d6_cst = [].
Proof. exact C08.old_or_rule_loses_matches. Qed.
Print Assumptions C08_old_or_rule_refuted.

(* relation constraints (children-of / parents-of over live camliMember and camliPath edges): what the matcher means, and
   - like every other constraint - whichever plan is chosen the answer is exactly the matches (the theorems above quantify
   over all constraint trees, relation constraints included) *)
Theorem C08_relation_any : forall w parent sub b,
  matches w (C08.rel_leaf parent false sub) b = true <->
  m_type b = TPermanode /\ exists r q, In r (related w parent b) /\ find_blob w r = Some q /\ matches w sub q = true.
Proof. exact C08.relation_any_spec. Qed.
Print Assumptions C08_relation_any.

Theorem C08_relation_all : forall w parent sub b,
  matches w (C08.rel_leaf parent true sub) b = true <->
  m_type b = TPermanode /\ related w parent b <> [] /\
  forall r, In r (related w parent b) -> exists q, find_blob w r = Some q /\ matches w sub q = true.
Proof. exact C08.relation_all_spec. Qed.
Print Assumptions C08_relation_all.

Example C08_relation_examples :
  query C08.rel_world (C08.rel_leaf false false (C08.leaf_perm 2 8)) SBlobRefAsc (-1) = QOrdered [1%N] /\
  query C08.rel_world (C08.rel_leaf false true (C08.leaf_perm 2 8)) SBlobRefAsc (-1) = QOrdered [] /\
  query C08.rel_world (C08.rel_leaf true false (C08.rel_leaf false false (C08.leaf_perm 2 8))) SBlobRefAsc (-1) = QOrdered [2; 3]%N.
Proof. exact C08.relation_examples. Qed.
Print Assumptions C08_relation_examples.

Example C08_nonvacuous :
  let w := C08.d6_world in let c := C08.d6_cst in
  wf_worldb w = true /\ only_perm c = true /\ pick_source c SUnsorted = SrcAll /\
  pick_source (Node (Some (OAnd, c, C08.leaf_perm 1 7)) false TNone false None 0 None 0 None None) SBlobRefAsc = SrcTypes [7%N] /\
  query w c SBlobRefAsc 1 = QOrdered [1%N] /\ query w c SCreatedDesc (-1) = QOrdered [2; 1]%N.
Proof. vm_compute. repeat split; reflexivity. Qed.
Print Assumptions C08_nonvacuous.

(* C18 — The HTTP blob protocol gives clients the same map semantics end to end. *)
From Coq Require Import String.
From Coq Require Import List NArith Bool Arith.
From PK.Base Require Import Bytes Lex SortedMap.
From PK.Generated Require Import Consts.
From PK.Proofs Require Import SortedMapLemmas Paging.
From PK.Model Require Import C18.
From PK.Proofs Require C18.
Import ListNotations.

(* Following continueAfter through the enumerate handler (a full page carries the last ref as continueAfter, a short page
   ends the loop) returns every entry after the first cursor exactly once and in order, for every effective page size >= 1. *)
Theorem C18_client_enumerate_exact : forall fuel m c limit,
  ssorted m -> (1 <= limit)%nat -> (length (after c m) < fuel)%nat -> concat (client_enumerate fuel m c limit) = after c m.
Proof. exact C18.client_enumerate_exact. Qed.
Print Assumptions C18_client_enumerate_exact.

Theorem C18_client_enumerate_all : forall m limit, ssorted m -> (1 <= limit)%nat ->
  Forall (fun p => ltb [] (fst p) = true) m -> concat (client_enumerate (S (length m)) m [] limit) = m.
Proof. exact C18.client_enumerate_all. Qed.
Print Assumptions C18_client_enumerate_all.

(* the limit form value always yields a page size >= 1, unless the client literally asks for 0 *)
Theorem C18_effective_limit_positive : forall given, given <> Some (Some 0%nat) ->
  (1 <= eff_limit given (N.to_nat default_enumerate_size) (N.to_nat default_max_enumerate))%nat.
Proof. exact C18.eff_limit_pos_consts. Qed.
Print Assumptions C18_effective_limit_positive.

(* the source regenerated today: the long-poll loop of the enumerate handler runs (so maxwaitsec requests list what is
   there, like plain ones), and Client.StatBlobs leaves the reporting of a found blob to the parallel helper (once) *)
Theorem C18_source_flags : enum_wait_loop_runs = true /\ client_stat_reports_once = true.
Proof. split; reflexivity. Qed.
Print Assumptions C18_source_flags.

Theorem C18_wait_enumerate_lists : forall m limit, enum_response_wait true m limit = enum_response m [] limit.
Proof. exact C18.wait_enumerate_lists. Qed.
Print Assumptions C18_wait_enumerate_lists.

(* the stat handler answers each asked blob that is present exactly once with its size; more than the documented maximum
   (regenerated: maxStatBlobs) is refused *)
Theorem C18_stat_handler_exact : forall max m refs, (length refs <= max)%nat ->
  exists found, stat_handler max m refs = StatOk found /\ NoDup (map fst found) /\
    forall r v, In (r, v) found <-> In r refs /\ lookup r m = Some v.
Proof. exact C18.stat_handler_exact. Qed.
Print Assumptions C18_stat_handler_exact.

Theorem C18_stat_handler_cap : forall max m refs, (max < length refs)%nat -> stat_handler max m refs = StatTooMany.
Proof. exact C18.stat_handler_cap. Qed.
Print Assumptions C18_stat_handler_cap.

(* Client.StatBlobs over distinct refs reports every present blob exactly once *)
Theorem C18_client_stat_once : forall m refs, NoDup refs -> NoDup (map fst (client_stat true m refs)) /\
  forall r v, In (r, v) (client_stat true m refs) <-> In r refs /\ lookup r m = Some v.
Proof. exact C18.client_stat_once. Qed.
Print Assumptions C18_client_stat_once.

(* the two repaired defects, as the model has them with the old flags *)
Theorem C18_old_wait_loop_refuted : enum_response_wait false [([1%N], [2%N])] 10 = ([], None) /\ fst (enum_response [([1%N], [2%N])] [] 10) = [([1%N], [2%N])].
Proof. exact C18.wait_loop_dead_lists_nothing. Qed.
Print Assumptions C18_old_wait_loop_refuted.

Theorem C18_old_client_stat_refuted : client_stat false [([1%N], [2%N])] [[1%N]] = [([1%N], [2%N]); ([1%N], [2%N])].
Proof. exact C18.client_stat_twice_refuted. Qed.
Print Assumptions C18_old_client_stat_refuted.

Example C18_nonvacuous :
  let m := [([1%N], [0%N]); ([2%N], [0%N]); ([3%N], [0%N]); ([4%N], [0%N]); ([5%N], [0%N])] in
  map (map fst) (client_enumerate 9 m [] 2) = [[[1%N]; [2%N]]; [[3%N]; [4%N]]; [[5%N]]] /\
  map (map fst) (client_enumerate 9 m [] 5) = [[[1%N]; [2%N]; [3%N]; [4%N]; [5%N]]; []] /\
  stat_handler 3 m [[2%N]; [9%N]; [2%N]] = StatOk [([2%N], [0%N])] /\ stat_handler 2 m [[2%N]; [9%N]; [2%N]] = StatTooMany.
Proof. vm_compute. repeat split; reflexivity. Qed.
Print Assumptions C18_nonvacuous.

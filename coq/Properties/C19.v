(* C19 — Asynchronous sync delivers every blob eventually and its queue is durable. *)
From Coq Require Import List NArith Bool Sorted.
From PK.Generated Require Import Consts.
From PK.Model Require Import C19.
From PK.Proofs Require C19.
Import ListNotations.

(* In every state reachable by any interleaving of uploads, hook steps, copy steps with any fault outcomes, and crashes with
   restart: an acknowledged upload is at the destination or in the persistent queue (durability), and also at the
   destination or in the in-memory pending list (it will be copied without a restart); the destination only holds blobs
   the source accepted, written only after a verified fetch. *)
Theorem C19_queue_durable : forall es s, run init es = Some s ->
  (forall b, mem b (acked s) = true -> mem b (dest s) = true \/ mem b (queue s) = true) /\
  (forall b, mem b (acked s) = true -> mem b (dest s) = true \/ mem b (need s) = true) /\
  (forall b, mem b (dest s) = true -> mem b (src s) = true).
Proof. exact C19.durable_reachable. Qed.
Print Assumptions C19_queue_durable.

(* a row leaves the persistent queue only when the destination has acknowledged the blob *)
Theorem C19_row_leaves_only_after_ack : forall es s e s' b, run init es = Some s -> step s e = Some s' ->
  mem b (queue s) = true -> mem b (queue s') = false -> mem b (dest s') = true.
Proof. exact C19.row_leaves_reachable. Qed.
Print Assumptions C19_row_leaves_only_after_ack.

(* after a crash the pending list is exactly the queue, so durability is what makes restarts complete deliveries *)
Theorem C19_restart_reloads_queue : forall s, exists s', step s ECrash = Some s' /\ need s' = queue s /\ queue s' = queue s /\ dest s' = dest s /\ acked s' = acked s.
Proof. exact C19.restart_reloads. Qed.
Print Assumptions C19_restart_reloads_queue.

(* eventual delivery as bounded progress: from any reachable state with no copy in flight (e.g. right after a restart),
   fault-free rounds of at most k copies (k = 1000 in runSync) empty the pending list within ceil(|pending|/k) rounds, and
   then every acknowledged upload is at the destination *)
Theorem C19_eventual_delivery : forall es s k fuel, run init es = Some s -> cop s = [] -> (1 <= k)%nat -> (length (need s) <= fuel * k)%nat ->
  exists s', C19.drain k fuel s = Some s' /\ need s' = [] /\ forall b, mem b (acked s) = true -> mem b (dest s') = true.
Proof. exact C19.eventual_delivery. Qed.
Print Assumptions C19_eventual_delivery.

(* the hook before its repair (D33: a duplicate upload of a blob already pending in memory was acknowledged without a
   queue row of its own) admits a history that loses an acknowledged blob *)
Theorem C19_old_hook_refuted :
  exists es s, C19.run_old init es = Some s /\ mem 7%N (acked s) = true /\ mem 7%N (dest s) = false /\ mem 7%N (queue s) = false /\ need s = [].
Proof. exact C19.old_hook_loses_acked_blob. Qed.
Print Assumptions C19_old_hook_refuted.

(* ListMissingDestinationBlobs on sorted enumerations: exactly the source blobs absent from the destination, in order,
   and the blobs present on both sides with different sizes *)
Theorem C19_missing_exact : forall srcl dstl, C19.ssorted (C19.keys srcl) -> C19.ssorted (C19.keys dstl) ->
  fst (missing srcl dstl) = filter (fun p => negb (mem (fst p) (C19.keys dstl))) srcl /\
  snd (missing srcl dstl) = map fst (filter (fun p => match find (fun q => N.eqb (fst q) (fst p)) dstl with
                                                       | Some q => negb (N.eqb (snd p) (snd q)) | None => false end) srcl).
Proof. exact C19.missing_exact. Qed.
Print Assumptions C19_missing_exact.

(* fullSyncOnStart (D52): the sync loop - and with it every later upload - starts only if the start-up sync returns, which
   it does exactly when its enumeration source closes its channel; today's source does (regenerated), like the pending
   source; what the source held (up to one batch) is delivered either way *)
Theorem C19_full_sync_source : sync_full_source_closes = true /\ sync_pending_source_closes = true.
Proof. split; reflexivity. Qed.
Print Assumptions C19_full_sync_source.

Theorem C19_full_sync_then_loop : forall cap held,
  full_sync_start sync_full_source_closes cap held = (firstn cap held, true) /\
  full_sync_start false cap held = (firstn cap held, false).
Proof. intros cap held. split; reflexivity. Qed.
Print Assumptions C19_full_sync_then_loop.

Example C19_nonvacuous :
  let es := [ESrcRecv 1; EQSet 1 true; EAck 1; ESrcRecv 2; EFetch 1 FCorrupt; EFetch 1 FOk; EDestRecv 1 RErr; EQSet 2 true; EAck 2;
             EFetch 2 FOk; EDestRecv 2 ROk; ECrash]%N in
  match run init es with
  | Some s => acked s = [2; 1]%N /\ dest s = [2]%N /\ queue s = [2; 1]%N /\ need s = [2; 1]%N /\ cop s = [] /\
              match C19.drain 1 2 s with
              | Some s' => need s' = [] /\ dest s' = [1; 2]%N /\ queue s' = []
              | None => False
              end
  | None => False
  end.
Proof. vm_compute. repeat split; reflexivity. Qed.
Print Assumptions C19_nonvacuous.

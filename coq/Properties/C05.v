(* C05 — The index is a function of the set of blobs, not of their arrival order.
   MODEL: the indexer's dependency bookkeeping (which blobs are fully indexed, partially indexed, or pending and on
   what), transcribed from pkg/index/receive.go with its wake-up cascade.  SPEC [expected]: the status every blob must
   have once a given set of blobs has arrived.
   Proved: the SPEC depends only on the SET that arrived (any order, any duplicates); on every arrival order the model
   never indexes a blob ahead of its dependencies (soundness, unbounded); and, by a complete sweep, on ALL 5040 arrival
   orders of a seven-blob world with delete-of-delete chains and a file (and all 720 orders with the key missing)
   the model ends exactly in the SPEC's state.  The unbounded completeness statement (model = SPEC for every world and
   order) is not yet proved: it is carried by the correspondence run on random worlds — hence _partial. *)
From Coq Require Import List NArith Bool Permutation.
From PK.Model Require Import C05.
From PK.Proofs Require C05.
Import ListNotations.

Theorem C05_spec_is_set_function : forall world l l' x, (forall y, In y l <-> In y l') ->
  expected world l x = expected world l' x.
Proof. exact C05.expected_set_function. Qed.
Print Assumptions C05_spec_is_set_function.

Theorem C05_spec_order_independent : forall world l l' x, Permutation l l' -> expected world l x = expected world l' x.
Proof. exact C05.expected_order_independent. Qed.
Print Assumptions C05_spec_order_independent.

Theorem C05_spec_ignores_duplicates : forall world l x d, In d l -> expected world (l ++ [d]) x = expected world l x.
Proof. exact C05.expected_ignores_duplicates. Qed.
Print Assumptions C05_spec_ignores_duplicates.

(* for every world, fuel and arrival order: whatever the index has committed had all its fetch dependencies in the blob
   source, and whatever is fully indexed had its index dependency's row *)
Theorem C05_never_ahead_of_dependencies : forall world fuel order, C05.sound world (run world fuel order).
Proof. exact C05.run_sound. Qed.
Print Assumptions C05_never_ahead_of_dependencies.

(* complete sweep (finite domain, bound in the statement): 5040 + 720 arrival orders *)
Theorem C05_final_state_is_spec_partial :
  forall order, In order (C05.perms [1; 2; 3; 4; 5; 6; 7]%N ++ C05.perms [2; 3; 4; 5; 6; 7]%N) -> C05.agrees C05.w7 order = true.
Proof. exact C05.w7_sweep. Qed.
Print Assumptions C05_final_state_is_spec_partial.

(* the cascade of re-indexing is unbounded in the code and fuelled in the model: with enough fuel (12 in every
   correspondence run) a second world agrees with the SPEC on all its arrival orders; with fuel 4 it does not *)
Theorem C05_fuel_matters :
  forallb (C05.agrees_with 12 C05.wq) (C05.perms [1; 2; 3; 4]%N) = true /\
  forallb (C05.agrees_with 5 C05.wq) (C05.perms [1; 2; 3; 4]%N) = true /\
  C05.agrees_with 4 C05.wq [3; 2; 4; 1]%N = false.
Proof. exact C05.fuel_matters. Qed.
Print Assumptions C05_fuel_matters.

Example C05_nonvacuous :
  status_of (run C05.w7 12 [5; 4; 7; 3; 1; 2; 6]%N) 5%N = Some Full /\
  status_of (run C05.w7 12 [5; 4; 7; 3; 2; 6]%N) 5%N = Some (Pending 1%N) /\
  expected C05.w7 [5; 4; 7; 3; 2; 6]%N 7%N = Some Full.
Proof. vm_compute. repeat split; reflexivity. Qed.
Print Assumptions C05_nonvacuous.

(* C16 — Signed schema blobs verify, and only untampered ones do. *)
From Coq Require Import String.
From Coq Require Import List NArith Bool.
From PK.Base Require Import Bytes.
From PK.Generated Require Import Consts.
From PK.Model Require Import C16.
From PK.Proofs Require C16.
Import ListNotations.
Local Open Scope N_scope.

(* the separator of the model is the one in the source regenerated today (pkg/jsonsign/verify.go sigSeparator) *)
Theorem C16_separator_is_the_code's : ofs sig_separator = sep.
Proof. reflexivity. Qed.
Print Assumptions C16_separator_is_the_code's.

(* LastIndex really is the last occurrence: what it returns is an occurrence and no later position is one *)
Theorem C16_last_index_is_last : forall s ba i, last_index s ba = Some i ->
  (is_prefix s (skipn i ba) = true /\ (i <= length ba)%nat) /\
  (forall j, (i < j)%nat -> (j <= length ba)%nat -> is_prefix s (skipn j ba) = false).
Proof. exact C16.last_index_is_last. Qed.
Print Assumptions C16_last_index_is_last.

(* The verifier splits a freshly signed document exactly where Sign joined it: the payload it checks is byte for byte the
   bytes that were signed — whatever the document contains (look-alike separators, a camliSig key of its own, unicode) —
   provided the signature text contains no comma (it is base64). *)
Theorem C16_split_sign : forall doc sigtext signed body, ~ In comma sigtext ->
  sign doc sigtext = Some signed -> trim_right doc = body ++ [rbrace] ->
  split signed = Some (body, body ++ [rbrace], lbrace :: tl sep ++ sigtext ++ [34; rbrace; 10]).
Proof. exact C16.split_sign. Qed.
Print Assumptions C16_split_sign.

(* Round trip: with JSON parsing, key lookup and OpenPGP as parameters that accept the pieces of an honestly signed
   document, the signed document verifies. *)
Theorem C16_sign_then_verify : forall (signer key : Type) parse_sig (parse_payload : bytes -> option signer) (lookup : signer -> option key) sig_ok,
  forall doc sigtext signed body who k, ~ In comma sigtext ->
    sign doc sigtext = Some signed -> trim_right doc = body ++ [rbrace] ->
    parse_payload (body ++ [rbrace]) = Some who -> lookup who = Some k ->
    parse_sig (lbrace :: tl sep ++ sigtext ++ [34; rbrace; 10]) = Some sigtext ->
    sig_ok k body sigtext = true ->
    verify parse_sig parse_payload lookup sig_ok signed = SOk.
Proof. exact (@C16.sign_then_verify). Qed.
Print Assumptions C16_sign_then_verify.

(* Soundness: an accepted document's payload — the bytes before its last separator — carries a signature that checks under
   the key which those same bytes name. *)
Theorem C16_verify_sound : forall (signer key : Type) parse_sig (parse_payload : bytes -> option signer) (lookup : signer -> option key) sig_ok ba,
  verify parse_sig parse_payload lookup sig_ok ba = SOk ->
  exists i sg who k, last_index sep ba = Some i /\
    parse_sig (lbrace :: skipn (S i) ba) = Some sg /\ parse_payload (firstn i ba ++ [rbrace]) = Some who /\ lookup who = Some k /\
    sig_ok k (firstn i ba) sg = true.
Proof. exact (@C16.verify_sound). Qed.
Print Assumptions C16_verify_sound.

(* Tampering: if signatures cannot be forged (hypothesis on the OpenPGP parameter), every accepted document — edited,
   spliced or re-signed however — has a payload that the holder of the key named in that payload signed; in particular if
   P is the only thing ever signed, the payload is P: any change to the payload or to the signer reference is rejected. *)
Theorem C16_tamper_rejected : forall (signer key : Type) parse_sig (parse_payload : bytes -> option signer) (lookup : signer -> option key) sig_ok
  (signed_by : key -> bytes -> Prop), (forall k m s, sig_ok k m s = true -> signed_by k m) ->
  forall ba P, verify parse_sig parse_payload lookup sig_ok ba = SOk -> (forall k m, signed_by k m -> m = P) ->
  exists i, last_index sep ba = Some i /\ firstn i ba = P.
Proof. exact (@C16.accepted_payload_is_the_signed_one). Qed.
Print Assumptions C16_tamper_rejected.

Example C16_nonvacuous :
  let doc := ofs "{""camliVersion"":1,""camliSig"":""x"",""camliSigner"":""sha224-00""} " in
  let sg := ofs "iQEcBAABAgAGBQJ=abcd" in
  match sign doc sg with
  | Some signed => last_index sep signed = Some 58%nat /\ (exists i, last_index sep doc = Some i /\ (i < 58)%nat) /\
                   verify (fun _ => Some sg) (fun _ => Some tt) (fun _ => Some tt) (fun _ m s => beqb m (firstn 58 signed) && beqb s sg) signed = SOk
  | None => False
  end.
Proof. vm_compute. split; [reflexivity|]. split; [eexists; split; [reflexivity|repeat constructor]|reflexivity]. Qed.
Print Assumptions C16_nonvacuous.

(* C03 — Disk stores survive a crash at any instant without losing or tearing blobs. *)
From Coq Require Import List NArith Bool Arith.
From PK.Generated Require Import Consts.
From PK.Model Require Import C03.
From PK.Proofs Require C03.
Import ListNotations.

(* ---- the file-per-blob store ---- *)
(* After any history of completed receives and removals, a crash at ANY point of the VFS call sequence of one more receive
   — with any part of the data not yet synced lost — leaves only .dat files that are complete and durable; a reopened store
   presents exactly the .dat files. *)
Theorem C03_files_crash_safe : forall ops t b chunks k,
  fs_safe (applies (applies fs0 (flat_map C03.fop_calls ops)) (firstn k (receive_calls t b chunks))) = true.
Proof. exact C03.files_crash_safe. Qed.
Print Assumptions C03_files_crash_safe.

Theorem C03_files_acked_visible : forall s t b chunks, In b (visible (applies s (receive_calls t b chunks))).
Proof. exact C03.receive_makes_visible. Qed.
Print Assumptions C03_files_acked_visible.

(* the order of the calls is what makes it so: a rename before the sync is unsafe *)
Theorem C03_files_rename_before_sync_refuted : fs_safe (applies fs0 [KMkdir; KTemp 1 7 10; KWrite 1 10; KRename 1]) = false.
Proof. exact C03.rename_before_sync_unsafe. Qed.
Print Assumptions C03_files_rename_before_sync_refuted.

(* ---- the packed store ---- *)
(* the source regenerated today deletes the index rows before it touches the pack, rewrites a removed record's header
   before it destroys its data, and its pack walk checks the file size *)
Theorem C03_source_order : dp_remove_commits_index_first = true /\ dp_walk_checks_file_size = true /\
  dp_delete_header_before_punch = true /\ dp_delete_header_before_zero = true.
Proof. repeat split; reflexivity. Qed.
Print Assumptions C03_source_order.

(* Whatever receives, removals, crashes inside a receive (torn header, torn body, data without index row) or inside a
   removal (index row gone, header rewritten, body zeroed up to any byte) and restarts happened, no fetch presents a blob
   with wrong bytes. *)
Theorem C03_fetch_never_corrupt : forall os r, C03.ops_ok os = true -> dfetch (druns true dp0 os) r <> FCorrupt.
Proof. exact C03.fetch_never_corrupt. Qed.
Print Assumptions C03_fetch_never_corrupt.

(* an acknowledged receive makes the blob fetchable intact, and it stays so across every later operation, crash and
   restart that is not a removal of that blob *)
Theorem C03_acked_stays_intact : (forall os r size, C03.ops_ok os = true -> dfetch (receive (druns true dp0 os) r size) r = FIntact) /\
  (forall os o r, C03.ops_ok os = true -> C03.touches o r = false -> dfetch (druns true dp0 os) r = FIntact -> dfetch (dstep true (druns true dp0 os) o) r = FIntact).
Proof. exact C03.acked_stays_intact. Qed.
Print Assumptions C03_acked_stays_intact.

(* Reindex from the pack alone, right after a crash (no operation since): it succeeds, and nothing it presents is torn or
   half removed.  This is the proved part of "the pack files alone remain sufficient". *)
Theorem C03_reindex_after_tail_crash_partial : forall os last s', let s := dstep true (druns true dp0 os) last in
  C03.ops_ok os = true -> C03.op_ok last = true ->
  forallb (fun it => negb (C03.torn it)) (pack (druns true dp0 os)) = true ->
  (exists s', reindex true s = Some s') /\ (reindex true s = Some s' -> forall r, dfetch s' r <> FCorrupt).
Proof. exact C03.reindex_after_tail_crash. Qed.
Print Assumptions C03_reindex_after_tail_crash_partial.

(* ... and the full statement is false of the code (finding D2): a receive acknowledged after the restart is appended
   behind the torn bytes, and the walk fails from then on *)
Theorem C03_reindex_total_refuted :
  let s := druns true dp0 [DReceive 1 10; DCrashReceive 2 10 (ApBody 3); DReceive 3 5] in
  dfetch s 1 = FIntact /\ dfetch s 3 = FIntact /\ reindex true s = None.
Proof. exact C03.append_behind_torn_tail_breaks_reindex. Qed.
Print Assumptions C03_reindex_total_refuted.

(* [ops_ok]: the crash states of a removal are those of the order header-then-data (C03_source_order); in the other order a
   crash leaves a record that Reindex presents as a blob of zeros *)
Theorem C03_body_before_header_refuted :
  let s := druns true dp0 [DReceive 1 10; DCrashRemove 1 (RmZeroOnly 10)] in
  dfetch s 1 = FAbsent /\ match reindex true s with Some s' => dfetch s' 1 = FCorrupt | None => False end.
Proof. exact C03.body_before_header_presents_zeroed_blob. Qed.
Print Assumptions C03_body_before_header_refuted.

(* the two repaired defects, as the model has them when the flags are the old ones *)
Theorem C03_old_walk_refuted :
  let s := druns true dp0 [DReceive 1 10; DCrashReceive 2 10 (ApBody 3)] in
  match reindex false s with Some s' => dfetch s' 2 = FCorrupt | None => False end /\
  match reindex true s with Some s' => dfetch s' 2 = FAbsent /\ dfetch s' 1 = FIntact | None => False end.
Proof. exact C03.no_eof_check_presents_torn_blob. Qed.
Print Assumptions C03_old_walk_refuted.

Theorem C03_old_remove_order_refuted :
  dfetch (druns false dp0 [DReceive 1 10; DCrashRemove 1 (RmZero 4)]) 1 = FCorrupt /\
  dfetch (druns true dp0 [DReceive 1 10; DCrashRemove 1 (RmZero 4)]) 1 = FAbsent.
Proof. exact C03.data_first_presents_zeroed_blob. Qed.
Print Assumptions C03_old_remove_order_refuted.

Example C03_nonvacuous :
  let s := druns true dp0 [DReceive 1 10; DReceive 2 0; DRemove 1; DReceive 1 10; DCrashRemove 2 RmHeader; DCrashReceive 3 8 (ApBody 5)] in
  dfetch s 1 = FIntact /\ dfetch s 2 = FAbsent /\ dfetch s 3 = FAbsent /\ length (pack s) = 4%nat /\
  match reindex true s with Some s' => map fst (idx s') = [1%N] | None => False end /\
  fs_safe (applies fs0 (firstn 6 (receive_calls 1 7 [4; 6]%nat))) = true /\ visible (applies fs0 (receive_calls 1 7 [4; 6]%nat)) = [7%N].
Proof. vm_compute. repeat split; reflexivity. Qed.
Print Assumptions C03_nonvacuous.

(* the duplicate rule of ReceiveBlob: the source regenerated today compares the size of the pack file with the END of the
   indexed extent; then an upload heals a pack whose tail was lost although the index row survived (a state this code's
   own crashes cannot produce - the row is written after the data is synced - but a lying disk or a truncated copy can) *)
Theorem C03_dup_rule_source : dp_dup_checks_extent_end = true.
Proof. reflexivity. Qed.
Print Assumptions C03_dup_rule_source.

Theorem C03_lost_tail_heals : forall s r size have, (have < size)%nat ->
  let s1 := dstep true s (DLostTail r size have) in
  dfetch s1 r = FCorrupt /\ dfetch (receive_with dp_dup_checks_extent_end s1 r size) r = FIntact.
Proof. exact C03.lost_tail_heals. Qed.
Print Assumptions C03_lost_tail_heals.

Theorem C03_start_only_rule_refuted :
  let s1 := dstep true (receive dp0 1 10) (DLostTail 2 10 3) in
  dfetch (receive_with false s1 2 10) 2 = FCorrupt /\ dfetch (receive_with true s1 2 10) 2 = FIntact.
Proof. exact C03.start_only_rule_does_not_heal. Qed.
Print Assumptions C03_start_only_rule_refuted.

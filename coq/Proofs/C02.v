From Coq Require Import List NArith Bool Lia ZifyN ZifyBool.
From PK.Model Require Import C02.
Import ListNotations.
Local Open Scope N_scope.

Lemma through_checks_clean maxb rd n : through_checks maxb rd = SClean n ->
  n = N.min (total rd) maxb /\ n <= maxb /\ hm rd n = true /\ (total rd < maxb -> fin rd = TEof).
Proof.
  unfold through_checks. destruct (maxb <=? total rd) eqn:E.
  - destruct (hm rd maxb) eqn:H; [|discriminate]. intros [= <-]. repeat split; try lia; try exact H.
  - destruct (fin rd) eqn:F; [|discriminate]. destruct (hm rd (total rd)) eqn:H; [|discriminate].
    intros [= <-]. repeat split; try lia; try exact H.
Qed.

Theorem accept_sound maxb supported s r rd s' n : receive maxb supported s r rd = (s', VOk n) ->
  supported = true /\ n = N.min (total rd) maxb /\ n <= maxb /\ hm rd n = true /\
  (total rd < maxb -> fin rd = TEof) /\
  lookup_ref r s' <> None /\ hub s' = r :: hub s.
Proof.
  unfold receive. destruct supported; cbn [negb]; [|discriminate].
  destruct (through_checks maxb rd) as [k|k|k] eqn:T; cbn [backend_receive].
  - destruct (lookup_ref r s) as [sz|] eqn:L; intros [= <- <-]; apply through_checks_clean in T as (A & B & C & D);
      (split; [reflexivity|]); (split; [exact A|]); (split; [exact B|]); (split; [exact C|]); (split; [exact D|]); cbn.
    + split; [|reflexivity]. unfold lookup_ref in *. cbn. destruct (find _ (present s)); [discriminate|discriminate].
    + split; [|reflexivity]. unfold lookup_ref. cbn. rewrite N.eqb_refl. discriminate.
  - discriminate.
  - discriminate.
Qed.

Theorem reject_invisible maxb supported s r rd s' v : receive maxb supported s r rd = (s', v) ->
  (forall n, v <> VOk n) -> s' = s.
Proof.
  unfold receive. destruct supported; cbn [negb]; [|intros [= <- <-] _; reflexivity].
  destruct (through_checks maxb rd) as [k|k|k]; cbn [backend_receive].
  - destruct (lookup_ref r s); intros [= <- <-] H; exfalso; eapply H; reflexivity.
  - intros [= <- <-] _. reflexivity.
  - intros [= <- <-] _. reflexivity.
Qed.

(* completeness: matching bytes within the limit, delivered to a clean end, are accepted *)
Theorem accept_complete maxb s r rd : total rd < maxb -> fin rd = TEof -> hm rd (total rd) = true ->
  exists s', receive maxb true s r rd = (s', VOk (total rd)).
Proof.
  intros L F H. unfold receive, through_checks. cbn [negb].
  assert (maxb <=? total rd = false) as -> by lia. rewrite F, H. cbn [backend_receive].
  destruct (lookup_ref r s); eexists; reflexivity.
Qed.

Theorem oversize_rejected maxb s r rd : maxb <= total rd -> hm rd maxb = false ->
  receive maxb true s r rd = (s, VCorrupt).
Proof.
  intros L H. unfold receive, through_checks. cbn [negb]. assert (maxb <=? total rd = true) as -> by lia. rewrite H. reflexivity.
Qed.

Theorem unsupported_rejected_unread maxb s r rd : receive maxb false s r rd = (s, VUnsupported).
Proof. reflexivity. Qed.

(* what was already there is never altered: a second offer of a present ref leaves its stored size alone *)
Theorem present_untouched maxb supported s r rd s' v q : receive maxb supported s r rd = (s', v) ->
  lookup_ref q s <> None -> lookup_ref q s' = lookup_ref q s.
Proof.
  unfold receive. destruct supported; cbn [negb]; [|intros [= <- <-] _; reflexivity].
  destruct (through_checks maxb rd) as [k|k|k]; cbn [backend_receive]; try (intros [= <- <-] _; reflexivity).
  destruct (lookup_ref r s) eqn:L; intros [= <- <-] Hq; [reflexivity|].
  unfold lookup_ref in *. cbn. destruct (r =? q) eqn:E; [|reflexivity].
  apply N.eqb_eq in E. subst q. rewrite L in Hq. contradiction.
Qed.

(* PUT: 204 only for an accepted blob; every refusal leaves the store as it was *)
Theorem put_status maxb cl parses supported s r rd s' st : put_handler maxb cl parses supported s r rd = (s', st) ->
  (st = S204 -> exists n, receive maxb supported s r rd = (s', VOk n) /\ parses = true /\ supported = true /\
                          match cl with Some c => c <= maxb | None => True end) /\
  (st <> S204 -> s' = s).
Proof.
  unfold put_handler. intros H.
  assert (G : forall s0 st0, (if negb parses then (s, S400) else if negb supported then (s, S400) else
            match receive maxb supported s r rd with
            | (s1, VOk _) => (s1, S204) | (s1, VCorrupt) => (s1, S400) | (s1, _) => (s1, S500) end) = (s0, st0) ->
            (st0 = S204 -> exists n, receive maxb supported s r rd = (s0, VOk n) /\ parses = true /\ supported = true) /\
            (st0 <> S204 -> s0 = s)).
  { intros s0 st0. destruct parses; cbn [negb]; [|intros [= <- <-]; split; [discriminate|reflexivity]].
    destruct supported; cbn [negb]; [|intros [= <- <-]; split; [discriminate|reflexivity]].
    destruct (receive maxb true s r rd) as [s1 v] eqn:R. destruct v as [n| | |]; intros [= <- <-].
    - split; [intros _; exists n; auto|intros X; contradiction].
    - split; [discriminate|intros _; eapply reject_invisible; [exact R|discriminate]].
    - split; [discriminate|intros _; eapply reject_invisible; [exact R|discriminate]].
    - split; [discriminate|intros _; eapply reject_invisible; [exact R|discriminate]]. }
  destruct cl as [c|].
  - destruct (maxb <? c) eqn:E; [injection H as <- <-; split; [discriminate|reflexivity]|].
    destruct (G _ _ H) as [A B]. split; [|exact B]. intros X. destruct (A X) as (n & R & P & Q). exists n. repeat split; try assumption. lia.
  - destruct (G _ _ H) as [A B]. split; [|exact B]. intros X. destruct (A X) as (n & R & P & Q). exists n. repeat split; assumption.
Qed.

(* multipart: the response lists exactly the blobs that were accepted, and the store gained nothing else *)
Definition keys (s : store) : list N := map fst (present s).

Lemma receive_keys maxb supported s r rd s' v : receive maxb supported s r rd = (s', v) ->
  (forall n, v = VOk n -> (keys s' = keys s \/ keys s' = r :: keys s)) /\ ((forall n, v <> VOk n) -> s' = s).
Proof.
  intros H. split; [|intros X; eapply reject_invisible; eassumption].
  intros n ->. unfold receive in H. destruct supported; cbn [negb] in H; [|discriminate].
  destruct (through_checks maxb rd); cbn [backend_receive] in H; try discriminate.
  destruct (lookup_ref r s); injection H as <- _; [left|right]; reflexivity.
Qed.

Theorem multipart_lists_only_received maxb : forall ps s s' l, multipart maxb s ps = (s', l) ->
  (forall x, In x (keys s') -> In x (keys s) \/ In x (map fst l)) /\
  (forall x, In x (map fst l) -> In x (keys s')) /\
  (forall x, In x (keys s) -> In x (keys s')).
Proof.
  induction ps as [|p ps IH]; intros s s' l H; cbn [multipart] in H.
  - injection H as <- <-. repeat split; auto. intros x [].
  - destruct (p_parses p); cbn [negb] in H; [|apply IH; exact H].
    destruct (receive maxb (p_supported p) s (p_ref p) (p_rd p)) as [s1 v] eqn:R.
    destruct (receive_keys _ _ _ _ _ _ _ R) as [K1 K2].
    destruct v as [n| | |].
    + destruct (multipart maxb s1 ps) as [s2 l2] eqn:M. injection H as <- <-. destruct (IH _ _ _ M) as (A & B & C).
      assert (Hin : In (p_ref p) (keys s1)).
      { apply accept_sound in R as (_ & _ & _ & _ & _ & X & _). unfold lookup_ref, keys in *.
        destruct (find (fun q => fst q =? p_ref p) (present s1)) as [q|] eqn:F; [|contradiction].
        apply find_some in F as [F1 F2]. apply N.eqb_eq in F2. rewrite <- F2. apply in_map. exact F1. }
      repeat split.
      * intros x Hx. destruct (A x Hx) as [Hx1|Hx1]; [|right; cbn; right; exact Hx1].
        destruct (K1 n eq_refl) as [E|E]; rewrite E in Hx1; [left; exact Hx1|].
        destruct Hx1 as [<-|Hx1]; [right; cbn; left; reflexivity|left; exact Hx1].
      * intros x [<-|Hx]; [apply C; exact Hin|apply B; exact Hx].
      * intros x Hx. apply C. destruct (K1 n eq_refl) as [E|E]; rewrite E; [exact Hx|right; exact Hx].
    + injection H as <- <-. rewrite (K2 ltac:(discriminate)). repeat split; auto. intros x [].
    + injection H as <- <-. rewrite (K2 ltac:(discriminate)). repeat split; auto. intros x [].
    + injection H as <- <-. rewrite (K2 ltac:(discriminate)). repeat split; auto. intros x [].
Qed.

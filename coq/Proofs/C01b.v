(* C01, second part: namespace and overlay refine the reference map; the nesting theorem over all six combinators *)
From Coq Require Import List NArith ZArith Bool Lia Sorted Arith.
From PK.Base Require Import Bytes Lex SortedMap.
From PK.Model Require Import Merge C12 C01.
From PK.Proofs Require Import BytesLemmas SortedMapLemmas MergeLemmas Paging C01.
Import ListNotations.

Lemma merge_length a : forall b, (length (merge a b) <= length a + length b)%nat.
Proof.
  induction a as [|[k1 v1] r1 IH1]; intros b; [rewrite merge_nil_l; cbn; lia|].
  induction b as [|[k2 v2] r2 IH2]; [rewrite merge_nil_r; cbn; lia|].
  rewrite merge_cons. destruct (ltb k1 k2); [specialize (IH1 ((k2, v2) :: r2)); cbn [length] in *; lia|].
  destruct (ltb k2 k1); [cbn [length] in *; lia|]. specialize (IH1 r2). cbn [length]. lia.
Qed.


(* ---- overlay (with a deleted index): upper ∪ lower minus the deleted refs ---- *)
Definition ndk (d : smap) (k : bytes) : bool := match lookup k d with Some _ => false | None => true end.
Definition ov_abs (tl tu : triple) (s : st) : smap :=
  match s with SNode [sl; su] d => filter (not_deleted d) (union [tA tl sl; tA tu su]) | _ => [] end.
Definition ov_inv (tl tu : triple) (s : st) : Prop :=
  match s with SNode [sl; su] d => tI tl sl /\ tI tu su /\ ssorted d | _ => False end.
Definition bounded (t : triple) : Prop := forall s, tI t s -> (length (tA t s) <= size_of s)%nat.

Lemma lookup_nd d m k : lookup k (filter (not_deleted d) m) = if ndk d k then lookup k m else None.
Proof. apply (lookup_filter (ndk d)). Qed.

Lemma lookup_fold_insert_one rs : forall d k,
  lookup k (fold_left (fun d r => insert r one d) rs d) = if mem k rs then Some one else lookup k d.
Proof.
  induction rs as [|r rs IH]; intros d k; [reflexivity|]. cbn [fold_left mem]. rewrite IH, lookup_insert.
  destruct (beqb k r); cbn [orb]; [destruct (mem k rs); reflexivity|reflexivity].
Qed.
Lemma fold_insert_one_sorted rs : forall d, ssorted d -> ssorted (fold_left (fun d r => insert r one d) rs d).
Proof. induction rs as [|r rs IH]; intros d H; [exact H|]. cbn. apply IH. apply insert_sorted. exact H. Qed.

Lemma sized_filter_nd d m : sized (filter (not_deleted d) m) = filter (not_deleted d) (sized m).
Proof.
  induction m as [|[k v] m IH]; [reflexivity|]. rewrite sized_cons. cbn [filter].
  replace (not_deleted d (k, [blen v])) with (not_deleted d (k, v)) by reflexivity.
  destruct (not_deleted d (k, v)); [rewrite sized_cons; f_equal|]; exact IH.
Qed.
Lemma filter_comm {A} (p q : A -> bool) l : filter p (filter q l) = filter q (filter p l).
Proof.
  induction l as [|x l IH]; [reflexivity|]. cbn [filter]. destruct (q x) eqn:Eq; destruct (p x) eqn:Ep; cbn [filter]; rewrite ?Eq, ?Ep, IH; reflexivity.
Qed.

(* the refill loop on maps *)
Fixpoint ov_enum_spec (fuel : nat) (U d : smap) (cursor : bytes) (limit : nat) : smap :=
  match fuel with
  | O => []
  | S f =>
      match limit with
      | O => []
      | _ =>
          let batch := firstn limit (after cursor U) in
          match batch with
          | [] => []
          | _ => let keep := filter (not_deleted d) batch in
                 keep ++ ov_enum_spec f U d (fst (last batch ([], []))) (limit - length keep)
          end
      end
  end.

Lemma ov_enum_spec_exact : forall fuel U d c n, ssorted U -> (length (after c U) < fuel)%nat ->
  ov_enum_spec fuel U d c n = firstn n (filter (not_deleted d) (after c U)).
Proof.
  induction fuel as [|f IH]; intros U d c n HU Hf; [inversion Hf|].
  cbn [ov_enum_spec]. destruct n as [|n']; [reflexivity|].
  destruct (firstn (S n') (after c U)) as [|p batch'] eqn:Eb.
  - destruct (after c U) as [|x R]; [reflexivity|discriminate].
  - pose proof (page_step U c (S n') HU) as Hp. unfold enumerate in Hp. rewrite Eb in Hp. specialize (Hp ltac:(discriminate)).
    set (batch := p :: batch') in *. set (c' := fst (last batch ([], []))) in *.
    assert (Hlb : (length batch <= S n')%nat) by (subst batch; rewrite <- Eb; apply firstn_le_length).
    assert (Hlk : (length (filter (not_deleted d) batch) <= S n')%nat)
      by (etransitivity; [apply filter_length_le_local|exact Hlb]).
    rewrite Hp. rewrite filter_app, firstn_app. rewrite firstn_all2 by exact Hlk. f_equal.
    apply IH; [exact HU|]. rewrite Hp in Hf. rewrite app_length in Hf. subst batch. cbn [length] in Hf. lia.
Qed.


Section Content2.
  Variable content : list N -> list N.
  Notation wfm := (wfm content).
  Notation op_ok := (op_ok content).
  Notation refines := (refines content).

  Lemma Forall_filter_local {A} (P : A -> Prop) (p : A -> bool) l : Forall P l -> Forall P (filter p l).
  Proof. intros H. apply Forall_forall. intros x Hx. apply filter_In in Hx as [Hx _]. rewrite Forall_forall in H. auto. Qed.

  Lemma wfm_filter (p : kv -> bool) m : wfm m -> wfm (filter p m).
  Proof. intros [A B]. split; [apply filter_sorted; exact A|apply Forall_filter_local; exact B]. Qed.

  (* ---- namespace: the inventory decides; the master keeps everything ---- *)
  Definition in_inv (inv : smap) (k : bytes) : bool := match lookup k inv with Some _ => true | None => false end.
  Definition ns_abs (tm : triple) (s : st) : smap :=
    match s with SNode [sm] inv => filter (fun p => in_inv inv (fst p)) (tA tm sm) | _ => [] end.
  Definition ns_ok (inv m : smap) : Prop :=
    ssorted inv /\ forall k sz, lookup k inv = Some sz -> exists b, lookup k m = Some b /\ sz = [blen b].
  Definition ns_inv (tm : triple) (s : st) : Prop :=
    match s with SNode [sm] inv => tI tm sm /\ ns_ok inv (tA tm sm) | _ => False end.

  Lemma lookup_ns inv m k : lookup k (filter (fun p => in_inv inv (fst p)) m) = if in_inv inv k then lookup k m else None.
  Proof. apply (lookup_filter (in_inv inv)). Qed.

  Lemma ns_inventory inv m : ssorted m -> ns_ok inv m -> inv = sized (filter (fun p => in_inv inv (fst p)) m).
  Proof.
    intros Hm [Hs Hi]. apply sorted_ext; [exact Hs|apply sized_sorted; apply filter_sorted; exact Hm|].
    intros k. rewrite lookup_sized, lookup_ns. unfold in_inv. destruct (lookup k inv) as [sz|] eqn:L; [|reflexivity].
    destruct (Hi k sz L) as (b & Lb & ->). rewrite Lb. reflexivity.
  Qed.

  Theorem namespace_refines tm : refines (tM tm) (tA tm) (tI tm) -> refines (namespace (tM tm)) (ns_abs tm) (ns_inv tm).
  Proof.
    intros Rm. split.
    - intros [m|[|sm [|x ks]] inv] Hi; try contradiction. destruct Hi as [Hm _]. cbn [ns_abs]. apply wfm_filter. exact (r_wf _ _ _ _ Rm sm Hm).
    - intros [m|[|sm [|x ks]] inv] o Hi Hok; try contradiction. destruct Hi as [Hm [Hs Hi]].
      pose proof (r_wf _ _ _ _ Rm sm Hm) as Wm. destruct Wm as [Sm Cm].
      destruct o as [r b sch|r|rs|c n|rs]; cbn [namespace].
      + (* receive *)
        destruct (lookup r inv) as [sz|] eqn:L.
        * cbn [fst snd ns_abs ns_inv spec_state spec_out]. split; [split; [exact Hm|split; assumption]|].
          rewrite lookup_ns. unfold in_inv. rewrite L. destruct (Hi r sz L) as (b0 & Lb & _). rewrite Lb. split; reflexivity.
        * destruct (r_step _ _ _ _ Rm sm _ Hm Hok) as (A1 & B1 & C1). destruct (tM tm sm _) as [sm1 x]. cbn [fst snd] in *. subst x.
          cbn [spec_out is_recv_ok fst snd ns_abs ns_inv].
          assert (Hl : forall k, lookup k (tA tm sm1) = if beqb k r then Some b else lookup k (tA tm sm)).
          { intros k. rewrite B1. apply (lookup_spec_recv content); [split; assumption|exact Hok]. }
          split; [split; [exact A1|split; [apply insert_sorted; exact Hs|]]|split; [|reflexivity]].
          -- intros k sz. rewrite lookup_insert, Hl. destruct (beqb k r) eqn:E.
             ++ intros [= <-]. exists b. split; reflexivity.
             ++ apply Hi.
          -- apply sorted_ext.
             ++ apply filter_sorted. rewrite B1. apply spec_state_sorted. exact Sm.
             ++ apply spec_state_sorted. apply filter_sorted. exact Sm.
             ++ intros k. rewrite lookup_ns, Hl. cbn [spec_state]. rewrite lookup_ns. unfold in_inv at 2. rewrite L.
                rewrite lookup_insert, lookup_ns. unfold in_inv. rewrite lookup_insert. destruct (beqb k r); reflexivity.
      + (* fetch *)
        destruct (lookup r inv) as [sz|] eqn:L.
        * destruct (r_step _ _ _ _ Rm sm (Fetch r) Hm I) as (A1 & B1 & C1). destruct (tM tm sm _) as [sm1 x]. cbn [fst snd spec_state spec_out] in *. subst x.
          cbn [fst snd ns_abs ns_inv]. rewrite B1. split; [split; [exact A1|split; assumption]|]. split; [reflexivity|].
          rewrite lookup_ns. unfold in_inv. rewrite L. destruct (Hi r sz L) as (b0 & Lb & ->). rewrite Lb, beqb_refl. reflexivity.
        * cbn [fst snd ns_abs ns_inv spec_state spec_out]. split; [split; [exact Hm|split; assumption]|]. split; [reflexivity|].
          rewrite lookup_ns. unfold in_inv. rewrite L. reflexivity.
      + (* stat *)
        cbn [fst snd ns_abs ns_inv spec_state spec_out]. split; [split; [exact Hm|split; assumption]|]. split; [reflexivity|].
        unfold stat_map. f_equal. f_equal. apply flat_map_ext. intros k. rewrite lookup_ns. unfold in_inv.
        destruct (lookup k inv) as [sz|] eqn:L; [|reflexivity]. destruct (Hi k sz L) as (b0 & Lb & ->). rewrite Lb. reflexivity.
      + (* enumerate *)
        cbn [fst snd ns_abs ns_inv spec_state spec_out]. split; [split; [exact Hm|split; assumption]|]. split; [reflexivity|].
        rewrite <- (ns_inventory inv (tA tm sm) Sm (conj Hs Hi)). reflexivity.
      + (* remove: only the inventory forgets *)
        cbn [fst snd ns_abs ns_inv spec_state spec_out].
        assert (Hl : forall k, lookup k (fold_left (fun i r => remove r i) rs inv) = if mem k rs then None else lookup k inv)
          by (intros k; apply lookup_fold_remove; exact Hs).
        split; [split; [exact Hm|split; [apply fold_remove_sorted; exact Hs|]]|split; [|reflexivity]].
        * intros k sz. rewrite Hl. destruct (mem k rs); [discriminate|apply Hi].
        * apply sorted_ext; [apply filter_sorted; exact Sm|apply fold_remove_sorted; apply filter_sorted; exact Sm|].
          intros k. rewrite lookup_ns, lookup_fold_remove by (apply filter_sorted; exact Sm). rewrite lookup_ns. unfold in_inv. rewrite Hl.
          destruct (mem k rs); reflexivity.
  Qed.

  Lemma overlay_enum_spec tl tu d : refines (tM tl) (tA tl) (tI tl) -> refines (tM tu) (tA tu) (tI tu) ->
    forall fuel sl su c n, tI tl sl -> tI tu su ->
    tI tl (fst (fst (overlay_enum fuel (tM tl) (tM tu) sl su d c n))) /\
    tI tu (snd (fst (overlay_enum fuel (tM tl) (tM tu) sl su d c n))) /\
    tA tl (fst (fst (overlay_enum fuel (tM tl) (tM tu) sl su d c n))) = tA tl sl /\
    tA tu (snd (fst (overlay_enum fuel (tM tl) (tM tu) sl su d c n))) = tA tu su /\
    snd (overlay_enum fuel (tM tl) (tM tu) sl su d c n) = ov_enum_spec fuel (sized (union [tA tl sl; tA tu su])) d c n.
  Proof.
    intros Rl Ru. induction fuel as [|f IH]; intros sl su c n Hl Hu; [cbn; auto|].
    cbn [overlay_enum ov_enum_spec]. destruct n as [|n']; [cbn; auto|].
    destruct (r_step _ _ _ _ Rl sl (Enum c (S n')) Hl I) as (A1 & B1 & C1).
    destruct (r_step _ _ _ _ Ru su (Enum c (S n')) Hu I) as (A2 & B2 & C2).
    destruct (tM tl sl _) as [sl1 ol]. destruct (tM tu su _) as [su1 ou]. cbn [fst snd spec_state spec_out] in *. subst ol ou.
    cbn [enum_list].
    pose proof (r_wf _ _ _ _ Rl sl Hl) as [Sl _]. pose proof (r_wf _ _ _ _ Ru su Hu) as [Su _].
    pose proof (union_enum [tA tl sl; tA tu su] c (S n') (Forall_cons _ Sl (Forall_cons _ Su (Forall_nil _)))) as He.
    cbn [map] in He. rewrite He. clear He.
    destruct (firstn (S n') (after c (sized (union [tA tl sl; tA tu su])))) as [|p batch'] eqn:Eb; [cbn; auto|].
    specialize (IH sl1 su1 (fst (last (p :: batch') ([], []))) (S n' - length (filter (not_deleted d) (p :: batch'))) A1 A2).
    destruct (overlay_enum f (tM tl) (tM tu) sl1 su1 d _ _) as [[sl2 su2] rest]. cbn [fst snd] in *.
    destruct IH as (I1 & I2 & I3 & I4 & I5). rewrite B1, B2 in *.
    repeat split; try assumption. rewrite I5. reflexivity.
  Qed.

  Lemma stat_two mu ml d rs : wfm mu -> wfm ml ->
    canon (stat_map mu (filter (fun r => match lookup r d with Some _ => false | None => true end) rs) ++
           stat_map ml (filter (fun r => negb (mem r (map fst (stat_map mu (filter (fun r => match lookup r d with Some _ => false | None => true end) rs)))))
                               (filter (fun r => match lookup r d with Some _ => false | None => true end) rs)))
    = stat_map (filter (not_deleted d) (union [ml; mu])) rs.
  Proof.
    intros Wu Wl. pose proof Wu as [Su _]. pose proof Wl as [Sl _]. apply sorted_ext; [apply canon_sorted|apply stat_map_sorted|]. intros k.
    set (ex := filter _ rs).
    rewrite lookup_canon. rewrite <- (app_nil_r (stat_map ml _)).
    change (stat_map mu ex ++ stat_map ml (filter (fun r => negb (mem r (map fst (stat_map mu ex)))) ex) ++ [])
      with (concat [stat_map mu ex; stat_map ml (filter (fun r => negb (mem r (map fst (stat_map mu ex)))) ex)]).
    rewrite lookup_concat. cbn [map first_some]. rewrite !lookup_stat_map, mem_filter, mem_keys_lookup, lookup_stat_map.
    subst ex. rewrite mem_filter. rewrite lookup_nd. unfold ndk.
    rewrite lookup_union_first by (repeat constructor; assumption). cbn [map first_some].
    destruct (mem k rs); cbn [andb]; [|reflexivity].
    destruct (lookup k d); cbn [andb]; [reflexivity|].
    destruct (lookup k mu) as [vu|] eqn:Lu; destruct (lookup k ml) as [vl|] eqn:Ll; cbn [option_map negb andb]; try reflexivity.
    rewrite (wfm_lookup content _ _ _ Wu Lu), (wfm_lookup content _ _ _ Wl Ll). reflexivity.
  Qed.

  Lemma lookup_ov d ml mu k : ssorted ml -> ssorted mu ->
    lookup k (filter (not_deleted d) (union [ml; mu])) =
    if ndk d k then match lookup k ml with Some v => Some v | None => lookup k mu end else None.
  Proof.
    intros Sl Su. rewrite lookup_nd, lookup_union_first by (repeat constructor; assumption). cbn [map first_some].
    destruct (ndk d k); [|reflexivity]. destruct (lookup k ml); [reflexivity|]. destruct (lookup k mu); reflexivity.
  Qed.

  Lemma ov_sorted d ml mu : ssorted ml -> ssorted mu -> ssorted (filter (not_deleted d) (union [ml; mu])).
  Proof. intros Sl Su. apply filter_sorted, union_sorted. repeat constructor; assumption. Qed.

  Theorem overlay_refines tl tu : refines (tM tl) (tA tl) (tI tl) -> refines (tM tu) (tA tu) (tI tu) -> bounded tl -> bounded tu ->
    refines (overlay true (tM tl) (tM tu)) (ov_abs tl tu) (ov_inv tl tu).
  Proof.
    intros Rl Ru Bl Bu. split.
    - intros [m|[|sl [|su [|x ks]]] d] Hi; try contradiction. destruct Hi as (Hl & Hu & _). cbn [ov_abs].
      apply wfm_filter. apply (wfm_union content). constructor; [exact (r_wf _ _ _ _ Rl sl Hl)|constructor; [exact (r_wf _ _ _ _ Ru su Hu)|constructor]].
    - intros [m|[|sl [|su [|x ks]]] d] o Hi Hok; try contradiction. destruct Hi as (Hl & Hu & Sd).
      pose proof (r_wf _ _ _ _ Rl sl Hl) as Wl. pose proof (r_wf _ _ _ _ Ru su Hu) as Wu.
      pose proof Wl as [Sl _]. pose proof Wu as [Su _].
      destruct o as [r b sch|r|rs|c n|rs]; cbn [overlay negb].
      + (* receive: into the upper layer; the ref is no longer deleted *)
        destruct (r_step _ _ _ _ Ru su _ Hu Hok) as (A2 & B2 & C2). destruct (tM tu su _) as [su1 x]. cbn [fst snd] in *. subst x.
        cbn [spec_out is_recv_ok andb fst snd ov_abs ov_inv].
        pose proof (r_wf _ _ _ _ Ru su1 A2) as [Su1 _].
        split; [split; [exact Hl|split; [exact A2|apply remove_sorted; exact Sd]]|split; [|reflexivity]].
        apply sorted_ext; [apply ov_sorted; assumption|apply spec_state_sorted; apply ov_sorted; assumption|].
        intros k. rewrite lookup_ov by assumption. rewrite B2, (lookup_spec_recv content) by assumption.
        unfold ndk. rewrite lookup_remove by exact Sd.
        cbn [spec_state]. rewrite (lookup_ov d _ _ r Sl Su).
        destruct (beqb k r) eqn:E.
        * apply beqb_eq in E. subst k.
          destruct (lookup r (tA tl sl)) as [v|] eqn:Lr.
          -- rewrite (wfm_lookup content _ _ _ Wl Lr). destruct (ndk d r) eqn:En.
             ++ rewrite lookup_ov, En, Lr by assumption. rewrite (wfm_lookup content _ _ _ Wl Lr). reflexivity.
             ++ rewrite lookup_insert, beqb_refl. congruence.
          -- destruct (ndk d r) eqn:En.
             ++ destruct (lookup r (tA tu su)) as [v|] eqn:Lu.
                ** rewrite lookup_ov, En, Lr, Lu by assumption. rewrite (wfm_lookup content _ _ _ Wu Lu). congruence.
                ** rewrite lookup_insert, beqb_refl. reflexivity.
             ++ rewrite lookup_insert, beqb_refl. reflexivity.
        * fold (ndk d k).
          assert (Hk : lookup k (match (if ndk d r then match lookup r (tA tl sl) with Some v => Some v | None => lookup r (tA tu su) end else None) with
                                 | Some _ => filter (not_deleted d) (union [tA tl sl; tA tu su])
                                 | None => insert r b (filter (not_deleted d) (union [tA tl sl; tA tu su])) end)
                       = lookup k (filter (not_deleted d) (union [tA tl sl; tA tu su]))).
          { destruct (if ndk d r then _ else None); [reflexivity|]. rewrite lookup_insert, E. reflexivity. }
          rewrite Hk, lookup_ov by assumption. reflexivity.
      + (* fetch *)
        cbn [ov_abs spec_state spec_out]. rewrite lookup_ov by assumption. unfold ndk.
        destruct (lookup r d) as [one'|] eqn:Ld.
        * cbn [fst snd ov_abs ov_inv]. split; [split; [exact Hl|split; assumption]|]. split; reflexivity.
        * destruct (r_step _ _ _ _ Ru su (Fetch r) Hu I) as (A2 & B2 & C2). destruct (tM tu su _) as [su1 x]. cbn [fst snd spec_state spec_out] in *. subst x.
          destruct (lookup r (tA tu su)) as [vu|] eqn:Lu.
          -- cbn [fst snd ov_abs ov_inv]. rewrite B2. split; [split; [exact Hl|split; assumption]|]. split; [reflexivity|].
             destruct (lookup r (tA tl sl)) as [vl|] eqn:Ll; [|reflexivity].
             rewrite (wfm_lookup content _ _ _ Wl Ll), (wfm_lookup content _ _ _ Wu Lu). reflexivity.
          -- destruct (r_step _ _ _ _ Rl sl (Fetch r) Hl I) as (A1 & B1 & C1). destruct (tM tl sl _) as [sl1 y]. cbn [fst snd spec_state spec_out] in *. subst y.
             cbn [fst snd ov_abs ov_inv]. rewrite B1, B2. split; [split; [exact A1|split; assumption]|]. split; [reflexivity|].
             destruct (lookup r (tA tl sl)); reflexivity.
      + (* stat *)
        set (ex := filter _ rs).
        destruct (r_step _ _ _ _ Ru su (Stat ex) Hu I) as (A2 & B2 & C2). destruct (tM tu su _) as [su1 x]. cbn [fst snd spec_state spec_out] in *. subst x.
        set (lowerq := filter _ ex).
        destruct (r_step _ _ _ _ Rl sl (Stat lowerq) Hl I) as (A1 & B1 & C1). destruct (tM tl sl _) as [sl1 y]. cbn [fst snd spec_state spec_out] in *. subst y.
        cbn [fst snd ov_abs ov_inv]. rewrite B1, B2. split; [split; [exact A1|split; assumption]|]. split; [reflexivity|].
        f_equal. subst lowerq ex. apply stat_two; assumption.
      + (* enumerate: the refill loop *)
        pose proof (overlay_enum_spec tl tu d Rl Ru (S (S (n + size_of sl + size_of su))) sl su c n Hl Hu) as (E1 & E2 & E3 & E4 & E5).
        destruct (overlay_enum _ (tM tl) (tM tu) sl su d c n) as [[sl' su'] l]. cbn [fst snd ov_abs ov_inv spec_state spec_out] in *.
        rewrite E3, E4. split; [split; [exact E1|split; assumption]|]. split; [reflexivity|]. f_equal. rewrite E5.
        rewrite ov_enum_spec_exact.
        * rewrite sized_filter_nd. unfold after at 2. rewrite filter_comm. reflexivity.
        * apply sized_sorted, union_sorted. repeat constructor; assumption.
        * eapply Nat.le_lt_trans; [apply filter_length_le_local|]. unfold sized. rewrite map_length. cbn [union fold_right].
          rewrite merge_nil_r. pose proof (merge_length (tA tl sl) (tA tu su)). pose proof (Bl sl Hl). pose proof (Bu su Hu). lia.
      + (* remove: upper layer, then the deleted index *)
        destruct (r_step _ _ _ _ Ru su (Remove rs) Hu I) as (A2 & B2 & C2). destruct (tM tu su _) as [su1 x]. cbn [fst snd] in *. subst x.
        cbn [spec_out is_ok fst snd ov_abs ov_inv spec_state].
        pose proof (r_wf _ _ _ _ Ru su1 A2) as [Su1 _].
        split; [split; [exact Hl|split; [exact A2|apply fold_insert_one_sorted; exact Sd]]|split; [|reflexivity]].
        apply sorted_ext; [apply ov_sorted; assumption|apply fold_remove_sorted; apply ov_sorted; assumption|].
        intros k. rewrite lookup_ov by assumption. rewrite lookup_fold_remove by (apply ov_sorted; assumption). rewrite lookup_ov by assumption.
        unfold ndk. rewrite lookup_fold_insert_one. rewrite B2. cbn [spec_state]. rewrite lookup_fold_remove by exact Su.
        destruct (mem k rs); reflexivity.
  Qed.

  (* ---- what a store can enumerate is bounded by what its state tree holds ---- *)
  Lemma leaf_bounded : bounded (leaf true, leaf_abs, leaf_inv content).
  Proof. intros [m|ks aux] H; [cbn; lia|contradiction]. Qed.

  Lemma union_absl_length T : Forall bounded T -> forall ks aux, invl T ks ->
    (length (union (absl T ks)) <= size_of (SNode ks aux))%nat.
  Proof.
    intros HB ks aux Hi. unfold invl in Hi. induction Hi as [|t k T ks Ht Hi IH]; [cbn; lia|].
    inversion HB as [|? ? Bt BT]; subst. specialize (IH BT).
    cbn [absl map2 union fold_right size_of] in *. fold (absl T ks). fold (union (absl T ks)).
    pose proof (merge_length (tA t k) (union (absl T ks))). pose proof (Bt k Ht). lia.
  Qed.

  Lemma node_bounded T : Forall bounded T -> bounded (replica (map tM T), node_abs T, node_inv T).
  Proof. intros HB [m|ks aux] H; [contradiction|]. cbn [tA tI fst snd node_abs node_inv] in *. apply union_absl_length; assumption. Qed.
  Lemma shard_bounded T : Forall bounded T -> bounded (shard (map tM T), shard_abs T, shard_inv T).
  Proof. intros HB [m|ks aux] H; [contradiction|]. cbn [tA tI fst snd shard_abs shard_inv] in *. destruct H as [H _]. apply union_absl_length; assumption. Qed.
  Lemma cond_bounded ta tb : bounded ta -> bounded (cond (tM ta) (tM tb), cond_abs ta, cond_inv ta tb).
  Proof.
    intros Ba [m|[|sa [|sb [|x ks]]] aux] H; try contradiction. cbn [tA tI fst snd cond_abs cond_inv size_of fold_right] in *.
    destruct H as [Ha _]. pose proof (Ba sa Ha). lia.
  Qed.
  Lemma pc_bounded tc to : bounded to -> bounded (proxycache (tM tc) (tM to), pc_abs to, pc_inv tc to).
  Proof.
    intros Bo [m|[|sc [|so [|x ks]]] aux] H; try contradiction. cbn [tA tI fst snd pc_abs pc_inv size_of fold_right] in *.
    destruct H as (_ & Ho & _). pose proof (Bo so Ho). lia.
  Qed.
  Lemma ns_bounded tm : bounded tm -> bounded (namespace (tM tm), ns_abs tm, ns_inv tm).
  Proof.
    intros Bm [m|[|sm [|x ks]] inv] H; try contradiction. cbn [tA tI fst snd ns_abs ns_inv size_of fold_right] in *.
    destruct H as [Hm _]. pose proof (Bm sm Hm). pose proof (filter_length_le_local (fun p => in_inv inv (fst p)) (tA tm sm)). lia.
  Qed.
  Lemma ov_bounded tl tu : bounded tl -> bounded tu -> bounded (overlay true (tM tl) (tM tu), ov_abs tl tu, ov_inv tl tu).
  Proof.
    intros Bl Bu [m|[|sl [|su [|x ks]]] d] H; try contradiction. cbn [tA tI fst snd ov_abs ov_inv size_of fold_right] in *.
    destruct H as (Hl & Hu & _). pose proof (Bl sl Hl) as P1. pose proof (Bu su Hu) as P2.
    pose proof (filter_length_le_local (not_deleted d) (union [tA tl sl; tA tu su])) as P3. cbn [union fold_right] in P3 |- *.
    rewrite merge_nil_r in P3 |- *. pose proof (merge_length (tA tl sl) (tA tu su)). lia.
  Qed.
  (* ---- union (read-only): reads answer as the first-wins union of the members; writes are refused (C01.union_rejects_writes) ---- *)
  Definition is_read (o : op) : Prop := match o with Fetch _ | Stat _ | Enum _ _ => True | _ => False end.

  Lemma find_bytes r ms :
    find (fun o => match o with OBytes _ => true | _ => false end) (map (fun m => spec_out m (Fetch r)) ms) =
    option_map OBytes (first_some (map (lookup r) ms)).
  Proof.
    induction ms as [|m ms IH]; [reflexivity|]. cbn [map find spec_out first_some].
    destruct (lookup r m) as [b|]; [reflexivity|exact IH].
  Qed.

  Lemma first_bytes_spec r ms :
    first_bytes (map (fun m => spec_out m (Fetch r)) ms) =
    match first_some (map (lookup r) ms) with Some b => OBytes b | None => OErr ENotFound end.
  Proof.
    unfold first_bytes. rewrite find_bytes. destruct (first_some (map (lookup r) ms)) as [b|] eqn:S; [reflexivity|].
    cbn [option_map]. destruct ms as [|m ms]; [reflexivity|]. cbn [map first_some spec_out] in *.
    destruct (lookup r m); [discriminate|reflexivity].
  Qed.

  Theorem union_reads_refine T : okl content T -> forall s o, node_inv T s -> is_read o ->
    node_inv T (fst (union_m (map tM T) s o)) /\
    node_abs T (fst (union_m (map tM T) s o)) = node_abs T s /\
    snd (union_m (map tM T) s o) = spec_out (node_abs T s) o.
  Proof.
    intros Hok [m|ks aux] o Hi Hr; [contradiction|]. cbn [node_inv node_abs] in *.
    pose proof (absl_wf content T ks Hok Hi) as Hw. pose proof (wfm_sorted_all content _ Hw) as Hs.
    assert (Ho : op_ok o) by (destruct o; try contradiction; exact I).
    destruct (kid_steps_spec content T ks o Hok Hi Ho) as (A & B & C). cbv zeta in A, B, C.
    destruct o as [r b sc|r|rs|c n|rs]; try contradiction; cbn [union_m fst snd node_inv node_abs].
    - split; [exact A|]. split; [rewrite B; cbn [spec_state]; rewrite map_id; reflexivity|].
      rewrite C, first_bytes_spec. cbn [spec_out]. rewrite lookup_union_first by exact Hs. reflexivity.
    - split; [exact A|]. split; [rewrite B; cbn [spec_state]; rewrite map_id; reflexivity|].
      rewrite C, has_err_stat. rewrite <- (map_map snd stat_list), C, map_map. cbn [spec_out stat_list].
      f_equal. apply union_stat. exact Hs.
    - split; [exact A|]. split; [rewrite B; cbn [spec_state]; rewrite map_id; reflexivity|].
      rewrite C, has_err_enum. rewrite <- (map_map snd enum_list), C, map_map. cbn [spec_out enum_list].
      f_equal. apply union_enum. exact Hs.
  Qed.
End Content2.

Lemma refill_needs_rounds :
  let U := [([1%N], [1%N]); ([2%N], [1%N]); ([3%N], [1%N]); ([4%N], [1%N])] in
  let d := [([1%N], one); ([2%N], one); ([3%N], one)] in
  ov_enum_spec 3 U d [] 1 = [] /\ firstn 1 (filter (not_deleted d) (after [] U)) = [([4%N], [1%N])].
Proof. vm_compute. split; reflexivity. Qed.

(* ================= every nesting of the proved combinators ================= *)
Section Nest.
  Variable content : list N -> list N.

  (* machine, abstraction function and invariant of a configuration *)
  Fixpoint trip (c : cfg) : triple :=
    match c with
    | Leaf cr => (leaf cr, leaf_abs, leaf_inv content)
    | Replica subs => let T := map trip subs in (replica (map tM T), node_abs T, node_inv T)
    | Shard subs => let T := map trip subs in (shard (map tM T), shard_abs T, shard_inv T)
    | Cond a b => (cond (tM (trip a)) (tM (trip b)), cond_abs (trip a), cond_inv (trip a) (trip b))
    | ProxyCache c o => (proxycache (tM (trip c)) (tM (trip o)), pc_abs (trip o), pc_inv (trip c) (trip o))
    | Namespace m => (namespace (tM (trip m)), ns_abs (trip m), ns_inv (trip m))
    | Overlay true l u => (overlay true (tM (trip l)) (tM (trip u)), ov_abs (trip l) (trip u), ov_inv (trip l) (trip u))
    | _ => (sem c, (fun _ => []), (fun _ => False))
    end.

  (* the shapes covered by the theorem: any nesting of replicas (all replicas written and read), shards, cond,
     proxycache (eviction aside), namespace and overlay (with a deleted index) over leaves that support removal *)
  Fixpoint shape_ok (c : cfg) : bool :=
    match c with
    | Leaf cr => cr
    | Replica subs | Shard subs => negb (match subs with [] => true | _ => false end) && forallb shape_ok subs
    | Cond a b => shape_ok a && shape_ok b
    | ProxyCache c o => shape_ok c && shape_ok o
    | Namespace m => shape_ok m
    | Overlay true l u => shape_ok l && shape_ok u
    | _ => false
    end.

  Lemma cfg_ind' (P : cfg -> Prop) :
    (forall cr, P (Leaf cr)) ->
    (forall subs, Forall P subs -> P (Replica subs)) ->
    (forall subs, Forall P subs -> P (Shard subs)) -> (forall subs, P (Union subs)) ->
    (forall d l u, P l -> P u -> P (Overlay d l u)) -> (forall m, P m -> P (Namespace m)) ->
    (forall c o, P c -> P o -> P (ProxyCache c o)) -> (forall a b, P a -> P b -> P (Cond a b)) ->
    forall c, P c.
  Proof.
    intros HL HR HS HU HO HN HP HC. fix IH 1. intros [cr|subs|subs|subs|d l u|m|c o|a b].
    - apply HL.
    - apply HR. induction subs as [|x xs IHxs]; constructor; [apply IH|exact IHxs].
    - apply HS. induction subs as [|x xs IHxs]; constructor; [apply IH|exact IHxs].
    - apply HU.
    - apply HO; apply IH.
    - apply HN; apply IH.
    - apply HP; apply IH.
    - apply HC; apply IH.
  Qed.

  Lemma kids_refine subs : Forall (fun c => shape_ok c = true -> tM (trip c) = sem c /\ refines content (sem c) (tA (trip c)) (tI (trip c)) /\ bounded (trip c)) subs ->
    (forall x, In x subs -> shape_ok x = true) ->
    map tM (map trip subs) = map sem subs /\ okl content (map trip subs) /\ Forall bounded (map trip subs).
  Proof.
    intros IH Hall. split; [|split].
    - rewrite map_map. apply map_ext_in. intros x Hx. rewrite Forall_forall in IH. apply (IH x Hx). apply Hall. exact Hx.
    - apply Forall_map. apply Forall_forall. intros x Hx. rewrite Forall_forall in IH.
      destruct (IH x Hx (Hall x Hx)) as (E & R & _). rewrite E. exact R.
    - apply Forall_map. apply Forall_forall. intros x Hx. rewrite Forall_forall in IH.
      destruct (IH x Hx (Hall x Hx)) as (_ & _ & B). exact B.
  Qed.

  Theorem nest_refines_bounded : forall c, shape_ok c = true ->
    tM (trip c) = sem c /\ refines content (sem c) (tA (trip c)) (tI (trip c)) /\ bounded (trip c).
  Proof.
    induction c as [cr|subs IH|subs IH|subs|[|] l u IHl IHu|m IHm|c o IHc IHo|a b IHa IHb] using cfg_ind'; cbn [shape_ok]; intros Hs; try discriminate.
    - subst cr. split; [reflexivity|]. split; [cbn [trip tA tI sem fst snd]; apply leaf_refines|apply leaf_bounded].
    - apply andb_true_iff in Hs as [Hne Hall]. rewrite forallb_forall in Hall.
      destruct (kids_refine subs IH Hall) as (HM & Hok & HB).
      split; [cbn [trip tM fst]; rewrite HM; reflexivity|]. split; [|apply node_bounded; exact HB].
      cbn [trip tA tI fst snd sem]. rewrite <- HM. apply replica_refines; [exact Hok|destruct subs; discriminate].
    - apply andb_true_iff in Hs as [Hne Hall]. rewrite forallb_forall in Hall.
      destruct (kids_refine subs IH Hall) as (HM & Hok & HB).
      split; [cbn [trip tM fst]; rewrite HM; reflexivity|]. split; [|apply shard_bounded; exact HB].
      cbn [trip tA tI fst snd sem]. rewrite <- HM. apply shard_refines; [exact Hok|destruct subs; discriminate].
    - apply andb_true_iff in Hs as [Hl Hu]. destruct (IHl Hl) as (El & Rl & Bl). destruct (IHu Hu) as (Eu & Ru & Bu).
      split; [cbn [trip tM fst]; rewrite El, Eu; reflexivity|]. split; [|apply ov_bounded; assumption].
      cbn [trip tA tI fst snd sem]. rewrite <- El, <- Eu. apply overlay_refines; [rewrite El; exact Rl|rewrite Eu; exact Ru|exact Bl|exact Bu].
    - destruct (IHm Hs) as (Em & Rm & Bm).
      split; [cbn [trip tM fst]; rewrite Em; reflexivity|]. split; [|apply ns_bounded; exact Bm].
      cbn [trip tA tI fst snd sem]. rewrite <- Em. apply namespace_refines. rewrite Em. exact Rm.
    - apply andb_true_iff in Hs as [Hc Ho]. destruct (IHc Hc) as (Ec & Rc & Bc). destruct (IHo Ho) as (Eo & Ro & Bo).
      split; [cbn [trip tM fst]; rewrite Ec, Eo; reflexivity|]. split; [|apply pc_bounded; exact Bo].
      cbn [trip tA tI fst snd sem]. rewrite <- Ec, <- Eo. apply proxycache_refines; [rewrite Ec; exact Rc|rewrite Eo; exact Ro].
    - apply andb_true_iff in Hs as [Ha Hb]. destruct (IHa Ha) as (Ea & Ra & Ba). destruct (IHb Hb) as (Eb & Rb & Bb).
      split; [cbn [trip tM fst]; rewrite Ea, Eb; reflexivity|]. split; [|apply cond_bounded; exact Ba].
      cbn [trip tA tI fst snd sem]. rewrite <- Ea, <- Eb. apply cond_refines; [rewrite Ea; exact Ra|rewrite Eb; exact Rb].
  Qed.

  Theorem nest_refines : forall c, shape_ok c = true ->
    tM (trip c) = sem c /\ refines content (sem c) (tA (trip c)) (tI (trip c)).
  Proof. intros c Hs. destruct (nest_refines_bounded c Hs) as (A & B & _). split; assumption. Qed.

  Lemma kids_init subs : Forall (fun c => shape_ok c = true -> tI (trip c) (init c)) subs -> (forall x, In x subs -> shape_ok x = true) ->
    invl (map trip subs) (map init subs).
  Proof.
    intros IH Hall. unfold invl. induction subs as [|x xs IHx]; [constructor|]. cbn [map]. inversion IH; subst.
    constructor; [apply H1; apply Hall; left; reflexivity|apply IHx; [assumption|intros y Hy; apply Hall; right; exact Hy]].
  Qed.

  Lemma kids_abs subs : Forall (fun c => shape_ok c = true -> tA (trip c) (init c) = []) subs -> (forall x, In x subs -> shape_ok x = true) ->
    Forall (fun m => m = []) (absl (map trip subs) (map init subs)).
  Proof.
    intros IH Hall. induction subs as [|x xs IHx]; [constructor|]. cbn [map absl map2]. inversion IH; subst.
    constructor; [apply H1; apply Hall; left; reflexivity|apply IHx; [assumption|intros y Hy; apply Hall; right; exact Hy]].
  Qed.

  Lemma union_all_nil ms : Forall (fun m => m = []) ms -> union ms = [].
  Proof. intros H. induction H as [|m ms -> _ IH]; [reflexivity|]. cbn [union fold_right]. fold (union ms). rewrite IH. reflexivity. Qed.

  Lemma init_abs : forall c, shape_ok c = true -> tA (trip c) (init c) = [].
  Proof.
    induction c as [cr|subs IH|subs IH|subs|[|] l u IHl IHu|m IHm|c o IHc IHo|a b IHa IHb] using cfg_ind'; cbn [shape_ok]; intros Hs; try discriminate.
    - reflexivity.
    - apply andb_true_iff in Hs as [_ Hall]. rewrite forallb_forall in Hall. cbn [trip tA fst snd init node_abs].
      apply union_all_nil. apply kids_abs; assumption.
    - apply andb_true_iff in Hs as [_ Hall]. rewrite forallb_forall in Hall. cbn [trip tA fst snd init shard_abs].
      apply union_all_nil. apply kids_abs; assumption.
    - apply andb_true_iff in Hs as [Hl Hu]. cbn [trip tA fst snd init ov_abs]. rewrite (IHl Hl), (IHu Hu). reflexivity.
    - cbn [trip tA fst snd init ns_abs]. rewrite (IHm Hs). reflexivity.
    - apply andb_true_iff in Hs as [Hc Ho]. cbn [trip tA fst snd init pc_abs]. apply IHo. exact Ho.
    - apply andb_true_iff in Hs as [Ha Hb]. cbn [trip tA fst snd init cond_abs]. apply IHa. exact Ha.
  Qed.

  Lemma init_inv : forall c, shape_ok c = true -> tI (trip c) (init c).
  Proof.
    induction c as [cr|subs IH|subs IH|subs|[|] l u IHl IHu|m IHm|c o IHc IHo|a b IHa IHb] using cfg_ind'; cbn [shape_ok]; intros Hs; try discriminate.
    - cbn. split; constructor.
    - apply andb_true_iff in Hs as [_ Hall]. rewrite forallb_forall in Hall. cbn [trip tI snd init node_inv]. apply kids_init; assumption.
    - apply andb_true_iff in Hs as [_ Hall]. rewrite forallb_forall in Hall. cbn [trip tI snd init shard_inv].
      split; [apply kids_init; assumption|].
      assert (Hnil : Forall (fun m => m = []) (absl (map trip subs) (map init subs))).
      { apply kids_abs; [|exact Hall]. apply Forall_forall. intros x Hx Hsx. apply init_abs. exact Hsx. }
      intros i m k v Hi Hl. rewrite Forall_forall in Hnil. rewrite (Hnil m (nth_error_In _ _ Hi)) in Hl. discriminate.
    - apply andb_true_iff in Hs as [Hl Hu]. cbn [trip tI snd init ov_inv]. split; [apply IHl; exact Hl|]. split; [apply IHu; exact Hu|constructor].
    - cbn [trip tI snd init ns_inv]. split; [apply IHm; exact Hs|]. split; [constructor|]. intros k sz Hk. discriminate.
    - apply andb_true_iff in Hs as [Hc Ho]. cbn [trip tI snd init pc_inv]. split; [apply IHc; exact Hc|]. split; [apply IHo; exact Ho|].
      rewrite (init_abs c Hc). intros k v Hl. discriminate.
    - apply andb_true_iff in Hs as [Ha Hb]. cbn [trip tI snd init cond_inv]. split; [apply IHa; exact Ha|apply IHb; exact Hb].
  Qed.

  Fixpoint run_spec (m : smap) (ops : list op) : list out :=
    match ops with [] => [] | o :: r => spec_out m o :: run_spec (spec_state m o) r end.

  Theorem run_refines M A I : refines content M A I -> forall ops s, I s -> Forall (op_ok content) ops ->
    run M s ops = run_spec (A s) ops.
  Proof.
    intros R. induction ops as [|o ops IH]; intros s Hi Hok; [reflexivity|]. inversion Hok; subst.
    destruct (r_step _ _ _ _ R s o Hi) as (A1 & B1 & C1); [assumption|].
    cbn [run run_spec]. destruct (M s o) as [s' x]. cbn [fst snd] in *. subst x. f_equal. rewrite <- B1. apply IH; assumption.
  Qed.

  Theorem nest_behaves_as_map c ops : shape_ok c = true -> Forall (op_ok content) ops ->
    run (sem c) (init c) ops = run_spec [] ops.
  Proof.
    intros Hs Hok. destruct (nest_refines c Hs) as [_ R].
    rewrite (run_refines _ _ _ R ops (init c) (init_inv c Hs) Hok). rewrite init_abs by exact Hs. reflexivity.
  Qed.
End Nest.

From Coq Require Import List NArith Bool Lia Arith Sorted ZifyBool ZifyN ZifyNat.
From PK.Model Require Import C19.
Import ListNotations.

(* ================= sets as lists ================= *)
Lemma mem_cons b x l : mem b (x :: l) = N.eqb b x || mem b l.
Proof. reflexivity. Qed.
Lemma mem_add b x l : mem b (add x l) = N.eqb b x || mem b l.
Proof.
  unfold add. destruct (mem x l) eqn:E; [|reflexivity].
  destruct (N.eqb_spec b x) as [->|]; [rewrite E; reflexivity|reflexivity].
Qed.
Lemma mem_del b x l : mem b (del x l) = negb (N.eqb b x) && mem b l.
Proof.
  unfold del, mem. induction l as [|y l IH]; [rewrite andb_false_r; reflexivity|]. cbn [filter existsb].
  destruct (N.eqb_spec y x) as [->|Hn]; cbn [negb existsb].
  - rewrite IH. destruct (N.eqb_spec b x); cbn; reflexivity.
  - rewrite IH. destruct (N.eqb_spec b x) as [->|]; cbn; [|reflexivity].
    destruct (N.eqb_spec x y); [congruence|reflexivity].
Qed.
Lemma mem_del1 b x l : mem b (del1 x l) = true -> mem b l = true.
Proof.
  induction l as [|y l IH]; [trivial|]. cbn [del1]. destruct (N.eqb_spec y x); rewrite ?mem_cons.
  - intros ->. apply orb_true_r.
  - intros H. apply orb_true_iff in H as [H|H]; [rewrite H; reflexivity|rewrite (IH H); apply orb_true_r].
Qed.
Lemma mem_In b l : mem b l = true <-> In b l.
Proof. unfold mem. rewrite existsb_exists. split; [intros (x & H & E); apply N.eqb_eq in E; subst; exact H|intros H; exists b; split; [exact H|apply N.eqb_refl]]. Qed.

Lemma NoDup_add x l : NoDup l -> NoDup (add x l).
Proof. unfold add. destruct (mem x l) eqn:E; [trivial|]. intros H. constructor; [|exact H]. intros X. apply mem_In in X. congruence. Qed.
Lemma NoDup_del x l : NoDup l -> NoDup (del x l).
Proof. apply NoDup_filter. Qed.

Lemma stage_cset b x s c : stage_of b (cset x s c) = if N.eqb x b then Some s else stage_of b c.
Proof.
  unfold stage_of, cset. cbn [find fst snd]. destruct (N.eqb_spec x b) as [->|Hn]; [reflexivity|].
  unfold cdel. induction c as [|[y t] c IH]; [reflexivity|]. cbn [filter fst find].
  destruct (N.eqb_spec y x) as [->|Hy]; cbn [negb find fst].
  - destruct (N.eqb_spec x b); [congruence|exact IH].
  - destruct (N.eqb y b); [reflexivity|exact IH].
Qed.
Lemma stage_cdel b x c : stage_of b (cdel x c) = if N.eqb x b then None else stage_of b c.
Proof.
  unfold stage_of, cdel. induction c as [|[y t] c IH]; [destruct (N.eqb x b); reflexivity|]. cbn [filter fst find].
  destruct (N.eqb_spec y x) as [->|Hy]; cbn [negb find fst].
  - destruct (N.eqb_spec x b); [exact IH|exact IH].
  - destruct (N.eqb_spec y b) as [->|]; [|exact IH]. destruct (N.eqb_spec x b); [congruence|reflexivity].
Qed.

(* ================= the invariant ================= *)
Record Inv (s : st) : Prop := {
  I_durable : forall b, mem b (acked s) = true -> mem b (dest s) = true \/ mem b (queue s) = true;
  I_pending : forall b, mem b (acked s) = true -> mem b (dest s) = true \/ mem b (need s) = true;
  I_okd : forall b, mem b (okd s) = true -> (mem b (dest s) = true \/ mem b (queue s) = true) /\ (mem b (dest s) = true \/ mem b (need s) = true);
  I_pend : forall b, mem b (pend s) = true -> mem b (src s) = true /\ (mem b (dest s) = true \/ mem b (need s) = true);
  I_dest : forall b, mem b (dest s) = true -> mem b (src s) = true;
  I_queue : forall b, mem b (queue s) = true -> mem b (src s) = true;
  I_need : forall b, mem b (need s) = true -> mem b (src s) = true;
  I_cop : forall b t, stage_of b (cop s) = Some t ->
            mem b (need s) = true /\ match t with Fetched => True | _ => mem b (dest s) = true end;
  I_nd_need : NoDup (need s);
  I_nd_queue : NoDup (queue s)
}.

Lemma inv_init : Inv init.
Proof. constructor; cbn; try discriminate; try constructor. Qed.

Ltac msimp := rewrite ?mem_add, ?mem_del, ?mem_cons, ?stage_cset, ?stage_cdel in *.
Ltac eqcases :=
  repeat match goal with
  | |- context [N.eqb ?x ?y] => destruct (N.eqb_spec x y); subst; cbn [orb andb negb] in *
  | H : context [N.eqb ?x ?y] |- _ => destruct (N.eqb_spec x y); subst; cbn [orb andb negb] in *
  end.
Ltac props := rewrite ?orb_true_iff, ?andb_true_iff in *.

Lemma inv_step s e s' : Inv s -> step s e = Some s' -> Inv s'.
Proof.
  intros [Hd Hp Ho Hpe Hde Hq Hn Hc N1 N2] H.
  assert (Hc1 : forall b t, stage_of b (cop s) = Some t -> mem b (need s) = true) by (intros b t X; apply (Hc b t X)).
  assert (Hc2 : forall b t, stage_of b (cop s) = Some t -> t <> Fetched -> mem b (dest s) = true)
    by (intros b t X Y; destruct (Hc b t X) as [_ Z]; destruct t; [congruence|exact Z|exact Z]).
  destruct e as [b|b ok|b|b o|b o|b ok|b|]; cbn [step] in H;
    repeat match type of H with
    | (if ?c then _ else _) = Some _ => let E := fresh "E" in destruct c eqn:E; [|discriminate]
    | match ?c with _ => _ end = Some _ => let E := fresh "E" in destruct c as [[]|] eqn:E; try discriminate
    end;
    injection H as <-; constructor; cbn [upd src dest queue need pend okd cop acked].
  all: try (apply NoDup_add; assumption); try (apply NoDup_del; assumption); try assumption.
  all: try (destruct ok); try (destruct o); try assumption; try (apply NoDup_add; assumption); try (apply NoDup_del; assumption).
  all: try (intros x Hx; try (apply mem_del1 in Hx);
            pose proof (Hd x) as Hd'; pose proof (Hp x) as Hp'; pose proof (Ho x) as Ho'; pose proof (Hpe x) as Hpe';
            pose proof (Hde x) as Hde'; pose proof (Hq x) as Hq'; pose proof (Hn x) as Hn';
            try (pose proof (Hpe b) as Hpb); try (pose proof (Ho b) as Hob); try (pose proof (Hn b) as Hnb);
            try (pose proof (Hc1 b _ E) as Hcb1); try (pose proof (Hc2 b _ E) as Hcb2);
            msimp; eqcases; props; try discriminate;
            solve [intuition (try congruence; try discriminate)]).
  all: intros x t Hx; msimp;
    try (destruct (N.eqb_spec b x) as [->|Hne]; [try discriminate; try (injection Hx as <-)|]);
    try (destruct (Hc _ _ Hx) as [A B]);
    try (match goal with E : stage_of _ (cop _) = Some _ |- _ => destruct (Hc _ _ E) as [A' B'] end);
    split; msimp; eqcases; rewrite ?A, ?A', ?orb_true_r; try reflexivity; try assumption; try congruence;
    try (destruct t; try exact I; rewrite ?B, ?B', ?orb_true_r; try reflexivity; try assumption).
Qed.

Theorem inv_reachable : forall es s, run init es = Some s -> Inv s.
Proof.
  assert (G : forall es s0 s, Inv s0 -> run s0 es = Some s -> Inv s).
  { induction es as [|e es IH]; intros s0 s H0 H; cbn [run] in H; [injection H as <-; exact H0|].
    destruct (step s0 e) as [s1|] eqn:E; [|discriminate]. eapply IH; [eapply inv_step; eassumption|exact H]. }
  intros es s. apply G. exact inv_init.
Qed.

(* a queue row disappears only when the destination holds the blob *)
Theorem row_leaves_after_ack : forall s e s' b, Inv s -> step s e = Some s' ->
  mem b (queue s) = true -> mem b (queue s') = false -> mem b (dest s') = true.
Proof.
  intros s e s' b HI H Hq Hq'. pose proof (I_cop s HI) as Hc.
  destruct e as [x|x ok|x|x o|x o|x ok|x|]; cbn [step] in H;
    repeat match type of H with
    | (if ?c then _ else _) = Some _ => let E := fresh "E" in destruct c eqn:E; [|discriminate]
    | match ?c with _ => _ end = Some _ => let E := fresh "E" in destruct c as [[]|] eqn:E; try discriminate
    end;
    injection H as <-; cbn [upd src dest queue need pend okd cop acked] in *; try congruence.
  - destruct ok; [|congruence]. rewrite mem_add, Hq, orb_true_r in Hq'. discriminate.
  - destruct ok; [|congruence]. rewrite mem_del, Hq, andb_true_r in Hq'. apply negb_false_iff, N.eqb_eq in Hq'. subst.
    apply (Hc x Written E).
Qed.

Lemma durable_reachable : forall es s, run init es = Some s ->
  (forall b, mem b (acked s) = true -> mem b (dest s) = true \/ mem b (queue s) = true) /\
  (forall b, mem b (acked s) = true -> mem b (dest s) = true \/ mem b (need s) = true) /\
  (forall b, mem b (dest s) = true -> mem b (src s) = true).
Proof.
  intros es s H. pose proof (inv_reachable es s H) as I.
  exact (conj (I_durable s I) (conj (I_pending s I) (I_dest s I))).
Qed.

Lemma row_leaves_reachable : forall es s e s' b, run init es = Some s -> step s e = Some s' ->
  mem b (queue s) = true -> mem b (queue s') = false -> mem b (dest s') = true.
Proof. intros es s e s' b H. exact (row_leaves_after_ack s e s' b (inv_reachable es s H)). Qed.

Lemma restart_reloads : forall s, exists s', step s ECrash = Some s' /\ need s' = queue s /\ queue s' = queue s /\ dest s' = dest s /\ acked s' = acked s.
Proof. intros s. eexists. split; [reflexivity|]. repeat split. Qed.

(* ================= eventual delivery: fault-free rounds ================= *)
Lemma copy_ok_run s b : mem b (need s) = true -> cop s = [] ->
  exists s', run s (copy_ok b) = Some s' /\ need s' = del b (need s) /\ dest s' = add b (dest s) /\ acked s' = acked s /\
             cop s' = [] /\ src s' = src s /\ queue s' = del b (queue s).
Proof.
  intros Hn Hc. assert (Ha : add b (need s) = need s) by (unfold add; rewrite Hn; reflexivity).
  unfold copy_ok. cbn [run step]. rewrite Hn, Hc, Ha. cbn [orb]. change (stage_of b []) with (@None stage). cbv iota.
  repeat (rewrite ?stage_cset, ?N.eqb_refl; cbn [upd src dest queue need pend okd cop acked]).
  eexists; split; [reflexivity|]. cbn [upd src dest queue need pend okd cop acked]. repeat split.
  unfold cset, cdel. cbn [filter fst]. rewrite ?N.eqb_refl. cbn [negb filter fst]. rewrite ?N.eqb_refl. reflexivity.
Qed.

Lemma del_notin b l : mem b l = false -> del b l = l.
Proof.
  unfold del. induction l as [|x l IH]; [reflexivity|]. rewrite mem_cons. intros H. apply orb_false_iff in H as [H1 H2].
  cbn [filter]. rewrite N.eqb_sym, H1. cbn [negb]. f_equal. apply IH; exact H2.
Qed.

Lemma run_app l1 : forall l2 a b, run a l1 = Some b -> run a (l1 ++ l2) = run b l2.
Proof. induction l1 as [|e l1 IH]; intros l2 a b H; cbn [run app] in *; [injection H as <-; reflexivity|]. destruct (step a e); [|discriminate]. apply IH; exact H. Qed.

Lemma run_inv es : forall s0 s, Inv s0 -> run s0 es = Some s -> Inv s.
Proof.
  induction es as [|e es IH]; intros s0 s H0 H; cbn [run] in H; [injection H as <-; exact H0|].
  destruct (step s0 e) as [s1|] eqn:E; [|discriminate]. eapply IH; [eapply inv_step; eassumption|exact H].
Qed.

Lemma mem_app b l1 l2 : mem b (l1 ++ l2) = mem b l1 || mem b l2.
Proof. unfold mem. apply existsb_app. Qed.

(* a fault-free round over the first pending blobs copies exactly those *)
Lemma round_ok_prefix : forall batch rest s, need s = batch ++ rest -> NoDup (batch ++ rest) -> cop s = [] ->
  exists s', run s (round_ok batch) = Some s' /\ need s' = rest /\ cop s' = [] /\ acked s' = acked s /\
    (forall b, mem b (dest s') = mem b (dest s) || mem b batch).
Proof.
  induction batch as [|x batch IH]; intros rest s Hn Hnd Hc.
  - exists s. cbn. repeat split; try assumption. intros; rewrite orb_false_r; reflexivity.
  - cbn [app] in Hn, Hnd. inversion Hnd as [|? ? Hx Hnd']; subst.
    assert (Hm : mem x (need s) = true) by (rewrite Hn, mem_cons, N.eqb_refl; reflexivity).
    destruct (copy_ok_run s x Hm Hc) as (s1 & R1 & N1 & D1 & A1 & C1 & _).
    assert (N1' : need s1 = batch ++ rest).
    { rewrite N1, Hn. unfold del at 1. cbn [filter]. rewrite N.eqb_refl. cbn [negb]. apply del_notin.
      destruct (mem x (batch ++ rest)) eqn:E; [|reflexivity]. apply mem_In in E. contradiction. }
    destruct (IH rest s1 N1' Hnd' C1) as (s2 & R2 & N2 & C2 & A2 & D2).
    exists s2. split; [|split; [exact N2|split; [exact C2|split; [congruence|]]]].
    + unfold round_ok in *. cbn [flat_map]. rewrite (run_app _ _ _ _ R1). exact R2.
    + intros b. rewrite D2, D1, mem_add, mem_cons. destruct (N.eqb b x), (mem b (dest s)), (mem b batch); reflexivity.
Qed.

(* rounds of at most k copies, as runSync makes them (the code's batch is 1000) *)
Fixpoint drain (k fuel : nat) (s : st) : option st :=
  match fuel with
  | O => Some s
  | S f => match run s (round_ok (firstn k (need s))) with Some s' => drain k f s' | None => None end
  end.

Lemma NoDup_skipn {A} n : forall (l : list A), NoDup l -> NoDup (skipn n l).
Proof. induction n as [|n IH]; intros [|y l] H; cbn; try assumption. inversion H; subst. apply IH; assumption. Qed.

Lemma drain_empties : forall fuel k s, (1 <= k)%nat -> cop s = [] -> NoDup (need s) -> (length (need s) <= fuel * k)%nat ->
  exists s', drain k fuel s = Some s' /\ need s' = [] /\ cop s' = [] /\ acked s' = acked s /\
    (forall b, mem b (dest s') = mem b (dest s) || mem b (need s)).
Proof.
  induction fuel as [|f IH]; intros k s Hk Hc Hnd Hlen.
  - exists s. cbn [drain]. destruct (need s); [|cbn in Hlen; lia]. repeat split; try assumption. intros; rewrite orb_false_r; reflexivity.
  - cbn [drain].
    destruct (round_ok_prefix (firstn k (need s)) (skipn k (need s)) s) as (s1 & R1 & N1 & C1 & A1 & D1);
      [symmetry; apply firstn_skipn|rewrite firstn_skipn; exact Hnd|exact Hc|].
    rewrite R1. destruct (IH k s1 Hk C1) as (s2 & R2 & N2 & C2 & A2 & D2).
    + rewrite N1. apply NoDup_skipn; exact Hnd.
    + rewrite N1, skipn_length. cbn in Hlen. lia.
    + exists s2. split; [exact R2|split; [exact N2|split; [exact C2|split; [congruence|]]]].
      intros b. rewrite D2, D1, N1. rewrite <- (firstn_skipn k (need s)) at 3. rewrite mem_app. rewrite orb_assoc. reflexivity.
Qed.

(* every acknowledged upload is at the destination once the fault-free rounds have drained the pending list *)
Theorem eventual_delivery : forall es s k fuel, run init es = Some s -> cop s = [] -> (1 <= k)%nat -> (length (need s) <= fuel * k)%nat ->
  exists s', drain k fuel s = Some s' /\ need s' = [] /\ forall b, mem b (acked s) = true -> mem b (dest s') = true.
Proof.
  intros es s k fuel Hr Hc Hk Hlen. pose proof (inv_reachable es s Hr) as HI.
  destruct (drain_empties fuel k s Hk Hc (I_nd_need s HI) Hlen) as (s' & R & N & _ & _ & D).
  exists s'. split; [exact R|split; [exact N|]]. intros b Hb. rewrite D. destruct (I_pending s HI b Hb) as [X|X]; rewrite X; [reflexivity|apply orb_true_r].
Qed.

(* after a crash the pending list is what the queue says, so the same holds across restarts *)
Lemma crash_reloads s : step s ECrash = Some {| src := src s; dest := dest s; queue := queue s; need := queue s; pend := []; okd := []; cop := []; acked := acked s |}.
Proof. reflexivity. Qed.

(* ---------- the pre-repair hook: a duplicate upload of a blob already pending in memory was acknowledged without
   its own queue.Set.  In that machine an acknowledged blob can be lost by a crash. ---------- *)
Definition step_old (s : st) (e : ev) : option st :=
  match e with
  | EAck b =>
      if mem b (okd s) || mem b (need s) then
        Some {| src := src s; dest := dest s; queue := queue s; need := need s; pend := pend s; okd := del1 b (okd s); cop := cop s;
                acked := add b (acked s) |}
      else None
  | _ => step s e
  end.
Fixpoint run_old (s : st) (es : list ev) : option st :=
  match es with [] => Some s | e :: r => match step_old s e with Some s' => run_old s' r | None => None end end.

Lemma old_hook_loses_acked_blob :
  exists es s, run_old init es = Some s /\ mem 7%N (acked s) = true /\ mem 7%N (dest s) = false /\ mem 7%N (queue s) = false /\ need s = [].
Proof. exists [ESrcRecv 7%N; ESrcRecv 7%N; EAck 7%N; ECrash]. eexists. split; [reflexivity|]. repeat split; reflexivity. Qed.

(* ================= ListMissingDestinationBlobs ================= *)
Definition keys (l : list (N * N)) : list N := map fst l.
Definition ssorted (l : list N) : Prop := Sorted.StronglySorted N.lt l.

Lemma missing_nil_dst srcl : missing srcl [] = (srcl, []).
Proof. induction srcl as [|[sb ss] r IH]; [reflexivity|]. cbn [missing]. rewrite IH. reflexivity. Qed.

Lemma missing_cons sb ss srest db ds drest :
  missing ((sb, ss) :: srest) ((db, ds) :: drest) =
  if N.eqb sb db then let '(m, mm) := missing srest drest in (m, if N.eqb ss ds then mm else sb :: mm)
  else if N.ltb sb db then let '(m, mm) := missing srest ((db, ds) :: drest) in ((sb, ss) :: m, mm)
  else missing ((sb, ss) :: srest) drest.
Proof. reflexivity. Qed.

Lemma find_key_none x l : mem x (keys l) = false -> find (fun q : N * N => N.eqb (fst q) x) l = None.
Proof.
  induction l as [|q l IH]; [reflexivity|]. cbn [keys map]. rewrite mem_cons. intros H. apply orb_false_iff in H as [H1 H2].
  cbn [find]. rewrite N.eqb_sym, H1. apply IH. exact H2.
Qed.

Theorem missing_exact : forall srcl dstl, ssorted (keys srcl) -> ssorted (keys dstl) ->
  fst (missing srcl dstl) = filter (fun p => negb (mem (fst p) (keys dstl))) srcl /\
  snd (missing srcl dstl) = map fst (filter (fun p => match find (fun q => N.eqb (fst q) (fst p)) dstl with
                                                       | Some q => negb (N.eqb (snd p) (snd q)) | None => false end) srcl).
Proof.
  induction srcl as [|[sb ss] srest IHs]; intros dstl Hs Hd; [destruct dstl; split; reflexivity|].
  induction dstl as [|[db ds] drest IHd].
  - rewrite missing_nil_dst. cbn [fst snd keys map mem existsb negb]. split.
    + clear. induction ((sb, ss) :: srest) as [|p l IH]; [reflexivity|]. cbn [filter]. f_equal. exact IH.
    + clear. induction ((sb, ss) :: srest) as [|p l IH]; [reflexivity|]. cbn [filter find]. exact IH.
  - rewrite missing_cons.
    cbn [keys map fst] in Hs, Hd. inversion Hs as [|? ? Hs' Hsf]; subst. inversion Hd as [|? ? Hd' Hdf]; subst.
    assert (Hfresh : forall x l, Forall (N.lt x) l -> mem x l = false).
    { intros x l F. destruct (mem x l) eqn:E; [|reflexivity]. apply mem_In in E. rewrite Forall_forall in F. specialize (F x E). lia. }
    destruct (N.eqb_spec sb db) as [->|Hne].
    + (* equal refs: skip both *)
      destruct (IHs drest Hs' Hd') as [A B]. destruct (missing srest drest) as [m mm]. cbn [fst snd] in *.
      assert (Hrest : forall (f g : N * N -> bool), (forall p, In p srest -> f p = g p) -> filter f srest = filter g srest)
        by (intros f g H; apply filter_ext_in; exact H).
      split.
      * cbn [filter fst keys map]. rewrite mem_cons, N.eqb_refl. cbn [orb negb]. rewrite A. apply Hrest.
        intros p Hp. cbn [keys map fst]. rewrite mem_cons. rewrite Forall_forall in Hsf.
        assert (db < fst p)%N by (apply Hsf; apply in_map; exact Hp). destruct (N.eqb_spec (fst p) db); [lia|reflexivity].
      * match goal with |- _ = map fst (filter ?f _) => set (F := f) end.
        cbn [filter]. assert (HF : F (db, ss) = negb (N.eqb ss ds)) by (subst F; cbn [find fst snd]; rewrite N.eqb_refl; reflexivity).
        rewrite HF.
        assert (E : map fst (filter F srest) = mm).
        { rewrite B. f_equal. apply Hrest. intros p Hp. subst F. cbn [find fst]. rewrite Forall_forall in Hsf.
          assert (db < fst p)%N by (apply Hsf; apply in_map; exact Hp). destruct (N.eqb_spec db (fst p)); [lia|reflexivity]. }
        destruct (N.eqb ss ds); cbn [negb map fst]; rewrite E; reflexivity.
    + destruct (N.ltb_spec sb db) as [Hlt|Hge].
      * (* the source blob is missing at the destination *)
        destruct (IHs ((db, ds) :: drest) Hs' Hd) as [A B]. destruct (missing srest ((db, ds) :: drest)) as [m mm]. cbn [fst snd] in *.
        assert (Hm : mem sb (keys ((db, ds) :: drest)) = false).
        { cbn [keys map fst]. rewrite mem_cons. destruct (N.eqb_spec sb db); [congruence|]. cbn [orb].
          apply Hfresh. eapply Forall_impl; [|exact Hdf]. intros; lia. }
        split.
        -- cbn [filter fst]. rewrite Hm. cbn [negb]. rewrite A. reflexivity.
        -- cbn [filter fst].
           assert (find (fun q => N.eqb (fst q) sb) ((db, ds) :: drest) = None) as ->.
           { apply find_key_none. exact Hm. }
           exact B.
      * (* the destination blob is not at the source: skip it *)
        assert (Hlt : (db < sb)%N) by lia.
        destruct (IHd Hd') as [A B]. rewrite A, B. clear A B IHd IHs.
        assert (Hall : forall p, In p ((sb, ss) :: srest) -> (db < fst p)%N).
        { intros p [<-|Hp]; [exact Hlt|]. rewrite Forall_forall in Hsf. assert (sb < fst p)%N by (apply Hsf; apply in_map; exact Hp). lia. }
        split.
        -- clear -Hall. induction ((sb, ss) :: srest) as [|p l IH]; [reflexivity|]. cbn [filter keys map fst]. rewrite mem_cons.
           assert (db < fst p)%N by (apply Hall; left; reflexivity). destruct (N.eqb_spec (fst p) db); [lia|]. cbn [orb].
           fold (keys drest). destruct (negb (mem (fst p) (keys drest))); [f_equal|]; apply IH; intros; apply Hall; right; assumption.
        -- f_equal. clear -Hall. induction ((sb, ss) :: srest) as [|p l IH]; [reflexivity|]. cbn [filter find fst].
           assert (db < fst p)%N by (apply Hall; left; reflexivity). destruct (N.eqb_spec db (fst p)); [lia|].
           destruct (find _ drest) as [q|]; [destruct (negb _); [f_equal|]|]; apply IH; intros; apply Hall; right; assumption.
Qed.

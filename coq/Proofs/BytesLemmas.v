From Coq Require Import List NArith Bool Lia Arith.
From PK.Base Require Import Bytes Lex.
Import ListNotations.
Local Open Scope N_scope.

(* keep cbn/simpl from unfolding binary arithmetic (lia then finds no witness) *)
Arguments N.add : simpl never.
Arguments N.mul : simpl never.
Arguments N.sub : simpl never.
Arguments N.div : simpl never.
Arguments N.modulo : simpl never.
Arguments N.ltb : simpl never.
Arguments N.leb : simpl never.
Arguments N.eqb : simpl never.
Arguments N.to_nat : simpl never.
Arguments N.of_nat : simpl never.

Lemma beqb_app_same p a b : beqb (p ++ a) (p ++ b) = beqb a b.
Proof. induction p as [|x p IH]; cbn; [reflexivity|]. rewrite N.eqb_refl. exact IH. Qed.

Lemma beqb_length a : forall b, beqb a b = true -> length a = length b.
Proof. intros b H. apply beqb_eq in H. subst. reflexivity. Qed.

Lemma beqb_len_neq a b : length a <> length b -> beqb a b = false.
Proof. intros H. apply beqb_neq. intros E. subst. contradiction. Qed.

Lemma beqb_sym a : forall b, beqb a b = beqb b a.
Proof. induction a as [|x a IH]; intros [|y b]; cbn; try reflexivity. rewrite N.eqb_sym, IH. reflexivity. Qed.

Lemma is_prefix_spec p : forall s, is_prefix p s = true <-> exists t, s = p ++ t.
Proof.
  induction p as [|x p IH]; intros s; cbn.
  - split; [intros _; exists s; reflexivity|reflexivity].
  - destruct s as [|y s]; [split; [discriminate|intros [t Ht]; discriminate]|].
    rewrite andb_true_iff, N.eqb_eq, IH. split.
    + intros [-> [t ->]]. exists t. reflexivity.
    + intros [t Ht]. inversion Ht; subst. split; [reflexivity|exists t; reflexivity].
Qed.

Lemma is_prefix_app p a b : is_prefix (p ++ a) (p ++ b) = is_prefix a b.
Proof. induction p as [|x p IH]; cbn; [reflexivity|]. rewrite N.eqb_refl. exact IH. Qed.

Lemma is_prefix_same_len a : forall b, length a = length b -> is_prefix a b = beqb a b.
Proof. induction a as [|x a IH]; intros [|y b] H; cbn in *; try discriminate; try reflexivity. rewrite IH by lia. reflexivity. Qed.

Lemma is_prefix_longer a b : (length b < length a)%nat -> is_prefix a b = false.
Proof.
  intros H. destruct (is_prefix a b) eqn:E; [|reflexivity].
  apply is_prefix_spec in E as [t ->]. rewrite app_length in H. lia.
Qed.

Lemma is_prefix_skipn p s : is_prefix p s = true -> s = p ++ skipn (length p) s.
Proof. intros H. apply is_prefix_spec in H as [t ->]. rewrite skipn_app, skipn_all, Nat.sub_diag. reflexivity. Qed.

(* s is a prefix of p ++ h and at least as long as p  ->  p is a prefix of s *)
Lemma is_prefix_through p : forall s h, is_prefix s (p ++ h) = true -> (length p <= length s)%nat -> is_prefix p s = true.
Proof.
  induction p as [|x p IH]; intros s h H L; [reflexivity|].
  destruct s as [|y s]; cbn in *; [lia|].
  apply andb_true_iff in H as [H1 H2]. apply N.eqb_eq in H1. subst. rewrite N.eqb_refl. cbn.
  eapply IH; [exact H2|lia].
Qed.

Lemma is_prefix_nil_r s : is_prefix s [] = match s with [] => true | _ => false end.
Proof. destruct s; reflexivity. Qed.

Lemma removelast_app_single {A} (l : list A) x : removelast (l ++ [x]) = l.
Proof. apply removelast_last. Qed.

Lemma last_app_single {A} (l : list A) x d : last (l ++ [x]) d = x.
Proof. apply last_last. Qed.

From Coq Require Import List NArith Bool Lia Sorted.
From PK.Base Require Import Bytes Lex SortedMap.
From PK.Proofs Require Import BytesLemmas.
Import ListNotations.

Definition klt (a b : kv) : Prop := ltb (fst a) (fst b) = true.
Definition ssorted (m : smap) : Prop := StronglySorted klt m.

Lemma ssorted_nil : ssorted [].
Proof. constructor. Qed.

Lemma ssorted_inv p m : ssorted (p :: m) -> ssorted m /\ Forall (klt p) m.
Proof. intros H. inversion H; subst. split; assumption. Qed.

Lemma ltb_neq a b : ltb a b = true -> beqb a b = false.
Proof. intros H. apply beqb_neq. intros ->. rewrite ltb_irrefl in H. discriminate. Qed.

Lemma ltb_neq' a b : ltb a b = true -> beqb b a = false.
Proof. intros H. apply beqb_neq. intros ->. rewrite ltb_irrefl in H. discriminate. Qed.

Lemma ltb_tricho a b : ltb a b = false -> ltb b a = false -> beqb a b = true.
Proof. intros H1 H2. apply beqb_eq. apply ltb_total; assumption. Qed.

Lemma lookup_all_gt k m : Forall (fun p => ltb k (fst p) = true) m -> lookup k m = None.
Proof.
  induction 1 as [|[k' v] m H _ IH]; [reflexivity|]. cbn in *. rewrite (ltb_neq _ _ H). exact IH.
Qed.

Lemma lookup_insert k' k v m : lookup k' (insert k v m) = if beqb k' k then Some v else lookup k' m.
Proof.
  induction m as [|[k2 v2] m IH]; cbn.
  - reflexivity.
  - destruct (ltb k k2) eqn:E1; [reflexivity|]. destruct (ltb k2 k) eqn:E2.
    + cbn. rewrite IH. destruct (beqb k' k) eqn:Ek; [|reflexivity].
      apply beqb_eq in Ek. subst. rewrite (ltb_neq' _ _ E2). reflexivity.
    + cbn. pose proof (ltb_total _ _ E1 E2). subst. destruct (beqb k' k2); reflexivity.
Qed.

Lemma insert_forall (P : kv -> Prop) k v m : P (k, v) -> Forall P m -> Forall P (insert k v m).
Proof.
  intros Hp H. induction H as [|[k2 v2] m H2 H IH]; cbn; [constructor; [exact Hp|constructor]|].
  destruct (ltb k k2); [repeat constructor; assumption|]. destruct (ltb k2 k); constructor; assumption.
Qed.

Lemma insert_sorted k v m : ssorted m -> ssorted (insert k v m).
Proof.
  induction 1 as [|[k2 v2] m Hs IH Hf]; cbn; [repeat constructor|].
  destruct (ltb k k2) eqn:E1.
  - constructor; [constructor; assumption|]. constructor; [exact E1|].
    eapply Forall_impl; [|exact Hf]. intros a Ha. unfold klt in *. cbn in *. eapply ltb_trans; eassumption.
  - destruct (ltb k2 k) eqn:E2.
    + constructor; [exact IH|]. apply insert_forall; [exact E2|exact Hf].
    + pose proof (ltb_total _ _ E1 E2). subst. constructor; assumption.
Qed.

Lemma lookup_remove k' k m : ssorted m -> lookup k' (remove k m) = if beqb k' k then None else lookup k' m.
Proof.
  induction 1 as [|[k2 v2] m Hs IH Hf]; cbn.
  - destruct (beqb k' k); reflexivity.
  - destruct (beqb k k2) eqn:E.
    + apply beqb_eq in E. subst. destruct (beqb k' k2) eqn:E2; [|reflexivity].
      apply beqb_eq in E2. subst. apply lookup_all_gt. exact Hf.
    + cbn. rewrite IH. destruct (beqb k' k) eqn:E2; [|reflexivity].
      apply beqb_eq in E2. subst. rewrite E. reflexivity.
Qed.

Lemma remove_forall (P : kv -> Prop) k m : Forall P m -> Forall P (remove k m).
Proof. induction 1 as [|[k2 v2] m H2 H IH]; cbn; [constructor|]. destruct (beqb k k2); [assumption|constructor; assumption]. Qed.

Lemma remove_sorted k m : ssorted m -> ssorted (remove k m).
Proof.
  induction 1 as [|[k2 v2] m Hs IH Hf]; cbn; [constructor|].
  destruct (beqb k k2); [assumption|]. constructor; [exact IH|apply remove_forall; exact Hf].
Qed.

Lemma lookup_filter (p : bytes -> bool) k m :
  lookup k (filter (fun x => p (fst x)) m) = if p k then lookup k m else None.
Proof.
  induction m as [|[k2 v2] m IH]; cbn; [destruct (p k); reflexivity|].
  destruct (p k2) eqn:E2; cbn; rewrite IH; destruct (beqb k k2) eqn:E; try reflexivity.
  - apply beqb_eq in E. subst. rewrite E2. reflexivity.
  - apply beqb_eq in E. subst. rewrite E2. reflexivity.
Qed.

Lemma filter_sorted (p : kv -> bool) m : ssorted m -> ssorted (filter p m).
Proof.
  induction 1 as [|x m Hs IH Hf]; cbn; [constructor|]. destruct (p x); [|exact IH].
  constructor; [exact IH|]. apply Forall_forall. intros y Hy. apply filter_In in Hy as [Hy _].
  rewrite Forall_forall in Hf. apply Hf. exact Hy.
Qed.

Lemma lookup_range s e k m : lookup k (range s e m) = if in_range s e k then lookup k m else None.
Proof. apply (lookup_filter (in_range s e)). Qed.

Lemma range_sorted s e m : ssorted m -> ssorted (range s e m).
Proof. apply filter_sorted. Qed.

(* two strictly sorted maps with the same lookups are the same list *)
Lemma lookup_head k v m : lookup k ((k, v) :: m) = Some v.
Proof. cbn. rewrite beqb_refl. reflexivity. Qed.

Lemma sorted_ext a : forall b, ssorted a -> ssorted b -> (forall k, lookup k a = lookup k b) -> a = b.
Proof.
  induction a as [|[k1 v1] a IH]; intros [|[k2 v2] b] Ha Hb H.
  - reflexivity.
  - specialize (H k2). rewrite lookup_head in H. discriminate.
  - specialize (H k1). rewrite lookup_head in H. discriminate.
  - apply ssorted_inv in Ha as [Ha Fa]. apply ssorted_inv in Hb as [Hb Fb].
    assert (k1 = k2) as ->.
    { destruct (ltb k1 k2) eqn:E1.
      - pose proof (H k1) as H1. rewrite lookup_head in H1. cbn in H1. rewrite (ltb_neq _ _ E1) in H1.
        rewrite lookup_all_gt in H1; [discriminate|].
        eapply Forall_impl; [|exact Fb]. intros x Hx. unfold klt in Hx. cbn in Hx. eapply ltb_trans; eassumption.
      - destruct (ltb k2 k1) eqn:E2; [|apply ltb_total; assumption].
        pose proof (H k2) as H2. rewrite lookup_head in H2. cbn in H2. rewrite (ltb_neq _ _ E2) in H2.
        rewrite lookup_all_gt in H2; [discriminate|].
        eapply Forall_impl; [|exact Fa]. intros x Hx. unfold klt in Hx. cbn in Hx. eapply ltb_trans; eassumption. }
    pose proof (H k2) as H2. rewrite !lookup_head in H2. injection H2 as ->.
    f_equal. apply IH; [assumption|assumption|].
    intros k. specialize (H k). cbn in H. destruct (beqb k k2) eqn:E; [|exact H].
    apply beqb_eq in E. subst. rewrite !lookup_all_gt; [reflexivity|exact Fb|exact Fa].
Qed.

Lemma lookup_overlay k top bottom :
  lookup k (overlay top bottom) = match lookup k top with Some v => Some v | None => lookup k bottom end.
Proof.
  induction top as [|[k1 v1] top IH]; cbn; [reflexivity|].
  rewrite lookup_insert. cbn. destruct (beqb k k1); [reflexivity|exact IH].
Qed.

Lemma overlay_sorted top bottom : ssorted bottom -> ssorted (overlay top bottom).
Proof. intros H. induction top as [|[k1 v1] top IH]; cbn; [exact H|apply insert_sorted; exact IH]. Qed.

(* applying the pairs of a sorted list one after the other (a batch of Sets) = overlay *)
Lemma lookup_fold_insert l : forall m k, ssorted l ->
  lookup k (fold_left (fun m p => insert (fst p) (snd p) m) l m) =
  match lookup k l with Some v => Some v | None => lookup k m end.
Proof.
  induction l as [|[k1 v1] l IH]; intros m k Hs; cbn; [reflexivity|].
  apply ssorted_inv in Hs as [Hs Hf]. rewrite IH by exact Hs. rewrite lookup_insert. cbn.
  destruct (beqb k k1) eqn:E; [|reflexivity].
  apply beqb_eq in E. subst. rewrite lookup_all_gt; [reflexivity|exact Hf].
Qed.

Lemma fold_insert_sorted l : forall m, ssorted m -> ssorted (fold_left (fun m p => insert (fst p) (snd p) m) l m).
Proof. induction l as [|[k1 v1] l IH]; intros m H; cbn; [exact H|]. apply IH. apply insert_sorted. exact H. Qed.

Lemma sorted_keys_lt p m : ssorted (p :: m) -> Forall (fun q => ltb (fst p) (fst q) = true) m.
Proof. intros H. apply ssorted_inv in H as [_ H]. exact H. Qed.

(* ================= merge = overlay on sorted lists ================= *)
Lemma merge_nil_l l2 : merge [] l2 = l2.
Proof. destruct l2; reflexivity. Qed.
Lemma merge_nil_r l1 : merge l1 [] = l1.
Proof. destruct l1 as [|[k v] r]; reflexivity. Qed.
Lemma merge_cons k1 v1 r1 k2 v2 r2 :
  merge ((k1, v1) :: r1) ((k2, v2) :: r2) =
  if ltb k1 k2 then (k1, v1) :: merge r1 ((k2, v2) :: r2)
  else if ltb k2 k1 then (k2, v2) :: merge ((k1, v1) :: r1) r2
  else (k1, v1) :: merge r1 r2.
Proof. reflexivity. Qed.

Lemma merge_eq_nil l1 l2 : merge l1 l2 = [] -> l1 = [] /\ l2 = [].
Proof.
  destruct l1 as [|[a b] r]; destruct l2 as [|[a' b'] r']; try (split; reflexivity).
  - rewrite merge_nil_l. discriminate.
  - rewrite merge_nil_r. discriminate.
  - rewrite merge_cons. destruct (ltb a a'); [discriminate|]. destruct (ltb a' a); discriminate.
Qed.

Lemma merge_forall (P : kv -> Prop) l1 : forall l2, Forall P l1 -> Forall P l2 -> Forall P (merge l1 l2).
Proof.
  induction l1 as [|[k1 v1] r1 IH1]; intros l2 H1 H2; [rewrite merge_nil_l; exact H2|].
  induction l2 as [|[k2 v2] r2 IH2]; [rewrite merge_nil_r; exact H1|].
  rewrite merge_cons. inversion H1; subst. inversion H2; subst.
  destruct (ltb k1 k2); [constructor; [assumption|apply IH1; assumption]|].
  destruct (ltb k2 k1); [constructor; [assumption|apply IH2; assumption]|].
  constructor; [assumption|apply IH1; assumption].
Qed.

Lemma merge_sorted l1 : forall l2, ssorted l1 -> ssorted l2 -> ssorted (merge l1 l2).
Proof.
  induction l1 as [|[k1 v1] r1 IH1]; intros l2 H1 H2; [rewrite merge_nil_l; exact H2|].
  induction l2 as [|[k2 v2] r2 IH2]; [rewrite merge_nil_r; exact H1|].
  rewrite merge_cons. apply ssorted_inv in H1 as [S1 F1]. pose proof H2 as H2'. apply ssorted_inv in H2 as [S2 F2].
  destruct (ltb k1 k2) eqn:E1.
  - constructor; [apply IH1; assumption|]. apply merge_forall; [exact F1|].
    constructor; [exact E1|]. eapply Forall_impl; [|exact F2]. intros a Ha. unfold klt in *. cbn in *. eapply ltb_trans; eassumption.
  - destruct (ltb k2 k1) eqn:E2.
    + constructor; [apply IH2; assumption|]. apply merge_forall; [|exact F2].
      constructor; [exact E2|]. eapply Forall_impl; [|exact F1]. intros a Ha. unfold klt in *. cbn in *. eapply ltb_trans; eassumption.
    + pose proof (ltb_total _ _ E1 E2). subst. constructor; [apply IH1; assumption|].
      apply merge_forall; [exact F1|exact F2].
Qed.

Lemma lookup_merge k l1 : forall l2, ssorted l1 -> ssorted l2 ->
  lookup k (merge l1 l2) = match lookup k l1 with Some v => Some v | None => lookup k l2 end.
Proof.
  induction l1 as [|[k1 v1] r1 IH1]; intros l2 H1 H2; [rewrite merge_nil_l; reflexivity|].
  induction l2 as [|[k2 v2] r2 IH2]; [rewrite merge_nil_r; cbn [lookup]; destruct (beqb k k1); [reflexivity|]; destruct (lookup k r1); reflexivity|].
  rewrite merge_cons. pose proof H1 as H1'. pose proof H2 as H2'.
  apply ssorted_inv in H1 as [S1 F1]. apply ssorted_inv in H2 as [S2 F2].
  destruct (ltb k1 k2) eqn:E1.
  - cbn [lookup]. destruct (beqb k k1) eqn:Ek; [reflexivity|]. rewrite IH1 by assumption. reflexivity.
  - destruct (ltb k2 k1) eqn:E2.
    + cbn [lookup]. destruct (beqb k k2) eqn:Ek.
      * apply beqb_eq in Ek. subst. rewrite (ltb_neq _ _ E2).
        rewrite lookup_all_gt; [reflexivity|].
        eapply Forall_impl; [|exact F1]. intros a Ha. unfold klt in *. cbn in *. eapply ltb_trans; eassumption.
      * rewrite IH2 by assumption. cbn [lookup]. reflexivity.
    + pose proof (ltb_total _ _ E1 E2). subst. cbn [lookup]. destruct (beqb k k2) eqn:Ek; [reflexivity|].
      rewrite IH1 by assumption. reflexivity.
Qed.

Lemma merge_overlay l1 l2 : ssorted l1 -> ssorted l2 -> merge l1 l2 = overlay l1 l2.
Proof.
  intros H1 H2. apply sorted_ext; [apply merge_sorted; assumption|apply overlay_sorted; assumption|].
  intros k. rewrite lookup_merge by assumption. rewrite lookup_overlay. reflexivity.
Qed.


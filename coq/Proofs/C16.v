From Coq Require Import String.
From Coq Require Import List NArith Bool Lia Arith.
From PK.Base Require Import Bytes.
From PK.Proofs Require Import BytesLemmas.
From PK.Model Require Import C16.
Import ListNotations.
Local Open Scope N_scope.

(* ================= LastIndex of the separator ================= *)
Lemma sep_shape : sep = comma :: tl sep.
Proof. reflexivity. Qed.

Lemma last_index_no_comma : forall l, ~ In comma l -> last_index sep l = None.
Proof.
  induction l as [|x l IH]; intros H; [reflexivity|]. cbn [last_index]. rewrite IH by (intros X; apply H; right; exact X).
  rewrite sep_shape. cbn [is_prefix]. destruct (N.eqb_spec comma x) as [<-|]; [exfalso; apply H; left; reflexivity|reflexivity].
Qed.

Lemma last_index_here post : ~ In comma (tl sep ++ post) -> last_index sep (sep ++ post) = Some O.
Proof.
  intros H. rewrite sep_shape at 2. cbn [app last_index]. rewrite (last_index_no_comma _ H).
  change (comma :: tl sep ++ post) with (sep ++ post). rewrite <- (app_nil_r sep) at 1. rewrite is_prefix_app. reflexivity.
Qed.

Theorem last_index_unique : forall pre post, ~ In comma (tl sep ++ post) -> last_index sep (pre ++ sep ++ post) = Some (length pre).
Proof.
  induction pre as [|x pre IH]; intros post H; [apply last_index_here; exact H|].
  cbn [app last_index length]. rewrite IH by exact H. reflexivity.
Qed.

(* whatever LastIndex answers is an occurrence, and no occurrence starts later *)
Lemma last_index_sound s : forall ba i, last_index s ba = Some i -> is_prefix s (skipn i ba) = true /\ (i <= length ba)%nat.
Proof.
  induction ba as [|x r IH]; intros i H; cbn [last_index] in H.
  - destruct (is_prefix s []) eqn:E; [|discriminate]. injection H as <-. split; [exact E|apply Nat.le_refl].
  - destruct (last_index s r) as [j|] eqn:Ej.
    + injection H as <-. destruct (IH j eq_refl) as [A B]. split; [exact A|cbn [length]; lia].
    + destruct (is_prefix s (x :: r)) eqn:E; [|discriminate]. injection H as <-. split; [exact E|cbn [length]; lia].
Qed.

Lemma last_index_last s : forall ba i j, last_index s ba = Some i -> (i < j)%nat -> (j <= length ba)%nat -> is_prefix s (skipn j ba) = false.
Proof.
  induction ba as [|x r IH]; intros i j H Hij Hj; cbn [last_index length] in *; [lia|].
  destruct j as [|j]; [lia|]. cbn [skipn].
  destruct (last_index s r) as [k|] eqn:Ek.
  - injection H as <-. apply (IH k j eq_refl); lia.
  - assert (G : forall l m, last_index s l = None -> (m <= length l)%nat -> is_prefix s (skipn m l) = false).
    { clear. induction l as [|y l IHl]; intros m Hn Hm; cbn [last_index length] in *.
      - assert (m = O) by lia. subst. cbn. destruct (is_prefix s []); [discriminate|reflexivity].
      - destruct (last_index s l) eqn:E; [discriminate|]. destruct m as [|m]; cbn [skipn].
        + destruct (is_prefix s (y :: l)); [discriminate|reflexivity].
        + apply IHl; [reflexivity|lia]. }
    apply G; [exact Ek|lia].
Qed.

Lemma last_index_none s : forall ba j, last_index s ba = None -> (j <= length ba)%nat -> is_prefix s (skipn j ba) = false.
Proof.
  induction ba as [|y l IHl]; intros m Hn Hm; cbn [last_index length] in *.
  - assert (m = O) by lia. subst. cbn. destruct (is_prefix s []); [discriminate|reflexivity].
  - destruct (last_index s l) eqn:E; [discriminate|]. destruct m as [|m]; cbn [skipn].
    + destruct (is_prefix s (y :: l)); [discriminate|reflexivity].
    + apply IHl; [reflexivity|lia].
Qed.

Lemma last_index_is_last : forall s ba i, last_index s ba = Some i ->
  (is_prefix s (skipn i ba) = true /\ (i <= length ba)%nat) /\
  (forall j, (i < j)%nat -> (j <= length ba)%nat -> is_prefix s (skipn j ba) = false).
Proof. intros s ba i H. split; [exact (last_index_sound s ba i H)|intros j; exact (last_index_last s ba i j H)]. Qed.

(* ================= Sign then split ================= *)
Lemma skipn_app_exact {A} (a b : list A) : skipn (length a) (a ++ b) = b.
Proof. induction a; [reflexivity|assumption]. Qed.
Lemma firstn_app_exact {A} (a b : list A) : firstn (length a) (a ++ b) = a.
Proof. induction a as [|x a IH]; [destruct b; reflexivity|cbn; f_equal; exact IH]. Qed.

Lemma sign_shape doc sigtext signed : sign doc sigtext = Some signed ->
  exists body, trim_right doc = body ++ [rbrace] /\ signed = body ++ sep ++ sigtext ++ [34; rbrace; 10].
Proof.
  unfold sign. destruct (rev (trim_right doc)) as [|c body_rev] eqn:E; [discriminate|].
  destruct (N.eqb_spec c rbrace) as [->|]; [|discriminate]. intros H. injection H as <-.
  exists (rev body_rev). split; [|reflexivity]. rewrite <- (rev_involutive (trim_right doc)), E. reflexivity.
Qed.

(* the verifier splits a freshly signed document exactly where Sign joined it, whatever the payload contains
   (look-alike separators included), as long as the signature text has no comma (it is base64) *)
Theorem split_sign : forall doc sigtext signed body, ~ In comma sigtext ->
  sign doc sigtext = Some signed -> trim_right doc = body ++ [rbrace] ->
  split signed = Some (body, body ++ [rbrace], lbrace :: tl sep ++ sigtext ++ [34; rbrace; 10]).
Proof.
  intros doc sigtext signed body Hc Hs Ht. destruct (sign_shape _ _ _ Hs) as (body' & Ht' & ->).
  assert (body' = body) as -> by (rewrite Ht in Ht'; apply app_inj_tail in Ht' as [E _]; symmetry; exact E).
  unfold split. rewrite last_index_unique.
  - rewrite firstn_app_exact. replace (S (length body)) with (length body + 1)%nat by lia.
    replace (body ++ sep ++ sigtext ++ [34; rbrace; 10]) with ((body ++ [comma]) ++ tl sep ++ sigtext ++ [34; rbrace; 10])
      by (rewrite <- app_assoc; reflexivity).
    replace (length body + 1)%nat with (length (body ++ [comma])) by (rewrite app_length; reflexivity).
    rewrite skipn_app_exact. reflexivity.
  - intros H. apply in_app_or in H as [H|H].
    + cbn in H. unfold comma in H. repeat (destruct H as [H|H]; [discriminate H|]). exact H.
    + apply in_app_or in H as [H|H]; [exact (Hc H)|]. cbn in H. unfold comma, rbrace in H.
      repeat (destruct H as [H|H]; [discriminate H|]). exact H.
Qed.

(* ================= Verify ================= *)
Section Verify.
  Context {signer key : Type}.
  Variable parse_sig : bytes -> option bytes.
  Variable parse_payload : bytes -> option signer.
  Variable lookup : signer -> option key.
  Variable sig_ok : key -> bytes -> bytes -> bool.

  (* accepted => the bytes before the last separator carry a valid signature by the key that those same bytes name *)
  Theorem verify_sound : forall ba, verify parse_sig parse_payload lookup sig_ok ba = SOk ->
    exists i sg who k, last_index sep ba = Some i /\
      parse_sig (lbrace :: skipn (S i) ba) = Some sg /\ parse_payload (firstn i ba ++ [rbrace]) = Some who /\ lookup who = Some k /\
      sig_ok k (firstn i ba) sg = true.
  Proof.
    intros ba. unfold verify, split. destruct (last_index sep ba) as [i|]; [|discriminate].
    destruct (parse_sig _) as [sg|] eqn:E1; [|discriminate]. destruct (parse_payload _) as [who|] eqn:E2; [|discriminate].
    destruct (lookup who) as [k|] eqn:E3; [|discriminate]. destruct (sig_ok k _ sg) eqn:E4; [|discriminate].
    intros _. exists i, sg, who, k. repeat split; assumption.
  Qed.

  (* unforgeability as an explicit hypothesis: a signature text is accepted for (key, bytes) only if that key's holder
     signed exactly those bytes *)
  Variable signed_by : key -> bytes -> Prop.
  Hypothesis unforgeable : forall k m s, sig_ok k m s = true -> signed_by k m.

  (* any accepted document — however obtained: edited, spliced, re-signed — has as its payload bytes that the holder of
     the key named by that very payload signed; so no edit of the payload or of the signer reference of a signed document
     is accepted unless the result is again a payload signed by the key it names *)
  Theorem tamper_rejected : forall ba, verify parse_sig parse_payload lookup sig_ok ba = SOk ->
    exists i who k, last_index sep ba = Some i /\ parse_payload (firstn i ba ++ [rbrace]) = Some who /\ lookup who = Some k /\
                    signed_by k (firstn i ba).
  Proof.
    intros ba H. destruct (verify_sound ba H) as (i & sg & who & k & A & B & C & D & E).
    exists i, who, k. repeat split; try assumption. eapply unforgeable; exact E.
  Qed.

  (* if the only bytes a key ever signed are P, every accepted document naming that key has payload P *)
  Corollary accepted_payload_is_the_signed_one : forall ba P, verify parse_sig parse_payload lookup sig_ok ba = SOk ->
    (forall k m, signed_by k m -> m = P) ->
    exists i, last_index sep ba = Some i /\ firstn i ba = P.
  Proof.
    intros ba P H Honly. destruct (tamper_rejected ba H) as (i & who & k & A & _ & _ & S). exists i. split; [exact A|]. eapply Honly; exact S.
  Qed.

  (* round trip: a signed document verifies, given what the JSON parser and OpenPGP are assumed to do on it *)
  Theorem sign_then_verify : forall doc sigtext signed body who k, ~ In comma sigtext ->
    sign doc sigtext = Some signed -> trim_right doc = body ++ [rbrace] ->
    parse_payload (body ++ [rbrace]) = Some who -> lookup who = Some k ->
    parse_sig (lbrace :: tl sep ++ sigtext ++ [34; rbrace; 10]) = Some sigtext ->
    sig_ok k body sigtext = true ->
    verify parse_sig parse_payload lookup sig_ok signed = SOk.
  Proof.
    intros doc sigtext signed body who k Hc Hs Ht Hp Hl Hps Hok. unfold verify.
    rewrite (split_sign doc sigtext signed body Hc Hs Ht), Hps, Hp, Hl, Hok. reflexivity.
  Qed.
End Verify.

(* trimming *)
Lemma trim_right_no_trailing_space ba : match rev (trim_right ba) with c :: _ => is_space c = false | [] => True end.
Proof.
  induction ba as [|c r IH]; [exact I|]. cbn [trim_right]. destruct (trim_right r) as [|x r'] eqn:E.
  - destruct (is_space c) eqn:Es; cbn; [exact I|exact Es].
  - cbn [rev] in *. destruct (rev r' ++ [x]) as [|y l] eqn:E2; [destruct (rev r'); discriminate|].
    cbn [app]. exact IH.
Qed.

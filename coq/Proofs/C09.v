From Coq Require Import List NArith ZArith Bool Lia Sorted Arith ZifyBool ZifyN ZifyNat.
From PK.Model Require Import C09.
Import ListNotations.

(* ================= the order and the token constraint ================= *)
Lemma after_token_is_before tok x : after_token tok x = before tok x.
Proof. unfold after_token, before. destruct tok as [t r], x as [t' r']. cbn [fst snd]. lia. Qed.

Lemma before_irrefl a : before a a = false.
Proof. unfold before. destruct a. cbn. lia. Qed.
Lemma before_trans a b c : before a b = true -> before b c = true -> before a c = true.
Proof. unfold before. destruct a, b, c. cbn [fst snd]. lia. Qed.
Lemma before_asym a b : before a b = true -> before b a = false.
Proof. unfold before. destruct a, b. cbn [fst snd]. lia. Qed.

Definition bsorted (l : list item) : Prop := StronglySorted (fun a b => before a b = true) l.

Lemma bsorted_app_inv a b : bsorted (a ++ b) -> bsorted a /\ bsorted b /\ Forall (fun x => Forall (fun y => before x y = true) b) a.
Proof.
  induction a as [|x xs IH]; cbn; intros H; [repeat split; [constructor|exact H|constructor]|].
  inversion H as [|? ? Hs Hf]; subst. destruct (IH Hs) as (A & B & C). apply Forall_app in Hf as [F1 F2].
  repeat split; [constructor; assumption|assumption|constructor; assumption].
Qed.

(* after the last item of [pre], exactly [rest] remains *)
Lemma filter_after_last pre x rest : bsorted ((pre ++ [x]) ++ rest) -> filter (after_token x) ((pre ++ [x]) ++ rest) = rest.
Proof.
  intros H. apply bsorted_app_inv in H as (H1 & H2 & H3). apply bsorted_app_inv in H1 as (_ & _ & H4).
  apply Forall_app in H3 as [_ H5]. pose proof (Forall_inv H5) as Hx.
  rewrite !filter_app. cbn [filter]. rewrite after_token_is_before, before_irrefl. cbn [app].
  assert (filter (after_token x) pre = []) as ->.
  { clear -H4. induction pre as [|y pre IH]; [reflexivity|]. inversion H4 as [|? ? Hy Hp]; subst. cbn [filter].
    rewrite after_token_is_before. rewrite (before_asym y x) by (apply (Forall_inv Hy)). apply IH. exact Hp. }
  cbn [app]. clear -Hx. induction rest as [|y rest IH]; [reflexivity|]. inversion Hx; subst. cbn [filter].
  rewrite after_token_is_before. match goal with H : before x y = true |- _ => rewrite H end. f_equal. apply IH. assumption.
Qed.

Lemma last_app_single' {A} (l : list A) x d : last (l ++ [x]) d = x.
Proof. apply last_last. Qed.

(* following tokens from after [pre] yields exactly the remaining results, page by page *)
Lemma follow_rest : forall fuel limit pre x rest, (1 <= limit)%nat -> bsorted ((pre ++ [x]) ++ rest) -> (length rest < fuel)%nat ->
  concat (follow true fuel ((pre ++ [x]) ++ rest) (Some x) limit) = rest /\
  Forall (fun p => (length p <= limit)%nat) (follow true fuel ((pre ++ [x]) ++ rest) (Some x) limit).
Proof.
  induction fuel as [|f IH]; intros limit pre x rest Hl Hs Hf; [lia|].
  cbn [follow]. unfold page. cbn [token_accepted orb]. rewrite filter_after_last by exact Hs.
  destruct (Nat.eqb (length (firstn limit rest)) limit) eqn:E.
  - apply Nat.eqb_eq in E.
    assert (Hne : firstn limit rest <> []) by (intros X; rewrite X in E; cbn in E; lia).
    destruct (exists_last Hne) as (q & y & Hq). rewrite Hq, last_app_single'.
    (* the whole list re-bracketed around the new last item y *)
    assert (Hsplit : (pre ++ [x]) ++ rest = ((pre ++ [x] ++ q) ++ [y]) ++ skipn limit rest).
    { rewrite <- (firstn_skipn limit rest) at 1. rewrite Hq. rewrite <- !app_assoc. reflexivity. }
    rewrite Hsplit in Hs |- *. destruct (IH limit (pre ++ [x] ++ q) y (skipn limit rest) Hl Hs) as [A B].
    { rewrite skipn_length. assert (length (firstn limit rest) = S (length q)) by (rewrite Hq, app_length; cbn; lia). rewrite firstn_length in *. lia. }
    cbn [concat]. rewrite A. split.
    + rewrite <- Hq. apply firstn_skipn.
    + constructor; [rewrite <- Hq, firstn_length; lia|exact B].
  - cbn [concat]. rewrite app_nil_r. apply Nat.eqb_neq in E. rewrite firstn_length in E. split.
    + apply firstn_all2. lia.
    + constructor; [rewrite firstn_length; lia|constructor].
Qed.

Theorem pages_exact limit l fuel : (1 <= limit)%nat -> bsorted l -> (length l < fuel)%nat ->
  concat (follow true fuel l None limit) = l /\ Forall (fun p => (length p <= limit)%nat) (follow true fuel l None limit).
Proof.
  intros Hl Hs Hf. destruct fuel as [|f]; [lia|]. cbn [follow]. unfold page.
  destruct (Nat.eqb (length (firstn limit l)) limit) eqn:E.
  - apply Nat.eqb_eq in E.
    assert (Hne : firstn limit l <> []) by (intros X; rewrite X in E; cbn in E; lia).
    destruct (exists_last Hne) as (q & y & Hq). rewrite Hq, last_app_single'.
    assert (Hsplit : l = (q ++ [y]) ++ skipn limit l) by (rewrite <- Hq; symmetry; apply firstn_skipn).
    rewrite Hsplit in Hs. destruct (follow_rest f limit q y (skipn limit l) Hl Hs) as [A B].
    { rewrite skipn_length. assert (length (firstn limit l) = S (length q)) by (rewrite Hq, app_length; cbn; lia). rewrite firstn_length in *. lia. }
    rewrite <- Hsplit in A, B. cbn [concat]. rewrite A. split.
    + rewrite <- Hq. apply firstn_skipn.
    + constructor; [rewrite <- Hq, firstn_length; lia|exact B].
  - cbn [concat]. rewrite app_nil_r. apply Nat.eqb_neq in E. rewrite firstn_length in E. split.
    + apply firstn_all2. lia.
    + constructor; [rewrite firstn_length; lia|constructor].
Qed.

(* with the time read as unsigned (the code before the repair) a pre-1970 token is ignored: page one repeats *)
Lemma unsigned_tokens_repeat :
  let l := [(-5, 2%N); (-7, 1%N)]%Z in bsorted l /\ concat (follow false 5 l None 1) <> l.
Proof. split; [repeat constructor|vm_compute; discriminate]. Qed.

(* ================= the 'around' window ================= *)
Definition infix (w l : list N) : Prop := exists pre post, l = pre ++ w ++ post.

Record ainv (limit : nat) (pivot : N) (p : list N) (s : astate) : Prop := {
  ai_seg : if a_stop s then infix (a_res s) p else exists pre, p = pre ++ a_res s;
  ai_found : a_found s = true <-> In pivot p;
  ai_has : a_found s = true -> In pivot (a_res s);
  ai_len : a_found s = true -> (length (a_res s) <= limit)%nat;
  ai_room : a_found s = true -> a_stop s = false -> (length (a_res s) < limit)%nat;
  ai_stop : a_stop s = true -> a_found s = true }.

Lemma around_step_inv limit pivot p s x : (1 <= limit)%nat -> ~ In x p -> ainv limit pivot p s ->
  ainv limit pivot (p ++ [x]) (around_step limit pivot s x).
Proof.
  intros Hl Hx [Hseg Hf Hh Hn Hr Hst]. unfold around_step. destruct (a_stop s) eqn:Es.
  - (* already stopped: nothing changes *)
    constructor; rewrite ?Es.
    + destruct Hseg as (pre & post & ->). exists pre, (post ++ [x]). rewrite <- !app_assoc. reflexivity.
    + rewrite Hf. rewrite in_app_iff. cbn. split; [auto|]. intros [A|[A|[]]]; [exact A|].
      subst x. exfalso. apply Hx. apply Hf. apply Hst. reflexivity.
    + exact Hh.
    + exact Hn.
    + intros _ X. discriminate.
    + exact Hst.
  - destruct Hseg as (pre & Hp). destruct (a_found s) eqn:Ef.
    + (* pivot already seen: keep appending until the window is full *)
      constructor; cbn [a_res a_found a_stop].
      * destruct (Nat.eqb _ _); [exists pre, []; rewrite app_nil_r, Hp, <- app_assoc; reflexivity|exists pre; rewrite Hp, <- app_assoc; reflexivity].
      * split; [intros _; apply in_or_app; left; apply Hf; reflexivity|reflexivity].
      * intros _. apply in_or_app. left. apply Hh. reflexivity.
      * intros _. specialize (Hr eq_refl eq_refl). rewrite app_length. cbn. lia.
      * intros _ X. apply Nat.eqb_neq in X. specialize (Hr eq_refl eq_refl). rewrite app_length in *. cbn in *. lia.
      * intros _. reflexivity.
    + assert (Hnp : ~ In pivot p) by (intros X; apply Hf in X; discriminate).
      destruct (N.eqb x pivot) eqn:Ex.
      * apply N.eqb_eq in Ex. subst x.
        set (res := a_res s ++ [pivot]). 
        set (res' := if Nat.ltb limit (2 * length res) then skipn (length res - Nat.div limit 2 - 1) res else res).
        assert (Hres' : exists k, res' = skipn k res /\ (k < length res)%nat).
        { unfold res'. destruct (Nat.ltb limit (2 * length res)); [exists (length res - Nat.div limit 2 - 1)%nat|exists 0%nat]; (split; [reflexivity|]);
          unfold res; rewrite app_length; cbn; lia. }
        destruct Hres' as (k & Hk & Hkl).
        constructor; cbn [a_res a_found a_stop]; fold res; fold res'.
        -- assert (Hall : p ++ [pivot] = (pre ++ firstn k res) ++ res').
           { rewrite Hk, <- app_assoc, firstn_skipn. unfold res. rewrite Hp, <- app_assoc. reflexivity. }
           destruct (Nat.eqb (length res') limit); [exists (pre ++ firstn k res), []; rewrite app_nil_r; exact Hall|exists (pre ++ firstn k res); exact Hall].
        -- split; [intros _; apply in_or_app; right; left; reflexivity|reflexivity].
        -- intros _. rewrite Hk. unfold res.
           assert (skipn k (a_res s ++ [pivot]) = skipn k (a_res s) ++ [pivot]) as ->.
           { rewrite skipn_app. unfold res in Hkl. rewrite app_length in Hkl. cbn in Hkl. replace (k - length (a_res s))%nat with 0%nat by lia. reflexivity. }
           apply in_or_app. right. left. reflexivity.
        -- intros _. unfold res'. destruct (Nat.ltb limit (2 * length res)) eqn:El.
           ++ rewrite skipn_length. apply Nat.ltb_lt in El. 
              assert (Nat.div limit 2 * 2 <= limit)%nat by (rewrite Nat.mul_comm; apply Nat.mul_div_le; lia). lia.
           ++ apply Nat.ltb_ge in El. lia.
        -- intros _ X. apply Nat.eqb_neq in X.
           assert (length res' <= limit)%nat.
           { unfold res'. destruct (Nat.ltb limit (2 * length res)) eqn:El.
             - rewrite skipn_length. apply Nat.ltb_lt in El.
               assert (Nat.div limit 2 * 2 <= limit)%nat by (rewrite Nat.mul_comm; apply Nat.mul_div_le; lia). lia.
             - apply Nat.ltb_ge in El. lia. }
           lia.
        -- intros _. reflexivity.
      * apply N.eqb_neq in Ex.
        assert (Hnf : forall res, ainv limit pivot (p ++ [x]) {| a_res := res; a_found := false; a_stop := false |} <-> exists pre', p ++ [x] = pre' ++ res).
        { intros res. split; [intros [A _ _ _ _ _]; exact A|]. intros A. constructor; cbn [a_res a_found a_stop]; try discriminate; [exact A|].
          split; [discriminate|]. intros X. apply in_app_or in X as [X|[X|[]]]; [contradiction|congruence]. }
        destruct (Nat.eqb (length (a_res s ++ [x])) limit).
        -- apply Hnf. exists (pre ++ firstn (Nat.div (length (a_res s ++ [x])) 2) (a_res s ++ [x])).
           rewrite <- app_assoc, firstn_skipn, Hp, <- app_assoc. reflexivity.
        -- apply Hnf. exists pre. rewrite Hp, <- app_assoc. reflexivity.
Qed.

Lemma around_fold_inv limit pivot : (1 <= limit)%nat -> forall xs p s, NoDup (p ++ xs) -> ainv limit pivot p s ->
  ainv limit pivot (p ++ xs) (fold_left (around_step limit pivot) xs s).
Proof.
  intros Hl. induction xs as [|x xs IH]; intros p s Hnd Hinv; [rewrite app_nil_r; exact Hinv|].
  cbn [fold_left]. replace (p ++ x :: xs) with ((p ++ [x]) ++ xs) by (rewrite <- app_assoc; reflexivity).
  apply IH; [rewrite <- app_assoc; exact Hnd|]. apply around_step_inv; [exact Hl| |exact Hinv].
  apply NoDup_remove_2 in Hnd. intros X. apply Hnd. apply in_or_app. left. exact X.
Qed.

(* the window: a contiguous piece of the full ordered result, containing the pivot, never longer than the limit;
   nothing when the pivot is not among the results *)
Theorem around_window limit pivot matches : (1 <= limit)%nat -> NoDup matches ->
  (In pivot matches -> infix (around limit pivot matches) matches /\ In pivot (around limit pivot matches) /\
                       (length (around limit pivot matches) <= limit)%nat) /\
  (~ In pivot matches -> around limit pivot matches = []).
Proof.
  intros Hl Hnd.
  assert (H0 : ainv limit pivot [] {| a_res := []; a_found := false; a_stop := false |}).
  { constructor; cbn; try discriminate; [exists []; reflexivity|]. split; [discriminate|intros []]. }
  pose proof (around_fold_inv limit pivot Hl matches [] _ Hnd H0) as [Hseg Hf Hh Hn _ _]. cbn [app] in *.
  unfold around. set (s := fold_left (around_step limit pivot) matches _) in *. split.
  - intros Hin. apply Hf in Hin. rewrite Hin. split; [|split; [apply Hh; exact Hin|apply Hn; exact Hin]].
    destruct (a_stop s); [exact Hseg|]. destruct Hseg as (pre & Hp). exists pre, []. rewrite app_nil_r. exact Hp.
  - intros Hnin. destruct (a_found s) eqn:E; [|reflexivity]. exfalso. apply Hnin. apply Hf. reflexivity.
Qed.

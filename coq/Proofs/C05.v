From Coq Require Import List NArith Bool Lia Permutation Arith.
From PK.Model Require Import C05.
Import ListNotations.

(* ================= the SPEC is a function of the SET of blobs that arrived ================= *)
Lemma memN_In x l : memN x l = true <-> In x l.
Proof.
  unfold memN. rewrite existsb_exists. split.
  - intros (y & Hy & E). apply N.eqb_eq in E. subst. exact Hy.
  - intros H. exists x. split; [exact H|apply N.eqb_refl].
Qed.

Lemma memN_same_set l l' x : (forall y, In y l <-> In y l') -> memN x l = memN x l'.
Proof.
  intros H. destruct (memN x l) eqn:E.
  - symmetry. apply memN_In. apply H. apply memN_In. exact E.
  - destruct (memN x l') eqn:E'; [|reflexivity]. apply memN_In in E'. apply H in E'. apply memN_In in E'. congruence.
Qed.

Lemma forallb_ext' {A} (p q : A -> bool) l : (forall x, p x = q x) -> forallb p l = forallb q l.
Proof. intros H. induction l as [|x l IH]; cbn; [reflexivity|]. rewrite H, IH. reflexivity. Qed.

Lemma find_ext {A} (p q : A -> bool) l : (forall x, p x = q x) -> find p l = find q l.
Proof. intros H. induction l as [|x l IH]; cbn; [reflexivity|]. rewrite H, IH. reflexivity. Qed.

Theorem expected_set_function world l l' x : (forall y, In y l <-> In y l') -> expected world l x = expected world l' x.
Proof.
  intros H. unfold expected. rewrite (memN_same_set l l' x H). destruct (negb (memN x l')); [reflexivity|].
  destruct (lookup_blob world x) as [b|]; [|reflexivity].
  rewrite (find_ext (fun d => negb (memN d l)) (fun d => negb (memN d l'))) by (intros d; rewrite (memN_same_set l l' d H); reflexivity).
  destruct (find _ (b_fdeps b)); [reflexivity|]. destruct (b_idep b) as [t|]; [|reflexivity].
  rewrite (memN_same_set l l' t H). destruct (lookup_blob world t) as [tb|]; [|reflexivity].
  unfold fdeps_ok. rewrite (forallb_ext' (fun d => memN d l) (fun d => memN d l')) by (intros d; apply memN_same_set; exact H). reflexivity.
Qed.

Corollary expected_order_independent world l l' x : Permutation l l' -> expected world l x = expected world l' x.
Proof. intros P. apply expected_set_function. intros y. split; apply Permutation_in; [exact P|symmetry; exact P]. Qed.

Corollary expected_ignores_duplicates world l x d : In d l -> expected world (l ++ [d]) x = expected world l x.
Proof.
  intros H. apply expected_set_function. intros y. rewrite in_app_iff. cbn. split; [intros [A|[<-|[]]]; assumption|intros A; left; exact A].
Qed.

(* ================= soundness: nothing is ever indexed ahead of its dependencies ================= *)
Section Sound.
  Variable world : list blob.

  (* every committed blob has all the blobs it fetches in the blob source; a fully indexed one also had its index
     dependency's meta row *)
  Definition sound (s : ist) : Prop :=
    forall x full, In (x, full) (committed s) ->
      exists b, lookup_blob world x = Some b /\ first_missing s (b_fdeps b) = None /\
                (full = true -> match b_idep b with Some t => has_meta s t = true | None => True end).

  Lemma first_missing_same s s' deps : fetchable s' = fetchable s -> first_missing s' deps = first_missing s deps.
  Proof. intros H. unfold first_missing. rewrite H. reflexivity. Qed.

  Lemma has_meta_set_commit s x full t : has_meta s t = true -> has_meta (set_commit s x full) t = true.
  Proof.
    unfold has_meta, set_commit. cbn [committed]. intros H. cbn [existsb fst]. destruct (N.eqb x t) eqn:E; [reflexivity|].
    cbn [orb]. apply existsb_exists in H as ([y f] & Hy & Ey). apply existsb_exists. exists (y, f). split; [|exact Ey].
    apply filter_In. split; [exact Hy|]. cbn in *. apply N.eqb_eq in Ey. subst y. rewrite N.eqb_sym, E. reflexivity.
  Qed.

  Lemma sound_set_need s x m : sound s -> sound (set_need s x m).
  Proof. intros H y f Hy. exact (H y f Hy). Qed.
  Lemma sound_clear_need s x : sound s -> sound (clear_need s x).
  Proof. intros H y f Hy. exact (H y f Hy). Qed.

  Lemma sound_set_commit s x full b : sound s -> lookup_blob world x = Some b -> first_missing s (b_fdeps b) = None ->
    (full = true -> match b_idep b with Some t => has_meta s t = true | None => True end) -> sound (set_commit s x full).
  Proof.
    intros Hs Hb Hf Hi y f Hy. cbn [set_commit committed] in Hy. destruct Hy as [E|Hy].
    - injection E as <- <-. exists b. split; [exact Hb|]. split; [exact Hf|]. intros Hfull. specialize (Hi Hfull).
      destruct (b_idep b) as [t|]; [apply has_meta_set_commit; exact Hi|exact I].
    - apply filter_In in Hy as [Hy _]. destruct (Hs y f Hy) as (b' & A & B & C). exists b'. split; [exact A|]. split; [exact B|].
      intros Hfull. specialize (C Hfull). destruct (b_idep b') as [t|]; [apply has_meta_set_commit; exact C|exact I].
  Qed.

  Lemma receive_sound : forall fuel s x, sound s -> sound (receive world fuel s x).
  Proof.
    induction fuel as [|f IH]; intros s x Hs; [exact Hs|]. cbn [receive].
    destruct (lookup_blob world x) as [b|] eqn:Hb; [|exact Hs]. destruct (is_full s x); [exact Hs|].
    assert (Hfold : forall l st, sound st -> sound (fold_left (fun st n => receive world f st n) l st)).
    { induction l as [|n l IHl]; intros st Hst; [exact Hst|]. cbn [fold_left]. apply IHl. apply IH. exact Hst. }
    apply Hfold.
    destruct (first_missing s (b_fdeps b)) as [m|] eqn:Hm; [apply sound_set_need; exact Hs|].
    destruct (b_idep b) as [t|] eqn:Hi.
    - destruct (has_meta s t) eqn:Ht.
      + eapply sound_set_commit; [apply sound_clear_need; exact Hs|exact Hb|exact Hm|]. intros _. rewrite Hi. exact Ht.
      + apply sound_set_need. eapply sound_set_commit; [exact Hs|exact Hb|exact Hm|discriminate].
    - eapply sound_set_commit; [apply sound_clear_need; exact Hs|exact Hb|exact Hm|]. intros _. rewrite Hi. exact I.
  Qed.

  Lemma sound_more_fetchable s x : sound s ->
    sound {| fetchable := if memN x (fetchable s) then fetchable s else x :: fetchable s; committed := committed s; needs := needs s |}.
  Proof.
    intros Hs y f Hy. cbn [committed] in Hy. destruct (Hs y f Hy) as (b & A & B & C). exists b. split; [exact A|]. split.
    - unfold first_missing in *. cbn [fetchable]. destruct (memN x (fetchable s)) eqn:E; [exact B|].
      clear -B. induction (b_fdeps b) as [|d ds IHd]; [reflexivity|]. cbn [find] in *.
      destruct (negb (memN d (fetchable s))) eqn:Ed; [discriminate|]. apply negb_false_iff in Ed.
      assert (negb (memN d (x :: fetchable s)) = false) as ->.
      { apply negb_false_iff. unfold memN in *. cbn [existsb]. rewrite Ed. apply orb_true_r. }
      apply IHd. exact B.
    - intros Hfull. specialize (C Hfull). destruct (b_idep b); [exact C|exact I].
  Qed.

  Theorem run_sound fuel order : sound (run world fuel order).
  Proof.
    unfold run. assert (H : sound ist0) by (intros y f []).
    revert H. generalize ist0. induction order as [|x order IH]; intros s Hs; [exact Hs|].
    cbn [fold_left]. apply IH. unfold deliver. apply receive_sound. apply sound_more_fetchable. exact Hs.
  Qed.
End Sound.

(* ================= a complete sweep of one non-trivial world ================= *)
Fixpoint insert_everywhere (x : N) (l : list N) : list (list N) :=
  match l with
  | [] => [[x]]
  | y :: r => (x :: l) :: map (cons y) (insert_everywhere x r)
  end.
Fixpoint perms (l : list N) : list (list N) :=
  match l with [] => [[]] | x :: r => flat_map (insert_everywhere x) (perms r) end.

Local Open Scope N_scope.
(* key 1; permanode 2; claim 3; delete of the claim 4; delete of that delete 5; chunk 6; file over the chunk 7 *)
Definition w7 : list blob :=
  [ {| b_id := 1; b_fdeps := []; b_idep := None |};
    {| b_id := 2; b_fdeps := [1]; b_idep := None |};
    {| b_id := 3; b_fdeps := [1]; b_idep := None |};
    {| b_id := 4; b_fdeps := [1]; b_idep := Some 3 |};
    {| b_id := 5; b_fdeps := [1]; b_idep := Some 4 |};
    {| b_id := 6; b_fdeps := []; b_idep := None |};
    {| b_id := 7; b_fdeps := [6]; b_idep := None |} ].

Definition status_eqb (a b : option status) : bool :=
  match a, b with
  | Some Full, Some Full | Some Partial, Some Partial | None, None => true
  | Some (Pending x), Some (Pending y) => N.eqb x y
  | _, _ => false
  end.

Definition agrees (world : list blob) (order : list N) : bool :=
  forallb (fun b => status_eqb (status_of (run world 12 order) (b_id b)) (expected world order (b_id b))) world.

(* all 5040 arrival orders of the seven blobs, and all 720 orders in which the key never arrives *)
Lemma w7_all_orders : forallb (agrees w7) (perms [1; 2; 3; 4; 5; 6; 7]) = true /\ forallb (agrees w7) (perms [2; 3; 4; 5; 6; 7]) = true.
Proof. split; vm_compute; reflexivity. Qed.

Lemma w7_sweep : forall order, In order (perms [1; 2; 3; 4; 5; 6; 7] ++ perms [2; 3; 4; 5; 6; 7]) -> agrees w7 order = true.
Proof.
  intros order H. destruct w7_all_orders as [A B]. rewrite forallb_forall in A, B.
  apply in_app_or in H as [H|H]; [apply A|apply B]; exact H.
Qed.

(* ---------- fuel ---------- *)
(* The code re-indexes the blobs woken by an arrival without any bound on the depth of the cascade; the model's [receive]
   takes fuel.  Too little fuel is not harmless: a blob can be committed by a call that has no fuel left for the blobs it
   wakes, and a later call skips it because it is already fully indexed.  In this four-blob world (1 waits for the row
   of 2; 2 and 3 fetch 1; 4 waits for the row of 3) fuel 3 and every fuel >= 5 reach the SPEC on all 24 arrival orders,
   fuel 4 does not.  The correspondence runs use fuel 12. *)
Definition wq : list blob :=
  [ {| b_id := 1; b_fdeps := []; b_idep := Some 2 |};
    {| b_id := 2; b_fdeps := [1]; b_idep := None |};
    {| b_id := 3; b_fdeps := [1]; b_idep := None |};
    {| b_id := 4; b_fdeps := []; b_idep := Some 3 |} ].
Definition agrees_with (fuel : nat) (world : list blob) (order : list N) : bool :=
  forallb (fun b => status_eqb (status_of (run world fuel order) (b_id b)) (expected world order (b_id b))) world.
Lemma fuel_matters :
  forallb (agrees_with 12 wq) (perms [1; 2; 3; 4]) = true /\ forallb (agrees_with 5 wq) (perms [1; 2; 3; 4]) = true /\
  agrees_with 4 wq [3; 2; 4; 1] = false.
Proof. vm_compute. repeat split. Qed.

From Coq Require Import List NArith ZArith Bool Lia Sorted Permutation Arith ZifyBool ZifyN ZifyNat.
From PK.Model Require Import C08.
Import ListNotations.

(* ================= induction over constraint trees ================= *)
Section cst_ind.
  Variable P : cst -> Prop.
  Hypothesis Hleaf : forall a ct ac p wh sz r pf rl, P (Node None a ct ac p wh sz r pf rl).
  Hypothesis Hnode : forall o x y a ct ac p wh sz r pf rl, P x -> P y -> P (Node (Some (o, x, y)) a ct ac p wh sz r pf rl).
  Fixpoint cst_ind' (c : cst) : P c :=
    match c with
    | Node None a ct ac p wh sz r pf rl => Hleaf a ct ac p wh sz r pf rl
    | Node (Some (o, x, y)) a ct ac p wh sz r pf rl => Hnode o x y a ct ac p wh sz r pf rl (cst_ind' x) (cst_ind' y)
    end.
End cst_ind.

(* ================= what a match implies, field by field ================= *)
Definition c_logical (w : world) (lg : option (lop * cst * cst)) (b : blobm) : list bool :=
  match lg with
  | Some (OAnd, x, y) => [matches w x b && matches w y b]
  | Some (OOr, x, y) => [matches w x b || matches w y b]
  | Some (OXor, x, y) => [xorb (matches w x b) (matches w y b)]
  | Some (ONot, x, _) => [negb (matches w x b)]
  | None => []
  end.
Definition c_camli (camli : ctype) (b : blobm) : list bool := match camli with TNone => [] | t => [ctype_eqb (m_type b) t] end.
Definition c_perm (perm : option (N * pval)) (b : blobm) : list bool :=
  match perm with
  | Some (a, v) => [ctype_eqb (m_type b) TPermanode && (N.eqb a 0 || pval_matches v (avals b a))]
  | None => [] end.
Definition c_whole (whole : N) (b : blobm) : list bool :=
  if N.eqb whole 0 then [] else [ctype_eqb (m_type b) TFile && N.eqb (m_whole b) whole].
Definition c_refis (refis : N) (b : blobm) : list bool := if N.eqb refis 0 then [] else [N.eqb (m_ref b) refis].

Definition c_rel (w : world) (rl : option (bool * bool * cst)) (b : blobm) : list bool :=
  match rl with
  | Some (parent, all, sub) =>
      let ms := map (fun r => match find_blob w r with Some q => matches w sub q | None => false end) (related w parent b) in
      [ctype_eqb (m_type b) TPermanode && (if all then negb (is_nil ms) && forallb (fun x => x) ms else existsb (fun x => x) ms)]
  | None => [] end.

Lemma matches_unfold w lg a ct ac p wh sz r pf rl b :
  matches w (Node lg a ct ac p wh sz r pf rl) b =
  let conds := c_logical w lg b ++ (if a then [true] else []) ++ c_camli ct b ++
               (if ac then [negb (ctype_eqb (m_type b) TNone)] else []) ++ c_perm p b ++ c_whole wh b ++
               (match sz with Some (lo, hi) => [N.leb lo (m_size b) && (N.eqb hi 0 || N.leb (m_size b) hi)] | None => [] end) ++
               c_refis r b ++ (match pf with Some l => [memN (m_ref b) l] | None => [] end) ++ c_rel w rl b in
  match conds with [] => false | _ => forallb (fun x => x) conds end.
Proof. destruct lg as [[[[] x] y]|]; destruct rl as [[[pa al] sub]|]; reflexivity. Qed.

Lemma matches_fields w lg a ct ac p wh sz r pf rl b : matches w (Node lg a ct ac p wh sz r pf rl) b = true ->
  forallb (fun x => x) (c_logical w lg b) = true /\ forallb (fun x => x) (c_camli ct b) = true /\
  (ac = true -> ctype_eqb (m_type b) TNone = false) /\
  forallb (fun x => x) (c_perm p b) = true /\ forallb (fun x => x) (c_whole wh b) = true /\
  forallb (fun x => x) (c_refis r b) = true.
Proof.
  rewrite matches_unfold. cbv zeta.
  match goal with |- match ?l with _ => _ end = true -> _ => remember l as conds eqn:E end.
  intros H. assert (H' : forallb (fun x => x) conds = true) by (destruct conds; [discriminate|exact H]).
  subst conds. rewrite !forallb_app in H'. repeat (apply andb_true_iff in H' as [? H']).
  repeat split; try assumption.
  intros ->. match goal with X : forallb _ [negb _] = true |- _ => cbn in X; rewrite andb_true_r in X; apply negb_true_iff in X; exact X end.
Qed.

Lemma ctype_eqb_eq a b : ctype_eqb a b = true <-> a = b.
Proof. destruct a, b; cbn; split; congruence. Qed.

(* ---- L1: onlyMatchesPermanode ---- *)
Lemma only_perm_sound w : forall c b, only_perm c = true -> matches w c b = true -> m_type b = TPermanode.
Proof.
  induction c as [a ct ac p wh sz r pf rl|o x y a ct ac p wh sz r pf rl IHx IHy] using cst_ind'; intros b Ho Hm;
    apply matches_fields in Hm as (Hl & Hc & _ & Hp & _); cbn [only_perm] in Ho.
  - rewrite orb_false_r in Ho. apply orb_true_iff in Ho as [Ho|Ho].
    + destruct p as [[pa pv]|]; [|discriminate]. cbn in Hp. rewrite andb_true_r in Hp. apply andb_true_iff in Hp as [Hp _].
      apply ctype_eqb_eq; exact Hp.
    + apply ctype_eqb_eq in Ho. subst ct. cbn in Hc. rewrite andb_true_r in Hc. apply ctype_eqb_eq; exact Hc.
  - apply orb_true_iff in Ho as [Ho|Ho].
    + apply orb_true_iff in Ho as [Ho|Ho].
      * destruct p as [[pa pv]|]; [|discriminate]. cbn in Hp. rewrite andb_true_r in Hp. apply andb_true_iff in Hp as [Hp _].
        apply ctype_eqb_eq; exact Hp.
      * apply ctype_eqb_eq in Ho. subst ct. cbn in Hc. rewrite andb_true_r in Hc. apply ctype_eqb_eq; exact Hc.
    + destruct o; try discriminate. cbn in Hl. rewrite andb_true_r in Hl. apply andb_true_iff in Hl as [Hx Hy].
      apply orb_true_iff in Ho as [Ho|Ho]; [apply IHx|apply IHy]; assumption.
Qed.

(* ---- L2: matchesPermanodeTypes ---- *)
(* a world fact: every current camliNodeType value of a permanode is in the set of types it ever had *)
Definition wf_blob (b : blobm) : Prop := forall v, memN v (avals b attr_node_type) = true -> memN v (m_ntypes b) = true.

Definition typed_by (ts : list N) (b : blobm) : bool := existsb (fun t => memN t (m_ntypes b)) ts.

Lemma typed_by_app ts1 ts2 b : typed_by (ts1 ++ ts2) b = typed_by ts1 b || typed_by ts2 b.
Proof. unfold typed_by. apply existsb_app. Qed.

Definition logical_types (lg : option (lop * cst * cst)) : list N :=
  match lg with
  | Some (OAnd, x, y) => match perm_types x with [] => perm_types y | sa => sa end
  | Some (OOr, x, y) => match perm_types x, perm_types y with [], _ | _, [] => [] | sa, sb => sa ++ sb end
  | _ => []
  end.

Lemma perm_types_unfold lg a ct ac p wh sz r pf rl :
  perm_types (Node lg a ct ac p wh sz r pf rl) = match exact_type p with Some v => [v] | None => logical_types lg end.
Proof. cbn [perm_types]. destruct (exact_type p); [reflexivity|]. destruct lg as [[[[] x] y]|]; reflexivity. Qed.

Lemma perm_types_sound w : forall c b, wf_blob b -> perm_types c <> [] -> matches w c b = true -> typed_by (perm_types c) b = true.
Proof.
  assert (Hfield : forall (p : option (N * pval)) v b, wf_blob b -> exact_type p = Some v ->
            forallb (fun x => x) (c_perm p b) = true -> typed_by [v] b = true).
  { intros p v b Hw He Hp. unfold exact_type in He. destruct p as [[pa [|pv|vs|pv okv]]|]; try discriminate.
    - destruct (N.eqb_spec pa attr_node_type) as [->|]; [|discriminate]. injection He as ->.
      cbn in Hp. rewrite andb_true_r in Hp. apply andb_true_iff in Hp as [_ Hp].
      unfold typed_by. cbn. rewrite orb_false_r. apply Hw. exact Hp.
    - destruct (N.eqb_spec pa attr_node_type) as [->|]; [|discriminate]. injection He as ->.
      cbn in Hp. rewrite andb_true_r in Hp. apply andb_true_iff in Hp as [_ Hp]. apply andb_true_iff in Hp as [Hp _].
      unfold typed_by. cbn. rewrite orb_false_r. apply Hw. exact Hp. }
  induction c as [a ct ac p wh sz r pf rl|o x y a ct ac p wh sz r pf rl IHx IHy] using cst_ind'; intros b Hw Hne Hm;
    pose proof (matches_fields _ _ _ _ _ _ _ _ _ _ _ _ Hm) as (Hl & _ & _ & Hp & _); rewrite perm_types_unfold in Hne |- *.
  - destruct (exact_type p) as [v|] eqn:E; [|exfalso; apply Hne; reflexivity]. eapply Hfield; eauto.
  - assert (Hlog : logical_types (Some (o, x, y)) <> [] -> typed_by (logical_types (Some (o, x, y))) b = true).
    { clear Hne. intros Hne. destruct o; cbn [logical_types] in *; try (exfalso; apply Hne; reflexivity).
      - cbn in Hl. rewrite andb_true_r in Hl. apply andb_true_iff in Hl as [Hx Hy].
        destruct (perm_types x) as [|t ts] eqn:Ex; [apply IHy; assumption|]. apply IHx; [assumption|discriminate|assumption].
      - cbn in Hl. rewrite andb_true_r in Hl.
        destruct (perm_types x) as [|t ts] eqn:Ex; [exfalso; apply Hne; reflexivity|].
        destruct (perm_types y) as [|u us] eqn:Ey; [exfalso; apply Hne; reflexivity|].
        rewrite typed_by_app. apply orb_true_iff in Hl as [Hx|Hy].
        + rewrite IHx; [reflexivity|assumption|discriminate|assumption].
        + rewrite IHy; [apply orb_true_r|assumption|discriminate|assumption]. }
    destruct (exact_type p) as [v|] eqn:E; [eapply Hfield; eauto|apply Hlog; exact Hne].
Qed.

(* ---- L3: matchesAtMostOneBlob ---- *)
Lemma at_most_one_sound w : forall c b, at_most_one c <> 0%N -> matches w c b = true -> m_ref b = at_most_one c.
Proof.
  induction c as [a ct ac p wh sz r pf rl|o x y a ct ac p wh sz r pf rl IHx IHy] using cst_ind'; intros b Hne Hm;
    pose proof (matches_fields _ _ _ _ _ _ _ _ _ _ _ _ Hm) as (Hl & _ & _ & _ & _ & Hr); cbn [at_most_one] in Hne |- *.
  - unfold c_refis in Hr. destruct (N.eqb r 0) eqn:E; cbn [negb] in *; [exfalso; apply Hne; reflexivity|].
    cbn in Hr. rewrite andb_true_r in Hr. apply N.eqb_eq in Hr. exact Hr.
  - unfold c_refis in Hr. destruct (N.eqb r 0) eqn:E; cbn [negb] in *.
    + destruct o; try (exfalso; apply Hne; reflexivity). cbn in Hl. rewrite andb_true_r in Hl. apply andb_true_iff in Hl as [Hx Hy].
      destruct (N.eqb (at_most_one x) 0) eqn:Ex; cbn [negb] in *.
      * apply IHy; assumption.
      * apply IHx; [|assumption]. apply N.eqb_neq in Ex. exact Ex.
    + cbn in Hr. rewrite andb_true_r in Hr. apply N.eqb_eq in Hr. exact Hr.
Qed.

(* ---- L4: matchesFileByWholeRef ---- *)
Lemma file_by_whole_sound w : forall c b, file_by_whole c = true -> matches w c b = true -> m_type b = TFile.
Proof.
  induction c as [a ct ac p wh sz r pf rl|o x y a ct ac p wh sz r pf rl IHx IHy] using cst_ind'; intros b Ho Hm;
    pose proof (matches_fields _ _ _ _ _ _ _ _ _ _ _ _ Hm) as (Hl & _ & _ & _ & Hw & _); cbn [file_by_whole] in Ho.
  - cbn [orb] in Ho. unfold c_whole in Hw. destruct (N.eqb wh 0); [discriminate|].
    cbn in Hw. rewrite andb_true_r in Hw. apply andb_true_iff in Hw as [Hw _]. apply ctype_eqb_eq; exact Hw.
  - apply orb_true_iff in Ho as [Ho|Ho].
    + destruct o; try discriminate. cbn in Hl. rewrite andb_true_r in Hl. apply andb_true_iff in Hl as [Hx Hy].
      apply orb_true_iff in Ho as [Ho|Ho]; [apply IHx|apply IHy]; assumption.
    + unfold c_whole in Hw. destruct (N.eqb wh 0); [discriminate|].
      cbn in Hw. rewrite andb_true_r in Hw. apply andb_true_iff in Hw as [Hw _]. apply ctype_eqb_eq; exact Hw.
Qed.

(* ---- L5: the top-level camliType fields ---- *)
Lemma top_camli_sound w c b : matches w c b = true ->
  (fst (top_camli c) <> TNone -> m_type b = fst (top_camli c)) /\ (snd (top_camli c) = true -> m_type b <> TNone).
Proof.
  destruct c as [lg a ct ac p wh sz r pf rl]. intros Hm. apply matches_fields in Hm as (_ & Hc & Hac & _). cbn [top_camli fst snd]. split.
  - intros Hne. destruct ct; try (exfalso; apply Hne; reflexivity); cbn in Hc; rewrite andb_true_r in Hc; apply ctype_eqb_eq; exact Hc.
  - intros E X. specialize (Hac E). rewrite X in Hac. discriminate.
Qed.

(* ================= the planner never loses a match (unsorted sources) ================= *)
Lemma filter_filter_absorb {A} (p q : A -> bool) l : (forall x, In x l -> p x = true -> q x = true) -> filter p (filter q l) = filter p l.
Proof.
  induction l as [|x l IH]; intros H; [reflexivity|]. cbn [filter].
  destruct (q x) eqn:Eq.
  - cbn [filter]. destruct (p x); [f_equal|]; apply IH; intros; apply H; [right| |right|]; assumption.
  - destruct (p x) eqn:Ep; [rewrite (H x (or_introl eq_refl) Ep) in Eq; discriminate|]. apply IH; intros; apply H; [right|]; assumption.
Qed.

Definition wf_world (w : world) : Prop := Forall wf_blob w.

Lemma memN_In v l : memN v l = true <-> In v l.
Proof. unfold memN. rewrite existsb_exists. split; [intros (x & Hx & E); apply N.eqb_eq in E; subst; exact Hx|intros H; exists v; split; [exact H|apply N.eqb_refl]]. Qed.

Lemma wf_worldb_sound w : wf_worldb w = true -> wf_world w /\ NoDup (map m_ref w).
Proof.
  unfold wf_worldb. intros H. apply andb_true_iff in H as [H1 H2]. split.
  - unfold wf_world. rewrite Forall_forall. rewrite forallb_forall in H1. intros b Hb v Hv.
    specialize (H1 b Hb). unfold wf_blobb in H1. rewrite forallb_forall in H1. apply H1. apply memN_In. exact Hv.
  - clear H1. induction w as [|b r IH]; [constructor|]. cbn [distinct_refs] in H2. apply andb_true_iff in H2 as [Hn Hd].
    cbn [map]. constructor; [|apply IH; exact Hd]. intros Hin. apply in_map_iff in Hin as (x & Ex & Hx).
    apply negb_true_iff in Hn. assert (existsb (fun x => N.eqb (m_ref x) (m_ref b)) r = true); [|congruence].
    apply existsb_exists. exists x. split; [exact Hx|]. apply N.eqb_eq. exact Ex.
Qed.

Theorem unsorted_plan_exact : forall w c s, wf_world w -> src_sorted (pick_source c s) = false ->
  filter (matches w c) (candidates w (pick_source c s)) = filter (matches w c) w.
Proof.
  intros w c s Hw Hs.
  assert (Hafter : forall src,
    src = (if negb (N.eqb (at_most_one c) 0) then SrcOne (at_most_one c)
           else if file_by_whole c then SrcFiles
           else let '(camli, anycamli) := top_camli c in
                if anycamli || negb (ctype_eqb camli TNone) then SrcCamli camli else SrcAll) ->
    filter (matches w c) (candidates w src) = filter (matches w c) w).
  { intros src ->. destruct (N.eqb (at_most_one c) 0) eqn:E1; cbn [negb].
    - destruct (file_by_whole c) eqn:E2.
      + cbn [candidates]. apply filter_filter_absorb. intros b _ Hm. rewrite (file_by_whole_sound w c b E2 Hm). reflexivity.
      + destruct (top_camli c) as [camli anycamli] eqn:E3.
        destruct (anycamli || negb (ctype_eqb camli TNone)) eqn:E4; [|reflexivity].
        assert (Hc : forall b, matches w c b = true -> (camli <> TNone -> m_type b = camli) /\ (anycamli = true -> m_type b <> TNone)).
        { intros b Hm. pose proof (top_camli_sound w c b Hm) as X. rewrite E3 in X. exact X. }
        destruct camli; cbn [candidates];
          try (apply filter_filter_absorb; intros b _ Hm; destruct (Hc b Hm) as [X _]; rewrite X by discriminate; reflexivity).
        cbn in E4. rewrite orb_false_r in E4. subst anycamli.
        apply filter_filter_absorb. intros b _ Hm. destruct (Hc b Hm) as [_ X]. specialize (X eq_refl).
        destruct (m_type b); try reflexivity. exfalso; apply X; reflexivity.
    - cbn [candidates]. apply filter_filter_absorb. intros b _ Hm. apply N.eqb_neq in E1. rewrite (at_most_one_sound w c b E1 Hm). apply N.eqb_refl. }
  unfold pick_source in *. destruct (only_perm c) eqn:Eo; [|apply Hafter; reflexivity].
  destruct s; try discriminate.
  all: destruct (perm_types c) as [|t ts] eqn:Et; [apply Hafter; reflexivity|].
  all: cbn [candidates]; apply filter_filter_absorb; intros b Hin Hm.
  all: rewrite (only_perm_sound w c b Eo Hm); cbn [ctype_eqb andb].
  all: pose proof (perm_types_sound w c b) as X; rewrite Et in X; apply X; [|discriminate|exact Hm].
  all: unfold wf_world in Hw; rewrite Forall_forall in Hw; apply Hw; exact Hin.
Qed.

(* ================= order ================= *)
Lemma firstn_In {A} n : forall (l : list A) x, In x (firstn n l) -> In x l.
Proof. induction n as [|n IH]; intros [|y l] x H; cbn in *; try tauto. destruct H as [H|H]; [left; exact H|right; apply IH; exact H]. Qed.

Lemma Permutation_filter' {A} (p : A -> bool) l l' : Permutation l l' -> Permutation (filter p l) (filter p l').
Proof.
  induction 1 as [|x l l' H IH|x y l|l l' l'' H1 IH1 H2 IH2]; cbn [filter].
  - constructor.
  - destruct (p x); [apply perm_skip|]; exact IH.
  - destruct (p x), (p y); try apply Permutation_refl. apply perm_swap.
  - eapply Permutation_trans; eassumption.
Qed.

Section order.
  Variable key : blobm -> option Z.
  Definition kge (a b : blobm) : Prop :=
    match key a, key b with
    | Some ta, Some tb => (tb < ta)%Z \/ (tb = ta /\ (m_ref b <= m_ref a)%N)
    | _, _ => True
    end.
  Definition keyed (l : list blobm) : Prop := Forall (fun b => is_some (key b) = true) l.

  Lemma kge_trans a b c : is_some (key b) = true -> kge a b -> kge b c -> kge a c.
  Proof. unfold kge. destruct (key a), (key b), (key c); cbn; try tauto; try discriminate. lia. Qed.

  Definition before_b (b x : blobm) : bool :=
    match key b, key x with
    | Some tb, Some tx => Z.ltb tx tb || (Z.eqb tx tb && N.ltb (m_ref x) (m_ref b))
    | _, _ => false end.

  Lemma insert_desc_unfold b x r : insert_desc key b (x :: r) = if before_b b x then b :: x :: r else x :: insert_desc key b r.
  Proof. reflexivity. Qed.

  Lemma insert_desc_perm b l : Permutation (insert_desc key b l) (b :: l).
  Proof.
    induction l as [|x r IH]; [apply Permutation_refl|]. rewrite insert_desc_unfold. destruct (before_b b x); [apply Permutation_refl|].
    eapply Permutation_trans; [apply perm_skip; exact IH|apply perm_swap].
  Qed.

  Lemma sort_desc_perm l : Permutation (sort_desc key l) l.
  Proof.
    induction l as [|x r IH]; [apply Permutation_refl|]. unfold sort_desc in *. cbn [fold_right].
    eapply Permutation_trans; [apply insert_desc_perm|apply perm_skip; exact IH].
  Qed.

  Lemma insert_desc_sorted b l : is_some (key b) = true -> keyed l -> StronglySorted kge l -> StronglySorted kge (insert_desc key b l).
  Proof.
    intros Hb. induction l as [|x r IH]; intros Hk Hs; [repeat constructor|].
    inversion Hs as [|? ? Hs' Hf]; subst. inversion Hk as [|? ? Hx Hk']; subst. rewrite insert_desc_unfold.
    destruct (before_b b x) eqn:E.
    - assert (Hbx : kge b x).
      { unfold before_b in E. unfold kge. destruct (key b), (key x); try exact I. lia. }
      constructor; [exact Hs|]. constructor; [exact Hbx|].
      eapply Forall_impl; [|exact Hf]. intros y Hy. cbv beta in Hy. eapply kge_trans; eauto.
    - constructor; [apply IH; assumption|].
      assert (Hxb : kge x b).
      { unfold before_b in E. unfold kge. destruct (key b), (key x); try exact I. lia. }
      eapply Permutation_Forall; [apply Permutation_sym, insert_desc_perm|]. constructor; assumption.
  Qed.

  Lemma sort_desc_sorted l : keyed l -> StronglySorted kge (sort_desc key l).
  Proof.
    induction l as [|x r IH]; intros Hk; [constructor|]. inversion Hk as [|? ? Hx Hk']; subst.
    unfold sort_desc in *. cbn [fold_right]. apply insert_desc_sorted; [exact Hx| |apply IH; exact Hk'].
    eapply Permutation_Forall; [apply Permutation_sym, (sort_desc_perm r)|exact Hk'].
  Qed.

  Lemma sorted_filter (p : blobm -> bool) l : StronglySorted kge l -> StronglySorted kge (filter p l).
  Proof.
    induction l as [|x r IH]; intros Hs; [constructor|]. inversion Hs as [|? ? Hs' Hf]; subst. cbn [filter].
    destruct (p x); [|apply IH; exact Hs']. constructor; [apply IH; exact Hs'|].
    rewrite Forall_forall in *. intros y Hy. apply filter_In in Hy as [Hy _]. apply Hf; exact Hy.
  Qed.

  Lemma sorted_firstn n l : StronglySorted kge l -> StronglySorted kge (firstn n l).
  Proof.
    revert l. induction n as [|n IH]; intros l Hs; [constructor|]. destruct l as [|x r]; [constructor|].
    inversion Hs as [|? ? Hs' Hf]; subst. cbn [firstn]. constructor; [apply IH; exact Hs'|].
    rewrite Forall_forall in *. intros y Hy. apply Hf. eapply firstn_In; eauto.
  Qed.
End order.

(* blobref order *)
Lemma insert_ref_perm b l : Permutation (insert_ref b l) (b :: l).
Proof.
  induction l as [|x r IH]; [apply Permutation_refl|]. cbn [insert_ref]. destruct (N.ltb (m_ref b) (m_ref x)); [apply Permutation_refl|].
  eapply Permutation_trans; [apply perm_skip; exact IH|apply perm_swap].
Qed.
Lemma sort_ref_perm l : Permutation (fold_right insert_ref [] l) l.
Proof.
  induction l as [|x r IH]; [apply Permutation_refl|]. cbn [fold_right].
  eapply Permutation_trans; [apply insert_ref_perm|apply perm_skip; exact IH].
Qed.
Definition rle (a b : blobm) : Prop := (m_ref a <= m_ref b)%N.
Lemma insert_ref_sorted b l : StronglySorted rle l -> StronglySorted rle (insert_ref b l).
Proof.
  induction l as [|x r IH]; intros Hs; [repeat constructor|]. inversion Hs as [|? ? Hs' Hf]; subst. cbn [insert_ref].
  destruct (N.ltb (m_ref b) (m_ref x)) eqn:E.
  - constructor; [exact Hs|]. constructor; [unfold rle; lia|]. eapply Forall_impl; [|exact Hf]. intros y Hy. unfold rle in *. lia.
  - constructor; [apply IH; exact Hs'|]. eapply Permutation_Forall; [apply Permutation_sym, insert_ref_perm|].
    constructor; [unfold rle; lia|exact Hf].
Qed.
Lemma sort_ref_sorted l : StronglySorted rle (fold_right insert_ref [] l).
Proof. induction l as [|x r IH]; [constructor|]. cbn [fold_right]. apply insert_ref_sorted. exact IH. Qed.

(* ================= the answers of Handler.Query ================= *)
Definition full (w : world) (c : cst) : list blobm := filter (matches w c) w.
Definition lim {A} (limit : Z) (l : list A) : list A := if Z.leb limit 0 then l else firstn (Z.to_nat limit) l.

Lemma src_sorted_pick c s :
  src_sorted (pick_source c s) = only_perm c && match s with SLastModDesc | SCreatedDesc => true | _ => false end.
Proof.
  unfold pick_source.
  match goal with |- context [if only_perm c then _ else ?x] => set (ap := x) end.
  assert (Hap : src_sorted ap = false).
  { subst ap. destruct (negb _); [reflexivity|]. destruct (file_by_whole c); [reflexivity|].
    destruct (top_camli c) as [ct ac]. destruct (ac || _); reflexivity. }
  destruct (only_perm c); [|exact Hap]. destruct s; try reflexivity; destruct (perm_types c); try exact Hap; reflexivity.
Qed.

(* unsorted / unspecified: exactly the matching blobs (as a list in world order; the implementation's order is unspecified) *)
Theorem query_set_exact : forall w c s limit l take, wf_world w -> query w c s limit = QSet l take ->
  l = map m_ref (full w c) /\ take = (if Z.leb limit 0 then None else Some (Z.to_nat limit)).
Proof.
  intros w c s limit l take Hw. unfold query. destruct (valid c); cbn [negb]; [|discriminate].
  destruct (src_sorted (pick_source c (planned_sort c s))) eqn:Es; [discriminate|].
  rewrite (unsorted_plan_exact w c _ Hw Es).
  destruct (planned_sort c s); try discriminate.
  all: try (intros H; injection H as <- <-; split; reflexivity).
  destruct (only_perm c); cbn [negb]; [|discriminate]. destruct (forallb _ _); discriminate.
Qed.

(* blobref sort: the matching blobs in ascending blobref order, cut at the limit *)
Theorem query_blobref_exact : forall w c limit l, wf_world w -> query w c SBlobRefAsc limit = QOrdered l ->
  exists sorted_full, Permutation sorted_full (full w c) /\ StronglySorted rle sorted_full /\ l = map m_ref (lim limit sorted_full).
Proof.
  intros w c limit l Hw. unfold query. destruct (valid c); cbn [negb]; [|discriminate].
  cbn [planned_sort]. destruct (src_sorted (pick_source c SBlobRefAsc)) eqn:Es.
  - exfalso. rewrite src_sorted_pick, andb_false_r in Es. discriminate.
  - rewrite (unsorted_plan_exact w c _ Hw Es). intros H. injection H as <-.
    exists (fold_right insert_ref [] (filter (matches w c) w)). split; [apply sort_ref_perm|]. split; [apply sort_ref_sorted|reflexivity].
Qed.

(* time sorts over the pre-sorted permanode enumerations *)
Definition alive (key : blobm -> option Z) (b : blobm) : bool := negb (m_deleted b) && is_some (key b).

Lemma sorted_source_result (key : blobm -> option Z) w c :
  only_perm c = true ->
  let res := filter (matches w c) (sort_desc key (filter (fun b => ctype_eqb (m_type b) TPermanode && negb (m_deleted b) && is_some (key b)) w)) in
  Permutation res (filter (fun b => matches w c b && alive key b) w) /\ StronglySorted (kge key) res.
Proof.
  intros Ho res. split.
  - subst res. eapply Permutation_trans.
    + apply Permutation_filter'. apply sort_desc_perm.
    + assert (E : forall l, filter (matches w c) (filter (fun b => ctype_eqb (m_type b) TPermanode && negb (m_deleted b) && is_some (key b)) l)
                  = filter (fun b => matches w c b && alive key b) l).
      { induction l as [|x l IH]; [reflexivity|]. cbn [filter]. unfold alive at 1.
        destruct (matches w c x) eqn:Em.
        - rewrite (only_perm_sound w c x Ho Em). cbn [ctype_eqb andb].
          destruct (negb (m_deleted x) && is_some (key x)) eqn:Ea; cbn [filter]; rewrite ?Em; [f_equal|]; exact IH.
        - cbn [andb]. destruct (ctype_eqb (m_type x) TPermanode && negb (m_deleted x) && is_some (key x)); cbn [filter]; rewrite ?Em; exact IH. }
      rewrite E. apply Permutation_refl.
  - subst res. apply sorted_filter. apply sort_desc_sorted.
    unfold keyed. rewrite Forall_forall. intros b Hb. apply filter_In in Hb as [_ Hb]. apply andb_true_iff in Hb as [_ Hb]. exact Hb.
Qed.

Definition sort_key (s : sortt) : blobm -> option Z := match s with SLastModDesc => m_mtime | _ => m_ctime end.

Theorem query_time_sorted : forall w c s limit l,
  query w c s limit = QOrdered l -> planned_sort c s = SLastModDesc \/ planned_sort c s = SCreatedDesc ->
  exists sorted_full, let key := sort_key (planned_sort c s) in
    Permutation sorted_full (filter (fun b => matches w c b && alive key b) w) /\ StronglySorted (kge key) sorted_full /\
    l = map m_ref (lim limit sorted_full).
Proof.
  intros w c s limit l. unfold query. destruct (valid c); cbn [negb]; [|discriminate].
  intros H Hs. destruct (only_perm c) eqn:Eo.
  - unfold pick_source in H. rewrite Eo in H.
    destruct Hs as [Hs|Hs]; rewrite Hs in H |- *; cbn [src_sorted candidates sort_key] in H |- *; injection H as <-;
      eexists; (split; [|split; [|reflexivity]]); apply sorted_source_result; exact Eo.
  - exfalso. rewrite src_sorted_pick, Eo in H. cbn [andb negb] in H.
    destruct Hs as [Hs|Hs]; rewrite Hs in H; discriminate.
Qed.

(* with no deleted or time-less permanode among the matches, the time-sorted answer is the full result *)
Lemma alive_full_gen key w c l : Forall (fun b => matches w c b = true -> alive key b = true) l ->
  filter (fun b => matches w c b && alive key b) l = filter (matches w c) l.
Proof.
  induction l as [|x l IH]; intros H; [reflexivity|]. inversion H as [|? ? Hx Hl]; subst. cbn [filter].
  destruct (matches w c x) eqn:E; cbn [andb]; [rewrite (Hx eq_refl); f_equal|]; apply IH; exact Hl.
Qed.

Corollary alive_full key w c : Forall (fun b => matches w c b = true -> alive key b = true) w ->
  filter (fun b => matches w c b && alive key b) w = full w c.
Proof. apply alive_full_gen. Qed.

(* the limited answer is the first N of the unlimited one *)
Theorem query_limit_prefix : forall w c s n l, query w c s (Z.pos n) = QOrdered l ->
  exists l', query w c s (-1) = QOrdered l' /\ l = firstn (Pos.to_nat n) l'.
Proof.
  intros w c s n l. unfold query. destruct (valid c); cbn [negb]; [|discriminate].
  replace (Z.leb (Z.pos n) 0) with false by reflexivity. replace (Z.leb (-1) 0) with true by reflexivity.
  replace (Z.to_nat (Z.pos n)) with (Pos.to_nat n) by reflexivity.
  destruct (src_sorted _).
  - intros H; injection H as <-. eexists; split; [reflexivity|]. symmetry; apply firstn_map.
  - destruct (planned_sort c s); try discriminate.
    + destruct (negb (only_perm c)); [discriminate|]. destruct (forallb _ _); [|discriminate].
      intros H; injection H as <-. eexists; split; [reflexivity|]. symmetry; apply firstn_map.
    + intros H; injection H as <-. eexists; split; [reflexivity|]. symmetry; apply firstn_map.
Qed.

(* no duplicates *)
Lemma NoDup_map_filter (p : blobm -> bool) l : NoDup (map m_ref l) -> NoDup (map m_ref (filter p l)).
Proof.
  induction l as [|x l IH]; intros H; [constructor|]. inversion H as [|? ? Hn Hd]; subst. cbn [filter].
  destruct (p x); [|apply IH; exact Hd]. cbn [map]. constructor; [|apply IH; exact Hd].
  intros Hin. apply Hn. apply in_map_iff in Hin as (y & Ey & Hy). apply filter_In in Hy as [Hy _]. apply in_map_iff. exists y; split; assumption.
Qed.

(* the sorted sources really do leave out matching permanodes: the result set depends on the sort (finding D7) *)
Definition d7_world : world :=
  [ {| m_ref := 1; m_type := TPermanode; m_size := 10; m_deleted := false; m_mtime := Some 5%Z; m_ctime := Some 5%Z; m_attrs := []; m_ntypes := []; m_whole := 0; m_kids := [] |};
    {| m_ref := 2; m_type := TPermanode; m_size := 10; m_deleted := true; m_mtime := Some 7%Z; m_ctime := Some 7%Z; m_attrs := []; m_ntypes := []; m_whole := 0; m_kids := [] |};
    {| m_ref := 3; m_type := TPermanode; m_size := 10; m_deleted := false; m_mtime := None; m_ctime := None; m_attrs := []; m_ntypes := []; m_whole := 0; m_kids := [] |} ]%N.
Definition d7_cst : cst := Node None false TPermanode false None 0 None 0 None None.

Lemma sort_dependence :
  wf_world d7_world /\ map m_ref (full d7_world d7_cst) = [1; 2; 3]%N /\
  query d7_world d7_cst SUnsorted (-1) = QSet [1; 2; 3]%N None /\
  query d7_world d7_cst SBlobRefAsc (-1) = QOrdered [1; 2; 3]%N /\
  query d7_world d7_cst SCreatedDesc (-1) = QOrdered [1]%N /\
  query d7_world d7_cst SUnspecified (-1) = QOrdered [1]%N.
Proof. split; [repeat constructor; intros v H; discriminate|]. vm_compute. repeat split; reflexivity. Qed.

(* the pre-repair planner rule for "or" (append the two sides' types whatever they are) loses matches (D6) *)
Fixpoint perm_types_old (c : cst) : list N :=
  match c with
  | Node logical _ _ _ perm _ _ _ _ _ =>
      let lg := match logical with
                | Some (OAnd, x, y) => match perm_types_old x with [] => perm_types_old y | sa => sa end
                | Some (OOr, x, y) => perm_types_old x ++ perm_types_old y
                | _ => []
                end in
      match exact_type perm with Some v => [v] | None => lg end
  end.

Definition d6_world : world :=
  [ {| m_ref := 1; m_type := TPermanode; m_size := 10; m_deleted := false; m_mtime := Some 5%Z; m_ctime := Some 5%Z; m_attrs := [(1, [7]); (2, [9])]; m_ntypes := [7]; m_whole := 0; m_kids := [] |};
    {| m_ref := 2; m_type := TPermanode; m_size := 10; m_deleted := false; m_mtime := Some 7%Z; m_ctime := Some 7%Z; m_attrs := [(2, [8])]; m_ntypes := []; m_whole := 0; m_kids := [] |} ]%N.
Definition leaf_perm (a v : N) : cst := Node None false TNone false (Some (a, PExact v)) 0 None 0 None None.
Definition d6_cst : cst :=
  Node (Some (OAnd, Node None false TPermanode false None 0 None 0 None None,
                    Node (Some (OOr, leaf_perm 1 7, leaf_perm 2 8)) false TNone false None 0 None 0 None None)) false TNone false None 0 None 0 None None.

Lemma old_or_rule_loses_matches :
  wf_world d6_world /\ map m_ref (full d6_world d6_cst) = [1; 2]%N /\
  map m_ref (filter (matches d6_world d6_cst) (candidates d6_world (SrcTypes (perm_types_old d6_cst)))) = [1]%N /\
  perm_types d6_cst = [].
Proof.
  split; [|vm_compute; repeat split; reflexivity].
  constructor; [intros v H; exact H|]. constructor; [intros v H; discriminate H|constructor].
Qed.

(* ---- the relation matcher, spelled out ---- *)
Definition rel_leaf (parent all : bool) (sub : cst) : cst := Node None false TNone false (Some (0%N, PNone)) 0 None 0 None (Some (parent, all, sub)).

Lemma relation_any_spec w parent sub b :
  matches w (rel_leaf parent false sub) b = true <->
  m_type b = TPermanode /\ exists r q, In r (related w parent b) /\ find_blob w r = Some q /\ matches w sub q = true.
Proof.
  unfold rel_leaf. rewrite matches_unfold. cbn [c_logical c_camli c_perm c_whole c_refis c_rel app N.eqb orb forallb].
  rewrite !andb_true_r. split.
  - intros H. apply andb_true_iff in H as [Ht H]. apply andb_true_iff in H as [_ H]. split; [apply ctype_eqb_eq; exact Ht|].
    apply existsb_exists in H as (x & Hx & ->). apply in_map_iff in Hx as (r & Hr & Hin).
    destruct (find_blob w r) as [q|] eqn:E; [|discriminate]. exists r, q. repeat split; assumption.
  - intros [Ht (r & q & Hin & Hf & Hm)]. apply ctype_eqb_eq in Ht. rewrite Ht. cbn [andb].
    apply existsb_exists. exists true. split; [|reflexivity]. apply in_map_iff. exists r. rewrite Hf. split; assumption.
Qed.

Lemma relation_all_spec w parent sub b :
  matches w (rel_leaf parent true sub) b = true <->
  m_type b = TPermanode /\ related w parent b <> [] /\
  forall r, In r (related w parent b) -> exists q, find_blob w r = Some q /\ matches w sub q = true.
Proof.
  unfold rel_leaf. rewrite matches_unfold. cbn [c_logical c_camli c_perm c_whole c_refis c_rel app N.eqb orb forallb].
  rewrite !andb_true_r. split.
  - intros H. apply andb_true_iff in H as [Ht H]. apply andb_true_iff in H as [_ H]. apply andb_true_iff in H as [Hne Hall].
    split; [apply ctype_eqb_eq; exact Ht|]. split.
    + intros E. rewrite E in Hne. discriminate.
    + intros r Hin. rewrite forallb_forall in Hall.
      specialize (Hall _ (in_map (fun r => match find_blob w r with Some q => matches w sub q | None => false end) _ r Hin)).
      cbv beta in Hall. destruct (find_blob w r) as [q|]; [exists q; split; [reflexivity|exact Hall]|discriminate].
  - intros (Ht & Hne & Hall). apply ctype_eqb_eq in Ht. rewrite Ht. cbn [andb]. apply andb_true_iff. split.
    + destruct (related w parent b); [contradiction|reflexivity].
    + apply forallb_forall. intros x Hx. apply in_map_iff in Hx as (r & <- & Hin). destruct (Hall r Hin) as (q & -> & Hm). exact Hm.
Qed.

(* P1 has the live children P2 and P3; P3 is tagged (attribute 2, value 8) *)
Definition rel_world : world :=
  [ {| m_ref := 1; m_type := TPermanode; m_size := 10; m_deleted := false; m_mtime := Some 5%Z; m_ctime := Some 5%Z; m_attrs := []; m_ntypes := []; m_whole := 0; m_kids := [2; 3]%N |};
    {| m_ref := 2; m_type := TPermanode; m_size := 10; m_deleted := false; m_mtime := Some 6%Z; m_ctime := Some 6%Z; m_attrs := []; m_ntypes := []; m_whole := 0; m_kids := [] |};
    {| m_ref := 3; m_type := TPermanode; m_size := 10; m_deleted := false; m_mtime := Some 7%Z; m_ctime := Some 7%Z; m_attrs := [(2, [8])]%N; m_ntypes := []; m_whole := 0; m_kids := [] |} ]%N.

Lemma relation_examples :
  query rel_world (rel_leaf false false (leaf_perm 2 8)) SBlobRefAsc (-1) = QOrdered [1%N] /\       (* has a child tagged 8 *)
  query rel_world (rel_leaf false true (leaf_perm 2 8)) SBlobRefAsc (-1) = QOrdered [] /\           (* all children tagged 8: no *)
  query rel_world (rel_leaf true false (rel_leaf false false (leaf_perm 2 8))) SBlobRefAsc (-1) = QOrdered [2; 3]%N.  (* siblings of a tagged child, and itself *)
Proof. vm_compute. repeat split. Qed.

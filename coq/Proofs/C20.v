From Coq Require Import String.
From Coq Require Import List NArith ZArith Bool Lia Arith ZifyN ZifyNat ZifyBool.
From PK.Base Require Import Bytes Lex.
From PK.Generated Require Import Consts.
From PK.Model Require Import C20.
From PK.Proofs Require Import BytesLemmas.
Import ListNotations.
Local Open Scope N_scope.
Ltac Zify.zify_post_hook ::= Z.div_mod_to_equations.

(* ---- the generated hexDigit table is the hexdigit function ---- *)
Lemma hex_digit_table : forall n, n < 16 -> nth (N.to_nat n) (ofs hex_digit) 0 = hexdigit n.
Proof.
  intros n H.
  assert (forallb (fun k => nth (N.to_nat k) (ofs hex_digit) 0 =? hexdigit k)
            (map N.of_nat (seq 0 16)) = true) as A by (vm_compute; reflexivity).
  rewrite forallb_forall in A. apply N.eqb_eq. apply A.
  apply in_map_iff. exists (N.to_nat n). split; [lia|]. apply in_seq. lia.
Qed.

(* ---- hex digits ---- *)
Lemma hexval_hexdigit n : n < 16 -> hexval (hexdigit n) = Some n.
Proof.
  intros H. unfold hexval, hexdigit. destruct (n <? 10) eqn:E.
  - assert ((48 <=? 48 + n) && (48 + n <=? 57) = true) as -> by lia. f_equal. lia.
  - assert ((48 <=? 87 + n) && (87 + n <=? 57) = false) as -> by lia.
    assert ((97 <=? 87 + n) && (87 + n <=? 102) = true) as -> by lia. f_equal. lia.
Qed.

Lemma hexval_inv c n : hexval c = Some n -> n < 16 /\ hexdigit n = c.
Proof.
  unfold hexval, hexdigit. destruct ((48 <=? c) && (c <=? 57)) eqn:E1.
  - intros [= <-]. assert (c - 48 <? 10 = true) as -> by lia. lia.
  - destruct ((97 <=? c) && (c <=? 102)) eqn:E2; [|discriminate].
    intros [= <-]. assert (c - 87 <? 10 = false) as -> by lia. lia.
Qed.

Lemma unhex_hex d : all_bytes d = true -> unhex_pairs (hex d) = Some d.
Proof.
  induction d as [|b d IH]; [reflexivity|]. unfold all_bytes. cbn [hex hex1 app unhex_pairs forallb]. intros H. apply andb_true_iff in H as [Hb Hd].
  assert (b < 256) as Hb' by lia. clear Hb.
  rewrite !hexval_hexdigit by lia. fold (all_bytes d) in Hd. rewrite (IH Hd). f_equal. f_equal. lia.
Qed.

Lemma unhex_pairs_inv_aux n : forall h d, (length h <= n)%nat -> unhex_pairs h = Some d -> hex d = h /\ all_bytes d = true.
Proof.
  induction n as [|n IH]; intros h d L H.
  - destruct h; [|cbn in L; lia]. cbn in H. injection H as <-. split; reflexivity.
  - destruct h as [|a [|b r]]; cbn in H.
    + injection H as <-. split; reflexivity.
    + discriminate.
    + destruct (hexval a) as [x|] eqn:Ea; [|discriminate].
      destruct (hexval b) as [y|] eqn:Eb; [|discriminate].
      destruct (unhex_pairs r) as [t|] eqn:Er; [|discriminate].
      injection H as <-. apply hexval_inv in Ea as [Hx Ha]. apply hexval_inv in Eb as [Hy Hb].
      destruct (IH r t) as [Ht Hw]; [cbn in L; lia|exact Er|].
      subst a b. split.
      * cbn [hex hex1 app]. rewrite Ht. f_equal; [f_equal; lia | f_equal; f_equal; lia].
      * unfold all_bytes in *. cbn [forallb]. rewrite Hw, andb_true_r. lia.
Qed.

Lemma unhex_pairs_inv h d : unhex_pairs h = Some d -> hex d = h /\ all_bytes d = true.
Proof. apply (unhex_pairs_inv_aux (length h)). lia. Qed.

Lemma unhex_pairs_length h d : unhex_pairs h = Some d -> length h = (2 * length d)%nat.
Proof. intros H. apply unhex_pairs_inv in H as [<- _]. apply hex_length. Qed.

(* ---- split at the first dash ---- *)
Lemma split_dash_inv s : forall n h, split_dash s = Some (n, h) -> s = n ++ [dash] ++ h /\ forallb (fun c => negb (c =? dash)) n = true.
Proof.
  induction s as [|c s IH]; cbn; intros n h H; [discriminate|].
  destruct (c =? dash) eqn:E.
  - injection H as <- <-. apply N.eqb_eq in E. subst. split; reflexivity.
  - destruct (split_dash s) as [[n' h']|]; [|discriminate]. injection H as <- <-.
    destruct (IH n' h' eq_refl) as [-> Hn]. cbn. rewrite E, Hn. split; reflexivity.
Qed.

Lemma split_dash_app n : forall h, forallb (fun c => negb (c =? dash)) n = true -> split_dash (n ++ [dash] ++ h) = Some (n, h).
Proof.
  induction n as [|c n IH]; intros h H; cbn in *; [reflexivity|].
  apply andb_true_iff in H as [H1 H2]. apply negb_true_iff in H1. rewrite H1.
  rewrite (IH h H2). reflexivity.
Qed.

Lemma kind_of_name_inv n k : kind_of_name n = Some k -> n = kname k.
Proof.
  unfold kind_of_name. destruct (beqb n (kname KSha1)) eqn:E1; [intros [= <-]; apply beqb_eq; exact E1|].
  destruct (beqb n (kname KSha224)) eqn:E2; [intros [= <-]; apply beqb_eq; exact E2|].
  destruct (beqb n (kname KSha256)) eqn:E3; [intros [= <-]; apply beqb_eq; exact E3|discriminate].
Qed.

Lemma kind_of_kname k : kind_of_name (kname k) = Some k.
Proof. destruct k; reflexivity. Qed.

Lemma kname_nodash k : forallb (fun c => negb (c =? dash)) (kname k) = true.
Proof. destruct k; reflexivity. Qed.

Lemma valid_name_nodash n : valid_digest_name n = true -> forallb (fun c => negb (c =? dash)) n = true.
Proof.
  unfold valid_digest_name. destruct n as [|c n]; [discriminate|]. intros H.
  rewrite forallb_forall in *. intros x Hx. specialize (H x Hx). unfold name_char_ok, dash in *. lia.
Qed.

(* ---- canonical form: whatever parses prints back to the same text ---- *)
Lemma parse_unknown_print name hx r : parse_unknown name hx = Some r -> to_string r = name ++ [dash] ++ hx.
Proof.
  unfold parse_unknown. destruct (negb (valid_digest_name name)); [discriminate|].
  set (odd := Nat.odd (length hx)). set (hx' := if odd then hx ++ [48] else hx).
  destruct (_ || _); [discriminate|].
  destruct (unhex_pairs hx') as [sum|] eqn:E; [|discriminate]. intros [= <-].
  apply unhex_pairs_inv in E as [E _]. unfold to_string. cbn [rname rbytes]. rewrite E. subst hx'.
  destruct odd.
  - rewrite !app_assoc. apply removelast_app_single.
  - reflexivity.
Qed.

Lemma print_parse a s r : parse a s = Some r -> to_string r = s.
Proof.
  unfold parse. destruct (split_dash s) as [[name hx]|] eqn:Es; [|discriminate].
  apply split_dash_inv in Es as [-> _].
  destruct (kind_of_name name) as [k|] eqn:Ek.
  - destruct (negb _); [discriminate|]. destruct (unhex_pairs hx) as [d|] eqn:E; [|discriminate].
    intros [= <-]. apply unhex_pairs_inv in E as [E _]. apply kind_of_name_inv in Ek. subst name.
    unfold to_string. cbn [rname rbytes]. rewrite E. reflexivity.
  - destruct (a || is_test_name name); [|discriminate]. apply parse_unknown_print.
Qed.

(* ---- every well-formed ref parses back from its text ---- *)
Lemma hex_last_odd sum : sum <> [] -> last sum 0 mod 16 = 0 -> exists h, hex sum = h ++ [48].
Proof.
  induction sum as [|b sum IH]; [contradiction|]. intros _ H. destruct sum as [|c sum].
  - cbn in *. exists [hexdigit (b / 16)]. cbn. rewrite H. reflexivity.
  - destruct IH as [h Hh]; [discriminate|exact H|]. exists (hex1 b ++ h).
    change (hex (b :: c :: sum)) with (hex1 b ++ hex (c :: sum)). rewrite Hh, app_assoc. reflexivity.
Qed.

Lemma odd_pred_double n : (1 <= n)%nat -> Nat.odd (2 * n - 1) = true.
Proof.
  intros H. destruct n; [lia|]. replace (2 * S n - 1)%nat with (S (2 * n)) by lia.
  rewrite Nat.odd_succ. apply Nat.even_spec. exists n. lia.
Qed.

Lemma parse_print r : wf_ref r = true -> parse true (to_string r) = Some r.
Proof.
  destruct r as [k d|n sum odd]; cbn [wf_ref]; intros H.
  - apply andb_true_iff in H as [Hl Hb]. apply Nat.eqb_eq in Hl.
    unfold to_string, parse. cbn [rname rbytes]. rewrite split_dash_app by apply kname_nodash.
    rewrite kind_of_kname, hex_length, Hl, Nat.eqb_refl. cbn [negb]. rewrite unhex_hex by exact Hb. reflexivity.
  - repeat (apply andb_true_iff in H as [H ?]).
    match goal with Hn : valid_digest_name n = true |- _ => rename Hn into Hv end.
    match goal with Hn : negb _ = true |- _ => rename Hn into Hk end.
    match goal with Hn : Nat.leb 1 _ = true |- _ => apply Nat.leb_le in Hn; rename Hn into Hl1 end.
    match goal with Hn : Nat.leb _ (N.to_nat _) = true |- _ => apply Nat.leb_le in Hn; rename Hn into Hl2 end.
    match goal with Hn : all_bytes sum = true |- _ => rename Hn into Hb end.
    match goal with Hn : (if odd then _ else _) = true |- _ => rename Hn into Ho end.
    destruct (kind_of_name n) eqn:Ek; [discriminate|]. clear Hk.
    assert (Hne : sum <> []) by (destruct sum; [cbn in Hl1; lia|discriminate]).
    unfold parse, to_string. cbn [rname rbytes]. destruct odd.
    + apply N.eqb_eq in Ho. destruct (hex_last_odd sum Hne Ho) as [h Hh].
      rewrite Hh. rewrite !app_assoc, removelast_app_single, <- app_assoc.
      rewrite split_dash_app by (apply valid_name_nodash; exact Hv). rewrite Ek. cbn [orb].
      unfold parse_unknown. rewrite Hv. cbn [negb].
      assert (Hlen : length h = (2 * length sum - 1)%nat).
      { pose proof (hex_length sum) as L. rewrite Hh, app_length in L. cbn in L. lia. }
      rewrite Hlen, odd_pred_double by lia. rewrite <- Hh.
      rewrite hex_length. 
      assert ((Nat.ltb (2 * length sum) 2 || Nat.ltb (2 * N.to_nat max_other_digest_len) (2 * length sum)) = false) as ->.
      { apply orb_false_iff. split; apply Nat.ltb_ge; lia. }
      rewrite unhex_hex by exact Hb. reflexivity.
    + rewrite split_dash_app by (apply valid_name_nodash; exact Hv). rewrite Ek. cbn [orb].
      unfold parse_unknown. rewrite Hv. cbn [negb]. rewrite hex_length.
      assert (Nat.odd (2 * length sum) = false) as ->.
      { rewrite <- Nat.negb_even. apply negb_false_iff. apply Nat.even_spec. exists (length sum). lia. }
      cbv zeta. rewrite ?hex_length.
      assert ((Nat.ltb (2 * length sum) 2 || Nat.ltb (2 * N.to_nat max_other_digest_len) (2 * length sum)) = false) as ->.
      { apply orb_false_iff. split; apply Nat.ltb_ge; lia. }
      rewrite unhex_hex by exact Hb. reflexivity.
Qed.

(* parse only builds well-formed refs *)
Lemma parse_wf a s r : parse a s = Some r -> wf_ref r = true.
Proof.
  unfold parse. destruct (split_dash s) as [[name hx]|]; [|discriminate].
  destruct (kind_of_name name) as [k|] eqn:Ek.
  - destruct (negb (Nat.eqb (length hx) (2 * ksize k))) eqn:El; [discriminate|].
    destruct (unhex_pairs hx) as [d|] eqn:E; [|discriminate]. intros [= <-].
    pose proof (unhex_pairs_length _ _ E) as L. apply unhex_pairs_inv in E as [_ Hb].
    apply negb_false_iff, Nat.eqb_eq in El. cbn. rewrite Hb, andb_true_r. apply Nat.eqb_eq. lia.
  - destruct (a || is_test_name name); [|discriminate]. unfold parse_unknown.
    destruct (valid_digest_name name) eqn:Hv; [|discriminate]. cbn [negb].
    set (odd := Nat.odd (length hx)). set (hx' := if odd then hx ++ [48] else hx).
    destruct (Nat.ltb (length hx') 2 || Nat.ltb (2 * N.to_nat max_other_digest_len) (length hx')) eqn:El; [discriminate|].
    destruct (unhex_pairs hx') as [sum|] eqn:E; [|discriminate]. intros [= <-].
    apply orb_false_iff in El as [L1 L2]. apply Nat.ltb_ge in L1, L2.
    pose proof (unhex_pairs_length _ _ E) as L. pose proof E as E'. apply unhex_pairs_inv in E' as [Eh Hb].
    cbn [wf_ref]. rewrite Hv, Ek, Hb. cbn [negb andb].
    assert (Nat.leb 1 (length sum) = true) as -> by (apply Nat.leb_le; lia).
    assert (Nat.leb (length sum) (N.to_nat max_other_digest_len) = true) as -> by (apply Nat.leb_le; lia).
    cbn [andb]. destruct odd eqn:Eo; [|reflexivity].
    (* the last digit is the appended '0' *)
    subst hx'. assert (Hne : sum <> []) by (destruct sum; [cbn in L; rewrite app_length in L; cbn in L; lia|discriminate]).
    destruct (exists_last Hne) as (pre & b & ->). rewrite last_app_single.
    assert (Hx : hex (pre ++ [b]) = hex pre ++ hex1 b).
    { clear. induction pre as [|x pre IH]; cbn; [reflexivity|]. rewrite IH. reflexivity. }
    rewrite Hx in Eh. unfold hex1 in Eh.
    change [hexdigit (b / 16); hexdigit (b mod 16)] with ([hexdigit (b / 16)] ++ [hexdigit (b mod 16)]) in Eh.
    rewrite !app_assoc in Eh. apply app_inj_tail in Eh as [_ Eh].
    assert (Hb' : b < 256).
    { unfold all_bytes in Hb. rewrite forallb_app in Hb. apply andb_true_iff in Hb as [_ Hb]. cbn in Hb. lia. }
    unfold hexdigit in Eh. destruct (b mod 16 <? 10) eqn:E10; lia.
Qed.

(* ---- ordering ---- *)
Lemma less_known_text k1 d1 k2 d2 :
  wf_ref (Known k1 d1) = true -> wf_ref (Known k2 d2) = true ->
  less (Known k1 d1) (Known k2 d2) = ltb (to_string (Known k1 d1)) (to_string (Known k2 d2)).
Proof.
  cbn [wf_ref]. intros H1 H2. apply andb_true_iff in H1 as [L1 B1]. apply andb_true_iff in H2 as [L2 B2].
  apply Nat.eqb_eq in L1, L2. unfold less, to_string. cbn [rname rbytes].
  destruct k1, k2; cbn [kname ofs]; try (cbn; reflexivity).
  all: rewrite ltb_app_same; symmetry; apply hex_lt;
    [apply Forall_forall; intros x Hx; unfold all_bytes in B1; rewrite forallb_forall in B1; specialize (B1 x Hx); lia
    |apply Forall_forall; intros x Hx; unfold all_bytes in B2; rewrite forallb_forall in B2; specialize (B2 x Hx); lia
    |cbn in L1, L2; lia].
Qed.

(* ---- EqualString / HasPrefix on supported refs ---- *)
Lemma eq_loop_spec d : forall t, length t = (2 * length d)%nat -> eq_loop d t false = beqb t (hex d).
Proof.
  induction d as [|b d IH]; intros t L.
  - destruct t; [reflexivity|cbn in L; lia].
  - destruct t as [|c1 [|c2 t]]; cbn in L; try lia. cbn [eq_loop hex hex1 app beqb].
    destruct (c1 =? hexdigit (b / 16)); cbn [negb andb]; [|reflexivity].
    assert (match d with [] => (if negb (c2 =? hexdigit (b mod 16)) then false else eq_loop d t false)
                      | _ :: _ => (if negb (c2 =? hexdigit (b mod 16)) then false else eq_loop d t false) end
            = (c2 =? hexdigit (b mod 16)) && beqb t (hex d)) as E.
    { rewrite IH by lia. destruct d; destruct (c2 =? hexdigit (b mod 16)); reflexivity. }
    destruct d; exact E.
Qed.

Lemma equal_string_known k d s : wf_ref (Known k d) = true ->
  equal_string (Known k d) s = Some (beqb s (to_string (Known k d))).
Proof.
  cbn [wf_ref]. intros H. apply andb_true_iff in H as [L _]. apply Nat.eqb_eq in L.
  unfold equal_string, str_len, to_string. cbn [rname rbytes].
  destruct (Nat.eqb (length s) (length (kname k) + 1 + 2 * length d)) eqn:El; cbn [negb].
  - apply Nat.eqb_eq in El.
    destruct (is_prefix (kname k ++ [dash]) s) eqn:Ep; cbn [negb].
    + pose proof (is_prefix_skipn _ _ Ep) as Hs. rewrite app_length in Hs. cbn [length] in Hs.
      set (t := skipn (length (kname k) + 1) s) in *.
      assert (Ht : length t = (2 * length d)%nat) by (unfold t; rewrite skipn_length; lia).
      replace (beqb s (kname k ++ [dash] ++ hex d)) with (beqb t (hex d)).
      2:{ rewrite Hs. rewrite (app_assoc (kname k) [dash] (hex d)). rewrite beqb_app_same. reflexivity. }
      rewrite eq_loop_spec by exact Ht. reflexivity.
    + f_equal. symmetry. apply beqb_neq. intros ->. rewrite app_assoc in Ep.
      assert (is_prefix (kname k ++ [dash]) ((kname k ++ [dash]) ++ hex d) = true) as X by (apply is_prefix_spec; eexists; reflexivity).
      congruence.
  - f_equal. symmetry. apply beqb_len_neq. apply Nat.eqb_neq in El. rewrite !app_length, hex_length. cbn [length]. lia.
Qed.

Lemma pre_loop_spec d : forall t, (length t <= 2 * length d)%nat -> pre_loop d t false = is_prefix t (hex d).
Proof.
  induction d as [|b d IH]; intros t L.
  - destruct t; [reflexivity|cbn in L; lia].
  - destruct t as [|c1 [|c2 t]]; cbn [pre_loop hex hex1 app is_prefix]; [reflexivity| |].
    + destruct (c1 =? hexdigit (b / 16)); reflexivity.
    + cbn in L. destruct (c1 =? hexdigit (b / 16)); cbn [negb andb]; [|reflexivity].
      assert (match d with [] => (if negb (c2 =? hexdigit (b mod 16)) then false else pre_loop d t false)
                        | _ :: _ => (if negb (c2 =? hexdigit (b mod 16)) then false else pre_loop d t false) end
              = (c2 =? hexdigit (b mod 16)) && is_prefix t (hex d)) as E.
      { rewrite IH by lia. destruct d; destruct (c2 =? hexdigit (b mod 16)); reflexivity. }
      destruct d; exact E.
Qed.

Lemma has_prefix_known k d s : wf_ref (Known k d) = true ->
  has_prefix (Known k d) s =
  Some (is_prefix s (to_string (Known k d)) && Nat.ltb (length (kname k) + 1) (length s)).
Proof.
  intros W. pose proof W as W'. cbn [wf_ref] in W'. apply andb_true_iff in W' as [L _]. apply Nat.eqb_eq in L.
  assert (Hk : (0 < ksize k)%nat) by (destruct k; cbn; lia).
  unfold has_prefix. 
  assert (Hts : length (to_string (Known k d)) = str_len (Known k d)).
  { unfold to_string, str_len. cbn [rname rbytes]. rewrite !app_length, hex_length. cbn [length]. lia. }
  assert (Hsl : str_len (Known k d) = (length (kname k) + 1 + 2 * length d)%nat) by reflexivity.
  destruct (Nat.ltb (str_len (Known k d)) (length s)) eqn:E1.
  - apply Nat.ltb_lt in E1. rewrite is_prefix_longer by lia. reflexivity.
  - apply Nat.ltb_ge in E1. destruct (Nat.eqb (length s) (str_len (Known k d))) eqn:E2.
    + apply Nat.eqb_eq in E2. rewrite equal_string_known by exact W. rewrite is_prefix_same_len by lia.
      assert (Nat.ltb (length (kname k) + 1) (length s) = true) as -> by (apply Nat.ltb_lt; lia).
      rewrite andb_true_r. reflexivity.
    + apply Nat.eqb_neq in E2.
      destruct (is_prefix (kname k ++ [dash]) s) eqn:Ep; cbn [negb].
      * pose proof (is_prefix_skipn _ _ Ep) as Hs. rewrite app_length in Hs. cbn [length] in Hs.
        remember (skipn (length (kname k) + 1) s) as t eqn:Heqt in *. clear Heqt.
        assert (Hl : length s = (length (kname k) + 1 + length t)%nat) by (rewrite Hs at 1; rewrite !app_length; cbn [length]; lia).
        unfold to_string. cbn [rname rbytes]. rewrite Hs at 1. rewrite app_assoc, is_prefix_app.
        destruct t as [|c t'].
        -- assert (Nat.ltb (length (kname k) + 1) (length s) = false) as -> by (apply Nat.ltb_ge; cbn in Hl; lia).
           rewrite andb_false_r. reflexivity.
        -- rewrite pre_loop_spec by (cbn [length] in *; lia).
           assert (Nat.ltb (length (kname k) + 1) (length s) = true) as -> by (apply Nat.ltb_lt; cbn [length] in Hl; lia).
           rewrite andb_true_r. reflexivity.
      * f_equal. symmetry. apply andb_false_iff.
        destruct (Nat.ltb (length (kname k) + 1) (length s)) eqn:E3; [left|right; reflexivity].
        apply Nat.ltb_lt in E3. destruct (is_prefix s (to_string (Known k d))) eqn:E4; [|reflexivity].
        unfold to_string in E4. cbn [rname rbytes] in E4. rewrite app_assoc in E4.
        apply is_prefix_through in E4; [congruence|]. rewrite app_length. cbn [length]. lia.
Qed.

(* ---- encodings ---- *)
Lemma to_string_nonempty_noquote r : wf_ref r = true -> True.
Proof. trivial. Qed.

Lemma json_roundtrip r : wf_ref r = true -> unmarshal_json (marshal_json r) = JRef r.
Proof.
  intros W. unfold marshal_json, unmarshal_json. cbn [app].
  set (body := to_string r ++ [quote]).
  assert (Hnn : beqb (quote :: body) (ofs "null") = false) by reflexivity.
  rewrite Hnn.
  assert (Hl : Nat.ltb (length (quote :: body)) 2 = false).
  { apply Nat.ltb_ge. subst body. cbn [length]. rewrite app_length. cbn. lia. }
  rewrite Hl, N.eqb_refl. cbn [negb orb].
  assert (Hlast : last (quote :: body) 0 = quote).
  { subst body. change (quote :: to_string r ++ [quote]) with ((quote :: to_string r) ++ [quote]). apply last_app_single. }
  rewrite Hlast, N.eqb_refl. cbn [negb]. subst body. rewrite removelast_app_single.
  rewrite parse_print by exact W. reflexivity.
Qed.

Lemma binary_roundtrip_known k d : wf_ref (Known k d) = true -> unmarshal_binary (marshal_binary (Known k d)) = Some (Known k d).
Proof.
  cbn [wf_ref]. intros H. apply andb_true_iff in H as [L _]. 
  unfold marshal_binary, unmarshal_binary. cbn [rname rbytes]. rewrite split_dash_app by apply kname_nodash.
  rewrite kind_of_kname, L. destruct k; reflexivity.
Qed.

Lemma binary_roundtrip_other n sum : wf_ref (Other n sum false) = true ->
  unmarshal_binary (marshal_binary (Other n sum false)) = Some (Other n sum false).
Proof.
  intros W. pose proof (parse_print _ W) as P. unfold to_string, parse in P. cbn [rname rbytes] in P.
  cbn [wf_ref] in W. repeat (apply andb_true_iff in W as [W ?]).
  match goal with Hn : valid_digest_name n = true |- _ => rename Hn into Hv end.
  unfold marshal_binary, unmarshal_binary. cbn [rname rbytes].
  rewrite split_dash_app in * by (apply valid_name_nodash; exact Hv).
  destruct n as [|c n]; [discriminate|].
  destruct (kind_of_name (c :: n)); [discriminate|]. cbn [orb] in P. exact P.
Qed.

Lemma known_only s r : parse false s = Some r -> supported r = true \/ is_test_name (rname r) = true.
Proof.
  unfold parse. destruct (split_dash s) as [[name hx]|]; [|discriminate].
  destruct (kind_of_name name) as [k|].
  - destruct (negb _); [discriminate|]. destruct (unhex_pairs hx); [|discriminate]. intros [= <-]. left. reflexivity.
  - cbn [orb]. destruct (is_test_name name) eqn:E; [|discriminate]. unfold parse_unknown.
    destruct (negb _); [discriminate|]. destruct (_ || _); [discriminate|]. destruct (unhex_pairs _); [|discriminate].
    intros [= <-]. right. exact E.
Qed.

Lemma supported_is_known_name s r : parse true s = Some r -> (supported r = true <-> In (rname r) (map ofs known_hash_names)).
Proof.
  unfold parse. destruct (split_dash s) as [[name hx]|]; [|discriminate].
  destruct (kind_of_name name) as [k|] eqn:Ek.
  - destruct (negb _); [discriminate|]. destruct (unhex_pairs hx); [|discriminate]. intros [= <-]. cbn [supported rname].
    split; [intros _|reflexivity]. destruct k; cbn; tauto.
  - cbn [orb]. unfold parse_unknown. destruct (negb _); [discriminate|]. destruct (_ || _); [discriminate|].
    destruct (unhex_pairs _); [|discriminate]. intros [= <-]. cbn [supported rname]. split; [discriminate|].
    intros H. exfalso. cbn in H. unfold kind_of_name in Ek.
    destruct H as [H|[H|[H|[]]]]; subst name; cbn in Ek; discriminate.
Qed.

(* ---- no string makes the string tests panic (index out of range), on any well-formed ref ---- *)
Lemma nth_error_some_lt {A} (l : list A) n : (n < length l)%nat -> nth_error l n <> None.
Proof. intros H. apply nth_error_Some. exact H. Qed.

Lemma wf_other_len n sum odd : wf_ref (Other n sum odd) = true -> (1 <= length sum)%nat.
Proof. cbn [wf_ref]. intros W. repeat (apply andb_true_iff in W as [W ?]). apply Nat.leb_le. assumption. Qed.

Lemma equal_string_total r s : wf_ref r = true -> equal_string r s <> None.
Proof.
  intros W. unfold equal_string. destruct (negb (Nat.eqb (length s) (str_len r))) eqn:El; [discriminate|].
  apply negb_false_iff, Nat.eqb_eq in El. destruct r as [k d|n sum odd].
  - destruct (negb _); discriminate.
  - destruct (negb (is_prefix n s)) eqn:Ep; [discriminate|].
    destruct (nth_error s (length n)) as [c|] eqn:En.
    + destruct (c =? dash); cbn [negb]; discriminate.
    + exfalso. apply negb_false_iff in Ep. apply is_prefix_spec in Ep as [t ->].
      rewrite nth_error_app2, Nat.sub_diag in En by lia. destruct t; [|discriminate].
      rewrite app_nil_r in El. unfold str_len in El. cbn [rname rbytes] in El.
      apply wf_other_len in W. destruct odd; lia.
Qed.

Lemma has_prefix_total r s : wf_ref r = true -> has_prefix r s <> None.
Proof.
  intros W. unfold has_prefix. destruct r as [k d|n sum odd].
  - destruct (Nat.ltb _ _); [discriminate|]. destruct (Nat.eqb _ _); [apply equal_string_total; exact W|].
    destruct (negb _); [discriminate|]. destruct (skipn _ _); discriminate.
  - destruct (Nat.ltb _ _); [discriminate|]. destruct (Nat.leb (length s) (length n)) eqn:El; [discriminate|].
    apply Nat.leb_gt in El. destruct (negb (is_prefix n s)); [discriminate|].
    destruct (nth_error s (length n)) eqn:En; [|exfalso; revert En; apply nth_error_some_lt; exact El].
    destruct (negb _); [discriminate|]. destruct (Nat.eqb _ _); [apply equal_string_total; exact W|].
    destruct (skipn _ _); discriminate.
Qed.

(* binary encoding forgets the "odd number of digits" flag of an unknown-hash ref *)
Definition odd_other_witness : ref := Other (ofs "foo") [171; 192] true.
Lemma binary_roundtrip_odd_refuted :
  wf_ref odd_other_witness = true /\
  unmarshal_binary (marshal_binary odd_other_witness) <> Some odd_other_witness.
Proof. split; [vm_compute; reflexivity|vm_compute; discriminate]. Qed.

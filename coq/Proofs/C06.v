From Coq Require Import List NArith ZArith Bool Lia Permutation Arith.
From PK.Model Require Import C07.
From PK.Proofs Require Import C07.
Import ListNotations.

(* the corpus loaded at start (claims in row order, sorted once at the end) is the corpus grown incrementally
   (claims in arrival order), whatever the two orders are *)
Theorem live_eq_load arrival rows : arrival <> [] -> dates_distinct arrival -> Permutation arrival rows ->
  add_claims arrival = Some (restore_invariants rows).
Proof.
  intros Hne D P. rewrite cache_is_fold by assumption. f_equal.
  unfold restore_invariants. rewrite (sort_perm_eq arrival rows D P). reflexivity.
Qed.

Corollary values_live_eq_load arrival rows pm at_ sf attr : arrival <> [] -> dates_distinct arrival -> Permutation arrival rows ->
  add_claims arrival = Some pm -> corpus_values pm at_ sf attr = corpus_values (restore_invariants rows) at_ sf attr.
Proof. intros Hne D P H. rewrite (live_eq_load arrival rows Hne D P) in H. injection H as <-. reflexivity. Qed.

(* the deletion test depends on the SET of delete claims only: the live cache (insertion by date) and the cache
   rebuilt from the "deleted|" rows agree *)
Lemma existsb_perm {A} (p : A -> bool) l l' : Permutation l l' -> existsb p l = existsb p l'.
Proof.
  induction 1 as [|x l l' _ IH|x y l|l l' l'' _ IH1 _ IH2]; cbn; [reflexivity|rewrite IH; reflexivity| |congruence].
  destruct (p x), (p y); reflexivity.
Qed.

Lemma existsb_ext_local {A} (p q : A -> bool) l : (forall x, p x = q x) -> existsb p l = existsb q l.
Proof. intros H. induction l as [|x l IH]; cbn; [reflexivity|]. rewrite H, IH. reflexivity. Qed.

Theorem is_deleted_perm d d' : Permutation d d' -> forall fuel r, is_deleted fuel d r = is_deleted fuel d' r.
Proof.
  intros P. induction fuel as [|f IH]; intros r; [reflexivity|]. cbn [is_deleted].
  rewrite (existsb_perm _ d d' P). apply existsb_ext_local. intros p. rewrite IH. reflexivity.
Qed.

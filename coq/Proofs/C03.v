From Coq Require Import List NArith Bool Arith Lia.
From PK.Model Require Import C03.
Import ListNotations.

(* ======================= Part 1: files ======================= *)
Lemma tlookup_tset t x l : tlookup t (tset t x l) = Some x.
Proof. unfold tlookup, tset. cbn [find fst]. rewrite N.eqb_refl. reflexivity. Qed.

Lemma forallb_tdel (p : N * tmp -> bool) t l : forallb p l = true -> forallb p (tdel t l) = true.
Proof.
  intros H. unfold tdel. rewrite forallb_forall in *. intros x Hx. apply filter_In in Hx as [Hx _]. apply H; exact Hx.
Qed.

Lemma safe_tset b x l : dat_safe x = true -> forallb (fun e => dat_safe (snd e)) l = true -> forallb (fun e => dat_safe (snd e)) (tset b x l) = true.
Proof. intros Hx Hl. unfold tset. cbn [forallb snd]. rewrite Hx. apply forallb_tdel. exact Hl. Qed.

(* the calls before the rename leave the .dat files alone *)
Definition touches_dats (k : call) : bool := match k with KRename _ | KRemoveDat _ => true | _ => false end.
Lemma apply_dats k s : touches_dats k = false -> dats (apply s k) = dats s.
Proof.
  destruct k; cbn; try discriminate; intros _; try reflexivity.
  - destruct (tlookup t (tmps s)); reflexivity.
  - destruct (tlookup t (tmps s)); reflexivity.
Qed.
Lemma applies_dats ks : forall s, forallb (fun k => negb (touches_dats k)) ks = true -> dats (applies s ks) = dats s.
Proof.
  induction ks as [|k ks IH]; intros s H; [reflexivity|]. cbn [forallb] in H. apply andb_true_iff in H as [Hk Hks].
  unfold applies in *. cbn [fold_left]. rewrite IH by exact Hks. apply apply_dats. apply negb_true_iff. exact Hk.
Qed.

(* the temp file after it was created and the chunks written *)
Lemma after_writes t b size : forall chunks s w, tlookup t (tmps s) = Some {| t_blob := b; t_size := size; t_written := w; t_synced := 0 |} ->
  tlookup t (tmps (applies s (map (KWrite t) chunks))) = Some {| t_blob := b; t_size := size; t_written := w + fold_right Nat.add 0 chunks; t_synced := 0 |}.
Proof.
  induction chunks as [|c chunks IH]; intros s w H; cbn [map fold_right]; unfold applies in *; cbn [fold_left].
  - rewrite Nat.add_0_r. exact H.
  - cbn [apply]. rewrite H. cbn [t_blob t_size t_written t_synced]. rewrite (IH _ (w + c)); [f_equal; f_equal; lia|]. cbn [tmps]. apply tlookup_tset.
Qed.

Lemma applies_app s a b : applies s (a ++ b) = applies (applies s a) b.
Proof. unfold applies. apply fold_left_app. Qed.

(* the state just before the rename: the temp file is complete and durable *)
Lemma before_rename s t b chunks : let size := fold_right Nat.add 0 chunks in
  let s1 := applies s ([KMkdir; KTemp t b size] ++ map (KWrite t) chunks ++ [KSync t; KClose t; KLstatTmp t]) in
  tlookup t (tmps s1) = Some {| t_blob := b; t_size := size; t_written := size; t_synced := size |} /\ dats s1 = dats s.
Proof.
  intros size s1. subst s1. split.
  - rewrite applies_app, applies_app. set (s0 := applies s [KMkdir; KTemp t b size]).
    assert (H0 : tlookup t (tmps s0) = Some {| t_blob := b; t_size := size; t_written := 0; t_synced := 0 |}) by (subst s0; cbn; apply tlookup_tset).
    pose proof (after_writes t b size chunks s0 0 H0) as H1. cbn [Nat.add] in H1. fold size in H1.
    unfold applies at 1. cbn [fold_left apply]. rewrite H1. cbn [t_blob t_size t_written t_synced tmps]. apply tlookup_tset.
  - apply applies_dats. rewrite !forallb_app. cbn. rewrite andb_true_r. clear. induction chunks; [reflexivity|exact IHchunks].
Qed.

(* every crash point inside a receive leaves only complete, durable .dat files *)
Theorem receive_prefix_safe : forall s t b chunks k, fs_safe s = true -> fs_safe (applies s (firstn k (receive_calls t b chunks))) = true.
Proof.
  intros s t b chunks k Hs. unfold receive_calls.
  set (size := fold_right Nat.add 0 chunks).
  set (pre := [KMkdir; KTemp t b size] ++ map (KWrite t) chunks ++ [KSync t; KClose t; KLstatTmp t]).
  replace ([KMkdir; KTemp t b size] ++ map (KWrite t) chunks ++ [KSync t; KClose t; KLstatTmp t; KRename t; KLstatDat b]) with (pre ++ [KRename t; KLstatDat b])
    by (subst pre; rewrite <- !app_assoc; reflexivity).
  destruct (Nat.le_gt_cases k (length pre)) as [Hk|Hk].
  - (* the crash comes before the rename *)
    rewrite firstn_app. replace (k - length pre)%nat with 0%nat by lia. cbn [firstn]. rewrite app_nil_r.
    unfold fs_safe in *. rewrite applies_dats; [exact Hs|].
    assert (Hall : forallb (fun k => negb (touches_dats k)) pre = true).
    { subst pre. rewrite !forallb_app. cbn. rewrite andb_true_r. clear. induction chunks; [reflexivity|exact IHchunks]. }
    clear -Hall. revert k. induction pre as [|x pre IH]; intros [|k]; cbn [firstn forallb]; try reflexivity.
    cbn [forallb] in Hall. apply andb_true_iff in Hall as [A B]. rewrite A. cbn. apply IH. exact B.
  - rewrite firstn_app. rewrite firstn_all2 by lia. rewrite applies_app.
    destruct (before_rename s t b chunks) as [Ht Hd]. fold size in Ht, Hd. fold pre in Ht, Hd.
    set (s1 := applies s pre) in *.
    assert (Hsafe1 : fs_safe (apply s1 (KRename t)) = true).
    { unfold fs_safe. cbn [apply]. rewrite Ht. cbn [dats t_blob]. apply safe_tset; [unfold dat_safe; cbn; rewrite !Nat.eqb_refl; reflexivity|].
      rewrite Hd. exact Hs. }
    destruct (k - length pre)%nat as [|[|n]] eqn:E; [lia| |]; cbn [firstn]; unfold applies; cbn [fold_left]; try exact Hsafe1.
    destruct n; cbn [firstn fold_left]; exact Hsafe1.
Qed.

Theorem receive_makes_visible : forall s t b chunks, In b (visible (applies s (receive_calls t b chunks))).
Proof.
  intros s t b chunks. unfold receive_calls.
  set (size := fold_right Nat.add 0 chunks).
  replace ([KMkdir; KTemp t b size] ++ map (KWrite t) chunks ++ [KSync t; KClose t; KLstatTmp t; KRename t; KLstatDat b])
    with (([KMkdir; KTemp t b size] ++ map (KWrite t) chunks ++ [KSync t; KClose t; KLstatTmp t]) ++ [KRename t; KLstatDat b]) by (rewrite <- !app_assoc; reflexivity).
  rewrite applies_app. destruct (before_rename s t b chunks) as [Ht _]. fold size in Ht.
  unfold applies at 1. cbn [fold_left apply]. rewrite Ht. cbn. left; reflexivity.
Qed.

Lemma remove_safe s b : fs_safe s = true -> fs_safe (apply s (KRemoveDat b)) = true.
Proof. unfold fs_safe. cbn. apply forallb_tdel. Qed.

(* whole histories: completed receives and removals, then a crash anywhere inside one more receive *)
Inductive fop := FReceive (t b : N) (chunks : list nat) | FRemove (b : N).
Definition fop_calls (o : fop) : list call := match o with FReceive t b chunks => receive_calls t b chunks | FRemove b => [KRemoveDat b] end.

Theorem files_crash_safe : forall ops t b chunks k,
  fs_safe (applies (applies fs0 (flat_map fop_calls ops)) (firstn k (receive_calls t b chunks))) = true.
Proof.
  intros ops t b chunks k. apply receive_prefix_safe.
  assert (G : forall ops s, fs_safe s = true -> fs_safe (applies s (flat_map fop_calls ops)) = true).
  { induction ops0 as [|o ops0 IH]; intros s Hs; [exact Hs|]. cbn [flat_map]. rewrite applies_app. apply IH.
    destruct o as [t0 b0 ch|b0]; cbn [fop_calls].
    - rewrite <- (firstn_all (receive_calls t0 b0 ch)). apply receive_prefix_safe. exact Hs.
    - apply remove_safe. exact Hs. }
  apply G. reflexivity.
Qed.

(* the order matters: renaming before the sync lets a crash present a torn blob *)
Lemma rename_before_sync_unsafe : fs_safe (applies fs0 [KMkdir; KTemp 1 7 10; KWrite 1 10; KRename 1]) = false.
Proof. reflexivity. Qed.

(* ======================= Part 2: diskpacked ======================= *)
Lemma ilook_iset r q p ix : ilook r (iset q p ix) = if N.eqb q r then Some p else ilook r ix.
Proof.
  unfold ilook, iset. cbn [find fst]. destruct (N.eqb_spec q r) as [->|Hn]; [reflexivity|].
  unfold idel. induction ix as [|[a c] ix IH]; [reflexivity|]. cbn [filter fst find].
  destruct (N.eqb_spec a q) as [->|Ha]; cbn [negb find fst].
  - destruct (N.eqb_spec q r); [contradiction|exact IH].
  - destruct (N.eqb a r); [reflexivity|exact IH].
Qed.
Lemma ilook_idel r q ix : ilook r (idel q ix) = if N.eqb q r then None else ilook r ix.
Proof.
  unfold ilook, idel. induction ix as [|[a c] ix IH]; [destruct (N.eqb q r); reflexivity|]. cbn [filter fst find].
  destruct (N.eqb_spec a q) as [->|Ha]; cbn [negb find fst].
  - destruct (N.eqb_spec q r); [exact IH|exact IH].
  - destruct (N.eqb_spec a r) as [->|]; [|exact IH]. destruct (N.eqb_spec q r); [congruence|reflexivity].
Qed.

Lemma nth_error_upd {A} (l : list A) : forall p q x, nth_error (upd l p x) q = if Nat.eqb p q then (match nth_error l p with Some _ => Some x | None => None end) else nth_error l q.
Proof.
  induction l as [|y l IH]; intros p q x; cbn [upd].
  - destruct (Nat.eqb p q); destruct p, q; reflexivity.
  - destruct p, q; cbn; try reflexivity. apply IH.
Qed.
Lemma length_upd {A} (l : list A) : forall p x, length (upd l p x) = length l.
Proof. induction l as [|y l IH]; intros [|p] x; cbn; try reflexivity. f_equal. apply IH. Qed.

(* the invariant: an index row points to a complete record of that very blob whose body is untouched; a body is only
   zeroed under a rewritten header *)
Definition Q (s : dp) : Prop :=
  (forall r p, ilook r (idx s) = Some p -> exists size hdr, nth_error (pack s) p = Some (IRec r size hdr 0)) /\
  (forall p r size hdr z, nth_error (pack s) p = Some (IRec r size hdr z) -> z <> 0%nat -> hdr = true).

Lemma Q0 : Q dp0.
Proof. split; [intros r p H; discriminate|intros [|p] r size hdr z H; discriminate]. Qed.

Lemma nth_error_app_new {A} (l : list A) x : nth_error (l ++ [x]) (length l) = Some x.
Proof. rewrite nth_error_app2 by lia. rewrite Nat.sub_diag. reflexivity. Qed.
Lemma nth_error_app_old {A} (l : list A) x p y : nth_error l p = Some y -> nth_error (l ++ [x]) p = Some y.
Proof. intros H. rewrite nth_error_app1; [exact H|]. apply nth_error_Some. congruence. Qed.
Lemma nth_error_app_inv {A} (l : list A) x p y : nth_error (l ++ [x]) p = Some y -> nth_error l p = Some y \/ (p = length l /\ y = x).
Proof.
  intros H. destruct (Nat.lt_ge_cases p (length l)) as [Hl|Hl].
  - left. rewrite nth_error_app1 in H by exact Hl. exact H.
  - right. rewrite nth_error_app2 in H by exact Hl. destruct (p - length l)%nat as [|n] eqn:E; cbn in H; [|destruct n; discriminate].
    injection H as <-. split; [lia|reflexivity].
Qed.

Lemma Q_append s it r : Q s -> (forall r' size hdr z, it = IRec r' size hdr z -> z = 0%nat) ->
  Q {| pack := pack s ++ [it]; idx := idx s |} /\
  (forall size hdr, it = IRec r size hdr 0 -> Q {| pack := pack s ++ [it]; idx := iset r (length (pack s)) (idx s) |}).
Proof.
  intros [Q1 Q2] Hit. split; [split|intros size hdr ->; split]; cbn [pack idx].
  - intros r0 p H. destruct (Q1 r0 p H) as (sz & h & E). exists sz, h. apply nth_error_app_old. exact E.
  - intros p r0 size hdr z H Hz. apply nth_error_app_inv in H as [H|[_ H]]; [eapply Q2; eassumption|]. symmetry in H. specialize (Hit _ _ _ _ H). contradiction.
  - intros r0 p H. rewrite ilook_iset in H. destruct (N.eqb_spec r r0) as [<-|].
    + injection H as <-. exists size, hdr. apply nth_error_app_new.
    + destruct (Q1 r0 p H) as (sz & h & E). exists sz, h. apply nth_error_app_old. exact E.
  - intros p r0 sz h z H Hz. apply nth_error_app_inv in H as [H|[_ H]]; [eapply Q2; eassumption|]. injection H as _ _ _ ->. contradiction.
Qed.

Lemma Q_receive s r size : Q s -> Q (receive s r size).
Proof.
  intros HQ. unfold receive. destruct (ilook r (idx s)) as [p|]; [destruct (extent_inside (pack s) p); [exact HQ|]|];
    apply (proj2 (Q_append s (IRec r size false 0) r HQ (fun _ _ _ _ H => ltac:(injection H as _ _ _ <-; reflexivity))) size false eq_refl).
Qed.

Lemma Q_append_upto s r size st : Q s -> Q (append_upto s r size st).
Proof.
  intros HQ. destruct st as [|have| |]; cbn [append_upto].
  - apply (Q_append s ITornHeader r HQ). intros; discriminate.
  - destruct (Nat.ltb have size).
    + apply (Q_append s (ITornBody r size have) r HQ). intros; discriminate.
    + apply (Q_append s (IRec r size false 0) r HQ). intros ? ? ? ? H; injection H as _ _ _ <-; reflexivity.
  - apply (Q_append s (IRec r size false 0) r HQ). intros ? ? ? ? H; injection H as _ _ _ <-; reflexivity.
  - apply (proj2 (Q_append s (IRec r size false 0) r HQ (fun _ _ _ _ H => ltac:(injection H as _ _ _ <-; reflexivity))) size false eq_refl).
Qed.

(* removing, in the order "index row first": whatever stage the removal reaches *)
Definition header_first (st : rm_stage) : bool := match st with RmZeroOnly _ => false | _ => true end.

Lemma Q_remove s r st : header_first st = true -> Q s -> Q (remove_upto true s r st).
Proof.
  intros Hst HQ. pose proof HQ as [Q1 Q2]. unfold remove_upto. destruct (ilook r (idx s)) as [p|] eqn:E; [|exact HQ].
  destruct (Q1 r p E) as (size & hdr & Ep). rewrite Ep.
  assert (Hdel : Q {| pack := pack s; idx := idel r (idx s) |}).
  { split; cbn [pack idx]; [|exact Q2]. intros r0 p0 H. rewrite ilook_idel in H. destruct (N.eqb r r0); [discriminate|]. apply Q1; exact H. }
  assert (Hmark : forall z, Q {| pack := mark (pack s) p true z; idx := idel r (idx s) |}).
  { intros z. unfold mark. rewrite Ep. split; cbn [pack idx].
    - intros r0 p0 H. rewrite ilook_idel in H. destruct (N.eqb_spec r r0) as [|Hn]; [discriminate|].
      destruct (Q1 r0 p0 H) as (sz & h & E0). exists sz, h. rewrite nth_error_upd. destruct (Nat.eqb_spec p p0) as [<-|]; [|exact E0].
      rewrite Ep in E0. injection E0 as E0 _ _. congruence.
    - intros p0 r0 sz h z0 H Hz. rewrite nth_error_upd in H. destruct (Nat.eqb_spec p p0) as [<-|]; [|eapply Q2; eassumption].
      rewrite Ep in H. injection H as _ _ <- _. reflexivity. }
  destruct st; try discriminate; [exact HQ|exact Hdel|apply Hmark..].
Qed.

Definition op_ok (o : dop) : bool := match o with DCrashRemove _ st => header_first st | DLostTail _ _ _ => false | _ => true end.
Definition ops_ok (os : list dop) : bool := forallb op_ok os.

Lemma Q_step s o : op_ok o = true -> Q s -> Q (dstep true s o).
Proof.
  intros Ho HQ. destruct o as [r size|r|r size st|r st|r size have]; cbn [dstep].
  - apply Q_receive; exact HQ.
  - apply Q_remove; [reflexivity|exact HQ].
  - destruct (ilook r (idx s)) as [p|]; [destruct (extent_inside (pack s) p); [exact HQ|]|]; apply Q_append_upto; exact HQ.
  - apply Q_remove; [exact Ho|exact HQ].
  - discriminate Ho.
Qed.

Theorem Q_run : forall os s, ops_ok os = true -> Q s -> Q (druns true s os).
Proof.
  induction os as [|o os IH]; intros s Hok HQ; [exact HQ|]. unfold druns in *. cbn [fold_left]. cbn [ops_ok forallb] in Hok. apply andb_true_iff in Hok as [Ho Hos].
  apply IH; [exact Hos|]. apply Q_step; assumption.
Qed.

(* no fetch ever presents wrong bytes, whatever crashes and restarts happened *)
Theorem fetch_never_corrupt : forall os r, ops_ok os = true -> dfetch (druns true dp0 os) r <> FCorrupt.
Proof.
  intros os r Hok. destruct (Q_run os dp0 Hok Q0) as [Q1 _]. unfold dfetch. destruct (ilook r (idx _)) as [p|] eqn:E; [|discriminate].
  destruct (Q1 r p E) as (size & hdr & Ep). rewrite Ep, N.eqb_refl. cbn. discriminate.
Qed.

(* an acknowledged receive makes the blob fetchable, and it stays so until it is removed *)
Theorem receive_then_intact : forall os r size, ops_ok os = true -> dfetch (receive (druns true dp0 os) r size) r = FIntact.
Proof.
  intros os r size Hok. pose proof (Q_receive _ r size (Q_run os dp0 Hok Q0)) as [Q1 _]. set (s := druns true dp0 os) in *.
  unfold dfetch. assert (H : exists p, ilook r (idx (receive s r size)) = Some p).
  { unfold receive. destruct (ilook r (idx s)) as [p|] eqn:E; [destruct (extent_inside (pack s) p); [exists p; exact E|]|];
      cbn [idx]; rewrite ilook_iset, N.eqb_refl; eexists; reflexivity. }
  destruct H as [p Hp]. rewrite Hp. destruct (Q1 r p Hp) as (sz & h & Ep). rewrite Ep, N.eqb_refl. reflexivity.
Qed.

Definition touches (o : dop) (r : N) : bool := match o with DRemove q | DCrashRemove q _ | DLostTail q _ _ => N.eqb q r | _ => false end.

Theorem intact_preserved : forall s o r, Q s -> touches o r = false -> dfetch s r = FIntact -> dfetch (dstep true s o) r = FIntact.
Proof.
  intros s o r HQ Ht Hf. pose proof HQ as [Q1 Q2]. unfold dfetch in Hf. destruct (ilook r (idx s)) as [p|] eqn:E; [|discriminate].
  destruct (Q1 r p E) as (size & hdr & Ep).
  assert (Hkeep : forall it q, dfetch {| pack := pack s ++ [it]; idx := if N.eqb q r then idx s else idx s |} r = FIntact).
  { intros it q. unfold dfetch. cbn [pack idx]. destruct (N.eqb q r); rewrite E, (nth_error_app_old _ _ _ _ Ep), N.eqb_refl; reflexivity. }
  assert (Happ : forall it, dfetch {| pack := pack s ++ [it]; idx := idx s |} r = FIntact).
  { intros it. unfold dfetch. cbn [pack idx]. rewrite E, (nth_error_app_old _ _ _ _ Ep), N.eqb_refl. reflexivity. }
  assert (Hset : forall it q, q <> r -> dfetch {| pack := pack s ++ [it]; idx := iset q (length (pack s)) (idx s) |} r = FIntact).
  { intros it q Hq. unfold dfetch. cbn [pack idx]. rewrite ilook_iset. destruct (N.eqb_spec q r); [contradiction|].
    rewrite E, (nth_error_app_old _ _ _ _ Ep), N.eqb_refl. reflexivity. }
  assert (Hself : dfetch s r = FIntact) by (unfold dfetch; rewrite E, Ep, N.eqb_refl; reflexivity).
  assert (Hinside : extent_inside (pack s) p = true) by (unfold extent_inside; rewrite Ep; reflexivity).
  assert (Hrm : forall q st, q <> r -> dfetch (remove_upto true s q st) r = FIntact).
  { intros q st Hq. unfold remove_upto. destruct (ilook q (idx s)) as [pq|] eqn:Eq; [|exact Hself].
    destruct (Q1 q pq Eq) as (sq & hq & Epq). rewrite Epq.
    assert (pq <> p) by (intros ->; rewrite Ep in Epq; injection Epq as X _ _; symmetry in X; contradiction).
    assert (Hidx : ilook r (idel q (idx s)) = Some p) by (rewrite ilook_idel; destruct (N.eqb_spec q r); [contradiction|exact E]).
    assert (Hm : forall h z, nth_error (mark (pack s) pq h z) p = Some (IRec r size hdr 0)).
    { intros h z. unfold mark. rewrite Epq, nth_error_upd. destruct (Nat.eqb_spec pq p); [contradiction|exact Ep]. }
    destruct st; unfold dfetch; cbn [pack idx]; rewrite ?Hidx, ?E, ?Hm, ?Ep, N.eqb_refl; reflexivity. }
  destruct o as [q sz|q|q sz st|q st|q sz have]; cbn [dstep touches] in *.
  - unfold receive. destruct (N.eqb_spec q r) as [->|Hq].
    + rewrite E, Hinside. exact Hself.
    + destruct (ilook q (idx s)) as [pq|]; [destruct (extent_inside (pack s) pq); [exact Hself|]|]; apply Hset; exact Hq.
  - apply Hrm. apply N.eqb_neq. exact Ht.
  - destruct (N.eqb_spec q r) as [->|Hq].
    + rewrite E, Hinside. exact Hself.
    + assert (Hup : dfetch (append_upto s q sz st) r = FIntact).
      { destruct st as [|have| |]; cbn [append_upto]; [apply Happ|destruct (Nat.ltb have sz); apply Happ|apply Happ|apply Hset; exact Hq]. }
      destruct (ilook q (idx s)) as [pq|]; [destruct (extent_inside (pack s) pq); [exact Hself|exact Hup]|exact Hup].
  - apply Hrm. apply N.eqb_neq. exact Ht.
  - destruct (Nat.ltb have sz); [apply Hset; apply N.eqb_neq; exact Ht|exact Hself].
Qed.

Lemma acked_stays_intact : (forall os r size, ops_ok os = true -> dfetch (receive (druns true dp0 os) r size) r = FIntact) /\
  (forall os o r, ops_ok os = true -> touches o r = false -> dfetch (druns true dp0 os) r = FIntact -> dfetch (dstep true (druns true dp0 os) o) r = FIntact).
Proof. split; [exact receive_then_intact|intros os o r Hok; exact (intact_preserved (druns true dp0 os) o r (Q_run os dp0 Hok Q0))]. Qed.

(* ---------- the pack walk ---------- *)
(* with the end-of-file check, a pack whose only torn item is its last one is walked to the end, and the rebuilt index
   points only to complete records with their original header *)
Definition torn (it : item) : bool := match it with IRec _ _ _ _ => false | _ => true end.

Lemma walk_tail_ok : forall pk pos acc, forallb (fun it => negb (torn it)) (removelast pk) = true ->
  exists ix, walk true pk pos acc = Some ix.
Proof.
  induction pk as [|it pk IH]; intros pos acc H; [eexists; reflexivity|].
  destruct pk as [|it2 pk'].
  - destruct it; cbn; eexists; reflexivity.
  - cbn [removelast forallb] in H. apply andb_true_iff in H as [Hit Hrest]. destruct it; cbn in Hit; try discriminate.
    cbn [walk]. apply IH. exact Hrest.
Qed.

Lemma walk_points_to_live : forall eofc pk0 pk pos acc ix, pk0 = pk0 -> 
  (forall r p, ilook r acc = Some p -> exists size z, nth_error pk0 p = Some (IRec r size false z)) ->
  (forall i it, nth_error pk i = Some it -> nth_error pk0 (pos + i) = Some it) ->
  walk eofc pk pos acc = Some ix -> eofc = true ->
  forall r p, ilook r ix = Some p -> exists size z, nth_error pk0 p = Some (IRec r size false z).
Proof.
  intros eofc pk0. induction pk as [|it pk IH]; intros pos acc ix _ Hacc Hpk H He r p Hr; cbn [walk] in H.
  - injection H as <-. apply Hacc; exact Hr.
  - assert (Hnext : forall i it', nth_error pk i = Some it' -> nth_error pk0 (S pos + i) = Some it').
    { intros i it' Hi. replace (S pos + i)%nat with (pos + S i)%nat by lia. apply Hpk. exact Hi. }
    destruct it as [r0 size hdr z| |r0 size have].
    + refine (IH (S pos) (if hdr then acc else iset r0 pos acc) ix eq_refl _ Hnext H He r p Hr).
      intros r1 p1 H1. destruct hdr; [apply Hacc; exact H1|]. rewrite ilook_iset in H1. destruct (N.eqb_spec r0 r1) as [<-|]; [|apply Hacc; exact H1].
      injection H1 as <-. exists size, z. specialize (Hpk 0%nat _ eq_refl). rewrite Nat.add_0_r in Hpk. exact Hpk.
    + destruct pk; [injection H as <-; apply Hacc; exact Hr|discriminate].
    + destruct pk; [|discriminate]. subst eofc. injection H as <-. apply Hacc; exact Hr.
Qed.

(* Reindex after a crash that tore only the tail of the pack (no operation since): it succeeds, and nothing it indexes
   is torn or half removed *)
Theorem reindex_after_tail_crash : forall os last s', let s := dstep true (druns true dp0 os) last in
  ops_ok os = true -> op_ok last = true ->
  forallb (fun it => negb (torn it)) (pack (druns true dp0 os)) = true ->
  (exists s', reindex true s = Some s') /\ (reindex true s = Some s' -> forall r, dfetch s' r <> FCorrupt).
Proof.
  intros os last s' s Hok Hlast Hclean.
  assert (HQ : Q s) by (subst s; apply Q_step; [exact Hlast|apply Q_run; [exact Hok|exact Q0]]).
  assert (Hrl : forallb (fun it => negb (torn it)) (removelast (pack s)) = true).
  { subst s. set (s0 := druns true dp0 os) in *.
    assert (Hsame : forall pk, forallb (fun it => negb (torn it)) pk = true -> forallb (fun it => negb (torn it)) (removelast pk) = true).
    { induction pk as [|x pk IHp]; intros H; [reflexivity|]. cbn [forallb] in H. apply andb_true_iff in H as [A B]. destruct pk; [reflexivity|].
      cbn [removelast forallb]. rewrite A. apply IHp. exact B. }
    assert (Happ : forall it, forallb (fun it => negb (torn it)) (removelast (pack s0 ++ [it])) = true) by (intros it; rewrite removelast_last; exact Hclean).
    assert (Hmark : forall p h z, forallb (fun it => negb (torn it)) (mark (pack s0) p h z) = true).
    { intros p h z. unfold mark. destruct (nth_error (pack s0) p) as [[r0 sz hd zz| |]|] eqn:E; try exact Hclean.
      rewrite forallb_forall in *. intros x Hx. apply In_nth_error in Hx as [i Hi]. rewrite nth_error_upd in Hi.
      destruct (Nat.eqb p i); [rewrite E in Hi; injection Hi as <-; reflexivity|apply Hclean; eapply nth_error_In; exact Hi]. }
    assert (Hrm : forall r st, forallb (fun it => negb (torn it)) (removelast (pack (remove_upto true s0 r st))) = true).
    { intros r st. apply Hsame. unfold remove_upto. destruct (ilook r (idx s0)); [|exact Hclean]. destruct st; cbn [pack]; try exact Hclean; apply Hmark. }
    destruct last as [r size|r|r size st|r st|r size have]; cbn [dstep]; [| | | |discriminate Hlast].
    - unfold receive. destruct (ilook r (idx s0)) as [p|]; [destruct (extent_inside (pack s0) p); [apply Hsame; exact Hclean|]|]; cbn [pack]; apply Happ.
    - apply Hrm.
    - assert (Hup : forallb (fun it => negb (torn it)) (removelast (pack (append_upto s0 r size st))) = true).
      { destruct st as [|have| |]; cbn [append_upto]; [|destruct (Nat.ltb have size)| |]; cbn [pack]; apply Happ. }
      destruct (ilook r (idx s0)) as [p|]; [destruct (extent_inside (pack s0) p); [apply Hsame; exact Hclean|exact Hup]|exact Hup].
    - apply Hrm. }
  split.
  - unfold reindex. destruct (walk_tail_ok (pack s) 0 [] Hrl) as [ix Hix]. rewrite Hix. eexists; reflexivity.
  - unfold reindex. destruct (walk true (pack s) 0 []) as [ix|] eqn:Hw; [|discriminate]. intros H. injection H as <-. intros r.
    unfold dfetch. cbn [idx pack]. destruct (ilook r ix) as [p|] eqn:Er; [|discriminate].
    destruct (walk_points_to_live true (pack s) (pack s) 0 [] ix eq_refl (fun r p H => ltac:(discriminate)) (fun i it H => H) Hw eq_refl r p Er) as (size & z & Ep).
    rewrite Ep, N.eqb_refl. destruct HQ as [_ Q2]. destruct (Nat.eqb_spec z 0) as [->|Hz]; [cbn; discriminate|].
    specialize (Q2 p r size false z Ep Hz). discriminate.
Qed.

(* ---------- what goes wrong otherwise ---------- *)
(* D2 (open): after a crash tore the tail, the next acknowledged receive is appended behind the torn bytes, and the pack
   files alone are no longer sufficient: the walk fails *)
Lemma append_behind_torn_tail_breaks_reindex :
  let s := druns true dp0 [DReceive 1 10; DCrashReceive 2 10 (ApBody 3); DReceive 3 5] in
  dfetch s 1 = FIntact /\ dfetch s 3 = FIntact /\ reindex true s = None.
Proof. repeat split; reflexivity. Qed.

(* D1 (repaired): without the end-of-file check the walk indexes the torn record *)
Lemma no_eof_check_presents_torn_blob :
  let s := druns true dp0 [DReceive 1 10; DCrashReceive 2 10 (ApBody 3)] in
  match reindex false s with Some s' => dfetch s' 2 = FCorrupt | None => False end /\
  match reindex true s with Some s' => dfetch s' 2 = FAbsent /\ dfetch s' 1 = FIntact | None => False end.
Proof. repeat split; reflexivity. Qed.

(* the order inside the removal matters too: zeroing the body before the header is rewritten lets a crash leave a record
   that a later Reindex presents as a blob of zeros *)
Lemma body_before_header_presents_zeroed_blob :
  let s := druns true dp0 [DReceive 1 10; DCrashRemove 1 (RmZeroOnly 10)] in
  dfetch s 1 = FAbsent /\ match reindex true s with Some s' => dfetch s' 1 = FCorrupt | None => False end.
Proof. split; reflexivity. Qed.

(* D36 (repaired): destroying the data before deleting the index row lets a crash present a zeroed blob *)
Lemma data_first_presents_zeroed_blob :
  dfetch (druns false dp0 [DReceive 1 10; DCrashRemove 1 (RmZero 4)]) 1 = FCorrupt /\
  dfetch (druns true dp0 [DReceive 1 10; DCrashRemove 1 (RmZero 4)]) 1 = FAbsent.
Proof. split; reflexivity. Qed.

(* ---------- the duplicate rule heals a pack that lost its tail ---------- *)
Lemma receive_with_true s r size : receive_with true s r size = receive s r size.
Proof. reflexivity. Qed.

Lemma nth_error_app_last {A} (l : list A) x : nth_error (l ++ [x]) (length l) = Some x.
Proof. induction l as [|a l IH]; [reflexivity|exact IH]. Qed.

(* whatever the state: the index row of r points into a body that ends with the file - a new upload of r appends a whole
   record and re-points the row, so r is intact again; every other blob that was intact stays intact *)
Theorem lost_tail_heals : forall s r size have, (have < size)%nat ->
  let s1 := dstep true s (DLostTail r size have) in
  dfetch s1 r = FCorrupt /\ dfetch (receive s1 r size) r = FIntact.
Proof.
  intros s r size have Hlt. cbn [dstep]. apply Nat.ltb_lt in Hlt. rewrite Hlt. split.
  - unfold dfetch. cbn [pack idx]. rewrite ilook_iset, N.eqb_refl, nth_error_app_last. reflexivity.
  - unfold receive. cbn [pack idx]. rewrite ilook_iset, N.eqb_refl. unfold extent_inside. rewrite nth_error_app_last.
    rewrite app_length. cbn [length]. replace (S (length (pack s)) <? length (pack s) + 1)%nat with false by (symmetry; apply Nat.ltb_ge; rewrite Nat.add_1_r; apply Nat.le_refl).
    unfold dfetch. cbn [pack idx]. rewrite ilook_iset, N.eqb_refl.
    replace (length (pack s) + 1)%nat with (length (pack s ++ [ITornBody r size have])) by (rewrite app_length; reflexivity).
    rewrite nth_error_app_last. rewrite N.eqb_refl. reflexivity.
Qed.

(* with a rule that compares the file size with the START of the extent only, the torn record passes for a duplicate: the
   upload is acknowledged and the blob stays corrupt *)
Lemma start_only_rule_does_not_heal :
  let s1 := dstep true (receive dp0 1 10) (DLostTail 2 10 3) in
  dfetch (receive_with false s1 2 10) 2 = FCorrupt /\ dfetch (receive_with true s1 2 10) 2 = FIntact.
Proof. vm_compute. split; reflexivity. Qed.

(* Paging: following "continue after the last key of the page" visits every entry after the cursor exactly once,
   for every page size >= 1 and every cursor string. Used by C01 (EnumerateBlobs), C18 (HTTP enumerate). *)
From Coq Require Import List NArith Bool Lia Sorted Arith.
From PK.Base Require Import Bytes Lex SortedMap.
From PK.Proofs Require Import BytesLemmas SortedMapLemmas.
Import ListNotations.

Lemma In_firstn_local {A} n (l : list A) x : In x (firstn n l) -> In x l.
Proof. revert l. induction n as [|n IH]; intros [|y l] H; cbn in *; try contradiction. destruct H as [H|H]; [left; exact H|right; apply IH; exact H]. Qed.

Lemma MergeLemmas_firstn_sorted_local n l : ssorted l -> ssorted (firstn n l).
Proof.
  revert l. induction n as [|n IH]; intros l H; [constructor|]. destruct l as [|x l]; [constructor|].
  apply ssorted_inv in H as [Hs Hf]. cbn [firstn]. constructor; [apply IH; exact Hs|].
  apply Forall_forall. intros y Hy. rewrite Forall_forall in Hf. apply Hf. eapply In_firstn_local. exact Hy.
Qed.

Definition enumerate (m : smap) (cursor : bytes) (limit : nat) : smap := firstn limit (after cursor m).

(* the client loop: next cursor = key of the last entry of the page; stop on an empty page *)
Fixpoint pages (fuel : nat) (m : smap) (cursor : bytes) (limit : nat) : list smap :=
  match fuel with
  | O => []
  | S f => match enumerate m cursor limit with
           | [] => []
           | p => p :: pages f m (fst (last p ([], []))) limit
           end
  end.

Lemma after_cons c p m : after c (p :: m) = if ltb c (fst p) then p :: after c m else after c m.
Proof. reflexivity. Qed.

Lemma after_all_gt c m : Forall (fun p => ltb c (fst p) = true) m -> after c m = m.
Proof. induction 1 as [|p m H _ IH]; [reflexivity|]. cbn beta in H. rewrite after_cons, H, IH. reflexivity. Qed.

Lemma after_none c m : Forall (fun p => ltb c (fst p) = false) m -> after c m = [].
Proof. induction 1 as [|p m H _ IH]; [reflexivity|]. cbn beta in H. rewrite after_cons, H. exact IH. Qed.

Lemma after_app c a b : after c (a ++ b) = after c a ++ after c b.
Proof. unfold after. apply filter_app. Qed.

Lemma ssorted_app_inv a b : ssorted (a ++ b) -> ssorted a /\ ssorted b /\ Forall (fun x => Forall (klt x) b) a.
Proof.
  induction a as [|x xs IH]; cbn; intros H.
  - repeat split; [constructor|exact H|constructor].
  - apply ssorted_inv in H as [Hs Hf]. destruct (IH Hs) as (Ha & Hb & Hab).
    apply Forall_app in Hf as [Hfa Hfb]. repeat split; [constructor; assumption|assumption|constructor; assumption].
Qed.

Lemma sorted_split c m : ssorted m ->
  exists pre, m = pre ++ after c m /\ Forall (fun p => ltb c (fst p) = false) pre /\ Forall (fun p => ltb c (fst p) = true) (after c m).
Proof.
  induction 1 as [|p m Hs IH Hf].
  - exists []. repeat split; constructor.
  - rewrite after_cons. destruct (ltb c (fst p)) eqn:E.
    + exists []. cbn [app]. assert (Forall (fun q => ltb c (fst q) = true) m) as Hall.
      { eapply Forall_impl; [|exact Hf]. intros a Ha. unfold klt in Ha. eapply ltb_trans; [exact E|exact Ha]. }
      rewrite (after_all_gt c m Hall). repeat split; [constructor|constructor; assumption].
    + destruct IH as (pre & Hm & Hpre & Hsuf). exists (p :: pre). cbn [app]. repeat split.
      * f_equal. exact Hm.
      * constructor; assumption.
      * exact Hsuf.
Qed.

Lemma page_step m c limit :
  ssorted m -> enumerate m c limit <> [] ->
  after c m = enumerate m c limit ++ after (fst (last (enumerate m c limit) ([], []))) m.
Proof.
  intros Hs Hne. unfold enumerate in *.
  destruct (sorted_split c m Hs) as (pre & Hm & Hpre & Hsuf).
  remember (after c m) as suf eqn:Esuf.
  rewrite <- (firstn_skipn limit suf) at 1. f_equal.
  remember (firstn limit suf) as p eqn:Ep. remember (skipn limit suf) as rest eqn:Erest.
  destruct (exists_last Hne) as (q & x & Hq). 
  assert (Hlast : last p ([], []) = x) by (rewrite Hq; apply last_last).
  rewrite Hlast.
  assert (Hsuf_sorted : ssorted suf).
  { rewrite Hm in Hs. apply ssorted_app_inv in Hs. tauto. }
  assert (Hsplit : suf = (q ++ [x]) ++ rest) by (rewrite <- Hq, Ep, Erest; symmetry; apply firstn_skipn).
  rewrite Hsplit in Hsuf_sorted. apply ssorted_app_inv in Hsuf_sorted as (Hqx & Hrest & Hcross).
  apply ssorted_app_inv in Hqx as (_ & _ & Hq_lt_x).
  apply Forall_app in Hcross as [Hq_rest Hx_rest]. pose proof (Forall_inv Hx_rest) as Hx_lt_rest.
  rewrite Hm, Hsplit. rewrite !after_app.
  rewrite (after_none (fst x) pre).
  2:{ apply Forall_forall. intros k Hk. rewrite Forall_forall in Hpre. specialize (Hpre k Hk).
      destruct (ltb (fst x) (fst k)) eqn:E; [|reflexivity].
      assert (Hcx : ltb c (fst x) = true).
      { rewrite Forall_forall in Hsuf. apply Hsuf. rewrite Hsplit. apply in_or_app. left. apply in_or_app. right. left. reflexivity. }
      pose proof (ltb_trans _ _ _ Hcx E). congruence. }
  rewrite (after_none (fst x) q).
  2:{ apply Forall_forall. intros k Hk. rewrite Forall_forall in Hq_lt_x. specialize (Hq_lt_x k Hk).
      pose proof (Forall_inv Hq_lt_x) as Hkx. apply ltb_asym. exact Hkx. }
  rewrite after_cons, ltb_irrefl. cbn [after filter app].
  symmetry. apply after_all_gt. exact Hx_lt_rest.
Qed.

Theorem paging_exact : forall fuel m c limit,
  ssorted m -> (1 <= limit)%nat -> (length (after c m) < fuel)%nat ->
  concat (pages fuel m c limit) = after c m.
Proof.
  induction fuel as [|f IH]; intros m c limit Hs Hl Hf; [lia|].
  cbn [pages]. destruct (enumerate m c limit) as [|k p] eqn:E.
  - unfold enumerate in E. destruct (after c m) as [|x xs]; [reflexivity|].
    destruct limit; [lia|]. cbn in E. discriminate.
  - assert (Hne : enumerate m c limit <> []) by (rewrite E; discriminate).
    pose proof (page_step m c limit Hs Hne) as Hstep. rewrite E in Hstep.
    cbn [concat]. rewrite IH; [symmetry; exact Hstep|exact Hs|exact Hl|].
    rewrite Hstep in Hf. rewrite app_length in Hf. cbn [length] in Hf. lia.
Qed.

(* each page: ascending, strictly after its cursor, at most [limit] entries, made of present entries *)
Lemma enumerate_props m c limit : ssorted m ->
  ssorted (enumerate m c limit) /\ (length (enumerate m c limit) <= limit)%nat /\
  (forall p, In p (enumerate m c limit) -> ltb c (fst p) = true /\ In p m).
Proof.
  intros H. unfold enumerate. split; [|split].
  - apply MergeLemmas_firstn_sorted_local. apply filter_sorted. exact H.
  - apply firstn_le_length.
  - intros p Hp. apply (In_firstn_local limit) in Hp. unfold after in Hp. apply filter_In in Hp. tauto.
Qed.

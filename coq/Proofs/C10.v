From Coq Require Import List NArith ZArith Bool Lia Sorted Arith.
From PK.Base Require Import Bytes Lex SortedMap.
From PK.Generated Require Import Consts.
From PK.Model Require Import C10.
From PK.Proofs Require Import BytesLemmas SortedMapLemmas.
Import ListNotations.

(* ================= the iterator automaton produces the merge ================= *)
Definition nonempty_keys (l : smap) : Prop := Forall (fun p => fst p <> []) l.

(* a started sub-iterator and the list it still stands for (its current pair first) *)
Definition started (s : sub) (l : smap) : Prop :=
  (s_eof s = true /\ s_rest s = [] /\ l = []) \/
  (s_eof s = false /\ s_key s <> [] /\ l = (s_key s, s_val s) :: s_rest s).

Lemma is_empty_false b : b <> [] -> is_empty b = false.
Proof. destruct b; [contradiction|reflexivity]. Qed.

Lemma started_guard s l : started s l -> is_empty (s_key s) && negb (s_eof s) = false.
Proof.
  intros [(E & _ & _)|(E & K & _)]; rewrite E; [apply andb_false_r|].
  rewrite (is_empty_false _ K). reflexivity.
Qed.

Definition nonnil {A} (l : list A) : bool := match l with [] => false | _ => true end.

Lemma sub_next_spec s r : s_eof s = false -> s_rest s = r -> nonempty_keys r ->
  fst (sub_next s) = nonnil r /\ started (snd (sub_next s)) r.
Proof.
  intros E R N. unfold sub_next. rewrite R. destruct r as [|[k v] r'].
  - split; [reflexivity|]. left. cbn. auto.
  - split; [reflexivity|]. right. cbn. inversion N; subst. cbn in *. auto.
Qed.

Definition cur_pair (it : iter) : kv := (s_key (current it), s_val (current it)).

(* steady state: both sub-iterators started, standing for l1 and l2 *)
Lemma steady_current it l1 l2 : started (i_buf it) l1 -> started (i_back it) l2 ->
  merge l1 l2 <> [] -> hd ([], []) (merge l1 l2) = cur_pair it.
Proof.
  intros [(E1 & R1 & ->)|(E1 & K1 & ->)] [(E2 & R2 & ->)|(E2 & K2 & ->)] Hne; unfold cur_pair, current; rewrite ?E1, ?E2.
  - cbn in Hne. contradiction.
  - reflexivity.
  - rewrite merge_nil_r. reflexivity.
  - rewrite merge_cons. unfold leb.
    destruct (ltb (s_key (i_buf it)) (s_key (i_back it))) eqn:A.
    + rewrite (ltb_asym _ _ A). reflexivity.
    + destruct (ltb (s_key (i_back it)) (s_key (i_buf it))); reflexivity.
Qed.

Lemma nonempty_tl p l : nonempty_keys (p :: l) -> nonempty_keys l.
Proof. intros H. inversion H; assumption. Qed.

Lemma collect_S f it : collect (S f) it =
  let '(ok, it') := iter_next it in if ok then cur_pair it' :: collect f it' else [].
Proof. reflexivity. Qed.
Arguments collect : simpl never.

Lemma steady_collect : forall f it l1 l2,
  started (i_buf it) l1 -> started (i_back it) l2 -> nonempty_keys l1 -> nonempty_keys l2 ->
  (length l1 + length l2 <= f)%nat ->
  collect f it = tl (merge l1 l2).
Proof.
  induction f as [|f IH]; intros it l1 l2 S1 S2 N1 N2 L.
  - destruct l1; [|cbn in L; lia]. destruct l2; [|cbn in L; lia]. reflexivity.
  - rewrite collect_S. unfold iter_next.
    rewrite (started_guard _ _ S1), (started_guard _ _ S2).
    destruct S1 as [(E1 & R1 & ->)|(E1 & K1 & ->)]; destruct S2 as [(E2 & R2 & ->)|(E2 & K2 & ->)]; rewrite ?E1, ?E2; cbn [andb negb].
    + reflexivity.
    + (* buffer exhausted: advance the backing iterator *)
      rewrite merge_nil_l. cbn [tl].
      pose proof (sub_next_spec (i_back it) (s_rest (i_back it)) E2 eq_refl (nonempty_tl _ _ N2)) as [Hf Hs].
      destruct (sub_next (i_back it)) as [r x] eqn:Ex. cbn [fst snd] in *. subst r.
      destruct (s_rest (i_back it)) as [|p rest] eqn:Er; cbn [nonnil]; [reflexivity|].
      assert (Hst : started (i_buf {| i_buf := i_buf it; i_back := x |}) []) by (left; auto).
      rewrite (IH {| i_buf := i_buf it; i_back := x |} [] (p :: rest) Hst Hs); [| constructor | apply (nonempty_tl _ _ N2) | cbn in *; lia].
      rewrite merge_nil_l. cbn [tl].
      rewrite <- (steady_current {| i_buf := i_buf it; i_back := x |} [] (p :: rest) Hst Hs) by (rewrite merge_nil_l; discriminate).
      rewrite merge_nil_l. reflexivity.
    + rewrite merge_nil_r. cbn [tl].
      pose proof (sub_next_spec (i_buf it) (s_rest (i_buf it)) E1 eq_refl (nonempty_tl _ _ N1)) as [Hf Hs].
      destruct (sub_next (i_buf it)) as [r x] eqn:Ex. cbn [fst snd] in *. subst r.
      destruct (s_rest (i_buf it)) as [|p rest] eqn:Er; cbn [nonnil]; [reflexivity|].
      assert (Hst : started (i_back {| i_buf := x; i_back := i_back it |}) []) by (left; auto).
      rewrite (IH {| i_buf := x; i_back := i_back it |} (p :: rest) [] Hs Hst); [| apply (nonempty_tl _ _ N1) | constructor | cbn in *; lia].
      rewrite merge_nil_r. cbn [tl].
      rewrite <- (steady_current {| i_buf := x; i_back := i_back it |} (p :: rest) [] Hs Hst) by (rewrite merge_nil_r; discriminate).
      rewrite merge_nil_r. reflexivity.
    + (* both running *)
      rewrite merge_cons.
      pose proof (sub_next_spec (i_buf it) (s_rest (i_buf it)) E1 eq_refl (nonempty_tl _ _ N1)) as [Hf1 Hs1].
      pose proof (sub_next_spec (i_back it) (s_rest (i_back it)) E2 eq_refl (nonempty_tl _ _ N2)) as [Hf2 Hs2].
      assert (Sb : started (i_buf it) ((s_key (i_buf it), s_val (i_buf it)) :: s_rest (i_buf it))) by (right; auto).
      assert (Sk : started (i_back it) ((s_key (i_back it), s_val (i_back it)) :: s_rest (i_back it))) by (right; auto).
      cbn [length] in L.
      destruct (ltb (s_key (i_buf it)) (s_key (i_back it))) eqn:A.
      * cbn [tl].
        set (it' := {| i_buf := snd (sub_next (i_buf it)); i_back := i_back it |}).
        rewrite (IH it' _ _ Hs1 Sk (nonempty_tl _ _ N1) N2) by (cbn [length]; lia).
        assert (Hne : merge (s_rest (i_buf it)) ((s_key (i_back it), s_val (i_back it)) :: s_rest (i_back it)) <> []).
        { intros X. apply merge_eq_nil in X as [_ X]. discriminate. }
        rewrite <- (steady_current it' _ _ Hs1 Sk Hne).
        destruct (merge _ _); [contradiction|reflexivity].
      * destruct (ltb (s_key (i_back it)) (s_key (i_buf it))) eqn:B.
        -- cbn [tl].
           set (it' := {| i_buf := i_buf it; i_back := snd (sub_next (i_back it)) |}).
           rewrite (IH it' _ _ Sb Hs2 N1 (nonempty_tl _ _ N2)) by (cbn [length]; lia).
           assert (Hne : merge ((s_key (i_buf it), s_val (i_buf it)) :: s_rest (i_buf it)) (s_rest (i_back it)) <> []).
           { intros X. apply merge_eq_nil in X as [X _]. discriminate. }
           rewrite <- (steady_current it' _ _ Sb Hs2 Hne).
           destruct (merge _ _); [contradiction|reflexivity].
        -- cbn [tl].
           destruct (sub_next (i_buf it)) as [n1 x1] eqn:X1. destruct (sub_next (i_back it)) as [n2 x2] eqn:X2.
           cbn [fst snd] in *. subst n1 n2.
           set (it' := {| i_buf := x1; i_back := x2 |}).
           destruct (nonnil (s_rest (i_buf it)) || nonnil (s_rest (i_back it))) eqn:C.
           ++ rewrite (IH it' _ _ Hs1 Hs2 (nonempty_tl _ _ N1) (nonempty_tl _ _ N2)) by lia.
              assert (Hne : merge (s_rest (i_buf it)) (s_rest (i_back it)) <> []).
              { intros X. apply merge_eq_nil in X as [X1' X2']. rewrite X1', X2' in C. discriminate. }
              rewrite <- (steady_current it' _ _ Hs1 Hs2 Hne).
              destruct (merge _ _); [contradiction|reflexivity].
           ++ apply orb_false_iff in C as [C1 C2].
              destruct (s_rest (i_buf it)); [|discriminate]. destruct (s_rest (i_back it)); [|discriminate]. reflexivity.
Qed.

Lemma initial_collect l1 l2 f : nonempty_keys l1 -> nonempty_keys l2 -> (length l1 + length l2 <= f)%nat ->
  collect (S f) {| i_buf := sub_init l1; i_back := sub_init l2 |} = merge l1 l2.
Proof.
  intros N1 N2 L. rewrite collect_S. unfold iter_next. cbn [i_buf i_back sub_init s_key s_eof is_empty andb negb].
  pose proof (sub_next_spec (sub_init l1) l1 eq_refl eq_refl N1) as [Hf1 Hs1].
  pose proof (sub_next_spec (sub_init l2) l2 eq_refl eq_refl N2) as [Hf2 Hs2].
  destruct (sub_next (sub_init l1)) as [n1 x1] eqn:X1. cbn [fst snd] in *. subst n1.
  destruct l1 as [|p1 r1].
  - (* the buffer has nothing in range *)
    cbn [nonnil]. assert (E1 : s_eof x1 = true) by (destruct Hs1 as [(E & _)|(_ & _ & X)]; [exact E|discriminate]).
    rewrite E1. cbn [negb]. 
    destruct (sub_next (sub_init l2)) as [n2 x2] eqn:X2. cbn [fst snd] in *. subst n2.
    cbn [s_eof sub_init andb orb].
    rewrite merge_nil_l. destruct l2 as [|p2 r2]; cbn [nonnil orb].
    { assert (E2 : s_eof x2 = true) by (destruct Hs2 as [(E & _)|(_ & _ & X)]; [exact E|discriminate]).
      rewrite E2. reflexivity. }
    assert (E2 : s_eof x2 = false) by (destruct Hs2 as [(_ & _ & X)|(E & _)]; [discriminate|exact E]).
    set (it' := {| i_buf := x1; i_back := x2 |}).
    rewrite (steady_collect f it' [] (p2 :: r2) Hs1 Hs2 N1 N2 L). rewrite merge_nil_l. cbn [tl].
    rewrite <- (steady_current it' [] (p2 :: r2) Hs1 Hs2) by (rewrite merge_nil_l; discriminate).
    rewrite merge_nil_l. reflexivity.
  - cbn [nonnil]. assert (E1 : s_eof x1 = false).
    { destruct Hs1 as [(_ & _ & X)|(E & _)]; [discriminate|exact E]. }
    cbn [s_eof sub_init negb andb].
    destruct (sub_next (sub_init l2)) as [n2 x2] eqn:X2. cbn [fst snd] in *. subst n2.
    rewrite orb_true_r.
    set (it' := {| i_buf := x1; i_back := x2 |}).
    rewrite (steady_collect f it' (p1 :: r1) l2 Hs1 Hs2 N1 N2 L).
    assert (Hne : merge (p1 :: r1) l2 <> []).
    { intros X. apply merge_eq_nil in X as [X _]. discriminate. }
    rewrite <- (steady_current it' (p1 :: r1) l2 Hs1 Hs2 Hne).
    destruct (merge (p1 :: r1) l2); [contradiction|reflexivity].
Qed.

(* ================= the buffer refines the byte-ordered map ================= *)
Definition binv (s : bstate) : Prop :=
  ssorted (buf s) /\ ssorted (back s) /\ nonempty_keys (buf s) /\ nonempty_keys (back s).

Definition mut_ok (x : mutation) : Prop := match x with MSet k _ => k <> [] | MDel _ => True end.
Definition op_ok (o : op) : Prop :=
  match o with OSet k _ => k <> [] | OBatch ms => Forall mut_ok ms | _ => True end.

Lemma nonempty_insert k v m : k <> [] -> nonempty_keys m -> nonempty_keys (insert k v m).
Proof. intros. apply insert_forall; assumption. Qed.
Lemma nonempty_remove k m : nonempty_keys m -> nonempty_keys (remove k m).
Proof. apply remove_forall. Qed.
Lemma nonempty_filter (p : bytes * bytes -> bool) m : nonempty_keys m -> nonempty_keys (filter p m).
Proof.
  intros H. apply Forall_forall. intros x Hx. apply filter_In in Hx as [Hx _].
  unfold nonempty_keys in H. rewrite Forall_forall in H. apply H. exact Hx.
Qed.

Lemma overlay_insert k v b m : ssorted m -> overlay (insert k v b) m = insert k v (overlay b m).
Proof.
  intros Hm. apply sorted_ext.
  - apply overlay_sorted. exact Hm.
  - apply insert_sorted, overlay_sorted. exact Hm.
  - intros x. rewrite lookup_overlay, !lookup_insert, lookup_overlay. destruct (beqb x k); reflexivity.
Qed.

Lemma overlay_remove k b m : ssorted b -> ssorted m -> overlay (remove k b) (remove k m) = remove k (overlay b m).
Proof.
  intros Hb Hm. apply sorted_ext.
  - apply overlay_sorted, remove_sorted. exact Hm.
  - apply remove_sorted, overlay_sorted. exact Hm.
  - intros x. rewrite lookup_overlay, !lookup_remove, lookup_overlay by (try apply overlay_sorted; assumption).
    destruct (beqb x k); reflexivity.
Qed.

Lemma overlay_nil m : overlay [] m = m.
Proof. reflexivity. Qed.

Lemma remove_all_self l : fold_left (fun m p => remove (fst p) m) l l = [].
Proof.
  induction l as [|[k v] l IH]; [reflexivity|]. cbn [fold_left fst remove]. rewrite beqb_refl. exact IH.
Qed.

Lemma nonempty_fold_insert l : forall m, nonempty_keys l -> nonempty_keys m ->
  nonempty_keys (fold_left (fun m p => insert (fst p) (snd p) m) l m).
Proof.
  induction l as [|[k v] l IH]; intros m Hl Hm; [exact Hm|]. cbn [fold_left]. inversion Hl; subst.
  apply IH; [assumption|]. apply nonempty_insert; assumption.
Qed.

Lemma flush_spec s : binv s -> binv (flush s) /\ abs (flush s) = abs s.
Proof.
  intros (Sb & Sk & Nb & Nk). unfold flush. destruct (buf s) as [|p l] eqn:E.
  - split; [unfold binv; rewrite E; auto|reflexivity].
  - rewrite remove_all_self. unfold binv, abs. cbn [buf back]. rewrite overlay_nil. split.
    + split; [constructor|]. split; [apply fold_insert_sorted; exact Sk|]. split; [constructor|].
      apply nonempty_fold_insert; assumption.
    + rewrite E. apply sorted_ext.
      * apply fold_insert_sorted; exact Sk.
      * apply overlay_sorted; exact Sk.
      * intros k. rewrite lookup_fold_insert by exact Sb. rewrite lookup_overlay. reflexivity.
Qed.

Lemma range_overlay st e b m : ssorted m -> range st e (overlay b m) = overlay (range st e b) (range st e m).
Proof.
  intros Hm. apply sorted_ext.
  - apply range_sorted, overlay_sorted. exact Hm.
  - apply overlay_sorted, range_sorted. exact Hm.
  - intros k. rewrite lookup_range, !lookup_overlay, !lookup_range. destruct (in_range st e k); reflexivity.
Qed.

Lemma bfind_spec s st e : binv s -> bfind s st e = range st e (abs s).
Proof.
  intros (Sb & Sk & Nb & Nk). unfold bfind, abs. cbv zeta.
  rewrite Nat.add_1_r.
  rewrite initial_collect; [|apply nonempty_filter; exact Nb|apply nonempty_filter; exact Nk|lia].
  rewrite merge_overlay by (apply range_sorted; assumption).
  symmetry. apply range_overlay. exact Sk.
Qed.

Lemma batch_spec ms : forall b k, ssorted b -> ssorted k -> nonempty_keys b -> nonempty_keys k -> Forall mut_ok ms ->
  let b' := fold_left buf_mut ms b in let k' := fold_left back_mut ms k in
  ssorted b' /\ ssorted k' /\ nonempty_keys b' /\ nonempty_keys k' /\
  overlay b' k' = fold_left spec_mut ms (overlay b k).
Proof.
  induction ms as [|x ms IH]; intros b k Sb Sk Nb Nk Hok; cbn [fold_left].
  - repeat split; assumption.
  - inversion Hok as [|? ? Hx Hms]; subst. destruct x as [kk v|kk]; cbn [buf_mut back_mut spec_mut].
    + destruct (oversize kk v).
      * apply IH; assumption.
      * cbn in Hx. specialize (IH (insert kk v b) k (insert_sorted _ _ _ Sb) Sk (nonempty_insert _ _ _ Hx Nb) Nk Hms).
        cbv zeta in IH. rewrite overlay_insert in IH by exact Sk. exact IH.
    + specialize (IH (remove kk b) (remove kk k) (remove_sorted _ _ Sb) (remove_sorted _ _ Sk)
                     (nonempty_remove _ _ Nb) (nonempty_remove _ _ Nk) Hms).
      cbv zeta in IH. rewrite overlay_remove in IH by assumption. exact IH.
Qed.

Theorem buffer_step_refines s o : binv s -> op_ok o ->
  binv (fst (bstep s o)) /\
  abs (fst (bstep s o)) = fst (spec_step (abs s) o) /\
  snd (bstep s o) = snd (spec_step (abs s) o).
Proof.
  intros I Hok. pose proof I as (Sb & Sk & Nb & Nk). destruct o as [k|k v|k|ms|st e| |]; cbn [bstep spec_step fst snd].
  - (* get *) split; [exact I|]. split; [reflexivity|]. unfold bget, abs. rewrite lookup_overlay. reflexivity.
  - (* set *) cbn [spec_mut]. destruct (oversize k v); cbn [fst snd]; [auto|].
    set (s1 := {| buf := insert k v (buf s); back := back s; buffered := _; maxb := maxb s |}).
    assert (I1 : binv s1).
    { unfold binv, s1. cbn [buf back]. repeat split; try assumption; [apply insert_sorted; exact Sb|apply nonempty_insert; assumption]. }
    assert (A1 : abs s1 = insert k v (abs s)) by (unfold abs, s1; cbn [buf back]; apply overlay_insert; exact Sk).
    destruct (Z.ltb _ _).
    + destruct (flush_spec s1 I1) as [I2 A2]. split; [exact I2|]. split; [rewrite A2; exact A1|reflexivity].
    + split; [exact I1|]. split; [exact A1|reflexivity].
  - (* delete *) split; [|split; [|reflexivity]].
    + unfold binv, set_bufs. cbn [buf back]. repeat split; [apply remove_sorted|apply remove_sorted|apply nonempty_remove|apply nonempty_remove]; assumption.
    + unfold abs, set_bufs. cbn [buf back]. apply overlay_remove; assumption.
  - (* batch *) cbn in Hok. destruct (batch_spec ms (buf s) (back s) Sb Sk Nb Nk Hok) as (A & B & C & D & E).
    split; [|split; [|reflexivity]].
    + unfold binv, set_bufs. cbn [buf back]. repeat split; assumption.
    + unfold abs, set_bufs. cbn [buf back]. exact E.
  - (* find *) split; [exact I|]. split; [reflexivity|]. f_equal. apply bfind_spec. exact I.
  - (* flush *) destruct (flush_spec s I) as [I2 A2]. split; [exact I2|]. split; [exact A2|reflexivity].
  - (* reopen *) destruct (flush_spec s I) as [I2 A2]. split; [exact I2|]. split; [exact A2|reflexivity].
Qed.

Theorem buffer_run_refines ops : forall s, binv s -> Forall op_ok ops ->
  map (fun t => fst (fst t)) (run_buffer s ops) = run_spec (abs s) ops.
Proof.
  induction ops as [|o ops IH]; intros s I Hok; [reflexivity|].
  inversion Hok as [|? ? Ho Hops]; subst.
  destruct (buffer_step_refines s o I Ho) as (I' & A' & O').
  cbn [run_buffer run_spec]. destruct (bstep s o) as [s' x]. destruct (spec_step (abs s) o) as [m' y].
  cbn [fst snd] in *. cbn [map fst]. subst. f_equal. apply IH; assumption.
Qed.

Lemma binv_init mx : binv (binit mx).
Proof. unfold binv, binit. cbn. repeat split; constructor. Qed.

(* ================= the SPEC itself is the byte-ordered map of the statement ================= *)
Lemma spec_step_sorted m o : ssorted m -> ssorted (fst (spec_step m o)).
Proof.
  intros H. destruct o as [k|k v|k|ms|st e| |]; cbn [spec_step fst]; try exact H.
  - cbn [spec_mut]. destruct (oversize k v); [exact H|apply insert_sorted; exact H].
  - apply remove_sorted; exact H.
  - revert m H. induction ms as [|x ms IH]; intros m H; [exact H|]. cbn [fold_left]. apply IH.
    destruct x as [k v|k]; cbn [spec_mut]; [destruct (oversize k v); [exact H|apply insert_sorted; exact H]|apply remove_sorted; exact H].
Qed.

Lemma get_after_set m k v : oversize k v = false -> lookup k (fst (spec_step m (OSet k v))) = Some v.
Proof. intros H. cbn. rewrite H. rewrite lookup_insert, beqb_refl. reflexivity. Qed.

Lemma get_after_oversize_set m k v k' : oversize k v = true -> lookup k' (fst (spec_step m (OSet k v))) = lookup k' m.
Proof. intros H. cbn. rewrite H. reflexivity. Qed.

Lemma get_after_delete m k : ssorted m -> lookup k (fst (spec_step m (ODel k))) = None.
Proof. intros H. cbn. rewrite lookup_remove by exact H. rewrite beqb_refl. reflexivity. Qed.

Lemma get_other_unchanged m k v k' : k' <> k ->
  lookup k' (insert k v m) = lookup k' m /\ (ssorted m -> lookup k' (remove k m) = lookup k' m).
Proof.
  intros H. apply beqb_neq in H. split; [rewrite lookup_insert, H; reflexivity|].
  intros S. rewrite lookup_remove by exact S. rewrite H. reflexivity.
Qed.

Lemma find_exact m st e : ssorted m ->
  ssorted (range st e m) /\
  forall k v, In (k, v) (range st e m) <-> (in_range st e k = true /\ In (k, v) m).
Proof.
  intros H. split; [apply range_sorted; exact H|]. intros k v. unfold range. rewrite filter_In. cbn [fst]. tauto.
Qed.

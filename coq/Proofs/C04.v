From Coq Require Import List NArith Bool Lia Arith.
From PK.Model Require Import C04.
Import ListNotations.

Lemma memN_In b l : memN b l = true <-> In b l.
Proof. unfold memN. rewrite existsb_exists. split; [intros (x & H & E); apply N.eqb_eq in E; subst; exact H|intros H; exists b; split; [exact H|apply N.eqb_refl]]. Qed.

Lemma memN_cons r x l : memN r (x :: l) = N.eqb r x || memN r l.
Proof. reflexivity. Qed.

Lemma memN_delN r bs l : memN r (delN bs l) = memN r l && negb (memN r bs).
Proof.
  unfold delN. induction l as [|x l IH]; [reflexivity|]. cbn [filter]. destruct (memN x bs) eqn:E; cbn [negb].
  - rewrite IH, memN_cons. destruct (N.eqb_spec r x) as [->|]; cbn [orb]; [rewrite E; cbn; rewrite andb_false_r; reflexivity|reflexivity].
  - rewrite !memN_cons, IH. destruct (N.eqb_spec r x) as [->|]; cbn [orb]; [rewrite E; reflexivity|reflexivity].
Qed.

Lemma blook_app_map r z bl rows : blook r (map (fun x => (x, z)) bl ++ rows) = if memN r bl then Some z else blook r rows.
Proof.
  unfold blook. induction bl as [|x bl IH]; [reflexivity|]. cbn [map app find fst]. unfold memN. cbn [existsb]. fold (memN r bl).
  rewrite N.eqb_sym. destruct (N.eqb r x); [reflexivity|exact IH].
Qed.

Lemma zlook_cons z' z bl lg : zlook z' ((z, bl) :: lg) = if N.eqb z z' then Some bl else zlook z' lg.
Proof. unfold zlook. cbn [find fst]. destruct (N.eqb z z'); reflexivity. Qed.

(* every b: row points to a stored zip whose manifest names the blob *)
Definition Inv (s : st) : Prop := forall r z, blook r (brow s) = Some z -> exists bl, zlook z (large s) = Some bl /\ memN r bl = true.

Definition same_view (s s' : st) : Prop := forall r, fetch s' r = fetch s r /\ visible s' r = visible s r.

Lemma same_view_refl s : same_view s s.
Proof. intros r; split; reflexivity. Qed.
Lemma same_view_trans a b c : same_view a b -> same_view b c -> same_view a c.
Proof. intros H1 H2 r. destruct (H1 r), (H2 r). split; congruence. Qed.

(* the three writes for one zip, one at a time *)
Section OneZip.
  Variables (s : st) (z : N) (bl : list N).
  Hypothesis HI : Inv s.
  Hypothesis Hfresh : zlook z (large s) = None.
  Hypothesis Hvis : forall r, memN r bl = true -> fetch s r = FOk /\ visible s r = true.

  Let s1 := exec1 s (WStoreLarge z bl).
  Let s2 := exec1 s1 (WCommitMeta z bl).
  Let s3 := exec1 s2 (WRemoveSmall bl).

  Lemma zlook_old z' : zlook z' (large s) <> None -> zlook z' ((z, bl) :: large s) = zlook z' (large s).
  Proof. intros H. rewrite zlook_cons. destruct (N.eqb_spec z z') as [<-|]; [rewrite Hfresh in H; contradiction|reflexivity]. Qed.

  Lemma view1 : same_view s s1 /\ Inv s1.
  Proof.
    split.
    - intros r. split; [|reflexivity]. unfold fetch, s1. cbn [exec1 brow large small].
      destruct (blook r (brow s)) as [z'|] eqn:E; [|reflexivity]. destruct (HI r z' E) as (bl' & Hz & Hm). rewrite zlook_old by congruence. reflexivity.
    - intros r z' E. unfold s1 in *. cbn [exec1 brow large] in *. destruct (HI r z' E) as (bl' & Hz & Hm). exists bl'. split; [rewrite zlook_old by congruence; exact Hz|exact Hm].
  Qed.

  Lemma view2 : same_view s s2 /\ Inv s2.
  Proof.
    destruct view1 as [V1 I1]. split.
    - apply (same_view_trans s s1 s2 V1). intros r. destruct (memN r bl) eqn:Em.
      + destruct (Hvis r Em) as [Hf Hv]. destruct (V1 r) as [Hf1 Hv1]. rewrite Hf1, Hv1, Hf, Hv.
        unfold fetch, visible, s2. cbn [exec1 brow large small]. rewrite blook_app_map, Em. unfold s1. cbn [exec1 large]. rewrite zlook_cons, N.eqb_refl, Em.
        split; [reflexivity|apply orb_true_r].
      + unfold fetch, visible, s2. cbn [exec1 brow large small]. rewrite blook_app_map, Em. split; reflexivity.
    - intros r z' E. unfold s2 in *. cbn [exec1 brow large] in *. rewrite blook_app_map in E. destruct (memN r bl) eqn:Em.
      + injection E as <-. exists bl. unfold s1. cbn [exec1 large]. rewrite zlook_cons, N.eqb_refl. split; [reflexivity|exact Em].
      + apply I1. exact E.
  Qed.

  Lemma view3 : same_view s s3 /\ Inv s3.
  Proof.
    destruct view2 as [V2 I2]. split; [|exact I2].
    apply (same_view_trans s s2 s3 V2). intros r. unfold fetch, visible, s3. cbn [exec1 brow large small]. rewrite memN_delN.
    destruct (blook r (brow s2)) as [z'|] eqn:E; [split; [reflexivity|rewrite !orb_true_r; reflexivity]|].
    assert (Hn : memN r bl = false).
    { destruct (memN r bl) eqn:Em; [|reflexivity]. unfold s2 in E. cbn [exec1 brow] in E. rewrite blook_app_map, Em in E. discriminate. }
    rewrite Hn. cbn [negb]. rewrite andb_true_r. split; reflexivity.
  Qed.
End OneZip.

(* fresh, pairwise distinct zip ids *)
Fixpoint fresh_zips (lg : list (N * list N)) (zs : list (N * list N)) : Prop :=
  match zs with
  | [] => True
  | (z, bl) :: rest => zlook z lg = None /\ fresh_zips ((z, bl) :: lg) rest
  end.

Lemma exec_app s a b : exec s (a ++ b) = exec (exec s a) b.
Proof. unfold exec. apply fold_left_app. Qed.

(* Packing is invisible at every intermediate step: whatever prefix of the writes of a pack was executed (= wherever the
   process died), every logical blob is fetched and enumerated exactly as before the pack started. *)
Theorem pack_invisible : forall zs w s k, Inv s -> fresh_zips (large s) zs ->
  (forall z bl r, In (z, bl) zs -> memN r bl = true -> fetch s r = FOk /\ visible s r = true) ->
  same_view s (exec s (firstn k (pack_writes w zs))) /\ Inv (exec s (firstn k (pack_writes w zs))).
Proof.
  induction zs as [|[z bl] zs IH]; intros w s k HI Hf Hv.
  - unfold pack_writes. cbn [flat_map app]. destruct k as [|k]; cbn [firstn]; [split; [apply same_view_refl|exact HI]|].
    destruct k; cbn [firstn]; unfold exec; cbn [fold_left]; (split; [intros r; split; reflexivity|exact HI]).
  - unfold pack_writes. cbn [flat_map fst snd]. rewrite <- app_assoc. cbn [app].
    destruct Hf as [Hfz Hfrest].
    assert (Hvz : forall r, memN r bl = true -> fetch s r = FOk /\ visible s r = true) by (intros r Hr; apply (Hv z bl r (or_introl eq_refl) Hr)).
    destruct (view1 s z bl HI Hfz) as [V1 I1]. destruct (view2 s z bl HI Hfz Hvz) as [V2 I2]. destruct (view3 s z bl HI Hfz Hvz) as [V3 I3].
    destruct k as [|[|[|k]]]; cbn [firstn]; unfold exec at 1 2; cbn [fold_left].
    + split; [apply same_view_refl|exact HI].
    + split; assumption.
    + split; assumption.
    + fold (exec (exec1 (exec1 (exec1 s (WStoreLarge z bl)) (WCommitMeta z bl)) (WRemoveSmall bl)) (firstn k (flat_map (fun zb => [WStoreLarge (fst zb) (snd zb); WCommitMeta (fst zb) (snd zb); WRemoveSmall (snd zb)]) zs ++ [WSetWhole w]))).
      set (s3 := exec1 (exec1 (exec1 s (WStoreLarge z bl)) (WCommitMeta z bl)) (WRemoveSmall bl)) in *.
      destruct (IH w s3 k I3) as [V I].
      * exact Hfrest.
      * intros z' bl' r Hin Hr. destruct (Hv z' bl' r (or_intror Hin) Hr) as [A B]. destruct (V3 r) as [A3 B3]. split; congruence.
      * split; [eapply same_view_trans; [exact V3|exact V]|exact I].
Qed.

(* ---- removal ---- *)
Lemma blook_filter r q rows : blook r (filter (fun e => negb (N.eqb (fst e) q)) rows) = if N.eqb r q then None else blook r rows.
Proof.
  unfold blook. induction rows as [|[a c] rows IH]; [destruct (N.eqb r q); reflexivity|]. cbn [filter fst find].
  destruct (N.eqb_spec a q) as [->|Ha]; cbn [negb find fst].
  - rewrite IH. destruct (N.eqb_spec r q) as [->|Hr]; [reflexivity|]. destruct (N.eqb_spec q r); [congruence|reflexivity].
  - destruct (N.eqb_spec a r) as [->|].
    + destruct (N.eqb_spec r q); [congruence|reflexivity].
    + exact IH.
Qed.

Theorem remove_removes : forall s r, fetch (remove true s r) r = FMissing /\ visible (remove true s r) r = false.
Proof.
  intros s r. unfold remove, fetch, visible. destruct (blook r (brow s)) eqn:E; cbn [brow small large].
  - rewrite blook_filter, N.eqb_refl, memN_delN. unfold memN at 2 4. cbn. rewrite N.eqb_refl. cbn. rewrite !andb_false_r. split; reflexivity.
  - rewrite E, memN_delN. unfold memN at 2 4. cbn. rewrite N.eqb_refl. cbn. rewrite !andb_false_r. split; reflexivity.
Qed.

Theorem remove_others : forall s r r', r' <> r -> fetch (remove true s r) r' = fetch s r' /\ visible (remove true s r) r' = visible s r'.
Proof.
  intros s r r' Hn. assert (Hm : memN r' [r] = false) by (unfold memN; cbn; destruct (N.eqb_spec r' r); [contradiction|reflexivity]).
  unfold remove, fetch, visible. destruct (blook r (brow s)); cbn [brow small large].
  - rewrite blook_filter. destruct (N.eqb_spec r' r); [contradiction|]. rewrite memN_delN, Hm. cbn. rewrite andb_true_r. split; reflexivity.
  - rewrite memN_delN, Hm. cbn. rewrite andb_true_r. split; reflexivity.
Qed.

Lemma remove_exact : forall s r, (fetch (remove true s r) r = FMissing /\ visible (remove true s r) r = false) /\
  forall r', r' <> r -> fetch (remove true s r) r' = fetch s r' /\ visible (remove true s r) r' = visible s r'.
Proof. intros s r. split; [exact (remove_removes s r)|exact (remove_others s r)]. Qed.

(* D8 (repaired): leaving the loose copy of a packed blob behind keeps it visible after its removal *)
Lemma remove_packed_only_keeps_loose_copy :
  let s := exec st0 [WStoreLarge 9 [1; 2]; WCommitMeta 9 [1; 2]]%N in
  let s0 := {| small := [1; 2]%N; large := large s; brow := brow s; zrow := zrow s; wrow := wrow s |} in
  fetch (remove false s0 1%N) 1%N = FOk /\ visible (remove false s0 1%N) 1%N = true /\ fetch (remove true s0 1%N) 1%N = FMissing.
Proof. repeat split; reflexivity. Qed.

(* ---- recovery from the zips alone ---- *)
Lemma find_app {A} (f : A -> bool) a b : find f (a ++ b) = match find f a with Some x => Some x | None => find f b end.
Proof. induction a as [|x a IH]; [reflexivity|]. cbn [app find]. destruct (f x); [reflexivity|exact IH]. Qed.

Lemma blook_flat r lg : forall z, blook r (flat_map (fun zb : N * list N => map (fun x => (x, fst zb)) (snd zb)) lg) = Some z ->
  exists bl, In (z, bl) lg /\ memN r bl = true.
Proof.
  induction lg as [|[z0 bl0] lg IH]; intros z H; [discriminate|]. cbn [flat_map fst snd] in H. rewrite blook_app_map in H.
  destruct (memN r bl0) eqn:E; [injection H as <-; exists bl0; split; [left; reflexivity|exact E]|].
  destruct (IH z H) as (bl & Hin & Hm). exists bl. split; [right; exact Hin|exact Hm].
Qed.

Lemma blook_flat_some r lg z bl : In (z, bl) lg -> memN r bl = true ->
  exists z', blook r (flat_map (fun zb : N * list N => map (fun x => (x, fst zb)) (snd zb)) lg) = Some z'.
Proof.
  induction lg as [|[z0 bl0] lg IH]; intros Hin Hm; [destruct Hin|]. cbn [flat_map fst snd]. rewrite blook_app_map.
  destruct (memN r bl0) eqn:E; [eexists; reflexivity|]. destruct Hin as [H|H]; [injection H as <- <-; congruence|apply IH; assumption].
Qed.

(* zips are content-addressed: one id, one manifest *)
Definition functional_large (lg : list (N * list N)) : Prop := forall z bl bl', In (z, bl) lg -> In (z, bl') lg -> bl = bl'.

Lemma zlook_In z bl lg : functional_large lg -> In (z, bl) lg -> zlook z lg = Some bl.
Proof.
  intros F Hin. unfold zlook. destruct (find (fun e => N.eqb (fst e) z) lg) as [[z' bl']|] eqn:E.
  - apply find_some in E as [Hin' Ez]. apply N.eqb_eq in Ez. cbn in Ez. subst z'. cbn. f_equal. eapply F; eassumption.
  - exfalso. apply (find_none _ _ E) in Hin. cbn in Hin. rewrite N.eqb_refl in Hin. discriminate.
Qed.

(* after a recovery (fast or full) every blob that was served is still served: packed blobs through their zips, loose ones
   from the loose store or from a zip that already contained them *)
Theorem reindex_keeps_serving : forall full s r, Inv s -> functional_large (large s) -> fetch s r = FOk -> fetch (reindex full s) r = FOk.
Proof.
  intros full s r HI HF Hf. unfold fetch in *. cbn [reindex brow large small].
  destruct (blook r (flat_map (fun zb : N * list N => map (fun x => (x, fst zb)) (snd zb)) (large s) ++ (if full then [] else brow s))) as [z'|] eqn:E.
  - (* a row exists after the recovery *)
    assert (Hsrc : (exists bl, In (z', bl) (large s) /\ memN r bl = true) \/ (full = false /\ blook r (brow s) = Some z')).
    { unfold blook in E. rewrite find_app in E. destruct (find _ (flat_map _ (large s))) as [e|] eqn:E1.
      - left. injection E as <-. apply (blook_flat r (large s) (snd e)). unfold blook. rewrite E1. reflexivity.
      - right. destruct full; [discriminate|]. split; [reflexivity|]. unfold blook. exact E. }
    destruct Hsrc as [(bl & Hin & Hm)|[-> Hb]].
    + rewrite (zlook_In z' bl _ HF Hin), Hm. reflexivity.
    + destruct (HI r z' Hb) as (bl & Hz & Hm). rewrite Hz, Hm. reflexivity.
  - (* no row: then it was not packed before either *)
    destruct (blook r (brow s)) as [z|] eqn:Eb; [|exact Hf].
    destruct (HI r z Eb) as (bl & Hz & Hm). exfalso.
    assert (Hin : In (z, bl) (large s)).
    { unfold zlook in Hz. destruct (find (fun e => N.eqb (fst e) z) (large s)) as [[a c]|] eqn:F; [|discriminate]. injection Hz as <-.
      apply find_some in F as [Hin Ea]. apply N.eqb_eq in Ea. cbn in Ea. subst a. exact Hin. }
    destruct (blook_flat_some r (large s) z bl Hin Hm) as [z'' Hz''].
    unfold blook in E, Hz''. rewrite find_app in E. destruct (find _ (flat_map _ (large s))); [discriminate|discriminate].
Qed.

(* D9 (open): recovery forgets removals — a removed packed blob comes back *)
Lemma reindex_resurrects_removed_blob :
  let s := remove true (exec st0 [WStoreLarge 9 [1; 2]; WCommitMeta 9 [1; 2]]%N) 1%N in
  fetch s 1%N = FMissing /\ visible s 1%N = false /\ fetch (reindex false s) 1%N = FOk /\ visible (reindex true s) 1%N = true.
Proof. repeat split; reflexivity. Qed.

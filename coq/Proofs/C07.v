From Coq Require Import List NArith ZArith Bool Lia Sorted Permutation Arith.
From PK.Model Require Import C07.
Import ListNotations.
Local Open Scope Z_scope.

(* ================= sorting by claim date ================= *)
Definition dlt (a b : claim) : Prop := c_date a < c_date b.
Definition dsorted (l : list claim) : Prop := StronglySorted dlt l.
Definition dates_distinct (l : list claim) : Prop := NoDup (map c_date l).

Lemma insert_perm c l : Permutation (c :: l) (insert_by_date c l).
Proof.
  induction l as [|x r IH]; cbn; [reflexivity|]. destruct (c_date c <? c_date x); [reflexivity|].
  etransitivity; [apply perm_swap|]. apply perm_skip. exact IH.
Qed.

Lemma sort_cons x r : sort_by_date (x :: r) = insert_by_date x (sort_by_date r).
Proof. reflexivity. Qed.

Lemma sort_perm l : Permutation l (sort_by_date l).
Proof. induction l as [|x r IH]; [reflexivity|]. rewrite sort_cons. etransitivity; [apply perm_skip; exact IH|apply insert_perm]. Qed.

Lemma insert_forall (P : claim -> Prop) c l : P c -> Forall P l -> Forall P (insert_by_date c l).
Proof.
  intros Hc H. induction H as [|x r Hx H IH]; cbn; [repeat constructor; exact Hc|].
  destruct (c_date c <? c_date x); repeat constructor; assumption.
Qed.

Lemma insert_sorted c l : dsorted l -> ~ In (c_date c) (map c_date l) -> dsorted (insert_by_date c l).
Proof.
  induction 1 as [|x r Hs IH Hf]; cbn; intros Hn; [repeat constructor|].
  destruct (c_date c <? c_date x) eqn:E.
  - apply Z.ltb_lt in E. constructor; [constructor; assumption|]. constructor; [exact E|].
    eapply Forall_impl; [|exact Hf]. intros a Ha. unfold dlt in *. lia.
  - apply Z.ltb_ge in E. assert (c_date x < c_date c) by (assert (c_date x <> c_date c) by (intros X; apply Hn; left; exact X); lia).
    constructor; [apply IH; intros X; apply Hn; right; exact X|]. apply insert_forall; assumption.
Qed.

Lemma sort_sorted l : dates_distinct l -> dsorted (sort_by_date l).
Proof.
  unfold dates_distinct. induction l as [|x r IH]; intros H; [constructor|]. rewrite sort_cons. cbn [map] in H. inversion H; subst.
  apply insert_sorted; [apply IH; assumption|].
  intros X. apply H2. eapply Permutation_in; [|exact X]. apply Permutation_map. symmetry. apply sort_perm.
Qed.

(* a strictly date-sorted list is determined by its elements *)
Lemma dsorted_unique a : forall b, dsorted a -> dsorted b -> Permutation a b -> a = b.
Proof.
  induction a as [|x a IH]; intros b Ha Hb P.
  - apply Permutation_nil in P. subst. reflexivity.
  - destruct b as [|y b]; [apply Permutation_sym, Permutation_nil in P; discriminate|].
    inversion Ha as [|? ? Sa Fa]; subst. inversion Hb as [|? ? Sb Fb]; subst.
    assert (x = y).
    { assert (In x (y :: b)) as Hx by (eapply Permutation_in; [exact P|left; reflexivity]).
      assert (In y (x :: a)) as Hy by (eapply Permutation_in; [symmetry; exact P|left; reflexivity]).
      destruct Hx as [Hx|Hx]; [congruence|]. destruct Hy as [Hy|Hy]; [congruence|].
      rewrite Forall_forall in Fa, Fb. specialize (Fa _ Hy). specialize (Fb _ Hx). unfold dlt in *. lia. }
    subst y. f_equal. apply IH; [assumption|assumption|]. eapply Permutation_cons_inv. exact P.
Qed.

Lemma sort_perm_eq l l' : dates_distinct l -> Permutation l l' -> sort_by_date l = sort_by_date l'.
Proof.
  intros D P. assert (D' : dates_distinct l') by (unfold dates_distinct in *; eapply Permutation_NoDup; [apply Permutation_map; exact P|exact D]).
  apply dsorted_unique; [apply sort_sorted; exact D|apply sort_sorted; exact D'|].
  etransitivity; [symmetry; apply sort_perm|]. etransitivity; [exact P|apply sort_perm].
Qed.

Lemma sorted_is_fixed l : dsorted l -> sort_by_date l = l.
Proof.
  induction 1 as [|x r Hs IH Hf]; [reflexivity|]. rewrite sort_cons, IH. destruct r as [|y r']; [reflexivity|].
  cbn [insert_by_date]. inversion Hf; subst. unfold dlt in *. assert (c_date x <? c_date y = true) as -> by (apply Z.ltb_lt; assumption). reflexivity.
Qed.

Definition lsorted (l : list claim) : Prop := StronglySorted (fun a b => c_date a <= c_date b) l.

Lemma insert_lsorted c l : lsorted l -> lsorted (insert_by_date c l).
Proof.
  induction 1 as [|x r Hs IH Hf]; cbn; [repeat constructor|].
  destruct (c_date c <? c_date x) eqn:E.
  - apply Z.ltb_lt in E. constructor; [constructor; assumption|]. constructor; [lia|].
    eapply Forall_impl; [|exact Hf]. intros a Ha. cbn in Ha. lia.
  - apply Z.ltb_ge in E. constructor; [exact IH|]. apply insert_forall; [exact E|exact Hf].
Qed.

Lemma sort_lsorted l : lsorted (sort_by_date l).
Proof. induction l as [|x r IH]; [constructor|]. rewrite sort_cons. apply insert_lsorted. exact IH. Qed.

Lemma insert_lt_all c m : Forall (fun y => c_date c < c_date y) m -> insert_by_date c m = c :: m.
Proof. intros H. destruct H as [|y m Hy _]; [reflexivity|]. cbn. assert (c_date c <? c_date y = true) as -> by (apply Z.ltb_lt; exact Hy). reflexivity. Qed.

Lemma filter_insert (p : claim -> bool) c l : lsorted l ->
  filter p (insert_by_date c l) = if p c then insert_by_date c (filter p l) else filter p l.
Proof.
  induction 1 as [|x r Hs IH Hf]; cbn [insert_by_date filter]; [destruct (p c); reflexivity|].
  destruct (c_date c <? c_date x) eqn:E; cbn [filter].
  - apply Z.ltb_lt in E. destruct (p c) eqn:Pc; [|reflexivity]. destruct (p x) eqn:Px.
    + cbn [insert_by_date]. assert (c_date c <? c_date x = true) as -> by (apply Z.ltb_lt; exact E). reflexivity.
    + symmetry. apply insert_lt_all. apply Forall_forall. intros y Hy. apply filter_In in Hy as [Hy _].
      rewrite Forall_forall in Hf. specialize (Hf y Hy). cbn in Hf. lia.
  - rewrite IH. destruct (p c), (p x); cbn [insert_by_date]; rewrite ?E; reflexivity.
Qed.

Lemma filter_sort (p : claim -> bool) l : filter p (sort_by_date l) = sort_by_date (filter p l).
Proof.
  induction l as [|x r IH]; [reflexivity|]. rewrite sort_cons. cbn [filter]. rewrite filter_insert by apply sort_lsorted.
  rewrite IH. destruct (p x); reflexivity.
Qed.

(* ================= the fallback loops: the documented fold, but blind to deletions ================= *)
Theorem fallback_is_spec_without_deletions claims at_ sf attr :
  fallback_values (sort_by_date claims) at_ sf attr = attr_at claims (fun _ => false) at_ sf attr.
Proof.
  unfold fallback_values, attr_at. rewrite filter_sort. f_equal. f_equal. apply filter_ext. intros c. cbn [negb andb].
  destruct (N.eqb (c_attr c) attr), (date_ok at_ c), (signer_ok sf c); reflexivity.
Qed.

(* ================= the incremental cache = rebuilding from the sorted claims, whatever the arrival order ================= *)
Definition with_claims (cl : list claim) (pm : pmeta) : pmeta := {| p_claims := cl; p_attr := p_attr pm; p_signer := p_signer pm |}.

Lemma append_with_claims cl pm c : append_attr_claim (with_claims cl pm) c = with_claims cl (append_attr_claim pm c).
Proof.
  unfold append_attr_claim, with_claims. cbn [p_claims p_attr p_signer].
  destruct (sget (p_signer pm) (c_signer c)); destruct (p_signer pm) as [|[s0 m0] [|q r]]; reflexivity.
Qed.

Lemma fold_with_claims cl xs : forall pm, fold_left append_attr_claim xs (with_claims cl pm) = with_claims cl (fold_left append_attr_claim xs pm).
Proof. induction xs as [|x xs IH]; intros pm; [reflexivity|]. cbn [fold_left]. rewrite append_with_claims. apply IH. Qed.

Lemma restore_eq claims : restore_invariants claims =
  with_claims (sort_by_date claims) (fold_left append_attr_claim (sort_by_date claims) {| p_claims := []; p_attr := []; p_signer := [] |}).
Proof. unfold restore_invariants. rewrite <- fold_with_claims. reflexivity. Qed.

Lemma insert_app_last x m c : c_date x < c_date c -> insert_by_date x (m ++ [c]) = insert_by_date x m ++ [c].
Proof.
  intros H. induction m as [|y m IH]; cbn.
  - assert (c_date x <? c_date c = true) as -> by (apply Z.ltb_lt; exact H). reflexivity.
  - destruct (c_date x <? c_date y); [reflexivity|]. rewrite IH. reflexivity.
Qed.

Lemma sort_app_last l c : Forall (fun x => c_date x < c_date c) l -> sort_by_date (l ++ [c]) = sort_by_date l ++ [c].
Proof.
  induction 1 as [|x l Hx _ IH]; [reflexivity|]. cbn [app]. rewrite !sort_cons.
  rewrite IH. apply insert_app_last. exact Hx.
Qed.

Lemma dsorted_last_max m z : dsorted (m ++ [z]) -> Forall (fun y => c_date y < c_date z) m.
Proof.
  induction m as [|x m IH]; intros H; [constructor|]. cbn in H. inversion H as [|? ? S F]; subst.
  constructor; [|apply IH; exact S]. rewrite Forall_forall in F. apply (F z). apply in_or_app. right. left. reflexivity.
Qed.

Lemma p_claims_restore claims : p_claims (restore_invariants claims) = sort_by_date claims.
Proof. rewrite restore_eq. reflexivity. Qed.

Theorem cache_is_fold : forall arrival, arrival <> [] -> dates_distinct arrival ->
  add_claims arrival = Some (restore_invariants arrival).
Proof.
  intros arrival. induction arrival as [|c l IH] using rev_ind; intros Hne D; [contradiction|]. clear Hne.
  unfold add_claims. rewrite fold_left_app. cbn [fold_left]. fold (add_claims l).
  destruct l as [|x l'] eqn:El; [reflexivity|]. rewrite <- El in *.
  assert (Dl : dates_distinct l).
  { unfold dates_distinct in *. rewrite map_app in D. cbn [map] in D. apply NoDup_remove_1 in D. rewrite app_nil_r in D. exact D. }
  rewrite IH by (try exact Dl; subst l; discriminate). f_equal. unfold add_claim. rewrite p_claims_restore.
  assert (Hs : dsorted (sort_by_date l)) by (apply sort_sorted; exact Dl).
  destruct (rev (sort_by_date l)) as [|lastc rest] eqn:Er.
  - (* impossible: l is not empty *)
    exfalso. assert (sort_by_date l = []) by (rewrite <- (rev_involutive (sort_by_date l)), Er; reflexivity).
    pose proof (Permutation_length (sort_perm l)) as L. rewrite H in L. subst l. discriminate.
  - assert (Hl : sort_by_date l = rev rest ++ [lastc]) by (rewrite <- (rev_involutive (sort_by_date l)), Er; reflexivity).
    destruct (c_date lastc <? c_date c) eqn:E.
    + (* the new claim is the most recent: applied on top of the cache *)
      apply Z.ltb_lt in E.
      assert (Hall : Forall (fun x => c_date x < c_date c) l).
      { apply Forall_forall. intros y Hy. assert (In y (sort_by_date l)) as Hy' by (eapply Permutation_in; [apply sort_perm|exact Hy]).
        rewrite Hl in Hy', Hs. pose proof (dsorted_last_max _ _ Hs) as Hm. rewrite Forall_forall in Hm.
        apply in_app_or in Hy' as [Hy'|[<-|[]]]; [specialize (Hm y Hy'); lia|exact E]. }
      rewrite (restore_eq (l ++ [c])), (sort_app_last l c Hall), fold_left_app. cbn [fold_left].
      rewrite (restore_eq l). rewrite <- append_with_claims. reflexivity.
    + (* out of date order: everything is rebuilt from the re-sorted claims *)
      unfold restore_invariants. rewrite (sort_perm_eq (sort_by_date l ++ [c]) (l ++ [c])); [reflexivity| |].
      * unfold dates_distinct in *. eapply Permutation_NoDup; [|exact D]. apply Permutation_map. apply Permutation_app_tail. apply sort_perm.
      * apply Permutation_app_tail. symmetry. apply sort_perm.
Qed.

(* ================= deletion: the recursive test computes the unique solution of the defining equation ================= *)
Local Open Scope nat_scope.
Definition del_equation (d : dels) (f : N -> bool) : Prop :=
  forall r, f r = existsb (fun p => N.eqb (snd p) r && negb (f (fst p))) d.

Theorem is_deleted_unique d (rank : N -> nat) f :
  (forall x r, In (x, r) d -> rank x < rank r) -> del_equation d f ->
  forall fuel r, rank r < fuel -> is_deleted fuel d r = f r.
Proof.
  intros Hr Hf. induction fuel as [|fu IH]; intros r Hlt; [lia|].
  cbn [is_deleted]. rewrite (Hf r). 
  assert (G : forall l, (forall p, In p l -> In p d) ->
     existsb (fun p => N.eqb (snd p) r && negb (is_deleted fu d (fst p))) l = existsb (fun p => N.eqb (snd p) r && negb (f (fst p))) l).
  { induction l as [|[x t] l IHl]; intros Hin; [reflexivity|]. cbn [existsb fst snd].
    rewrite IHl by (intros p Hp; apply Hin; right; exact Hp). destruct (N.eqb t r) eqn:E; [|reflexivity].
    apply N.eqb_eq in E. subst t. rewrite IH; [reflexivity|]. specialize (Hr x r (Hin _ (or_introl eq_refl))). lia. }
  apply G. auto.
Qed.

(* a solution exists whenever the delete graph is ranked (targets exist before their deleters): the test itself *)
Theorem is_deleted_solves d (rank : N -> nat) fuel :
  (forall x r, In (x, r) d -> rank x < rank r) -> (forall r, rank r < fuel) ->
  del_equation d (is_deleted fuel d).
Proof.
  intros Hr Hb r. destruct fuel as [|fu]; [specialize (Hb r); lia|]. cbn [is_deleted].
  assert (G : forall l, (forall p, In p l -> In p d) ->
     existsb (fun p => N.eqb (snd p) r && negb (is_deleted fu d (fst p))) l =
     existsb (fun p => N.eqb (snd p) r && negb (is_deleted (S fu) d (fst p))) l).
  { induction l as [|[x t] l IHl]; intros Hin; [reflexivity|]. cbn [existsb fst snd].
    rewrite IHl by (intros p Hp; apply Hin; right; exact Hp). destruct (N.eqb t r) eqn:E; [|reflexivity].
    apply N.eqb_eq in E. subst t. f_equal. cbn [andb]. f_equal.
    (* both levels of fuel are above the rank of x *)
    pose proof (Hr x r (Hin _ (or_introl eq_refl))) as Hx. pose proof (Hb r) as Hbr.
    assert (forall a b y, rank y < a -> rank y < b -> is_deleted a d y = is_deleted b d y) as Stable.
    { clear -Hr. induction a as [|a IHa]; intros b y Ha Hb'; [lia|]. destruct b as [|b]; [lia|]. cbn [is_deleted].
      assert (forall l, (forall p, In p l -> In p d) ->
        existsb (fun p => N.eqb (snd p) y && negb (is_deleted a d (fst p))) l = existsb (fun p => N.eqb (snd p) y && negb (is_deleted b d (fst p))) l) as G2.
      { induction l as [|[x2 t2] l IHl2]; intros Hin2; [reflexivity|]. cbn [existsb fst snd].
        rewrite IHl2 by (intros p Hp; apply Hin2; right; exact Hp). destruct (N.eqb t2 y) eqn:E2; [|reflexivity].
        apply N.eqb_eq in E2. subst t2. pose proof (Hr x2 y (Hin2 _ (or_introl eq_refl))). rewrite (IHa b x2); [reflexivity|lia|lia]. }
      apply G2. auto. }
    apply Stable; lia. }
  apply G. auto.
Qed.

(* ================= the faithful model does NOT satisfy the full statement ================= *)
Local Open Scope N_scope.
Definition w_set := {| c_ref := 1; c_signer := 1; c_date := 10%Z; c_kind := KSet; c_attr := 1; c_val := 1 |}.
Definition w_add := {| c_ref := 2; c_signer := 1; c_date := 20%Z; c_kind := KAdd; c_attr := 1; c_val := 2 |}.
Definition w_add_dup := {| c_ref := 3; c_signer := 1; c_date := 30%Z; c_kind := KAdd; c_attr := 1; c_val := 1 |}.

(* claim 2 deleted: the corpus paths still count it *)
Lemma corpus_ignores_deletions :
  exists pm, add_claims [w_set; w_add] = Some pm /\
  corpus_values pm None 0 1 <> attr_at [w_set; w_add] (fun r => N.eqb r 2) None 0 1.
Proof. eexists. split; [vm_compute; reflexivity|vm_compute; discriminate]. Qed.

(* describe de-duplicates a repeated value *)
Lemma describe_dedups :
  describe_values [w_set; w_add_dup] (fun _ => false) None 0 1 <> attr_at [w_set; w_add_dup] (fun _ => false) None 0 1.
Proof. vm_compute. discriminate. Qed.

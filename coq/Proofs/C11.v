From Coq Require Import List NArith Bool Lia Arith.
From PK.Model Require Import C11.
Import ListNotations.

(* ================= equality of symbolic ciphertexts ================= *)
Lemma ct_eqb_sound : forall a b, ct_eqb a b = true -> a = b.
Proof.
  fix IH 1. intros [p n|l n|j] [q m|k m|i]; cbn [ct_eqb]; try discriminate.
  - intros H. apply andb_true_iff in H as [H1 H2]. apply N.eqb_eq in H1, H2. subst; reflexivity.
  - intros H. apply andb_true_iff in H as [H1 H2]. apply N.eqb_eq in H1. subst m. f_equal.
    revert k H2. induction l as [|[p c] l IHl]; intros [|[q d] k]; try discriminate; [reflexivity|].
    intros H. apply andb_true_iff in H as [H H3]. apply andb_true_iff in H as [Hp Hc].
    apply N.eqb_eq in Hp. apply IH in Hc. subst. f_equal. apply IHl. exact H3.
  - intros H. apply N.eqb_eq in H. subst; reflexivity.
Qed.

Lemma ct_eqb_refl : forall a, ct_eqb a a = true.
Proof.
  fix IH 1. intros [p n|l n|j]; cbn [ct_eqb].
  - rewrite !N.eqb_refl. reflexivity.
  - rewrite N.eqb_refl. cbn [andb]. induction l as [|[p c] l IHl]; [reflexivity|]. rewrite N.eqb_refl, IH, IHl. reflexivity.
  - apply N.eqb_refl.
Qed.

Lemma ct_eqb_eq a b : ct_eqb a b = true <-> a = b.
Proof. split; [apply ct_eqb_sound|intros ->; apply ct_eqb_refl]. Qed.

(* ================= lookups ================= *)
Lemma ilookup_In p ix c : ilookup p ix = Some c -> In (p, c) ix.
Proof.
  unfold ilookup. destruct (find _ ix) as [e|] eqn:E; [|discriminate]. intros H. injection H as <-.
  apply find_some in E as [Hin Hp]. apply N.eqb_eq in Hp. destruct e as [q d]. cbn in *. subst. exact Hin.
Qed.

Lemma ilookup_iset p q c ix : ilookup p (iset q c ix) = if N.eqb q p then Some c else ilookup p ix.
Proof.
  unfold ilookup, iset. cbn [find fst]. destruct (N.eqb_spec q p) as [->|Hn]; [reflexivity|].
  induction ix as [|[r d] ix IH]; [reflexivity|]. cbn [filter fst find].
  destruct (N.eqb_spec r q) as [->|Hr]; cbn [negb find fst].
  - destruct (N.eqb_spec q p); [contradiction|]. exact IH.
  - destruct (N.eqb r p); [reflexivity|exact IH].
Qed.

Lemma slookup_In name s c : slookup name s = Some c -> In (name, c) s.
Proof.
  unfold slookup. destruct (find _ s) as [e|] eqn:E; [|discriminate]. intros H. injection H as <-.
  apply find_some in E as [Hin Hp]. apply ct_eqb_sound in Hp. destruct e as [q d]. cbn in *. subst. exact Hin.
Qed.

Lemma In_sput e c s : In e (sput c s) -> In e s \/ e = (c, c).
Proof. unfold sput. destruct (existsb _ s); [left; assumption|]. intros H. apply in_app_or in H as [H|[H|[]]]; [left; exact H|right; symmetry; exact H]. Qed.

Lemma In_tamper e name c s : In e (tamper name c s) -> In e s \/ (snd e = c /\ exists e0, In e0 s /\ fst e0 = fst e).
Proof.
  unfold tamper. intros H. apply in_map_iff in H as (e0 & E & Hin). destruct (ct_eqb (fst e0) name).
  - right. subst e. cbn. split; [reflexivity|]. exists e0. split; [exact Hin|reflexivity].
  - left. subst. exact Hin.
Qed.

(* ================= what record_meta leaves alone ================= *)
Section Params.
  Variable small_limit full_size : nat.
  Notation record_meta := (record_meta small_limit full_size).
  Notation step := (step small_limit full_size).
  Notation run := (run small_limit full_size).
  Notation fetch := (@fetch).

  Lemma record_meta_frame b s : blobs (record_meta b s) = blobs s /\ meta (record_meta b s) = meta s /\ index (record_meta b s) = index s /\
                                deletes (record_meta b s) = deletes s /\ nonce (record_meta b s) = nonce s.
  Proof.
    unfold C11.record_meta. destruct (Nat.ltb full_size _); [repeat split|].
    destruct (Nat.ltb small_limit _); [destruct (group full_size _ [] []) as [js back]|]; repeat split.
  Qed.

  (* ================= genuine lines: the index and every meta ciphertext only ever relate a blob to its own ciphertext ================= *)
  Definition genuine (pc : N * ct) : Prop := exists n, snd pc = CData (fst pc) n.
  Definition contents (s : st) : list ct := map snd (meta s ++ blobs s).
  Definition G (s : st) : Prop :=
    Forall genuine (index s) /\ (forall ls n, In (CMeta ls n) (contents s) -> Forall genuine ls).

  (* what an adversary without the key can store: junk, or a copy of some stored ciphertext *)
  Definition is_junk (c : ct) : bool := match c with CJunk _ => true | _ => false end.
  Definition adm (s : st) (o : op) : bool :=
    match o with
    | OTamperBlob _ c | OTamperMeta _ c => is_junk c || existsb (ct_eqb c) (contents s)
    | _ => true
    end.

  Lemma G_init : G init.
  Proof. split; [constructor|intros ls n []]. Qed.

  Lemma Forall_iset p c ix : genuine (p, c) -> Forall genuine ix -> Forall genuine (iset p c ix).
  Proof.
    intros H F. unfold iset. constructor; [exact H|]. rewrite Forall_forall in *. intros x Hx. apply filter_In in Hx as [Hx _]. apply F; exact Hx.
  Qed.

  Lemma lines_of_genuine ps ix ls : Forall genuine ix -> lines_of ps ix = Some ls -> Forall genuine ls.
  Proof.
    intros F. revert ls. induction ps as [|p r IH]; intros ls H; cbn [lines_of] in H; [injection H as <-; constructor|].
    destruct (ilookup p ix) as [c|] eqn:E; [|discriminate]. destruct (lines_of r ix) as [l|]; [|discriminate].
    injection H as <-. constructor; [|apply IH; reflexivity].
    rewrite Forall_forall in F. apply (F (p, c)). apply ilookup_In; exact E.
  Qed.

  Lemma contents_in s c : In c (contents s) <-> exists e, In e (meta s ++ blobs s) /\ snd e = c.
  Proof. unfold contents. rewrite in_map_iff. split; intros (e & A & B); exists e; auto. Qed.

  Lemma G_restart ms s s' : G s -> (forall e, In e ms -> In e (meta s)) -> restart_in small_limit full_size ms s = Some s' -> G s'.
  Proof.
    intros [Gi Gc] Hsub. unfold restart_in.
    set (s0 := {| blobs := blobs s; meta := meta s; index := []; heap := []; jobs := []; deletes := []; nonce := nonce s |}).
    assert (G0 : Forall genuine (index s0) /\ blobs s0 = blobs s /\ meta s0 = meta s) by (split; [constructor|split; reflexivity]).
    clearbody s0. revert s0 G0. induction ms as [|e ms IH]; intros s0 (F0 & B0 & M0) H; cbn [fold_left] in H.
    - injection H as <-. split; [exact F0|]. intros ls n Hin. apply (Gc ls n). unfold contents in *. rewrite B0, M0 in Hin. exact Hin.
    - cbn [process_meta] in H. destruct (snd e) as [|ls n|] eqn:Ee.
      + exfalso. clear -H. induction ms as [|x ms IHm]; cbn in H; [discriminate|apply IHm; exact H].
      + assert (Fl : Forall genuine ls).
        { apply (Gc ls n). apply contents_in. exists e. split; [apply in_or_app; left; apply Hsub; left; reflexivity|exact Ee]. }
        match type of H with fold_left _ _ (Some ?x) = _ => apply (IH (fun e0 h => Hsub e0 (or_intror h)) x) end; [|exact H].
        destruct (record_meta_frame {| mb_name := fst e; mb_plains := map fst ls |}
                    {| blobs := blobs s0; meta := meta s0; index := fold_left (fun ix l => iset (fst l) (snd l) ix) ls (index s0);
                       heap := heap s0; jobs := jobs s0; deletes := deletes s0; nonce := nonce s0 |}) as (A & B & C & _).
        rewrite A, B, C. cbn [blobs meta index]. split; [|split; assumption].
        clear -F0 Fl. revert F0. generalize (index s0). induction ls as [|[p c] ls IHl]; intros ix F0; cbn [fold_left]; [exact F0|].
        inversion Fl as [|? ? Hg Fl']; subst. apply IHl; [exact Fl'|]. apply Forall_iset; [exact Hg|exact F0].
      + exfalso. clear -H. induction ms as [|x ms IHm]; cbn in H; [discriminate|apply IHm; exact H].
  Qed.

  Lemma G_step s o s' : G s -> adm s o = true -> step s o = Some s' -> G s'.
  Proof.
    intros HG Ha H. pose proof HG as [Gi Gc]. destruct o as [p|am p| | |ok| |name c|name c]; cbn [C11.step] in H.
    - (* receive *) injection H as <-. unfold receive. destruct (ilookup p (index s)) eqn:E; [exact HG|].
      match goal with |- G {| blobs := blobs ?x; meta := _; index := _; heap := _; jobs := _; deletes := _; nonce := _ |} =>
        destruct x as [b m i h j d n] eqn:Ex end.
      match type of Ex with record_meta ?b ?s1 = _ => destruct (record_meta_frame b s1) as (A & B & C & _); rewrite Ex in A, B, C end.
      cbn [blobs meta index heap jobs deletes nonce] in *. subst b m i. split; cbn [index].
      + apply Forall_iset; [exists (nonce s); reflexivity|exact Gi].
      + intros ls k Hin. apply contents_in in Hin as (e & Hin & He). cbn [meta blobs] in Hin.
        apply in_app_or in Hin as [Hin|Hin]; apply In_sput in Hin as [Hin | ->].
        * apply (Gc ls k). apply contents_in. exists e. split; [apply in_or_app; left; exact Hin|exact He].
        * cbn in He. injection He as <- <-. constructor; [exists (nonce s); reflexivity|constructor].
        * apply (Gc ls k). apply contents_in. exists e. split; [apply in_or_app; right; exact Hin|exact He].
        * cbn in He. discriminate.
    - (* failed receive *) destruct (ilookup p (index s)); [injection H as <-; exact HG|]. destruct am; injection H as <-; [|exact HG].
      split; [exact Gi|]. intros l k Hin. apply (Gc l k). apply contents_in in Hin as (e & Hin & He). apply contents_in. cbn [meta blobs] in Hin.
      apply in_app_or in Hin as [Hin|Hin]; [exists e; split; [apply in_or_app; left; exact Hin|exact He]|].
      apply In_sput in Hin as [Hin | ->]; [exists e; split; [apply in_or_app; right; exact Hin|exact He]|cbn in He; discriminate].
    - (* job upload *) injection H as <-. unfold job_upload. destruct (jobs s) as [|j rest]; [exact HG|].
      destruct (lines_of (j_plains j) (index s)) as [ls|] eqn:El; [|split; assumption].
      assert (G1 : G {| blobs := blobs s; meta := sput (CMeta ls (nonce s)) (meta s); index := index s; heap := heap s; jobs := rest;
                        deletes := deletes s ++ [j_delete j]; nonce := nonce s + 1 |}).
      { split; [exact Gi|]. intros l k Hin. apply contents_in in Hin as (e & Hin & He). cbn [meta blobs] in Hin.
        apply in_app_or in Hin as [Hin|Hin].
        - apply In_sput in Hin as [Hin | ->].
          + apply (Gc l k). apply contents_in. exists e. split; [apply in_or_app; left; exact Hin|exact He].
          + cbn in He. injection He as <- <-. eapply lines_of_genuine; eassumption.
        - apply (Gc l k). apply contents_in. exists e. split; [apply in_or_app; right; exact Hin|exact He]. }
      destruct (Nat.ltb _ _); [|exact G1].
      match goal with |- G (record_meta ?b ?s1) => destruct (record_meta_frame b s1) as (A & B & C & _) end.
      destruct G1 as [G1i G1c]. split; [rewrite C; exact G1i|]. intros l k Hin. apply (G1c l k). unfold contents in *. rewrite A, B in Hin. exact Hin.
    - (* job abort *) injection H as <-. split; assumption.
    - (* job delete *) injection H as <-. unfold job_delete. destruct (deletes s) as [|d rest]; [exact HG|].
      split; [exact Gi|]. intros l k Hin. apply (Gc l k). apply contents_in in Hin as (e & Hin & He). apply contents_in. exists e. split; [|exact He].
      cbn [meta blobs] in Hin. apply in_app_or in Hin as [Hin|Hin]; apply in_or_app; [left|right; exact Hin].
      destruct ok; [|exact Hin]. unfold sremove in Hin. apply filter_In in Hin as [Hin _]. exact Hin.
    - (* restart *) eapply G_restart; [exact HG| |exact H]. intros e He; exact He.
    - (* tamper blobs *) injection H as <-. split; [exact Gi|]. intros l k Hin. apply contents_in in Hin as (e & Hin & He). cbn [meta blobs] in Hin.
      apply in_app_or in Hin as [Hin|Hin].
      + apply (Gc l k). apply contents_in. exists e. split; [apply in_or_app; left; exact Hin|exact He].
      + apply In_tamper in Hin as [Hin|(Hc & _)].
        * apply (Gc l k). apply contents_in. exists e. split; [apply in_or_app; right; exact Hin|exact He].
        * subst c. cbn [adm] in Ha. rewrite He in Ha. cbn [is_junk orb] in Ha. apply existsb_exists in Ha as (x & Hx & Ex). apply ct_eqb_sound in Ex. subst x.
          apply (Gc l k). exact Hx.
    - (* tamper meta *) injection H as <-. split; [exact Gi|]. intros l k Hin. apply contents_in in Hin as (e & Hin & He). cbn [meta blobs] in Hin.
      apply in_app_or in Hin as [Hin|Hin].
      + apply In_tamper in Hin as [Hin|(Hc & _)].
        * apply (Gc l k). apply contents_in. exists e. split; [apply in_or_app; left; exact Hin|exact He].
        * subst c. cbn [adm] in Ha. rewrite He in Ha. cbn [is_junk orb] in Ha. apply existsb_exists in Ha as (x & Hx & Ex). apply ct_eqb_sound in Ex. subst x.
          apply (Gc l k). exact Hx.
      + apply (Gc l k). apply contents_in. exists e. split; [apply in_or_app; right; exact Hin|exact He].
  Qed.

  (* a run in which the adversary only does what it can do without the key *)
  Fixpoint run_adm (s : st) (os : list op) : Prop :=
    match os with
    | [] => True
    | o :: r => adm s o = true /\ match step s o with Some s' => run_adm s' r | None => True end
    end.

  Lemma G_run : forall os s s', G s -> run_adm s os -> run s os = Some s' -> G s'.
  Proof.
    induction os as [|o r IH]; intros s s' HG Ha H; cbn [C11.run] in H; [injection H as <-; exact HG|].
    destruct Ha as [Ha Hr]. destruct (step s o) as [s1|] eqn:E; [|discriminate]. eapply IH; [eapply G_step; eassumption|exact Hr|exact H].
  Qed.

  (* Fetch after any history of receives, compactions, restarts and tampering: the original plaintext, or a failure *)
  Theorem fetch_exact_or_fail : forall os s p q, run_adm init os -> run init os = Some s -> fetch p s = FPlain q -> q = p.
  Proof.
    intros os s p q Ha Hr. pose proof (G_run os init s G_init Ha Hr) as [Gi _]. unfold C11.fetch.
    destruct (ilookup p (index s)) as [name|] eqn:E; [|discriminate].
    destruct (slookup name (blobs s)) as [c|]; [|discriminate]. destruct (ct_eqb c name) eqn:Ec; [|discriminate].
    apply ct_eqb_sound in Ec. subst c. apply ilookup_In in E. rewrite Forall_forall in Gi. destruct (Gi _ E) as [n Hn]. cbn in Hn. subst name.
    intros H. injection H as <-. reflexivity.
  Qed.
End Params.

(* ================= recoverability (no tampering) ================= *)
Definition lines_of_ct (c : ct) : list (N * ct) := match c with CMeta ls _ => ls | _ => [] end.
Definition nonce_of (c : ct) : N := match c with CData _ n | CMeta _ n => n | CJunk _ => 0%N end.
Definition covers (P : list N) (name : ct) : Prop := forall pc, In pc (lines_of_ct name) -> In (fst pc) P.
Definition honest (o : op) : bool := match o with OTamperBlob _ _ | OTamperMeta _ _ => false | _ => true end.

Lemma covers_mono P P' name : covers P name -> incl P P' -> covers P' name.
Proof. intros H I pc Hpc. apply I. apply H. exact Hpc. Qed.

Section Recover.
  Variable small_limit full_size : nat.
  Notation record_meta := (record_meta small_limit full_size).
  Notation step := (step small_limit full_size).
  Notation run := (run small_limit full_size).

  Definition fresh (s : st) (name : ct) : Prop := (nonce_of name < nonce s)%N.
  Definition cov (s : st) (b : mb) : Prop := covers (mb_plains b) (mb_name b) /\ fresh s (mb_name b).

  Record R (s : st) : Prop := {
    R1 : forall e, In e (meta s) -> fst e = snd e /\ exists ls n, snd e = CMeta ls n /\ (n < nonce s)%N;
    R3 : forall e, In e (meta s) -> forall pc, In pc (lines_of_ct (snd e)) -> ilookup (fst pc) (index s) = Some (snd pc);
    R2 : forall p c, ilookup p (index s) = Some c ->
           exists m, In (m, m) (meta s) /\ In (p, c) (lines_of_ct m) /\ forall d, In d (deletes s) -> ~ In m d;
    RH : forall b, In b (heap s) -> cov s b;
    RJ : forall j, In j (jobs s) -> forall name, In name (j_delete j) -> covers (j_plains j) name /\ fresh s name;
    RD : forall d, In d (deletes s) -> forall name, In name d -> fresh s name
  }.

  Lemma R_init : R init.
  Proof. constructor; cbn; intros; try contradiction; discriminate. Qed.

  Lemma In_insert_mb b' b l : In b' (insert_mb b l) <-> b' = b \/ In b' l.
  Proof.
    induction l as [|x r IH]; cbn [insert_mb]; [cbn; intuition|]. destruct (Nat.leb _ _); cbn [In]; [intuition|].
    rewrite IH. intuition.
  Qed.

  Lemma group_spec (P : ct -> Prop) : forall popped plains del js back,
    group full_size popped plains del = (js, back) ->
    (forall b, In b popped -> covers (mb_plains b) (mb_name b) /\ P (mb_name b)) ->
    (forall name, In name del -> covers plains name /\ P name) ->
    (forall j, In j js -> forall name, In name (j_delete j) -> covers (j_plains j) name /\ P name) /\
    (forall b, In b back -> covers (mb_plains b) (mb_name b) /\ P (mb_name b)).
  Proof.
    induction popped as [|m r IH]; intros plains del js back H Hp Hd; cbn [group] in H.
    - destruct del as [|one [|two rest]]; injection H as <- <-.
      + split; intros ? [].
      + split; [intros ? []|]. intros b [<-|[]]. cbn. apply Hd. left; reflexivity.
      + split; [|intros ? []]. intros j [<-|[]] name Hn. cbn in *. apply Hd. exact Hn.
    - assert (Hd' : forall name, In name (del ++ [mb_name m]) -> covers (plains ++ mb_plains m) name /\ P name).
      { intros name Hn. apply in_app_or in Hn as [Hn|[<-|[]]].
        - destruct (Hd name Hn) as [A B]. split; [|exact B]. eapply covers_mono; [exact A|apply incl_appl, incl_refl].
        - destruct (Hp m (or_introl eq_refl)) as [A B]. split; [|exact B]. eapply covers_mono; [exact A|apply incl_appr, incl_refl]. }
      destruct (Nat.ltb full_size (length (plains ++ mb_plains m))).
      + destruct (group full_size r [] []) as [js' back'] eqn:E. injection H as <- <-.
        destruct (IH [] [] js' back' E (fun b h => Hp b (or_intror h)) (fun name h => match h with end)) as [A B].
        split; [|exact B]. intros j [<-|Hj] name Hn; [cbn in *; apply Hd'; exact Hn|apply (A j Hj name Hn)].
      + apply (IH _ _ js back H (fun b h => Hp b (or_intror h)) Hd').
  Qed.

  (* the heap / job part of R, for states that differ in heap and jobs only *)
  Definition HJ (P : ct -> Prop) (h : list mb) (js : list job) : Prop :=
    (forall b, In b h -> covers (mb_plains b) (mb_name b) /\ P (mb_name b)) /\
    (forall j, In j js -> forall name, In name (j_delete j) -> covers (j_plains j) name /\ P name).

  Lemma record_meta_HJ (P : ct -> Prop) b s : HJ P (heap s) (jobs s) -> covers (mb_plains b) (mb_name b) /\ P (mb_name b) ->
    HJ P (heap (record_meta b s)) (jobs (record_meta b s)).
  Proof.
    intros [Hh Hj] Hb. unfold C11.record_meta. destruct (Nat.ltb full_size _); [split; assumption|].
    assert (Hins : forall b', In b' (insert_mb b (heap s)) -> covers (mb_plains b') (mb_name b') /\ P (mb_name b')).
    { intros b' Hb'. apply In_insert_mb in Hb' as [->|Hb']; [exact Hb|apply Hh; exact Hb']. }
    destruct (Nat.ltb small_limit _).
    - destruct (group full_size (insert_mb b (heap s)) [] []) as [js back] eqn:E.
      destruct (group_spec P _ _ _ _ _ E Hins (fun name h => match h with end)) as [A B]. cbn [heap jobs]. split; [exact B|].
      intros j Hin. apply in_app_or in Hin as [Hin|Hin]; [apply Hj; exact Hin|apply A; exact Hin].
    - cbn [heap jobs]. split; assumption.
  Qed.

  Lemma R_of_parts s :
    (forall e, In e (meta s) -> fst e = snd e /\ exists ls n, snd e = CMeta ls n /\ (n < nonce s)%N) ->
    (forall e, In e (meta s) -> forall pc, In pc (lines_of_ct (snd e)) -> ilookup (fst pc) (index s) = Some (snd pc)) ->
    (forall p c, ilookup p (index s) = Some c ->
           exists m, In (m, m) (meta s) /\ In (p, c) (lines_of_ct m) /\ forall d, In d (deletes s) -> ~ In m d) ->
    HJ (fresh s) (heap s) (jobs s) ->
    (forall d, In d (deletes s) -> forall name, In name d -> fresh s name) -> R s.
  Proof. intros A B C [D E] F. constructor; assumption. Qed.

  Lemma fresh_mono s s' name : (nonce s <= nonce s')%N -> fresh s name -> fresh s' name.
  Proof. unfold fresh. lia. Qed.

  Lemma HJ_mono (P Q : ct -> Prop) h js : (forall n, P n -> Q n) -> HJ P h js -> HJ Q h js.
  Proof.
    intros I [A B]. split; [intros b Hb; destruct (A b Hb); split; auto|intros j Hj name Hn; destruct (B j Hj name Hn); split; auto].
  Qed.

  Lemma lines_of_spec ps ix : forall ls, lines_of ps ix = Some ls ->
    map fst ls = ps /\ forall pc, In pc ls -> ilookup (fst pc) ix = Some (snd pc).
  Proof.
    induction ps as [|p r IH]; intros ls H; cbn [lines_of] in H; [injection H as <-; split; [reflexivity|intros ? []]|].
    destruct (ilookup p ix) as [c|] eqn:E; [|discriminate]. destruct (lines_of r ix) as [l|]; [|discriminate]. injection H as <-.
    destruct (IH l eq_refl) as [A B]. split; [cbn; f_equal; exact A|]. intros pc [<-|Hpc]; [exact E|apply B; exact Hpc].
  Qed.

  Lemma In_sput_same c s : (forall e, In e s -> fst e = snd e) -> In (c, c) (sput c s).
  Proof.
    intros H. unfold sput. destruct (existsb _ s) eqn:E; [|apply in_or_app; right; left; reflexivity].
    apply existsb_exists in E as (e & He & Ee). apply ct_eqb_sound in Ee. destruct e as [a b]. cbn in Ee. subst a.
    pose proof (H _ He) as X. cbn in X. subst b. exact He.
  Qed.

  Lemma In_sput_old e c s : In e s -> In e (sput c s).
  Proof. unfold sput. destruct (existsb _ s); [trivial|]. intros H. apply in_or_app; left; exact H. Qed.

  Lemma sremove_keeps m d s : In (m, m) s -> ~ In m d -> In (m, m) (sremove d s).
  Proof.
    intros H Hn. unfold sremove. apply filter_In. split; [exact H|]. cbn [fst]. apply negb_true_iff.
    destruct (existsb (ct_eqb m) d) eqn:E; [|reflexivity]. apply existsb_exists in E as (x & Hx & Ex). apply ct_eqb_sound in Ex. subst x. contradiction.
  Qed.

  (* ---------- restart: the index is rebuilt exactly, in whatever order the meta blobs are processed ---------- *)
  Lemma restart_rebuilds ms s : R s -> (forall e, In e ms <-> In e (meta s)) ->
    exists s', restart_in small_limit full_size ms s = Some s' /\ (forall p, ilookup p (index s') = ilookup p (index s)) /\
               meta s' = meta s /\ blobs s' = blobs s /\ deletes s' = [] /\ nonce s' = nonce s /\ HJ (fresh s) (heap s') (jobs s').
  Proof.
    intros HR Hsame. unfold restart_in.
    set (s0 := {| blobs := blobs s; meta := meta s; index := []; heap := []; jobs := []; deletes := []; nonce := nonce s |}).
    (* invariant of the fold: [done] = the meta blobs processed so far *)
    assert (Gen : forall todo done s0,
      (forall e, In e todo -> In e (meta s)) ->
      meta s0 = meta s /\ blobs s0 = blobs s /\ deletes s0 = [] /\ nonce s0 = nonce s /\ HJ (fresh s) (heap s0) (jobs s0) ->
      (forall p c, ilookup p (index s0) = Some c -> ilookup p (index s) = Some c) ->
      (forall e, In e done -> forall pc, In pc (lines_of_ct (snd e)) -> ilookup (fst pc) (index s0) = Some (snd pc)) ->
      exists s', fold_left (fun acc e => process_meta small_limit full_size e acc) todo (Some s0) = Some s' /\
        meta s' = meta s /\ blobs s' = blobs s /\ deletes s' = [] /\ nonce s' = nonce s /\ HJ (fresh s) (heap s') (jobs s') /\
        (forall p c, ilookup p (index s') = Some c -> ilookup p (index s) = Some c) /\
        (forall e, In e (done ++ todo) -> forall pc, In pc (lines_of_ct (snd e)) -> ilookup (fst pc) (index s') = Some (snd pc))).
    { induction todo as [|e todo IH]; intros done st0 Hsub (M & B & D & N & H) Hsound Hdone.
      - exists st0. cbn [fold_left]. rewrite app_nil_r. exact (conj eq_refl (conj M (conj B (conj D (conj N (conj H (conj Hsound Hdone))))))).
      - cbn [fold_left process_meta].
        destruct (R1 s HR e (Hsub e (or_introl eq_refl))) as (Efs & ls & n & Ec & Hn). rewrite Ec.
        set (ix := fold_left (fun ix l => iset (fst l) (snd l) ix) ls (index st0)).
        assert (Hls : forall pc, In pc ls -> ilookup (fst pc) (index s) = Some (snd pc)).
        { intros pc Hpc. apply (R3 s HR e (Hsub e (or_introl eq_refl))). rewrite Ec. exact Hpc. }
        assert (Hix : (forall p c, ilookup p ix = Some c -> ilookup p (index s) = Some c) /\
                      (forall p c, ilookup p (index st0) = Some c -> ilookup p ix = Some c) /\
                      (forall pc, In pc ls -> ilookup (fst pc) ix = Some (snd pc))).
        { subst ix. clear -Hls Hsound. revert Hsound. generalize (index st0). induction ls as [|[p c] ls IHl]; intros ix0 Hs; cbn [fold_left].
          - repeat split; [exact Hs|trivial|intros ? []].
          - assert (Hpc : ilookup p (index s) = Some c) by (apply (Hls (p, c)); left; reflexivity).
            destruct (IHl (fun pc h => Hls pc (or_intror h)) (iset p c ix0)) as (A & B & C).
            { intros q d. rewrite ilookup_iset. destruct (N.eqb_spec p q) as [<-|]; [intros X; injection X as <-; exact Hpc|apply Hs]. }
            split; [exact A|]. split.
            + intros q d Hq. apply B. rewrite ilookup_iset. destruct (N.eqb_spec p q) as [<-|]; [|exact Hq].
              f_equal. apply Hs in Hq. congruence.
            + intros pc [<-|Hin]; [|apply C; exact Hin]. cbn [fst snd]. apply B. rewrite ilookup_iset, N.eqb_refl. reflexivity. }
        destruct Hix as (X1 & X2 & X3).
        set (st1 := {| blobs := blobs st0; meta := meta st0; index := ix; heap := heap st0; jobs := jobs st0; deletes := deletes st0; nonce := nonce st0 |}).
        destruct (record_meta_frame small_limit full_size {| mb_name := fst e; mb_plains := map fst ls |} st1) as (F1 & F2 & F3 & F4 & F5).
        destruct (IH (done ++ [e]) (record_meta {| mb_name := fst e; mb_plains := map fst ls |} st1)) as (s' & Hf & A1 & A2 & A3 & A4 & A5 & A6 & A7).
        + intros e0 h. apply Hsub. right; exact h.
        + rewrite F1, F2, F4, F5. unfold st1. cbn [blobs meta deletes nonce].
          assert (Hcov : covers (mb_plains {| mb_name := fst e; mb_plains := map fst ls |}) (mb_name {| mb_name := fst e; mb_plains := map fst ls |}) /\
                         fresh s (mb_name {| mb_name := fst e; mb_plains := map fst ls |})).
          { cbn [mb_plains mb_name]. rewrite Efs, Ec. split; [intros pc Hpc; cbn in Hpc; apply in_map; exact Hpc|unfold fresh; cbn; exact Hn]. }
          exact (conj M (conj B (conj D (conj N (record_meta_HJ (fresh s) _ st1 H Hcov))))).
        + rewrite F3. unfold st1. cbn [index]. exact X1.
        + rewrite F3. unfold st1. cbn [index]. intros e0 He0 pc Hpc. apply in_app_or in He0 as [He0|[<-|[]]].
          * apply X2. apply (Hdone e0 He0 pc Hpc).
          * rewrite Ec in Hpc. cbn in Hpc. apply X3. exact Hpc.
        + exists s'. rewrite <- app_assoc in A7. exact (conj Hf (conj A1 (conj A2 (conj A3 (conj A4 (conj A5 (conj A6 A7))))))). }
    destruct (Gen ms [] s0) as (s' & Hf & A1 & A2 & A3 & A4 & A5 & A6 & A7).
    - intros e He. apply Hsame; exact He.
    - subst s0. cbn. refine (conj eq_refl (conj eq_refl (conj eq_refl (conj eq_refl (conj _ _))))); intros ? [].
    - subst s0. cbn. intros p c X. discriminate.
    - intros ? [].
    - exists s'. split; [exact Hf|]. refine (conj _ (conj A1 (conj A2 (conj A3 (conj A4 A5))))).
      intros p. destruct (ilookup p (index s)) as [c|] eqn:E.
      + destruct (R2 s HR p c E) as (m & Hm & Hl & _). apply (A7 (m, m) (proj2 (Hsame (m, m)) Hm) (p, c)). exact Hl.
      + destruct (ilookup p (index s')) as [c|] eqn:E'; [|reflexivity]. apply A6 in E'. congruence.
  Qed.

  Lemma ct_in_dec (m : ct) (d : list ct) : {In m d} + {~ In m d}.
  Proof.
    destruct (existsb (ct_eqb m) d) eqn:E; [left|right].
    - apply existsb_exists in E as (x & Hx & Ex). apply ct_eqb_sound in Ex. subst x. exact Hx.
    - intros H. assert (existsb (ct_eqb m) d = true); [|congruence]. apply existsb_exists. exists m. split; [exact H|apply ct_eqb_refl].
  Qed.

  Lemma fresh_not_in s (m : ct) (d : list ct) : (forall name, In name d -> fresh s name) -> (nonce s <= nonce_of m)%N -> ~ In m d.
  Proof. intros H Hn Hin. specialize (H m Hin). unfold fresh in H. lia. Qed.

  Lemma R_receive s p : R s -> R (receive small_limit full_size p s).
  Proof.
    intros HR. unfold receive. destruct (ilookup p (index s)) eqn:E; [exact HR|].
    set (c := CData p (nonce s)). set (m := CMeta [(p, c)] (nonce s + 1)).
    set (s1 := {| blobs := sput c (blobs s); meta := sput m (meta s); index := index s; heap := heap s; jobs := jobs s; deletes := deletes s; nonce := nonce s + 2 |}).
    set (b := {| mb_name := m; mb_plains := [p] |}).
    destruct (record_meta_frame small_limit full_size b s1) as (F1 & F2 & F3 & F4 & F5).
    assert (Hmono : forall name, fresh s name -> fresh s1 name) by (intros name; unfold fresh, s1; cbn; lia).
    assert (HHJ : HJ (fresh s1) (heap (record_meta b s1)) (jobs (record_meta b s1))).
    { apply record_meta_HJ.
      - apply (HJ_mono (fresh s)); [exact Hmono|]. split; [apply (RH s HR)|apply (RJ s HR)].
      - split; [intros pc [<-|[]]; left; reflexivity|unfold fresh, b, m, s1; cbn; lia]. }
    assert (Hfs : forall e, In e (meta s) -> fst e = snd e) by (intros e He; apply (R1 s HR e He)).
    apply R_of_parts; cbn [blobs meta index heap jobs deletes nonce]; rewrite ?F2, ?F3, ?F4, ?F5; unfold s1; cbn [blobs meta index heap jobs deletes nonce].
    - intros e He. apply In_sput in He as [He| ->].
      + destruct (R1 s HR e He) as (A & ls & n & B & C). split; [exact A|]. exists ls, n. split; [exact B|lia].
      + split; [reflexivity|]. exists [(p, c)], (nonce s + 1)%N. split; [reflexivity|lia].
    - intros e He pc Hpc. rewrite ilookup_iset. apply In_sput in He as [He| ->].
      + pose proof (R3 s HR e He pc Hpc) as X. destruct (N.eqb_spec p (fst pc)) as [Ep|]; [rewrite <- Ep in X; congruence|exact X].
      + cbn in Hpc. destruct Hpc as [<-|[]]. cbn. rewrite N.eqb_refl. reflexivity.
    - intros q d. rewrite ilookup_iset. destruct (N.eqb_spec p q) as [<-|Hn].
      + intros X. injection X as <-. exists m. split; [apply In_sput_same; exact Hfs|]. split; [left; reflexivity|].
        intros dl Hdl. apply (fresh_not_in s); [apply (RD s HR dl Hdl)|unfold m; cbn; lia].
      + intros X. destruct (R2 s HR q d X) as (m0 & A & B & C). exists m0. split; [apply In_sput_old; exact A|]. split; [exact B|exact C].
    - apply (HJ_mono (fresh s1)); [|exact HHJ]. intros name. unfold fresh. rewrite ?F5. unfold s1. cbn [nonce]. trivial.
    - intros dl Hdl name Hn. pose proof (RD s HR dl Hdl name Hn) as X. unfold fresh in *. cbn. lia.
  Qed.

  Lemma R_job_upload s : R s -> R (job_upload small_limit full_size s).
  Proof.
    intros HR. unfold job_upload. destruct (jobs s) as [|j rest] eqn:Ej; [exact HR|].
    assert (Hrest : forall j', In j' rest -> In j' (jobs s)) by (intros j' h; rewrite Ej; right; exact h).
    assert (Hj : In j (jobs s)) by (rewrite Ej; left; reflexivity).
    destruct (lines_of (j_plains j) (index s)) as [ls|] eqn:El.
    2:{ apply R_of_parts; cbn [blobs meta index heap jobs deletes nonce]; try apply HR.
        split; [apply (RH s HR)|intros j' h; apply (RJ s HR j' (Hrest j' h))]. }
    destruct (lines_of_spec _ _ _ El) as [Lm Ll].
    set (m := CMeta ls (nonce s)).
    set (s1 := {| blobs := blobs s; meta := sput m (meta s); index := index s; heap := heap s; jobs := rest; deletes := deletes s ++ [j_delete j]; nonce := nonce s + 1 |}).
    assert (Hmono : forall name, fresh s name -> fresh s1 name) by (intros name; unfold fresh, s1; cbn; lia).
    assert (Hfs : forall e, In e (meta s) -> fst e = snd e) by (intros e He; apply (R1 s HR e He)).
    assert (R1s : R s1).
    { apply R_of_parts; unfold s1; cbn [blobs meta index heap jobs deletes nonce].
      - intros e He. apply In_sput in He as [He| ->].
        + destruct (R1 s HR e He) as (A & l & n & B & C). split; [exact A|]. exists l, n. split; [exact B|lia].
        + split; [reflexivity|]. exists ls, (nonce s). split; [reflexivity|lia].
      - intros e He pc Hpc. apply In_sput in He as [He| ->]; [apply (R3 s HR e He pc Hpc)|]. cbn in Hpc. apply Ll; exact Hpc.
      - intros p c X. destruct (R2 s HR p c X) as (m0 & A & B & C).
        destruct (ct_in_dec m0 (j_delete j)) as [Hin|Hnin].
        + exists m. split; [apply In_sput_same; exact Hfs|]. split.
          * destruct (RJ s HR j Hj m0 Hin) as [Hc _]. specialize (Hc (p, c) B). cbn in Hc. rewrite <- Lm in Hc.
            apply in_map_iff in Hc as ([p' c'] & Ep & Hpc). cbn in Ep. subst p'. pose proof (Ll _ Hpc) as Y. cbn in Y. cbn [lines_of_ct m].
            assert (c' = c) by congruence. subst c'. exact Hpc.
          * intros dl Hdl. apply in_app_or in Hdl as [Hdl|[<-|[]]].
            -- apply (fresh_not_in s); [apply (RD s HR dl Hdl)|cbn; lia].
            -- apply (fresh_not_in s); [intros name Hn; apply (RJ s HR j Hj name Hn)|cbn; lia].
        + exists m0. split; [apply In_sput_old; exact A|]. split; [exact B|]. intros dl Hdl. apply in_app_or in Hdl as [Hdl|[<-|[]]]; [apply C; exact Hdl|exact Hnin].
      - apply (HJ_mono (fresh s)); [exact Hmono|]. split; [apply (RH s HR)|intros j' h; apply (RJ s HR j' (Hrest j' h))].
      - intros dl Hdl name Hn. apply Hmono. apply in_app_or in Hdl as [Hdl|[<-|[]]]; [apply (RD s HR dl Hdl name Hn)|apply (RJ s HR j Hj name Hn)]. }
    destruct (Nat.ltb _ _); [|exact R1s].
    set (b := {| mb_name := m; mb_plains := j_plains j |}).
    destruct (record_meta_frame small_limit full_size b s1) as (F1 & F2 & F3 & F4 & F5).
    apply R_of_parts; rewrite ?F2, ?F3, ?F4, ?F5; try apply R1s.
    - apply (HJ_mono (fresh s1)); [intros name; unfold fresh; rewrite F5; trivial|]. apply record_meta_HJ; [split; [apply (RH s1 R1s)|apply (RJ s1 R1s)]|].
      split; [|unfold fresh, b, m, s1; cbn; lia]. intros pc Hpc. cbn in Hpc |- *. rewrite <- Lm. apply in_map. exact Hpc.
    - intros d Hd name Hn. unfold fresh. rewrite F5. apply (RD s1 R1s d Hd name Hn).
  Qed.

  Lemma R_step s o s' : R s -> honest o = true -> step s o = Some s' -> R s'.
  Proof.
    intros HR Ho H. destruct o as [p|am p| | |ok| |name c|name c]; try discriminate; cbn [C11.step] in H.
    - injection H as <-. apply R_receive; exact HR.
    - destruct (ilookup p (index s)); [injection H as <-; exact HR|]. destruct am; injection H as <-; [|exact HR].
      assert (Hm : forall name, fresh s name -> (nonce_of name < nonce s + 2)%N) by (intros name; unfold fresh; lia).
      apply R_of_parts; cbn [blobs meta index heap jobs deletes nonce].
      + intros e He. destruct (R1 s HR e He) as (A & ls & n & B & C). split; [exact A|]. exists ls, n. split; [exact B|lia].
      + apply (R3 s HR).
      + apply (R2 s HR).
      + apply (HJ_mono (fresh s)); [intros name X; unfold fresh; cbn; apply Hm; exact X|]. split; [apply (RH s HR)|apply (RJ s HR)].
      + intros d Hd name Hn. unfold fresh. cbn. apply Hm. apply (RD s HR d Hd name Hn).
    - injection H as <-. apply R_job_upload; exact HR.
    - injection H as <-. apply R_of_parts; cbn [blobs meta index heap jobs deletes nonce]; try apply HR.
      split; [apply (RH s HR)|]. intros j Hj. apply (RJ s HR j). destruct (jobs s); [destruct Hj|right; exact Hj].
    - injection H as <-. unfold job_delete. destruct (deletes s) as [|d rest] eqn:Ed; [exact HR|].
      assert (Hd : In d (deletes s)) by (rewrite Ed; left; reflexivity).
      assert (Hrest : forall d', In d' rest -> In d' (deletes s)) by (intros d' h; rewrite Ed; right; exact h).
      assert (Hsub : forall e, In e (if ok then sremove d (meta s) else meta s) -> In e (meta s)).
      { intros e He. destruct ok; [apply filter_In in He as [He _]|]; exact He. }
      apply R_of_parts; cbn [blobs meta index heap jobs deletes nonce].
      + intros e He. apply (R1 s HR e (Hsub e He)).
      + intros e He. apply (R3 s HR e (Hsub e He)).
      + intros p c X. destruct (R2 s HR p c X) as (m & A & B & C). exists m. split; [|split; [exact B|intros d' h; apply C, Hrest, h]].
        destruct ok; [apply sremove_keeps; [exact A|apply C; exact Hd]|exact A].
      + split; [apply (RH s HR)|apply (RJ s HR)].
      + intros d' h. apply (RD s HR d' (Hrest d' h)).
    - destruct (restart_rebuilds (meta s) s HR (fun e => conj (fun h => h) (fun h => h))) as (s1 & Hr & Hi & Hm & Hb & Hd & Hn & HH).
      unfold restart in H. rewrite Hr in H. injection H as <-.
      apply R_of_parts; rewrite ?Hm, ?Hd, ?Hn.
      + intros e He. destruct (R1 s HR e He) as (A & ls & n & B & C). split; [exact A|]. exists ls, n. split; [exact B|exact C].
      + intros e He pc Hpc. rewrite Hi. apply (R3 s HR e He pc Hpc).
      + intros p c X. rewrite Hi in X. destruct (R2 s HR p c X) as (m & A & B & _). exists m. split; [exact A|]. split; [exact B|intros ? []].
      + apply (HJ_mono (fresh s)); [intros name; unfold fresh; rewrite Hn; trivial|exact HH].
      + intros ? [].
  Qed.

  Lemma R_run : forall os s s', R s -> forallb honest os = true -> run s os = Some s' -> R s'.
  Proof.
    induction os as [|o r IH]; intros s s' HR Hh H; cbn [C11.run] in H; [injection H as <-; exact HR|].
    cbn [forallb] in Hh. apply andb_true_iff in Hh as [Ho Hr]. destruct (step s o) as [s1|] eqn:E; [|discriminate].
    eapply IH; [eapply R_step; eassumption|exact Hr|exact H].
  Qed.

  (* after any history of receives, compactions (upload before removal, removal possibly failing, goroutines giving up)
     and restarts, a start-up with an empty meta index — processing the meta blobs in any order — succeeds and rebuilds
     exactly the index *)
  Theorem recoverable : forall os s ms, forallb honest os = true -> run init os = Some s -> (forall e, In e ms <-> In e (meta s)) ->
    exists s', restart_in small_limit full_size ms s = Some s' /\ forall p, ilookup p (index s') = ilookup p (index s).
  Proof.
    intros os s ms Hh Hr Hms. pose proof (R_run os init s R_init Hh Hr) as HR.
    destruct (restart_rebuilds ms s HR Hms) as (s' & A & B & _). exists s'. split; assumption.
  Qed.

  (* an honest start-up never fails in the middle of a history either *)
  Theorem honest_runs_never_fail : forall os s, forallb honest os = true -> run init os = Some s -> forall o, honest o = true -> step s o <> None.
  Proof.
    intros os s Hh Hr o Ho. pose proof (R_run os init s R_init Hh Hr) as HR.
    destruct o as [p|am p| | |ok| |name c|name c]; cbn [C11.step]; try discriminate.
    - destruct (ilookup p (index s)); [discriminate|destruct am; discriminate].
    - destruct (restart_rebuilds (meta s) s HR (fun e => conj (fun h => h) (fun h => h))) as (s1 & A & _). unfold restart. rewrite A. discriminate.
  Qed.
End Recover.

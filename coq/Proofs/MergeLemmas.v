From Coq Require Import List NArith Bool Lia Sorted Arith.
From PK.Base Require Import Bytes Lex SortedMap.
From PK.Model Require Import Merge.
From PK.Proofs Require Import BytesLemmas SortedMapLemmas.
Import ListNotations.

Definition above (last : option bytes) (l : smap) : smap := filter (fun p => negb (too_low last (fst p))) l.

Lemma filter_all {A} (p : A -> bool) l : Forall (fun x => p x = true) l -> filter p l = l.
Proof. induction 1 as [|x l H _ IH]; cbn; [reflexivity|]. rewrite H, IH. reflexivity. Qed.

Lemma above_none l : above None l = l.
Proof. apply filter_all. apply Forall_forall. intros; reflexivity. Qed.

Lemma drop_low_above last l : ssorted l -> drop_low last l = above last l.
Proof.
  induction 1 as [|[k v] l Hs IH Hf]; [reflexivity|]. cbn [drop_low above filter fst].
  destruct (too_low last k) eqn:E; cbn [negb]; [exact IH|].
  f_equal. symmetry. apply filter_all. eapply Forall_impl; [|exact Hf].
  intros [k' v'] Hk. unfold klt in Hk. cbn in Hk. cbn [fst]. destruct last as [x|]; [|reflexivity].
  cbn in *. unfold leb in *. apply negb_false_iff in E. rewrite (ltb_trans _ _ _ E Hk). reflexivity.
Qed.

Lemma union_sorted rs : Forall ssorted rs -> ssorted (union rs).
Proof. induction 1 as [|r rs H _ IH]; cbn; [constructor|apply merge_sorted; assumption]. Qed.

Lemma hd_merge a b : hd_error (merge a b) =
  match a, b with
  | [], _ => hd_error b
  | _, [] => hd_error a
  | (k1, v1) :: _, (k2, v2) :: _ => if ltb k1 k2 then Some (k1, v1) else if ltb k2 k1 then Some (k2, v2) else Some (k1, v1)
  end.
Proof.
  destruct a as [|[k1 v1] r1]; [rewrite merge_nil_l; reflexivity|].
  destruct b as [|[k2 v2] r2]; [rewrite merge_nil_r; reflexivity|].
  rewrite merge_cons. destruct (ltb k1 k2); [reflexivity|]. destruct (ltb k2 k1); reflexivity.
Qed.

Lemma pick_union rs : pick rs = hd_error (union rs).
Proof.
  induction rs as [|r rs IH]; [reflexivity|]. cbn [pick union fold_right]. fold (union rs). rewrite IH, hd_merge.
  destruct r as [|[k1 v1] r1]; [reflexivity|]. destruct (union rs) as [|[k2 v2] u]; [reflexivity|].
  cbn [hd_error fst]. destruct (ltb k2 k1) eqn:E2.
  - rewrite (ltb_asym _ _ E2). reflexivity.
  - destruct (ltb k1 k2); reflexivity.
Qed.

Lemma filter_merge (p : bytes -> bool) a b : ssorted a -> ssorted b ->
  filter (fun x => p (fst x)) (merge a b) = merge (filter (fun x => p (fst x)) a) (filter (fun x => p (fst x)) b).
Proof.
  intros Ha Hb. apply sorted_ext.
  - apply filter_sorted, merge_sorted; assumption.
  - apply merge_sorted; apply filter_sorted; assumption.
  - intros k. rewrite lookup_filter, !lookup_merge, !lookup_filter by (try apply filter_sorted; assumption).
    destruct (p k); reflexivity.
Qed.

Lemma filter_union (p : bytes -> bool) rs : Forall ssorted rs ->
  filter (fun x => p (fst x)) (union rs) = union (map (filter (fun x => p (fst x))) rs).
Proof.
  induction 1 as [|r rs H Hs IH]; [reflexivity|]. cbn [union fold_right map]. fold (union rs). fold (union (map (filter (fun x => p (fst x))) rs)).
  rewrite filter_merge by (try apply union_sorted; assumption). rewrite IH. reflexivity.
Qed.

Lemma above_union last rs : Forall ssorted rs -> above last (union rs) = union (map (above last) rs).
Proof. apply (filter_union (fun k => negb (too_low last k))). Qed.

Lemma after_union c rs : Forall ssorted rs -> after c (union rs) = union (map (after c) rs).
Proof. apply (filter_union (fun k => ltb c k)). Qed.

Lemma above_head h t : ssorted (h :: t) -> above (Some (fst h)) (h :: t) = t.
Proof.
  intros H. apply ssorted_inv in H as [_ Hf]. unfold above. cbn [filter too_low]. rewrite leb_refl. cbn [negb].
  apply filter_all. eapply Forall_impl; [|exact Hf]. intros x Hx. unfold klt in Hx. unfold leb. rewrite Hx. reflexivity.
Qed.

Lemma map_above_sorted last rs : Forall ssorted rs -> Forall ssorted (map (above last) rs).
Proof. intros H. apply Forall_map. eapply Forall_impl; [|exact H]. intros l Hl. apply filter_sorted. exact Hl. Qed.

Lemma map_drop_low last rs : Forall ssorted rs -> map (drop_low last) rs = map (above last) rs.
Proof. induction 1 as [|r rs H _ IH]; [reflexivity|]. cbn. rewrite IH, drop_low_above by exact H. reflexivity. Qed.

Lemma menum_spec : forall n rs last, Forall ssorted rs -> menum n rs last = firstn n (above last (union rs)).
Proof.
  induction n as [|n IH]; intros rs last H; [reflexivity|].
  cbn [menum]. rewrite map_drop_low by exact H. rewrite pick_union.
  rewrite above_union by exact H.
  assert (Hs : ssorted (union (map (above last) rs))) by (apply union_sorted, map_above_sorted; exact H).
  destruct (union (map (above last) rs)) as [|h t] eqn:E; [reflexivity|]. cbn [hd_error firstn]. f_equal.
  rewrite IH by (apply map_above_sorted; exact H). rewrite E. rewrite above_head by exact Hs. reflexivity.
Qed.

(* cutting every source to n entries does not change the first n entries of the union *)
Lemma firstn_firstn_same {A} n (l : list A) : firstn n (firstn n l) = firstn n l.
Proof. rewrite firstn_firstn, Nat.min_id. reflexivity. Qed.

Lemma In_firstn_in {A} n (l : list A) x : In x (firstn n l) -> In x l.
Proof. revert l. induction n as [|n IH]; intros [|y l] H; cbn in *; try contradiction. destruct H as [H|H]; [left; exact H|right; apply IH; exact H]. Qed.

Lemma firstn_S_inv {A} n (a a' : list A) : firstn (S n) a = firstn (S n) a' ->
  (a = [] /\ a' = []) \/ (exists x r r', a = x :: r /\ a' = x :: r' /\ firstn n r = firstn n r').
Proof.
  destruct a as [|x r]; destruct a' as [|x' r']; cbn; intros H; try discriminate; [left; auto|].
  injection H as Hx H. subst x'. right. exists x, r, r'. split; [reflexivity|]. split; [reflexivity|exact H].
Qed.

Lemma firstn_weaken {A} n (a a' : list A) : firstn (S n) a = firstn (S n) a' -> firstn n a = firstn n a'.
Proof.
  revert a a'. induction n as [|n IH]; intros a a' H; [reflexivity|].
  apply firstn_S_inv in H as [[-> ->]|(x & r & r' & -> & -> & H)]; [reflexivity|]. cbn [firstn]. f_equal. apply IH. exact H.
Qed.

Lemma firstn_merge_cong : forall n a a' b b', firstn n a = firstn n a' -> firstn n b = firstn n b' ->
  firstn n (merge a b) = firstn n (merge a' b').
Proof.
  induction n as [|n IH]; intros a a' b b' Ha Hb; [reflexivity|].
  pose proof (firstn_weaken _ _ _ Ha) as Ha0. pose proof (firstn_weaken _ _ _ Hb) as Hb0.
  apply firstn_S_inv in Ha as [[-> ->]|(x & r & r' & -> & -> & Ha)].
  - rewrite !merge_nil_l. exact Hb.
  - apply firstn_S_inv in Hb as [[-> ->]|(y & s & s' & -> & -> & Hb)].
    + rewrite !merge_nil_r. cbn [firstn]. f_equal. exact Ha.
    + destruct x as [k1 v1], y as [k2 v2]. rewrite !merge_cons. destruct (ltb k1 k2).
      * cbn [firstn]. f_equal. apply IH; [exact Ha|exact Hb0].
      * destruct (ltb k2 k1); cbn [firstn]; f_equal; apply IH; assumption.
Qed.

Lemma firstn_union_cut n rs : firstn n (union (map (firstn n) rs)) = firstn n (union rs).
Proof.
  induction rs as [|r rs IH]; [reflexivity|]. cbn [map union fold_right].
  apply firstn_merge_cong; [apply firstn_firstn_same|exact IH].
Qed.

Lemma firstn_sorted n l : ssorted l -> ssorted (firstn n l).
Proof.
  revert l. induction n as [|n IH]; intros l H; [constructor|]. destruct l as [|x l]; [constructor|].
  apply ssorted_inv in H as [Hs Hf]. cbn [firstn]. constructor; [apply IH; exact Hs|].
  apply Forall_forall. intros y Hy. rewrite Forall_forall in Hf. apply Hf. eapply (In_firstn_in n). exact Hy.
Qed.

(* mergedEnumerate over sources that each return at most [limit] entries after the cursor
   = the first [limit] entries after the cursor of the sorted union, every ref once *)
Theorem merged_enumerate_exact srcs cursor limit : Forall ssorted srcs ->
  merged_enumerate srcs cursor limit = firstn limit (after cursor (union srcs)).
Proof.
  intros H. unfold merged_enumerate.
  rewrite menum_spec.
  2:{ apply Forall_map. eapply Forall_impl; [|exact H]. intros l Hl. apply firstn_sorted, filter_sorted. exact Hl. }
  rewrite above_none. rewrite <- (map_map (after cursor) (firstn limit)). rewrite firstn_union_cut.
  rewrite after_union by exact H. reflexivity.
Qed.

From Coq Require Import List NArith Bool Lia Arith Permutation.
From PK.Base Require Import Bytes Lex SortedMap.
From PK.Model Require Import Merge C12.
From PK.Proofs Require Import BytesLemmas SortedMapLemmas MergeLemmas.
Import ListNotations.
Local Open Scope N_scope.

Lemma count_good_cons size r l : count_good size (r :: l) = ((if good size r then 1 else 0) + count_good size l)%nat.
Proof. unfold count_good. cbn [filter]. destruct (good size r); reflexivity. Qed.

(* the loop invariant, one fact at a time *)
Lemma tally_ack_size minw size : forall l ns err sz, tally minw size ns err l = Ack sz -> sz = size.
Proof.
  induction l as [|r l IH]; intros ns err sz H; cbn [tally] in H.
  - destruct err; discriminate.
  - destruct r as [|s]; [eapply IH; exact H|]. destruct (s =? size) eqn:Es; [|eapply IH; exact H].
    destruct (Nat.eqb (S ns) minw); [|eapply IH; exact H]. injection H as <-. apply N.eqb_eq. exact Es.
Qed.

Lemma tally_ack_iff minw size : forall l ns err, (ns < minw)%nat ->
  ((exists sz, tally minw size ns err l = Ack sz) <-> (minw <= ns + count_good size l)%nat).
Proof.
  induction l as [|r l IH]; intros ns err Hns.
  - cbn [tally]. unfold count_good. cbn. split; [intros [sz H]; destruct err; discriminate|lia].
  - rewrite count_good_cons. destruct r as [|s]; cbn [tally good].
    + rewrite IH by exact Hns. lia.
    + destruct (s =? size) eqn:Es.
      * destruct (Nat.eqb (S ns) minw) eqn:Em.
        -- apply Nat.eqb_eq in Em. split; [lia|intros _; eexists; reflexivity].
        -- apply Nat.eqb_neq in Em. rewrite IH by lia. lia.
      * rewrite IH by exact Hns. lia.
Qed.

Lemma tally_nilzero minw size : forall l ns err, tally minw size ns err l = NilZero ->
  err = false /\ count_good size l = length l.
Proof.
  induction l as [|r l IH]; intros ns err H; cbn [tally] in H.
  - destruct err; [discriminate|]. split; reflexivity.
  - rewrite count_good_cons. destruct r as [|s]; cbn [good].
    + apply IH in H as [X _]. discriminate.
    + destruct (s =? size) eqn:Es.
      * destruct (Nat.eqb (S ns) minw); [discriminate|]. apply IH in H as [X Y]. cbn [length]. split; [exact X|lia].
      * apply IH in H as [X _]. discriminate.
Qed.

Lemma tally_prefix minw size : forall l ns err sz, (ns < minw)%nat -> tally minw size ns err l = Ack sz ->
  exists p q, l = p ++ q /\ (ns + count_good size p = minw)%nat.
Proof.
  induction l as [|r l IH]; intros ns err sz Hns H; cbn [tally] in H.
  - destruct err; discriminate.
  - destruct r as [|s].
    + destruct (IH _ _ _ Hns H) as (p & q & -> & E). exists (RErr :: p), q. split; [reflexivity|].
      rewrite count_good_cons. cbn [good]. lia.
    + destruct (s =? size) eqn:Es.
      * destruct (Nat.eqb (S ns) minw) eqn:Em.
        -- apply Nat.eqb_eq in Em. exists [ROk s], l. split; [reflexivity|]. rewrite count_good_cons. cbn [good].
           rewrite Es. unfold count_good. cbn. lia.
        -- apply Nat.eqb_neq in Em. destruct (IH (S ns) err sz ltac:(lia) H) as (p & q & -> & E).
           exists (ROk s :: p), q. split; [reflexivity|]. rewrite count_good_cons. cbn [good]. rewrite Es. lia.
      * destruct (IH _ _ _ Hns H) as (p & q & -> & E). exists (ROk s :: p), q. split; [reflexivity|].
        rewrite count_good_cons. cbn [good]. rewrite Es. lia.
Qed.

Lemma count_good_le size l : (count_good size l <= length l)%nat.
Proof. unfold count_good. induction l as [|x l IH]; cbn; [lia|]. destruct (good size x); cbn; lia. Qed.

Lemma count_good_perm size l l' : Permutation l l' -> count_good size l = count_good size l'.
Proof.
  intros H. unfold count_good. induction H as [|x l l' H IH|x y l|l l' l'' H1 IH1 H2 IH2]; cbn [filter].
  - reflexivity.
  - destruct (good size x); cbn [length]; rewrite IH; reflexivity.
  - destruct (good size x), (good size y); reflexivity.
  - rewrite IH1. exact IH2.
Qed.

Theorem ack_iff_quorum minw size arrivals : (1 <= minw)%nat -> (minw <= length arrivals)%nat ->
  ((exists sz, receive_tally minw size arrivals = Ack sz) <-> (minw <= count_good size arrivals)%nat) /\
  (receive_tally minw size arrivals = Fail <-> (count_good size arrivals < minw)%nat) /\
  (forall sz, receive_tally minw size arrivals = Ack sz -> sz = size /\
     exists p q, arrivals = p ++ q /\ count_good size p = minw).
Proof.
  intros H1 H2. unfold receive_tally.
  pose proof (tally_ack_iff minw size arrivals 0%nat false ltac:(lia)) as B. cbn [Nat.add] in B.
  split; [exact B|]. split.
  - split.
    + intros HF. destruct (le_lt_dec minw (count_good size arrivals)) as [Hge|Hlt]; [|exact Hlt].
      apply B in Hge as [sz Hsz]. congruence.
    + intros Hlt. destruct (tally minw size 0 false arrivals) as [sz| |] eqn:E.
      * assert (minw <= count_good size arrivals)%nat by (apply B; eexists; reflexivity). lia.
      * reflexivity.
      * apply tally_nilzero in E as [_ X]. lia.
  - intros sz H. split; [exact (tally_ack_size _ _ _ _ _ _ H)|].
    destruct (tally_prefix minw size arrivals 0%nat false sz ltac:(lia) H) as (p & q & Hl & E). exists p, q. split; assumption.
Qed.

Theorem ack_order_independent minw size a a' : (1 <= minw)%nat -> (minw <= length a)%nat -> Permutation a a' ->
  ((exists sz, receive_tally minw size a = Ack sz) <-> (exists sz, receive_tally minw size a' = Ack sz)).
Proof.
  intros H1 H2 P. pose proof (Permutation_length P) as L.
  destruct (ack_iff_quorum minw size a H1 H2) as (A & _). destruct (ack_iff_quorum minw size a' H1 ltac:(lia)) as (A' & _).
  rewrite A, A', (count_good_perm size a a' P). tauto.
Qed.

(* fetch *)
Theorem fetch_survives answers : (fetch_first answers <> None <-> exists b, In (Some b) answers) /\
  (forall b, fetch_first answers = Some b -> In (Some b) answers).
Proof.
  induction answers as [|[b|] r [IH1 IH2]]; cbn.
  - split; [split; [intros H; contradiction|intros [b []]]|discriminate].
  - split; [split; [intros _; exists b; left; reflexivity|discriminate]|intros b' [= <-]; left; reflexivity].
  - split.
    + rewrite IH1. split; intros [b H]; exists b; [right; exact H|destruct H as [H|H]; [discriminate|exact H]].
    + intros b H. right. apply IH2. exact H.
Qed.

(* stat *)
Lemma mem_In k l : mem k l = true <-> In k l.
Proof.
  induction l as [|x l IH]; cbn; [split; [discriminate|contradiction]|].
  rewrite orb_true_iff, IH, beqb_eq. split; intros [H|H]; auto.
Qed.

Lemma remove_all_In k x l : In x (remove_all k l) <-> (In x l /\ x <> k).
Proof.
  induction l as [|y l IH]; cbn; [tauto|]. destruct (beqb k y) eqn:E.
  - apply beqb_eq in E. subst y. rewrite IH. split; [intros [H1 H2]; split; [right; exact H1|exact H2]|].
    intros [[H|H] H2]; [congruence|split; assumption].
  - apply beqb_neq in E. cbn. rewrite IH. split.
    + intros [H|[H1 H2]]; [subst; split; [left; reflexivity|congruence]|split; [right; exact H1|exact H2]].
    + intros [[H|H] H2]; [left; exact H|right; split; assumption].
Qed.

Theorem stat_once : forall events need,
  NoDup (map fst (stat_dedupe need events)) /\
  (forall k, In k (map fst (stat_dedupe need events)) <-> (In k need /\ In k (map fst events))) /\
  (forall p, In p (stat_dedupe need events) -> In p events).
Proof.
  induction events as [|[k v] r IH]; intros need; cbn [stat_dedupe map].
  - split; [constructor|]. split; [intros k; cbn; tauto|intros p []].
  - destruct (mem k need) eqn:E.
    + destruct (IH (remove_all k need)) as (A & B & C). cbn [map fst]. split; [|split].
      * constructor; [|exact A]. intros H. apply B in H as [H _]. apply remove_all_In in H as [_ H]. congruence.
      * intros x. cbn [In]. rewrite B, remove_all_In. apply mem_In in E. split.
        -- intros [<-|[[H1 H2] H3]]; [split; [exact E|left; reflexivity]|split; [exact H1|right; exact H3]].
        -- intros [H1 [H2|H2]]; [left; exact H2|].
           destruct (beqb x k) eqn:Ex; [apply beqb_eq in Ex; left; congruence|apply beqb_neq in Ex; right; auto].
      * intros p [<-|H]; [left; reflexivity|right; apply C; exact H].
    + destruct (IH need) as (A & B & C). split; [exact A|]. split.
      * intros x. rewrite B. cbn [In fst]. split; [intros [H1 H2]; auto|].
        intros [H1 [H2|H2]]; [|auto]. subst x. apply mem_In in H1. congruence.
      * intros p H. right. apply C. exact H.
Qed.

Theorem enumerate_once readers cursor limit : Forall ssorted readers ->
  replica_enumerate readers cursor limit = firstn limit (after cursor (union readers)).
Proof. apply merged_enumerate_exact. Qed.

(* what "the sorted union" means: a key is listed iff some reader holds it; the list is strictly ascending *)
Lemma lookup_union k rs : Forall ssorted rs ->
  (lookup k (union rs) <> None <-> exists r, In r rs /\ lookup k r <> None).
Proof.
  induction 1 as [|r rs H Hs IH]; cbn [union fold_right].
  - split; [intros X; contradiction|intros (r & [] & _)].
  - fold (union rs). rewrite lookup_merge by (try apply union_sorted; assumption).
    destruct (lookup k r) as [v|] eqn:E.
    + split; [intros _; exists r; split; [left; reflexivity|congruence]|discriminate].
    + rewrite IH. split.
      * intros (x & Hx & Hk). exists x. split; [right; exact Hx|exact Hk].
      * intros (x & [<-|Hx] & Hk); [congruence|exists x; split; assumption].
Qed.

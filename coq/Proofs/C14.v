From Coq Require Import List NArith Bool Arith Lia Permutation.
From PK.Model Require Import C14.
Import ListNotations.

Lemma remove_nth_perm {A} : forall (l : list A) i c, nth_error l i = Some c -> Permutation l (c :: remove_nth i l).
Proof.
  induction l as [|x l IH]; intros [|i] c H; cbn in *; try discriminate.
  - injection H as <-. apply Permutation_refl.
  - eapply Permutation_trans; [apply perm_skip; apply IH; exact H|apply perm_swap].
Qed.

(* the checker is sound: when it accepts, there is an ordering of all the calls that is a run of the sequential object and
   never puts a call after one that was invoked only after it had returned *)
Theorem search_sound : forall fuel present l, search fuel present l = true ->
  exists s, Permutation s l /\ valid_seq present s = true /\ respects_rt s = true.
Proof.
  induction fuel as [|f IH]; intros present l H.
  - destruct l; [exists []; repeat split; constructor|discriminate].
  - destruct l as [|x l']; [exists []; repeat split; constructor|].
    cbn [search] in H. apply existsb_exists in H as (i & _ & Hi).
    destruct (nth_error (x :: l') i) as [c|] eqn:E; [|discriminate].
    apply andb_true_iff in Hi as [Hi Hs]. apply andb_true_iff in Hi as [Hm Ho].
    destruct (IH _ _ Hs) as (s & Hp & Hv & Hr).
    exists (c :: s). split; [|split].
    + eapply Permutation_trans; [apply perm_skip; exact Hp|apply Permutation_sym, remove_nth_perm; exact E].
    + cbn [valid_seq]. rewrite Ho, Hv. reflexivity.
    + cbn [respects_rt]. rewrite Hr, andb_true_r.
      unfold minimal in *. rewrite forallb_forall in *. intros d Hd. apply Hm. eapply Permutation_in; [exact Hp|exact Hd].
Qed.

Theorem lin_check_sound : forall b l, lin_check b l = true ->
  exists s, Permutation s l /\ valid_seq b s = true /\ respects_rt s = true.
Proof. intros b l. apply search_sound. Qed.

(* ... and complete: any witness is found (so a rejection means there is none) *)
Lemma nth_error_In_seq {A} (l : list A) i c : nth_error l i = Some c -> In i (seq 0 (length l)).
Proof. intros H. apply in_seq. split; [lia|]. cbn. apply nth_error_Some. congruence. Qed.

Lemma perm_remove {A} (c : A) s l : Permutation (c :: s) l -> exists i, nth_error l i = Some c /\ Permutation s (remove_nth i l).
Proof.
  intros H. assert (Hin : In c l) by (eapply Permutation_in; [exact H|left; reflexivity]).
  apply In_nth_error in Hin as [i Hi]. exists i. split; [exact Hi|].
  apply (Permutation_cons_inv (a := c)). eapply Permutation_trans; [exact H|apply remove_nth_perm; exact Hi].
Qed.

Lemma minimal_perm c a b : Permutation a b -> minimal c a = minimal c b.
Proof.
  intros H. unfold minimal. apply eq_true_iff_eq. rewrite !forallb_forall. split; intros X d Hd; apply X.
  - eapply Permutation_in; [apply Permutation_sym; exact H|exact Hd].
  - eapply Permutation_in; [exact H|exact Hd].
Qed.

Lemma search_perm_fuel : forall fuel present l l', Permutation l l' -> search fuel present l = true -> search fuel present l' = true.
Proof.
  induction fuel as [|f IH]; intros present l l' Hp H.
  - destruct l; [|discriminate]. apply Permutation_nil in Hp. subst. reflexivity.
  - destruct l as [|x l0]; [apply Permutation_nil in Hp; subst; reflexivity|].
    destruct l' as [|y l1]; [apply Permutation_sym, Permutation_nil in Hp; discriminate|].
    cbn [search] in H |- *. apply existsb_exists in H as (i & _ & Hi).
    destruct (nth_error (x :: l0) i) as [c|] eqn:E; [|discriminate].
    apply andb_true_iff in Hi as [Hi Hs]. apply andb_true_iff in Hi as [Hm Ho].
    assert (Hc : Permutation (c :: remove_nth i (x :: l0)) (y :: l1)).
    { eapply Permutation_trans; [apply Permutation_sym, remove_nth_perm; exact E|exact Hp]. }
    destruct (perm_remove _ _ _ Hc) as (j & Ej & Hj).
    apply existsb_exists. exists j. split; [eapply nth_error_In_seq; exact Ej|]. rewrite Ej.
    rewrite <- (minimal_perm c _ _ Hj), Hm, Ho. cbn. eapply IH; [exact Hj|exact Hs].
Qed.

Theorem search_complete : forall s present, valid_seq present s = true -> respects_rt s = true -> search (length s) present s = true.
Proof.
  induction s as [|c s IH]; intros present Hv Hr; [reflexivity|].
  cbn [valid_seq] in Hv. apply andb_true_iff in Hv as [Ho Hv]. cbn [respects_rt] in Hr. apply andb_true_iff in Hr as [Hm Hr].
  cbn [length search]. apply existsb_exists. exists 0%nat. split; [apply in_seq; cbn; lia|]. cbn [nth_error remove_nth].
  rewrite Hm, Ho. cbn. apply IH; assumption.
Qed.

Theorem lin_check_complete : forall b l s, Permutation s l -> valid_seq b s = true -> respects_rt s = true -> lin_check b l = true.
Proof.
  intros b l s Hp Hv Hr. unfold lin_check. rewrite <- (Permutation_length Hp).
  eapply search_perm_fuel; [exact Hp|apply search_complete; assumption].
Qed.

(* a store whose every call takes effect atomically at some instant between its invocation and its return (what a mutex
   around each call gives) only produces histories the checker accepts *)
Theorem atomic_histories_accepted : forall b s, valid_seq b s = true -> respects_rt s = true -> forall l, Permutation s l -> lin_check b l = true.
Proof. intros b s Hv Hr l Hp. eapply lin_check_complete; eassumption. Qed.

(* ---- witnesses ---- *)
Lemma same_calls_perm s l : same_calls s l = true -> Permutation s l.
Proof.
  intros H. apply (Permutation_count_occ call_eq_dec). intros c.
  unfold same_calls in H. rewrite forallb_forall in H.
  destruct (in_dec call_eq_dec c (s ++ l)) as [Hin|Hn].
  - apply Nat.eqb_eq. apply H. exact Hin.
  - assert (~ In c s /\ ~ In c l) as [Hs Hl] by (split; intros X; apply Hn; apply in_or_app; auto).
    apply (count_occ_not_In call_eq_dec) in Hs. apply (count_occ_not_In call_eq_dec) in Hl. congruence.
Qed.

Theorem check_witness_sound : forall b l s, check_witness b l s = true ->
  Permutation s l /\ valid_seq b s = true /\ respects_rt s = true.
Proof.
  intros b l s H. unfold check_witness in H. apply andb_true_iff in H as [H Hr]. apply andb_true_iff in H as [Hp Hv].
  split; [apply same_calls_perm; exact Hp|split; assumption].
Qed.

Theorem check_witness_lin : forall b l s, check_witness b l s = true -> lin_check b l = true.
Proof. intros b l s H. apply check_witness_sound in H as (Hp & Hv & Hr). eapply lin_check_complete; eassumption. Qed.

(* ---- the per-ref reading never rejects a linearizable store: if the whole history (enumerations included) has a
   sequential witness, so has what it says about each ref ---- *)
Lemma proj_times k c x : proj k c = Some x -> c_inv x = g_inv c /\ c_ret x = g_ret c.
Proof.
  unfold proj. destruct (g_op c) as [k'|k'|k' seen|listed]; try destruct (Nat.eqb k k'); intros H; try discriminate;
    injection H as <-; split; reflexivity.
Qed.

Lemma project_minimal k c x rest : proj k c = Some x -> g_minimal c rest = true -> minimal x (project k rest) = true.
Proof.
  intros Hx Hm. apply proj_times in Hx as [Hi _]. unfold minimal, g_minimal in *. rewrite forallb_forall in *.
  induction rest as [|d rest IH]; [intros y []|].
  cbn [project]. assert (Hd := Hm d (or_introl eq_refl)).
  assert (Hrest : forall y, In y rest -> negb (g_ret y <? g_inv c) = true) by (intros y Hy; apply Hm; right; exact Hy).
  destruct (proj k d) as [y|] eqn:Ey.
  - intros z [<-|Hz].
    + apply proj_times in Ey as [_ Hr]. rewrite Hi, Hr. exact Hd.
    + apply IH; [exact Hrest|exact Hz].
  - apply IH. exact Hrest.
Qed.

Lemma project_rt k : forall s, g_respects_rt s = true -> respects_rt (project k s) = true.
Proof.
  induction s as [|c s IH]; intros H; [reflexivity|].
  cbn [g_respects_rt] in H. apply andb_true_iff in H as [Hm Hr]. cbn [project].
  destruct (proj k c) as [x|] eqn:E; [|apply IH; exact Hr].
  cbn [respects_rt]. rewrite (project_minimal k c x s E Hm), (IH Hr). reflexivity.
Qed.

Lemma project_valid k : forall s st, g_valid st s -> valid_seq (st k) (project k s) = true.
Proof.
  induction s as [|c s IH]; intros st H; [reflexivity|].
  cbn [g_valid] in H. destruct H as [Hok Hv]. specialize (IH _ Hv). cbn [project].
  unfold proj, g_ok, g_next in *. destruct (g_op c) as [k'|k'|k' seen|listed]; cbn beta in IH.
  - destruct (Nat.eqb k k') eqn:E; [|exact IH]. cbn. exact IH.
  - destruct (Nat.eqb k k') eqn:E; [|exact IH]. cbn. exact IH.
  - destruct (Nat.eqb k k') eqn:E; [|exact IH]. apply Nat.eqb_eq in E. subst k'.
    cbn. unfold ok, next. cbn. rewrite Hok, eqb_reflx. exact IH.
  - cbn. unfold ok, next. cbn. rewrite (Hok k), eqb_reflx. exact IH.
Qed.

Lemma project_perm k : forall s l, Permutation s l -> Permutation (project k s) (project k l).
Proof.
  intros s l H. induction H as [|c s l H IH|c d s|s l m H1 IH1 H2 IH2]; cbn [project].
  - constructor.
  - destruct (proj k c); [apply perm_skip|]; exact IH.
  - destruct (proj k c), (proj k d); try apply Permutation_refl. apply perm_swap.
  - eapply Permutation_trans; eassumption.
Qed.

Theorem linearizable_store_accepted : forall (h s : list gcall) st, Permutation s h -> g_valid st s -> g_respects_rt s = true ->
  forall k, lin_check (st k) (project k h) = true.
Proof.
  intros h s st Hp Hv Hr k. eapply lin_check_complete.
  - apply project_perm. exact Hp.
  - apply project_valid. exact Hv.
  - apply project_rt. exact Hr.
Qed.

(* examples: a stale read is rejected, an overlapping one accepted *)
Lemma stale_read_rejected :
  lin_check false [ {| c_inv := 1; c_ret := 2; c_op := KReceive; c_res := true |};
                    {| c_inv := 3; c_ret := 4; c_op := KRead; c_res := false |} ] = false
  /\ lin_check false [ {| c_inv := 1; c_ret := 4; c_op := KReceive; c_res := true |};
                       {| c_inv := 2; c_ret := 3; c_op := KRead; c_res := false |} ] = true
  /\ lin_check false [ {| c_inv := 1; c_ret := 2; c_op := KReceive; c_res := true |};
                       {| c_inv := 3; c_ret := 6; c_op := KRemove; c_res := true |};
                       {| c_inv := 4; c_ret := 5; c_op := KRead; c_res := true |};
                       {| c_inv := 7; c_ret := 8; c_op := KRead; c_res := true |} ] = false.
Proof. vm_compute. repeat split. Qed.

(* ---- overlay's writers (D50) ---- *)
(* when each writer runs its two steps without the other in between, the blob is there exactly if the last writer was an upload *)
Lemma ov_serial_last : forall ops s o,
  ov_present (ov_run s (flat_map ov_atomic (ops ++ [o]))) = match o with OvRecv => true | OvRem => false end.
Proof.
  intros ops s o. unfold ov_run. rewrite flat_map_app, fold_left_app. cbn [flat_map app].
  set (s1 := fold_left ov_step (flat_map ov_atomic ops) s). destruct o; cbn; reflexivity.
Qed.

(* interleaved, an upload that runs between the two steps of a removal is lost: the blob is absent after the removal's first
   step (a reader sees that), the upload begins and completes, the removal completes, and the blob is absent for good -
   a history the judge rejects *)
Lemma ov_interleaved_loses_upload :
  let s0 := {| ov_up := true; ov_del := false |} in
  ov_present (ov_run s0 [RemUpper]) = false /\
  ov_present (ov_run s0 [RemUpper; RecvUpper; RecvClear; RemMark]) = false /\
  lin_check true [ {| c_inv := 1; c_ret := 6; c_op := KRemove; c_res := true |};
                   {| c_inv := 2; c_ret := 3; c_op := KRead; c_res := false |};
                   {| c_inv := 4; c_ret := 5; c_op := KReceive; c_res := true |};
                   {| c_inv := 7; c_ret := 8; c_op := KRead; c_res := false |} ] = false.
Proof. vm_compute. repeat split; reflexivity. Qed.

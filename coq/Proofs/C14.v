From Coq Require Import List NArith Bool Arith Lia Permutation.
From PK.Model Require Import C14.
Import ListNotations.

Lemma remove_nth_perm {A} : forall (l : list A) i c, nth_error l i = Some c -> Permutation l (c :: remove_nth i l).
Proof.
  induction l as [|x l IH]; intros [|i] c H; cbn in *; try discriminate.
  - injection H as <-. apply Permutation_refl.
  - eapply Permutation_trans; [apply perm_skip; apply IH; exact H|apply perm_swap].
Qed.

(* the checker is sound: when it accepts, there is an ordering of all the calls that is a run of the sequential object and
   never puts a call after one that was invoked only after it had returned *)
Theorem search_sound : forall fuel present l, search fuel present l = true ->
  exists s, Permutation s l /\ valid_seq present s = true /\ respects_rt s = true.
Proof.
  induction fuel as [|f IH]; intros present l H.
  - destruct l; [exists []; repeat split; constructor|discriminate].
  - destruct l as [|x l']; [exists []; repeat split; constructor|].
    cbn [search] in H. apply existsb_exists in H as (i & _ & Hi).
    destruct (nth_error (x :: l') i) as [c|] eqn:E; [|discriminate].
    apply andb_true_iff in Hi as [Hi Hs]. apply andb_true_iff in Hi as [Hm Ho].
    destruct (IH _ _ Hs) as (s & Hp & Hv & Hr).
    exists (c :: s). split; [|split].
    + eapply Permutation_trans; [apply perm_skip; exact Hp|apply Permutation_sym, remove_nth_perm; exact E].
    + cbn [valid_seq]. rewrite Ho, Hv. reflexivity.
    + cbn [respects_rt]. rewrite Hr, andb_true_r.
      unfold minimal in *. rewrite forallb_forall in *. intros d Hd. apply Hm. eapply Permutation_in; [exact Hp|exact Hd].
Qed.

Theorem lin_check_sound : forall b l, lin_check b l = true ->
  exists s, Permutation s l /\ valid_seq b s = true /\ respects_rt s = true.
Proof. intros b l. apply search_sound. Qed.

(* ... and complete: any witness is found (so a rejection means there is none) *)
Lemma nth_error_In_seq {A} (l : list A) i c : nth_error l i = Some c -> In i (seq 0 (length l)).
Proof. intros H. apply in_seq. split; [lia|]. cbn. apply nth_error_Some. congruence. Qed.

Lemma perm_remove {A} (c : A) s l : Permutation (c :: s) l -> exists i, nth_error l i = Some c /\ Permutation s (remove_nth i l).
Proof.
  intros H. assert (Hin : In c l) by (eapply Permutation_in; [exact H|left; reflexivity]).
  apply In_nth_error in Hin as [i Hi]. exists i. split; [exact Hi|].
  apply (Permutation_cons_inv (a := c)). eapply Permutation_trans; [exact H|apply remove_nth_perm; exact Hi].
Qed.

Lemma minimal_perm c a b : Permutation a b -> minimal c a = minimal c b.
Proof.
  intros H. unfold minimal. apply eq_true_iff_eq. rewrite !forallb_forall. split; intros X d Hd; apply X.
  - eapply Permutation_in; [apply Permutation_sym; exact H|exact Hd].
  - eapply Permutation_in; [exact H|exact Hd].
Qed.

Lemma search_perm_fuel : forall fuel present l l', Permutation l l' -> search fuel present l = true -> search fuel present l' = true.
Proof.
  induction fuel as [|f IH]; intros present l l' Hp H.
  - destruct l; [|discriminate]. apply Permutation_nil in Hp. subst. reflexivity.
  - destruct l as [|x l0]; [apply Permutation_nil in Hp; subst; reflexivity|].
    destruct l' as [|y l1]; [apply Permutation_sym, Permutation_nil in Hp; discriminate|].
    cbn [search] in H |- *. apply existsb_exists in H as (i & _ & Hi).
    destruct (nth_error (x :: l0) i) as [c|] eqn:E; [|discriminate].
    apply andb_true_iff in Hi as [Hi Hs]. apply andb_true_iff in Hi as [Hm Ho].
    assert (Hc : Permutation (c :: remove_nth i (x :: l0)) (y :: l1)).
    { eapply Permutation_trans; [apply Permutation_sym, remove_nth_perm; exact E|exact Hp]. }
    destruct (perm_remove _ _ _ Hc) as (j & Ej & Hj).
    apply existsb_exists. exists j. split; [eapply nth_error_In_seq; exact Ej|]. rewrite Ej.
    rewrite <- (minimal_perm c _ _ Hj), Hm, Ho. cbn. eapply IH; [exact Hj|exact Hs].
Qed.

Theorem search_complete : forall s present, valid_seq present s = true -> respects_rt s = true -> search (length s) present s = true.
Proof.
  induction s as [|c s IH]; intros present Hv Hr; [reflexivity|].
  cbn [valid_seq] in Hv. apply andb_true_iff in Hv as [Ho Hv]. cbn [respects_rt] in Hr. apply andb_true_iff in Hr as [Hm Hr].
  cbn [length search]. apply existsb_exists. exists 0%nat. split; [apply in_seq; cbn; lia|]. cbn [nth_error remove_nth].
  rewrite Hm, Ho. cbn. apply IH; assumption.
Qed.

Theorem lin_check_complete : forall b l s, Permutation s l -> valid_seq b s = true -> respects_rt s = true -> lin_check b l = true.
Proof.
  intros b l s Hp Hv Hr. unfold lin_check. rewrite <- (Permutation_length Hp).
  eapply search_perm_fuel; [exact Hp|apply search_complete; assumption].
Qed.

From Coq Require Import String.
From Coq Require Import List NArith Bool Lia.
From PK.Generated Require Import Consts.
From PK.Model Require Import C17.
Import ListNotations.

Lemma memN_In b l : memN b l = true <-> In b l.
Proof. unfold memN. rewrite existsb_exists. split; [intros (x & H & E); apply N.eqb_eq in E; subst; exact H|intros H; exists b; split; [exact H|apply N.eqb_refl]]. Qed.

(* ================= the chains of the statement ================= *)
Section Spec.
  Variable st : store.
  Variable deleted : list N.

  Inductive path : N -> list N -> Prop :=
  | path_nil b : path b []
  | path_cons b n nxt rest : lookup b st = Some n -> In nxt (links_spec n) -> path nxt rest -> path b (nxt :: rest).

  Definition valid_chain (chain : list N) : Prop :=
    exists c0 rest t tr, chain = c0 :: rest /\ ~ In c0 deleted /\ lookup c0 st = Some (NShare t tr false) /\
      (rest = [] \/ exists rest', rest = t :: rest' /\ t <> 0%N /\ (rest' = [] \/ tr = true) /\ path t rest').

  Variable links : node -> list N.

  Lemma hops_sound : (forall n, incl (links n) (links_spec n)) -> forall rest cur b, hops links st cur rest = VServed b ->
    path cur rest /\ last (cur :: rest) 0%N = b /\ lookup b st <> None.
  Proof.
    intros Hincl. induction rest as [|nxt rest IH]; intros cur b H; cbn [hops] in H.
    - destruct (lookup cur st) eqn:E; [|discriminate]. injection H as <-. split; [constructor|]. split; [reflexivity|congruence].
    - destruct (lookup cur st) as [n|] eqn:E; [|discriminate]. destruct (memN nxt (links n)) eqn:Em; [|discriminate].
      destruct (IH nxt b H) as (P & L & X). split; [|split; [|exact X]].
      + econstructor; [exact E|apply Hincl; apply memN_In; exact Em|exact P].
      + change (last (cur :: nxt :: rest) 0%N) with (last (nxt :: rest) 0%N). exact L.
  Qed.

  Lemma hops_complete : (forall n, links n = links_spec n) -> forall rest cur, path cur rest -> lookup (last (cur :: rest) 0%N) st <> None ->
    hops links st cur rest = VServed (last (cur :: rest) 0%N).
  Proof.
    intros Heq. induction rest as [|nxt rest IH]; intros cur P Hl; cbn [hops].
    - cbn in Hl. destruct (lookup cur st); [reflexivity|congruence].
    - inversion P as [|? n ? ? E Hin P']; subst. rewrite E. rewrite Heq. rewrite (proj2 (memN_In nxt _) Hin).
      change (last (cur :: nxt :: rest) 0%N) with (last (nxt :: rest) 0%N) in *. apply IH; assumption.
  Qed.

  (* soundness: whatever is served without credentials lies at the end of a valid share chain *)
  Theorem serve_sound : (forall n, incl (links n) (links_spec n)) -> forall get chain b, serve links st deleted get chain = VServed b ->
    get = true /\ valid_chain chain /\ last chain 0%N = b /\ lookup b st <> None.
  Proof.
    intros Hincl get chain b. unfold serve. destruct get; cbn [negb]; [|discriminate].
    destruct chain as [|c0 rest]; [discriminate|]. destruct (memN c0 deleted) eqn:Ed; [discriminate|].
    destruct (lookup c0 st) as [[t tr ex| |]|] eqn:E0; try discriminate. destruct ex; [discriminate|].
    assert (Hnd : ~ In c0 deleted) by (intros X; apply memN_In in X; congruence).
    destruct rest as [|c1 rest'].
    - intros H. injection H as <-. split; [reflexivity|]. split; [|split; [reflexivity|congruence]].
      exists c0, [], t, tr. repeat split; try assumption. left; reflexivity.
    - destruct (negb (N.eqb c1 t) || N.eqb t 0) eqn:Et; [discriminate|]. apply orb_false_iff in Et as [E1 E2].
      apply negb_false_iff, N.eqb_eq in E1. subst c1. apply N.eqb_neq in E2.
      destruct (negb tr && match rest' with [] => false | _ => true end) eqn:Etr; [discriminate|].
      intros H. destruct (hops_sound Hincl rest' t b H) as (P & L & X). split; [reflexivity|]. split; [|split; [exact L|exact X]].
      exists c0, (t :: rest'), t, tr. repeat split; try assumption. right. exists rest'. repeat split; try assumption.
      destruct rest'; [left; reflexivity|right]. destruct tr; [reflexivity|discriminate].
  Qed.

  (* completeness: every valid chain to an existing blob is served (GET) when the link check consults every link field *)
  Theorem serve_complete : (forall n, links n = links_spec n) -> forall chain, valid_chain chain -> lookup (last chain 0%N) st <> None ->
    serve links st deleted true chain = VServed (last chain 0%N).
  Proof.
    intros Heq chain (c0 & rest & t & tr & -> & Hnd & E0 & Hr) Hl. unfold serve. cbn [negb].
    assert (memN c0 deleted = false) as -> by (destruct (memN c0 deleted) eqn:X; [apply memN_In in X; contradiction|reflexivity]).
    rewrite E0. destruct Hr as [->|(rest' & -> & Ht & Htr & P)]; [reflexivity|].
    rewrite N.eqb_refl. cbn [negb orb]. apply N.eqb_neq in Ht. rewrite Ht.
    assert (negb tr && match rest' with [] => false | _ => true end = false) as ->.
    { destruct Htr as [->| ->]; [apply andb_false_r|reflexivity]. }
    change (last (c0 :: t :: rest') 0%N) with (last (t :: rest') 0%N) in *. apply hops_complete; assumption.
  Qed.

  (* a blob that is not a schema blob with link fields authorises no hop, whatever refs its bytes mention *)
  Lemma mention_is_not_a_link cur nxt rest : (forall n, incl (links n) (links_spec n)) -> lookup cur st = Some NOther -> hops links st cur (nxt :: rest) = VUnauth.
  Proof.
    intros Hincl E. cbn [hops]. rewrite E. destruct (memN nxt (links NOther)) eqn:X; [|reflexivity].
    apply memN_In, Hincl in X. destruct X.
  Qed.

  Lemma only_get chain : serve links st deleted false chain = VBad.
  Proof. reflexivity. Qed.
End Spec.

Lemma incl_opt (a b c d : bool) (p q r s : list N) :
  incl ((if a then p else []) ++ (if b then q else []) ++ (if c then r else []) ++ (if d then s else [])) (p ++ q ++ r ++ s).
Proof. intros x Hx. rewrite !in_app_iff in *. destruct a, b, c, d; cbn in Hx; tauto. Qed.

Lemma links_impl_incl n : incl (links_impl n) (links_spec n).
Proof. destruct n as [| parts dir members merge |]; cbn [links_impl links_spec]; [apply incl_refl|apply incl_opt|apply incl_refl]. Qed.

Lemma sound_impl : forall st deleted get chain b, serve links_impl st deleted get chain = VServed b ->
  get = true /\ valid_chain st deleted chain /\ last chain 0%N = b /\ lookup b st <> None.
Proof. intros st deleted. exact (serve_sound st deleted links_impl links_impl_incl). Qed.

Lemma complete_impl : (forall n, links_impl n = links_spec n) -> forall st deleted chain, valid_chain st deleted chain -> lookup (last chain 0%N) st <> None ->
  serve links_impl st deleted true chain = VServed (last chain 0%N).
Proof. intros H st deleted. exact (serve_complete st deleted links_impl H). Qed.

Lemma mention_impl : forall st cur nxt rest, lookup cur st = Some NOther -> hops links_impl st cur (nxt :: rest) = VUnauth.
Proof. intros st cur nxt rest. exact (mention_is_not_a_link st links_impl cur nxt rest links_impl_incl). Qed.

Definition links_old (n : node) : list N := match n with NSchema parts dir members merge => parts ++ dir ++ members | _ => [] end.
Definition d19_store : store := [(1, NShare 2 true false); (2, NSchema [] [3] [] []); (3, NSchema [] [] [] [4]); (4, NSchema [] [] [5] []); (5, NOther)]%N.
Lemma without_merge_sets : valid_chain d19_store [] [1; 2; 3; 4; 5]%N /\ serve links_old d19_store [] true [1; 2; 3; 4; 5]%N = VUnauth.
Proof.
  split; [|reflexivity].
  exists 1%N, [2; 3; 4; 5]%N, 2%N, true. repeat split; try reflexivity; try (intros []).
  right. exists [3; 4; 5]%N. repeat split; try reflexivity; try discriminate; [right; reflexivity|].
  econstructor; [reflexivity|left; reflexivity|]. econstructor; [reflexivity|left; reflexivity|].
  econstructor; [reflexivity|left; reflexivity|]. constructor.
Qed.

(* ================= the table of handler types that are wrapped by auth ================= *)
Definition exempt_types : list string := ["root"; "share"]%string.
Definition auth_table_ok : bool :=
  forallb (fun t => existsb (String.eqb t) exempt_types || existsb (String.eqb t) handler_types_want_auth) registered_handler_types.

Lemma auth_table_spec : auth_table_ok = true ->
  forall t, In t registered_handler_types -> ~ In t exempt_types -> In t handler_types_want_auth.
Proof.
  unfold auth_table_ok. rewrite forallb_forall. intros H t Ht Hn. specialize (H t Ht). apply orb_true_iff in H as [H|H].
  - exfalso. apply Hn. apply existsb_exists in H as (x & Hx & E). apply String.eqb_eq in E. subst. exact Hx.
  - apply existsb_exists in H as (x & Hx & E). apply String.eqb_eq in E. subst. exact Hx.
Qed.

Lemma auth_table : forall t, In t registered_handler_types -> ~ In t exempt_types -> In t handler_types_want_auth.
Proof. exact (auth_table_spec eq_refl). Qed.

